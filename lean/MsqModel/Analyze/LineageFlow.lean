import MsqModel.Analyze.Lineage
import MsqModel.Analyze.LineageSpec
/-!
# Specification of column lineage, extended (C16): unqualified references, derived tables at any depth,
# WITH tables, INSERT pairing

`Flow` is denotational.  A relation (`Spec.Rel`) is a list of output columns in order, each with the base columns
flowing into it.  A *scope* binds, in FROM / JOIN order, the name a table is referred to by (alias, else table
name) to the relation it denotes:

* a base table of the catalogue denotes its columns, each flowing from itself;
* a derived table `(q) x` denotes the flow of `q` (**composition**: what flows into an output column is the
  concatenation, in reading order, of what flows into the inner columns it reads);
* a WITH table denotes the flow of its query, for the statement it is attached to and everything nested in it.

A reference is resolved in the scope of its own level only:

* `t.c` — the relation bound to `t` must exist and have a column `c`, else **analysis error**;
* `c` — **exactly one** relation in scope (counted per FROM / JOIN item, so a self-join counts twice) must have a
  column `c`; none or several is an **analysis error** — whether or not the matching relations carry base sources.

The recursion over the nesting of queries is by a depth budget (`Nat`), spent exactly as the analysis spends its own
(one unit per level and per sibling), so that "deep enough" means the same on both sides; `.outside` is returned for
everything the extended fragment does not cover (and when the budget is too small), and no theorem speaks about it.
-/
namespace Flow
open Ast LN Spec
open AN (QCol SCol dictGet?)

/-- `analysis`: the query must be refused with the library's analysis error; `outside`: not covered by this specification -/
inductive FErr | analysis | outside
  deriving DecidableEq, Repr

abbrev Scope := List (String × Rel)

def relHas (R : Rel) (n : String) : Bool := (R.map (·.1)).contains n

/-- `t.c` -/
def refQ (scope : Scope) (t n : String) : Except FErr (List SrcCol) :=
  match dictGet? scope t with
  | none => .error .analysis
  | some R => match dictGet? R n with
    | some s => .ok s
    | none => .error .analysis

/-- `c`: the unique relation in scope that has the column -/
def refU (scope : Scope) (n : String) : Except FErr (List SrcCol) :=
  match (scope.map (·.2)).filter (fun R => relHas R n) with
  | [R] => (match dictGet? R n with | some s => .ok s | none => .error .analysis)
  | _ => .error .analysis

/-- the tables a list of source lists comes from, once each, in order of first appearance -/
def tablesOfSrcs (srcss : List (List SrcCol)) (init : List StdTable) : List StdTable :=
  srcss.foldl (fun ts srcs => srcs.foldl (fun ts s => if ts.contains (s.schema, s.table) then ts else ts ++ [(s.schema, s.table)]) ts) init

/-- the upstream tables of a relation: the tables its columns' sources come from, once each, in order of first appearance -/
def relTables (R : Rel) : List StdTable := tablesOfSrcs (R.map (·.2)) []

/-- an aggregate without column argument (`COUNT(1)`): it depends on every upstream table of every FROM / JOIN item as a whole —
one source `(schema, table, no column)` per upstream table, item by item (a table reached through two items is listed twice) -/
def anonOf (scope : Scope) : List SrcCol :=
  scope.flatMap fun p => (relTables p.2).map fun t => (⟨t.1, t.2, none⟩ : SrcCol)

/-- one reference (the reference `*` of `COUNT(*)` is outside this specification) -/
def ref (scope : Scope) (r : QCol) : Except FErr (List SrcCol) :=
  match r.table, r.name, r.idx with
  | some t, some n, none => if n == "*" then .error .outside else refQ scope t n
  | none, some n, none => if n == "*" then .error .outside else refU scope n
  | none, none, none => .ok (anonOf scope)
  | _, _, _ => .error .outside

def refs (scope : Scope) : List QCol → Except FErr (List SrcCol)
  | [] => .ok []
  | r :: rest => do
    let a ← ref scope r
    let b ← refs scope rest
    pure (a ++ b)

def itemsGo (scope : Scope) : List (Expr × Option String) → Except FErr Rel
  | [] => .ok []
  | it :: rest => do
    let s ← refs scope (colsE it.1)
    let r ← itemsGo scope rest
    pure (((itemName it).getD "", s) :: r)

/-- the output columns of one SELECT over a scope: name from alias, else column name (every item must be named that way:
other unaliased expressions are outside this specification); sources = what its references read, item by item, left to right -/
def items (scope : Scope) (its : List (Expr × Option String)) : Except FErr Rel :=
  if its.all (fun it => (itemName it).isSome) then itemsGo scope its else .error .outside

/-- the name a FROM / JOIN item is referred to by -/
def keyOf : FromTable → Option String
  | .mk (.table _ n) a => some (a.getD n)
  | .mk (.sub _) a => a

/-- the derived tables of a level, in order -/
def derivedOf : List FromTable → List (String × Query)
  | [] => []
  | .mk (.sub q) (some a) :: r => (a, q) :: derivedOf r
  | _ :: r => derivedOf r

/-- the base-table names a level reads -/
def baseOf : List FromTable → List String
  | [] => []
  | .mk (.table _ n) _ :: r => n :: baseOf r
  | _ :: r => baseOf r

/-- the scope of a level: WITH tables in `wenv` shadow the catalogue; `rels` are the flows of the level's derived tables -/
def scopeOf (cat : Cat) (wenv rels : Scope) : List FromTable → Except FErr Scope
  | [] => .ok []
  | .mk (.table s n) a :: r => do
    let R ← (match dictGet? wenv n with
      | some R => .ok R
      | none => match catLookup cat (s, n) with
        | some c => .ok (baseRel c)
        | none => .error .outside : Except FErr Rel)
    let rest ← scopeOf cat wenv rels r
    pure ((a.getD n, R) :: rest)
  | .mk (.sub _) (some a) :: r => do
    let R ← (match dictGet? rels a with | some R => .ok R | none => .error .outside : Except FErr Rel)
    let rest ← scopeOf cat wenv rels r
    pure ((a, R) :: rest)
  | .mk (.sub _) none :: _ => .error .outside

def keysOf (fts : List FromTable) : List (Option String) := fts.map keyOf

/-- the level is in the fragment: every FROM / JOIN item has a name, the names are pairwise distinct -/
def levelOK (fts : List FromTable) : Bool := (keysOf fts).all (·.isSome) && decide (keysOf fts).Nodup

def nodupNames (R : Rel) : Bool := decide (R.map (·.1)).Nodup

/-! ### the level of a query: one SELECT, or a set operation -/

/-- the numbered output columns of one SELECT and the references each reads -/
def curOf : List (Expr × Option String) → Nat → List (SCol × List QCol)
  | [], _ => []
  | it :: r, idx => (⟨Int.ofNat idx, (itemName it).getD ""⟩, colsE it.1) :: curOf r (idx + 1)

/-- what flows into each column, given the references it reads -/
def curFlow (scope : Scope) : List (SCol × List QCol) → Except FErr (List (SCol × List SrcCol))
  | [] => .ok []
  | (c, qs) :: r => do
    let s ← refs scope qs
    let b ← curFlow scope r
    pure ((c, s) :: b)

/-- column-wise merge of two branches: names (and positions) of the first, references of both; branches with a different number of
columns are outside this specification (the analysis fails an `assert` there: `C16.union_arity_refused`) -/
def mergeCur (a b : List (SCol × List QCol)) : Except FErr (List (SCol × List QCol)) :=
  if a.length != b.length then .error .outside else .ok (List.zipWith (fun x y => (x.1, x.2 ++ y.2)) a b)

/-- the names a SELECT branch binds in its FROM / JOIN -/
def selKeys (s : Select) : List String := (keysOf (fromTablesOfSelect s)).filterMap id

/-- **the hypothesis that excludes F-C16-7**: every select item of the branch is named, and every reference in it is `t.c` with `t`
bound by the branch's OWN FROM / JOIN (the analysis resolves the references of all branches in ONE scope, so an unqualified
reference, an aggregate without column, or a qualifier bound by another branch would be answered from the wrong tables).  Together
with `levelOK` over the items of all branches (names pairwise distinct ACROSS branches) the one scope and the per-branch scopes agree. -/
def branchOK (s : Select) : Bool :=
  (AN.Select.cols s).all fun it => (itemName it).isSome &&
    (colsE it.1).all fun r => match r.table, r.name, r.idx with
      | some t, some n, none => (selKeys s).contains t && n != "*"
      | _, _, _ => false

def branchPlain : Select → Bool
  | .mk none _ _ _ [] _ _ _ _ _ _ _ _ _ => true
  | .mk (some []) _ _ _ [] _ _ _ _ _ _ _ _ _ => true
  | _ => false

/-- the WITH tables of a query whose own level is covered: a SELECT without LATERAL VIEW, or a set operation of such SELECTs -/
def shape : Query → Option (List WithTable)
  | .single (.mk (some ws) _ _ _ [] _ _ _ _ _ _ _ _ _) => some ws
  | .union (some ws) s us => if (s :: us.map (·.2)).all branchPlain then some ws else none
  | _ => none

/-! ### wildcards -/

def isStar : Expr × Option String → Bool
  | (.wildcard _, none) => true
  | _ => false

/-- **the hypothesis that excludes F-C16-6**: the FROM / JOIN item is referred to by its own table name — a base table or WITH table
WITHOUT alias, or a derived table (whose only name is its alias).  The analysis expands a wildcard into references qualified by the
table's name and then looks that name up among the aliases, so an aliased table is not found (or another item of that name is). -/
def plainKey : FromTable → Bool
  | .mk (.table _ _) none => true
  | .mk (.sub _) (some _) => true
  | _ => false

/-- `x.*`: one output column per column of the relation bound to `x`, in order, each reading that column of `x` -/
def expandRel (key : String) (R : Rel) (idx : Nat) : List (SCol × List QCol) :=
  (R.zipIdx idx).map fun (p, i) => (⟨Int.ofNat i, p.1⟩, [⟨some key, some p.1, none⟩])

/-- `*`: the columns of every FROM / JOIN item, item after item -/
def expandAll : Scope → Nat → List (SCol × List QCol)
  | [], _ => []
  | (k, R) :: r, idx => expandRel k R idx ++ expandAll r (idx + R.length)

/-- the numbered output columns of a SELECT with wildcards, and the references each reads; an unknown `x` in `x.*` is the analysis error -/
def curOfW (scope : Scope) : List (Expr × Option String) → Nat → Except FErr (List (SCol × List QCol))
  | [], _ => .ok []
  | (.wildcard (some t), none) :: r, idx =>
    match dictGet? scope t with
    | none => .error .analysis
    | some R => do
      let rest ← curOfW scope r (idx + R.length)
      pure (expandRel t R idx ++ rest)
  | (.wildcard none, none) :: r, idx => do
    let rest ← curOfW scope r (idx + (expandAll scope idx).length)
    pure (expandAll scope idx ++ rest)
  | it :: r, idx =>
    match itemName it with
    | none => .error .outside
    | some n => do
      let rest ← curOfW scope r (idx + 1)
      pure ((⟨Int.ofNat idx, n⟩, colsE it.1) :: rest)

/-- the flow of one SELECT whose select list contains `*` / `x.*` (every FROM / JOIN item must be `plainKey`) -/
def starFlow (fts : List FromTable) (scope : Scope) (its : List (Expr × Option String)) : Except FErr Rel :=
  if !(fts.all plainKey) then .error .outside else do
  let cur ← curOfW scope its 1
  let data ← curFlow scope cur
  pure (data.map fun p => (p.1.name, p.2))

/-- **the flow of a query's own level over its scope.**  One SELECT: its items.  A set operation (UNION [ALL], EXCEPT, …, the
analysis does not distinguish them): column-wise — names from the first branch, into column i flows what the i-th items of ALL
branches read, branch after branch. -/
def levelFlow (q : Query) (scope : Scope) : Except FErr Rel :=
  match q with
  | .single s =>
    if (AN.Select.cols s).any isStar then starFlow (levelFromTables q) scope (AN.Select.cols s)
    else items scope (AN.Select.cols s)
  | .union _ s us =>
    if !((s :: us.map (·.2)).all branchOK) then .error .outside else do
    let merged ← us.foldlM (fun acc p => mergeCur acc (curOf (AN.Select.cols p.2) 1)) (curOf (AN.Select.cols s) 1)
    let data ← curFlow scope merged
    pure (data.map fun p => (p.1.name, p.2))

/-- WITH tables, then the level's derived tables, then the scope -/
def flowPrefix (cat : Cat) (fts : List FromTable) (W : Except FErr Scope) (S : Scope → Except FErr Scope) : Except FErr Scope := do
  let wenv ← W
  if !levelOK fts then .error .outside else do
  let rels ← S wenv
  scopeOf cat wenv rels fts

mutual
/-- **Flow of a query**, with the WITH tables visible from outside in `wenv` -/
def flowQ (cat : Cat) : Nat → Scope → Query → Except FErr Rel
  | 0, _, _ => .error .outside
  | f + 1, wenv, q =>
    match shape q with
    | none => .error .outside
    | some ws => do
      let scope ← flowPrefix cat (levelFromTables q) (flowWiths cat f wenv ws) (fun w => flowSubs cat f w (derivedOf (levelFromTables q)))
      levelFlow q scope
/-- WITH tables, in order; each sees the ones before it -/
def flowWiths (cat : Cat) : Nat → Scope → List WithTable → Except FErr Scope
  | 0, _, _ => .error .outside
  | _, wenv, [] => .ok wenv
  | f + 1, wenv, .mk n q :: r => do
    let R ← flowQ cat f wenv q
    if !nodupNames R then .error .outside else
    flowWiths cat f (AN.dictSet wenv n R) r
/-- the derived tables of a level, in order -/
def flowSubs (cat : Cat) : Nat → Scope → List (String × Query) → Except FErr Scope
  | 0, _, _ => .error .outside
  | _, _, [] => .ok []
  | f + 1, wenv, (a, q) :: r => do
    let R ← flowQ cat f wenv q
    if !nodupNames R then .error .outside else do
    let rest ← flowSubs cat f wenv r
    pure ((a, R) :: rest)
end

/-! ## names bound and read, for the hygiene condition (the analysis keeps derived-table and WITH lineages in two stores
keyed by bare name, shared by all levels and never cleared: finding F-C16-8) -/

def withNames : List WithTable → List String
  | [] => []
  | .mk n _ :: r => n :: withNames r

mutual
/-- every derived-table alias and WITH name of the query, at every level -/
def bound : Nat → Query → List String
  | 0, _ => []
  | f + 1, q => boundWiths f ((Query.withs q).getD []) ++ boundSubs f (derivedOf (levelFromTables q))
def boundWiths : Nat → List WithTable → List String
  | 0, _ => []
  | _, [] => []
  | f + 1, .mk n q :: r => n :: (bound f q ++ boundWiths f r)
def boundSubs : Nat → List (String × Query) → List String
  | 0, _ => []
  | _, [] => []
  | f + 1, (a, q) :: r => a :: (bound f q ++ boundSubs f r)
end

mutual
/-- every base-table name read, at every level: the names written in a FROM / JOIN that are not WITH tables visible there
(`wn`: the WITH names visible from outside) -/
def reads : Nat → List String → Query → List String
  | 0, _, _ => []
  | f + 1, wn, q =>
    readsWiths f wn ((Query.withs q).getD [])
      ++ (baseOf (levelFromTables q)).filter (fun n => !(wn ++ withNames ((Query.withs q).getD [])).contains n)
      ++ readsSubs f (wn ++ withNames ((Query.withs q).getD [])) (derivedOf (levelFromTables q))
def readsWiths : Nat → List String → List WithTable → List String
  | 0, _, _ => []
  | _, _, [] => []
  | f + 1, wn, .mk n q :: r => reads f wn q ++ readsWiths f (wn ++ [n]) r
def readsSubs : Nat → List String → List (String × Query) → List String
  | 0, _, _ => []
  | _, _, [] => []
  | f + 1, wn, (_, q) :: r => reads f wn q ++ readsSubs f wn r
end

/-- **hygiene** of a query: the names it binds (derived-table aliases and WITH names, at all levels) are pairwise distinct, and no
base table it reads has such a name.  Outside this condition the shared, never-cleared stores make the answer depend on the
order in which the levels are analysed (F-C16-8). -/
def Hygienic (f : Nat) (q : Query) : Prop := (bound f q).Nodup ∧ ∀ n ∈ reads f [] q, n ∉ bound f q

end Flow
