import MsqModel.Analyze.Columns
/-!
# Column lineage (`analyzer/data_linage/*.py`, `toolkit/current_level_table_name_analyzer.py`,
# `toolkit/current_level_sub_query.py`)

Transcribed on the typed tree, method by method, with the exceptions Python raises.  The catalogue is what a
`CreateTableStatementGetter` serves: name ↦ parsed `CREATE TABLE`; the getter's memory cache only matters for the log
of names it was asked for, which is part of the state (`St.asked`).

The table-lineage store (`TableLineageStorage`) is one mutable object handed down through the whole recursion:
`_sub_query_table` and `_with_table` are keyed by alias / WITH name and never cleared.
-/
namespace LN
open Ast AN

/-- `SourceColumn(schema_name, table_name, column_name)` -/
structure SrcCol where
  schema : Option String
  table : String
  col : Option String
  deriving Repr, DecidableEq, Inhabited

def SrcCol.toVal (c : SrcCol) : Val :=
  .node "SourceColumn" [("schema_name", Val.optStr c.schema), ("table_name", .str c.table), ("column_name", Val.optStr c.col)]

/-- `StandardTable(schema_name, table_name)` -/
abbrev StdTable := Option String × String

/-- `StandardTable.source()`: an empty schema is falsy -/
def StdTable.source (t : StdTable) : String :=
  match t.1 with
  | some s => if s.isEmpty then t.2 else s ++ "." ++ t.2
  | none => t.2

/-- `SelectTableLineage` (`table_lineage.py:30-58`): the name list keeps duplicates, the three maps are keyed by name
resp. index (a later entry with the same key replaces the value) -/
structure Lineage where
  data : List (SCol × List SrcCol)
  names : List String
  stdOf : List (String × SCol)
  srcOf : List (String × List SrcCol)
  idxSrc : List (Int × List SrcCol)
  tables : List StdTable
  deriving Inhabited

def Lineage.empty : Lineage := ⟨[], [], [], [], [], []⟩

/-- the constructor's loop -/
def mkLineage : List (SCol × List SrcCol) → Lineage → Lineage
  | [], l => l
  | (c, srcs) :: r, l =>
    mkLineage r { data := l.data ++ [(c, srcs)]
                  names := l.names ++ [c.name]
                  stdOf := dictSet l.stdOf c.name c
                  srcOf := dictSet l.srcOf c.name srcs
                  idxSrc := dictSet l.idxSrc c.idx srcs
                  tables := srcs.foldl (fun ts s => if ts.contains (s.schema, s.table) then ts else ts ++ [(s.schema, s.table)]) l.tables }

/-- `SelectTableLineage.by_create_table_statement` (`:49-58`): 0-based positions -/
def byCreateTable (c : CreateTable) : Lineage :=
  let rec go : List DefCol → Nat → List (SCol × List SrcCol)
    | [], _ => []
    | d :: r, i => (⟨Int.ofNat i, d.name⟩, [⟨c.table.schema, c.table.name, some d.name⟩]) :: go r (i + 1)
  mkLineage (go c.columns 0) Lineage.empty

/-- `has_column` -/
def Lineage.hasColumn (l : Lineage) (n : String) : Bool := l.names.contains n || n == "*"
/-- `get_all_standard_columns`: one entry per name in the list, looked up in the name map -/
def Lineage.allStd (l : Lineage) : Except Err (List SCol) :=
  l.names.mapM fun n => match dictGet? l.stdOf n with | some c => .ok c | none => .error (.py .KeyError)
/-- `get_source_column_list_by_name` -/
def Lineage.srcByName (l : Lineage) (n : String) : Except Err (List SrcCol) :=
  if n != "*" then (match dictGet? l.srcOf n with | some s => .ok s | none => .error (.py .KeyError))
  else .ok (l.srcOf.flatMap (·.2))
/-- `get_source_column_list_by_idx` -/
def Lineage.srcByIdx (l : Lineage) (i : Int) : Except Err (List SrcCol) :=
  match dictGet? l.idxSrc i with | some s => .ok s | none => .error (.py .KeyError)
/-- `all_columns`: the list the object was built from -/
def Lineage.allColumns (l : Lineage) : List (SCol × List SrcCol) := l.data

/-- the mutable state: the sub-query store and the getter's log -/
structure St where
  subq : List (String × Lineage) := []
  withT : List (String × Lineage) := []
  asked : List String := []
  deriving Inhabited

abbrev Cat := List (String × CreateTable)
abbrev M (α : Type) := St → Except Err (α × St)

/-- the getter: `get_statement(name)` with the memory cache (`tool.py:47-60`); the test getter strips back-quotes
from the name before looking it up and raises `KeyError` for an unknown name -/
def getStatement (cat : Cat) (name : String) : M CreateTable := fun st =>
  let st' := if st.asked.contains name then st else { st with asked := st.asked ++ [name] }
  match cat.find? (·.1 == PM.unifyName name) with
  | some (_, c) => .ok (c, st')
  | none => .error (.py .KeyError)

/-- `TableLineageStorage.get_table_lineage` (`table_lineage_storage.py:34-41`) -/
def getTableLineage (cat : Cat) (t : StdTable) : M Lineage := fun st =>
  match dictGet? st.subq t.2 with
  | some l => .ok (l, st)
  | none => match dictGet? st.withT t.2 with
    | some l => .ok (l, st)
    | none => match getStatement cat (StdTable.source t) st with
      | .ok (c, st') => .ok (byCreateTable c, st')
      | .error e => .error e

/-! ## the two current-level dictionaries -/

def fromTablesOfSelect : Select → List FromTable
  | .mk _ _ _ fr _ js _ _ _ _ _ _ _ _ => (fr.getD []) ++ js.map (fun | .mk _ t _ => t)

def branches : Query → List Select
  | .single s => [s]
  | .union _ s us => s :: us.map (·.2)

/-- every `ASTFromTable` the reflective walk reaches at this level (FROM then JOIN of each branch; sub-query
expressions and WITH clauses are not entered) -/
def levelFromTables (q : Query) : List FromTable := (branches q).flatMap fromTablesOfSelect

/-- `CurrentLevelTableNameAnalyzer.handle` (`current_level_table_name_analyzer.py:35-47`) folded into the dict -/
def tableNames : List FromTable → List (String × StdTable) → Except Err (List (String × StdTable))
  | [], acc => .ok acc
  | .mk (.table s n) a :: r, acc => tableNames r (dictSet acc (a.getD n) (s, n))
  | .mk (.sub _) (some a) :: r, acc => tableNames r (dictSet acc a (none, a))
  | .mk (.sub _) none :: _, _ => .error (.py .AttributeError)     -- `node.alias.name` with `alias = None`

/-- `CurrentLevelSubQuery.handle` (`current_level_sub_query.py:26-35`): derived tables *with* an alias -/
def subQueries : List FromTable → List (String × Query) → List (String × Query)
  | [], acc => acc
  | .mk (.sub q) (some a) :: r, acc => subQueries r (dictSet acc a q)
  | _ :: r, acc => subQueries r acc

/-! ## `TableLineageAnalyzer` -/

def Query.withs : Query → Option (List WithTable)
  | .single (.mk ws _ _ _ _ _ _ _ _ _ _ _ _ _) => ws
  | .union ws _ _ => ws

def Select.laterals : Select → List Lateral
  | .mk _ _ _ _ lats _ _ _ _ _ _ _ _ _ => lats

/-- `get_single_lateral_view_clause_column_name_to_quote_columns` (`:278-289`) -/
def lateralSingle (s : Select) : Except Err (List (String × List QCol)) :=
  (Select.laterals s).foldlM (fun acc l => match l with
    | .mk _ fn _ names => do
      let r ← names.mapM fun n => do pure (n, ← nodeColsV fn.toVal)
      pure (acc ++ r)) []

/-- the positional merge of the UNION branches (`:229-250`, `:257-276`): names of the first branch, lists extended -/
def mergeByPos {κ : Type} (a b : List (κ × List QCol)) : Except Err (List (κ × List QCol)) :=
  if a.length != b.length then .error (.py .AssertionError)
  else .ok (List.zipWith (fun x y => (x.1, x.2 ++ y.2)) a b)

def lateralColumns (q : Query) : Except Err (List (String × List QCol)) :=
  match q with
  | .single s => lateralSingle s
  | .union _ s us => do
    let first ← lateralSingle s
    us.foldlM (fun acc p => do mergeByPos acc (← lateralSingle p.2)) first

/-- the wildcard case (`:204-222`): one output column per column of the table's lineage.  The reference carries the
*table's* name (`standard_table.table_name`), not the alias it was reached by. -/
def expandTable (cat : Cat) (t : StdTable) (idx : Nat) : M (List (SCol × List QCol)) := fun st => do
  let (lin, st) ← getTableLineage cat t st
  let cols ← lin.allStd
  pure ((cols.zipIdx idx).map (fun (c, i) => (⟨Int.ofNat i, c.name⟩, [⟨some t.2, some c.name, none⟩])), st)

def expandTables (cat : Cat) : List StdTable → Nat → M (List (SCol × List QCol))
  | [], _ => fun st => .ok ([], st)
  | t :: r, idx => fun st => do
    let (a, st) ← expandTable cat t idx st
    let (b, st) ← expandTables cat r (idx + a.length) st
    pure (a ++ b, st)

/-- `get_single_current_level_standard_column_used_quote_columns` (`:190-232`) -/
def currentLevelSingle (cat : Cat) (tn : List (String × StdTable)) : List (Expr × Option String) → Nat → M (List (SCol × List QCol))
  | [], _ => fun st => .ok ([], st)
  | (e, al) :: r, idx => fun st => do
    let (a, st) ← (match al, e with
      | some a, e => do pure ([(⟨Int.ofNat idx, a⟩, ← nodeColsV e.toVal)], st)
      | none, .wildcard (some t) =>
        (match dictGet? tn t with
         | none => .error .analyzer                 -- `get_standard_table`: unknown qualifier
         | some std => expandTable cat std idx st)
      | none, .wildcard none => expandTables cat (tn.map (·.2)) idx st
      | none, .column t n => do pure ([(⟨Int.ofNat idx, n⟩, ← nodeColsV (Expr.column t n).toVal)], st)
      | none, e => do
        let name ← PR.prE .DEFAULT e
        pure ([(⟨Int.ofNat idx, name⟩, ← nodeColsV e.toVal)], st) : Except Err (List (SCol × List QCol) × St))
    let (b, st) ← currentLevelSingle cat tn r (idx + a.length) st
    pure (a ++ b, st)

/-- `get_current_level_stand_column_used_quote_columns` (`:159-188`) -/
def currentLevel (cat : Cat) (tn : List (String × StdTable)) (q : Query) : M (List (SCol × List QCol)) := fun st =>
  match q with
  | .single s => currentLevelSingle cat tn (Select.cols s) 1 st
  | .union _ s us => do
    let (first, st) ← currentLevelSingle cat tn (Select.cols s) 1 st
    us.foldlM (fun (acc : List (SCol × List QCol) × St) p => do
      let (m, st) ← currentLevelSingle cat tn (Select.cols p.2) 1 acc.2
      let r ← mergeByPos acc.1 m
      pure (r, st)) (first, st)

/-- the anonymous-aggregate branch of `_analyze_quote_column` (`:103-112`): one source without column name per upstream
table of every table in scope -/
def anonSources (cat : Cat) : List StdTable → M (List SrcCol)
  | [], st => .ok ([], st)
  | t :: r, st => do
    let (lin, st) ← getTableLineage cat t st
    let (b, st) ← anonSources cat r st
    pure (lin.tables.map (fun s => (⟨s.1, s.2, none⟩ : SrcCol)) ++ b, st)

/-- the unqualified branch (`:112-130`): exactly one upstream table must have the column (`*` matches every table) -/
def unqualifiedSources (cat : Cat) (name : String) : List StdTable → Bool → List SrcCol → M (List SrcCol)
  | [], matched, acc, st => if matched then .ok (acc, st) else .error .analyzer
  | t :: r, matched, acc, st => do
    let (lin, st) ← getTableLineage cat t st
    if !lin.hasColumn name then unqualifiedSources cat name r matched acc st
    else if matched && name != "*" then .error .analyzer
    else do
      let s ← lin.srcByName name
      unqualifiedSources cat name r true (acc ++ s) st

/-- `_analyze_quote_column` (`:89-130`) -/
def analyzeQuoteColumn (cat : Cat) (tn : List (String × StdTable)) (c : QCol) : M (List SrcCol) := fun st =>
  match c.table, c.name with
  | some t, n =>
    (match dictGet? tn t with
     | none => .error .analyzer                     -- `get_standard_table`: unknown qualifier
     | some std => do
       let (lin, st) ← getTableLineage cat std st
       match n with
       | some n => if !lin.hasColumn n then .error .analyzer else do pure (← lin.srcByName n, st)
       | none => .error .analyzer)
  | none, none => anonSources cat (tn.map (·.2)) st
  | none, some n => unqualifiedSources cat n (tn.map (·.2)) false [] st

def analyzeQuoteColumns (cat : Cat) (tn : List (String × StdTable)) : List QCol → M (List SrcCol)
  | [], st => .ok ([], st)
  | c :: r, st => do
    let (a, st) ← analyzeQuoteColumn cat tn c st
    let (b, st) ← analyzeQuoteColumns cat tn r st
    pure (a ++ b, st)

/-- the LATERAL VIEW substitution (`:55-62`) -/
def mapLateral (lv : List (String × List QCol)) (cs : List QCol) : List QCol :=
  cs.flatMap fun c =>
    match c.table, c.name with
    | none, some n => (match dictGet? lv n with | some l => l | none => [c])
    | _, _ => [c]

def dictOfPairs {κ ν : Type} [BEq κ] (ps : List (κ × ν)) : List (κ × ν) := ps.foldl (fun d p => dictSet d p.1 p.2) []

/-- the loop at `:52-71` -/
def sourcesLoop (cat : Cat) (tn : List (String × StdTable)) (lv : List (String × List QCol)) :
    List (SCol × List QCol) → M (List (SCol × List SrcCol))
  | [], st => .ok ([], st)
  | (c, qs) :: r, st => do
    let (s, st) ← analyzeQuoteColumns cat tn (mapLateral lv qs) st
    let (b, st) ← sourcesLoop cat tn lv r st
    pure ((c, s) :: b, st)

def querySize : Query → Nat
  | .single _ => 1
  | .union _ _ us => 1 + us.length

mutual
/-- `get_select_table_lineage` (`:24-73`) -/
def selectLineage (cat : Cat) : Nat → Query → M Lineage
  | 0, _, _ => .error .fuel
  | f + 1, q, st => do
    let st ← (match Query.withs q with
      | none => .error (.py .AttributeError)             -- `None.tables`
      | some ws => withLineages cat f ws st)             -- `_analyze_with_clauses`
    let fts := levelFromTables q
    let st ← subQueryLineages cat f (subQueries fts []) st        -- `_analyze_sub_query`
    let tn ← tableNames fts []
    let lv := dictOfPairs (← lateralColumns q)
    let (cur, st) ← currentLevel cat tn q st
    let (data, st) ← sourcesLoop cat tn lv cur st
    pure (mkLineage data Lineage.empty, st)
/-- `_analyze_with_clauses` (`:75-79`) -/
def withLineages (cat : Cat) : Nat → List WithTable → St → Except Err St
  | 0, _, _ => .error .fuel
  | _, [], st => .ok st
  | f + 1, .mk n q :: r, st => do
    let (lin, st) ← selectLineage cat f q st
    withLineages cat f r { st with withT := dictSet st.withT n lin }
/-- `_analyze_sub_query` (`:81-87`) -/
def subQueryLineages (cat : Cat) : Nat → List (String × Query) → St → Except Err St
  | 0, _, _ => .error .fuel
  | _, [], st => .ok st
  | f + 1, (a, q) :: r, st => do
    let (lin, st) ← selectLineage cat f q st
    subQueryLineages cat f r { st with subq := dictSet st.subq a lin }
end

mutual
def sizeQ : Query → Nat
  | .single s => sizeS s + 1
  | .union ws s us => sizeOW ws + sizeS s + sizeU us + 1
def sizeOW : Option (List WithTable) → Nat
  | none => 0
  | some l => sizeW l
def sizeW : List WithTable → Nat
  | [] => 0
  | .mk _ q :: r => sizeQ q + sizeW r + 1
def sizeU : List (String × Select) → Nat
  | [] => 0
  | (_, s) :: r => sizeS s + sizeU r + 1
def sizeS : Select → Nat
  | .mk ws _ _ fr _ js _ _ _ _ _ _ _ _ => sizeOW ws + sizeOF fr + sizeJ js + 1
def sizeOF : Option (List FromTable) → Nat
  | none => 0
  | some l => sizeF l
def sizeF : List FromTable → Nat
  | [] => 0
  | .mk (.sub q) _ :: r => sizeQ q + sizeF r + 1
  | .mk (.table _ _) _ :: r => sizeF r + 1
def sizeJ : List Join → Nat
  | [] => 0
  | .mk _ (.mk (.sub q) _) _ :: r => sizeQ q + sizeJ r + 1
  | .mk _ (.mk (.table _ _) _) _ :: r => sizeJ r + 1
end

/-- enough recursion budget for every derived table of the query -/
def fuelFor (q : Query) : Nat := 2 * sizeQ q + 4

def setWiths (ws : Option (List WithTable)) : Query → Query
  | .single (.mk _ dist cols fr lats js wh gb hv ob sb db cb lm) => .single (.mk ws dist cols fr lats js wh gb hv ob sb db cb lm)
  | .union _ s us => .union ws s us

/-- the second half of `get_insert_table_lineage` (`:148-157`): the arity test, the pairing by position, and `InsertTableLineage`,
which keeps the up-columns in a map keyed by the down column's *name* -/
def pairUp (lin : Lineage) (down : List SrcCol) (st : St) : Except Err (List (SrcCol × List SrcCol) × St) :=
  if down.length != lin.allColumns.length then .error .analyzer
  else do
    let data ← (down.zipIdx 1).mapM fun (d, i) => do pure (d, ← lin.srcByIdx (Int.ofNat i))
    let hash := data.foldl (fun m p => dictSet m p.1.col p.2) ([] : List (Option String × List SrcCol))
    pure (data.map fun p => (p.1, (dictGet? hash p.1.col).getD []), st)

/-- `get_insert_table_lineage` (`:132-157`) -/
def insertLineage (cat : Cat) (h : InsertHead) (q : Query) : M (List (SrcCol × List SrcCol)) := fun st => do
  let (down, st) ← (match h.columns with
    | some cs => pure (cs.map fun (_, n) => (⟨h.table.schema, h.table.name, some n⟩ : SrcCol), st)
    | none => do
      let (c, st) ← getStatement cat (StdTable.source (h.table.schema, h.table.name)) st     -- `StandardTable(…).source()` since be71fec
      pure (c.columns.map fun d => (⟨h.table.schema, h.table.name, some d.name⟩ : SrcCol), st) : Except Err (List SrcCol × St))
  let q' := setWiths h.withs q
  let (lin, st) ← selectLineage cat (fuelFor q') q' { st with subq := [], withT := [] }
  pairUp lin down st

end LN
