import MsqModel.Py
/-!
# `CreateTableStatementGetter` (`analyzer/tool.py:35-92`) as a state machine, and its abstract specification

The class keeps a memory dictionary (`_memory_cache`), the set of table names it believes to be on disk
(`_disk_cache`, computed once, at construction, from the `*.sql` entries of the directory listing) and a directory
with one file `<enc name>.sql` per table, where `enc` = `urllib.parse.quote(name, safe="")` (`_disk_file_name`, since /repo 69f92c3:
letters, digits and `_.-~` are kept, every other character becomes `%XX` of its UTF-8 bytes).  The model splits `get_statement` into the atomic steps the Python code
performs (provider call, `open(<name>.sql.tmp, "w")` = create/truncate, `write`, `close`, `os.replace` onto
`<name>.sql`, `_disk_cache.add`, parse, memory store) so that a process death can be placed between any two of them.
(State of /repo 69f92c3: temporary file + rename, suffix-only name derivation, no newline translation, percent-encoded
file names; before these repairs the final file was truncated and written in place, `.sql` was deleted everywhere in
the name, a carriage return came back as a line feed and the table name was pasted into the path as it was (`./a` =
`a`, `../x` outside the directory, NUL = `ValueError`) — findings F-C17-1…8, now regression theorems in
`MsqProofs/Props/C17.lean`.)

The model is generic in the schema provider `prov : Name → Text` (the abstract method `get_sql`) and in the
parser `parse : Text → Except Err σ` (`SQLParser.parse_create_table_statement`); the provider call log is part
of the state (a ghost variable: it survives process deaths).

File-system assumptions (named gap of DESIGN §8 C17): the cache directory holds regular files only, file names
are case-sensitive byte strings without length limit (a real file system answers `OSError ENAMETOOLONG` when
`<enc name>.sql.tmp` has more than 255 bytes: 247 safe characters, 27 CJK characters), table names are sequences of
Unicode scalar values (`Char`; Python's `quote` raises `UnicodeEncodeError` for a lone surrogate), `os.listdir` returns every entry, a `close` that returns
has put the whole text on disk, `os.replace` is atomic.
-/
namespace Cache

abbrev Name := List Char
abbrev Text := List Char

/-- `".sql"` -/
def ext : List Char := ['.', 's', 'q', 'l']

/-- `".tmp"` -/
def tmpExt : List Char := ['.', 't', 'm', 'p']

/-- `file_name[:-len(".sql")] … if file_name.endswith(".sql")` (`tool.py:46-49`): the stem of a directory entry,
`none` for an entry that is not a `*.sql` file -/
def stripSql (fileName : Name) : Option Name :=
  match fileName.reverse with
  | 'l' :: 'q' :: 's' :: '.' :: r => some r.reverse
  | _ => none

/-! ## the file name of a table (`_disk_file_name`, `tool.py:84-88`): `urllib.parse.quote(name, safe="") + ".sql"` -/

/-- the characters `quote` never escapes (`urllib.parse._ALWAYS_SAFE`): ASCII letters, digits, `_ . - ~` -/
def safeChar (c : Char) : Bool :=
  let v := c.toNat
  (48 ≤ v && v ≤ 57) || (65 ≤ v && v ≤ 90) || (97 ≤ v && v ≤ 122) || v == 95 || v == 46 || v == 45 || v == 126

/-- `str.encode("utf-8")` of one character, as numbers < 256 -/
def utf8 (c : Char) : List Nat :=
  let v := c.toNat
  if v < 0x80 then [v]
  else if v < 0x800 then [0xC0 + v / 64, 0x80 + v % 64]
  else if v < 0x10000 then [0xE0 + v / 4096, 0x80 + v / 64 % 64, 0x80 + v % 64]
  else [0xF0 + v / 262144, 0x80 + v / 4096 % 64, 0x80 + v / 64 % 64, 0x80 + v % 64]

/-- upper-case hexadecimal digit -/
def hexU (d : Nat) : Char := if d < 10 then Char.ofNat (48 + d) else Char.ofNat (55 + d)

/-- `'%{:02X}'.format(byte)` -/
def pct (b : Nat) : List Char := ['%', hexU (b / 16), hexU (b % 16)]

/-- `quote` on one character -/
def encC (c : Char) : List Char := if safeChar c then [c] else (utf8 c).flatMap pct

/-- `urllib.parse.quote(name, safe="")`: total, character by character -/
def enc (n : Name) : Name := n.flatMap encC

/-- value of an upper-case hexadecimal digit -/
def hexVal (c : Char) : Option Nat :=
  let v := c.toNat
  if 48 ≤ v && v ≤ 57 then some (v - 48) else if 65 ≤ v && v ≤ 70 then some (v - 55) else none

/-- one `%XX` token -/
def pctByte : List Char → Option (Nat × List Char)
  | '%' :: h :: l :: r =>
    match hexVal h, hexVal l with
    | some a, some b => some (16 * a + b, r)
    | _, _ => none
  | _ => none

/-- a decoder for the image of `enc` (`%XX` sequences read as UTF-8, other characters kept); what it answers outside
that image does not matter: `decStem` re-encodes and compares -/
def decAux : Nat → List Char → Option (List Char)
  | _, [] => some []
  | 0, _ :: _ => none
  | f + 1, c :: r =>
    if c = '%' then
      (pctByte (c :: r)).bind fun p0 =>
        if p0.1 < 0x80 then (decAux f p0.2).map (Char.ofNat p0.1 :: ·)
        else if p0.1 < 0xE0 then
          (pctByte p0.2).bind fun p1 =>
            (decAux f p1.2).map (Char.ofNat ((p0.1 - 0xC0) * 64 + (p1.1 - 0x80)) :: ·)
        else if p0.1 < 0xF0 then
          (pctByte p0.2).bind fun p1 => (pctByte p1.2).bind fun p2 =>
            (decAux f p2.2).map (Char.ofNat (((p0.1 - 0xE0) * 64 + (p1.1 - 0x80)) * 64 + (p2.1 - 0x80)) :: ·)
        else
          (pctByte p0.2).bind fun p1 => (pctByte p1.2).bind fun p2 => (pctByte p2.2).bind fun p3 =>
            (decAux f p3.2).map (Char.ofNat ((((p0.1 - 0xF0) * 64 + (p1.1 - 0x80)) * 64 + (p2.1 - 0x80)) * 64 + (p3.1 - 0x80)) :: ·)
    else (decAux f r).map (c :: ·)

def dec (s : List Char) : Option Name := decAux s.length s

/-- `__init__` (`tool.py:49-52`): the table name a file stem stands for — `unquote(stem)` if the stem is the CANONICAL
encoding of that name (`stem.isascii() and quote(unquote(stem), safe="") == stem`), `none` otherwise (a raw blank or
non-ASCII character, a lower-case or incomplete `%xx`, bytes that are not UTF-8: such files are ignored).  Python's
`unquote` is lenient (invalid sequences become U+FFFD, a stray `%` stays) where `dec` is not, but both are left inverses
of the encoding, so both tests say "the stem is `enc n`" and give that `n` (`Cache.decStem_iff`; compared on
non-canonical stems by the correspondence). -/
def decStem (stem : List Char) : Option Name :=
  match dec stem with
  | some n => if enc n = stem then some n else none
  | none => none

/-- the table name of a directory entry: `none` for an entry that is not `<canonical encoding>.sql` -/
def entryName (fileName : Name) : Option Name := (stripSql fileName).bind decStem

/-! ## the directory -/

abbrev Files := List (Name × Text)

def fget : Files → Name → Option Text
  | [], _ => none
  | (g, t) :: r, f => if g = f then some t else fget r f

def fset : Files → Name → Text → Files
  | [], f, t => [(f, t)]
  | (g, u) :: r, f, t => if g = f then (f, t) :: r else (g, u) :: fset r f t

def fdel : Files → Name → Files
  | [], _ => []
  | (g, u) :: r, f => if g = f then fdel r f else (g, u) :: fdel r f

def splitSlash : List Char → List (List Char)
  | [] => [[]]
  | c :: r =>
    if c = '/' then [] :: splitSlash r
    else match splitSlash r with
      | [] => [[c]]
      | h :: t => (c :: h) :: t

/-- where `os.path.join(disk_path, <relative path>)` leads -/
inductive Path where
  /-- a file directly in the cache directory -/
  | inDir (f : Name)
  /-- a file in the directory above the cache directory (`../x`) -/
  | parent (f : Name)
  /-- a leading component does not exist: `FileNotFoundError` -/
  | viaMissing
  /-- a leading component is a regular file: `NotADirectoryError` -/
  | viaFile
  /-- embedded NUL: `ValueError`, raised before the file system is touched -/
  | nul
  /-- absolute path (`os.path.join` drops the directory) or more than one step upwards: outside the model -/
  | outside
  deriving DecidableEq, Repr

def dotdot : List Char := ['.', '.']

def resolveP (files : Files) (p : Name) : Path :=
  if p.contains '\x00' then .nul
  else if p.head? = some '/' then .outside
  else match (splitSlash p).filter (fun c => !(c == [] || c == ['.'])) with
    | [] => .outside
    | [f] => .inDir f
    | c :: rest =>
      if c = dotdot then
        (match rest with
         | [f] => .parent f
         | _ => .outside)
      else if (fget files c).isSome then .viaFile else .viaMissing

/-- the cache file of a table: `os.path.join(disk_path, <enc name>.sql)` -/
def resolve (files : Files) (n : Name) : Path := resolveP files (enc n ++ ext)
/-- the temporary file it is written to: `<enc name>.sql.tmp` -/
def resolveTmp (files : Files) (n : Name) : Path := resolveP files (enc n ++ ext ++ tmpExt)

/-! ## outcomes -/

/-- what a request ends in when it does not return a statement -/
inductive Fail where
  /-- the parser raised -/
  | parse (e : Err)
  | fileNotFound | notADirectory | valueError
  /-- the process died at the armed crash point -/
  | crashed
  | outside
  deriving DecidableEq, Repr

inductive Res (σ : Type) where
  | ok (st : σ)
  | fail (e : Fail)
  deriving DecidableEq, Repr

/-! ## the state -/

structure St (σ : Type) where
  /-- `_disk_path is not None` -/
  useDisk : Bool
  /-- `_memory_cache` in insertion order -/
  mem : List (Name × σ)
  /-- `_disk_cache` -/
  listed : List Name
  /-- the cache directory (persistent) -/
  files : Files
  /-- files written above the cache directory (persistent) -/
  parent : Files
  /-- every argument `get_sql` received, in order (ghost; persistent) -/
  calls : List Name

def mget {σ : Type} : List (Name × σ) → Name → Option σ
  | [], _ => none
  | (m, st) :: r, n => if m = n then some st else mget r n

/-- `__init__` (`tool.py:38-52`) in a new process over the same directory: the memory is empty, the names are
decoded from the `*.sql` entries of the directory listing whose stem is a canonical encoding -/
def init {σ : Type} (useDisk : Bool) (files parent : Files) (calls : List Name) : St σ :=
  { useDisk, mem := [], listed := if useDisk then files.filterMap (fun p => entryName p.1) else [], files, parent, calls }

/-- a process death: where (after how many atomic steps of the miss path) and, if it happens between `write`
and the end of `close`, how many characters had reached the temporary file -/
structure Crash where
  steps : Nat
  flushed : Nat
  deriving DecidableEq, Repr

section
variable {σ : Type} (prov : Name → Text) (parse : Text → Except Err σ)

/-- `load_from_disk` (`tool.py:70-74`; no newline translation) -/
def load (s : St σ) (n : Name) : Except Fail Text :=
  match resolve s.files n with
  | .inDir f => match fget s.files f with | some t => .ok t | none => .error .fileNotFound
  | .parent f => match fget s.parent f with | some t => .ok t | none => .error .fileNotFound
  | .viaMissing => .error .fileNotFound
  | .viaFile => .error .notADirectory
  | .nul => .error .valueError
  | .outside => .error .outside

/-- where an open file lives -/
inductive Handle | inDir (f : Name) | parent (f : Name)

/-- `open(path + ".tmp", "w")` (`tool.py:79`): the temporary file exists and is empty from here on; the handle of the
temporary file and the place of the final file -/
def openTmp (s : St σ) (n : Name) : Except Fail (Handle × Handle × St σ) :=
  match resolveTmp s.files n, resolve s.files n with
  | .inDir t, .inDir f => .ok (.inDir t, .inDir f, { s with files := fset s.files t [] })
  | .parent t, .parent f => .ok (.parent t, .parent f, { s with parent := fset s.parent t [] })
  | .viaMissing, _ => .error .fileNotFound
  | .viaFile, _ => .error .notADirectory
  | .nul, _ => .error .valueError
  | _, _ => .error .outside

/-- the characters of an open file that are on disk -/
def putFile (s : St σ) (h : Handle) (t : Text) : St σ :=
  match h with
  | .inDir f => { s with files := fset s.files f t }
  | .parent f => { s with parent := fset s.parent f t }

/-- `os.replace(path + ".tmp", path)` (`tool.py:81`): atomically, the final file holds the text and the temporary name is gone -/
def replaceFile (s : St σ) (tmp fin : Handle) (t : Text) : St σ :=
  match tmp, fin with
  | .inDir a, .inDir f => { s with files := fset (fdel s.files a) f t }
  | .parent a, .parent f => { s with parent := fset (fdel s.parent a) f t }
  | _, _ => s

/-- `tool.py:67-68`: parse, store, return -/
def finish (s : St σ) (n : Name) (sql : Text) : Res σ × St σ :=
  match parse sql with
  | .error e => (.fail (.parse e), s)
  | .ok st => (.ok st, { s with mem := s.mem ++ [(n, st)] })

def dies (crash : Option Crash) (k : Nat) : Bool :=
  match crash with | some c => c.steps == k | none => false

/-- `get_statement` (`tool.py:54-68`) with `save_to_disk` (`tool.py:76-82`) inlined, and an optional process death after
`crash.steps` atomic steps of the miss path: 1 = provider called, 2 = temporary file created/truncated, 3 = `write`
(`crash.flushed` characters in the temporary file), 4 = `close` (whole text in the temporary file), 5 = `os.replace`
(final file in place).  A hit performs no durable step and cannot be interrupted observably. -/
def get (crash : Option Crash) (s : St σ) (n : Name) : Res σ × St σ :=
  match mget s.mem n with
  | some st => (.ok st, s)
  | none =>
    if s.useDisk then
      if s.listed.contains n then
        match load s n with
        | .error e => (.fail e, s)
        | .ok sql => finish parse s n sql
      else
        let s1 := { s with calls := s.calls ++ [n] }              -- `get_sql(full_table_name)`
        let sql := prov n
        if dies crash 1 then (.fail .crashed, s1) else
        match openTmp s1 n with                                     -- `open(path + ".tmp", "w")`
        | .error e => (.fail e, s1)
        | .ok (tmp, fin, s2) =>
          if dies crash 2 then (.fail .crashed, s2) else
          if dies crash 3 then (.fail .crashed, putFile s2 tmp (sql.take (match crash with | some c => c.flushed | none => 0))) else
          let s3 := putFile s2 tmp sql                              -- `file.write(sql)`; `close`
          if dies crash 4 then (.fail .crashed, s3) else
          let s4 := replaceFile s3 tmp fin sql                      -- `os.replace(path + ".tmp", path)`
          if dies crash 5 then (.fail .crashed, s4) else
          let s5 := { s4 with listed := n :: s4.listed }            -- `self._disk_cache.add(full_table_name)`
          finish parse s5 n sql
    else
      let s1 := { s with calls := s.calls ++ [n] }
      if dies crash 1 then (.fail .crashed, s1) else
      finish parse s1 n (prov n)

/-- is `n` served without asking the provider? -/
def cached (s : St σ) (n : Name) : Bool := (mget s.mem n).isSome || (s.useDisk && s.listed.contains n)

/-! ## histories -/

inductive Op where
  /-- a new process instantiates the class over the same directory (or without a directory) -/
  | init (useDisk : Bool)
  | get (n : Name)
  /-- a `get` during which the process dies; the next process starts with `init` -/
  | crash (n : Name) (c : Crash)

def step (s : St σ) : Op → St σ
  | .init b => init b s.files s.parent s.calls
  | .get n => (get prov parse none s n).2
  | .crash n c => (get prov parse (some c) s n).2

def run (s : St σ) : List Op → St σ
  | [] => s
  | o :: r => run (step prov parse s o) r

/-- the first process over an empty directory -/
def fresh (useDisk : Bool) : St σ := init useDisk [] [] []

/-- results of the `get`s of a history (crashing ones included), in order -/
def results (s : St σ) : List Op → List (Res σ)
  | [] => []
  | .init b :: r => results (step prov parse s (.init b)) r
  | .get n :: r => (get prov parse none s n).1 :: results (step prov parse s (.get n)) r
  | .crash n c :: r => (get prov parse (some c) s n).1 :: results (step prov parse s (.crash n c)) r

end

/-! ## the abstract cache -/

/-- the specification: a table is either warm (already fetched) or cold; the provider is asked exactly when it
is cold, and the answer is always what the provider's text parses to -/
structure Abs where
  warm : List Name
  calls : List Name

def Abs.get {σ : Type} (prov : Name → Text) (parse : Text → Except Err σ) (a : Abs) (n : Name) : Except Err σ × Abs :=
  (parse (prov n), if a.warm.contains n then a else { warm := n :: a.warm, calls := a.calls ++ [n] })

/-- the abstraction function -/
def St.abs {σ : Type} (s : St σ) : Abs :=
  { warm := s.mem.map (·.1) ++ (if s.useDisk then s.listed else []), calls := s.calls }

/-! ## the lookup keys used by the lineage analyzers -/

/-- `StandardTable.source()` (`analyzer/node.py:23-25`): the key under which source tables are requested -/
def sourceKey (schema : Option String) (table : String) : String :=
  match schema with
  | some s => if s.isEmpty then table else s ++ "." ++ table
  | none => table

/-- the key under which the INSERT target is requested (`table_lineage_analyzer.py:142-144`, since /repo be71fec):
`StandardTable(schema_name=…, table_name=…).source()`, the spelling of source tables -/
def insertKey (schema : Option String) (table : String) : String := sourceKey schema table

/-- the key used before /repo be71fec: `ASTTableNameExpression.source()`, the printed back-quoted form (F-C17-9) -/
def insertKeyOld (schema : Option String) (table : String) : String :=
  match schema with
  | some s => "`" ++ s ++ "." ++ table ++ "`"
  | none => "`" ++ table ++ "`"

end Cache
