import MsqModel.Ast
import MsqModel.Py
import MsqModel.Gen.Static
import MsqModel.Gen.PyTables
import MsqModel.Gen.LexOps
/-!
# Printer model: `source(sql_type)` of every node class (`core/node.py`)

String for string, and with the evaluation order of the f-string parts preserved, so that the *first*
exception raised is the one reported.  Structural recursion over the typed trees.
-/
namespace PR
open Ast

abbrev P := Except Err String

def joinS (sep : String) (xs : List String) : String := sep.intercalate xs

/-- `ASTComputeOperator.source` (`node.py:296-302`) -/
def computeOpSrc (d : Gen.D) (name : String) : P :=
  if name == "MOD" && !(d == .DEFAULT || d == .MYSQL || d == .SQL_SERVER || d == .HIVE) then .error .notSupported
  else match Gen.computeEnum.find? (·.1 == name) with
    | some e => .ok e.2.1
    | none => .error (.unmodelled "unknown compute operator")
/-- `ASTCompareOperator.source`: `" ".join(enum.value)` -/
def compareOpSrc (name : String) : P :=
  match Gen.compareEnum.find? (·.1 == name) with
  | some e => .ok (joinS " " e.2)
  | none => .error (.unmodelled "unknown compare operator")
def wordsSrc (tbl : List (String × List String)) (name : String) : P :=
  match tbl.find? (·.1 == name) with
  | some e => .ok (joinS " " e.2)
  | none => .error (.unmodelled "unknown enum member")
def valueSrc (tbl : List (String × String)) (name : String) : P :=
  match tbl.find? (·.1 == name) with
  | some e => .ok e.2
  | none => .error (.unmodelled "unknown enum member")

/-- `ASTColumnNameExpression.source` (`node.py:420-432`) -/
def columnSrc (d : Gen.D) (t : Option String) (c : String) : String :=
  let plain := ["*", "CURRENT_DATE", "CURRENT_TIME", "CURRENT_TIMESTAMP"].contains c
  let r := match t, plain with
    | some t, false => s!"`{t}`.`{c}`" | none, false => s!"`{c}`"
    | some t, true => s!"`{t}`.{c}" | none, true => c
  if d == .DB2 then
    Py.replaceS (Py.replaceS (Py.replaceS r "CURRENT_DATE" "CURRENT DATE") "CURRENT_TIME" "CURRENT TIME") "CURRENT_TIMESTAMP" "CURRENT TIMESTAMP"
  else r

def rowSrc : RowItem → String
  | .current => "CURRENT ROW"
  | .unbounded p => "UNBOUNDED " ++ (if p then "PRECEDING" else "FOLLOWING")
  | .num n p => s!"{n} " ++ (if p then "PRECEDING" else "FOLLOWING")

/-- f-string rendering of `Optional[int]` -/
def pyOptInt : Option Int → String | none => "None" | some n => toString n
def tableNameSrc (s : Option String) (n : String) : String := match s with | some s => s!"`{s}.{n}`" | none => s!"`{n}`"
def limitSrc (l : Int × Option Int) : String := match l.2 with | none => s!"LIMIT {l.1}" | some o => s!"LIMIT {o}, {l.1}"

/-- `PLAIN_NAME.fullmatch` (`[A-Za-z_][A-Za-z0-9_]*`) -/
def isPlainName (s : String) : Bool :=
  match s.toList with
  | [] => false
  | c :: r => (c.isAlpha || c == '_') && r.all (fun x => x.isAlphanum || x == '_')
/-- `quote_name_if_needed` -/
def quoteName (s : String) : String :=
  if isPlainName s && !(Gen.wordMarks.any (·.1 == Gen.pyUpperS s)) then s else s!"`{s}`"

def fnameSrc (s : Option String) (n : String) : String := match s with | some s => s!"`{s}`.{quoteName n}" | none => quoteName n

/-- `expression_level` -/
def lvl : Expr → Nat
  | .unary _ _ => 2
  | .compute _ o _ => match Gen.computeEnum.find? (·.1 == o) with | some e => e.2.2 | none => 0
  | .kw _ _ _ _ => 9 | .between _ _ _ _ => 9 | .exists_ _ => 9
  | .compare _ _ _ => 10
  | .not_ _ => 11 | .and_ _ _ => 12 | .xor _ _ => 13 | .or_ _ _ => 14
  | _ => 0
/-- `source_with_parenthesis` applied to an already printed child -/
def wrap (e : Expr) (maxLevel : Nat) (src : String) : String := if lvl e > maxLevel then s!"({src})" else src
def kwSrc (k : KwKind) (n : Bool) : String :=
  match k with
  | .is => if n then "IS NOT" else "IS"
  | .in_ => if n then "NOT IN " else "IN"
  | .like => if n then "NOT LIKE" else "LIKE"
  | .rlike => if n then "NOT RLIKE" else "RLIKE"
  | .regexp => if n then "NOT REGEXP" else "REGEXP"

mutual
def prE (d : Gen.D) : Expr → P
  | .column t c => .ok (columnSrc d t c)
  | .literal v => .ok v
  | .wildcard t => .ok (match t with | some t => s!"{quoteName t}.*" | none => "*")
  | .func s n ps => (prList d ps).map fun p => s!"{fnameSrc s n}({joinS ", " p})"
  | .agg n ps dist => (prList d ps).map fun p => s!"{n}({if dist then "DISTINCT " else ""}{joinS ", " p})"
  | .cast e sg ty ps => do
      let x ← (prE d e).map (wrap e 8)
      let tv ← valueSrc Gen.castTypes ty
      let parts := (if sg then ["SIGNED"] else []) ++ [tv] ++ (match ps with | some l => ["(" ++ joinS ", " (l.map toString) ++ ")"] | none => [])
      pure s!"CAST({x} AS {joinS " " parts})"
  | .extract n e => do let a ← (prE d n).map (wrap n 8); let b ← (prE d e).map (wrap e 8); pure s!"EXTRACT({a} FROM {b})"
  | .window fn part ord rows => do
      let a ← prE d fn
      let p ← prList8 d part
      let o ← prOrdList d ord
      let ps := (if part.isEmpty then [] else [s!"PARTITION BY {joinS ", " p}"])
        ++ (if ord.isEmpty then [] else [s!"ORDER BY {joinS ", " o}"])
        ++ (match rows with | some (x, y) => [s!"ROWS BETWEEN {rowSrc x} AND {rowSrc y}"] | none => [])
      pure s!"{a} OVER ({joinS " " ps})"
  | .caseCond cs els => do
      let items ← prArms d cs
      let e ← prOptE d els
      pure (joinS " " (["CASE"] ++ items ++ (match e with | some y => [s!"ELSE {y}"] | none => []) ++ ["END"]))
  | .caseVal v cs els => do
      let a ← prE d v
      let items ← prArms d cs
      let e ← prOptE d els
      pure (joinS "\n" (["CASE", a] ++ items.map ("    " ++ ·) ++ (match e with | some y => [s!"    ELSE {y}"] | none => []) ++ ["END"]))
  | .subValue vs => (prList8 d vs).map fun p => s!"({joinS ", " p})"
  | .subQuery q => (prQ d q).map fun p => s!"({p})"
  | .exists_ v => (prE d v).map fun p => s!"EXISTS {p}"
  | .index a i => if d != .HIVE then .error .notSupported else do
      let x ← prE d a; let y ← (prE d i).map (wrap i 8); pure s!"{x}[{y}]"
  | .unary o e => do
      let a ← computeOpSrc d o
      let b ← (prE d e).map (wrap e 2)
      pure (if a == "-" && b.startsWith "-" then s!"{a} {b}" else s!"{a}{b}")
  | .compute l o r => do
      let k := lvl (.compute l o r)
      let a ← (prE d l).map (wrap l k); let b ← computeOpSrc d o; let c ← (prE d r).map (wrap r (k - 1)); pure s!"{a} {b} {c}"
  | .kw k n l r => do let a ← (prE d l).map (wrap l 9); let b ← (prE d r).map (wrap r 8); pure s!"{a} {kwSrc k n} {b}"
  | .between n b fr to => do
      let a ← (prE d b).map (wrap b 9); let x ← (prE d fr).map (wrap fr 8); let y ← (prE d to).map (wrap to 8)
      pure s!"{a} {if n then "NOT " else ""}BETWEEN {x} AND {y}"
  | .compare o l r => do let a ← (prE d l).map (wrap l 10); let b ← compareOpSrc o; let c ← (prE d r).map (wrap r 9); pure s!"{a} {b} {c}"
  | .not_ e => (prE d e).map fun p => s!"NOT {wrap e 11 p}"
  | .and_ l r => do let a ← (prE d l).map (wrap l 12); let c ← (prE d r).map (wrap r 11); pure s!"{a} AND {c}"
  | .xor l r => do let a ← (prE d l).map (wrap l 13); let c ← (prE d r).map (wrap r 12); pure s!"{a} XOR {c}"
  | .or_ l r => do let a ← (prE d l).map (wrap l 14); let c ← (prE d r).map (wrap r 13); pure s!"{a} OR {c}"
  | .mybatis s => .ok s
def prList (d : Gen.D) : List Expr → Except Err (List String)
  | [] => .ok []
  | e :: r => do let a ← prE d e; let b ← prList d r; pure (a :: b)
/-- a list printed at compute level: `source_with_parenthesis(·, sql_type, 8)` -/
def prList8 (d : Gen.D) : List Expr → Except Err (List String)
  | [] => .ok []
  | e :: r => do let a ← prE d e; let b ← prList8 d r; pure (wrap e 8 a :: b)
def prOptE (d : Gen.D) : Option Expr → Except Err (Option String)
  | none => .ok none
  | some e => (prE d e).map some
def prArms (d : Gen.D) : List (Expr × Expr) → Except Err (List String)
  | [] => .ok []
  | (w, t) :: r => do let a ← prE d w; let b ← prE d t; let c ← prArms d r; pure (s!"WHEN {a} THEN {b}" :: c)
def prOrd (d : Gen.D) : OrderItem → P
  | .mk e desc nf nl => (prE d e).map fun c0 =>
      let c := wrap e 8 c0
      let n := (if nf then " NULLS FIRST" else "") ++ (if nl then " NULLS LAST" else "")
      if desc then s!"{c} DESC{n}" else s!"{c}{n}"
def prOrdList (d : Gen.D) : List OrderItem → Except Err (List String)
  | [] => .ok []
  | o :: r => do let a ← prOrd d o; let b ← prOrdList d r; pure (a :: b)
def prTableRef (d : Gen.D) : TableRef → P
  | .table s n => .ok (tableNameSrc s n)
  | .sub q => (prQ d q).map fun p => s!"({p})"
def prFrom (d : Gen.D) : FromTable → P
  | .mk t a => do
      let n ← prTableRef d t
      pure (match a with | some a => s!"{n} AS {quoteName a}" | none => n)
def prFromList (d : Gen.D) : List FromTable → Except Err (List String)
  | [] => .ok []
  | t :: r => do let a ← prFrom d t; let b ← prFromList d r; pure (a :: b)
def prJoin (d : Gen.D) : Join → P
  | .mk ty t rule => do
      let tys ← wordsSrc Gen.joinTypes ty
      let a ← prFrom d t
      match rule with
      | none => pure s!"{tys} {a}"
      | some (.on c) => do let x ← prE d c; pure s!"{tys} {a} ON {x}"
      | some (.using u) => do let x ← prE d u; pure s!"{tys} {a} {x}"
def prJoinList (d : Gen.D) : List Join → Except Err (List String)
  | [] => .ok []
  | j :: r => do let a ← prJoin d j; let b ← prJoinList d r; pure (a :: b)
def prSets (d : Gen.D) : List (List Expr) → Except Err (List String)
  | [] => .ok []
  | g :: r => do
      let a ← (prList8 d g).map fun p =>
        (match p with
         | [s] => if s.startsWith "(" then s!"({s})" else s
         | _ => s!"({joinS ", " p})")
      let b ← prSets d r
      pure (a :: b)
def prLateral (d : Gen.D) : Lateral → P
  | .mk o fn v as => (prE d fn).map fun f => s!"LATERAL VIEW {if o then "OUTER " else ""}{f} {v} AS {joinS ", " (as.map quoteName)}"
def prLateralList (d : Gen.D) : List Lateral → Except Err (List String)
  | [] => .ok []
  | l :: r => do let a ← prLateral d l; let b ← prLateralList d r; pure (a :: b)
def prWithTables (d : Gen.D) : List WithTable → Except Err (List String)
  | [] => .ok []
  | .mk n q :: r => do let a ← prQ d q; let b ← prWithTables d r; pure (s!"{quoteName n} AS ({a})" :: b)
/-- `ASTWithClause.source` followed by the statement's own separator; `None.is_empty()` is an AttributeError -/
def prWithPrefix (d : Gen.D) (sep : String) : Option (List WithTable) → P
  | none => .error (.py .AttributeError)
  | some ws => if ws.isEmpty then .ok "" else (prWithTables d ws).map fun l => "WITH " ++ joinS ", \n" l ++ sep
def prCols (d : Gen.D) : List (Expr × Option String) → Except Err (List String)
  | [] => .ok []
  | (e, a) :: r => do
      let x ← prE d e
      let b ← prCols d r
      pure ((match a with | some a => s!"{x} AS {quoteName a}" | none => x) :: b)
def prGroupBy (d : Gen.D) : GroupBy → P
  | .mk gc sets cube rollup => do
      let c ← prList8 d gc
      let s ← (match sets with
        | some l => (prSets d l).map fun x => " GROUPING SETS (" ++ joinS ", " x ++ ")"
        | none => pure "")
      pure s!"GROUP BY {joinS ", " c}{s}{if cube then " WITH CUBE" else ""}{if rollup then " WITH ROLLUP" else ""}"
def prS (d : Gen.D) : Select → P
  | .mk ws dist cols fr lats js wh gb hv ob sb db cb lm => do
      let w ← prWithPrefix d "\n" ws
      if d != .HIVE && (sb.isSome || db.isSome || cb.isSome) then throw .notSupported
      if !(d == .HIVE || d == .DEFAULT) && !lats.isEmpty then throw .notSupported
      let cs ← prCols d cols
      let sel := joinS " " (["SELECT"] ++ (if dist then ["DISTINCT"] else []) ++ [joinS ", " cs])
      let frs ← (match fr with | some l => (prFromList d l).map fun x => ["FROM " ++ joinS ", " x] | none => pure [])
      let lts ← prLateralList d lats
      let jss ← prJoinList d js
      let whs ← (match wh with | some e => (prE d e).map fun x => [s!"WHERE {x}"] | none => pure [])
      let gbs ← (match gb with | some g => (prGroupBy d g).map fun x => [x] | none => pure [])
      let hvs ← (match hv with | some e => (prE d e).map fun x => [s!"HAVING {x}"] | none => pure [])
      let obs ← (match ob with | some l => (prOrdList d l).map fun x => ["ORDER BY " ++ joinS ", " x] | none => pure [])
      let hive ← (if d == .HIVE then do
          let a ← (match sb with | some l => (prOrdList d l).map fun x => ["SORT BY " ++ joinS ", " x] | none => pure [])
          let b ← (match db with | some l => (prList8 d l).map fun x => ["DISTRIBUTE BY " ++ joinS ", " x] | none => pure [])
          let c ← (match cb with | some l => (prList8 d l).map fun x => ["CLUSTER BY " ++ joinS ", " x] | none => pure [])
          pure (a ++ b ++ c)
        else pure [])
      let lms := match lm with | some l => [limitSrc l] | none => []
      pure (w ++ joinS "\n" ([sel] ++ frs ++ lts ++ jss ++ whs ++ gbs ++ hvs ++ obs ++ hive ++ lms))
def prUnions (d : Gen.D) : List (String × Select) → Except Err (List String)
  | [] => .ok []
  | (t, s) :: r => do let u ← wordsSrc Gen.unionTypes t; let a ← prS d s; let b ← prUnions d r; pure (u :: a :: b)
def prQ (d : Gen.D) : Query → P
  | .single s => prS d s
  | .union ws s us => do
      let w ← prWithPrefix d "\n" ws
      let a ← prS d s
      let b ← prUnions d us
      pure (w ++ joinS "\n" (a :: b))
end

/-! ## DDL and the other statements -/

/-- `ASTPartitionExpression._partition_source`: key and value of `k = v` bracketed above the compute level, a dynamic item likewise -/
def prPartItem (d : Gen.D) (e : Expr) : P :=
  match e with
  | .compare o l r => do let a ← (prE d l).map (wrap l 8); let b ← compareOpSrc o; let c ← (prE d r).map (wrap r 8); pure s!"{a} {b} {c}"
  | e => (prE d e).map (wrap e 8)
def prPartList (d : Gen.D) : List Expr → Except Err (List String)
  | [] => pure []
  | e :: r => do let a ← prPartItem d e; let b ← prPartList d r; pure (a :: b)
def prPartition (d : Gen.D) (p : List Expr) : P := (prPartList d p).map fun l => s!"PARTITION ({joinS ", " l})"

/-- `ASTColumnTypeExpression.source` (`node.py:1352-1365`) -/
def prColType (d : Gen.D) (t : ColType) : P :=
  match t.params with
  | none => .ok t.name
  | some ps =>
    if d == .HIVE && !(["DECIMAL", "VARCHAR", "CHAR"].contains (Gen.pyUpperS t.name)) then .ok t.name
    else (prList8 d ps).map fun l => s!"{t.name}({joinS "," l})"

/-- `ASTDefineColumnExpression.source` (`node.py:1407-1431`) -/
def prDefCol (d : Gen.D) (c : DefCol) : P := do
  let ty ← prColType d c.type
  let my := d == .MYSQL
  let gen ← (match c.generated with
    | some g => if my then (do
        let e ← prE d g.e
        match g.mode with
        | some m => pure s!" GENERATED ALWAYS AS ({wrap g.e 8 e}) {m}"
        | none => .error (.py .AttributeError))
      else pure ""
    | none => pure "")
  let dflt ← (match c.default with | some e => if my then (prE d e).map fun x => s!" DEFAULT {wrap e 8 x}" else pure "" | none => pure "")
  let onu ← (match c.onUpdate with | some e => if my then (prE d e).map fun x => s!" ON UPDATE {wrap e 8 x}" else pure "" | none => pure "")
  pure (s!"`{c.name}` {ty}"
    ++ (if c.unsigned && my then " UNSIGNED" else "")
    ++ (if c.zerofill && my then " ZEROFILL" else "")
    ++ (match c.charset with | some s => if my then s!" CHARACTER SET {s}" else "" | none => "")
    ++ (match c.collate with | some s => if my then s!" COLLATE {s}" else "" | none => "")
    ++ gen
    ++ (if c.allowNull && my then " NULL" else "")
    ++ (if c.notNull && my then " NOT NULL" else "")
    ++ (if c.autoInc && my then " AUTO_INCREMENT" else "")
    ++ dflt ++ onu
    ++ (match c.comment with | some s => s!" COMMENT {s}" | none => ""))

def prIndexCol (c : IndexCol) : String := match c.maxLen with | none => s!"`{c.name}`" | some n => s!"`{c.name}`({n})"
def _root_.Ast.IndexKind.word : IndexKind → String
  | .primary => "PRIMARY KEY" | .unique => "UNIQUE KEY" | .normal => "KEY" | .fulltext => "FULLTEXT KEY"
/-- `ASTIndexExpressionBase._source` -/
def prIndex (i : Index) : String :=
  i.kind.word ++ (match i.name with | some n => s!" {n}" | none => "") ++ " (" ++ joinS "," (i.cols.map prIndexCol) ++ ")"
    ++ (match i.usingMethod with | some u => s!" USING {u}" | none => "")
    ++ (match i.comment with | some c => s!" COMMENT {c}" | none => "")
    ++ (match i.keyBlockSize with | some n => s!" KEY_BLOCK_SIZE={n}" | none => "")
/-- `ASTForeignKeyExpression.source` -/
def prForeignKey (f : ForeignKey) : String :=
  s!"CONSTRAINT {f.constraint} FOREIGN KEY ({joinS ", " f.slave}) REFERENCES {f.master} ({joinS ", " f.masterCols})"
    ++ (match f.onDelete with | some a => s!" ON DELETE {a}" | none => "")
    ++ (match f.onUpdate with | some a => s!" ON UPDATE {a}" | none => "")

def prColOrIdx (d : Gen.D) : ColOrIdx → P
  | .col c => prDefCol d c | .idx i => .ok (prIndex i) | .fk f => .ok (prForeignKey f)

def prAlterOp (d : Gen.D) : AlterOp → P
  | .addPartition b p => (prPartition d p).map fun x => s!"ADD{if b then " IF NOT EXISTS" else ""} {x}"
  | .add x => (prColOrIdx d x).map fun s => s!"ADD {s}"
  | .modify x => (prColOrIdx d x).map fun s => s!"MODIFY {s}"
  | .change f t => (prColOrIdx d t).map fun s => s!"CHANGE `{f}` {s}"
  | .renameColumn f t => .ok s!"RENAME COLUMN `{f}` TO `{t}`"
  | .dropColumn c => .ok s!"DROP COLUMN `{c}`"
  | .dropPartition b p => (prPartition d p).map fun x => s!"DROP{if b then " IF EXISTS" else ""} {x}"

def mapM' {α : Type} (f : α → P) : List α → Except Err (List String)
  | [] => .ok []
  | a :: r => do let x ← f a; let y ← mapM' f r; pure (x :: y)

def titleStr (c : CreateTable) : String :=
  s!"CREATE TABLE{if c.ifNotExists then " IF NOT EXISTS" else ""} {tableNameSrc c.table.schema c.table.name}"

/-- `_source_mysql` -/
def prCreateMysql (c : CreateTable) : P := do
  let cols ← mapM' (prDefCol .MYSQL) c.columns
  let lines := cols ++ (match c.primaryKey with | some i => [prIndex i] | none => []) ++ c.uniqueKey.map prIndex ++ c.key.map prIndex
    ++ c.fulltextKey.map prIndex ++ c.foreignKey.map prForeignKey
  pure (titleStr c ++ " (\n" ++ joinS ",\n" (lines.map ("  " ++ ·)) ++ "\n)"
    ++ (match c.engine with | some s => s!" ENGINE={s}" | none => "")
    ++ (match c.autoIncrement with | some n => s!" AUTO_INCREMENT={n}" | none => "")
    ++ (match c.defaultCharset with | some s => s!" DEFAULT CHARSET={s}" | none => "")
    ++ (match c.collate with | some s => s!" COLLATE={s}" | none => "")
    ++ (match c.rowFormat with | some s => s!" ROW_FORMAT={s}" | none => "")
    ++ (match c.statesPersistent with | some s => s!" STATS_PERSISTENT={s}" | none => "")
    ++ (match c.comment with | some s => s!" COMMENT={s}" | none => ""))

/-- `_source_hive` (leading blank, `TBLPROPERTIES` glued to what precedes it: `node.py:1637,1661`) -/
def prCreateHive (c : CreateTable) : P := do
  let cols ← mapM' (prDefCol .HIVE) c.columns
  let parts ← mapM' (prDefCol .HIVE) c.partitionedBy
  pure (" " ++ titleStr c ++ "(\n" ++ joinS ",\n" (cols.map ("  " ++ ·)) ++ "\n)"
    ++ (match c.comment with | some s => s!" COMMENT {s}" | none => "")
    ++ (if c.partitionedBy.isEmpty then "" else s!" PARTITIONED BY ({joinS ", " parts})")
    ++ (match c.rowFormatSerde with | some s => s!" ROW FORMAT SERDE {s}" | none => "")
    ++ (match c.rowFormatDelimited with | some s => s!" ROW FORMAT DELIMITED FIELDS TERMINATED BY {s}" | none => "")
    ++ (match c.storedAsInputformat with | some s => s!" STORED AS INPUTFORMAT {s}" | none => "")
    ++ (if c.storedAsTextfile then " STORED AS TEXTFILE" else "")
    ++ (match c.outputformat with | some s => s!" OUTPUTFORMAT {s}" | none => "")
    ++ (match c.location with | some s => s!" LOCATION {s}" | none => "")
    ++ (if c.tblproperties.isEmpty then "" else " TBLPROPERTIES (" ++ joinS ", " (c.tblproperties.map fun p => s!"{p.name}={p.value}") ++ ")"))

def tn (t : TableName) : String := tableNameSrc t.schema t.name

/-- `ASTInsertStatement._insert_str` -/
def prInsertHead (d : Gen.D) (h : InsertHead) : P := do
  if h.type == "INSERT_OVERWRITE" && !(d == .HIVE || d == .DEFAULT) then throw .notSupported
  let ty ← wordsSrc Gen.insertTypes h.type
  let part ← (match h.partition with | some p => (prPartition d p).map fun x => x ++ " " | none => pure "")
  let cols := match h.columns with
    | some cs => "(" ++ joinS ", " (cs.map fun (t, c) => columnSrc d t c) ++ ") "
    | none => ""
  let w ← prWithPrefix d "\n" h.withs
  pure s!"{w}{ty} {if d == .HIVE then "TABLE " else ""}{tn h.table} {part}{cols}"

def prTail (d : Gen.D) (wh : Option Expr) (ob : Option (List OrderItem)) (lm : Option (Int × Option Int)) : P := do
  let a ← (match wh with | some e => (prE d e).map fun x => s!" WHERE {x}" | none => pure "")
  let b ← (match ob with | some l => (prOrdList d l).map fun x => " ORDER BY " ++ joinS ", " x | none => pure "")
  pure (a ++ b ++ (match lm with | some l => " " ++ limitSrc l | none => ""))

/-- `ASTStatementBase.source` for every statement class -/
def prStmt (d : Gen.D) : Stmt → P
  | .select q => prQ d q
  | .insertValues h vs => do
      let rows ← mapM' (fun r => (prList8 d r).map fun p => s!"({joinS ", " p})") vs
      let hd ← prInsertHead d h
      pure s!"{hd}VALUES {joinS ", " rows}"
  | .insertSelect h q => do let hd ← prInsertHead d h; let s ← prQ d q; pure s!"{hd} {s}"
  | .update ws t sets wh ob lm => do
      let w ← prWithPrefix d "\n\n" ws
      let ss ← mapM' (fun (cv : String × Expr) => (prE d cv.2).map fun x => s!"`{cv.1}` = {x}") sets
      let tl ← prTail d wh ob lm
      pure s!"{w}UPDATE {tn t} SET {joinS ", " ss}{tl}"
  | .delete t wh ob lm => do let tl ← prTail d wh ob lm; pure s!"DELETE FROM {tn t} {tl}"
  | .createTable c => if d == .MYSQL then prCreateMysql c else if d == .HIVE then prCreateHive c else .error .parse
  | .createTableAs t ine q => (prQ d q).map fun s => s!"CREATE TABLE {if ine then "IF NOT EXISTS " else ""}{tn t} AS {s}"
  | .dropTable b t => .ok s!"DROP TABLE {if b then "IF EXISTS " else ""}{tn t}"
  | .set c => .ok s!"SET {c.name}={c.value}"
  | .analyze t p fc cm ns =>
      if d == .HIVE then do
        let ps ← (match p with | some p => (prPartition d p).map fun x => x ++ " " | none => pure "")
        pure s!"ANALYZE TABLE {tn t} {ps} COMPUTE STATISTICS{if fc then " FOR COLUMNS" else ""}{if cm then " CACHE METADATA" else ""}{if ns then " NOSCAN" else ""}"
      else if d == .MYSQL then .ok s!"ANALYZE TABLE {tn t}"
      else .error .notSupported
  | .alter t ops => (mapM' (prAlterOp d) ops).map fun l => s!"ALTER TABLE {tn t} \n{joinS ",\n" l}"
  | .msck t => .ok s!"MSCK REPAIR TABLE {tn t}"
  | .use s => .ok s!"USE {s}"
  | .truncate t => .ok s!"TRUNCATE TABLE {tn t}"
  | .showDatabases => .ok "SHOW DATABASES"
  | .showTables => .ok "SHOW TABLES"
  | .showColumns fr wh => do
      -- f-string parts are evaluated left to right: the FROM clause first
      let w ← (match wh with | some e => (prE d e).map fun x => s!" WHERE {x}" | none => pure "")
      let f ← prFromList d fr
      pure s!"SHOW COLUMNS FROM {joinS ", " f}{w}"

end PR
