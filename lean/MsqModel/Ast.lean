/-!
# Typed abstract syntax trees (model of `core/node.py`'s dataclasses)

One inductive family for expressions and queries (mutually recursive), plain structures for DDL.
Several Python classes that differ only in their class name share a constructor with a tag
(`Expr.kw`, `Index`); `toVal` (MsqModel/Val.lean) expands them to the exact class and field names, and
a `decide` obligation checks those against the generated schema.

Enum-valued fields hold the *member name* Python reports (`EnumComputeOperator.PLUS.name`), never
the spelling in the source; the spelling tables are generated (`Gen.computeHash` …).
-/
namespace Ast

inductive RowItem where
  | current | unbounded (preceding : Bool) | num (n : Int) (preceding : Bool)
  deriving Repr, Inhabited, DecidableEq

/-- `ASTIsExpression`, `ASTInExpression`, `ASTLikeExpression`, `ASTRlikeExpression`, `ASTRegexpExpression` -/
inductive KwKind | is | in_ | like | rlike | regexp
  deriving Repr, Inhabited, DecidableEq

mutual
inductive Expr where
  | column (table : Option String) (name : String)
  | literal (v : String)
  | wildcard (table : Option String)
  | func (schema : Option String) (name : String) (params : List Expr)
  | agg (name : String) (params : List Expr) (distinct : Bool)
  | cast (e : Expr) (signed : Bool) (ty : String) (params : Option (List Int))
  | extract (name e : Expr)
  | window (fn : Expr) (part : List Expr) (ord : List OrderItem) (rows : Option (RowItem × RowItem))
  | caseCond (cases : List (Expr × Expr)) (els : Option Expr)
  | caseVal (v : Expr) (cases : List (Expr × Expr)) (els : Option Expr)
  | subValue (vs : List Expr)
  | subQuery (q : Query)
  | exists_ (q : Expr)
  | index (a i : Expr)
  | unary (op : String) (e : Expr)
  | compute (l : Expr) (op : String) (r : Expr)
  | kw (kind : KwKind) (isNot : Bool) (l r : Expr)
  | between (isNot : Bool) (b f t : Expr)
  | compare (op : String) (l r : Expr)
  | not_ (e : Expr) | and_ (l r : Expr) | xor (l r : Expr) | or_ (l r : Expr)
  | mybatis (src : String)
inductive OrderItem where
  | mk (e : Expr) (desc nullsFirst nullsLast : Bool)
inductive TableRef where
  | table (schema : Option String) (name : String)
  | sub (q : Query)
inductive FromTable where
  | mk (t : TableRef) (alias : Option String)
inductive JoinRule where
  | on (e : Expr) | using (f : Expr)
inductive Join where
  | mk (type : String) (t : FromTable) (rule : Option JoinRule)
inductive GroupBy where
  | mk (cols : List Expr) (sets : Option (List (List Expr))) (cube rollup : Bool)
inductive Lateral where
  | mk (outer : Bool) (fn : Expr) (view : String) (aliases : List String)
inductive WithTable where
  | mk (name : String) (q : Query)
inductive Select where
  | mk (withs : Option (List WithTable)) (distinct : Bool) (cols : List (Expr × Option String))
       (from_ : Option (List FromTable)) (laterals : List Lateral) (joins : List Join) (where_ : Option Expr)
       (group : Option GroupBy) (having : Option Expr) (order : Option (List OrderItem))
       (sort : Option (List OrderItem)) (distribute : Option (List Expr)) (cluster : Option (List Expr))
       (limit : Option (Int × Option Int))
inductive Query where
  | single (s : Select)
  | union (withs : Option (List WithTable)) (first : Select) (rest : List (String × Select))
end
instance : Inhabited Expr := ⟨.literal ""⟩

abbrev Withs := Option (List WithTable)

structure TableName where
  schema : Option String
  name : String
  deriving Repr, Inhabited, DecidableEq

structure ColType where
  name : String
  params : Option (List Expr)

structure GenCol where
  e : Expr
  /-- `GENERATE_COLUMN_SAVE_MODE_HASH.get(...)`: `None` for an unknown word -/
  mode : Option String

structure DefCol where
  name : String
  type : ColType
  unsigned : Bool := false
  zerofill : Bool := false
  charset : Option String := none
  collate : Option String := none
  generated : Option GenCol := none
  allowNull : Bool := false
  notNull : Bool := false
  autoInc : Bool := false
  default : Option Expr := none
  onUpdate : Option Expr := none
  comment : Option String := none

structure IndexCol where
  name : String
  maxLen : Option Int
  deriving Repr, DecidableEq

inductive IndexKind | primary | unique | normal | fulltext
  deriving Repr, DecidableEq

structure Index where
  kind : IndexKind
  name : Option String
  cols : List IndexCol
  usingMethod : Option String
  comment : Option String
  keyBlockSize : Option Int
  deriving Repr, DecidableEq

structure ForeignKey where
  constraint : String
  slave : List String
  master : String
  masterCols : List String
  onDelete : Option String
  onUpdate : Option String
  deriving Repr, DecidableEq

inductive ColOrIdx where
  | col (c : DefCol) | idx (i : Index) | fk (f : ForeignKey)

inductive AlterOp where
  | addPartition (ifNotExists : Bool) (p : List Expr)
  | add (x : ColOrIdx)
  | modify (x : ColOrIdx)
  | change (from_ : String) (to : ColOrIdx)
  | renameColumn (from_ to : String)
  | dropColumn (c : String)
  | dropPartition (ifExists : Bool) (p : List Expr)

structure ConfigStr where
  name : String
  value : String
  deriving Repr, DecidableEq

structure CreateTable where
  table : TableName
  ifNotExists : Bool
  columns : List DefCol
  primaryKey : Option Index
  uniqueKey : List Index
  key : List Index
  fulltextKey : List Index
  foreignKey : List ForeignKey
  partitionedBy : List DefCol
  comment : Option String
  engine : Option String
  autoIncrement : Option Int
  defaultCharset : Option String
  collate : Option String
  rowFormat : Option String
  statesPersistent : Option String
  rowFormatSerde : Option String
  rowFormatDelimited : Option String
  storedAsInputformat : Option String
  storedAsTextfile : Bool
  outputformat : Option String
  location : Option String
  tblproperties : List ConfigStr

structure InsertHead where
  withs : Withs
  type : String
  table : TableName
  partition : Option (List Expr)
  columns : Option (List (Option String × String))

inductive Stmt where
  | select (q : Query)
  | insertValues (h : InsertHead) (values : List (List Expr))
  | insertSelect (h : InsertHead) (q : Query)
  | update (withs : Withs) (table : TableName) (sets : List (String × Expr)) (where_ : Option Expr)
      (order : Option (List OrderItem)) (limit : Option (Int × Option Int))
  | delete (table : TableName) (where_ : Option Expr) (order : Option (List OrderItem)) (limit : Option (Int × Option Int))
  | createTable (c : CreateTable)
  | createTableAs (table : TableName) (ifNotExists : Bool) (q : Query)
  | dropTable (ifExists : Bool) (table : TableName)
  | set (c : ConfigStr)
  | analyze (table : TableName) (partition : Option (List Expr)) (forColumns cacheMetadata noscan : Bool)
  | alter (table : TableName) (ops : List AlterOp)
  | msck (table : TableName)
  | use (schema : String)
  | truncate (table : TableName)
  | showDatabases
  | showTables
  | showColumns (from_ : List FromTable) (where_ : Option Expr)

end Ast
