import MsqModel.Parse.Prim
/-!
# `TokenScanner` (`common/scanner.py`) as a state machine

`(elements, pos)` exactly as the class holds them; every method returns the new scanner and the result,
or the exception Python raises.  `pos` may run past the end through `move` (as in Python).
Patterns are strings (compared by `equals`) or marks.
-/
open Lex
namespace Scan

structure Scanner where
  elems : List Tok
  pos : Nat := 0

inductive Pat | str (s : String) | mark (m : Nat)

def Pat.matches (p : Pat) (t : Tok) : Bool :=
  match p with | .str s => t.equalsStr s | .mark m => t.has m

namespace Scanner
def len (s : Scanner) : Nat := s.elems.length
/-- `is_finish` -/
def isFinish (s : Scanner) : Bool := s.pos ≥ s.len
/-- `get_or_null` -/
def getOrNull (s : Scanner) : Option Tok := s.elems[s.pos]?
/-- `get_offset_or_null` -/
def getOffsetOrNull (s : Scanner) (k : Nat) : Option Tok := s.elems[s.pos + k]?
/-- `get_offset` (raises `SqlParseError` past the end) -/
def getOffset (s : Scanner) (k : Nat) : Except Err Tok :=
  match s.elems[s.pos + k]? with | some t => .ok t | none => .error .parse
/-- `pop` -/
def pop (s : Scanner) : Except Err (Tok × Scanner) :=
  match s.elems[s.pos]? with | some t => .ok (t, { s with pos := s.pos + 1 }) | none => .error .parse
/-- `move` -/
def move (s : Scanner) (k : Nat) : Scanner := { s with pos := s.pos + k }
/-- `close` -/
def close (s : Scanner) : Except Err Unit := if s.isFinish then .ok () else .error .parse

/-- `search(*tokens)` -/
def search (s : Scanner) (ps : List Pat) : Bool :=
  if s.pos + ps.length > s.len then false
  else (ps.zipIdx.all fun (p, i) => match s.elems[s.pos + i]? with | some t => p.matches t | none => false)
def searchOneTypeMark (s : Scanner) (m : Nat) : Bool := match s.getOrNull with | some t => t.has m | none => false
def searchOneTypeStr (s : Scanner) (k : String) : Bool := match s.getOrNull with | some t => t.srcEq k | none => false
def searchOneTypeStrUseUpper (s : Scanner) (k : String) : Bool := match s.getOrNull with | some t => t.srcEqUp k | none => false
def searchTwoTypeStrUseUpper (s : Scanner) (a b : String) : Bool :=
  match s.elems[s.pos]?, s.elems[s.pos + 1]? with | some x, some y => x.srcEqUp a && y.srcEqUp b | _, _ => false
def searchThreeTypeStrUseUpper (s : Scanner) (a b c : String) : Bool :=
  match s.elems[s.pos]?, s.elems[s.pos + 1]?, s.elems[s.pos + 2]? with
  | some x, some y, some z => x.srcEqUp a && y.srcEqUp b && z.srcEqUp c | _, _, _ => false
def searchOneTypeSet (s : Scanner) (ks : List String) : Bool := match s.getOrNull with | some t => ks.contains t.src | none => false
def searchOneTypeSetUseUpper (s : Scanner) (ks : List String) : Bool := match s.getOrNull with | some t => ks.contains (up t.src) | none => false

/-- `search_and_move*`: advance by the pattern length on success, not at all on failure -/
def andMove (s : Scanner) (ok : Bool) (n : Nat) : Bool × Scanner := if ok then (true, s.move n) else (false, s)
def searchAndMove (s : Scanner) (ps : List Pat) := s.andMove (s.search ps) ps.length
def searchAndMoveOneTypeStr (s : Scanner) (k : String) := s.andMove (s.searchOneTypeStr k) 1
def searchAndMoveOneTypeStrUseUpper (s : Scanner) (k : String) := s.andMove (s.searchOneTypeStrUseUpper k) 1
def searchAndMoveTwoTypeStrUseUpper (s : Scanner) (a b : String) := s.andMove (s.searchTwoTypeStrUseUpper a b) 2
def searchAndMoveThreeTypeStrUseUpper (s : Scanner) (a b c : String) := s.andMove (s.searchThreeTypeStrUseUpper a b c) 3
def searchAndMoveOneTypeSet (s : Scanner) (ks : List String) := s.andMove (s.searchOneTypeSet ks) 1
def searchAndMoveOneTypeSetUseUpper (s : Scanner) (ks : List String) := s.andMove (s.searchOneTypeSetUseUpper ks) 1

/-- `match(*tokens)`: pops before comparing, so a failed match leaves the cursor behind the token it rejected -/
def matchPats : Scanner → List Pat → Except Err Scanner × Scanner
  | s, [] => (.ok s, s)
  | s, p :: ps =>
    match s.pop with
    | .error e => (.error e, s)
    | .ok (t, s') => if p.matches t then matchPats s' ps else (.error .parse, s')

def getAsSourceOrNull (s : Scanner) : Option String := s.getOrNull.map Tok.src
def popAsSource (s : Scanner) : Except Err (String × Scanner) :=
  match s.pop with | .ok (t, s') => .ok (t.src, s') | .error e => .error e
/-- `get_as_children_scanner` -/
def getAsChildrenScanner (s : Scanner) : Except Err Scanner :=
  match s.getOrNull with | some t => .ok { elems := t.children } | none => .error .parse
/-- `pop_as_children_scanner` -/
def popAsChildrenScanner (s : Scanner) : Except Err (Scanner × Scanner) :=
  match s.pop with | .ok (t, s') => .ok ({ elems := t.children }, s') | .error e => .error e
/-- `pop_as_children_scanner_list_split_by` -/
def popAsChildrenScannerListSplitBy (s : Scanner) (sep : String) : Except Err (List Scanner × Scanner) :=
  match s.pop with
  | .ok (t, s') => .ok ((PM.splitBy sep t.children [] []).map (fun e => { elems := e }), s')
  | .error e => .error e

/-- what the suffix-style primitives of the parser model see -/
def rest (s : Scanner) : List Tok := s.elems.drop s.pos
end Scanner

end Scan
