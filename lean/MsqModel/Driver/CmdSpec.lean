import MsqModel.Lex.Spec
import MsqModel.Gen.LexCfg0
import MsqModel.Gen.LexCfg1
import MsqModel.Gen.LexCfg2
import MsqModel.Gen.LexCfg3
import MsqModel.Gen.LexCfg4
import MsqModel.Gen.LexCfg5
import MsqModel.Gen.LexCfg6
import MsqModel.Gen.LexCfg7
/-!
Driver commands for C05 (failing-input search; independent of the proofs, so they work on tables regenerated from a
changed `/repo`):

* `SPECDIFF <cfg>` → `OK` followed by every cell where the generated table of option setting `<cfg>` and the
  specification automaton `Spec.cellD` disagree, as blank-separated items `state:charcode:generated-op:spec-op`
  (`charcode` 128 = the default row / every other character, 1114112 = end of text; an op is `class/status/marks` or
  `none`); `OK` alone when they agree.
* `SPECDEVS` → `OK` followed by the listed deviations as `state:charcode:code-op:grammar-op` items (`charcode` is the
  representative of the deviating class).
-/
open Lex
namespace Drv

def specCfg : Nat → Option (Cfg Gen.Cls)
  | 0 => some Gen.Cfg0.cfg | 1 => some Gen.Cfg1.cfg | 2 => some Gen.Cfg2.cfg | 3 => some Gen.Cfg3.cfg
  | 4 => some Gen.Cfg4.cfg | 5 => some Gen.Cfg5.cfg | 6 => some Gen.Cfg6.cfg | 7 => some Gen.Cfg7.cfg
  | _ => none

def showOp : Option Spec.Op → String
  | none => "none"
  | some o => s!"{((reprStr o.cls).splitOn ".").getLast!}/{o.status.name}/{o.marks}"

def showCell (x : S × Nat × Option Spec.Op × Option Spec.Op) : String :=
  s!"{x.1.name}:{x.2.1}:{showOp x.2.2.1}:{showOp x.2.2.2}"

def cmdSpec : List String → Option String
  | ["SPECDIFF", i] =>
    some (match i.toNat? >>= specCfg with
      | none => "BADREQ"
      | some cfg => " ".intercalate ("OK" :: ((Spec.diffCells cfg i.toNat!).map showCell).eraseDups))
  | ["SPECDEVS"] =>
    some (" ".intercalate ("OK" :: allS.flatMap fun s => (Spec.devsOf s).map fun d =>
      showCell (s, d.rep, d.op, if d.rep == Spec.endCode then Spec.atEnd 7 s else Spec.cell 7 s d.rep)))
  | _ => none

end Drv
