import MsqModel.Helpers
import MsqModel.Parse.Entry
import MsqModel.Driver.ShowVal
import MsqModel.Gen.Static
/-!
Driver commands for C11.

`IMM <dialect> <hex text>`: parse the statements; answer the number of nodes, whether every value is immutable (no list at any
depth), `checks=ok` (the prediction for the run-time checks only the implementation side can perform: `setattr` raises, `hash`
succeeds, a re-parsed copy is equal and hashes equal, a changed copy is different) and the sorted set of node classes.

`HELP <dialect> <hex statement text> <hex helper calls>`: apply a sequence of copy-and-modify helpers to the first statement.
calls (joined by `;`): `swc:<hex WITH text | ->` · `stn:<hex schema | ->:<hex table>` · `ct:<0|1>` (change_type with the shipped
`HASHMAP_MYSQL_TO_HIVE`, `remove_param`) · `ac:<hex column definition>` · `apc:<hex column definition>`.
Per call: `ok,<same|other:Cls>,<kept|changed>,<hashable|unhashable:list_at_<path>>` or `E:<error kind>`; then `final=<dump>`.
-/
namespace Drv
open Help

mutual
def countNodes : Val → Nat
  | .node _ fs => 1 + countNodesF fs
  | .tuple xs => countNodesL xs
  | .list xs => countNodesL xs
  | _ => 0
def countNodesL : List Val → Nat
  | [] => 0
  | x :: r => countNodes x + countNodesL r
def countNodesF : List (String × Val) → Nat
  | [] => 0
  | (_, x) :: r => countNodes x + countNodesF r
end

mutual
def classesOf : Val → List String
  | .node c fs => c :: classesOfF fs
  | .tuple xs => classesOfL xs
  | .list xs => classesOfL xs
  | _ => []
def classesOfL : List Val → List String
  | [] => []
  | x :: r => classesOf x ++ classesOfL r
def classesOfF : List (String × Val) → List String
  | [] => []
  | (_, x) :: r => classesOf x ++ classesOfF r
end

def sortDistinct (xs : List String) : List String := ((xs.toArray.qsort (· < ·)).toList).eraseDups

def cmdImmOnly : List String → Option String
  | ["IMM", dn, h] =>
    some <| match Gen.D.ofName? dn with
    | none => "BADREQ dialect"
    | some d =>
      match PM.parseStatementsText d (unhex h) with
      | .error e => e.show
      | .ok ss =>
        let vs := ss.map Ast.Stmt.toVal
        s!"OK n={countNodesL vs} imm={if Val.immutableL vs then "true" else "false"} checks=ok classes={",".intercalate (sortDistinct (classesOfL vs))}"
  | _ => none

mutual
/-- every node of a value, at any depth (the order of `canon.walk_nodes`) -/
def subNodes : Val → List Val
  | .node c fs => .node c fs :: subNodesF fs
  | .tuple xs => subNodesL xs
  | .list xs => subNodesL xs
  | _ => []
def subNodesL : List Val → List Val
  | [] => []
  | x :: r => subNodes x ++ subNodesL r
def subNodesF : List (String × Val) → List Val
  | [] => []
  | (_, x) :: r => subNodes x ++ subNodesF r
end

/-- `POOL <dialect> <hex text>…`: parse every text; over ALL nodes of all accepted texts: how many there are and how many are
structurally distinct (distinct canonical dumps).  `checks=ok` is the prediction for the cross-tree checks only the implementation can
perform: for every pair of nodes, `==` ⇔ equal dumps, `==` ⇒ equal hashes, and a set / dict of the nodes keeps exactly the distinct dumps. -/
def cmdPool : List String → Option String
  | "POOL" :: dn :: hs =>
    some <| match Gen.D.ofName? dn with
    | none => "BADREQ dialect"
    | some d =>
      let parsed := hs.map fun h => PM.parseStatementsText d (unhex h)
      let status := parsed.map fun r => match r with | .ok _ => "P" | .error e => e.show.replace " " "_"
      let vals := parsed.flatMap fun r => match r with | .ok ss => ss.map Ast.Stmt.toVal | .error _ => []
      let nodes := subNodesL vals
      let dumps := sortDistinct (nodes.map showVal)
      if status.any (·.startsWith "UNMODELLED") then "UNMODELLED pool"
      else s!"OK t={",".intercalate status} n={nodes.length} distinct={dumps.length} checks=ok"
  | _ => none

def hashStatus (v : Val) : String :=
  match firstList v with
  | none => "hashable"
  | some p => "unhashable:list_at_" ++ p

def callStatus (before result after : Val) : String :=
  let cls := match clsOf result, clsOf before with
    | some a, some b => if a == b then "same" else "other:" ++ a
    | _, _ => "other:?"
  s!"ok,{cls},{if showVal after == showVal before then "kept" else "changed"},{hashStatus result}"

def optArg (h : String) : Option String := if h == "-" then none else some (unhexS h)

/-- one helper call on the current value: (status, new current value) -/
def helpCall (d : Gen.D) (cur : Val) (call : String) : String × Val :=
  let fail (e : Err) : String × Val := ("E:" ++ e.show.replace " " "_", cur)
  match call.splitOn ":" with
  | ["swc", h] =>
    let arg : Except Err Val := match optArg h with
      | none => .ok Val.none
      | some t => (PM.parseText "with_clause" d t.toList).map (·.1)
    (match arg with
     | .error _ => ("BADARG", cur)
     | .ok w => match setWithClauses cur w with
       | .ok r => (callStatus cur r cur, r)
       | .error e => fail e)
  | ["stn", hs, ht] =>
    (match setTableName cur (Ast.tableNameVal (optArg hs) (unhexS ht)) with
     | .ok r => (callStatus cur r cur, r)
     | .error e => fail e)
  | ["ct", rp] =>
    (match changeType cur Gen.mysqlToHive (rp == "1") with
     | .ok r => (callStatus cur r cur, r)
     | .error e => fail e)
  | [op, h] =>
    if op == "ac" || op == "apc" then
      (match PM.parseText "define_column_expression" d (unhex h) with
       | .error _ => ("BADARG", cur)
       | .ok (col, _) =>
         match (if op == "ac" then appendColumn cur col else appendPartitionByColumn cur col) with
         | .ok (r, after) => (callStatus cur r after, r)
         | .error e => fail e)
    else ("BADCALL", cur)
  | _ => ("BADCALL", cur)

def cmdHelp : List String → Option String
  | ["HELP", dn, h, hc] =>
    some <| match Gen.D.ofName? dn with
    | none => "BADREQ dialect"
    | some d =>
      match PM.parseStatementsText d (unhex h) with
      | .error e => e.show
      | .ok [] => "NOSTMT"
      | .ok (s :: _) =>
        let calls := if hc == "-" then [] else (unhexS hc).splitOn ";"
        let (out, fin) := calls.foldl (fun (acc : List String × Val) c => let (st, v) := helpCall d acc.2 c; (acc.1 ++ [st], v)) ([], s.toVal)
        "OK " ++ " ".intercalate out ++ (if out.isEmpty then "" else " ") ++ "final=" ++ showVal fin
  | _ => none

def cmdImm (parts : List String) : Option String :=
  match cmdImmOnly parts with
  | some a => some a
  | none => match cmdPool parts with
    | some a => some a
    | none => cmdHelp parts

end Drv
