import MsqModel.Driver.Codec
import MsqModel.Driver.CmdCount
import MsqModel.Driver.CmdScan
import MsqModel.Driver.CmdAnalyze
import MsqModel.Driver.CmdCache
import MsqModel.Driver.CmdImm
import MsqModel.Driver.CmdConv
import MsqModel.Driver.CmdSpec
import MsqModel.Driver.CmdEntry2
import MsqModel.Driver.CmdCost
/-!
Driver commands contributed by other modules: add `import MsqModel.Driver.CmdXxx` here and its handler to `handlers`.
A handler returns `none` for a request that is not its own.
-/
namespace Drv

def handlers : List (List String → Option String) := [cmdAnalyze, cmdCache, cmdScan, cmdCount, cmdImm, cmdConv, cmdSpec, cmdEntry2, cmdCost]

def dispatchExt (parts : List String) : String :=
  match handlers.findSome? (fun h => h parts) with
  | some a => a
  | none => "BADREQ"

end Drv
