import MsqModel.Analyze.Tables
import MsqModel.Analyze.Columns
import MsqModel.Analyze.Lineage
import MsqModel.Parse.Entry
import MsqModel.Driver.ShowVal
/-!
Driver commands of the analyzer models (C14–C16):

* `AN tables <all|from|join> <dialect> <hex text>` — `SQLParser.parse_statements(text, sql_type)[0]` handed to
  `AllUsedQuoteTables` / `AllFromClauseUsedQuoteColumn` / `AllJoinClauseUsedQuoteColumn`; answer `OK L[StandardTable{…},…]`
  or the error kind.
* `AN columns <all|select|join|where|group|having|order|hash> <dialect> <hex text>` — the same statement handed to
  `CurrentUsedQuoteColumn` / `Current<Clause>ClauseUsedQuoteColumn` (answer `OK L[QuoteColumn{…},…]`) or to
  `CurrentColumnSelectToDirectQuoteHash` (answer: the dict as a list of `T[StandardColumn{…},L[QuoteColumn{…},…]]` in insertion order).
* `AN lineage <dialect> <hex catalogue> <hex text>` — the catalogue is a list of `CREATE TABLE` statements separated by `;`,
  served by a `CreateTableStatementGetter` subclass from a dict keyed by `schema.table` / `table`; the first statement of the
  text goes to `TableLineageAnalyzer.get_select_table_lineage` (a SELECT) or `get_insert_table_lineage` (INSERT … SELECT);
  answer `OK <all_columns()> ASKED L[names the getter was asked for]`.
* `AN lineage-seq <dialect> <hex catalogue> <hex text> <hex text> …` — the statements analysed one after the other on ONE
  `TableLineageAnalyzer` (one getter); answer: the `OK <all_columns()>` / error kinds joined by ` ;; `.
-/
namespace Drv

def showAn : Except Err (List Val) → String
  | .ok vs => "OK " ++ showVal (.list vs)
  | .error e => e.show

/-- `SQLParser.parse_statements(text, sql_type)[0]` -/
def firstStmt (d : Gen.D) (text : List Char) : Except Err Ast.Stmt := do
  match ← PM.parseStatementsText d text with
  | [] => .error (.py .IndexError)
  | s :: _ => pure s

def anTables (kind : String) (d : Gen.D) (text : List Char) : String :=
  match firstStmt d text with
  | .error e => e.show
  | .ok s =>
    let v := s.toVal
    if kind == "all" then showAn (AN.allUsedTables v)
    else if kind == "from" then showAn (AN.fromClauseTables v)
    else if kind == "join" then showAn (AN.joinClauseTables v)
    else "BADREQ kind"

def anColumns (kind : String) (d : Gen.D) (text : List Char) : String :=
  match firstStmt d text with
  | .error e => e.show
  | .ok s =>
    if kind == "hash" then
      (match AN.selectHash s with
       | .ok ps => "OK " ++ showVal (.list (ps.map fun (k, v) => .tuple [k.toVal, .list (v.map AN.QCol.toVal)]))
       | .error e => e.show)
    else match AN.Clause.ofName? kind with
      | none => "BADREQ kind"
      | some c => showAn ((AN.currentColsStmt c s).map fun l => l.map AN.QCol.toVal)

/-- `SQLParser.parse_create_table_statement(text)` (default dialect, no `close()`) -/
def parseCreate (piece : List Char) : Except Err Ast.CreateTable :=
  match Lex.lex Gen.cfgS (PM.dialectPre .DEFAULT piece) with
  | .error e => .error e
  | .ok ts => match PM.pCreateTable .DEFAULT (PM.fuelFor ts) ts with
    | .ok (.createTable c, _) => .ok c
    | .ok _ => .error (.unmodelled "not a plain CREATE TABLE")
    | .error e => .error e

def parseCatalogue (text : String) : Except Err LN.Cat :=
  ((text.splitOn ";").filter (fun p => !(p.trimAscii.isEmpty))).mapM fun piece => do
    let c ← parseCreate piece.toList
    pure (LN.StdTable.source (c.table.schema, c.table.name), c)

def showAsked (st : LN.St) : String := " ASKED " ++ showVal (.list (st.asked.map .str))

/-- one top-level call on a statement: `get_select_table_lineage` / `get_insert_table_lineage` start from a NEW
`TableLineageStorage` (`table_lineage_analyzer.py:39-41`); only the getter (its log and cache) outlives the call -/
def lineageCall (cat : LN.Cat) (d : Gen.D) (text : List Char) (asked : List String) : String × Option LN.St :=
  match firstStmt d text with
  | .error e => (e.show, none)
  | .ok (.select q) =>
    (match LN.selectLineage cat (LN.fuelFor q) q { asked := asked } with
     | .ok (lin, st) =>
       ("OK " ++ showVal (.list (lin.allColumns.map fun (c, s) => .tuple [c.toVal, .list (s.map LN.SrcCol.toVal)])), some st)
     | .error e => (e.show, none))
  | .ok (.insertSelect h q) =>
    (match LN.insertLineage cat h q { asked := asked } with
     | .ok (data, st) =>
       ("OK " ++ showVal (.list (data.map fun (dn, ups) => .tuple [dn.toVal, .list (ups.map LN.SrcCol.toVal)])), some st)
     | .error e => (e.show, none))
  | .ok _ => ("BADREQ statement", none)

def anLineage (d : Gen.D) (cat : String) (text : List Char) : String :=
  match parseCatalogue cat with
  | .error _ => "BADREQ catalogue"
  | .ok cat =>
    match lineageCall cat d text [] with
    | (a, some st) => a ++ showAsked st
    | (a, none) => a

/-- a history: several statements analysed one after the other on ONE `TableLineageAnalyzer`.  Nothing but the getter is
shared between the calls, so every answer is the one the statement gets alone (the getter's log is not printed here). -/
def anLineageSeq (d : Gen.D) (cat : String) (texts : List (List Char)) : String :=
  match parseCatalogue cat with
  | .error _ => "BADREQ catalogue"
  | .ok cat => " ;; ".intercalate (texts.map fun t => (lineageCall cat d t []).1)

def cmdAnalyze : List String → Option String
  | "AN" :: "lineage-seq" :: dn :: hc :: hs =>
    some (match Gen.D.ofName? dn with
      | none => "BADREQ dialect"
      | some d => anLineageSeq d (unhexS hc) (hs.map unhex))
  | ["AN", "lineage", dn, hc, h] =>
    some (match Gen.D.ofName? dn with
      | none => "BADREQ dialect"
      | some d => anLineage d (unhexS hc) (unhex h))
  | ["AN", "columns", kind, dn, h] =>
    some (match Gen.D.ofName? dn with
      | none => "BADREQ dialect"
      | some d => anColumns kind d (unhex h))
  | ["AN", "tables", kind, dn, h] =>
    some (match Gen.D.ofName? dn with
      | none => "BADREQ dialect"
      | some d => anTables kind d (unhex h))
  | _ => none

end Drv
