import MsqModel.Analyze.Tables
import MsqModel.Analyze.Columns
import MsqModel.Parse.Entry
import MsqModel.Driver.ShowVal
/-!
Driver commands of the analyzer models (C14–C16):

* `AN tables <all|from|join> <dialect> <hex text>` — `SQLParser.parse_statements(text, sql_type)[0]` handed to
  `AllUsedQuoteTables` / `AllFromClauseUsedQuoteColumn` / `AllJoinClauseUsedQuoteColumn`; answer `OK L[StandardTable{…},…]`
  or the error kind.
* `AN columns <all|select|join|where|group|having|order|hash> <dialect> <hex text>` — the same statement handed to
  `CurrentUsedQuoteColumn` / `Current<Clause>ClauseUsedQuoteColumn` (answer `OK L[QuoteColumn{…},…]`) or to
  `CurrentColumnSelectToDirectQuoteHash` (answer: the dict as a list of `T[StandardColumn{…},L[QuoteColumn{…},…]]` in insertion order).
-/
namespace Drv

def showAn : Except Err (List Val) → String
  | .ok vs => "OK " ++ showVal (.list vs)
  | .error e => e.show

/-- `SQLParser.parse_statements(text, sql_type)[0]` -/
def firstStmt (d : Gen.D) (text : List Char) : Except Err Ast.Stmt := do
  match ← PM.parseStatementsText d text with
  | [] => .error (.py .IndexError)
  | s :: _ => pure s

def anTables (kind : String) (d : Gen.D) (text : List Char) : String :=
  match firstStmt d text with
  | .error e => e.show
  | .ok s =>
    let v := s.toVal
    if kind == "all" then showAn (AN.allUsedTables v)
    else if kind == "from" then showAn (AN.fromClauseTables v)
    else if kind == "join" then showAn (AN.joinClauseTables v)
    else "BADREQ kind"

def anColumns (kind : String) (d : Gen.D) (text : List Char) : String :=
  match firstStmt d text with
  | .error e => e.show
  | .ok s =>
    if kind == "hash" then
      (match AN.selectHash s with
       | .ok ps => "OK " ++ showVal (.list (ps.map fun (k, v) => .tuple [k.toVal, .list (v.map AN.QCol.toVal)]))
       | .error e => e.show)
    else match AN.Clause.ofName? kind with
      | none => "BADREQ kind"
      | some c => showAn ((AN.currentColsStmt c s).map fun l => l.map AN.QCol.toVal)

def cmdAnalyze : List String → Option String
  | ["AN", "columns", kind, dn, h] =>
    some (match Gen.D.ofName? dn with
      | none => "BADREQ dialect"
      | some d => anColumns kind d (unhex h))
  | ["AN", "tables", kind, dn, h] =>
    some (match Gen.D.ofName? dn with
      | none => "BADREQ dialect"
      | some d => anTables kind d (unhex h))
  | _ => none

end Drv
