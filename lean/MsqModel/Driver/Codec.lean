import MsqModel.Lex.Core
/-! line-protocol encoding shared by all driver commands -/
namespace Drv
open Lex

def hexVal (c : Char) : Nat :=
  if '0' ≤ c ∧ c ≤ '9' then c.toNat - 48 else if 'a' ≤ c ∧ c ≤ 'f' then c.toNat - 87 else 0

/-- arguments are UTF-8 bytes in hex -/
def unhex (s : String) : List Char :=
  let rec go : List Char → ByteArray → ByteArray
    | a :: b :: r, acc => go r (acc.push (UInt8.ofNat (hexVal a * 16 + hexVal b)))
    | _, acc => acc
  match String.fromUTF8? (go s.toList ByteArray.empty) with
  | some t => t.toList
  | none => []

def unhexS (s : String) : String := String.ofList (unhex s)

/-- printable quoting of a string inside canonical output -/
def q (cs : List Char) : String :=
  String.ofList (cs.flatMap fun c =>
    let n := c.toNat
    if n > 32 ∧ n < 127 ∧ c ≠ '(' ∧ c ≠ ')' ∧ c ≠ '%' ∧ c ≠ '[' ∧ c ≠ ']' ∧ c ≠ '{' ∧ c ≠ '}' ∧ c ≠ ',' ∧ c ≠ '=' then [c]
    else '%' :: (Nat.toDigits 16 n ++ [';']))

def qs (s : String) : String := q s.toList

mutual
def showTok : Tok → String
  | .single s m => s!"({q s} {m})"
  | .group k cs m =>
    let src := Tok.source (.group k cs m)
    s!"[{if k == .paren then "P" else "S"}{q (src.take 1)}{q (src.drop (src.length - 1))} {m} {src.length} {showToks cs}]"
def showToks : List Tok → String
  | [] => ""
  | t :: ts => showTok t ++ showToks ts
end

def showLex : Except Err (List Tok) → String
  | .ok ts => "OK " ++ showToks ts
  | .error e => e.show

end Drv
