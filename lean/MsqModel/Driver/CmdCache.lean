import MsqModel.Cache
import MsqModel.Parse.Entry
import MsqModel.Driver.ShowVal
/-!
Driver command `CACHE <hex ops>`: run an operation history against the cache model (`MsqModel/Cache.lean`) with the
deterministic schema provider below and the parser model, and print results, provider call log and directory.

ops (joined by `;`):  `new` | `nodisk` | `get:<hex name>` | `crash:<steps>:<flushed>:<hex name>` | `put:<hex file name>:<hex text>`
every `get`/`crash` result is prefixed with `+` (the provider was asked) or `-`; `put` = somebody else (an earlier version of the
library, an editor) writes a file into the cache directory — not an operation of the class.  A history that starts with `anylength`
carries names whose file name exceeds the 255 bytes a file system takes: outside the model (no length limit), answered `UNMODELLED`.

`QUOTE <hex name>` = the file name of a table (`Cache.enc n ++ ".sql"`); `STEM <hex file name>` = the table name `__init__` reads
out of a directory entry (`Cache.entryName`).
-/
namespace Drv
open Cache

def hexDigit (n : Nat) : Char := if n < 10 then Char.ofNat (48 + n) else Char.ofNat (87 + n)

/-- hex of the UTF-8 bytes (the harness' `enhex`, without its `-` for the empty string) -/
def enhex (cs : List Char) : String :=
  String.ofList ((String.ofList cs).toUTF8.toList.flatMap fun b => [hexDigit (b.toNat / 16), hexDigit (b.toNat % 16)])

def endsWith (n : List Char) (suffix : String) : Bool := suffix.toList.isSuffixOf n

/-- the schema provider of the correspondence runs (`tools/harness/canon_ext_cache.py:provider` is the same function) -/
def cacheProvider (n : Name) : Text :=
  if endsWith n "#bad" then "THIS IS NOT SQL".toList
  else if endsWith n "#empty" then []
  else
    let c := if endsWith n "#cr" then "x\ry" else if endsWith n "#crlf" then "x\r\ny" else "c"
    ("CREATE TABLE t_" ++ enhex n ++ " (a INT, b VARCHAR(8) COMMENT '" ++ c ++ "')").toList

/-- `SQLParser.parse_create_table_statement(sql)` (default dialect), result as canonical dump -/
def cacheParse (t : Text) : Except Err String :=
  match PM.parseText "create_table_statement" .DEFAULT t with
  | .ok (v, _) => .ok (showVal v)
  | .error e => .error e

def showFail : Fail → String
  | .parse e => "E:" ++ e.show.replace " " "_"
  | .fileNotFound => "E:PY_FileNotFoundError"
  | .notADirectory => "E:PY_NotADirectoryError"
  | .valueError => "E:PY_ValueError"
  | .crashed => "CRASHED"
  | .outside => "UNMODELLED path"

/-- FNV-1a (64 bit) of the UTF-8 bytes, in hex: histories answer with the digest of a statement's dump, not the dump -/
def fnv1a (s : String) : String :=
  let h := s.toUTF8.foldl (fun (h : UInt64) b => (h ^^^ b.toUInt64) * 0x100000001b3) 0xcbf29ce484222325
  String.ofList (Nat.toDigits 16 h.toNat)

def showRes : Res String → String
  | .ok s => "S#" ++ fnv1a s
  | .fail e => showFail e

def sortStrs (xs : List String) : List String := (xs.toArray.qsort (· < ·)).toList

def showFiles (fs : Files) : String :=
  ",".intercalate (sortStrs (fs.map fun (f, t) => enhex f ++ ":" ++ toString t.length))

def showListed (l : List Name) : String := "I[" ++ ",".intercalate (sortStrs (l.map enhex).eraseDups) ++ "]"

structure CacheRun where
  st : St String
  live : Bool
  out : List String

/-- `+` when the provider was asked during the operation, `-` otherwise -/
def asked (before after : St String) : String := if after.calls.length != before.calls.length then "+" else "-"

def cacheOp (r : CacheRun) (op : String) : CacheRun :=
  match op.splitOn ":" with
  | ["new"] =>
    let s : St String := init true r.st.files r.st.parent r.st.calls
    { st := s, live := true, out := r.out ++ [showListed s.listed] }
  | ["nodisk"] =>
    let s : St String := init false r.st.files r.st.parent r.st.calls
    { st := s, live := true, out := r.out ++ [showListed s.listed] }
  | ["get", h] =>
    if !r.live then { r with out := r.out ++ ["NOINSTANCE"] } else
    let (res, s) := Cache.get cacheProvider cacheParse none r.st (unhex h)
    { st := s, live := true, out := r.out ++ [asked r.st s ++ showRes res] }
  | ["crash", k, fl, h] =>
    if !r.live then { r with out := r.out ++ ["NOINSTANCE"] } else
    let (res, s) := Cache.get cacheProvider cacheParse (some ⟨k.toNat!, fl.toNat!⟩) r.st (unhex h)
    { st := s, live := res != .fail .crashed, out := r.out ++ [asked r.st s ++ showRes res] }
  | ["put", hf, ht] =>
    { r with st := { r.st with files := fset r.st.files (unhex hf) (unhex ht) }, out := r.out ++ ["P"] }
  | _ => { r with out := r.out ++ ["BADOP"] }

def cmdCache : List String → Option String
  | ["CACHE", h] =>
    let ops := (unhexS h).splitOn ";"
    if ops.head? == some "anylength" then some "UNMODELLED file name length" else
    let r := ops.foldl cacheOp { st := fresh true, live := false, out := [] }
    some <|
      match r.out.find? (fun o => (o.drop 1).startsWith "UNMODELLED" || (o.drop 1).startsWith "E:UNMODELLED") with
      | some o => "UNMODELLED " ++ o
      | none =>
        "OK " ++ " ".intercalate r.out ++ " calls=" ++ ",".intercalate (r.st.calls.map enhex)
          ++ " dir=" ++ showFiles r.st.files ++ " parent=" ++ showFiles r.st.parent
  | ["QUOTE", h] => some ("OK " ++ enhex (enc (unhex h) ++ ext))
  | ["STEM", h] =>
    some <| match entryName (unhex h) with
      | some n => "OK some " ++ enhex n
      | none => "OK none"
  | _ => none

end Drv
