import MsqModel.Parse.CostStmt
import MsqModel.Gen.LexShipped
import MsqModel.Driver.Codec
/-!
Driver command of C19 (parser half): `PC <dialect> <hex text>` — the cost model's count of cursor operations of
`SQLParser.parse_statements(text, sql_type)`: `OK <n>` for an accepted text, `REJ <n>` for a text the parser rejects (the operations made
until the exception), the lexer's error kind when the text has no tokens.
-/
open Lex
namespace Drv

def cmdCost : List String → Option String
  | ["PC", dn, h] =>
    some (match Gen.D.ofName? dn with
      | none => "BADREQ dialect"
      | some d => match lex Gen.cfgS (PM.dialectPre d (unhex h)) with
        | .error e => e.show
        | .ok ts => match PM.pStatements_k d (PM.fuelFor ts) ts 0 with
          | (n, .ok _) => s!"OK {n}"
          | (n, .error .parse) => s!"REJ {n}"
          | (_, .error e) => e.show)
  | _ => none

end Drv
