import MsqModel.Convert
import MsqModel.Parse.Entry
import MsqModel.Print
import MsqModel.Driver.ShowVal
/-!
Driver command for C18.

`CONV <hex MySQL DDL> <hex helper calls | ->`: parse the first statement as MySQL (it must be a CREATE TABLE with a column list),
apply the helper calls (`stn:<hex schema|->:<hex table>` · `ct:<0|1>` · `ac:<hex column>` · `apc:<hex column>`, joined by `;`; a
failing call leaves the table as it is), print for HIVE and for MYSQL, re-parse each text with its own dialect; answer

  `OK calls=<ok|E:kind,…|-> v0=<view> v1=<view> hive=<S:text|E:kind> rh=<view|E:kind|N:count|NOTABLE> mysql=<…> rm=<…>`

view = `<schema|None>:<table>|<columns>|<partition columns>|<table comment|None>`, columns joined by `;`, a column = `name:type:params:comment`
(the separators `| ; : ~` inside a component are written `~<hex>~`).
-/
namespace Drv
open Ast Conv

/-- keep the view's separators `| ; : ~` out of its components -/
def esc (s : String) : String :=
  String.ofList (s.toList.flatMap fun c =>
    if c == '|' || c == ';' || c == ':' || c == '~' then '~' :: (Nat.toDigits 16 c.toNat ++ ['~']) else [c])

def showOptS (o : Option String) : String := match o with | some s => "\"" ++ qs s ++ "\"" | none => "None"

def showColView (c : ColView) : String :=
  esc (qs c.name) ++ ":" ++ esc (qs c.type) ++ ":" ++ esc (match c.params with | some ps => showVal (.tuple (exprs ps)) | none => "None") ++ ":"
    ++ esc (showOptS c.comment)

def showView (v : View) : String :=
  esc (showOptS v.schema) ++ ":" ++ esc (qs v.table) ++ "|" ++ ";".intercalate (v.cols.map showColView) ++ "|" ++ ";".intercalate (v.parts.map showColView)
    ++ "|" ++ esc (showOptS v.comment)

def errTok (e : Err) : String := "E:" ++ e.show.replace " " "_"

def convArg (h : String) : Option String := if h == "-" then none else some (unhexS h)

/-- `parse_define_column_expression(text, MYSQL)` as a typed column -/
def parseCol (text : List Char) : Except Err DefCol :=
  match Lex.lex Gen.cfgS (PM.dialectPre .MYSQL text) with
  | .error e => .error e
  | .ok ts => match PM.pDefCol .MYSQL (PM.fuelFor ts) ts with
    | .ok (c, _) => .ok c
    | .error e => .error e

def convCall (c : CreateTable) (call : String) : String × CreateTable :=
  match call.splitOn ":" with
  | ["stn", hs, ht] => ("ok", setTableNameT ⟨convArg hs, unhexS ht⟩ c)
  | ["ct", rp] =>
    (match changeTypeT Gen.mysqlToHive (rp == "1") c with
     | .ok c' => ("ok", c')
     | .error e => (errTok e, c))
  | [op, h] =>
    if op == "ac" || op == "apc" then
      (match parseCol (unhex h) with
       | .error _ => ("BADARG", c)
       | .ok col => ("ok", if op == "ac" then appendColumnT col c else appendPartitionByColumnT col c))
    else ("BADCALL", c)
  | _ => ("BADCALL", c)

/-- print for `d`, re-parse with `d`: (text token, view token) -/
def printReparse (d : Gen.D) (c : CreateTable) : String × String :=
  match PR.prStmt d (.createTable c) with
  | .error e => (errTok e, "-")
  | .ok text =>
    ("S:" ++ qs text,
     match PM.parseStatementsText d text.toList with
     | .error e => errTok e
     | .ok [.createTable c'] => showView (view c')
     | .ok [_] => "NOTABLE"
     | .ok l => "N:" ++ toString l.length)

def cmdConv : List String → Option String
  | ["CONV", h, hc] =>
    some <|
      match PM.parseStatementsText .MYSQL (unhex h) with
      | .error e => e.show
      | .ok (.createTable c :: _) =>
        let calls := if hc == "-" then [] else (unhexS hc).splitOn ";"
        let (sts, c1) := calls.foldl (fun (acc : List String × CreateTable) call => let (st, c') := convCall acc.2 call; (acc.1 ++ [st], c')) ([], c)
        let (ht, hv) := printReparse .HIVE c1
        let (mt, mv) := printReparse .MYSQL c1
        s!"OK calls={if sts.isEmpty then "-" else ",".intercalate sts} v0={showView (view c)} v1={showView (view c1)} hive={ht} rh={hv} mysql={mt} rm={mv}"
      | .ok _ => "NOTABLE"
  | _ => none

end Drv
