import MsqModel.Val
import MsqModel.Driver.Codec
/-! canonical dump of `Val` (must agree with `tools/harness/canon.py:dump`) -/
namespace Drv

mutual
def showVal : Val → String
  | .none => "None"
  | .bool b => if b then "True" else "False"
  | .int n => toString n
  | .str s => "\"" ++ qs s ++ "\""
  | .enum c n => c ++ "." ++ n
  | .tuple xs => "T[" ++ showVals xs ++ "]"
  | .list xs => "L[" ++ showVals xs ++ "]"
  | .node c fs => c ++ "{" ++ showFields fs ++ "}"
def showVals : List Val → String
  | [] => ""
  | [x] => showVal x
  | x :: r => showVal x ++ "," ++ showVals r
def showFields : List (String × Val) → String
  | [] => ""
  | [(n, x)] => n ++ "=" ++ showVal x
  | (n, x) :: r => n ++ "=" ++ showVal x ++ "," ++ showFields r
end

end Drv
