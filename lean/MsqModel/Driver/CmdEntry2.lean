import MsqModel.Parse.Entry2
import MsqModel.Driver.ShowVal
import MsqModel.Gen.Static
/-!
Driver commands for C07 (the argument kinds of `_unify_input_scanner`, parser.py:85-102).

`PS <entry> <dialect> <hex text>`: `SQLParser.parse_<entry>(TokenScanner(FSMMachine.parse(text)), sql_type)` — a scanner argument
is used as it is (no dialect pre-pass).  Answer as for `P`: `OK <unconsumed tokens> <dump>` or the error kind.

`PX <entry> <dialect> <kind>`: the argument is neither a scanner nor a string (`kind` names what the worker passes: `none`,
`bytes`, `int`, `list`); the answer is the library's parse error for every entry point.
-/
namespace Drv

def cmdEntry2 : List String → Option String
  | ["PS", entry, dn, h] =>
    some (match Gen.D.ofName? dn with
      | none => "BADREQ dialect"
      | some d => match PM.parseScanner2 entry d (unhex h) with
        | .ok (v, rest) => s!"OK {rest} {showVal v}"
        | .error e => e.show)
  | ["PX", entry, dn, _kind] =>
    some (match Gen.D.ofName? dn with
      | none => "BADREQ dialect"
      | some d => match PM.parseOther2 entry d with
        | .ok (v, rest) => s!"OK {rest} {showVal v}"
        | .error e => e.show)
  | _ => none

end Drv
