import MsqModel.Lex.Count
import MsqModel.Gen.LexShipped
import MsqModel.Driver.Codec
/-! driver command `LC <hex text>`: number of `handle` calls the lexer model makes -/
open Lex
namespace Drv
def cmdCount : List String → Option String
  | ["LC", h] => some (match handleCalls Gen.cfgS (unhex h) with | .ok n => s!"OK {n}" | .error e => e.show)
  | _ => none
end Drv
