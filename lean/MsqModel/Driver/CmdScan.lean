import MsqModel.Scan
import MsqModel.Gen.LexShipped
import MsqModel.Driver.Codec
/-! driver command `SC <hex text> <ops>`: run a sequence of `TokenScanner` operations on the tokens of a text -/
open Lex Scan
namespace Drv

def patOf (w : String) : Pat :=
  if w.startsWith "@" then
    .mark (match (w.drop 1).toString with
      | "NAME" => Gen.mark_NAME | "PARENTHESIS" => Gen.mark_PARENTHESIS | "LITERAL" => Gen.mark_LITERAL
      | "ARRAY_INDEX" => Gen.mark_ARRAY_INDEX | _ => 0)
  else .str w

def showOptTok : Option Tok → String | none => "N" | some t => showTok t
def showB (b : Bool) : String := if b then "T" else "F"

/-- one operation: (result text, new scanner) -/
def scanOp (s : Scanner) (op : String) (args : List String) : String × Scanner :=
  match op, args with
  | "go", [k] => (match s.getOffset k.toNat! with | .ok t => showTok t | .error e => e.show, s)
  | "gn", [k] => (showOptTok (s.getOffsetOrNull k.toNat!), s)
  | "get", [] => (showOptTok s.getOrNull, s)
  | "pop", [] => (match s.pop with | .ok (t, s') => (showTok t, s') | .error e => (e.show, s))
  | "mv", [k] => ("-", s.move k.toNat!)
  | "close", [] => (match s.close with | .ok _ => "-" | .error e => e.show, s)
  | "fin", [] => (showB s.isFinish, s)
  | "s", ps => (showB (s.search (ps.map patOf)), s)
  | "sm", ps => let r := s.searchAndMove (ps.map patOf); (showB r.1, r.2)
  | "m", ps => let r := s.matchPats (ps.map patOf); (match r.1 with | .ok _ => "-" | .error e => e.show, r.2)
  | "mk", [m] => (showB (match patOf m with | .mark k => s.searchOneTypeMark k | _ => false), s)
  | "ss", [k] => (showB (s.searchOneTypeStr k), s)
  | "sms", [k] => let r := s.searchAndMoveOneTypeStr k; (showB r.1, r.2)
  | "s1", [k] => (showB (s.searchOneTypeStrUseUpper k), s)
  | "sm1", [k] => let r := s.searchAndMoveOneTypeStrUseUpper k; (showB r.1, r.2)
  | "s2", [a, b] => (showB (s.searchTwoTypeStrUseUpper a b), s)
  | "sm2", [a, b] => let r := s.searchAndMoveTwoTypeStrUseUpper a b; (showB r.1, r.2)
  | "s3", [a, b, c] => (showB (s.searchThreeTypeStrUseUpper a b c), s)
  | "sm3", [a, b, c] => let r := s.searchAndMoveThreeTypeStrUseUpper a b c; (showB r.1, r.2)
  | "set", ks => (showB (s.searchOneTypeSet ks), s)
  | "setu", ks => (showB (s.searchOneTypeSetUseUpper ks), s)
  | "smsetu", ks => let r := s.searchAndMoveOneTypeSetUseUpper ks; (showB r.1, r.2)
  | "src", [] => (match s.getAsSourceOrNull with | some x => qs x | none => "N", s)
  | "psrc", [] => (match s.popAsSource with | .ok (x, s') => (qs x, s') | .error e => (e.show, s))
  | "gkid", [] => (match s.getAsChildrenScanner with | .ok c => s!"kids{c.elems.length}/{c.pos}" | .error e => e.show, s)
  | "pkid", [] => (match s.popAsChildrenScanner with | .ok (c, s') => (s!"kids{c.elems.length}/{c.pos}", s') | .error e => (e.show, s))
  -- look ahead INSIDE the group: take the child cursor, advance it by one token (if it has one), throw it away
  | "gkadv", [] => (match s.getAsChildrenScanner with
      | .ok c => (match c.pop with | .ok (_, c') => s!"kids{c'.elems.length}/{c'.pos}" | .error _ => s!"kids{c.elems.length}/{c.pos}")
      | .error e => e.show, s)
  | "split", [sep] => (match s.popAsChildrenScannerListSplitBy sep with
      | .ok (cs, s') => ("split" ++ ",".intercalate (cs.map fun c => toString c.elems.length), s') | .error e => (e.show, s))
  | _, _ => ("BADOP", s)

def runScanOps (s : Scanner) : List String → List String → String
  | [], acc => "\t".intercalate acc
  | o :: os, acc =>
    let parts := o.splitOn ":"
    let r := scanOp s (parts.headD "") (((parts.drop 1).headD "" |>.splitOn "," |>.filter (· != "")).map fun x => if x == "COMMA" then "," else x)
    runScanOps r.2 os (acc ++ [s!"{r.1}@{r.2.pos}"])

def cmdScan : List String → Option String
  | ["SC", h, ops] =>
    some (match lex Gen.cfgS (unhex h) with
      | .error e => e.show
      | .ok ts => "OK " ++ runScanOps { elems := ts } (ops.splitOn ";") [])
  | _ => none

end Drv
