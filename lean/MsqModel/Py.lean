/-!
# The fragment of Python semantics the models need

Everything partial in Python returns the exception Python raises; nothing is totalised.
The Unicode-dependent tables (`str.upper`, decimal digits) are generated from the running
interpreter into `MsqModel/Gen/PyTables.lean`; this file only fixes how they are used.
-/
namespace Py

/-- foreign (non-library) exceptions the modelled code can raise -/
inductive Exc | IndexError | AttributeError | ValueError | KeyError | TypeError | AssertionError
  | FileNotFoundError | UnboundLocalError
  deriving DecidableEq, Repr, Inhabited

def Exc.name : Exc → String
  | .IndexError => "IndexError" | .AttributeError => "AttributeError" | .ValueError => "ValueError"
  | .KeyError => "KeyError" | .TypeError => "TypeError" | .AssertionError => "AssertionError"
  | .FileNotFoundError => "FileNotFoundError" | .UnboundLocalError => "UnboundLocalError"

end Py

/-- Outcome kinds of the modelled library.  `lexical`, `parse`, `notSupported` form the library's
parse-error family (`errors.py`); `analyzer` is `AnalyzerError`; `py` is a foreign exception;
`fuel` is exhaustion of the model's recursion budget (never a result, see fuel adequacy);
`unmodelled` marks an input that leaves the modelled fragment (the correspondence skips it and
counts it). -/
inductive Err
  | lexical | parse | notSupported | analyzer
  | py (e : Py.Exc)
  | fuel
  /-- the Python code provably never returns on this input (C07 finding; the harness observes a time-out) -/
  | diverges
  | unmodelled (why : String)
  deriving DecidableEq, Repr, Inhabited

def Err.show : Err → String
  | .lexical => "LEX" | .parse => "PARSE" | .notSupported => "NOTSUP" | .analyzer => "ANALYZER"
  | .py e => "PY " ++ e.name | .fuel => "FUEL" | .diverges => "HANG" | .unmodelled w => "UNMODELLED " ++ w

/-- the library's parse-error family (C07) -/
def Err.inFamily : Err → Bool
  | .lexical | .parse | .notSupported => true
  | _ => false

namespace Py

/-- `str.replace(pat, rep)` for non-empty `pat`: left to right, non-overlapping. -/
def replaceGo (pat rep : List Char) : Nat → List Char → List Char
  | 0, t => t
  | f+1, t =>
    match t with
    | [] => []
    | c :: r =>
      if pat.isPrefixOf t then rep ++ replaceGo pat rep f (t.drop pat.length)
      else c :: replaceGo pat rep f r

def replace (pat rep : List Char) (t : List Char) : List Char :=
  if pat.isEmpty then t else replaceGo pat rep (t.length + 1) t

def replaceS (s pat rep : String) : String := String.ofList (replace pat.toList rep.toList s.toList)

/-- ASCII rule of `str.upper()` -/
def upperAsciiChar (c : Char) : Char := if 'a' ≤ c ∧ c ≤ 'z' then Char.ofNat (c.toNat - 32) else c

/-- `str.upper()` given the generated exception table (code point ↦ replacement), which lists
every code point where Python's result differs from the ASCII rule. -/
def upperWith (exc : Nat → Option (List Char)) (s : List Char) : List Char :=
  s.flatMap fun c => if c.toNat < 128 then [upperAsciiChar c] else
    match exc c.toNat with
    | some r => r
    | none => [c]

def isAsciiDigit (c : Char) : Bool := '0' ≤ c && c ≤ '9'

end Py
