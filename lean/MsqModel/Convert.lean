import MsqModel.Ast
import MsqModel.Gen.Static
import MsqModel.Gen.PyTables
/-!
# MySQL → Hive table conversion on typed trees (C18)

The copy-and-modify helpers of `ASTCreateTableStatement` (`core/node.py:1635-1664`) once more, this time on the typed
`Ast.CreateTable` (the printer model works on typed trees; the tuple/list distinction that matters for C11 is invisible to
the printers, which only iterate), and the *view* of a table definition that the conversion has to preserve.
-/
namespace Conv
open Ast

/-- the Hive types: what an image of the shipped map may be -/
def hiveTypes : List String :=
  ["TINYINT", "SMALLINT", "INT", "BIGINT", "FLOAT", "DOUBLE", "DECIMAL", "STRING", "VARCHAR", "CHAR", "BOOLEAN", "BINARY", "TIMESTAMP", "DATE"]

/-- the types whose parameters the Hive column printer keeps (`node.py:1361`) -/
def hiveKeepsParams (typeName : String) : Bool := ["DECIMAL", "VARCHAR", "CHAR"].contains (Gen.pyUpperS typeName)

/-- `hashmap[old_column.column_type.name.upper()]` -/
def lookup (hashmap : List (String × String)) (typeName : String) : Option String :=
  (hashmap.find? (·.1 == Gen.pyUpperS typeName)).map (·.2)

/-- one iteration of `change_type` -/
def changeColT (hashmap : List (String × String)) (removeParam : Bool) (col : DefCol) : Except Err DefCol :=
  match lookup hashmap col.type.name with
  | none => .error (.py .KeyError)
  | some h => .ok { col with type := ⟨h, if removeParam then none else col.type.params⟩ }

def changeColsT (hashmap : List (String × String)) (removeParam : Bool) : List DefCol → Except Err (List DefCol)
  | [] => .ok []
  | c :: r =>
    match changeColT hashmap removeParam c with
    | .error e => .error e
    | .ok c' => match changeColsT hashmap removeParam r with
      | .error e => .error e
      | .ok r' => .ok (c' :: r')

/-- `change_type` -/
def changeTypeT (hashmap : List (String × String)) (removeParam : Bool) (c : CreateTable) : Except Err CreateTable :=
  match changeColsT hashmap removeParam c.columns with
  | .error e => .error e
  | .ok cols => .ok { c with columns := cols }

/-- `set_table_name` -/
def setTableNameT (t : TableName) (c : CreateTable) : CreateTable := { c with table := t }
/-- `append_column` -/
def appendColumnT (col : DefCol) (c : CreateTable) : CreateTable := { c with columns := c.columns ++ [col] }
/-- `append_partition_by_column` -/
def appendPartitionByColumnT (col : DefCol) (c : CreateTable) : CreateTable := { c with partitionedBy := c.partitionedBy ++ [col] }

/-! ## the view -/

structure ColView where
  name : String
  type : String
  params : Option (List Expr)
  comment : Option String

structure View where
  schema : Option String
  table : String
  cols : List ColView
  parts : List ColView
  comment : Option String

def colView (c : DefCol) : ColView := ⟨c.name, c.type.name, c.type.params, c.comment⟩

/-- what a table definition declares, as far as the conversion is concerned -/
def view (c : CreateTable) : View :=
  ⟨c.table.schema, c.table.name, c.columns.map colView, c.partitionedBy.map colView, c.comment⟩

/-- a column as Hive DDL can state it: parameters only where Hive has them -/
def ColView.hive (c : ColView) : ColView := { c with params := if hiveKeepsParams c.type then c.params else none }

/-- the view Hive DDL can state -/
def View.hive (v : View) : View := { v with cols := v.cols.map ColView.hive, parts := v.parts.map ColView.hive }

/-- the effect `change_type` must have on a column of the view -/
def mapCol (hashmap : List (String × String)) (removeParam : Bool) (c : ColView) : Option ColView :=
  (lookup hashmap c.type).map fun h => { c with type := h, params := if removeParam then none else c.params }

def mapCols (hashmap : List (String × String)) (removeParam : Bool) : List ColView → Option (List ColView)
  | [] => some []
  | c :: r => match mapCol hashmap removeParam c, mapCols hashmap removeParam r with
    | some c', some r' => some (c' :: r')
    | _, _ => none

end Conv
