import MsqModel.Parse.Prim
/-!
# Parser model: expressions and SELECT statements (`core/parser.py:239-1504`)

One Lean function per Python method (or per named branch of a large method), the same order of
cursor operations, fuel-indexed mutual structural recursion.  The dialect `d` is threaded exactly as
`sql_type` is.
-/
open Lex
namespace PM
open Ast

/-- reduce while the incoming level ≥ the stacked operator's level (`parser.py:826`) -/
def reduceWhile (lvl : Nat) : List (Expr × String × Nat) → Expr → List (Expr × String × Nat) × Expr
  | (l, o, k) :: st, top => if lvl ≥ k then reduceWhile lvl st (.compute l o top) else ((l, o, k) :: st, top)
  | [], top => ([], top)
/-- the final `while len(stack) >= 3` (`parser.py:838-846`) -/
def collapse : List (Expr × String × Nat) → Expr → Expr
  | (l, o, _) :: st, top => collapse st (.compute l o top)
  | [], top => top

/-- `ASTSingleSelectStatement.set_with_clauses(ASTWithClause.empty())` -/
def setWiths : Select → Select
  | .mk _ dist cols fr lats js wh gb hv ob sb db cb lm => .mk (some []) dist cols fr lats js wh gb hv ob sb db cb lm

/-- `_get_alias_name` -/
def getAliasName (ts : List Tok) : R String :=
  match ts with
  | t :: r => if t.has NAME then .ok (unifyName t.src, r) else .error .parse
  | [] => .error .parse
def multiAliasLoop : Nat → List String → List Tok → R (List String)
  | 0, _, _ => .error .fuel
  | f+1, acc, ts =>
    if searchStr ts "," then (match getAliasName (ts.drop 1) with | .ok (n, r) => multiAliasLoop f (acc ++ [n]) r | .error e => .error e)
    else .ok (acc, ts)
/-- `_parse_multi_alias_expression` -/
def pMultiAlias (ts : List Tok) : R (List String) :=
  match matchKw ts "AS" with
  | .error e => .error e
  | .ok (_, r) => match getAliasName r with
    | .error e => .error e
    | .ok (n, r1) => multiAliasLoop (r1.length + 1) [n] r1

def skipNot (d : Gen.D) (r0 : List Tok) : Bool × List Tok :=
  match r0 with | t :: r => if (Gen.notSet d).contains (up t.src) then (true, r) else (false, r0) | [] => (false, r0)
def chainsOn (r : List Tok) : Bool :=
  match r with | t :: _ => ["NOT","BETWEEN","IS","IN","LIKE","RLIKE","REGEXP"].contains (up t.src) | [] => false
def substringRewrite (u : String) (cs : List Tok) : List Tok :=
  if u == "SUBSTRING" then cs.map (fun t => if up t.src == "FROM" || up t.src == "FOR" then Tok.single [','] 0 else t) else cs

/-- pure part of _parse_function_expression: (is aggregate, DISTINCT seen, argument tokens) -/
def callPrep (name : String) (g : Tok) : Bool × Bool × List Tok :=
  let isAgg := Gen.aggNames.contains (up name)
  let di := if isAgg then moveStrUp (substringRewrite (up name) g.children) "DISTINCT" else (false, substringRewrite (up name) g.children)
  (isAgg, di.1, di.2)
def callNode (schema : Option String) (name : String) (isAgg dist : Bool) (ps : List Expr) : Expr :=
  if schema.isNone && isAgg then .agg name ps dist else .func schema name ps
/-- _parse_function_name_expression (non-recursive) -/
def splitName (s : String) : Except Err (Option String × String) :=
  if (s.toList.filter (· == '.')).length == 1 then
    (match (unifyName s).splitOn "." with
     | [x, y] => .ok (some (unifyName x), unifyName y) | _ => .error (.unmodelled "split"))
  else .ok (none, unifyName s)
def pFuncName (ts : List Tok) : R (Option String × String) :=
  match ts with
  | a :: b :: c :: r =>
    if a.has NAME && b.equalsStr "." && c.has NAME then .ok ((some (unifyName a.src), unifyName c.src), r)
    else if a.has NAME then (match splitName a.src with | .ok x => .ok (x, b :: c :: r) | .error e => .error e)
    else .error .parse
  | a :: r => if a.has NAME then (match splitName a.src with | .ok x => .ok (x, r) | .error e => .error e) else .error .parse
  | [] => .error .parse

/-- _parse_alias_expression -/
def pAlias (ts : List Tok) : R (Option String) :=
  if searchStrUp ts "AS" then
    (match ts.drop 1 with
     | t :: r => if t.has NAME then .ok (some (unifyName t.src), r) else .error .parse
     | [] => .error .parse)
  else match ts with
    | t :: r =>
      if t.has NAME && !(["CROSS", "USING", "SORT", "DISTRIBUTE", "CLUSTER"].contains (up t.src)) then .ok (some (unifyName t.src), r)
      else .ok (none, ts)
    | [] => .ok (none, ts)
/-- _parse_table_name_expression -/
def pTableName (ts : List Tok) : R TableRef :=
  match ts with
  | [] => .error .parse
  | n0 :: r0 =>
    if !n0.has NAME then .error .parse
    else if searchStr r0 "." then
      (match r0.drop 1 with
       | [] => .error .parse
       | n2 :: r2 => .ok (.table (some (unifyName n0.src)) (unifyName n2.src), r2))
    else match splitName n0.src with
      | .ok (sch, t) => .ok (.table sch t, r0)
      | .error e => .error e
/-- _parse_window_row_item -/
def pRowItem (ts : List Tok) : R RowItem :=
  if searchTwoUp ts "CURRENT" "ROW" then .ok (.current, ts.drop 2)
  else if searchStrUp ts "UNBOUNDED" then
    (if searchStrUp (ts.drop 1) "PRECEDING" then .ok (.unbounded true, ts.drop 2)
     else if searchStrUp (ts.drop 1) "FOLLOWING" then .ok (.unbounded false, ts.drop 2)
     else .error .parse)
  else match popInt ts with
    | .error e => .error e
    | .ok (n, r) =>
      if searchStrUp r "PRECEDING" then .ok (.num n true, r.drop 1)
      else if searchStrUp r "FOLLOWING" then .ok (.num n false, r.drop 1)
      else .error .parse
/-- _parse_window_row -/
def pWindowRow (ts : List Tok) : R (RowItem × RowItem) :=
  match matchSeq ts ["ROWS", "BETWEEN"] with
  | .error e => .error e
  | .ok (_, r) => match pRowItem r with
    | .error e => .error e
    | .ok (a, r1) => match matchSeq r1 ["AND"] with
      | .error e => .error e
      | .ok (_, r2) => match pRowItem r2 with
        | .error e => .error e
        | .ok (b, r3) => .ok ((a, b), r3)
/-- tail of _parse_order_by_column after the expression -/
def orderTail (e : Expr) (ts : List Tok) : R OrderItem :=
  let d := if searchStrUp ts "DESC" then (true, ts.drop 1) else if searchStrUp ts "ASC" then (false, ts.drop 1) else (false, ts)
  let nf := moveTwoUp d.2 "NULLS" "FIRST"
  let nl := moveTwoUp nf.2 "NULLS" "LAST"
  if nf.1 && nl.1 then .error .parse else .ok (.mk e d.1 nf.1 nl.1, nl.2)
/-- CAST parameter list -/
def castParamsLoop : Nat → List Int → List Tok → Except Err (List Int)
  | 0, _, _ => .error .fuel
  | f+1, acc, ts =>
    if searchStr ts "," then (match popInt (ts.drop 1) with | .ok (n, r) => castParamsLoop f (acc ++ [n]) r | .error e => .error e)
    else if ts.isEmpty then .ok acc else .error .parse   -- `parenthesis_scanner.close()`
def castParams (g : Tok) : Except Err (List Int) :=
  match g.children with
  | [] => .ok []
  | cs => match popInt cs with
    | .error e => .error e
    | .ok (n, r) => castParamsLoop (cs.length + 1) [n] r
/-- the tail of _parse_cast_function_expression after `AS` -/
def castTail (e : Expr) (ts : List Tok) : Except Err Expr :=
  let sg := moveStrUp ts "SIGNED"
  match sg.2 with
  | [] => .error .parse
  | t :: r =>
    match Gen.castTypes.find? (fun k => t.equalsStr k.2) with
    | none => .error .parse
    | some (ty, _) =>
      match r with
      | g :: r' => if g.has PAREN then
          (match castParams g with
           | .error e => .error e
           | .ok ps => if r'.isEmpty then .ok (.cast e sg.1 ty (some ps)) else .error .parse)
        else .error .parse
      | [] => .ok (.cast e sg.1 ty none)
/-- _parse_limit_clause -/
def pLimit (ts : List Tok) : R (Option (Int × Option Int)) :=
  if !searchStrUp ts "LIMIT" then .ok (none, ts) else
  match popAsInt (ts.drop 1) with
  | .error e => .error e
  | .ok (c1, r) =>
    if searchStr r "," then (match popAsInt (r.drop 1) with | .ok (c2, r2) => .ok (some (c2, some c1), r2) | .error e => .error e)
    else if searchStrUp r "OFFSET" then (match popAsInt (r.drop 1) with | .ok (c2, r2) => .ok (some (c1, some c2), r2) | .error e => .error e)
    else .ok (some (c1, none), r)
def setOpHead (ts : List Tok) : Bool := match ts with | t :: _ => ["UNION","EXCEPT","INTERSECT","MINUS"].contains (up t.src) | [] => false
def joinHead (ts : List Tok) : Bool := match ts with | t :: _ => ["JOIN","INNER","LEFT","RIGHT","FULL","CROSS"].contains (up t.src) | [] => false
def onUsingHead (ts : List Tok) : Bool := match ts with | t :: _ => ["ON","USING"].contains (up t.src) | [] => false
mutual
def pElement (d : Gen.D) : Nat → List Tok → R Expr
  | 0, _ => .error .fuel
  | f+1, ts =>
    match ts with
    | [] => .error .parse
    | n0 :: r0 =>
      if n0.has LITERAL then .ok (.literal n0.src, r0)
      else if n0.has PAREN then pParen d f n0 r0
      else if n0.srcEqUp "CASE" then pCase d f ts
      else if n0.srcEq "*" then .ok (.wildcard none, r0)
      else pNamed d f n0 r0 ts
/-- _parse_general_parenthesis -/
def pParen (d : Gen.D) : Nat → Tok → List Tok → R Expr
  | 0, _, _ => .error .fuel
  | f+1, n0, r0 =>
    if startsSelect n0.children then pSubQuery d f (n0 :: r0) else
    match pOr d f n0.children with
    | .ok (e, []) => .ok (e, r0) | .ok (_, _ :: _) => .error .parse | .error e => .error e
/-- the look-ahead part of _parse_element_level_expression (parser.py:776-794) -/
def pNamed (d : Gen.D) : Nat → Tok → List Tok → List Tok → R Expr
  | 0, _, _, _ => .error .fuel
  | f+1, n0, r0, ts =>
    match r0 with
    | n1 :: r1 =>
      if n1.has PAREN then (if headIsOver r1 then pWindow d f ts else pFuncIdx d f ts)
      else if n1.srcEq "." then pQualified d f n0 r1 ts
      else pIndex d f (.column none (unifyName n0.src)) r0
    | [] => pIndex d f (.column none (unifyName n0.src)) r0
def pQualified (d : Gen.D) : Nat → Tok → List Tok → List Tok → R Expr
  | 0, _, _, _ => .error .fuel
  | f+1, n0, r1, ts =>
    match r1 with
    | [] => .error .parse
    | n2 :: r2 =>
      if n2.has NAME then
        (if searchMark r2 PAREN then pFuncIdx d f ts
         else pIndex d f (.column (some (unifyName n0.src)) (unifyName n2.src)) r2)
      else if n2.srcEq "*" then .ok (.wildcard (some (unifyName n0.src)), r2)
      else .error .parse
def pIndex (d : Gen.D) : Nat → Expr → List Tok → R Expr
  | 0, _, _ => .error .fuel
  | f+1, before, ts =>
    match ts with
    | t :: r => if t.has ARRAY then
        (match pCompute d f t.children with
         | .ok (i, []) => .ok (.index before i, r) | .ok (_, _ :: _) => .error .parse | .error e => .error e)
      else .ok (before, ts)
    | [] => .ok (before, ts)
def pFuncIdx (d : Gen.D) : Nat → List Tok → R Expr
  | 0, _ => .error .fuel
  | f+1, ts => match pFunc d f ts with
    | .ok (e, r) => pIndex d f e r
    | .error e => .error e
def pFunc (d : Gen.D) : Nat → List Tok → R Expr
  | 0, _ => .error .fuel
  | f+1, ts =>
    match pFuncName ts with
    | .error e => .error e
    | .ok ((schema, name), r) =>
      if schema.isNone && up name == "CAST" then pCast d f r
      else if schema.isNone && up name == "EXTRACT" then pExtract d f r
      else if schema.isNone && up name == "IF" then pIfCall d f r
      else pCall d f schema name r
def pIfCall (d : Gen.D) : Nat → List Tok → R Expr
  | 0, _ => .error .fuel
  | f+1, r =>
    match r with
    | [] => .error .parse
    | g :: r' =>
      match pFirstArg d f g.children with
      | .error e => .error e
      | .ok (acc, r2) => match closed (pArgs d f acc r2) with
        | .ok ps => .ok (.func none "IF" ps, r') | .error e => .error e
def pFirstDiscard (d : Gen.D) : Nat → List Tok → Except Err (List Tok)
  | 0, _ => .error .fuel
  | f+1, inner => if inner.isEmpty then .ok inner else (match pOr d f inner with | .ok (_, r2) => .ok r2 | .error e => .error e)
def pFirstArg (d : Gen.D) : Nat → List Tok → Except Err (List Expr × List Tok)
  | 0, _ => .error .fuel
  | f+1, inner => if inner.isEmpty then .ok ([], inner) else (match pOr d f inner with | .ok (e, r2) => .ok ([e], r2) | .error e => .error e)
def pCall (d : Gen.D) : Nat → Option String → String → List Tok → R Expr
  | 0, _, _, _ => .error .fuel
  | f+1, schema, name, r =>
    match r with
    | [] => .error .parse
    | g :: r' =>
      match pFirstArg d f (callPrep name g).2.2 with
      | .error e => .error e
      | .ok (acc, r2) => match closed (pArgs d f acc r2) with
        | .ok ps => .ok (callNode schema name (callPrep name g).1 (callPrep name g).2.1 ps, r')
        | .error e => .error e
def pArgs (d : Gen.D) : Nat → List Expr → List Tok → R (List Expr)
  | 0, _, _ => .error .fuel
  | f+1, acc, ts =>
    let (b, r) := moveStr ts ","
    if b then match pOr d f r with
      | .ok (e, r2) => pArgs d f (acc ++ [e]) r2
      | .error e => .error e
    else .ok (acc, ts)
def pCase (d : Gen.D) : Nat → List Tok → R Expr
  | 0, _ => .error .fuel
  | f+1, ts =>
    match matchKw ts "CASE" with
    | .error e => .error e
    | .ok (_, r) =>
      if searchStrUp r "WHEN" then
        match pWhens d f [] r with
        | .error e => .error e
        | .ok (cs, r2) => match pElseEnd d f r2 with
          | .ok (el, r5) => .ok (.caseCond cs el, r5) | .error e => .error e
      else
        match pOr d f r with
        | .error e => .error e
        | .ok (v, r1) =>
          match pWhens d f [] r1 with
          | .error e => .error e
          | .ok (cs, r2) => match pElseEnd d f r2 with
            | .ok (el, r5) => .ok (.caseVal v cs el, r5) | .error e => .error e
def pElseEnd (d : Gen.D) : Nat → List Tok → R (Option Expr)
  | 0, _ => .error .fuel
  | f+1, r2 =>
    if searchStrUp r2 "ELSE" then
      match pOr d f (r2.drop 1) with
      | .error e => .error e
      | .ok (e, r4) => (match matchKw r4 "END" with | .ok (_, r5) => .ok (some e, r5) | .error e => .error e)
    else (match matchKw r2 "END" with | .ok (_, r5) => .ok (none, r5) | .error e => .error e)
def pWhens (d : Gen.D) : Nat → List (Expr × Expr) → List Tok → R (List (Expr × Expr))
  | 0, _, _ => .error .fuel
  | f+1, acc, ts =>
    let (b, r) := moveStrUp ts "WHEN"
    if b then
      match pOr d f r with
      | .error e => .error e
      | .ok (w, r1) => match matchKw r1 "THEN" with
        | .error e => .error e
        | .ok (_, r2) => match pOr d f r2 with
          | .error e => .error e
          | .ok (t, r3) => pWhens d f (acc ++ [(w, t)]) r3
    else .ok (acc, ts)
def pUnary (d : Gen.D) : Nat → List Tok → R Expr
  | 0, _ => .error .fuel
  | f+1, ts =>
    match ts with
    | t :: r => if (Gen.unarySet d).contains t.src then
        (match computeOp? (up t.src) with
         | none => .error .parse
         | some (o, _) => match pUnary d f r with
           | .ok (e, r2) => .ok (.unary o e, r2) | .error e => .error e)
      else pElement d f ts
    | [] => pElement d f ts
def pCompute (d : Gen.D) : Nat → List Tok → R Expr
  | 0, _ => .error .fuel
  | f+1, ts => match pUnary d f ts with
    | .ok (e, r) => pComputeLoop d f [] e r
    | .error e => .error e
def pComputeLoop (d : Gen.D) : Nat → List (Expr × String × Nat) → Expr → List Tok → R Expr
  | 0, _, _, _ => .error .fuel
  | f+1, st, top, ts =>
    match ts with
    | t :: r =>
      (match computeOp? (up t.src) with
       | some (o, k) =>
         let (st', top') := reduceWhile k st top
         match pUnary d f r with
         | .ok (e, r2) => pComputeLoop d f ((top', o, k) :: st') e r2
         | .error e => .error e
       | none => .ok (collapse st top, ts))
    | [] => .ok (collapse st top, ts)
def pKeyword (d : Gen.D) : Nat → Option Expr → List Tok → R Expr
  | 0, _, _ => .error .fuel
  | f+1, before, ts =>
    if before.isNone && searchStrUp ts "EXISTS" then
      (match pSubQuery d f (ts.drop 1) with
       | .error e => .error e
       | .ok (v, r) => if chainsOn r then pKeyword d f (some (.exists_ v)) r else .ok (.exists_ v, r)) else
    match pKwFirst d f before ts with
    | .error e => .error e
    | .ok (bv, r0) => pKwRest d f bv (skipNot d r0).1 (skipNot d r0).2
def pKwFirst (d : Gen.D) : Nat → Option Expr → List Tok → R Expr
  | 0, _, _ => .error .fuel
  | f+1, before, ts => match before with | some b => .ok (b, ts) | none => pCompute d f ts
def pKwRest (d : Gen.D) : Nat → Expr → Bool → List Tok → R Expr
  | 0, _, _, _ => .error .fuel
  | f+1, bv, isNot, r1 =>
    match r1 with
    | [] => if isNot then .error .parse else .ok (bv, r1)
    | t :: r2 =>
      match pKwBody d f (up t.src) isNot bv r2 with
      | .error e => .error e
      | .ok none => if isNot then .error .parse else .ok (bv, r1)
      | .ok (some (v, r)) => if chainsOn r then pKeyword d f (some v) r else .ok (v, r)
def pKwBody (d : Gen.D) : Nat → String → Bool → Expr → List Tok → Except Err (Option (Expr × List Tok))
  | 0, _, _, _, _ => .error .fuel
  | f+1, k, isNot, bv, r2 =>
    if k == "BETWEEN" then pBetween d f isNot bv r2
    else if k == "IS" then
      -- `is_not = is_not or scanner.search_and_move…("NOT")` (`parser.py:922`): `or` short-circuits — after a NOT in front of IS a second NOT is not consumed
      (match pCompute d f (if isNot then r2 else (moveStrUp r2 "NOT").2) with
       | .error e => .error e
       | .ok (av, r4) => .ok (some (.kw .is (isNot || (moveStrUp r2 "NOT").1) bv av, r4)))
    else if k == "IN" then pInBody d f isNot bv r2
    else if k == "LIKE" || k == "RLIKE" || k == "REGEXP" then
      (match pCompute d f r2 with
       | .error e => .error e
       | .ok (av, r3) => .ok (some (.kw (if k == "LIKE" then .like else if k == "RLIKE" then .rlike else .regexp) isNot bv av, r3)))
    else .ok none
def pBetween (d : Gen.D) : Nat → Bool → Expr → List Tok → Except Err (Option (Expr × List Tok))
  | 0, _, _, _ => .error .fuel
  | f+1, isNot, bv, r2 =>
    match pCompute d f r2 with
    | .error e => .error e
    | .ok (fv, r3) => match matchKw r3 "AND" with
      | .error e => .error e
      | .ok (_, r4) => match pCompute d f r4 with
        | .error e => .error e
        | .ok (tv, r5) => .ok (some (.between isNot bv fv tv, r5))
def pInBody (d : Gen.D) : Nat → Bool → Expr → List Tok → Except Err (Option (Expr × List Tok))
  | 0, _, _, _ => .error .fuel
  | f+1, isNot, bv, r2 =>
    match r2 with
    | [] => .error .parse
    | g :: r3 =>
      if startsSelect g.children then
        (match pSubQuery d f r2 with
         | .ok (q, r4) => .ok (some (.kw .in_ isNot bv q, r4)) | .error e => .error e) else
      match pSplit d f [] [] g.children with
      | .ok vs => .ok (some (.kw .in_ isNot bv (.subValue vs), r3)) | .error e => .error e
/-- pop_as_children_scanner_list_split_by(",") + one compute expression per segment + close -/
def pSplit (d : Gen.D) : Nat → List Expr → List Tok → List Tok → Except Err (List Expr)
  | 0, _, _, _ => .error .fuel
  | f+1, acc, cur, ts =>
    let flush : Except Err (List Expr) :=
      if cur.isEmpty then .ok acc else
        match pCompute d f cur with
        | .ok (e, []) => .ok (acc ++ [e]) | .ok (_, _ :: _) => .error .parse | .error e => .error e
    match ts with
    | [] => flush
    | t :: r => if t.equalsStr "," then (match flush with | .ok acc' => pSplit d f acc' [] r | .error e => .error e)
                else pSplit d f acc (cur ++ [t]) r
def pCompare (d : Gen.D) : Nat → List Tok → R Expr
  | 0, _ => .error .fuel
  | f+1, ts => match pKeyword d f none ts with
    | .ok (e, r) => pCompareLoop d f e r
    | .error e => .error e
def pCompareLoop (d : Gen.D) : Nat → Expr → List Tok → R Expr
  | 0, _, _ => .error .fuel
  | f+1, acc, ts =>
    match ts with
    | t :: r => (match compareOp? t.src with
      | some o => (match pKeyword d f none r with
        | .ok (e, r2) => pCompareLoop d f (.compare o acc e) r2
        | .error e => .error e)
      | none => .ok (acc, ts))
    | [] => .ok (acc, ts)
def pNot (d : Gen.D) : Nat → List Tok → R Expr
  | 0, _ => .error .fuel
  | f+1, ts =>
    match ts with
    | t :: r => if (Gen.notSet d).contains (up t.src) then
        (match pNot d f r with | .ok (e, r2) => .ok (.not_ e, r2) | .error e => .error e)
      else pCompare d f ts
    | [] => pCompare d f ts
def pAnd (d : Gen.D) : Nat → List Tok → R Expr
  | 0, _ => .error .fuel
  | f+1, ts => match pNot d f ts with
    | .ok (e, r) => pAndLoop d f e r
    | .error e => .error e
def pAndLoop (d : Gen.D) : Nat → Expr → List Tok → R Expr
  | 0, _, _ => .error .fuel
  | f+1, acc, ts =>
    match ts with
    | t :: r => if up t.src == "AND" || up t.src == "&&" then
        (match pNot d f r with | .ok (e, r2) => pAndLoop d f (.and_ acc e) r2 | .error e => .error e)
      else .ok (acc, ts)
    | [] => .ok (acc, ts)
def pXor (d : Gen.D) : Nat → List Tok → R Expr
  | 0, _ => .error .fuel
  | f+1, ts => match pAnd d f ts with
    | .ok (e, r) => pXorLoop d f e r
    | .error e => .error e
def pXorLoop (d : Gen.D) : Nat → Expr → List Tok → R Expr
  | 0, _, _ => .error .fuel
  | f+1, acc, ts =>
    if searchStrUp ts "XOR" then
      (match pAnd d f (ts.drop 1) with | .ok (e, r2) => pXorLoop d f (.xor acc e) r2 | .error e => .error e)
    else .ok (acc, ts)
def pOr (d : Gen.D) : Nat → List Tok → R Expr
  | 0, _ => .error .fuel
  | f+1, ts => match pXor d f ts with
    | .ok (e, r) => pOrLoop d f e r
    | .error e => .error e
def pOrLoop (d : Gen.D) : Nat → Expr → List Tok → R Expr
  | 0, _, _ => .error .fuel
  | f+1, acc, ts =>
    match ts with
    | t :: r => if up t.src == "OR" || up t.src == "||" then
        (match pXor d f r with | .ok (e, r2) => pOrLoop d f (.or_ acc e) r2 | .error e => .error e)
      else .ok (acc, ts)
    | [] => .ok (acc, ts)
/-- _parse_sub_query_expression -/
def pSubQuery (d : Gen.D) : Nat → List Tok → R Expr
  | 0, _ => .error .fuel
  | f+1, ts =>
    match ts with
    | [] => .error .parse
    | g :: r => match closed (pSelectStmt d f none g.children) with
      | .ok q => .ok (.subQuery q, r) | .error e => .error e
def pCast (d : Gen.D) : Nat → List Tok → R Expr
  | 0, _ => .error .fuel
  | f+1, ts =>
    match ts with
    | [] => .error .parse
    | g :: r => match pCompute d f g.children with
      | .error e => .error e
      | .ok (e, r1) => match matchSeq r1 ["AS"] with
        | .error e => .error e
        | .ok (_, r2) => (match castTail e r2 with | .ok c => .ok (c, r) | .error e => .error e)
def pExtract (d : Gen.D) : Nat → List Tok → R Expr
  | 0, _ => .error .fuel
  | f+1, ts =>
    match ts with
    | [] => .error .parse
    | g :: r => match pCompute d f g.children with
      | .error e => .error e
      | .ok (n, r1) => (match pExtractTail d f n r1 with | .ok x => .ok (x, r) | .error e => .error e)
def pExtractTail (d : Gen.D) : Nat → Expr → List Tok → Except Err Expr
  | 0, _, _ => .error .fuel
  | f+1, n, r1 =>
    match matchSeq r1 ["FROM"] with
    | .error e => .error e
    | .ok (_, r2) => match closed (pCompute d f r2) with
      | .ok c => .ok (.extract n c) | .error e => .error e
def pWindow (d : Gen.D) : Nat → List Tok → R Expr
  | 0, _ => .error .fuel
  | f+1, ts =>
    match pFuncIdx d f ts with
    | .error e => .error e
    | .ok (fn, r) => match matchSeq r ["OVER"] with
      | .error e => .error e
      | .ok (_, r1) => match r1 with
        | [] => .error .parse
        | g :: r2 => match pWindowBody d f fn g.children with
          | .ok w => .ok (w, r2) | .error e => .error e
def pWindowBody (d : Gen.D) : Nat → Expr → List Tok → Except Err Expr
  | 0, _, _ => .error .fuel
  | f+1, fn, cs =>
    match pPartitionBy d f cs with
    | .error e => .error e
    | .ok (part, r1) => match pOrderByOpt d f r1 with
      | .error e => .error e
      | .ok (ord, r2) =>
        if searchTwoUp r2 "ROWS" "BETWEEN" then
          (match closed (pWindowRow r2) with | .ok rw => .ok (.window fn part (ord.getD []) (some rw)) | .error e => .error e)
        else if r2.isEmpty then .ok (.window fn part (ord.getD []) none) else .error .parse
def pPartitionBy (d : Gen.D) : Nat → List Tok → R (List Expr)
  | 0, _ => .error .fuel
  | f+1, cs =>
    if searchTwoUp cs "PARTITION" "BY" then
      (match pCompute d f (cs.drop 2) with
       | .error e => .error e
       | .ok (e, r) => pComputeList d f [e] r)
    else .ok ([], cs)
/-- `while search_and_move(","): append(compute)` -/
def pComputeList (d : Gen.D) : Nat → List Expr → List Tok → R (List Expr)
  | 0, _, _ => .error .fuel
  | f+1, acc, ts =>
    if searchStr ts "," then (match pCompute d f (ts.drop 1) with | .ok (e, r) => pComputeList d f (acc ++ [e]) r | .error e => .error e)
    else .ok (acc, ts)
def pOrderItem (d : Gen.D) : Nat → List Tok → R OrderItem
  | 0, _ => .error .fuel
  | f+1, ts => match pCompute d f ts with
    | .error e => .error e
    | .ok (e, r) => orderTail e r
def pOrderList (d : Gen.D) : Nat → List OrderItem → List Tok → R (List OrderItem)
  | 0, _, _ => .error .fuel
  | f+1, acc, ts =>
    if searchStr ts "," then (match pOrderItem d f (ts.drop 1) with | .ok (o, r) => pOrderList d f (acc ++ [o]) r | .error e => .error e)
    else .ok (acc, ts)
/-- _parse_order_by_clause -/
def pOrderByOpt (d : Gen.D) : Nat → List Tok → R (Option (List OrderItem))
  | 0, _ => .error .fuel
  | f+1, ts =>
    if searchTwoUp ts "ORDER" "BY" then
      (match pOrderItem d f (ts.drop 2) with
       | .error e => .error e
       | .ok (o, r) => match pOrderList d f [o] r with
         | .ok (os, r2) => .ok (some os, r2) | .error e => .error e)
    else .ok (none, ts)
/-- _parse_select_column + the comma loop of _parse_select_clause -/
def pSelectCol (d : Gen.D) : Nat → List Tok → R (Expr × Option String)
  | 0, _ => .error .fuel
  | f+1, ts => match pOr d f ts with
    | .error e => .error e
    | .ok (e, r) => (match pAlias r with | .ok (a, r2) => .ok ((e, a), r2) | .error e => .error e)
def pSelectCols (d : Gen.D) : Nat → List (Expr × Option String) → List Tok → R (List (Expr × Option String))
  | 0, _, _ => .error .fuel
  | f+1, acc, ts =>
    if searchStr ts "," then (match pSelectCol d f (ts.drop 1) with | .ok (c, r) => pSelectCols d f (acc ++ [c]) r | .error e => .error e)
    else .ok (acc, ts)
/-- _parse_table_expression -/
def pTableExpr (d : Gen.D) : Nat → List Tok → R TableRef
  | 0, _ => .error .fuel
  | f+1, ts =>
    match headChildren ts with
    | .error e => .error e
    | .ok cs =>
      if startsSelect cs then (match pSubQuery d f ts with | .ok (.subQuery q, r) => .ok (.sub q, r) | .ok _ => .error (.unmodelled "impossible") | .error e => .error e)
      else if searchMark ts PAREN then (match closed (pTableExpr d f cs) with | .ok t => .ok (t, ts.drop 1) | .error e => .error e)
      else pTableName ts
def pFromTable (d : Gen.D) : Nat → List Tok → R FromTable
  | 0, _ => .error .fuel
  | f+1, ts => match pTableExpr d f ts with
    | .error e => .error e
    | .ok (t, r) => (match pAlias r with | .ok (a, r2) => .ok (.mk t a, r2) | .error e => .error e)
def pFromTables (d : Gen.D) : Nat → List FromTable → List Tok → R (List FromTable)
  | 0, _, _ => .error .fuel
  | f+1, acc, ts =>
    if searchStr ts "," then (match pFromTable d f (ts.drop 1) with | .ok (t, r) => pFromTables d f (acc ++ [t]) r | .error e => .error e)
    else .ok (acc, ts)
/-- _parse_join_clause -/
def pJoin (d : Gen.D) : Nat → List Tok → R Join
  | 0, _ => .error .fuel
  | f+1, ts =>
    match firstEnum Gen.joinTypes ts with
    | none => .error .parse
    | some (jt, r) => match pFromTable d f r with
      | .error e => .error e
      | .ok (t, r1) => pJoinRule d f jt t r1
/-- `_parse_join_expression` applied after the table of a join -/
def pJoinRule (d : Gen.D) : Nat → String → FromTable → List Tok → R Join
  | 0, _, _, _ => .error .fuel
  | f+1, jt, t, r1 =>
    if !onUsingHead r1 then .ok (.mk jt t none, r1)
    else if searchStrUp r1 "ON" then
      (match pOr d f (r1.drop 1) with | .ok (c, r2) => .ok (.mk jt t (some (.on c)), r2) | .error e => .error e)
    else (match pFunc d f r1 with | .ok (u, r2) => .ok (.mk jt t (some (.using u)), r2) | .error e => .error e)
/-- join loop: the look-ahead is on `look`, the parse on `inner` (parser.py:1453-1454); `same` = they are one cursor -/
def pJoins (d : Gen.D) : Nat → Bool → List Tok → List Join → List Tok → R (List Join)
  | 0, _, _, _, _ => .error .fuel
  | f+1, same, outer, acc, inner =>
    if joinHead (if same then inner else outer) then
      (match pJoin d f inner with | .ok (j, r) => pJoins d f same outer (acc ++ [j]) r | .error e => .error e)
    else .ok (acc, inner)
def pOptOr (d : Gen.D) : Nat → String → List Tok → R (Option Expr)
  | 0, _, _ => .error .fuel
  | f+1, kwd, ts =>
    if searchStrUp ts kwd then (match pOr d f (ts.drop 1) with | .ok (c, r) => .ok (some c, r) | .error e => .error e)
    else .ok (none, ts)
/-- one grouping-set element -/
def pGroupingElem (d : Gen.D) : Nat → List Tok → Except Err (List Expr)
  | 0, _ => .error .fuel
  | f+1, seg =>
    match seg with
    | g :: r => if g.has PAREN then
        (match pClosedEach d f [] (splitBy "," g.children [] []) with
         | .ok es => if r.isEmpty then .ok es else .error .parse | .error e => .error e)
      else (match closed (pCompute d f seg) with | .ok e => .ok [e] | .error e => .error e)
    | [] => (match closed (pCompute d f seg) with | .ok e => .ok [e] | .error e => .error e)
def pClosedEach (d : Gen.D) : Nat → List Expr → List (List Tok) → Except Err (List Expr)
  | 0, _, _ => .error .fuel
  | f+1, acc, segs =>
    match segs with
    | [] => .ok acc
    | sg :: rest => match closed (pCompute d f sg) with
      | .ok e => pClosedEach d f (acc ++ [e]) rest | .error e => .error e
def pGroupingElems (d : Gen.D) : Nat → List (List Expr) → List (List Tok) → Except Err (List (List Expr))
  | 0, _, _ => .error .fuel
  | f+1, acc, segs =>
    match segs with
    | [] => .ok acc
    | sg :: rest => match pGroupingElem d f sg with
      | .ok es => pGroupingElems d f (acc ++ [es]) rest | .error e => .error e
/-- _parse_grouping_sets -/
def pGroupingSets (d : Gen.D) : Nat → List Tok → R (List (List Expr))
  | 0, _ => .error .fuel
  | f+1, ts => match matchSeq ts ["GROUPING", "SETS"] with
    | .error e => .error e
    | .ok (_, r) => match r with
      | [] => .error .parse
      | g :: r' => match pGroupingElems d f [] (splitBy "," g.children [] []) with
        | .ok gs => .ok (gs, r') | .error e => .error e
/-- _parse_group_by_clause -/
def pGroupBy (d : Gen.D) : Nat → List Tok → R (Option GroupBy)
  | 0, _ => .error .fuel
  | f+1, ts =>
    if !searchTwoUp ts "GROUP" "BY" then .ok (none, ts) else
    match pGroupCols d f (ts.drop 2) with
    | .error e => .error e
    | .ok (cols, r) => match pGroupSetsOpt d f r with
      | .error e => .error e
      | .ok (sets, r1) =>
        let c := moveTwoUp r1 "WITH" "CUBE"
        let ro := moveTwoUp c.2 "WITH" "ROLLUP"
        .ok (some (.mk cols sets c.1 ro.1), ro.2)
def pGroupCols (d : Gen.D) : Nat → List Tok → R (List Expr)
  | 0, _ => .error .fuel
  | f+1, ts =>
    if searchTwoUp ts "GROUPING" "SETS" then .ok ([], ts) else
    match pCompute d f ts with
    | .error e => .error e
    | .ok (e, r) => pComputeList d f [e] r
def pGroupSetsOpt (d : Gen.D) : Nat → List Tok → R (Option (List (List Expr)))
  | 0, _ => .error .fuel
  | f+1, ts =>
    if searchTwoUp ts "GROUPING" "SETS" then (match pGroupingSets d f ts with | .ok (g, r) => .ok (some g, r) | .error e => .error e)
    else .ok (none, ts)
/-- _parse_with_table / _parse_with_clause -/
def pWithTable (d : Gen.D) : Nat → List Tok → R WithTable
  | 0, _ => .error .fuel
  | f+1, ts =>
    match ts with
    | [] => .error .parse
    | n :: r => match matchSeq r ["AS"] with
      | .error e => .error e
      | .ok (_, r1) => pWithBody d f (unifyName n.src) r1
def pWithBody (d : Gen.D) : Nat → String → List Tok → R WithTable
  | 0, _, _ => .error .fuel
  | f+1, name, r1 =>
    match r1 with
    | [] => .error .parse
    | g :: r2 => match closed (pSelectStmt d f (some []) g.children) with
      | .ok q => .ok (.mk name q, r2) | .error e => .error e
def pWithTables (d : Gen.D) : Nat → List WithTable → List Tok → R (List WithTable)
  | 0, _, _ => .error .fuel
  | f+1, acc, ts =>
    if searchStr ts "," then (match pWithTable d f (ts.drop 1) with | .ok (w, r) => pWithTables d f (acc ++ [w]) r | .error e => .error e)
    else .ok (acc, ts)
def pWith (d : Gen.D) : Nat → List Tok → R (List WithTable)
  | 0, _ => .error .fuel
  | f+1, ts =>
    if searchStrUp ts "WITH" then
      (match pWithTable d f (ts.drop 1) with
       | .error e => .error e
       | .ok (w, r) => pWithTables d f [w] r)
    else .ok ([], ts)
/-- clauses after the select list, all on the inner cursor; `look` is the cursor the LATERAL/JOIN look-ahead uses -/
def pSelectBody (d : Gen.D) : Nat → List WithTable → Bool → List Tok → List Tok → R Select
  | 0, _, _, _, _ => .error .fuel
  | f+1, withs, same, outer, inner =>
    match matchSeq inner ["SELECT"] with
    | .error e => .error e
    | .ok (_, r0) =>
      match pSelectCol d f (moveStrUp r0 "DISTINCT").2 with
      | .error e => .error e
      | .ok (c, r1) => match pSelectCols d f [c] r1 with
        | .error e => .error e
        | .ok (cols, r2) => pSelectRest d f withs (moveStrUp r0 "DISTINCT").1 cols same outer r2
def pFromOpt (d : Gen.D) : Nat → List Tok → R (Option (List FromTable))
  | 0, _ => .error .fuel
  | f+1, ts =>
    if searchStrUp ts "FROM" then
      (match pFromTable d f (ts.drop 1) with
       | .error e => .error e
       | .ok (t, r) => match pFromTables d f [t] r with
         | .ok (tsl, r2) => .ok (some tsl, r2) | .error e => .error e)
    else .ok (none, ts)
def pSelectRest (d : Gen.D) : Nat → List WithTable → Bool → List (Expr × Option String) → Bool → List Tok → List Tok → R Select
  | 0, _, _, _, _, _, _ => .error .fuel
  | f+1, withs, dist, cols, same, outer, inner =>
    match pFromOpt d f inner with
    | .error e => .error e
    | .ok (fr, r1) =>
      match pLaterals d f same outer [] r1 with
      | .error e => .error e
      | .ok (lats, r1') =>
        match pJoins d f same outer [] r1' with
        | .error e => .error e
        | .ok (js, r2) => pSelectTail d f withs dist cols fr lats js r2
def pSelectTail (d : Gen.D) : Nat → List WithTable → Bool → List (Expr × Option String) → Option (List FromTable) → List Lateral → List Join → List Tok → R Select
  | 0, _, _, _, _, _, _, _ => .error .fuel
  | f+1, withs, dist, cols, fr, lats, js, ts =>
    match pWhereGroup d f ts with
    | .error e => .error e
    | .ok ((wh, gb), r2) => match pHavingOrder d f r2 with
      | .error e => .error e
      | .ok ((hv, ob), r4) => match pHiveClauses d f r4 with
        | .error e => .error e
        | .ok ((sb, db, cb), r4') => match pLimit r4' with
          | .error e => .error e
          | .ok (lm, r5) => .ok (.mk (some withs) dist cols fr lats js wh gb hv ob sb db cb lm, r5)
def pWhereGroup (d : Gen.D) : Nat → List Tok → R (Option Expr × Option GroupBy)
  | 0, _ => .error .fuel
  | f+1, ts =>
    match pOptOr d f "WHERE" ts with
    | .error e => .error e
    | .ok (wh, r1) => match pGroupBy d f r1 with
      | .error e => .error e
      | .ok (gb, r2) => .ok ((wh, gb), r2)
def pHavingOrder (d : Gen.D) : Nat → List Tok → R (Option Expr × Option (List OrderItem))
  | 0, _ => .error .fuel
  | f+1, ts =>
    match pOptOr d f "HAVING" ts with
    | .error e => .error e
    | .ok (hv, r3) => match pOrderByOpt d f r3 with
      | .error e => .error e
      | .ok (ob, r4) => .ok ((hv, ob), r4)
/-- `_parse_sort_by_clause`, `_parse_distribute_by_clause`, `_parse_cluster_by_clause` -/
def pHiveClauses (d : Gen.D) : Nat → List Tok → R (Option (List OrderItem) × Option (List Expr) × Option (List Expr))
  | 0, _ => .error .fuel
  | f+1, ts =>
    match pSortBy d f ts with
    | .error e => .error e
    | .ok (sb, r1) =>
      match pByList d f "DISTRIBUTE" r1 with
      | .error e => .error e
      | .ok (db, r2) => match pByList d f "CLUSTER" r2 with
        | .error e => .error e
        | .ok (cb, r3) => .ok ((sb, db, cb), r3)
def pSortBy (d : Gen.D) : Nat → List Tok → R (Option (List OrderItem))
  | 0, _ => .error .fuel
  | f+1, ts =>
    if searchTwoUp ts "SORT" "BY" then
      (match pOrderItem d f (ts.drop 2) with
       | .error e => .error e
       | .ok (o, r) => match pOrderList d f [o] r with
         | .ok (os, r2) => .ok (some os, r2) | .error e => .error e)
    else .ok (none, ts)
def pByList (d : Gen.D) : Nat → String → List Tok → R (Option (List Expr))
  | 0, _, _ => .error .fuel
  | f+1, kwd, ts =>
    if searchTwoUp ts kwd "BY" then
      (match pCompute d f (ts.drop 2) with
       | .error e => .error e
       | .ok (e, r) => match pComputeList d f [e] r with
         | .ok (es, r2) => .ok (some es, r2) | .error e => .error e)
    else .ok (none, ts)
/-- `_parse_lateral_view_clause` -/
def pLateral (d : Gen.D) : Nat → List Tok → R Lateral
  | 0, _ => .error .fuel
  | f+1, ts =>
    match matchSeq ts ["LATERAL", "VIEW"] with
    | .error e => .error e
    | .ok (_, r0) =>
      match pFunc d f (moveStrUp r0 "OUTER").2 with
      | .error e => .error e
      | .ok (fn, r1) => match popSrc r1 with
        | .error e => .error e
        | .ok (view, r2) => match pMultiAlias r2 with
          | .error e => .error e
          | .ok (as, r3) => .ok (.mk (moveStrUp r0 "OUTER").1 fn view as, r3)
/-- `while scanner.search("LATERAL","VIEW"): …parse on inner…` (the look-ahead cursor may be the outer one) -/
def pLaterals (d : Gen.D) : Nat → Bool → List Tok → List Lateral → List Tok → R (List Lateral)
  | 0, _, _, _, _ => .error .fuel
  | f+1, same, outer, acc, inner =>
    if searchTwoUp (if same then inner else outer) "LATERAL" "VIEW" then
      (match pLateral d f inner with | .ok (l, r) => pLaterals d f same outer (acc ++ [l]) r | .error e => .error e)
    else .ok (acc, inner)
/-- _parse_single_select_statement, with its two cursors -/
def pSingle (d : Gen.D) : Nat → List WithTable → List Tok → R Select
  | 0, _, _ => .error .fuel
  | f+1, withs, ts =>
    if !searchMark ts PAREN then pSelectBody d f withs true [] ts
    else match ts with
      | [] => .error .parse
      | g :: outer => pSingleParen d f withs outer [g.children] g.children
/-- the `while inner.search(PAREN): inner = scanner.pop_as_children_scanner()` loop and what follows -/
def pSingleParen (d : Gen.D) : Nat → List WithTable → List Tok → List (List Tok) → List Tok → R Select
  | 0, _, _, _, _ => .error .fuel
  | f+1, withs, outer, stack, inner =>
    if searchMark inner PAREN then
      (match outer with
       | [] => .error .parse
       | g :: outer' => pSingleParen d f withs outer' (g.children :: stack) g.children)
    else match pSelectBody d f withs false outer inner with
      | .error e => .error e
      | .ok (s, rest) =>
        -- close(): the innermost cursor is the one that moved; the other opened cursors never moved
        if !rest.isEmpty then .error .parse
        else if (stack.drop 1).any (fun c => !c.isEmpty) then .error .parse
        else .ok (s, outer)
/-- _parse_select_statement -/
def pSelectStmt (d : Gen.D) : Nat → Option (List WithTable) → List Tok → R Query
  | 0, _, _ => .error .fuel
  | f+1, withs?, ts =>
    match (match withs? with | some w => (.ok (w, ts) : R (List WithTable)) | none => pWith d f ts) with
    | .error e => .error e
    | .ok (withs, r) => match pSingle d f withs r with
      | .error e => .error e
      | .ok (s, r1) => match pUnions d f withs [] r1 with
        | .error e => .error e
        | .ok (us, r2) =>
          -- the WITH clause is recorded once on the union; every branch gets `ASTWithClause.empty()` (`set_with_clauses`)
          if us.isEmpty then .ok (.single s, r2) else .ok (.union (some withs) (setWiths s) (us.map fun p => (p.1, setWiths p.2)), r2)
def pUnions (d : Gen.D) : Nat → List WithTable → List (String × Select) → List Tok → R (List (String × Select))
  | 0, _, _, _ => .error .fuel
  | f+1, withs, acc, ts =>
    if !setOpHead ts then .ok (acc, ts) else
    match firstEnum Gen.unionTypes ts with
    | none => .error .parse
    | some (ut, r) => match pSingle d f withs r with
      | .error e => .error e
      | .ok (s, r1) => pUnions d f withs (acc ++ [(ut, s)]) r1
end


end PM
