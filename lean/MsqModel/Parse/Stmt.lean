import MsqModel.Parse.Expr
/-!
# Parser model: DML, DDL and the statement loop (`core/parser.py:104-235, 1507-2411`)
-/
open Lex
namespace PM
open Ast

/-- run `p` on every segment of a split bracket group, closing each sub-cursor -/
def eachClosed {α : Type} (p : List Tok → R α) : List (List Tok) → Except Err (List α)
  | [] => .ok []
  | sg :: rest => match closed (p sg) with
    | .error e => .error e
    | .ok a => match eachClosed p rest with
      | .ok as => .ok (a :: as) | .error e => .error e

/-- `pop_as_children_scanner_list_split_by(",")` -/
def popSplit (ts : List Tok) : R (List (List Tok)) :=
  match ts with | [] => .error .parse | g :: r => .ok (splitBy "," g.children [] [], r)

/-- `_parse_table_name_expression` as a `TableName` -/
def pTblName (ts : List Tok) : R TableName :=
  match pTableName ts with
  | .ok (.table s n, r) => .ok (⟨s, n⟩, r)
  | .ok (.sub _, _) => .error (.unmodelled "impossible")
  | .error e => .error e

/-- `_parse_insert_type` -/
def pInsertType (ts : List Tok) : R String :=
  if searchTwoUp ts "INSERT" "INTO" then .ok ("INSERT_INTO", ts.drop 2)
  else if searchThreeUp ts "INSERT" "IGNORE" "INTO" then .ok ("INSERT_IGNORE_INTO", ts.drop 3)
  else if searchTwoUp ts "INSERT" "OVERWRITE" then .ok ("INSERT_OVERWRITE", ts.drop 2)
  else .error .parse

def configStringLoop : Nat → String → List Tok → R String
  | 0, _, _ => .error .fuel
  | f+1, acc, ts =>
    if searchStr ts "." then (match popSrc (ts.drop 1) with | .ok (s, r) => configStringLoop f (acc ++ "." ++ s) r | .error e => .error e)
    else if searchStr ts "-" then (match popSrc (ts.drop 1) with | .ok (s, r) => configStringLoop f (acc ++ "-" ++ s) r | .error e => .error e)
    else .ok (acc, ts)
/-- `_parse_config_string` -/
def pConfigString (ts : List Tok) : R String :=
  match popSrc ts with | .error e => .error e | .ok (s, r) => configStringLoop (r.length + 1) s r
/-- `_parse_config_string_expression` -/
def pConfigStrExpr (ts : List Tok) : R ConfigStr :=
  match pConfigString ts with
  | .error e => .error e
  | .ok (n, r) => match matchKw r "=" with
    | .error e => .error e
    | .ok (_, r1) => match pConfigString r1 with
      | .error e => .error e
      | .ok (v, r2) => .ok (⟨n, v⟩, r2)

/-- `_parse_column_type_expression` -/
def pColType (d : Gen.D) (f : Nat) (ts : List Tok) : R ColType :=
  match popSrc ts with
  | .error e => .error e
  | .ok (name, r) =>
    if searchMark r PAREN then
      (match popSplit r with
       | .error e => .error e
       | .ok (segs, r1) => match eachClosed (pCompute d f) segs with
         | .ok ps => .ok (⟨name, some ps⟩, r1) | .error e => .error e)
    else .ok (⟨name, none⟩, r)

/-- one element of a partition list: `(expression, is non-dynamic)` -/
def pPartitionItem (d : Gen.D) (f : Nat) (ts : List Tok) : R (Expr × Bool) :=
  match pCompute d f ts with
  | .error e => .error e
  | .ok (bv, r) =>
    if searchSet r Gen.compareSet then
      (match popSrc r with
       | .error e => .error e
       | .ok (o, r1) => match compareOp? o with
         | none => .error .parse
         | some op => match pCompute d f r1 with
           | .error e => .error e
           | .ok (av, r2) => .ok ((.compare op bv av, true), r2))
    else .ok ((bv, false), r)
/-- `_parse_partition_expression` -/
def pPartition (d : Gen.D) (f : Nat) (already : Bool) (ts : List Tok) : R (List Expr) :=
  match (if already then (.ok ((), ts) : R Unit) else matchKw ts "PARTITION") with
  | .error e => .error e
  | .ok (_, r) => match popSplit r with
    | .error e => .error e
    | .ok (segs, r1) => match eachClosed (pPartitionItem d f) segs with
      | .error e => .error e
      | .ok items =>
        if items.any (·.2) && items.any (fun i => !i.2) then .error .parse
        else .ok (items.map (·.1), r1)

/-- `_parse_foreign_key_action` -/
def pFkAction (ts : List Tok) : R String :=
  if searchTwoUp ts "NO" "ACTION" then .ok ("NO ACTION", ts.drop 2)
  else if searchTwoUp ts "SET" "NULL" then .ok ("SET NULL", ts.drop 2)
  else if searchStrUp ts "CASCADE" then .ok ("CASCADE", ts.drop 1)
  else if searchStrUp ts "RESTRICT" then .ok ("RESTRICT", ts.drop 1)
  else .error .parse
def pOptFkAction (ts : List Tok) (a b : String) : R (Option String) :=
  if searchTwoUp ts a b then (match pFkAction (ts.drop 2) with | .ok (s, r) => .ok (some s, r) | .error e => .error e)
  else .ok (none, ts)
/-- the column-name lists of a foreign key: one `pop_as_source` per segment, then `close` -/
def pNameList (ts : List Tok) : R (List String) :=
  match popSplit ts with
  | .error e => .error e
  | .ok (segs, r) => match eachClosed popSrc segs with
    | .ok ns => .ok (ns, r) | .error e => .error e
/-- `_parse_foreign_key_expression` -/
def pForeignKey (ts : List Tok) : R ForeignKey :=
  match matchKw ts "CONSTRAINT" with
  | .error e => .error e
  | .ok (_, r0) => match popSrc r0 with
    | .error e => .error e
    | .ok (cn, r1) => match matchSeq r1 ["FOREIGN", "KEY"] with
      | .error e => .error e
      | .ok (_, r2) => match pNameList r2 with
        | .error e => .error e
        | .ok (slave, r3) => match matchKw r3 "REFERENCES" with
          | .error e => .error e
          | .ok (_, r4) => match popSrc r4 with
            | .error e => .error e
            | .ok (mt, r5) => match pNameList r5 with
              | .error e => .error e
              | .ok (mcs, r6) => match pOptFkAction r6 "ON" "DELETE" with
                | .error e => .error e
                | .ok (od, r7) => match pOptFkAction r7 "ON" "UPDATE" with
                  | .error e => .error e
                  | .ok (ou, r8) => .ok (⟨cn, slave, mt, mcs, od, ou⟩, r8)

/-- `_parse_index_column` -/
def pIndexCol (ts : List Tok) : R IndexCol :=
  match popSrc ts with
  | .error e => .error e
  | .ok (n, r) =>
    if searchMark r PAREN then
      (match r with
       | [] => .error .parse
       | g :: r1 => match closed (popInt g.children) with
         | .ok n' => .ok (⟨unifyName n, some n'⟩, r1) | .error e => .error e)
    else .ok (⟨unifyName n, none⟩, r)
/-- `_get_index_columns` -/
def pIndexCols (ts : List Tok) : R (List IndexCol) :=
  match popSplit ts with
  | .error e => .error e
  | .ok (segs, r) => match eachClosed pIndexCol segs with
    | .ok cs => .ok (cs, r) | .error e => .error e
def pOptSrc (ts : List Tok) (k : String) : R (Option String) :=
  if searchStrUp ts k then (match popSrc (ts.drop 1) with | .ok (s, r) => .ok (some s, r) | .error e => .error e) else .ok (none, ts)
/-- the shared tail `USING … COMMENT … KEY_BLOCK_SIZE = n` of the four index parsers -/
def pIndexTail (kind : IndexKind) (name : Option String) (ts : List Tok) : R Index :=
  match pIndexCols ts with
  | .error e => .error e
  | .ok (cols, r) => match pOptSrc r "USING" with
    | .error e => .error e
    | .ok (us, r1) => match pOptSrc r1 "COMMENT" with
      | .error e => .error e
      | .ok (cm, r2) =>
        if searchTwoUp r2 "KEY_BLOCK_SIZE" "=" then
          (match popInt (r2.drop 2) with | .ok (n, r3) => .ok (⟨kind, name, cols, us, cm, some n⟩, r3) | .error e => .error e)
        else .ok (⟨kind, name, cols, us, cm, none⟩, r2)
/-- `_parse_primary_index_expression` -/
def pPrimaryIndex (ts : List Tok) : R Index :=
  match matchSeq ts ["PRIMARY", "KEY"] with | .error e => .error e | .ok (_, r) => pIndexTail .primary none r
def pNamedIndex (kind : IndexKind) (kws : List String) (ts : List Tok) : R Index :=
  match matchSeq ts kws with
  | .error e => .error e
  | .ok (_, r) => match popSrc r with
    | .error e => .error e
    | .ok (n, r1) => pIndexTail kind (some n) r1
def pUniqueIndex := pNamedIndex .unique ["UNIQUE", "KEY"]
def pNormalIndex := pNamedIndex .normal ["KEY"]
def pFulltextIndex := pNamedIndex .fulltext ["FULLTEXT", "KEY"]

/-- `_parse_generated_column` (called only when the head is GENERATED) -/
def pGenerated (d : Gen.D) (f : Nat) (ts : List Tok) : R (Option GenCol) :=
  if searchThreeUp ts "GENERATED" "ALWAYS" "AS" then
    (match ts.drop 3 with
     | [] => .error .parse
     | g :: r => match closed (pCompute d f g.children) with
       | .error e => .error e
       | .ok e => match popSrc r with
         | .error e => .error e
         | .ok (m, r1) => match Gen.genColSaveModes.find? (·.1 == up m) with
           | some sm => .ok (some ⟨e, some sm.2⟩, r1)
           | none => .error .parse)
  else .ok (none, ts)

/-- the attribute loop of `_parse_define_column_expression` (until the end of the cursor, a `;` or a `,`) -/
def defColLoop (d : Gen.D) (f : Nat) : Nat → DefCol → List Tok → R DefCol
  | 0, _, _ => .error .fuel
  | g+1, c, ts =>
    if ts.isEmpty || searchStr ts ";" || searchStr ts "," then .ok (c, ts)
    else if searchTwoUp ts "NOT" "NULL" then defColLoop d f g { c with notNull := true } (ts.drop 2)
    else if searchStrUp ts "NULL" then defColLoop d f g { c with allowNull := true } (ts.drop 1)
    else if searchTwoUp ts "CHARACTER" "SET" then
      (match popSrc (ts.drop 2) with | .ok (s, r) => defColLoop d f g { c with charset := some s } r | .error e => .error e)
    else if searchStrUp ts "COLLATE" then
      (match popSrc (ts.drop 1) with | .ok (s, r) => defColLoop d f g { c with collate := some s } r | .error e => .error e)
    else if searchStrUp ts "DEFAULT" then
      (match pCompute d f (ts.drop 1) with | .ok (e, r) => defColLoop d f g { c with default := some e } r | .error e => .error e)
    else if searchStrUp ts "COMMENT" then
      (match popSrc (ts.drop 1) with | .ok (s, r) => defColLoop d f g { c with comment := some s } r | .error e => .error e)
    else if searchTwoUp ts "ON" "UPDATE" then
      (match pCompute d f (ts.drop 2) with | .ok (e, r) => defColLoop d f g { c with onUpdate := some e } r | .error e => .error e)
    else if searchStrUp ts "AUTO_INCREMENT" then defColLoop d f g { c with autoInc := true } (ts.drop 1)
    else if searchStrUp ts "UNSIGNED" then defColLoop d f g { c with unsigned := true } (ts.drop 1)
    else if searchStrUp ts "ZEROFILL" then defColLoop d f g { c with zerofill := true } (ts.drop 1)
    else if searchStrUp ts "GENERATED" then
      (match pGenerated d f ts with
       | .ok (some gc, r) => defColLoop d f g { c with generated := some gc } r
       | .ok (none, _) => .error .parse
       | .error e => .error e)
    else .error .parse
/-- `_parse_define_column_expression` -/
def pDefCol (d : Gen.D) (f : Nat) (ts : List Tok) : R DefCol :=
  match popSrc ts with
  | .error e => .error e
  | .ok (n, r) => match pColType d f r with
    | .error e => .error e
    | .ok (ty, r1) => defColLoop d f (r1.length + 1) { name := unifyName n, type := ty } r1

/-- `_parse_column_or_index` -/
def pColOrIdx (d : Gen.D) (f : Nat) (ts : List Tok) : R ColOrIdx :=
  if searchTwoUp ts "PRIMARY" "KEY" then (match pPrimaryIndex ts with | .ok (i, r) => .ok (.idx i, r) | .error e => .error e)
  else if searchTwoUp ts "UNIQUE" "KEY" then (match pUniqueIndex ts with | .ok (i, r) => .ok (.idx i, r) | .error e => .error e)
  else if searchStrUp ts "KEY" then (match pNormalIndex ts with | .ok (i, r) => .ok (.idx i, r) | .error e => .error e)
  else if searchTwoUp ts "FULLTEXT" "KEY" then (match pFulltextIndex ts with | .ok (i, r) => .ok (.idx i, r) | .error e => .error e)
  else if searchStrUp ts "CONSTRAINT" then (match pForeignKey ts with | .ok (k, r) => .ok (.fk k, r) | .error e => .error e)
  else (match pDefCol d f ts with | .ok (c, r) => .ok (.col c, r) | .error e => .error e)

/-- `_parse_where_clause` / `_parse_order_by_clause` / `_parse_limit_clause` in a row (UPDATE, DELETE) -/
def pWhereOrderLimit (d : Gen.D) (f : Nat) (ts : List Tok) :
    R (Option Expr × Option (List OrderItem) × Option (Int × Option Int)) :=
  match pOptOr d f "WHERE" ts with
  | .error e => .error e
  | .ok (wh, r1) => match pOrderByOpt d f r1 with
    | .error e => .error e
    | .ok (ob, r2) => match pLimit r2 with
      | .error e => .error e
      | .ok (lm, r3) => .ok ((wh, ob, lm), r3)

/-- the VALUES row loop (`parser.py:1864-1868`) -/
def valuesLoop (d : Gen.D) (f : Nat) : Nat → List (List Expr) → List Tok → R (List (List Expr))
  | 0, _, _ => .error .fuel
  | g+1, acc, ts =>
    match ts with
    | t :: r =>
      if t.has PAREN then
        (match eachClosed (pCompute d f) (splitBy "," t.children [] []) with
         | .error e => .error e
         | .ok row => valuesLoop d f g (acc ++ [row]) (moveStr r ",").2)
      else .ok (acc, ts)
    | [] => .ok (acc, ts)

/-- `_parse_column_name_expression` -/
def pColumnName (ts : List Tok) : R (Option String × String) :=
  match ts with
  | [] => .error .parse
  | a :: r =>
    if !a.has NAME then .error .parse
    else if searchStr r "." then
      (match r.drop 1 with
       | b :: r2 => if b.has NAME then .ok ((some (unifyName a.src), unifyName b.src), r2) else .error .parse
       | [] => .error .parse)
    else .ok ((none, unifyName a.src), r)

def pOptPartition (d : Gen.D) (f : Nat) (ts : List Tok) : R (Option (List Expr)) :=
  if searchStrUp ts "PARTITION" then
    (match pPartition d f false ts with | .ok (p, r) => .ok (some p, r) | .error e => .error e)
  else .ok (none, ts)
def pOptColumns (ts : List Tok) : R (Option (List (Option String × String))) :=
  if searchMark ts PAREN then
    (match popSplit ts with
     | .error e => .error e
     | .ok (segs, r) => match eachClosed pColumnName segs with
       | .ok cs => .ok (some cs, r) | .error e => .error e)
  else .ok (none, ts)
def pWithOpt (d : Gen.D) (f : Nat) (withs? : Option (List WithTable)) (ts : List Tok) : R (List WithTable) :=
  match withs? with | some w => .ok (w, ts) | none => pWith d f ts

/-- `_parse_insert_statement` -/
def pInsert (d : Gen.D) (f : Nat) (withs? : Option (List WithTable)) (ts : List Tok) : R Stmt :=
  match pWithOpt d f withs? ts with
  | .error e => .error e
  | .ok (withs, r0) => match pInsertType r0 with
    | .error e => .error e
    | .ok (ty, r1) => match pTblName (moveStrUp r1 "TABLE").2 with
      | .error e => .error e
      | .ok (tbl, r2) =>
        match pOptPartition d f r2 with
        | .error e => .error e
        | .ok (part, r3) =>
          match pOptColumns r3 with
          | .error e => .error e
          | .ok (cols, r4) =>
            let h : InsertHead := ⟨some withs, ty, tbl, part, cols⟩
            if searchStrUp r4 "VALUES" then
              (match valuesLoop d f (r4.length + 1) [] (r4.drop 1) with
               | .ok (vs, r5) => .ok (.insertValues h vs, r5) | .error e => .error e)
            else if searchStrUp r4 "SELECT" then
              (match pSelectStmt d f (some []) r4 with
               | .ok (q, r5) => .ok (.insertSelect h q, r5) | .error e => .error e)
            else .error .parse

/-- `_parse_set_statement` -/
def pSet (ts : List Tok) : R Stmt :=
  match matchKw ts "SET" with
  | .error e => .error e
  | .ok (_, r) => match pConfigStrExpr r with | .ok (c, r1) => .ok (.set c, r1) | .error e => .error e

/-- one `=`-optional string option of CREATE TABLE -/
def optEqSrc (ts : List Tok) : R String := popSrc (moveStr ts "=").2

/-- the element list of CREATE TABLE (`parser.py:1937-1950`) -/
def createElems (d : Gen.D) (f : Nat) : List (List Tok) → CreateTable → Except Err CreateTable
  | [], c => .ok c
  | sg :: rest, c =>
    if searchTwoUp sg "PRIMARY" "KEY" then
      (match closed (pPrimaryIndex sg) with | .ok i => createElems d f rest { c with primaryKey := some i } | .error e => .error e)
    else if searchTwoUp sg "UNIQUE" "KEY" then
      (match closed (pUniqueIndex sg) with | .ok i => createElems d f rest { c with uniqueKey := c.uniqueKey ++ [i] } | .error e => .error e)
    else if searchStrUp sg "KEY" then
      (match closed (pNormalIndex sg) with | .ok i => createElems d f rest { c with key := c.key ++ [i] } | .error e => .error e)
    else if searchTwoUp sg "FULLTEXT" "KEY" then
      (match closed (pFulltextIndex sg) with | .ok i => createElems d f rest { c with fulltextKey := c.fulltextKey ++ [i] } | .error e => .error e)
    else if searchStrUp sg "CONSTRAINT" then
      (match closed (pForeignKey sg) with | .ok k => createElems d f rest { c with foreignKey := c.foreignKey ++ [k] } | .error e => .error e)
    else
      (match closed (pDefCol d f sg) with | .ok col => createElems d f rest { c with columns := c.columns ++ [col] } | .error e => .error e)

/-- the table-option loop of CREATE TABLE (`parser.py:1968-2016`) -/
def createOpts (d : Gen.D) (f : Nat) : Nat → CreateTable → List Tok → R CreateTable
  | 0, _, _ => .error .fuel
  | g+1, c, ts =>
    if ts.isEmpty || searchStr ts ";" then .ok (c, ts)
    else if searchStrUp ts "ENGINE" then
      (match optEqSrc (ts.drop 1) with | .ok (s, r) => createOpts d f g { c with engine := some s } r | .error e => .error e)
    else if searchStrUp ts "AUTO_INCREMENT" then
      (match popInt (moveStr (ts.drop 1) "=").2 with | .ok (n, r) => createOpts d f g { c with autoIncrement := some n } r | .error e => .error e)
    else if searchTwoUp ts "DEFAULT" "CHARSET" then
      (match optEqSrc (ts.drop 2) with | .ok (s, r) => createOpts d f g { c with defaultCharset := some s } r | .error e => .error e)
    else if searchStrUp ts "ROW_FORMAT" then
      (match optEqSrc (ts.drop 1) with | .ok (s, r) => createOpts d f g { c with rowFormat := some s } r | .error e => .error e)
    else if searchStrUp ts "COLLATE" then
      (match optEqSrc (ts.drop 1) with | .ok (s, r) => createOpts d f g { c with collate := some s } r | .error e => .error e)
    else if searchStrUp ts "COMMENT" then
      (match optEqSrc (ts.drop 1) with | .ok (s, r) => createOpts d f g { c with comment := some s } r | .error e => .error e)
    else if searchStrUp ts "STATS_PERSISTENT" then
      (match optEqSrc (ts.drop 1) with | .ok (s, r) => createOpts d f g { c with statesPersistent := some s } r | .error e => .error e)
    else if searchTwoUp ts "PARTITIONED" "BY" then
      (match popSplit (ts.drop 2) with
       | .error e => .error e
       | .ok (segs, r) => match eachClosed (pDefCol d f) segs with
         | .ok cs => createOpts d f g { c with partitionedBy := c.partitionedBy ++ cs } r | .error e => .error e)
    else if searchThreeUp ts "ROW" "FORMAT" "SERDE" then
      (match optEqSrc (ts.drop 3) with | .ok (s, r) => createOpts d f g { c with rowFormatSerde := some s } r | .error e => .error e)
    else if searchSeq ts ["ROW", "FORMAT", "DELIMITED", "FIELDS", "TERMINATED", "BY"] then
      (match optEqSrc (ts.drop 6) with | .ok (s, r) => createOpts d f g { c with rowFormatDelimited := some s } r | .error e => .error e)
    else if searchThreeUp ts "STORED" "AS" "INPUTFORMAT" then
      (match optEqSrc (ts.drop 3) with | .ok (s, r) => createOpts d f g { c with storedAsInputformat := some s } r | .error e => .error e)
    else if searchThreeUp ts "STORED" "AS" "TEXTFILE" then createOpts d f g { c with storedAsTextfile := true } (ts.drop 3)
    else if searchStrUp ts "OUTPUTFORMAT" then
      (match optEqSrc (ts.drop 1) with | .ok (s, r) => createOpts d f g { c with outputformat := some s } r | .error e => .error e)
    else if searchStrUp ts "LOCATION" then
      (match optEqSrc (ts.drop 1) with | .ok (s, r) => createOpts d f g { c with location := some s } r | .error e => .error e)
    else if searchStrUp ts "TBLPROPERTIES" then
      (match popSplit (ts.drop 1) with
       | .error e => .error e
       | .ok (segs, r) => match eachClosed pConfigStrExpr segs with
         | .ok ps => createOpts d f g { c with tblproperties := c.tblproperties ++ ps } r | .error e => .error e)
    else .error .parse

def emptyCreate (t : TableName) (ine : Bool) : CreateTable :=
  { table := t, ifNotExists := ine, columns := [], primaryKey := none, uniqueKey := [], key := [], fulltextKey := [], foreignKey := [],
    partitionedBy := [], comment := none, engine := none, autoIncrement := none, defaultCharset := none, collate := none,
    rowFormat := none, statesPersistent := none, rowFormatSerde := none, rowFormatDelimited := none, storedAsInputformat := none,
    storedAsTextfile := false, outputformat := none, location := none, tblproperties := [] }

/-- `_parse_create_table_statement` (consumes a trailing `;` itself, `parser.py:2017`) -/
def pCreateTable (d : Gen.D) (f : Nat) (ts : List Tok) : R Stmt :=
  match matchSeq ts ["CREATE", "TABLE"] with
  | .error e => .error e
  | .ok (_, r0) =>
    match pTblName (moveThreeUp r0 "IF" "NOT" "EXISTS").2 with
    | .error e => .error e
    | .ok (tbl, r1) =>
      if searchStrUp r1 "AS" then
        (match pSelectStmt d f none (r1.drop 1) with
         | .ok (q, r2) => .ok (.createTableAs tbl (moveThreeUp r0 "IF" "NOT" "EXISTS").1 q, r2) | .error e => .error e)
      else match popSplit r1 with
        | .error e => .error e
        | .ok (segs, r2) => match createElems d f segs (emptyCreate tbl (moveThreeUp r0 "IF" "NOT" "EXISTS").1) with
          | .error e => .error e
          | .ok c => match createOpts d f (r2.length + 1) c r2 with
            | .error e => .error e
            | .ok (c', r3) => .ok (.createTable c', (moveStr r3 ";").2)

/-- `_parse_drop_table_statement` -/
def pDropTable (ts : List Tok) : R Stmt :=
  match matchSeq ts ["DROP", "TABLE"] with
  | .error e => .error e
  | .ok (_, r) => match pTblName (moveTwoUp r "IF" "EXISTS").2 with
    | .ok (t, r1) => .ok (.dropTable (moveTwoUp r "IF" "EXISTS").1 t, r1) | .error e => .error e

/-- `_parse_analyze_table_statement` -/
def pAnalyze (d : Gen.D) (f : Nat) (ts : List Tok) : R Stmt :=
  match matchSeq ts ["ANALYZE", "TABLE"] with
  | .error e => .error e
  | .ok (_, r) => match pTblName r with
    | .error e => .error e
    | .ok (t, r1) =>
      match pOptPartition d f r1 with
      | .error e => .error e
      | .ok (part, r2) =>
        let a := moveTwoUp r2 "COMPUTE" "STATISTICS"
        let b := moveTwoUp a.2 "FOR" "COLUMNS"
        let c := moveTwoUp b.2 "CACHE" "METADATA"
        let n := moveStrUp c.2 "NOSCAN"
        .ok (.analyze t part b.1 c.1 n.1, n.2)

/-- `_parse_alter_expression` -/
def pAlterExpr (d : Gen.D) (f : Nat) (ts : List Tok) : R AlterOp :=
  if searchTwoUp ts "ADD" "PARTITION" then
    (match pPartition d f true (ts.drop 2) with | .ok (p, r) => .ok (.addPartition false p, r) | .error e => .error e)
  else if searchSeq ts ["ADD", "IF", "NOT", "EXISTS", "PARTITION"] then
    (match pPartition d f true (ts.drop 5) with | .ok (p, r) => .ok (.addPartition true p, r) | .error e => .error e)
  else if searchStrUp ts "ADD" then
    (match pColOrIdx d f (ts.drop 1) with | .ok (x, r) => .ok (.add x, r) | .error e => .error e)
  else if searchStrUp ts "MODIFY" then
    (match pColOrIdx d f (ts.drop 1) with | .ok (x, r) => .ok (.modify x, r) | .error e => .error e)
  else if searchStrUp ts "CHANGE" then
    (match popSrc (ts.drop 1) with
     | .error e => .error e
     | .ok (n, r) => match pColOrIdx d f r with | .ok (x, r1) => .ok (.change (unifyName n) x, r1) | .error e => .error e)
  else if searchTwoUp ts "RENAME" "COLUMN" then
    (match popSrc (ts.drop 2) with
     | .error e => .error e
     | .ok (a, r) => match matchKw r "TO" with
       | .error e => .error e
       | .ok (_, r1) => match popSrc r1 with
         | .ok (b, r2) => .ok (.renameColumn (unifyName a) (unifyName b), r2) | .error e => .error e)
  else if searchTwoUp ts "DROP" "COLUMN" then
    (match popSrc (ts.drop 2) with | .ok (c, r) => .ok (.dropColumn (unifyName c), r) | .error e => .error e)
  else if searchTwoUp ts "DROP" "PARTITION" then
    (match pPartition d f true (ts.drop 2) with | .ok (p, r) => .ok (.dropPartition false p, r) | .error e => .error e)
  else if searchSeq ts ["DROP", "IF", "EXISTS", "PARTITION"] then
    (match pPartition d f true (ts.drop 4) with | .ok (p, r) => .ok (.dropPartition true p, r) | .error e => .error e)
  else .error .parse

def alterLoop (d : Gen.D) (f : Nat) : Nat → List AlterOp → List Tok → R (List AlterOp)
  | 0, _, _ => .error .fuel
  | g+1, acc, ts =>
    if searchStr ts "," then (match pAlterExpr d f (ts.drop 1) with | .ok (x, r) => alterLoop d f g (acc ++ [x]) r | .error e => .error e)
    else .ok (acc, ts)
/-- `_parse_alter_table_statement` -/
def pAlter (d : Gen.D) (f : Nat) (ts : List Tok) : R Stmt :=
  match matchSeq ts ["ALTER", "TABLE"] with
  | .error e => .error e
  | .ok (_, r) => match pTblName r with
    | .error e => .error e
    | .ok (t, r1) => match pAlterExpr d f r1 with
      | .error e => .error e
      | .ok (x, r2) => match alterLoop d f (r2.length + 1) [x] r2 with
        | .ok (xs, r3) => .ok (.alter t xs, r3) | .error e => .error e

def pKwTable (kws : List String) (mk : TableName → Stmt) (ts : List Tok) : R Stmt :=
  match matchSeq ts kws with
  | .error e => .error e
  | .ok (_, r) => match pTblName r with | .ok (t, r1) => .ok (mk t, r1) | .error e => .error e
/-- `_parse_msck_repair_table_statement` -/
def pMsck := pKwTable ["MSCK", "REPAIR", "TABLE"] .msck
/-- `_parse_truncate_table_statement` -/
def pTruncate := pKwTable ["TRUNCATE", "TABLE"] .truncate
/-- `_parse_use_statement` -/
def pUse (ts : List Tok) : R Stmt :=
  match matchKw ts "USE" with
  | .error e => .error e
  | .ok (_, r) => match popSrc r with | .ok (s, r1) => .ok (.use s, r1) | .error e => .error e

/-- `_parse_update_set_column` -/
def pUpdateSetCol (d : Gen.D) (f : Nat) (ts : List Tok) : R (String × Expr) :=
  match popSrc ts with
  | .error e => .error e
  | .ok (c, r) => match matchKw r "=" with
    | .error e => .error e
    | .ok (_, r1) => match pOr d f r1 with | .ok (v, r2) => .ok ((unifyName c, v), r2) | .error e => .error e
def updateSetLoop (d : Gen.D) (f : Nat) : Nat → List (String × Expr) → List Tok → R (List (String × Expr))
  | 0, _, _ => .error .fuel
  | g+1, acc, ts =>
    if searchStr ts "," then (match pUpdateSetCol d f (ts.drop 1) with | .ok (x, r) => updateSetLoop d f g (acc ++ [x]) r | .error e => .error e)
    else .ok (acc, ts)
/-- `_parse_update_set_clause` -/
def pUpdateSet (d : Gen.D) (f : Nat) (ts : List Tok) : R (List (String × Expr)) :=
  match matchKw ts "SET" with
  | .error e => .error e
  | .ok (_, r) => match pUpdateSetCol d f r with
    | .error e => .error e
    | .ok (x, r1) => updateSetLoop d f (r1.length + 1) [x] r1
/-- `_parse_update_statement` -/
def pUpdate (d : Gen.D) (f : Nat) (withs : Option (List WithTable)) (ts : List Tok) : R Stmt :=
  match matchKw ts "UPDATE" with
  | .error e => .error e
  | .ok (_, r) => match pTblName r with
    | .error e => .error e
    | .ok (t, r1) => match pUpdateSet d f r1 with
      | .error e => .error e
      | .ok (sets, r2) => match pWhereOrderLimit d f r2 with
        | .error e => .error e
        | .ok ((wh, ob, lm), r3) => .ok (.update withs t sets wh ob lm, r3)
/-- `_parse_delete_statement` -/
def pDelete (d : Gen.D) (f : Nat) (ts : List Tok) : R Stmt :=
  match matchSeq ts ["DELETE", "FROM"] with
  | .error e => .error e
  | .ok (_, r) => match pTblName r with
    | .error e => .error e
    | .ok (t, r1) => match pWhereOrderLimit d f r1 with
      | .error e => .error e
      | .ok ((wh, ob, lm), r2) => .ok (.delete t wh ob lm, r2)
/-- `_parse_from_clause` (`match("FROM")` then a comma list) -/
def pFromClause (d : Gen.D) (f : Nat) (ts : List Tok) : R (List FromTable) :=
  match matchKw ts "FROM" with
  | .error e => .error e
  | .ok (_, r) => match pFromTable d f r with
    | .error e => .error e
    | .ok (t, r1) => pFromTables d f [t] r1
/-- `_parse_show_columns_statement` -/
def pShowColumns (d : Gen.D) (f : Nat) (ts : List Tok) : R Stmt :=
  match matchSeq ts ["SHOW", "COLUMNS"] with
  | .error e => .error e
  | .ok (_, r) => match pFromClause d f r with
    | .error e => .error e
    | .ok (fr, r1) => match pOptOr d f "WHERE" r1 with
      | .ok (wh, r2) => .ok (.showColumns fr wh, r2) | .error e => .error e

/-- one iteration of the loop of `parse_statements` before the optional `;` -/
def pStatement (d : Gen.D) (f : Nat) (ts : List Tok) : R Stmt :=
  if searchStrUp ts "SET" then pSet ts
  else if searchTwoUp ts "DELETE" "FROM" then pDelete d f ts
  else if searchTwoUp ts "DROP" "TABLE" then pDropTable ts
  else if searchTwoUp ts "CREATE" "TABLE" then pCreateTable d f ts
  else if searchTwoUp ts "ANALYZE" "TABLE" then pAnalyze d f ts
  else if searchTwoUp ts "ALTER" "TABLE" then pAlter d f ts
  else if searchThreeUp ts "MSCK" "REPAIR" "TABLE" then pMsck ts
  else if searchStrUp ts "USE" then pUse ts
  else if searchTwoUp ts "TRUNCATE" "TABLE" then pTruncate ts
  else if searchTwoUp ts "SHOW" "DATABASES" then .ok (.showDatabases, ts.drop 2)
  else if searchTwoUp ts "SHOW" "TABLES" then .ok (.showTables, ts.drop 2)
  else if searchTwoUp ts "SHOW" "COLUMNS" then pShowColumns d f ts
  else match pWith d f ts with
    | .error e => .error e
    | .ok (withs, r) =>
      if searchStrUp r "SELECT" then (match pSelectStmt d f (some withs) r with | .ok (q, r1) => .ok (.select q, r1) | .error e => .error e)
      else if searchStrUp r "INSERT" then pInsert d f (some withs) r
      else if searchStrUp r "UPDATE" then pUpdate d f (some withs) r
      else .error .parse

/-- the loop of `parse_statements` -/
def statementsLoop (d : Gen.D) (f : Nat) : Nat → List Stmt → List Tok → Except Err (List Stmt)
  | 0, _, _ => .error .fuel
  | g+1, acc, ts =>
    if ts.isEmpty then .ok acc else
    match pStatement d f ts with
    | .error e => .error e
    | .ok (s, r) => statementsLoop d f g (acc ++ [s]) (moveStr r ";").2

end PM
