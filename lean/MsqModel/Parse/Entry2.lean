import MsqModel.Parse.Entry
/-!
# The other 26 public entry points of `SQLParser` (`core/parser.py`)

`PM.entries` (Parse/Entry.lean) has 58 of the 84 public `parse_*` class methods; this file has the rest, so that
`entries ++ entries2` is every public parsing entry point (property C07 quantifies over all of them).

Most are thin wrappers over functions of the model that exist (`pAlias`, `pMultiAlias`, `pByList`, `pSortBy`, `pFromClause`,
`pGroupingSets`, `pOptOr … "HAVING"`, `pInsertType`, `pSelectCol`, `pUpdateSet(Col)`, `pWindowRow`, `pRowItem`, `pWithTable`).
Where the private method's logic is inlined in a larger model function (join type, union type, order type, compare / compute
operator, cast data type, the join rule, the select clause) the Python method is transcribed here as a function of its own;
`_parse_wildcard_expression` (parser.py:413-421) is reached only through its public entry and is new.

Also here: the two other branches of `_unify_input_scanner` (parser.py:85-102) — a `TokenScanner` argument is returned
unchanged (NO dialect pre-pass), anything that is neither a scanner nor a string raises the library's parse error.
-/
open Lex
namespace PM
open Ast

/-! ## enum-like nodes (parser.py:144-244) -/

/-- `_parse_join_type`: `for join_type in EnumJoinType: if scanner.search_and_move(*join_type.value)`, else `SqlParseError` -/
def pJoinType (ts : List Tok) : R String :=
  match firstEnum Gen.joinTypes ts with
  | none => .error .parse
  | some (jt, r) => .ok (jt, r)
/-- `_parse_union_type` (the error of parser.py:202) -/
def pUnionType (ts : List Tok) : R String :=
  match firstEnum Gen.unionTypes ts with
  | none => .error .parse
  | some (ut, r) => .ok (ut, r)
/-- `_parse_order_type`: DESC, ASC, or ASC without moving; never fails.  `true` = DESC -/
def pOrderType (ts : List Tok) : R Bool :=
  if searchStrUp ts "DESC" then .ok (true, ts.drop 1)
  else if searchStrUp ts "ASC" then .ok (false, ts.drop 1)
  else .ok (false, ts)
/-- `_parse_compare_operator`: `COMPARE_OPERATOR_HASH.get(scanner.pop_as_source())` (raw source), `None` → parser.py:215 -/
def pCompareOp (ts : List Tok) : R String :=
  match popSrc ts with
  | .error e => .error e
  | .ok (s, r) => match compareOp? s with
    | none => .error .parse
    | some o => .ok (o, r)
/-- `_parse_compute_operator`: `COMPUTE_OPERATOR_HASH.get(scanner.pop_as_source().upper())`, `None` → parser.py:229 -/
def pComputeOp (ts : List Tok) : R String :=
  match popSrc ts with
  | .error e => .error e
  | .ok (s, r) => match computeOp? (up s) with
    | none => .error .parse
    | some (o, _) => .ok (o, r)
/-- `_parse_cast_data_type`: `for cast_type in EnumCastDataType: if scanner.search_and_move(cast_type.value)`; `search` on an
exhausted cursor is `False` for every member -/
def pCastDataType (ts : List Tok) : R String :=
  match ts with
  | [] => .error .parse
  | t :: r => match Gen.castTypes.find? (fun k => t.equalsStr k.2) with
    | none => .error .parse
    | some (ty, _) => .ok (ty, r)

/-! ## basic nodes -/

/-- `_parse_wildcard_expression` (parser.py:413-421): `*`, or `search(NAME, ".", "*")` then `pop_as_source(); move(2)` -/
def pWildcard (ts : List Tok) : R (Option String) :=
  if searchStr ts "*" then .ok (none, ts.drop 1)
  else match ts with
    | a :: b :: c :: r =>
      if a.has NAME && b.equalsStr "." && c.equalsStr "*" then .ok (some (unifyName a.src), r) else .error .parse
    | _ => .error .parse

/-! ## the join rule (parser.py:1065-1101) -/

/-- `_parse_join_on_expression`: `match("ON")`, then a general expression -/
def pJoinOn (d : Gen.D) (f : Nat) (ts : List Tok) : R JoinRule :=
  match matchKw ts "ON" with
  | .error e => .error e
  | .ok (_, r) => match pOr d f r with
    | .ok (c, r2) => .ok (.on c, r2)
    | .error e => .error e
/-- `_parse_join_using_expression`: the function expression starts AT the word (`USING(a)` is the call) -/
def pJoinUsing (d : Gen.D) (f : Nat) (ts : List Tok) : R JoinRule :=
  match pFunc d f ts with
  | .ok (u, r) => .ok (.using u, r)
  | .error e => .error e
/-- `_parse_join_expression`; neither word → parser.py:1101 -/
def pJoinExpr (d : Gen.D) (f : Nat) (ts : List Tok) : R JoinRule :=
  if searchStrUp ts "ON" then pJoinOn d f ts
  else if searchStrUp ts "USING" then pJoinUsing d f ts
  else .error .parse

/-! ## clauses -/

/-- `_parse_select_clause`: `match("SELECT")`, optional DISTINCT, the comma list of columns -/
def pSelectClause (d : Gen.D) (f : Nat) (ts : List Tok) : R (Bool × List (Expr × Option String)) :=
  match matchKw ts "SELECT" with
  | .error e => .error e
  | .ok (_, r0) =>
    match pSelectCol d f (moveStrUp r0 "DISTINCT").2 with
    | .error e => .error e
    | .ok (c, r1) => match pSelectCols d f [c] r1 with
      | .error e => .error e
      | .ok (cols, r2) => .ok (((moveStrUp r0 "DISTINCT").1, cols), r2)

/-! ## `Val` forms of what these entry points return (`canon.dump`) -/
def insertTypeVal (t : String) : Val := .node "ASTInsertType" [("enum", .enum "EnumInsertType" t)]
def joinTypeVal (t : String) : Val := .node "ASTJoinType" [("enum", .enum "EnumJoinType" t)]
def orderTypeVal (desc : Bool) : Val := .node "ASTOrderType" [("enum", .enum "EnumOrderType" (if desc then "DESC" else "ASC"))]
def unionTypeVal (t : String) : Val := .node "ASTUnionType" [("enum", .enum "EnumUnionType" t)]
def compareOpVal (o : String) : Val := .node "ASTCompareOperator" [("enum", .enum "EnumCompareOperator" o)]
def computeOpVal (o : String) : Val := .node "ASTComputeOperator" [("enum", .enum "EnumComputeOperator" o)]
def castDataTypeVal (t : String) : Val := .enum "EnumCastDataType" t
def multiAliasVal (names : List String) : Val := .node "ASTMultiAlisaExpression" [("names", Val.strs names)]
def wildcardVal (t : Option String) : Val := (Expr.wildcard t).toVal
def windowRowVal (p : RowItem × RowItem) : Val := .node "ASTWindowRow" [("from_row", p.1.toVal), ("to_row", p.2.toVal)]
def selectColVal (c : Expr × Option String) : Val := .node "ASTSelectColumn" [("value", c.1.toVal), ("alias", alias c.2)]
def selectClauseVal (p : Bool × List (Expr × Option String)) : Val :=
  .node "ASTSelectClause" [("distinct", .bool p.1), ("columns", .tuple (selectCols p.2))]
def fromClauseVal1 (l : List FromTable) : Val := .node "ASTFromClause" [("tables", .tuple (fromTables l))]
def groupingSetsVal (l : List (List Expr)) : Val := .node "ASTGroupingSets" [("grouping_list", .tuple (exprLists l))]
def updateSetColVal (p : String × Expr) : Val := .node "ASTUpdateSetColumn" [("column_name", .str p.1), ("column_value", p.2.toVal)]
def updateSetVal (l : List (String × Expr)) : Val := .node "ASTUpdateSetClause" [("columns", .tuple (l.map updateSetColVal))]

/-- the 26 public `parse_*` methods that `entries` does not have -/
def entries2 : List (String × Entry) := [
  ("insert_type", mapEntry (fun _ _ ts => pInsertType ts) insertTypeVal),
  ("join_type", mapEntry (fun _ _ ts => pJoinType ts) joinTypeVal),
  ("order_type", mapEntry (fun _ _ ts => pOrderType ts) orderTypeVal),
  ("union_type", mapEntry (fun _ _ ts => pUnionType ts) unionTypeVal),
  ("compare_operator", mapEntry (fun _ _ ts => pCompareOp ts) compareOpVal),
  ("compute_operator", mapEntry (fun _ _ ts => pComputeOp ts) computeOpVal),
  ("cast_data_type", mapEntry (fun _ _ ts => pCastDataType ts) castDataTypeVal),
  ("window_row_item", mapEntry (fun _ _ ts => pRowItem ts) RowItem.toVal),
  ("window_row", mapEntry (fun _ _ ts => pWindowRow ts) windowRowVal),
  ("wildcard_expression", mapEntry (fun _ _ ts => pWildcard ts) wildcardVal),
  ("alias_expression", mapEntry (fun _ _ ts => pAlias ts) alias),
  ("multi_alias_expression", mapEntry (fun _ _ ts => pMultiAlias ts) multiAliasVal),
  ("join_on_expression", mapEntry pJoinOn JoinRule.toVal),
  ("join_using_expression", mapEntry pJoinUsing JoinRule.toVal),
  ("join_expression", mapEntry pJoinExpr JoinRule.toVal),
  ("select_column", mapEntry pSelectCol selectColVal),
  ("select_clause", mapEntry pSelectClause selectClauseVal),
  ("from_clause", mapEntry pFromClause fromClauseVal1),
  ("grouping_sets", mapEntry pGroupingSets groupingSetsVal),
  ("having_clause", mapEntry (fun d f ts => pOptOr d f "HAVING" ts) havingClauseVal),
  ("sort_by_clause", mapEntry pSortBy sortByClauseVal),
  ("distribute_by_clause", mapEntry (fun d f ts => pByList d f "DISTRIBUTE" ts) distributeByClauseVal),
  ("cluster_by_clause", mapEntry (fun d f ts => pByList d f "CLUSTER" ts) clusterByClauseVal),
  ("with_table", mapEntry pWithTable WithTable.toVal),
  ("update_set_column", mapEntry pUpdateSetCol updateSetColVal),
  ("update_set_clause", mapEntry pUpdateSet updateSetVal)]

/-- every public parsing entry point: 58 + 26 = 84 -/
def entriesAll : List (String × Entry) := entries ++ entries2

/-- the model of `SQLParser.parse_<entry>(text, sql_type)` for every public entry point -/
def parseText2 (entry : String) (d : Gen.D) (text : List Char) : Except Err (Val × Nat) :=
  match entriesAll.find? (·.1 == entry) with
  | none => .error (.unmodelled ("entry point " ++ entry))
  | some (_, p) =>
    match lex Gen.cfgS (dialectPre d text) with
    | .error e => .error e
    | .ok ts => match p d (fuelFor ts) ts with
      | .ok (v, r) => .ok (v, r.length)
      | .error e => .error e

/-- `SQLParser.parse_<entry>(TokenScanner(FSMMachine.parse(text)), sql_type)`: `_unify_input_scanner` returns a scanner
argument as it is (parser.py:88-89) — the dialect's text replacements are NOT applied -/
def parseScanner2 (entry : String) (d : Gen.D) (text : List Char) : Except Err (Val × Nat) :=
  match entriesAll.find? (·.1 == entry) with
  | none => .error (.unmodelled ("entry point " ++ entry))
  | some (_, p) =>
    match lex Gen.cfgS text with
    | .error e => .error e
    | .ok ts => match p d (fuelFor ts) ts with
      | .ok (v, r) => .ok (v, r.length)
      | .error e => .error e

/-- `SQLParser.parse_<entry>(x, sql_type)` with `x` neither a `TokenScanner` nor a `str` (parser.py:102) -/
def parseOther2 (entry : String) (_d : Gen.D) : Except Err (Val × Nat) :=
  match entriesAll.find? (·.1 == entry) with
  | none => .error (.unmodelled ("entry point " ++ entry))
  | some _ => .error .parse

end PM
