import MsqModel.Lex.Core
import MsqModel.Gen.PyTables
import MsqModel.Gen.LexOps
import MsqModel.Gen.Static
import MsqModel.Ast
/-!
# Cursor primitives of the parser model

The cursor is the remaining suffix of the token list (`TokenScanner(elements,pos)` ↦ `elements.drop pos`);
`MsqModel/Scan.lean` models `TokenScanner` itself and `MsqProofs/Lemmas/ScanView.lean` relates the two.
Every primitive names the `TokenScanner` / `AMTBase` method it stands for.
-/
open Lex

def up (s : String) : String := Gen.pyUpperS s

namespace Lex
def NAME : Nat := Gen.mark_NAME
def PAREN : Nat := Gen.mark_PARENTHESIS
def LITERAL : Nat := Gen.mark_LITERAL
def ARRAY : Nat := Gen.mark_ARRAY_INDEX
def CUSTOM1 : Nat := Gen.mark_CUSTOM_1
/-- `AMTBase.source` -/
def Tok.src (t : Tok) : String := String.ofList (Tok.source t)
/-- `has_mark` / `equals(AMTMark)` -/
def Tok.has (t : Tok) (m : Nat) : Bool := t.marks &&& m != 0
/-- `AMTBase.equals(str)`: upper-case comparison for leaves, `False` for groups -/
def Tok.equalsStr (t : Tok) (k : String) : Bool :=
  match t with | .single s _ => up (String.ofList s) == up k | .group _ _ _ => false
/-- `source_equal` -/
def Tok.srcEq (t : Tok) (k : String) : Bool := Tok.src t == k
/-- `source_equal_use_upper` -/
def Tok.srcEqUp (t : Tok) (k : String) : Bool := up (Tok.src t) == k
end Lex

namespace PM
open Ast

abbrev R (α : Type) := Except Err (α × List Tok)

/-- `str.strip("`")` (`_unify_name`) -/
def unifyName (s : String) : String :=
  String.ofList ((s.toList.dropWhile (· == '`')).reverse.dropWhile (· == '`')).reverse

/-- `COMPUTE_OPERATOR_HASH.get(source)` ↦ (member name, level) -/
def computeOp? (s : String) : Option (String × Nat) :=
  match Gen.computeHash.find? (·.1 == s) with
  | none => none
  | some (_, nm) => (Gen.computeEnum.find? (·.1 == nm)).map fun e => (nm, e.2.2)
/-- `COMPARE_OPERATOR_HASH.get(source)` ↦ member name -/
def compareOp? (s : String) : Option String := (Gen.compareHash.find? (·.1 == s)).map (·.2)

/-- `pop()` -/
def pop : List Tok → R Tok | [] => .error .parse | t :: r => .ok (t, r)
/-- `search_one_type_str_use_upper` -/
def searchStrUp (ts : List Tok) (k : String) : Bool := match ts with | t :: _ => Tok.srcEqUp t k | [] => false
/-- `search_one_type_str` -/
def searchStr (ts : List Tok) (k : String) : Bool := match ts with | t :: _ => Tok.srcEq t k | [] => false
/-- `search_one_type_mark` -/
def searchMark (ts : List Tok) (m : Nat) : Bool := match ts with | t :: _ => t.has m | [] => false
/-- `search_one_type_set` (raw source in a set) -/
def searchSet (ts : List Tok) (ks : List String) : Bool := match ts with | t :: _ => ks.contains t.src | [] => false
/-- `search_one_type_set_use_upper` -/
def searchSetUp (ts : List Tok) (ks : List String) : Bool := match ts with | t :: _ => ks.contains (up t.src) | [] => false
/-- `search_and_move_one_type_str_use_upper` -/
def moveStrUp (ts : List Tok) (k : String) : Bool × List Tok := if searchStrUp ts k then (true, ts.drop 1) else (false, ts)
/-- `search_and_move_one_type_str` -/
def moveStr (ts : List Tok) (k : String) : Bool × List Tok := if searchStr ts k then (true, ts.drop 1) else (false, ts)
/-- `search_and_move_one_type_set_use_upper` -/
def moveSetUp (ts : List Tok) (ks : List String) : Bool × List Tok := if searchSetUp ts ks then (true, ts.drop 1) else (false, ts)
/-- `match(k)` for one keyword: pops, then compares -/
def matchKw (ts : List Tok) (k : String) : R Unit :=
  match ts with | [] => .error .parse | t :: r => if t.equalsStr k then .ok ((), r) else .error .parse
/-- `search(*tokens)` with string patterns -/
def searchSeq : List Tok → List String → Bool
  | _, [] => true
  | [], _ :: _ => false
  | t :: ts, k :: ks => t.equalsStr k && searchSeq ts ks
/-- `search_and_move(*tokens)` -/
def moveSeq (ts : List Tok) (ks : List String) : Bool × List Tok := if searchSeq ts ks then (true, ts.drop ks.length) else (false, ts)
/-- `search_two_type_str_use_upper` -/
def searchTwoUp (ts : List Tok) (a b : String) : Bool := match ts with | x :: y :: _ => x.srcEqUp a && y.srcEqUp b | _ => false
def moveTwoUp (ts : List Tok) (a b : String) : Bool × List Tok := if searchTwoUp ts a b then (true, ts.drop 2) else (false, ts)
/-- `search_three_type_str_use_upper` -/
def searchThreeUp (ts : List Tok) (a b c : String) : Bool :=
  match ts with | x :: y :: z :: _ => x.srcEqUp a && y.srcEqUp b && z.srcEqUp c | _ => false
def moveThreeUp (ts : List Tok) (a b c : String) : Bool × List Tok := if searchThreeUp ts a b c then (true, ts.drop 3) else (false, ts)
/-- `match(*tokens)`: pops before comparing, so a failed match has advanced -/
def matchSeq : List Tok → List String → R Unit
  | ts, [] => .ok ((), ts)
  | [], _ :: _ => .error .parse
  | t :: ts, k :: ks => if t.equalsStr k then matchSeq ts ks else .error .parse
/-- `for m in Enum: if search_and_move(*m.value): return m` -/
def firstEnum (tbl : List (String × List String)) (ts : List Tok) : Option (String × List Tok) :=
  match tbl with
  | [] => none
  | (n, ks) :: rest => if searchSeq ts ks then some (n, ts.drop ks.length) else firstEnum rest ts
/-- `pop_as_source()` -/
def popSrc : List Tok → R String | [] => .error .parse | t :: r => .ok (t.src, r)

/-- the `close()` discipline: a sub-cursor must be exhausted -/
def closed {α : Type} (res : R α) : Except Err α :=
  match res with | .ok (a, []) => .ok a | .ok (_, _ :: _) => .error .parse | .error e => .error e
theorem closed_ok {α : Type} (res : R α) (a : α) : closed res = .ok a ↔ res = .ok (a, []) := by
  unfold closed; split <;> simp_all

/-- `pop_as_children_scanner_list_split_by(sep)` applied to the children of the popped token -/
def splitBy (sep : String) : List Tok → List Tok → List (List Tok) → List (List Tok)
  | [], cur, acc => if cur.isEmpty then acc else acc ++ [cur]
  | t :: r, cur, acc =>
    if t.equalsStr sep then (if cur.isEmpty then splitBy sep r [] acc else splitBy sep r [] (acc ++ [cur]))
    else splitBy sep r (cur ++ [t]) acc

/-! ### Python `int(str)` and `ASTLiteralExpression.as_int` on token sources

A token source never contains blanks, so the only accepted forms are an optional sign followed by
decimal digits with single underscores between digits (`int('1_0') == 10`); non-ASCII `Nd` digits are
outside the modelled fragment and reported as such. -/
def isAsciiIntBody : List Char → Bool
  | [] => false
  | cs => cs.all (fun c => c.isDigit || c == '_') && cs.head?.any Char.isDigit && cs.getLast?.any Char.isDigit
      && !(String.ofList cs).contains "__"
def intBody (cs : List Char) : List Char := match cs with | '+' :: r => r | '-' :: r => r | _ => cs
def digitsVal (cs : List Char) : Nat := (cs.filter Char.isDigit).foldl (fun n c => n * 10 + (c.toNat - 48)) 0
def hasNonAscii (s : String) : Bool := s.toList.any (fun c => c.toNat ≥ 128)
/-- `int(s)` -/
def pyInt (s : String) : Except Err Int :=
  if hasNonAscii s then .error (.unmodelled "int() of non-ASCII text") else
  let cs := s.toList
  if isAsciiIntBody (intBody cs) then
    -- CPython refuses to convert more than `sys.get_int_max_str_digits()` (= 4300) digits
    if ((intBody cs).filter Char.isDigit).length > 4300 then .error (.py .ValueError) else
    .ok (if cs.head? == some '-' then -(Int.ofNat (digitsVal (intBody cs))) else Int.ofNat (digitsVal (intBody cs)))
  else .error (.py .ValueError)
/-- `_pop_as_int`: a `ValueError` of `int()` becomes `SqlParseError` -/
def popInt (ts : List Tok) : R Int :=
  match ts with
  | [] => .error .parse
  | t :: r => (match pyInt t.src with | .ok n => .ok (n, r) | .error (.py .ValueError) => .error .parse | .error e => .error e)

/-- `is_int_literal` (`^[+-]?\d+$`) on a token source -/
def isIntLiteral (s : String) : Bool := let b := intBody s.toList; !b.isEmpty && b.all Char.isDigit
/-- `ASTLiteralExpression.as_int` -/
def asInt (s : String) : Except Err Int :=
  if hasNonAscii s then .error (.unmodelled "as_int of non-ASCII text") else
  if isIntLiteral s then (match pyInt s with | .error (.py .ValueError) => .error .parse | r => r) else .error .parse
def popAsInt (ts : List Tok) : R Int :=
  match ts with | [] => .error .parse | t :: r => (match asInt t.src with | .ok n => .ok (n, r) | .error e => .error e)

def startsSelect (cs : List Tok) : Bool := searchSetUp cs ["SELECT", "WITH"]
def headIsOver (ts : List Tok) : Bool := match ts with | t :: _ => t.srcEqUp "OVER" | [] => false
/-- `get_as_children_scanner()` on a possibly exhausted cursor: `None.children` -/
def headChildren (ts : List Tok) : Except Err (List Tok) := match ts with | t :: _ => .ok t.children | [] => .error .parse

end PM
