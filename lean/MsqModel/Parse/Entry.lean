import MsqModel.Parse.Stmt
import MsqModel.Val
import MsqModel.Gen.LexShipped
/-!
# Public entry points: `SQLParser.parse_*(text, sql_type)`

`parseText` = dialect pre-pass (`parser.py:91-99`) ∘ lexer (shipped configuration) ∘ private method.
Public wrappers do not call `close()` (only `parse_statements` does), so the number of unconsumed
tokens is part of the observable result.
-/
open Lex
namespace PM
open Ast

/-- `_unify_input_scanner`'s whole-text replacements -/
def dialectPre (d : Gen.D) (s : List Char) : List Char :=
  let s1 := if d == .DB2 then
      Py.replace "CURRENT TIMESTAMP".toList "CURRENT_TIMESTAMP".toList
        (Py.replace "CURRENT TIME".toList "CURRENT_TIME".toList
          (Py.replace "CURRENT DATE".toList "CURRENT_DATE".toList s))
    else s
  if d == .HIVE then Py.replace "==".toList "=".toList s1 else s1

def fuelFor (ts : List Tok) : Nat := 20 * sizeL ts + 40

abbrev Entry := Gen.D → Nat → List Tok → Except Err (Val × List Tok)

def exprEntry (p : Gen.D → Nat → List Tok → R Expr) : Entry := fun d f ts =>
  match p d f ts with | .ok (e, r) => .ok (e.toVal, r) | .error e => .error e
def stmtEntry (p : Gen.D → Nat → List Tok → R Stmt) : Entry := fun d f ts =>
  match p d f ts with | .ok (s, r) => .ok (s.toVal, r) | .error e => .error e
def mapEntry {α : Type} (p : Gen.D → Nat → List Tok → R α) (v : α → Val) : Entry := fun d f ts =>
  match p d f ts with | .ok (a, r) => .ok (v a, r) | .error e => .error e

/-- `parse_statements`: the loop, then `close()`; the result is a Python *list* -/
def pStatements (d : Gen.D) (f : Nat) (ts : List Tok) : Except Err (List Stmt) := statementsLoop d f (ts.length + 1) [] ts

/-- `_parse_sub_value_expression` -/
def pSubValue (d : Gen.D) (f : Nat) (ts : List Tok) : R Expr :=
  match ts with
  | [] => .error .parse
  | g :: r => match pSplit d f [] [] g.children with | .ok vs => .ok (.subValue vs, r) | .error e => .error e

def entries : List (String × Entry) := [
  ("literal_expression", fun _ _ ts => match popSrc ts with | .ok (s, r) => .ok ((Expr.literal s).toVal, r) | .error e => .error e),
  ("table_name_expression", fun _ _ ts => match pTblName ts with | .ok (t, r) => .ok (t.toVal, r) | .error e => .error e),
  ("column_name_expression", fun _ _ ts => match pColumnName ts with | .ok ((t, c), r) => .ok ((Expr.column t c).toVal, r) | .error e => .error e),
  ("function_name_expression", fun _ _ ts => match pFuncName ts with | .ok ((s, n), r) => .ok (fnName s n, r) | .error e => .error e),
  ("function_expression", exprEntry pFunc),
  ("function_expression_and_index", exprEntry pFuncIdx),
  ("cast_function_expression", exprEntry pCast),
  ("extract_function_expression", exprEntry pExtract),
  ("if_function_expression", exprEntry pIfCall),
  ("window_expression", exprEntry pWindow),
  ("case_expression", exprEntry pCase),
  ("sub_query_expression", exprEntry pSubQuery),
  ("sub_value_expression", exprEntry pSubValue),
  ("element_level_expression", exprEntry pElement),
  ("unary_level_expression", exprEntry pUnary),
  ("compute_expression", exprEntry pCompute),
  ("keyword_condition_level_expression", exprEntry (fun d f ts => pKeyword d f none ts)),
  ("operator_condition_level_expression", exprEntry pCompare),
  ("logical_not_level_expression", exprEntry pNot),
  ("logical_and_level_expression", exprEntry pAnd),
  ("logical_xor_level_expression", exprEntry pXor),
  ("logical_or_level_expression", exprEntry pOr),
  ("from_table", mapEntry pFromTable FromTable.toVal),
  ("join_clause", mapEntry pJoin Join.toVal),
  ("table_expression", mapEntry pTableExpr TableRef.toVal),
  ("where_clause", mapEntry (fun d f ts => pOptOr d f "WHERE" ts) whereVal),
  ("order_by_clause", mapEntry pOrderByOpt orderVal),
  ("group_by_clause", mapEntry pGroupBy (fun g => match g with | none => Val.none | some g => g.toVal)),
  ("limit_clause", fun _ _ ts => match pLimit ts with | .ok (l, r) => .ok (limitVal l, r) | .error e => .error e),
  ("with_clause", mapEntry pWith (fun ws => withsVal (some ws))),
  ("lateral_view_clause", mapEntry pLateral Lateral.toVal),
  ("single_select_statement", mapEntry (fun d f ts => match pWith d f ts with | .ok (w, r) => pSingle d f w r | .error e => .error e) Select.toVal),
  ("select_statement", mapEntry (fun d f ts => pSelectStmt d f none ts) Query.toVal),
  ("config_string_expression", fun _ _ ts => match pConfigStrExpr ts with | .ok (c, r) => .ok (c.toVal, r) | .error e => .error e),
  ("column_type_expression", mapEntry pColType ColType.toVal),
  ("partition_expression", mapEntry (fun d f ts => pPartition d f false ts) partitionVal),
  ("foreign_key_expression", fun _ _ ts => match pForeignKey ts with | .ok (k, r) => .ok (k.toVal, r) | .error e => .error e),
  ("index_column", fun _ _ ts => match pIndexCol ts with | .ok (c, r) => .ok (c.toVal, r) | .error e => .error e),
  ("primary_index_expression", fun _ _ ts => match pPrimaryIndex ts with | .ok (i, r) => .ok (i.toVal, r) | .error e => .error e),
  ("unique_index_expression", fun _ _ ts => match pUniqueIndex ts with | .ok (i, r) => .ok (i.toVal, r) | .error e => .error e),
  ("normal_index_expression", fun _ _ ts => match pNormalIndex ts with | .ok (i, r) => .ok (i.toVal, r) | .error e => .error e),
  ("fulltext_expression", fun _ _ ts => match pFulltextIndex ts with | .ok (i, r) => .ok (i.toVal, r) | .error e => .error e),
  ("define_column_expression", mapEntry pDefCol DefCol.toVal),
  ("column_or_index", mapEntry pColOrIdx ColOrIdx.toVal),
  ("alter_expression", mapEntry pAlterExpr AlterOp.toVal),
  ("set_statement", fun _ _ ts => match pSet ts with | .ok (s, r) => .ok (s.toVal, r) | .error e => .error e),
  ("create_table_statement", stmtEntry pCreateTable),
  ("drop_table_statement", fun _ _ ts => match pDropTable ts with | .ok (s, r) => .ok (s.toVal, r) | .error e => .error e),
  ("analyze_table_statement", stmtEntry pAnalyze),
  ("alter_table_statement", stmtEntry pAlter),
  ("msck_repair_table_statement", fun _ _ ts => match pMsck ts with | .ok (s, r) => .ok (s.toVal, r) | .error e => .error e),
  ("use_statement", fun _ _ ts => match pUse ts with | .ok (s, r) => .ok (s.toVal, r) | .error e => .error e),
  ("truncate_table_statement", fun _ _ ts => match pTruncate ts with | .ok (s, r) => .ok (s.toVal, r) | .error e => .error e),
  ("update_statement", stmtEntry (fun d f ts => pUpdate d f none ts)),
  ("delete_statement", stmtEntry pDelete),
  ("show_columns_statement", stmtEntry pShowColumns),
  ("insert_statement", stmtEntry (fun d f ts => pInsert d f none ts)),
  ("statements", fun d f ts => match pStatements d f ts with | .ok ss => .ok (.list (ss.map Stmt.toVal), []) | .error e => .error e)]

/-- the model of `SQLParser.parse_<entry>(text, sql_type)` -/
def parseText (entry : String) (d : Gen.D) (text : List Char) : Except Err (Val × Nat) :=
  match entries.find? (·.1 == entry) with
  | none => .error (.unmodelled ("entry point " ++ entry))
  | some (_, p) =>
    match lex Gen.cfgS (dialectPre d text) with
    | .error e => .error e
    | .ok ts => match p d (fuelFor ts) ts with
      | .ok (v, r) => .ok (v, r.length)
      | .error e => .error e

/-- `parse_statements` on text, typed -/
def parseStatementsText (d : Gen.D) (text : List Char) : Except Err (List Stmt) :=
  match lex Gen.cfgS (dialectPre d text) with
  | .error e => .error e
  | .ok ts => pStatements d (fuelFor ts) ts

end PM
