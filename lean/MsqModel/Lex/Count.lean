import MsqModel.Lex.Core
/-! the driver with a counter of `handle` calls (C19a); the counter does not affect the result (`MsqProofs/Props/C19.lean`) -/
namespace Lex
variable {Cls : Type}

/-- `feedWith` returning the number of `handle` calls it made -/
def feedWithC (h : Mem → Sym → Except Err (Mem × Bool)) (m : Mem) (c : Char) : Except Err (Mem × Nat) :=
  match h m (.ch c) with
  | .error e => .error e
  | .ok (m1, true) => .ok (m1, 1)
  | .ok (m1, false) =>
    match h m1 (.ch c) with
    | .error e => .error e
    | .ok (m2, _) => .ok (m2, 2)

def feedAllWithC (h : Mem → Sym → Except Err (Mem × Bool)) : List Char → Mem → Nat → Except Err (Mem × Nat)
  | [], m, n => .ok (m, n)
  | c :: cs, m, n => match feedWithC h m c with
    | .error e => .error e
    | .ok (m', k) => feedAllWithC h cs m' (n + k)

/-- number of `handle` calls of an accepted lexing run (one more for END); a rejected run reports its error -/
def handleCalls (cfg : Cfg Cls) (raw : List Char) : Except Err Nat :=
  let text := cfg.pre raw
  match feedAllWithC (handle cfg text) text {} 0 with
  | .error e => .error e
  | .ok (m, n) =>
    match handle cfg text m .eof with
    | .error e => .error e
    | .ok (m', _) => match finish cfg m' with
      | .error e => .error e
      | .ok _ => .ok (n + 1)

end Lex
