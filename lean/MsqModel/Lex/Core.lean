import MsqModel.Py
import MsqModel.Gen.Status
/-!
# Lexer model: micro-instruction interpreter and driver

Generic in the generated data: the status enum `S` (Gen.Status), the operation classes `Cls`
with their instruction lists, the per-status rows of the effective transition table, the
word→mark table, the pre-pass replacement chain and the driver parameters are all produced by
`tools/translate.py` from `/repo` on every run.
-/
namespace Lex

inductive GK | paren | slice deriving DecidableEq, Repr, Inhabited

inductive Tok where
  | single (src : List Char) (marks : Nat)
  | group (k : GK) (cs : List Tok) (marks : Nat)
  deriving Repr, Inhabited

inductive Marks | self | const (n : Nat) | word (dflt : Nat) deriving DecidableEq, Repr

/-- one straight-line statement of an `FSMOperate*.execute` body -/
inductive Instr where
  | incNow | setStartNow | setStatus (s : S) | setStatusSelf | sliceWindow
  | emitSingle (m : Marks) | pushStack | popStack | emitGroup (k : GK) (m : Marks)
  | raiseIfDepthLE (k : Nat) | raiseIfEnd | raise | ret (b : Bool)
  deriving DecidableEq, Repr

/-- a live operation object: its class and instance attributes -/
structure OpRef (Cls : Type) where
  cls : Cls
  status : S
  marks : Nat
  deriving DecidableEq, Repr

inductive Sym | ch (c : Char) | eof deriving DecidableEq, Repr

structure Mem where
  start : Nat := 0
  now : Nat := 0
  status : S := .WAIT
  /-- innermost frame first; Python's `memory.stack[-1]` is `stack.head` -/
  stack : List (List Tok) := [[]]
  deriving Repr

/-- registers local to one `execute` call -/
structure Regs where
  source : Option (List Char) := none
  tokens : Option (List Tok) := none

/-- `HANDLE_WORD_TO_MARK_HASH.get(source.upper(), dflt)` etc. -/
def resolveMarks (upper : List Char → List Char) (wordMarks : List (String × Nat)) (self : Nat)
    (src : List Char) : Marks → Nat
  | .self => self
  | .const n => n
  | .word d => match wordMarks.find? (fun e => e.1.toList == upper src) with
    | some e => e.2 | none => d

def appendTop (t : Tok) : List (List Tok) → Option (List (List Tok))
  | [] => none
  | f :: fs => some ((f ++ [t]) :: fs)

/-- static environment of one `execute` call -/
structure Env where
  upper : List Char → List Char
  wordMarks : List (String × Nat)
  text : List Char

/-- run one instruction list; returns (memory, returned flag) -/
def exec (env : Env) (selfStatus : S) (selfMarks : Nat) (sym : Sym) :
    List Instr → Regs → Mem → Except Err (Mem × Bool)
  | [], _, _ => .error (.unmodelled "execute returned None")
  | i :: is, r, m =>
    match i with
    | .incNow => exec env selfStatus selfMarks sym is r { m with now := m.now + 1 }
    | .setStartNow => exec env selfStatus selfMarks sym is r { m with start := m.now }
    | .setStatus s => exec env selfStatus selfMarks sym is r { m with status := s }
    | .setStatusSelf => exec env selfStatus selfMarks sym is r { m with status := selfStatus }
    | .sliceWindow =>
      exec env selfStatus selfMarks sym is { r with source := some ((env.text.drop m.start).take (m.now - m.start)) } m
    | .emitSingle mk =>
      match r.source with
      | none => .error (.py .UnboundLocalError)
      | some src =>
        match appendTop (.single src (resolveMarks env.upper env.wordMarks selfMarks src mk)) m.stack with
        | none => .error (.py .IndexError)
        | some st => exec env selfStatus selfMarks sym is r { m with stack := st }
    | .pushStack => exec env selfStatus selfMarks sym is r { m with stack := [] :: m.stack }
    | .popStack =>
      match m.stack with
      | [] => .error (.py .IndexError)
      | f :: fs => exec env selfStatus selfMarks sym is { r with tokens := some f } { m with stack := fs }
    | .emitGroup k mk =>
      match r.tokens with
      | none => .error (.py .UnboundLocalError)
      | some ts =>
        match appendTop (.group k ts (resolveMarks env.upper env.wordMarks selfMarks [] mk)) m.stack with
        | none => .error (.py .IndexError)
        | some st => exec env selfStatus selfMarks sym is r { m with stack := st }
    | .raiseIfDepthLE k => if m.stack.length ≤ k then .error .lexical else exec env selfStatus selfMarks sym is r m
    | .raiseIfEnd => if sym = .eof then .error .lexical else exec env selfStatus selfMarks sym is r m
    | .raise => .error .lexical
    | .ret b => .ok (m, b)

/-- the effective transition table of one option setting, plus everything else `parse` reads -/
structure Cfg (Cls : Type) where
  code : Cls → List Instr
  /-- explicit cells `(status, ch)` of `FSM_OPERATION_MAP`, grouped by status -/
  rows : S → List (Nat × OpRef Cls)
  /-- `FSM_OPERATION_MAP_DEFAULT` -/
  dflt : S → Option (OpRef Cls)
  /-- the cell `(status, END)` if present, else the default -/
  atEnd : S → Option (OpRef Cls)
  wordMarks : List (String × Nat)
  upper : List Char → List Char
  /-- `preproc_sql`'s replacement chain, in order -/
  preChain : List (List Char × List Char)
  /-- `len(memory.stack) > depthLimit` raises at the end -/
  depthLimit : Nat
  endStatus : S

variable {Cls : Type}

def Cfg.lookup (cfg : Cfg Cls) (s : S) : Sym → Option (OpRef Cls)
  | .eof => cfg.atEnd s
  | .ch c => match (cfg.rows s).find? (fun e => e.1 == c.toNat) with
    | some e => some e.2
    | none => cfg.dflt s

def Cfg.env (cfg : Cfg Cls) (text : List Char) : Env := ⟨cfg.upper, cfg.wordMarks, text⟩

def handle (cfg : Cfg Cls) (text : List Char) (m : Mem) (sym : Sym) : Except Err (Mem × Bool) :=
  match cfg.lookup m.status sym with
  | none => .error (.py .KeyError)
  | some o => exec (cfg.env text) o.status o.marks sym (cfg.code o.cls) {} m

/-- a plug-in intercept (`FSMMachineMyBatis.handle`): `(status test, char test) → op`, first match wins -/
inductive ChTest | any | lit (s : List Char) deriving DecidableEq, Repr
structure Intercept (Cls : Type) where
  status : S
  ch : ChTest
  op : OpRef Cls
  /-- `memory.status = s'; return super().handle(memory, ch)`: the intercept only re-labels the state and lets the base
  machine handle the symbol (`op` is not used then) -/
  redirect : Option S := none

/-- the Python value of the `ch` argument -/
def Sym.pyStr (endMarker : List Char) : Sym → List Char
  | .ch c => [c]
  | .eof => endMarker

def Intercept.fires (endMarker : List Char) (i : Intercept Cls) (s : S) (sym : Sym) : Bool :=
  i.status == s && (match i.ch with | .any => true | .lit l => l == sym.pyStr endMarker)

structure Machine (Cls : Type) where
  cfg : Cfg Cls
  intercepts : List (Intercept Cls)
  /-- the literal value of `END` the driver feeds after the loop -/
  endMarker : List Char

def Machine.handle (mc : Machine Cls) (text : List Char) (m : Mem) (sym : Sym) : Except Err (Mem × Bool) :=
  match mc.intercepts.find? (fun i => i.fires mc.endMarker m.status sym) with
  | some i =>
    (match i.redirect with
     | some s' => Lex.handle mc.cfg text { m with status := s' } sym
     | none => exec (mc.cfg.env text) i.op.status i.op.marks sym (mc.cfg.code i.op.cls) {} m)
  | none => Lex.handle mc.cfg text m sym

/-- `if not handle(ch): handle(ch)` -/
def feedWith (h : Mem → Sym → Except Err (Mem × Bool)) (m : Mem) (c : Char) : Except Err Mem :=
  match h m (.ch c) with
  | .error e => .error e
  | .ok (m1, true) => .ok m1
  | .ok (m1, false) =>
    match h m1 (.ch c) with
    | .error e => .error e
    | .ok (m2, _) => .ok m2

def feedAllWith (h : Mem → Sym → Except Err (Mem × Bool)) : List Char → Mem → Except Err Mem
  | [], m => .ok m
  | c :: cs, m => match feedWith h m c with
    | .error e => .error e
    | .ok m' => feedAllWith h cs m'

def feed (cfg : Cfg Cls) (text : List Char) := feedWith (handle cfg text)
def feedAll (cfg : Cfg Cls) (text : List Char) := feedAllWith (handle cfg text)

def preWith (chain : List (List Char × List Char)) (t : List Char) : List Char :=
  chain.foldl (fun t pr => Py.replace pr.1 pr.2 t) t

def Cfg.pre (cfg : Cfg Cls) := preWith cfg.preChain

/-- the tail of `FSMMachine.parse` after the END symbol was handled -/
def finish (cfg : Cfg Cls) (m' : Mem) : Except Err (List Tok) :=
  if m'.status ≠ cfg.endStatus then .error .lexical
  else if m'.stack.length > cfg.depthLimit then .error .lexical
  else match m'.stack.getLast? with
    | some f => .ok f
    | none => .error (.py .IndexError)

def lexWith (cfg : Cfg Cls) (h : List Char → Mem → Sym → Except Err (Mem × Bool)) (raw : List Char) :
    Except Err (List Tok) :=
  let text := cfg.pre raw
  match feedAllWith (h text) text {} with
  | .error e => .error e
  | .ok m =>
    match h text m .eof with
    | .error e => .error e
    | .ok (m', _) => finish cfg m'

/-- `FSMMachine.parse` -/
def lex (cfg : Cfg Cls) (raw : List Char) : Except Err (List Tok) := lexWith cfg (handle cfg) raw

/-- `FSMMachineMyBatis.parse` (and any machine with intercepts) -/
def Machine.lex (mc : Machine Cls) (raw : List Char) : Except Err (List Tok) := lexWith mc.cfg mc.handle raw

mutual
/-- `AMTBase.source`: a group renders as `(`children`)` whatever its kind (`amt_node.py:115`) -/
def Tok.source : Tok → List Char
  | .single s _ => s
  | .group _ cs _ => '(' :: (sourceL cs ++ [')'])
def sourceL : List Tok → List Char
  | [] => []
  | t :: ts => Tok.source t ++ sourceL ts
end

mutual
/-- structural equality of token trees (`deriving DecidableEq` is unavailable for nested inductives) -/
def Tok.eqb : Tok → Tok → Bool
  | .single a m, .single b n => a == b && m == n
  | .group k cs m, .group l ds n => k == l && m == n && eqbL cs ds
  | _, _ => false
def eqbL : List Tok → List Tok → Bool
  | [], [] => true
  | a :: as, b :: bs => Tok.eqb a b && eqbL as bs
  | _, _ => false
end

/-- `r` is the successful result `ts` -/
def lexesTo (r : Except Err (List Tok)) (ts : List Tok) : Bool :=
  match r with | .ok xs => eqbL xs ts | .error _ => false

def Tok.marks : Tok → Nat | .single _ m => m | .group _ _ m => m
def Tok.children : Tok → List Tok | .group _ cs _ => cs | .single _ _ => []

mutual
def Tok.size : Tok → Nat
  | .single _ _ => 1
  | .group _ cs _ => 1 + sizeL cs
def sizeL : List Tok → Nat
  | [] => 0
  | t :: ts => Tok.size t + sizeL ts
end

end Lex
