import MsqModel.Gen.LexOps
/-!
# C05 — the SQL token grammar, written down a second time as a *specification automaton*

This file does not read the transition table of `metasequoia_sql/lexical/fsm_operation_map.py` (that table is
translated into `Gen.CfgN` on every run).  It states, state family by state family, what the token grammar of
property C05 requires the lexer to do on every character, as RULES over character classes, using the same state
type `S` and the same operation vocabulary (`OpRef Gen.Cls`) as the generated tables so that the two can be
compared cell by cell (`MsqProofs/Props/C05.lean`: `C05.agree_cfgN`, for every state and every character code).

* `Spec.cell bits s c` / `Spec.atEnd bits s` — what the grammar says;
* `Spec.devsOf` / `Spec.deviations` — the cells on which the CODE departs from that, state by state, each with the
  code's behaviour, a representative and a one-line judgement (HARMLESS / KNOWN finding / CANDIDATE defect);
* `Spec.cellD` / `Spec.atEndD` — `cell` / `atEnd` overridden on exactly those cells.

`bits = 4·IGNORE_SPACE + 2·IGNORE_LINEBREAK + IGNORE_COMMENT` as in `Gen.CfgN`.

Characters are Unicode code points (`Nat`); the end of the text is the pseudo code `Spec.endCode = 0x110000`.

What the state space cannot express (so no cell can be said to deviate, listed in `Spec.notExpressible`): a decimal
literal that begins with the point (`.5`), an exponent (`1e5`), the requirement of at least one digit after
`0x` / `0b` / `1.`, and the kind of the open bracket (`(a]`: the bracket stack lives in the micro-code).
-/
namespace Spec
open Lex

abbrev Op := OpRef Gen.Cls

/-! ## The operation vocabulary (what one step may do with the window of pending characters) -/

/-- take the character into the window and continue in state `s` -/
def addTo (s : S) : Op := ⟨.cAddCache, s, 0⟩
/-- take the character, emit the window as one token with `marks`, stay where we are (only used in WAIT) -/
def emitStay (marks : Nat) : Op := ⟨.cAddAndHandleCache, .WAIT, marks⟩
/-- take the character, emit the window as one token with `marks`, wait for the next token -/
def emitWith (marks : Nat) : Op := ⟨.cAddAndHandleCacheToWait, .WAIT, marks⟩
/-- the character does NOT belong to the token: emit the window with `marks`, read the character again in WAIT -/
def emitBefore (marks : Nat) : Op := ⟨.cHandleCacheToWait, .WAIT, marks⟩
/-- as `emitBefore`, the marks being looked up in the keyword table (`HANDLE_WORD_TO_MARK_HASH`, default NAME) -/
def emitWordBefore : Op := ⟨.cHandleCacheWordToWait, .WAIT, 0⟩
/-- end of text: emit the window with `marks` and finish -/
def emitAtEnd (marks : Nat) : Op := ⟨.cHandleCacheToEnd, .WAIT, marks⟩
/-- end of text: emit the window as a word and finish -/
def emitWordAtEnd : Op := ⟨.cHandleCacheWordToEnd, .WAIT, 0⟩
/-- take the character and forget the window (ignored blank) -/
def skip : Op := ⟨.cMoveAndCleanCache, .WAIT, 0⟩
/-- take the character, forget the window, wait for the next token (end of an ignored block comment) -/
def skipWith : Op := ⟨.cMoveAndCleanCacheToWait, .WAIT, 0⟩
/-- forget the window, read the character again in WAIT (end of an ignored line comment) -/
def dropBefore : Op := ⟨.cCleanCacheToWait, .WAIT, 0⟩
/-- end of text inside an ignored line comment -/
def dropAtEnd : Op := ⟨.cCleanCacheToEnd, .WAIT, 0⟩
/-- end of text between tokens -/
def finish : Op := ⟨.cSetStatus, .WAIT, 0⟩
/-- the text is not in the token language -/
def reject : Op := ⟨.cRaise, .WAIT, 0⟩
def openParen : Op := ⟨.cStartParenthesis, .WAIT, 0⟩
def closeParen : Op := ⟨.cEndParenthesis, .WAIT, 0⟩
def openSlice : Op := ⟨.cStartSlice, .WAIT, 0⟩
def closeSlice : Op := ⟨.cEndSlice, .WAIT, 0⟩

/-! ## Token class marks (`AMTMark`) -/
def mNone : Nat := Gen.mark_NONE
def mSpace : Nat := Gen.mark_SPACE
def mName : Nat := Gen.mark_NAME
def mString : Nat := Gen.mark_LITERAL
def mInt : Nat := Gen.mark_LITERAL ||| Gen.mark_LITERAL_INT
def mFloat : Nat := Gen.mark_LITERAL ||| Gen.mark_LITERAL_FLOAT
def mHex : Nat := Gen.mark_LITERAL ||| Gen.mark_LITERAL_HEX
def mBit : Nat := Gen.mark_LITERAL ||| Gen.mark_LITERAL_BIT
def mComment : Nat := Gen.mark_COMMENT

/-! ## Option settings -/
def ignoreSpace (bits : Nat) : Bool := bits / 4 % 2 == 1
def ignoreLinebreak (bits : Nat) : Bool := bits / 2 % 2 == 1
def ignoreComment (bits : Nat) : Bool := bits % 2 == 1

/-! ## Character classes

Character codes are compared with the kernel-accelerated `Nat.beq` / `Nat.ble` (the proofs evaluate the specification
on every cell of every table inside the kernel). -/

/-- the code `c` is the character `ch` -/
def isCh (c : Nat) (ch : Char) : Bool := Nat.beq c ch.toNat
@[inherit_doc] infix:50 " =ᶜ " => isCh
def oneOf (cs : List Char) (c : Nat) : Bool := cs.any (isCh c)
def between (lo hi : Char) (c : Nat) : Bool := Nat.ble lo.toNat c && Nat.ble c hi.toNat

def isBlank (c : Nat) : Bool := c =ᶜ ' ' || c =ᶜ '\n'
def isDigit (c : Nat) : Bool := between '0' '9' c
def isBit (c : Nat) : Bool := c =ᶜ '0' || c =ᶜ '1'
def isHexDigit (c : Nat) : Bool := isDigit c || between 'A' 'F' c || between 'a' 'f' c
def isBracket (c : Nat) : Bool := oneOf ['(', ')', '[', ']'] c
def isQuote (c : Nat) : Bool := oneOf ['"', '\'', '`'] c
/-- every character that is, or begins, an operator or a punctuation token -/
def isOpChar (c : Nat) : Bool := oneOf ['!', '&', '-', '/', '<', '>', '|', '~', '*', '^', ',', ';', '=', '+', '.', '%'] c
/-- the characters that cannot be part of a bare word or number: whatever begins another kind of token or a gap
(blank, bracket, quote, operator / punctuation, `#` comment) -/
def isWordEnd (c : Nat) : Bool := isBlank c || isBracket c || isQuote c || isOpChar c || c =ᶜ '#'
def isBitPrefix (c : Nat) : Bool := c =ᶜ 'b' || c =ᶜ 'B'
def isHexPrefix (c : Nat) : Bool := c =ᶜ 'x' || c =ᶜ 'X'

/-- The grammar only distinguishes the line break and the printable ASCII characters; every other character (control
characters, everything non-ASCII) is an ordinary word character, and all of them are treated alike. -/
def ascii : List Nat := 10 :: List.range' 32 95
def isAscii (c : Nat) : Bool := Nat.beq c 10 || (Nat.ble 32 c && Nat.ble c 126)
/-- the representative of "every other character" -/
def other : Nat := 128
def norm (c : Nat) : Nat := if isAscii c then c else other
/-- pseudo character code of the end of the text (one past the last code point) -/
def endCode : Nat := 0x110000

/-! ## The rules, one function per state family (argument: a normalised character code) -/

/-- WAIT — between tokens.
"… with comments (#, --, /* */) and whitespace removed": a blank is skipped when the option says so, else it is a
SPACE token of its own; brackets open / close a group; a quote character opens a string or a back-quoted name; `#`
opens a line comment; `! & - / < > |` may begin a multi-character operator (or `--`, `/*`) so the decision is
deferred; every other operator character is "single-character punctuation"; `0` may begin `0x…` / `0b…`; another digit
begins an integer; `b`/`B`, `x`/`X` may begin `b'01'` / `x'1F'`; anything else begins a word. -/
def wait (bits c : Nat) : Op :=
  if c =ᶜ ' ' then (if ignoreSpace bits then skip else emitStay mSpace)
  else if c =ᶜ '\n' then (if ignoreLinebreak bits then skip else emitStay mSpace)
  else if c =ᶜ '(' then openParen
  else if c =ᶜ ')' then closeParen
  else if c =ᶜ '[' then openSlice
  else if c =ᶜ ']' then closeSlice
  else if c =ᶜ '"' then addTo .IN_DOUBLE_QUOTE
  else if c =ᶜ '\'' then addTo .IN_SINGLE_QUOTE
  else if c =ᶜ '`' then addTo .IN_BACK_QUOTE
  else if c =ᶜ '#' then addTo .IN_EXPLAIN_1
  else if c =ᶜ '!' then addTo .AFTER_21
  else if c =ᶜ '&' then addTo .AFTER_26
  else if c =ᶜ '-' then addTo .AFTER_2D
  else if c =ᶜ '/' then addTo .AFTER_2F
  else if c =ᶜ '<' then addTo .AFTER_3C
  else if c =ᶜ '>' then addTo .AFTER_3E
  else if c =ᶜ '|' then addTo .AFTER_7C
  else if isOpChar c then emitStay mNone
  else if c =ᶜ '0' then addTo .AFTER_0
  else if isDigit c then addTo .IN_INT
  else if isBitPrefix c then addTo .AFTER_B
  else if isHexPrefix c then addTo .AFTER_X
  else addTo .IN_WORD

/-- After the first character of an operator — "the multi-character operators (<=>, <=, >=, <>, !=, <<, >>, &&, ||)
and single-character punctuation", maximal munch: `longer` lists the characters that make a longer operator (or a
comment opener) together with what they do; any other character leaves the shorter operator as a token of its own and
is read again. -/
def afterOp (longer : List (Char × Op)) (c : Nat) : Op :=
  match longer.find? (fun e => c =ᶜ e.1) with
  | some e => e.2
  | none => emitBefore mNone

/-- "integer … literals": digits continue; a point makes it a decimal literal; anything else ends the integer (the
character is read again) -/
def inInt (c : Nat) : Op :=
  if isDigit c then addTo .IN_INT
  else if c =ᶜ '.' then addTo .IN_FLOAT
  else emitBefore mInt

/-- after a leading `0`: "hex / bit literals in all spellings" — `0x1F`, `0b01`; otherwise as in an integer -/
def afterZero (c : Nat) : Op :=
  if c =ᶜ 'x' then addTo .IN_HEX_LITERAL_AFTER_0X
  else if c =ᶜ 'b' then addTo .IN_BIT_LITERAL_AFTER_0B
  else inInt c

/-- "decimal literals": digits continue, anything else ends the literal -/
def inFloat (c : Nat) : Op := if isDigit c then addTo .IN_FLOAT else emitBefore mFloat
/-- `0x1F`: hex digits continue, anything else ends the literal -/
def inHex0x (c : Nat) : Op := if isHexDigit c then addTo .IN_HEX_LITERAL_AFTER_0X else emitBefore mHex
/-- `0b01`: binary digits continue, anything else ends the literal -/
def inBit0b (c : Nat) : Op := if isBit c then addTo .IN_BIT_LITERAL_AFTER_0B else emitBefore mBit

/-- after `b`/`B` (resp. `x`/`X`): a quote opens `b'01'` / `b"01"` (resp. `x'1F'` / `X"1F"`); a character that ends a
word leaves the one-letter NAME; anything else continues a word -/
def afterPrefix (dq sq : S) (c : Nat) : Op :=
  if c =ᶜ '"' then addTo dq
  else if c =ᶜ '\'' then addTo sq
  else if isWordEnd c then emitBefore mName
  else addTo .IN_WORD

/-- inside `x'…'` / `b'…'`: the closing quote completes the literal, a digit of the base continues it, everything
else is malformed ("unterminated strings … are rejected") -/
def inQuotedNum (self : S) (q : Char) (digit : Nat → Bool) (marks : Nat) (c : Nat) : Op :=
  if c =ᶜ q then emitWith marks
  else if digit c then addTo self
  else reject

/-- "quoted strings with doubled-quote and backslash escapes": inside the string the quote character may end it (or
be the first half of a doubled quote: decided by the next character), a backslash takes the next character with it,
anything else is carried verbatim -/
def inString (self afterQuote afterBackslash : S) (q : Char) (c : Nat) : Op :=
  if c =ᶜ q then addTo afterQuote
  else if c =ᶜ '\\' then addTo afterBackslash
  else addTo self

/-- after a quote inside a string: a second quote is the doubled-quote escape, anything else means the string was
complete — a LITERAL token — and is read again -/
def afterQuote (inside : S) (q : Char) (c : Nat) : Op :=
  if c =ᶜ q then addTo inside else emitBefore mString

/-- "back-quoted names": everything up to the next back-quote, a NAME -/
def inBackQuote (c : Nat) : Op := if c =ᶜ '`' then emitWith mName else addTo .IN_BACK_QUOTE

/-- `#` / `--` comment: runs to the line break, which is not part of it; "comments … removed" when the option says so,
else one COMMENT token -/
def inLineComment (bits c : Nat) : Op :=
  if c =ᶜ '\n' then (if ignoreComment bits then dropBefore else emitBefore mComment) else addTo .IN_EXPLAIN_1

/-- `/* … */` comment body: a star may begin the terminator -/
def inBlockComment (c : Nat) : Op := if c =ᶜ '*' then addTo .IN_EXPLAIN_2_AFTER_2A else addTo .IN_EXPLAIN_2

/-- `/* … *` : `/` terminates the comment (removed or one COMMENT token); a further `*` may still begin the terminator
(`/***/`, `/* a **/`); anything else is comment body again -/
def inBlockCommentStar (bits c : Nat) : Op :=
  if c =ᶜ '/' then (if ignoreComment bits then skipWith else emitWith mComment)
  else if c =ᶜ '*' then addTo .IN_EXPLAIN_2_AFTER_2A
  else addTo .IN_EXPLAIN_2

/-- "words": a word ends exactly at the first character that cannot be part of a word; the marks come from the keyword
table (TRUE / FALSE / NULL in any letter case are literals), NAME otherwise -/
def inWord (c : Nat) : Op := if isWordEnd c then emitWordBefore else addTo .IN_WORD

/-- the rule of each state (`none`: the state is not part of the token grammar and has no transitions) -/
def rule (bits : Nat) : S → Nat → Option Op
  | .WAIT, c => some (wait bits c)
  | .AFTER_21, c => some (afterOp [('=', emitWith mNone)] c)                               -- `!=`
  | .AFTER_26, c => some (afterOp [('&', emitWith mNone)] c)                               -- `&&`
  | .AFTER_2D, c => some (afterOp [('-', addTo .IN_EXPLAIN_1)] c)                          -- `--` comment
  | .AFTER_2F, c => some (afterOp [('*', addTo .IN_EXPLAIN_2)] c)                          -- `/*` comment
  | .AFTER_3C, c => some (afterOp [('=', addTo .AFTER_3C_3D), ('>', emitWith mNone),   -- `<=`…, `<>`,
                                   ('<', emitWith mNone)] c)                               -- `<<`
  | .AFTER_3C_3D, c => some (afterOp [('>', emitWith mNone)] c)                            -- `<=>`
  | .AFTER_3E, c => some (afterOp [('=', emitWith mNone), ('>', emitWith mNone)] c)  -- `>=`, `>>`
  | .AFTER_7C, c => some (afterOp [('|', emitWith mNone)] c)                               -- `||`
  | .AFTER_0, c => some (afterZero c)
  | .AFTER_B, c => some (afterPrefix .IN_BIT_LITERAL_OF_DOUBLE_QUOTE .IN_BIT_LITERAL_OF_SINGLE_QUOTE c)
  | .AFTER_X, c => some (afterPrefix .IN_HEX_LITERAL_OF_DOUBLE_QUOTE .IN_HEX_LITERAL_OF_SINGLE_QUOTE c)
  | .IN_HEX_LITERAL_OF_DOUBLE_QUOTE, c => some (inQuotedNum .IN_HEX_LITERAL_OF_DOUBLE_QUOTE '"' isHexDigit mHex c)
  | .IN_HEX_LITERAL_OF_SINGLE_QUOTE, c => some (inQuotedNum .IN_HEX_LITERAL_OF_SINGLE_QUOTE '\'' isHexDigit mHex c)
  | .IN_HEX_LITERAL_AFTER_0X, c => some (inHex0x c)
  | .IN_BIT_LITERAL_OF_DOUBLE_QUOTE, c => some (inQuotedNum .IN_BIT_LITERAL_OF_DOUBLE_QUOTE '"' isBit mBit c)
  | .IN_BIT_LITERAL_OF_SINGLE_QUOTE, c => some (inQuotedNum .IN_BIT_LITERAL_OF_SINGLE_QUOTE '\'' isBit mBit c)
  | .IN_BIT_LITERAL_AFTER_0B, c => some (inBit0b c)
  | .IN_INT, c => some (inInt c)
  | .IN_FLOAT, c => some (inFloat c)
  | .IN_DOUBLE_QUOTE, c => some (inString .IN_DOUBLE_QUOTE .IN_DOUBLE_QUOTE_AFTER_22 .IN_DOUBLE_QUOTE_AFTER_5C '"' c)
  | .IN_DOUBLE_QUOTE_AFTER_22, c => some (afterQuote .IN_DOUBLE_QUOTE '"' c)
  | .IN_DOUBLE_QUOTE_AFTER_5C, _ => some (addTo .IN_DOUBLE_QUOTE)      -- the escaped character, whatever it is
  | .IN_SINGLE_QUOTE, c => some (inString .IN_SINGLE_QUOTE .IN_SINGLE_QUOTE_AFTER_27 .IN_SINGLE_QUOTE_AFTER_5C '\'' c)
  | .IN_SINGLE_QUOTE_AFTER_27, c => some (afterQuote .IN_SINGLE_QUOTE '\'' c)
  | .IN_SINGLE_QUOTE_AFTER_5C, _ => some (addTo .IN_SINGLE_QUOTE)
  | .IN_BACK_QUOTE, c => some (inBackQuote c)
  | .IN_EXPLAIN_1, c => some (inLineComment bits c)
  | .IN_EXPLAIN_2, c => some (inBlockComment c)
  | .IN_EXPLAIN_2_AFTER_2A, c => some (inBlockCommentStar bits c)
  | .IN_WORD, c => some (inWord c)
  | _, _ => none

/-- What the grammar says in state `s` on the character with code `c`. -/
def cell (bits : Nat) (s : S) (c : Nat) : Option Op := rule bits s (norm c)

/-- What the grammar says when the text ends in state `s`: between tokens we are done; a pending operator, number,
word or line comment is complete and becomes (or, for an ignored comment, does not become) the last token; a string
whose closing quote has just been read is complete; "unterminated strings, names, comments … are rejected". -/
def atEnd (bits : Nat) : S → Option Op
  | .WAIT => some finish
  | .AFTER_21 | .AFTER_26 | .AFTER_2D | .AFTER_2F | .AFTER_3C | .AFTER_3C_3D | .AFTER_3E | .AFTER_7C =>
    some (emitAtEnd mNone)
  | .AFTER_0 | .IN_INT => some (emitAtEnd mInt)
  | .IN_FLOAT => some (emitAtEnd mFloat)
  | .IN_HEX_LITERAL_AFTER_0X => some (emitAtEnd mHex)
  | .IN_BIT_LITERAL_AFTER_0B => some (emitAtEnd mBit)
  | .AFTER_B | .AFTER_X => some (emitAtEnd mName)
  | .IN_WORD => some emitWordAtEnd
  | .IN_DOUBLE_QUOTE_AFTER_22 | .IN_SINGLE_QUOTE_AFTER_27 => some (emitAtEnd mString)
  | .IN_EXPLAIN_1 => some (if ignoreComment bits then dropAtEnd else emitAtEnd mComment)
  | .IN_HEX_LITERAL_OF_DOUBLE_QUOTE | .IN_HEX_LITERAL_OF_SINGLE_QUOTE
  | .IN_BIT_LITERAL_OF_DOUBLE_QUOTE | .IN_BIT_LITERAL_OF_SINGLE_QUOTE
  | .IN_DOUBLE_QUOTE | .IN_DOUBLE_QUOTE_AFTER_5C | .IN_SINGLE_QUOTE | .IN_SINGLE_QUOTE_AFTER_5C
  | .IN_BACK_QUOTE | .IN_EXPLAIN_2 | .IN_EXPLAIN_2_AFTER_2A => some reject
  | _ => none

/-! ## Where the code departs from the grammar -/

/-- One family of deviating cells of one state: the (normalised) character codes selected by `sel` (`endCode` = end of
text), a representative, what the CODE does there, and a one-line judgement. -/
structure Dev where
  sel : Nat → Bool
  rep : Nat
  op : Option Op
  why : String

def one (ch : Char) : Nat → Bool := fun c => c =ᶜ ch
def atEndOnly : Nat → Bool := fun c => Nat.beq c endCode
def notEnd (c : Nat) : Bool := !Nat.beq c endCode
/-- a character that can be part of a word (letters, `_`, `$`, `@`, `?`, `:`, `\`, `{`, `}`, digits, everything
non-ASCII) -/
def isWordChar (c : Nat) : Bool := !isWordEnd c && notEnd c
/-- a number directly followed by a word character (`stillNumber` = the characters that continue the literal) -/
def wordCharAfter (stillNumber : Nat → Bool) : Nat → Bool := fun c => isWordChar c && !stillNumber c

/-- `#` opens a comment only between tokens: inside a word or number the code does not stop at it -/
def hashDev (op : Op) (why : String) : Dev := ⟨one '#', '#'.toNat, some op, why⟩

/-- The deviating cells of each state.  HARMLESS = within the property's own words; KNOWN = a departure already
recorded as a finding of the code (kept, not repaired); CANDIDATE = looks like a defect of the code. -/
def devsOf : S → List Dev
  -- strings are LITERAL tokens; the code marks them LITERAL|NAME
  | .IN_DOUBLE_QUOTE_AFTER_22 =>
    [ ⟨fun c => !(c =ᶜ '"') && notEnd c, ' '.toNat, some (emitBefore (mString ||| mName)),
        "HARMLESS a double-quoted string carries NAME besides LITERAL (it may serve as an alias / ANSI identifier): \"a\" b"⟩,
      ⟨atEndOnly, endCode, some (emitAtEnd (mString ||| mName)), "HARMLESS as above at the end of the text: \"a\""⟩ ]
  | .IN_SINGLE_QUOTE_AFTER_27 =>
    [ ⟨fun c => !(c =ᶜ '\'') && notEnd c, ' '.toNat, some (emitBefore (mString ||| mName)),
        "HARMLESS a single-quoted string carries NAME besides LITERAL (MySQL accepts it as an alias): 'a' b"⟩,
      ⟨atEndOnly, endCode, some (emitAtEnd (mString ||| mName)), "HARMLESS as above at the end of the text: 'a'"⟩ ]
  -- the one-letter words b / x before a point; `#`
  | .AFTER_B =>
    [ ⟨one '.', '.'.toNat, some emitWordBefore,
        "HARMLESS `b.c`: the one-letter word is looked up in the keyword table instead of being marked NAME directly; B is no keyword, same token"⟩,
      hashDev (addTo .IN_WORD) "KNOWN `b#c` is one word: # does not end a word" ]
  | .AFTER_X =>
    [ ⟨one '.', '.'.toNat, some emitWordBefore, "HARMLESS `x.c`: as for `b.c`"⟩,
      hashDev (addTo .IN_WORD) "KNOWN `x#c` is one word: # does not end a word" ]
  | .IN_WORD => [ hashDev (addTo .IN_WORD) "KNOWN `a#b` is one word: # does not end a word" ]
  -- a word character directly after a number: the grammar (maximal munch, no separator required) splits there
  | .IN_INT =>
    [ hashDev (addTo .IN_WORD) "KNOWN `1#c` is one NAME word: # does not end a number",
      ⟨wordCharAfter isDigit, 'a'.toNat, some (addTo .IN_WORD),
        "HARMLESS `1abc` is one NAME word (MySQL identifiers may begin with digits); KNOWN consequence: `1e5` is a NAME word, there is no exponent spelling"⟩ ]
  | .AFTER_0 =>
    [ hashDev (addTo .IN_WORD) "KNOWN `0#c` is one NAME word: # does not end a number",
      ⟨wordCharAfter (fun c => isDigit c || c =ᶜ 'x' || c =ᶜ 'b'), 'a'.toNat, some (addTo .IN_WORD),
        "HARMLESS `0abc` is one NAME word, as for `1abc`"⟩ ]
  | .IN_FLOAT =>
    [ hashDev reject "KNOWN `1.5#c` is rejected: # does not end a number",
      ⟨wordCharAfter isDigit, 'a'.toNat, some reject,
        "HARMLESS `1.5a` is rejected rather than split (fails closed); KNOWN consequence: `1.5e3` is rejected, there is no exponent spelling"⟩,
      ⟨one '.', '.'.toNat, some reject, "HARMLESS `1.2.3` is rejected rather than split into `1.2` `.` `3` (fails closed)"⟩ ]
  | .IN_HEX_LITERAL_AFTER_0X =>
    [ hashDev reject "KNOWN `0x1F#c` is rejected: # does not end a number",
      ⟨wordCharAfter isHexDigit, 'g'.toNat, some reject, "HARMLESS `0x1Fg` is rejected rather than split (fails closed)"⟩,
      ⟨one '.', '.'.toNat, some reject,
        "CANDIDATE `0x1F.a` is rejected: a point does not end a 0x literal (it ends a word and an integer)"⟩ ]
  | .IN_BIT_LITERAL_AFTER_0B =>
    [ hashDev reject "KNOWN `0b01#c` is rejected: # does not end a number",
      ⟨wordCharAfter isBit, '2'.toNat, some reject, "HARMLESS `0b012` / `0b01a` is rejected rather than split (fails closed)"⟩,
      ⟨one '.', '.'.toNat, some reject, "CANDIDATE `0b01.a` is rejected: a point does not end a 0b literal"⟩ ]
  | _ => []

/-- the deviating cells as (state, character code or class representative — `endCode` for the end of the text —,
description) -/
def deviations : List (S × Nat × String) := allS.flatMap fun s => (devsOf s).map fun d => (s, d.rep, d.why)

def devAt (s : S) (c : Nat) : Option Dev := (devsOf s).find? fun d => d.sel c

/-- `cell` overridden by the code's behaviour on exactly the deviating cells -/
def cellD (bits : Nat) (s : S) (c : Nat) : Option Op :=
  match devAt s (norm c) with
  | some d => d.op
  | none => cell bits s c

/-- `atEnd` overridden by the code's behaviour on exactly the deviating end-of-text cells -/
def atEndD (bits : Nat) (s : S) : Option Op :=
  match devAt s endCode with
  | some d => d.op
  | none => atEnd bits s

/-- every listed deviation is a real one: its representative is selected, and there the code's behaviour differs from
the grammar's (checked by `C05.deviations_real`) -/
def devsReal : Bool :=
  allS.all fun s => (devsOf s).all fun d =>
    d.sel d.rep && (devAt s d.rep).map (·.why) == some d.why &&
    (if d.rep == endCode then atEnd 7 s != d.op else norm d.rep == d.rep && cell 7 s d.rep != d.op)

/-- Departures of the code from the grammar that are NOT cells of the automaton (the state space has no place for
them): (input, what happens, what the grammar suggests). -/
def notExpressible : List (String × String × String) :=
  [ (".5", "two tokens `.` and `5`", "KNOWN one decimal literal (there is no state 'after a leading point')"),
    ("1e5", "one NAME word (see the cells IN_INT × word character)", "KNOWN one decimal literal (there is no exponent state)"),
    ("1.5e3", "rejected (see the cells IN_FLOAT × word character)", "KNOWN one decimal literal"),
    ("1.", "one LITERAL_FLOAT token `1.`", "HARMLESS MySQL reads `1.` as a decimal literal"),
    ("0x", "one LITERAL_HEX token `0x`", "KNOWN at least one hex digit (IN_HEX_LITERAL_AFTER_0X does not know whether a digit was read)"),
    ("0b", "one LITERAL_BIT token `0b`", "KNOWN at least one binary digit"),
    ("x'1'", "one LITERAL_HEX token", "HARMLESS MySQL wants an even number of hex digits; the property does not say so"),
    ("(a]", "accepted, one group of the closing bracket's kind", "KNOWN rejected: the bracket stack lives in the micro-code, not in the cells (F-C04-1)") ]

/-! ## The specification as a lexer: same micro-code, same driver, cells from `cellD` -/

def lookupD (bits : Nat) (s : S) : Sym → Option Op
  | .eof => atEndD bits s
  | .ch c => cellD bits s c.toNat

/-- `Lex.handle` with the table replaced by the specification automaton -/
def handle (cfg : Cfg Gen.Cls) (bits : Nat) (text : List Char) (m : Mem) (sym : Sym) : Except Err (Mem × Bool) :=
  match lookupD bits m.status sym with
  | none => .error (.py .KeyError)
  | some o => exec (cfg.env text) o.status o.marks sym (cfg.code o.cls) {} m

/-- `Lex.lex` with the table replaced by the specification automaton -/
def lex (cfg : Cfg Gen.Cls) (bits : Nat) (raw : List Char) : Except Err (List Tok) := lexWith cfg (handle cfg bits) raw

/-! ## Comparison with a generated table (executable; used by the driver command `SPECDIFF` and by the proofs) -/

/-- the table's answer for a character code (`Cfg.lookup` on codes) -/
def lookupN (cfg : Cfg Gen.Cls) (s : S) (c : Nat) : Option Op :=
  match (cfg.rows s).find? (fun e => Nat.beq e.1 c) with
  | some e => some e.2
  | none => cfg.dflt s

/-- the finite set of character codes on which row `s` of the table and the specification are compared one by one:
the codes the grammar distinguishes and every further key of that row (today there is none) -/
def probe (cfg : Cfg Gen.Cls) (s : S) : List Nat :=
  ascii ++ ((cfg.rows s).map (·.1)).filter (fun k => !isAscii k)

/-- the finite part of the agreement: all probe codes of every row, the default rows (compared with the
specification's answer for "every other character"), the end-of-text rows -/
def agreeFin (cfg : Cfg Gen.Cls) (bits : Nat) : Bool :=
  allS.all fun s =>
    ((probe cfg s).all fun c => lookupN cfg s c == cellD bits s c) &&
    cfg.dflt s == cellD bits s other && cfg.atEnd s == atEndD bits s

/-- the cells on which table and specification disagree: (state, code — `other` stands for the default row, `endCode`
for the end of the text —, table's answer, specification's answer) -/
def diffCells (cfg : Cfg Gen.Cls) (bits : Nat) : List (S × Nat × Option Op × Option Op) :=
  allS.flatMap fun s =>
    ((probe cfg s).filterMap fun c =>
      if lookupN cfg s c == cellD bits s c then none else some (s, c, lookupN cfg s c, cellD bits s c)) ++
    (if cfg.dflt s == cellD bits s other then [] else [(s, other, cfg.dflt s, cellD bits s other)]) ++
    (if cfg.atEnd s == atEndD bits s then [] else [(s, endCode, cfg.atEnd s, atEndD bits s)])

end Spec
