import MsqModel.Lex.Core
/-!
# Normal forms of operation bodies

`summarize` parses a micro-instruction list into a `Summary`; `execS` is the semantics of a summary,
written independently of `exec`.  `exec_summarize` (MsqProofs) shows they agree, so table obligations
can be stated over summaries and do not depend on class names or statement order inside a normal form.
-/
namespace Lex

inductive Body where
  | keep                      -- window untouched
  | drop                      -- setStartNow
  | emit (m : Marks)          -- sliceWindow; setStartNow; emitSingle m
  deriving DecidableEq, Repr

inductive Grp where
  | none | push | pop (k : GK) (m : Marks)
  deriving DecidableEq, Repr

inductive St where | same | to (s : S) | self deriving DecidableEq, Repr

structure Summary where
  depthGuard : Option Nat
  endGuard : Bool
  raises : Bool
  adv : Bool
  body : Body
  grp : Grp
  st : St
  ret : Bool
  deriving DecidableEq, Repr

def parseRet : List Instr → Option (St × Bool)
  | [.ret b] => some (.same, b)
  | [.setStatus s, .ret b] => some (.to s, b)
  | [.setStatusSelf, .ret b] => some (.self, b)
  | _ => none

def mkSummary (dg : Option Nat) (adv : Bool) (body : Body) (grp : Grp) (x : St × Bool) : Summary :=
  ⟨dg, false, false, adv, body, grp, x.1, x.2⟩

def parseTail (adv : Bool) (dg : Option Nat) : List Instr → Option Summary
  | .sliceWindow :: .setStartNow :: .emitSingle m :: is => (parseRet is).map (mkSummary dg adv (.emit m) .none)
  | .setStartNow :: .pushStack :: is => (parseRet is).map (mkSummary dg adv .drop .push)
  | .setStartNow :: .popStack :: .emitGroup k m :: is => (parseRet is).map (mkSummary dg adv .drop (.pop k m))
  | .setStartNow :: is => (parseRet is).map (mkSummary dg adv .drop .none)
  | is => (parseRet is).map (mkSummary dg adv .keep .none)

def parseAdv (dg : Option Nat) : List Instr → Option Summary
  | .incNow :: is => parseTail true dg is
  | is => parseTail false dg is

def summarize : List Instr → Option Summary
  | .raiseIfDepthLE k :: is => parseAdv (some k) is
  | [.raiseIfEnd, .raise] => some ⟨none, true, true, false, .keep, .none, .same, false⟩
  | [.raise] => some ⟨none, false, true, false, .keep, .none, .same, false⟩
  | is => parseAdv none is

def St.resolve (st : St) (selfStatus cur : S) : S :=
  match st with | .same => cur | .to t => t | .self => selfStatus

/-- semantics of the non-guard part of a summary -/
def execCore (env : Env) (ss : S) (sm : Nat) (adv : Bool) (body : Body) (grp : Grp) (st : St) (ret : Bool) (m : Mem) :
    Except Err (Mem × Bool) :=
  let now := if adv then m.now + 1 else m.now
  let status := st.resolve ss m.status
  let r1 : Except Err (Nat × List (List Tok)) :=
    match body with
    | .keep => .ok (m.start, m.stack)
    | .drop => .ok (now, m.stack)
    | .emit mk =>
      let src := (env.text.drop m.start).take (now - m.start)
      match appendTop (.single src (resolveMarks env.upper env.wordMarks sm src mk)) m.stack with
      | none => .error (.py .IndexError)
      | some stk => .ok (now, stk)
  match r1 with
  | .error e => .error e
  | .ok (start, stk) =>
    match grp with
    | .none => .ok ({ start := start, now := now, status := status, stack := stk }, ret)
    | .push => .ok ({ start := start, now := now, status := status, stack := [] :: stk }, ret)
    | .pop k mk =>
      match stk with
      | [] => .error (.py .IndexError)
      | f :: fs =>
        match appendTop (.group k f (resolveMarks env.upper env.wordMarks sm [] mk)) fs with
        | none => .error (.py .IndexError)
        | some stk' => .ok ({ start := start, now := now, status := status, stack := stk' }, ret)

def Summary.blocked (s : Summary) (m : Mem) : Bool :=
  match s.depthGuard with | some k => decide (m.stack.length ≤ k) | none => false

def execS (env : Env) (ss : S) (sm : Nat) (s : Summary) (m : Mem) : Except Err (Mem × Bool) :=
  if s.blocked m then .error .lexical
  else if s.raises then .error .lexical
  else execCore env ss sm s.adv s.body s.grp s.st s.ret m

end Lex
