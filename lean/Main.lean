import MsqModel
import MsqModel.Driver.Codec
import MsqModel.Driver.ShowVal
import MsqModel.Parse.Entry
import MsqModel.Print
import MsqModel.Driver.Ext
open Lex Drv

def cfgOfIdx : Nat → Cfg Gen.Cls
  | 0 => Gen.Cfg0.cfg | 1 => Gen.Cfg1.cfg | 2 => Gen.Cfg2.cfg | 3 => Gen.Cfg3.cfg
  | 4 => Gen.Cfg4.cfg | 5 => Gen.Cfg5.cfg | 6 => Gen.Cfg6.cfg | _ => Gen.Cfg7.cfg

def certOfIdx : Nat → List S × (S → WK)
  | 0 => (Gen.Cfg0.advSt, Gen.Cfg0.wk) | 1 => (Gen.Cfg1.advSt, Gen.Cfg1.wk) | 2 => (Gen.Cfg2.advSt, Gen.Cfg2.wk)
  | 3 => (Gen.Cfg3.advSt, Gen.Cfg3.wk) | 4 => (Gen.Cfg4.advSt, Gen.Cfg4.wk) | 5 => (Gen.Cfg5.advSt, Gen.Cfg5.wk)
  | 6 => (Gen.Cfg6.advSt, Gen.Cfg6.wk) | _ => (Gen.Cfg7.advSt, Gen.Cfg7.wk)

def respond (line : String) : String :=
  match line.splitOn " " with
  | ["L", i, h] => showLex (lex (cfgOfIdx i.toNat!) (unhex h))
  | ["LM", h] => showLex (Gen.mybatis.lex (unhex h))
  | ["P", entry, dn, h] =>
    (match Gen.D.ofName? dn with
     | none => "BADREQ dialect"
     | some d => match PM.parseText2 entry d (unhex h) with
       | .ok (v, rest) => s!"OK {rest} {showVal v}"
       | .error e => e.show)
  | ["PR", pdn, sdn, h] =>
    (match Gen.D.ofName? pdn, Gen.D.ofName? sdn with
     | some pd, some sd => match PM.parseStatementsText pd (unhex h) with
       | .ok ss => "OK " ++ " ".intercalate (ss.map fun s => match PR.prStmt sd s with | .ok x => "S:" ++ qs x | .error e => "E:" ++ e.show.replace " " "_")
       | .error e => e.show
     | _, _ => "BADREQ dialect")
  | ["BADCELLS", i] =>
    let c := certOfIdx i.toNat!
    let bad := badCells (cfgOfIdx i.toNat!) c.1 c.2
    "CELLS " ++ " ".intercalate (bad.map fun (s, c) => s!"{s.name}:{match c with | some n => toString n | none => "default"}")
  | parts => Drv.dispatchExt parts

partial def loop (h : IO.FS.Stream) (out : IO.FS.Stream) : IO Unit := do
  let line ← h.getLine
  if line.isEmpty then return ()
  out.putStrLn (respond line.trimAscii.toString)
  out.flush
  loop h out

def main : IO Unit := do
  let out ← IO.getStdout
  loop (← IO.getStdin) out
  out.flush
