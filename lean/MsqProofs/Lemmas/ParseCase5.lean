import MsqProofs.Lemmas.ParseCaseDefs
/-!
# C09, parser half — hand-written part 7: the facts the generated fuel steps of a few block functions need in addition
(`pFunc`: a related PAIR of (schema, name) has related components; `pSingleParen`: `close()` on the stack of opened cursors)
-/
set_option linter.unusedSimpArgs false
set_option linter.unusedVariables false
open Lex Ast
namespace PM

/-- a related pair has related components -/
theorem ceq_prod_mk {α β γ δ : Type} (f : α → γ) (g : β → δ) (a c : α) (b e : β) (h : ceq (Prod.map f g) (a, b) (c, e)) :
    f a = f c ∧ g b = g e := by
  simpa [ceq, Prod.map] using h
grind_pattern ceq_prod_mk => ceq (Prod.map f g) (a, b) (c, e)

theorem optmap_up_isNone (a b : Option String) (h : Option.map up a = Option.map up b) : a.isNone = b.isNone := by
  cases a <;> cases b <;> simp_all
grind_pattern optmap_up_isNone => Option.map up a, Option.map up b, a.isNone

theorem cell_drop {a b : List (List Tok)} (h : CELL a b) (n : Nat) : CELL (a.drop n) (b.drop n) := by
  induction n generalizing a b with
  | zero => simpa using h
  | succ n ih => cases a <;> cases b <;> simp_all
theorem cell_anyNonEmpty {a b : List (List Tok)} (h : CELL a b) : (a.any fun c => !c.isEmpty) = (b.any fun c => !c.isEmpty) := by
  induction a generalizing b with
  | nil => cases b <;> simp_all
  | cons x a ih =>
    cases b with
    | nil => simp at h
    | cons y b => simp at h; simp only [List.any_cons, cel_isEmpty h.1, ih h.2]
/-- `close()` on the cursors opened by `_parse_single_select_statement`: the same answer -/
theorem cell_drop_any {a b : List (List Tok)} (h : CELL a b) (n : Nat) :
    ((a.drop n).any fun c => !c.isEmpty) = ((b.drop n).any fun c => !c.isEmpty) := cell_anyNonEmpty (cell_drop h n)
grind_pattern cell_drop_any => CELL a b, (a.drop n).any fun c => !c.isEmpty

/-- `ord.getD []` under `upAll` (`pWindowBody`) -/
@[grind =] theorem map_getD_nil {α β : Type} (f : α → β) (o : Option (List α)) : List.map f (o.getD []) = (Option.map (List.map f) o).getD [] := by
  cases o <;> simp

/-! ### lockstep steps: for the long `if`-chains the two runs are taken apart TOGETHER (one goal per path instead of one per pair of paths) -/
theorem cer_ite {α : Type} {rv : α → α → Prop} {b b' : Bool} {x y x' y' : R α} (hc : b = b')
    (h1 : b = true → b' = true → CER rv x x') (h2 : b = false → b' = false → CER rv y y') :
    CER rv (if b then x else y) (if b' then x' else y') := by
  subst hc; cases b <;> simp_all
theorem cex_ite {α : Type} {rv : α → α → Prop} {b b' : Bool} {x y x' y' : Except Err α} (hc : b = b')
    (h1 : b = true → b' = true → CEX rv x x') (h2 : b = false → b' = false → CEX rv y y') :
    CEX rv (if b then x else y) (if b' then x' else y') := by
  subst hc; cases b <;> simp_all
theorem cer_of_eq {α : Type} {rv : α → α → Prop} {a b : R α} (h : ∀ res res', a = res → b = res' → CER rv res res') : CER rv a b :=
  h _ _ rfl rfl
theorem cex_of_eq {α : Type} {rv : α → α → Prop} {a b : Except Err α} (h : ∀ res res', a = res → b = res' → CEX rv res res') : CEX rv a b :=
  h _ _ rfl rfl

end PM
