import MsqProofs.Lemmas.ParseCostProjStmt
import MsqProofs.Lemmas.ParseAdqStmt
/-!
# C19, parser half: the linear bound on cursor operations — hand-written part

Potential of a cursor: `70 * adqWL ts` (`adqWL` = the potential of the fuel-adequacy proof, `ParseAdq0.lean`: a word weighs 19, a bracket
group 19 + number of children + weight of the children).  For every counted function

    (pX_k … κ).1 + rem (pX_k … κ).2 ≤ κ + 70 * adqWL (cursor) + c_X

(`rem` = potential of the rest the run returns; 0 for a failed run): the operations of a run are paid by the tokens it consumes, plus a
constant `c_X` for the calls that do not consume (rank of the non-consuming call graph, constants computed by `tools/gen_cost.py`).
A consumed token pays `19 * CM`, more than any `c_X`; the walk of a comma split over the children of a group is paid by the unit per
child in the weight of the group.
-/
set_option linter.unusedSimpArgs false
set_option linter.unusedVariables false
open Lex
namespace PM

/-- potential left in the result of a counted run -/
def rem {α : Type} (res : R α) : Nat := match res with | .ok (_, r) => 70 * adqWL r | .error _ => 0
@[grind =] theorem rem_ok {α : Type} (v : α) (r : List Tok) : rem (.ok (v, r) : R α) = 70 * adqWL r := rfl
@[grind =] theorem rem_error {α : Type} (e : Err) : rem (.error e : R α) = 0 := rfl
/-- for the two loop bodies that consume only inside (`pJoin`, `pLateral`: the look-ahead of their loops may be on another cursor): a successful
run leaves the potential of the rest AND `s` units that pay the next look-ahead of the loop -/
def remS {α : Type} (s : Nat) (res : R α) : Nat := match res with | .ok (_, r) => 70 * adqWL r + s | .error _ => 0
@[grind =] theorem remS_ok {α : Type} (s : Nat) (v : α) (r : List Tok) : remS s (.ok (v, r) : R α) = 70 * adqWL r + s := rfl
@[grind =] theorem remS_error {α : Type} (s : Nat) (e : Err) : remS s (.error e : R α) = 0 := rfl
theorem remS_le {α : Type} (s : Nat) (res : R α) : remS s res ≤ rem res + s := by
  unfold remS rem; split <;> omega
grind_pattern remS_le => remS s res
/-- the same for the functions that return `Option (value × cursor)`: `none` = nothing consumed, the potential `m` of the cursor is left -/
def remO {α : Type} (m : Nat) (res : Except Err (Option (α × List Tok))) : Nat :=
  match res with | .ok (some (_, r)) => 70 * adqWL r | .ok none => m | .error _ => 0
@[grind =] theorem remO_some {α : Type} (m : Nat) (v : α) (r : List Tok) : remO m (.ok (some (v, r)) : Except Err (Option (α × List Tok))) = 70 * adqWL r := rfl
@[grind =] theorem remO_none {α : Type} (m : Nat) : remO m (.ok none : Except Err (Option (α × List Tok))) = m := rfl
@[grind =] theorem remO_error {α : Type} (m : Nat) (e : Err) : remO m (.error e : Except Err (Option (α × List Tok))) = 0 := rfl

/-! ### what the primitives cost at most -/
theorem cMove_le (b : Bool) : cMove b ≤ 3 := by cases b <;> simp [cMove]
grind_pattern cMove_le => cMove b
theorem cAlias_le (ts : List Tok) : cAlias ts ≤ 3 := by unfold cAlias; split <;> (try split) <;> omega
grind_pattern cAlias_le => cAlias ts
theorem cFuncName_le (ts : List Tok) : cFuncName ts ≤ 6 := by unfold cFuncName; split <;> (repeat' split) <;> omega
grind_pattern cFuncName_le => cFuncName ts
theorem cPops_le (ts : List Tok) (ks : List String) : cPops ts ks ≤ ks.length := by
  induction ks generalizing ts with
  | nil => simp [cPops]
  | cons k ks ih => cases ts with
    | nil => simp [cPops]
    | cons t ts => simp only [cPops]; split <;> simp <;> have := ih ts <;> omega
theorem cMatchSeq_le (ts : List Tok) (ks : List String) : cMatchSeq ts ks ≤ 1 + ks.length := by
  have := cPops_le ts ks; unfold cMatchSeq; omega
grind_pattern cMatchSeq_le => cMatchSeq ts ks
theorem cFirstEnum_le (tbl : List (String × List String)) (ts : List Tok) : cFirstEnum tbl ts ≤ 2 * tbl.length + 1 := by
  induction tbl with
  | nil => simp [cFirstEnum]
  | cons e tbl ih => obtain ⟨n, ks⟩ := e; simp only [cFirstEnum]; split <;> simp <;> omega
theorem cFirstEnum_join_le (ts : List Tok) : cFirstEnum Gen.joinTypes ts ≤ 23 := cFirstEnum_le _ ts
grind_pattern cFirstEnum_join_le => cFirstEnum Gen.joinTypes ts
theorem cFirstEnum_union_le (ts : List Tok) : cFirstEnum Gen.unionTypes ts ≤ 11 := cFirstEnum_le _ ts
grind_pattern cFirstEnum_union_le => cFirstEnum Gen.unionTypes ts
theorem cFind_le (t : Tok) (l : List (String × String)) : cFind t l ≤ 2 * l.length + 1 := by
  induction l with
  | nil => simp [cFind]
  | cons e l ih => simp only [cFind]; split <;> simp <;> omega
theorem cCastType_le (ts : List Tok) : cCastType ts ≤ 63 := by
  unfold cCastType; split
  · decide
  · exact cFind_le _ _
grind_pattern cCastType_le => cCastType ts
theorem cClosed_le {α : Type} (res : R α) : cClosed res ≤ 1 := by unfold cClosed; split <;> omega
grind_pattern cClosed_le => cClosed res
theorem cCloseRest_le (cs : List (List Tok)) : cCloseRest cs ≤ cs.length := by
  induction cs with
  | nil => simp [cCloseRest]
  | cons c cs ih => simp only [cCloseRest]; split <;> simp <;> omega
theorem cCloseStack_le (rest : List Tok) (stack : List (List Tok)) : cCloseStack rest stack ≤ 1 + stack.length := by
  have := cCloseRest_le (stack.drop 1); unfold cCloseStack; split <;> simp at * <;> omega
grind_pattern cCloseStack_le => cCloseStack rest stack

theorem closed_k_le {α : Type} (x : Nat × R α) : (closed_k x).1 ≤ x.1 + 1 ∧ x.1 ≤ (closed_k x).1 := by
  have := cClosed_le x.2; simp only [closed_k_fst]; omega
grind_pattern closed_k_le => closed_k x
theorem closed_k_snd_g {α : Type} (x : Nat × R α) : (closed_k x).2 = closed x.2 := rfl
grind_pattern closed_k_snd_g => closed_k x

theorem headChildren_lost2 (ts cs : List Tok) (h : headChildren ts = .ok cs) : adqWL cs + cs.length + 19 + adqWL (ts.drop 1) ≤ adqWL ts := by
  cases ts with
  | nil => simp [headChildren] at h
  | cons t ts =>
    simp [headChildren] at h; subst h
    have := adqW_children t; simp; omega
grind_pattern headChildren_lost2 => headChildren ts, Except.ok cs

/-! ### comma splits: the walk over the children is paid by the unit per child in the weight of the group -/
theorem splitBy_half (sep : String) : ∀ ts cur acc,
    2 * adqWLL (splitBy sep ts cur acc) ≤ 2 * adqWLL acc + 2 * adqWL cur + 2 * adqWL ts + ts.length + (if cur.isEmpty then 1 else 2) := by
  intro ts
  induction ts with
  | nil => intro cur acc; unfold splitBy; split <;> simp_all [adqWLL_append] <;> omega
  | cons t r ih =>
    intro cur acc
    have ht := adqW_ge t
    unfold splitBy
    split
    · split
      · have := ih [] acc; simp_all; omega
      · have := ih [] (acc ++ [cur]); simp_all [adqWLL_append]; omega
    · have := ih (cur ++ [t]) acc; simp [adqWL_append] at this ⊢; split <;> omega
theorem splitBy_children2 (sep : String) (t : Tok) : 2 * adqWLL (splitBy sep t.children [] []) + t.children.length + 37 ≤ 2 * adqW t := by
  have := splitBy_half sep t.children [] []; have := adqW_children t; simp at *; omega
grind_pattern splitBy_children2 => splitBy sep (Tok.children t) [] []
theorem popSplit_cost (ts : List Tok) (segs : List (List Tok)) (r : List Tok) (h : popSplit ts = .ok (segs, r)) :
    2 * adqWLL segs + cSplit ts + 2 * adqWL r + 35 ≤ 2 * adqWL ts := by
  cases ts with
  | nil => simp [popSplit] at h
  | cons g ts =>
    simp [popSplit] at h; obtain ⟨rfl, rfl⟩ := h
    have := splitBy_children2 "," g
    simp [cSplit]; omega
grind_pattern popSplit_cost => popSplit ts, Except.ok (segs, r)
theorem popSplit_cost_err (ts : List Tok) (e : Err) (h : popSplit ts = .error e) : cSplit ts = 2 := by
  cases ts with
  | nil => rfl
  | cons g ts => simp [popSplit] at h
grind_pattern popSplit_cost_err => popSplit ts, Except.error e

/-- a counted segment parser that costs at most `70 * weight of the segment + C`: the segment loop costs at most `70 * weight of the
segment list` (which holds `70 ≥ C + 1` per segment) -/
theorem eachClosed_k_bnd {α : Type} (pk : List Tok → Nat → Nat × R α) (C : Nat) (hC : C + 1 ≤ 70)
    (hp : ∀ s κ, (pk s κ).1 ≤ κ + 70 * adqWL s + C) : ∀ segs κ, (eachClosed_k pk segs κ).1 ≤ κ + 70 * adqWLL segs := by
  intro segs
  induction segs with
  | nil => intro κ; simp [eachClosed_k]
  | cons sg rest ih =>
    intro κ
    have h1 := hp sg κ
    have h2 := cClosed_le (pk sg κ).2
    have h3 := ih ((closed_k (pk sg κ)).1)
    unfold eachClosed_k
    simp only [closed_k_fst, adqWLL_cons] at *
    split
    · simp only []; rw [Nat.mul_add, Nat.mul_add]; omega
    · split <;> (simp only []; rw [Nat.mul_add, Nat.mul_add]; omega)

end PM
