import MsqProofs.Lemmas.LexLinkQ2E2
import MsqProofs.Lemmas.LexLinkDml0
/-!
# The lexer link for the larger fragment: the NEW expression productions (hand-written)

CAST, EXTRACT, window functions (PARTITION BY / ORDER BY with NULLS FIRST / LAST / frames), array index; order items with all suffixes.

**Square brackets.**  The lexer opens a frame at `[` and closes it at `]` into ONE group token of kind `slice` with the ARRAY_INDEX mark whose
children are the tokens between — exactly `TQ2.arr`.  (F-C04-2: the `source` of that group renders with ROUND brackets; the parser reads
the children, so the link is not affected.)  What IS affected: `]` is no delimiter of the link's context predicate `Lx` (a text is followed
by nothing, a blank, `)`, `,` or a line break), and an index expression is followed by `]` directly.  Hence `LxA` — a text that returns the
lexer between tokens WHATEVER follows (back-quoted names, bracket groups, calls) — and the restriction `idxInnerOK`: the index expression
is a column, a numeral, or is printed in brackets.  The base of an index (a column or a call, `TQ2.idxBaseOK4`) is always `LxA`.
-/
set_option linter.unusedVariables false
set_option linter.unusedSimpArgs false
namespace LL2
open Lex Spec C05 C06 C09 Ast TP TS LexLink TQ2
open TQ (tblTok unionWords isExists)
open LLD (ps pc lx_pc q_pc seg_sp sp pc_cons pc_nil pc_append)

section
variable {d : Gen.D} {K : QKit}

/-! ## aliases -/

theorem lv_alias {a : Option String} (h : Lv2 d K (leavesAlias2 a)) : optAliasLex a ∧ ∀ y, a = some y → K.Q y.toList := by
  cases a with
  | none => exact ⟨trivial, fun y hy => by cases hy⟩
  | some a =>
    simp only [leavesAlias2, leavesAlias, List.map_cons, List.map_nil, lv2_cons_old, lv2_nil, and_true] at h
    exact ⟨h.1, fun y hy => by cases hy; exact h.2 a (by simp [strs])⟩

/-! ## texts that are complete whatever follows -/

def LxA (u : List Char) (ts : List Tok) : Prop :=
  ∀ (T pre rest : List Char) (f : List Tok) (fs : List (List Tok)), T = pre ++ u ++ rest →
    runTail Gen.cfgS T (u ++ rest) ⟨pre.length, pre.length, .WAIT, f :: fs⟩ =
      runTail Gen.cfgS T rest ⟨pre.length + u.length, pre.length + u.length, .WAIT, (f ++ ts) :: fs⟩

theorem lxa_lx {u : List Char} {ts : List Tok} (h : LxA u ts) : Lx u ts := fun T pre rest f fs hT _ => h T pre rest f fs hT

theorem lxa_of_feed {u : List Char} {tk : Tok}
    (h : ∀ (T pre rest : List Char) (f : List Tok) (fs : List (List Tok)), T = pre ++ u ++ rest →
      feedAllWith (handle Gen.cfgS T) u ⟨pre.length, pre.length, .WAIT, f :: fs⟩ =
        .ok ⟨pre.length + u.length, pre.length + u.length, .WAIT, (f ++ [tk]) :: fs⟩) : LxA u [tk] := by
  intro T pre rest f fs hT
  rw [runTail_append_ok (h T pre rest f fs hT)]

theorem lxa_paren {a : List Char} {ta : List Tok} (ha : Lx a ta) :
    LxA ('(' :: (a ++ [')'])) [.group .paren ta Gen.mark_PARENTHESIS] := by
  intro T pre rest f fs hT
  have e1 : ('(' :: (a ++ [')'])) ++ rest = '(' :: (a ++ (')' :: rest)) := by simp
  rw [e1, step_open]
  have hT1 : T = (pre ++ ['(']) ++ a ++ (')' :: rest) := by rw [hT]; simp
  have := ha T (pre ++ ['(']) (')' :: rest) [] (f :: fs) hT1 (Or.inr ⟨_, Or.inr (Or.inl rfl)⟩)
  simp only [List.length_append, List.length_cons, List.length_nil, List.nil_append] at this ⊢
  rw [this, step_close]
  congr 2 <;> omega

theorem lxa_prefix {u b : List Char} {tk : Tok} {tb : List Tok} {c : Char} {b' : List Char} (hb : LxA b tb)
    (hc : b = c :: b') (hu : Tk u tk c) : LxA (u ++ b) (tk :: tb) := by
  intro T pre rest f fs hT
  subst hc
  have e1 : (u ++ c :: b') ++ rest = u ++ c :: (b' ++ rest) := by simp
  have hT1 : T = pre ++ u ++ c :: (b' ++ rest) := by rw [hT]; simp
  rw [e1, hu T pre (b' ++ rest) f fs hT1]
  have hT2 : T = (pre ++ u) ++ (c :: b') ++ rest := by rw [hT]; simp
  have := hb T (pre ++ u) rest (f ++ [tk]) fs hT2
  simp only [List.length_append, List.length_cons, List.cons_append, List.append_assoc, List.nil_append] at this ⊢
  rw [this]
  congr 2 <;> omega

theorem lxa_name (c : List Char) (hc : ∀ x ∈ c, x ≠ '`') : LxA ('`' :: (c ++ ['`'])) [.single ('`' :: (c ++ ['`'])) Gen.mark_NAME] :=
  lxa_of_feed (feed_bq c hc)

/-! ## the slice group -/

theorem l_openS : Gen.cfgS.lookup .WAIT (.ch '[') = some openSlice := look (by decide +kernel)
theorem l_closeS : Gen.cfgS.lookup .WAIT (.ch ']') = some closeSlice := look (by decide +kernel)

theorem step_openS (T r : List Char) (n : Nat) (stk : List (List Tok)) :
    runTail Gen.cfgS T ('[' :: r) ⟨n, n, .WAIT, stk⟩ = runTail Gen.cfgS T r ⟨n + 1, n + 1, .WAIT, [] :: stk⟩ := by
  have h : handle Gen.cfgS T ⟨n, n, .WAIT, stk⟩ (.ch '[') = .ok (⟨n + 1, n + 1, .WAIT, [] :: stk⟩, true) := by
    simp [Lex.handle, l_openS, openSlice, shipped_code, Gen.Cls.code, exec]
  rw [runTail_cons_wait, h]
  rfl

theorem step_closeS (T r : List Char) (n : Nat) (g f : List Tok) (fs : List (List Tok)) :
    runTail Gen.cfgS T (']' :: r) ⟨n, n, .WAIT, g :: f :: fs⟩ =
      runTail Gen.cfgS T r ⟨n + 1, n + 1, .WAIT, (f ++ [arr g]) :: fs⟩ := by
  have h : handle Gen.cfgS T ⟨n, n, .WAIT, g :: f :: fs⟩ (.ch ']') =
      .ok (⟨n + 1, n + 1, .WAIT, (f ++ [arr g]) :: fs⟩, true) := by
    simp [Lex.handle, l_closeS, closeSlice, shipped_code, Gen.Cls.code, exec, appendTop, resolveMarks, arr, Lex.ARRAY, Gen.mark_ARRAY_INDEX]
  rw [runTail_cons_wait, h]
  rfl

/-- a text in front of `]` -/
def LxR (u : List Char) (ts : List Tok) : Prop :=
  ∀ (T pre rest : List Char) (f : List Tok) (fs : List (List Tok)), T = pre ++ u ++ ']' :: rest →
    runTail Gen.cfgS T (u ++ ']' :: rest) ⟨pre.length, pre.length, .WAIT, f :: fs⟩ =
      runTail Gen.cfgS T (']' :: rest) ⟨pre.length + u.length, pre.length + u.length, .WAIT, (f ++ ts) :: fs⟩

theorem lxr_of_a {u : List Char} {ts : List Tok} (h : LxA u ts) : LxR u ts := fun T pre rest f fs hT => h T pre (']' :: rest) f fs hT
theorem lxr_of_tk {u : List Char} {tk : Tok} (h : Tk u tk ']') : LxR u [tk] := fun T pre rest f fs hT => h T pre rest f fs hT

/-- `[ … ]`: ONE slice group whose children are the tokens of the text between -/
theorem lxa_slice {a : List Char} {ta : List Tok} (ha : LxR a ta) : LxA ('[' :: (a ++ [']'])) [arr ta] := by
  intro T pre rest f fs hT
  have e1 : ('[' :: (a ++ [']'])) ++ rest = '[' :: (a ++ (']' :: rest)) := by simp
  rw [e1, step_openS]
  have hT1 : T = (pre ++ ['[']) ++ a ++ (']' :: rest) := by rw [hT]; simp
  have := ha T (pre ++ ['[']) rest [] (f :: fs) hT1
  simp only [List.length_append, List.length_cons, List.length_nil, List.nil_append] at this ⊢
  rw [this, step_closeS]
  congr 2 <;> omega

/-- a decimal numeral in front of `]` -/
theorem tk_int_rb (ds : List Char) (hne : ds ≠ []) (hd : ∀ c ∈ ds, isDigit c.toNat = true) :
    Tk ds (.single ds (Gen.mark_LITERAL ||| Gen.mark_LITERAL_INT)) ']' := by
  refine tk_of_pending' ds ']' _ fun T pre more f fs hT => ?_
  have hrun : ∃ q, intSt q ∧ feedAllWith (handle Gen.cfgS T) ds ⟨pre.length, pre.length, .WAIT, f :: fs⟩ =
      .ok ⟨pre.length, pre.length + ds.length, q, f :: fs⟩ := by
    cases ds with
    | nil => exact absurd rfl hne
    | cons c cs =>
      obtain ⟨q0, hq0, hl⟩ := int_first c (hd c (by simp))
      have h1 := handle_addTo shipped_code (text := T) (m := ⟨pre.length, pre.length, .WAIT, f :: fs⟩) hl
      obtain ⟨q, hq, hr⟩ := int_run T cs (fun d hm => hd d (by simp [hm])) q0 hq0 pre.length (pre.length + 1) (f :: fs)
      refine ⟨q, hq, ?_⟩
      rw [feedAllWith_cons_adv h1, hr]
      simp only [List.length_cons]; congr 2; omega
  obtain ⟨q, hq, hr⟩ := hrun
  refine ⟨q, hr, ?_⟩
  have hb : Gen.cfgS.lookup q (.ch ']') = some (emitBefore mInt) := by
    rcases hq with rfl | rfl <;> exact look (by decide +kernel)
  rw [handle_emitBefore shipped_code (m := ⟨pre.length, pre.length + ds.length, q, f :: fs⟩) hb rfl]
  have hw : win T ⟨pre.length, pre.length + ds.length, q, f :: fs⟩ (pre.length + ds.length) = ds := by
    rw [hT]; exact win_mid pre ds (']' :: more) _ _ _
  rw [hw]; rfl

/-- a quoted string in front of `]` -/
theorem tk_string_rb (k : QK) (hk : k ≠ .bq) (body : List Char) (hb : strBody k.ch body = true) :
    Tk (k.wrap body) (.single (k.wrap body) (Gen.mark_LITERAL ||| Gen.mark_NAME)) ']' := by
  have hm : k.marks = (Gen.mark_LITERAL ||| Gen.mark_NAME) := by cases k <;> first | rfl | exact absurd rfl hk
  refine tk_of_pending' _ ']' _ fun T pre more f fs hT => ?_
  obtain ⟨g1, g2, _⟩ := escaped_quote k hk pre body (']' :: more) hb f fs
  refine ⟨k.pending, by rw [hT]; exact g1, ?_⟩
  rw [hT, ← hm]; exact g2 ']' (by cases k <;> decide)

/-! ## order items with all suffixes -/

structure GO4 (d : Gen.D) (K : QKit) (o : OrderItem) : Prop where
  lx : Lx (ordItem4L d o) (toksOrdItem4 d noX o)
  pr : PR.prOrd d o = .ok (String.ofList (ordItem4L d o))
  q : K.Q (ordItem4L d o)

def sufPieces (desc nf nl : Bool) : List (List Char) :=
  (if desc then [kwL "DESC"] else []) ++ ((if nf then [kwL "NULLS" ++ ' ' :: kwL "FIRST"] else []) ++
    (if nl then [kwL "NULLS" ++ ' ' :: kwL "LAST"] else []))
theorem ordSufL_eq (desc nf nl : Bool) : ordSufL desc nf nl = pc (sufPieces desc nf nl) := by
  cases desc <;> cases nf <;> cases nl <;> rfl

theorem go_item (hK : QW2 K) (e : Expr) (desc nf nl : Bool) (he : GE4 d K e) : GO4 d K (.mk e desc nf nl) := by
  have hN := lx_w2 "NULLS" (by simp [q2Words])
  have hseg : Seg ' ' (sufPieces desc nf nl) ((if desc then [opTok "DESC"] else []) ++
      ((if nf then [opTok "NULLS", opTok "FIRST"] else []) ++ (if nl then [opTok "NULLS", opTok "LAST"] else []))) := by
    refine Seg.append sp ?_ (Seg.append sp ?_ ?_)
    · cases desc
      · exact Seg.nil _
      · exact Seg.one _ (lx_cw "DESC" (by simp [clauseWords]))
    · cases nf
      · exact Seg.nil _
      · exact Seg.one _ (Lx.sep hN (lx_w2 "FIRST" (by simp [q2Words])))
    · cases nl
      · exact Seg.nil _
      · exact Seg.one _ (Lx.sep hN (lx_w2 "LAST" (by simp [q2Words])))
  have hq : ∀ x ∈ sufPieces desc nf nl, K.Q x := by
    intro x hx
    simp only [sufPieces, List.mem_append] at hx
    rcases hx with hx | hx | hx
    · cases desc <;> simp at hx
      subst hx; exact K.word "DESC" (mem_cw (by simp [clauseWords]))
    · cases nf <;> simp at hx
      subst hx; exact K.sp (hK.ws "NULLS" (by simp [q2Words])) (hK.ws "FIRST" (by simp [q2Words]))
    · cases nl <;> simp at hx
      subst hx; exact K.sp (hK.ws "NULLS" (by simp [q2Words])) (hK.ws "LAST" (by simp [q2Words]))
  refine ⟨?_, ?_, ?_⟩
  · have := lx_pc (he.w 8) hseg
    rw [← ordSufL_eq] at this
    exact Lx.congr this (by simp only [ordItem4L]) (by simp only [toksOrdItem4])
  · simp only [PR.prOrd, he.pr, Except.map, wrap_ofList]
    refine ok_ofList ?_
    have e1 : (" DESC" : String).toList = ' ' :: kwL "DESC" := rfl
    have e2 : (" NULLS FIRST" : String).toList = ' ' :: (kwL "NULLS" ++ ' ' :: kwL "FIRST") := rfl
    have e3 : (" NULLS LAST" : String).toList = ' ' :: (kwL "NULLS" ++ ' ' :: kwL "LAST") := rfl
    have e0 : ("" : String).toList = [] := rfl
    cases desc <;> cases nf <;> cases nl <;>
      simp [toString, String.toList_append, String.toList_ofList, ordItem4L, ordSufL, e0, e1, e2, e3]
  · have := q_pc K _ hq _ (he.qw 8)
    rw [← ordSufL_eq] at this
    simpa only [ordItem4L] using this

theorem ord4LL_eq (os : List OrderItem) : ord4LL d os = os.map (ordItem4L d) := by
  induction os with
  | nil => simp [ord4LL]
  | cons o r ih => simp [ord4LL, ih]
theorem pr_ordList (os : List OrderItem) : (∀ o ∈ os, GO4 d K o) → PR.prOrdList d os = .ok ((os.map (ordItem4L d)).map String.ofList) := by
  induction os with
  | nil => intro _; rfl
  | cons o r ih =>
    intro h
    have h1 := (h o (by simp)).pr
    have h2 := ih fun y hy => h y (by simp [hy])
    simp only [PR.prOrdList, h1, h2, bind, Except.bind, pure, Except.pure, List.map_cons]
theorem toksOrdList4_eq : ∀ (os : List OrderItem) (o : OrderItem),
    toksOrdList4 d noX (o :: os) = toksOrdItem4 d noX o ++ toksOrdTail4 d noX os := fun _ _ => by simp only [toksOrdList4]
/-- a non-empty comma list of order items -/
theorem lx_ordList (o : OrderItem) (os : List OrderItem) (h : ∀ x ∈ o :: os, GO4 d K x) :
    Lx (joinLL [',', ' '] ((o :: os).map (ordItem4L d))) (toksOrdItem4 d noX o ++ toksOrdTail4 d noX os) :=
  lx_commaList (ordItem4L d) (toksOrdItem4 d noX) (toksOrdTail4 d noX) (by simp [toksOrdTail4])
    (by intro x xs; simp [toksOrdTail4]) os o (h o (by simp)).lx (fun y hy => (h y (by simp [hy])).lx)
theorem q_ordList (os : List OrderItem) (h : ∀ x ∈ os, GO4 d K x) : K.Q (joinLL [',', ' '] (os.map (ordItem4L d))) :=
  K.joinLL2 _ fun y hy => by
    obtain ⟨o, ho, rfl⟩ := List.mem_map.mp hy
    exact (h o ho).q

/-! ## CAST -/

theorem castVal_mem (ty : String) (h : castTyOK ty = true) :
    ∃ e ∈ Gen.castTypes, castVal ty = e.2 ∧ PR.valueSrc Gen.castTypes ty = .ok e.2 := by
  cases hf : Gen.castTypes.find? (·.1 == ty) with
  | some e => exact ⟨e, List.mem_of_find?_eq_some hf, by simp [castVal, hf], by simp [PR.valueSrc, hf]⟩
  | none =>
    have hv : castVal ty = "" := by simp [castVal, hf]
    have hno : Gen.castTypes.find? (fun k => (opTok "").equalsStr k.2) = none := by decide
    simp [castTyOK, hv, hno] at h

theorem lx_ints : ∀ (l : List Int), l.all intOK = true → Lx (joinLL [',', ' '] (l.map fun n => (toString n).toList)) (intsToks l)
  | [], _ => by simpa [joinLL, intsToks] using lx_nil
  | n :: r, h => by
    have hall : ∀ m ∈ n :: r, 0 ≤ m := by
      intro m hm
      have := (List.all_eq_true.mp h) m hm
      simp only [intOK, Bool.and_eq_true, decide_eq_true_eq] at this
      exact this.1
    have := lx_commaList (fun m : Int => (toString m).toList) (fun m => [intTok m]) intsTail (by simp [intsTail])
      (by intro x xs; simp [intsTail, TS.commaTok, TP2.commaTok]) r n (lx_intTok n (hall n (by simp)))
      (fun y hy => lx_intTok y (hall y (by simp [hy])))
    exact Lx.congr this rfl (by simp [intsToks])

theorem q_ints (l : List Int) (h : l.all intOK = true) : K.Q (joinLL [',', ' '] (l.map fun n => (toString n).toList)) :=
  K.joinLL2 _ fun y hy => by
    obtain ⟨m, hm, rfl⟩ := List.mem_map.mp hy
    have := (List.all_eq_true.mp h) m hm
    simp only [intOK, Bool.and_eq_true, decide_eq_true_eq] at this
    exact K.num m this.1

theorem castParts_good (hK : QW2 K) (sg : Bool) (ty : String) (ps : Option (List Int)) (hty : castTyOK ty = true) (hps : castParamsOK ps = true) :
    Seg ' ' (castPartsL sg ty ps) ((if sg then [opTok "SIGNED"] else []) ++ opTok (castVal ty) :: castParamToks ps) ∧
      ∀ x ∈ castPartsL sg ty ps, K.Q x := by
  obtain ⟨e, he, hv, _⟩ := castVal_mem ty hty
  have hT : Lx (castVal ty).toList [opTok (castVal ty)] := by
    rw [opTok_eq, hv]; exact lx_of_is ((List.all_eq_true.mp cast_words_lex) e he)
  have hP : Seg ' ' (castParamPieces ps) (castParamToks ps) ∧ ∀ x ∈ castParamPieces ps, K.Q x := by
    cases ps with
    | none => exact ⟨Seg.nil _, fun x hx => by simp [castParamPieces] at hx⟩
    | some l =>
      refine ⟨Seg.one _ (Lx.congr (Lx.paren (lx_ints l hps)) rfl (by simp [castParamToks, grp_eq])), fun x hx => ?_⟩
      simp only [castParamPieces, List.mem_singleton] at hx
      subst hx
      exact K.paren (q_ints l hps)
  refine ⟨?_, ?_⟩
  · have hS : Seg ' ' (if sg then ["SIGNED".toList] else []) (if sg then [opTok "SIGNED"] else []) := by
      cases sg
      · exact Seg.nil _
      · exact Seg.one _ (lx_w2 "SIGNED" (by simp [q2Words]))
    have := Seg.append sp hS (Seg.cons sp hT hP.1)
    simpa [castPartsL] using this
  · intro x hx
    simp only [castPartsL, List.mem_append, List.mem_cons] at hx
    rcases hx with hx | rfl | hx
    · cases sg <;> simp at hx
      subst hx; exact hK.ws "SIGNED" (by simp [q2Words])
    · rw [hv]; exact hK.cts e he
    · exact hP.2 x hx

theorem plain_cast : plainL "CAST".toList = true ∧ plainL "EXTRACT".toList = true := by decide

theorem ge_cast (hK : QW2 K) (e : Expr) (sg : Bool) (ty : String) (ps : Option (List Int)) (hty : castTyOK ty = true)
    (hps : castParamsOK ps = true) (he : GE4 d K e) : GE4 d K (.cast e sg ty ps) where
  lx := by
    obtain ⟨hseg, _⟩ := castParts_good hK sg ty ps hty hps
    have hne : castPartsL sg ty ps ≠ [] := by simp [castPartsL]
    have inner := Lx.paren (Lx.sep (he.w 8) (Lx.sep (lx_cw "AS" (by simp [clauseWords])) (hseg.lx hne)))
    have h2 := Lx.prefix inner rfl (tk_plain "CAST".toList plain_cast.1 '(' (Or.inl rfl))
    exact Lx.congr h2 (by simp [prE4L, castL]) (by simp [toksE4, grp_eq, opTok_eq])
  pr := by
    obtain ⟨e', he', hv, hsrc⟩ := castVal_mem ty hty
    simp only [PR.prE, he.pr, hsrc, Except.map, bind, Except.bind, pure, Except.pure, wrap_ofList, prE4L, castL]
    refine ok_ofList ?_
    have e3 : (", " : String).toList = [',', ' '] := rfl
    have e4 : (" " : String).toList = [' '] := rfl
    have e5 : ("CAST(" : String).toList = kwL "CAST" ++ ['('] := rfl
    have e6 : (" AS " : String).toList = ' ' :: (kwL "AS" ++ [' ']) := rfl
    have e7 : ("SIGNED" : String).toList = kwL "SIGNED" := rfl
    cases sg <;> cases ps <;>
      simp [toString, String.toList_append, String.toList_ofList, toList_joinS, castPartsL, castParamPieces, hv, joinLL, e3, e4, Function.comp_def]
  q := by
    obtain ⟨_, hq⟩ := castParts_good hK sg ty ps hty hps
    have h1 := K.sp (he.qw 8) (K.sp (K.word "AS" (mem_cw (by simp [clauseWords]))) (K.joinLL1 ' ' K.s_sp _ hq))
    have := K.sep _ _ '(' K.s_lp (hK.ws "CAST" (by simp [q2Words])) (K.post K.s_rp h1)
    simpa [prE4L, castL] using this
  fc := ⟨'C', _, by simp only [prE4L, castL]; rfl, by decide⟩

/-! ## EXTRACT -/

theorem ge_extract (hK : QW2 K) (n e : Expr) (hn : GE4 d K n) (he : GE4 d K e) : GE4 d K (.extract n e) where
  lx := by
    have inner := Lx.paren (Lx.sep (hn.w 8) (Lx.sep (lx_cw "FROM" (by simp [clauseWords])) (he.w 8)))
    have h2 := Lx.prefix inner rfl (tk_plain "EXTRACT".toList plain_cast.2 '(' (Or.inl rfl))
    exact Lx.congr h2 (by simp [prE4L, extractL]) (by simp [toksE4, grp_eq, opTok_eq])
  pr := by
    simp only [PR.prE, hn.pr, he.pr, Except.map, bind, Except.bind, pure, Except.pure, wrap_ofList, prE4L, extractL]
    refine ok_ofList ?_
    have e1 : ("EXTRACT(" : String).toList = kwL "EXTRACT" ++ ['('] := rfl
    have e2 : (" FROM " : String).toList = ' ' :: (kwL "FROM" ++ [' ']) := rfl
    have e3 : (")" : String).toList = [')'] := rfl
    simp [toString, String.toList_append, String.toList_ofList, e1, e2, e3]
  q := by
    have h1 := K.sp (hn.qw 8) (K.sp (K.word "FROM" (mem_cw (by simp [clauseWords]))) (he.qw 8))
    have := K.sep _ _ '(' K.s_lp (hK.ws "EXTRACT" (by simp [q2Words])) (K.post K.s_rp h1)
    simpa [prE4L, extractL] using this
  fc := ⟨'E', _, by simp only [prE4L, extractL]; rfl, by decide⟩

/-! ## window functions -/

def rowOK0 : RowItem → Prop
  | .num n _ => 0 ≤ n
  | _ => True
theorem rowOK0_of {r : RowItem} (h : rowOK r = true) : rowOK0 r := by
  cases r with
  | num n p =>
    simp only [rowOK, intOK, Bool.and_eq_true, decide_eq_true_eq] at h
    exact h.1.1.1
  | _ => trivial

theorem row_good (hK : QW2 K) (r : RowItem) (h : rowOK0 r) : Lx (rowL r) (rowToks r) ∧ K.Q (rowL r) := by
  have w2 : ∀ k, k ∈ q2Words → Lx k.toList [opTok k] ∧ K.Q k.toList := fun k hk => ⟨lx_w2 k hk, hK.ws k hk⟩
  have hF := w2 "FOLLOWING" (by simp [q2Words])
  have hP := w2 "PRECEDING" (by simp [q2Words])
  cases r with
  | current =>
    have a := w2 "CURRENT" (by simp [q2Words]); have b := w2 "ROW" (by simp [q2Words])
    exact ⟨Lx.sep a.1 b.1, K.sp a.2 b.2⟩
  | unbounded p =>
    have a := w2 "UNBOUNDED" (by simp [q2Words])
    cases p
    · exact ⟨Lx.sep a.1 hF.1, K.sp a.2 hF.2⟩
    · exact ⟨Lx.sep a.1 hP.1, K.sp a.2 hP.2⟩
  | num n p =>
    have a : Lx (toString n).toList [intTok n] ∧ K.Q (toString n).toList := ⟨lx_intTok n h, K.num n h⟩
    cases p
    · exact ⟨Lx.sep a.1 hF.1, K.sp a.2 hF.2⟩
    · exact ⟨Lx.sep a.1 hP.1, K.sp a.2 hP.2⟩

theorem rows_good (hK : QW2 K) (rows : Option (RowItem × RowItem)) (h : rowsOK rows = true) :
    Seg ' ' (rowsPieces rows) (toksRows rows) ∧ ∀ x ∈ rowsPieces rows, K.Q x := by
  cases rows with
  | none => exact ⟨Seg.nil _, fun x hx => by simp [rowsPieces] at hx⟩
  | some p =>
    obtain ⟨a, b⟩ := p
    simp only [rowsOK, Bool.and_eq_true] at h
    obtain ⟨a1, a2⟩ := row_good hK a (rowOK0_of h.1)
    obtain ⟨b1, b2⟩ := row_good hK b (rowOK0_of h.2)
    refine ⟨Seg.one _ ?_, fun x hx => ?_⟩
    · have := Lx.sep (lx_w2 "ROWS" (by simp [q2Words])) (Lx.sep (lx_kw "BETWEEN" (by simp [keywords])) (Lx.sep a1 (Lx.sep (lx_kw "AND" (by simp [keywords])) b1)))
      exact Lx.congr this (by simp [rowsPieces]) (by simp [toksRows])
    · simp only [rowsPieces, List.mem_singleton] at hx
      subst hx
      exact K.sp (hK.ws "ROWS" (by simp [q2Words])) (K.sp (K.word "BETWEEN" (mem_kw (by simp [keywords])))
        (K.sp a2 (K.sp (K.word "AND" (mem_kw (by simp [keywords]))) b2)))

theorem rowSrc_eq (r : RowItem) : (PR.rowSrc r).toList = rowL r := by
  have e1 : ("UNBOUNDED " : String).toList = kwL "UNBOUNDED" ++ [' '] := rfl
  have e2 : (" " : String).toList = [' '] := rfl
  have e3 : ("PRECEDING" : String).toList = kwL "PRECEDING" := rfl
  have e4 : ("FOLLOWING" : String).toList = kwL "FOLLOWING" := rfl
  cases r with
  | current => rfl
  | unbounded p => cases p <;> simp only [PR.rowSrc, rowL, String.toList_append, e1, e3, e4, Bool.false_eq_true, if_false, if_true, List.append_assoc, List.singleton_append]
  | num n p => cases p <;> simp only [PR.rowSrc, rowL, toString, String.toList_append, e2, e3, e4, Bool.false_eq_true, if_false, if_true, List.append_assoc, List.singleton_append]

theorem ge_window (hK : QW2 K) (fn : Expr) (part : List Expr) (ord : List OrderItem) (rows : Option (RowItem × RowItem))
    (hfn : GE4 d K fn) (hpart : ∀ a ∈ part, GE4 d K a) (hord : ∀ o ∈ ord, GO4 d K o) (hrows : rowsOK rows = true) :
    GE4 d K (.window fn part ord rows) := by
  obtain ⟨r1, r2⟩ := rows_good hK rows hrows
  have hP : Seg ' ' (if part.isEmpty then [] else [kwL "PARTITION" ++ ' ' :: (kwL "BY" ++ ' ' :: joinLL [',', ' '] (prList84LL d part))])
      ((if part.isEmpty then [] else [opTok "PARTITION", opTok "BY"]) ++ toksArgs4 d noX 8 part) ∧
      ∀ x ∈ (if part.isEmpty then [] else [kwL "PARTITION" ++ ' ' :: (kwL "BY" ++ ' ' :: joinLL [',', ' '] (prList84LL d part))]), K.Q x := by
    cases part with
    | nil => exact ⟨by simpa [toksArgs4] using Seg.nil ' ', fun x hx => by simp at hx⟩
    | cons a as =>
      refine ⟨Seg.one _ ?_, fun x hx => ?_⟩
      · have := Lx.sep (lx_w2 "PARTITION" (by simp [q2Words])) (lx_kwThen "BY" (by simp [clauseWords]) (lx_args8 (a :: as) hpart))
        exact Lx.congr this (by simp) (by simp)
      · simp only [List.isEmpty_cons, Bool.false_eq_true, if_false, List.mem_singleton] at hx
        subst hx
        exact K.sp (hK.ws "PARTITION" (by simp [q2Words])) (K.sp (K.word "BY" (mem_cw (by simp [clauseWords]))) (q_list8 (a :: as) hpart))
  have hO : Seg ' ' (if ord.isEmpty then [] else [kwL "ORDER" ++ ' ' :: (kwL "BY" ++ ' ' :: joinLL [',', ' '] (ord4LL d ord))])
      ((if ord.isEmpty then [] else [opTok "ORDER", opTok "BY"]) ++ toksOrdList4 d noX ord) ∧
      ∀ x ∈ (if ord.isEmpty then [] else [kwL "ORDER" ++ ' ' :: (kwL "BY" ++ ' ' :: joinLL [',', ' '] (ord4LL d ord))]), K.Q x := by
    cases ord with
    | nil => exact ⟨by simpa [toksOrdList4] using Seg.nil ' ', fun x hx => by simp at hx⟩
    | cons o os =>
      refine ⟨Seg.one _ ?_, fun x hx => ?_⟩
      · have := lx_kwThen "ORDER" (by simp [clauseWords]) (lx_kwThen "BY" (by simp [clauseWords]) (lx_ordList o os hord))
        exact Lx.congr this (by simp [ord4LL_eq]) (by simp [toksOrdList4])
      · simp only [List.isEmpty_cons, Bool.false_eq_true, if_false, List.mem_singleton] at hx
        subst hx
        have := q_ordList (K := K) (o :: os) hord
        rw [← ord4LL_eq] at this
        exact K.sp (K.word "ORDER" (mem_cw (by simp [clauseWords]))) (K.sp (K.word "BY" (mem_cw (by simp [clauseWords]))) this)
  have hseg := Seg.append sp hP.1 (Seg.append sp hO.1 r1)
  have hqs : ∀ x ∈ winPieces part.isEmpty (prList84LL d part) ord.isEmpty (ord4LL d ord) rows, K.Q x := by
    intro x hx
    simp only [winPieces, List.mem_append] at hx
    rcases hx with hx | hx | hx
    · exact hP.2 x hx
    · exact hO.2 x hx
    · exact r2 x hx
  have hin : Lx (joinLL [' '] (winPieces part.isEmpty (prList84LL d part) ord.isEmpty (ord4LL d ord) rows))
      (((if part.isEmpty then [] else [opTok "PARTITION", opTok "BY"]) ++ toksArgs4 d noX 8 part) ++
        (((if ord.isEmpty then [] else [opTok "ORDER", opTok "BY"]) ++ toksOrdList4 d noX ord) ++ toksRows rows)) := by
    rcases hseg with ⟨h1, h2⟩ | ⟨_, h⟩
    · have e : winPieces part.isEmpty (prList84LL d part) ord.isEmpty (ord4LL d ord) rows = [] := h1
      rw [e, h2]; simpa [joinLL] using lx_nil
    · exact h
  refine ⟨?_, ?_, ?_, ?_⟩
  · have := Lx.sep hfn.lx (Lx.sep (lx_w2 "OVER" (by simp [q2Words])) (Lx.paren hin))
    exact Lx.congr this (by simp [prE4L, windowL]) (by simp [toksE4, grp_eq])
  · simp only [PR.prE, hfn.pr, pr_list8 part hpart, pr_ordList ord hord, bind, Except.bind, pure, Except.pure, prE4L, windowL]
    refine ok_ofList ?_
    have e3 : (", " : String).toList = [',', ' '] := rfl
    have e4 : (" " : String).toList = [' '] := rfl
    have eP : ("PARTITION BY " : String).toList = kwL "PARTITION" ++ ' ' :: (kwL "BY" ++ [' ']) := rfl
    have eO : ("ORDER BY " : String).toList = kwL "ORDER" ++ ' ' :: (kwL "BY" ++ [' ']) := rfl
    have eR : ("ROWS BETWEEN " : String).toList = kwL "ROWS" ++ ' ' :: (kwL "BETWEEN" ++ [' ']) := rfl
    have eA : (" AND " : String).toList = ' ' :: (kwL "AND" ++ [' ']) := rfl
    have eV : (" OVER (" : String).toList = ' ' :: (kwL "OVER" ++ [' ', '(']) := rfl
    rcases rows with _ | ⟨a, b⟩ <;> cases hp : part.isEmpty <;> cases ho : ord.isEmpty <;>
      simp [toString, String.toList_append, String.toList_ofList, toList_joinS, map_map_ofList, winPieces, rowsPieces, hp, ho, joinLL, e3, e4,
        eP, eO, eR, eA, eV, rowSrc_eq, ord4LL_eq, Function.comp_def]
  · have := K.sp hfn.q (K.sp (hK.ws "OVER" (by simp [q2Words])) (K.paren (K.joinLL1 ' ' K.s_sp _ hqs)))
    simpa [prE4L, windowL] using this
  · obtain ⟨c, b', hc, hne⟩ := hfn.fc
    exact ⟨c, b' ++ (' ' :: (kwL "OVER" ++ ' ' :: '(' :: (joinLL [' '] (winPieces part.isEmpty (prList84LL d part) ord.isEmpty (ord4LL d ord) rows) ++ [')']))),
      by simp only [prE4L, windowL, hc]; rfl, hne⟩

/-! ## array index -/

/-- the base of an index is complete whatever follows -/
theorem base_lxa (a : Expr) (hb : idxBaseOK4 d a = true) (hl : Lv2 d K (leavesE4 a)) (ha : GE4 d K a)
    (hargs : ∀ n ps, a = .func none n ps → ∀ x ∈ ps, GE4 d K x) : LxA (prE4L d a) (toksE4 d noX a) := by
  cases a <;> try (simp [idxBaseOK4] at hb; done)
  case column t c =>
    simp only [leavesE4, lv2_cons_old, lv2_nil, and_true] at hl
    cases t with
    | none =>
      have h : colLex d c := hl.1
      have := lxa_name c.toList fun x hx => (h.2 x hx).1
      simpa [prE4L, toksE4, nameTok_eq] using this
    | some t =>
      have h : qcolLex d t c := hl.1
      have h1 := lxa_name c.toList fun x hx => (h.2.2 x hx).1
      have h2 := lxa_prefix h1 rfl (tk_dot '`')
      have h3 := lxa_prefix h2 rfl (tk_bq t.toList (fun x hx => (h.2.1 x hx).1) '.')
      have e1 : prE4L d (.column (some t) c) = '`' :: (t.toList ++ ['`']) ++ (['.'] ++ '`' :: (c.toList ++ ['`'])) := by simp [prE4L]
      have e2 : toksE4 d noX (.column (some t) c) = [.single ('`' :: (t.toList ++ ['`'])) Gen.mark_NAME, ctok ['.'],
          .single ('`' :: (c.toList ++ ['`'])) Gen.mark_NAME] := by simp [toksE4, dotTok_eq, nameTok_eq]
      rw [e1, e2]; exact h3
  case func s n ps =>
    cases s with
    | some s => simp [idxBaseOK4] at hb
    | none =>
      simp only [leavesE4, lv2_cons_old] at hl
      have hn : nameLex n := hl.1.1.2
      have inner := lxa_paren (lx_args14 ps (hargs n ps rfl))
      have h2 := lxa_prefix inner rfl (tk_qname n (fun x hx => (hn x hx).1) '(' (Or.inl rfl))
      have e1 : prE4L d (.func none n ps) = qnameL n ++ '(' :: (joinLL [',', ' '] (prList4LL d ps) ++ [')']) := by simp [prE4L, fnameL]
      have e2 : toksE4 d noX (.func none n ps) = [TP2.qTok n, .group .paren (toksArgs4 d noX 14 ps) Gen.mark_PARENTHESIS] := by
        simp [toksE4, grp_eq]
      rw [e1, e2]; exact h2

/-- the index expression in front of `]` -/
theorem inner_lxr (i : Expr) (hi : idxInnerOK i = true) (hl : Lv2 d K (leavesE4 i)) (gi : GE4 d K i) :
    LxR (wrapL i 8 (prE4L d i)) (wrapT (noX i) i 8 (toksE4 d noX i)) := by
  by_cases hlv : PR.lvl i > 8
  · have := lxa_paren gi.lx
    have e1 : wrapL i 8 (prE4L d i) = '(' :: (prE4L d i ++ [')']) := by unfold wrapL; simp [hlv]
    have e2 : wrapT (noX i) i 8 (toksE4 d noX i) = [.group .paren (toksE4 d noX i) Gen.mark_PARENTHESIS] := by
      unfold wrapT; simp [hlv, noX, grp_eq]
    rw [e1, e2]; exact lxr_of_a this
  · have e1 : wrapL i 8 (prE4L d i) = prE4L d i := by unfold wrapL; simp [hlv]
    have e2 : wrapT (noX i) i 8 (toksE4 d noX i) = toksE4 d noX i := by unfold wrapT; simp [hlv, noX]
    rw [e1, e2]
    simp only [idxInnerOK, hlv, decide_false, Bool.false_or] at hi
    cases i <;> try (simp at hi; done)
    case column t c =>
      simp only [leavesE4, lv2_cons_old, lv2_nil, and_true] at hl
      cases t with
      | none =>
        have h : colLex d c := hl.1
        have := lxa_name c.toList fun x hx => (h.2 x hx).1
        exact lxr_of_a (by simpa [prE4L, toksE4, nameTok_eq] using this)
      | some t =>
        have h : qcolLex d t c := hl.1
        have h1 := lxa_name c.toList fun x hx => (h.2.2 x hx).1
        have h2 := lxa_prefix h1 rfl (tk_dot '`')
        have h3 := lxa_prefix h2 rfl (tk_bq t.toList (fun x hx => (h.2.1 x hx).1) '.')
        have e1 : prE4L d (.column (some t) c) = '`' :: (t.toList ++ ['`']) ++ (['.'] ++ '`' :: (c.toList ++ ['`'])) := by simp [prE4L]
        have e2 : toksE4 d noX (.column (some t) c) = [.single ('`' :: (t.toList ++ ['`'])) Gen.mark_NAME, ctok ['.'],
            .single ('`' :: (c.toList ++ ['`'])) Gen.mark_NAME] := by simp [toksE4, dotTok_eq, nameTok_eq]
        rw [e1, e2]; exact lxr_of_a h3
    case literal v =>
      simp only [leavesE4, lv2_cons_old, lv2_nil, and_true] at hl
      have hlit : litLex v := hl.1
      rcases hlit with ⟨hne, hd⟩ | ⟨k, body, hk, hv, hb, _⟩ | ⟨hw, _⟩
      · have hdig : isDigits v = true := by
          simp only [isDigits, Bool.and_eq_true, Bool.not_eq_eq_eq_not, Bool.not_true, List.isEmpty_eq_false_iff, List.all_eq_true]
          exact ⟨hne, fun x hx => by rw [charIsDigit]; exact hd x hx⟩
        have ht : litTok v = .single v.toList (Gen.mark_LITERAL ||| Gen.mark_LITERAL_INT) := by
          simp [litTok, litMark, hdig, Lex.LITERAL]
        have := lxr_of_tk (tk_int_rb v.toList hne hd)
        simpa [prE4L, toksE4, ht] using this
      · have hhead : v.toList.head? = some k.ch := by rw [hv]; rfl
        have hq : k.ch = '\'' ∨ k.ch = '"' := by cases k <;> first | exact Or.inl rfl | exact Or.inr rfl | exact absurd rfl hk
        have hdig : isDigits v = false := by
          simp only [isDigits, Bool.and_eq_false_iff]
          right
          rw [hv]
          rcases hq with e | e <;> simp [QK.wrap, e] <;> decide
        have ht : litTok v = .single v.toList (Gen.mark_LITERAL ||| Gen.mark_NAME) := by
          have hh : (v.toList.head? == some '\'' || v.toList.head? == some '"') = true := by
            rw [hhead]; rcases hq with e | e <;> simp [e]
          simp [litTok, litMark, hdig, hh, Lex.LITERAL, Lex.NAME]
        have := lxr_of_tk (tk_string_rb k hk body hb)
        rw [← hv] at this
        simpa [prE4L, toksE4, ht] using this
      · -- a word is neither a numeral nor quoted
        exfalso
        cases hv : v.toList with
        | nil => rw [hv] at hw; cases hw
        | cons c cs =>
          have hsw : startsWord c = true := by rw [hv] at hw; simp only [isWord, Bool.and_eq_true] at hw; exact hw.1
          simp only [startsWord, Bool.and_eq_true, Bool.not_eq_eq_eq_not, Bool.not_true] at hsw
          have hnd : isDigit c.toNat = false := hsw.1.1.2
          have hnq := isWordChar_not_quote c hsw.1.1.1
          simp only [numeralB, quotedB, hv, List.head?_cons, List.all_cons, hnd, Bool.false_and, Bool.and_false, Bool.false_or,
            Bool.or_eq_true, beq_iff_eq, Option.some.injEq] at hi
          rcases hi with e | e
          · exact hnq.1 e
          · exact hnq.2 e

theorem ge_index (hK : QW2 K) (a i : Expr) (hd : d = .HIVE) (hb : idxBaseOK4 d a = true) (hi : idxInnerOK i = true)
    (la : Lv2 d K (leavesE4 a)) (li : Lv2 d K (leavesE4 i)) (ga : GE4 d K a) (gi : GE4 d K i)
    (hargs : ∀ n ps, a = .func none n ps → ∀ x ∈ ps, GE4 d K x) : GE4 d K (.index a i) where
  lx := by
    have hA := base_lxa a hb la ga hargs
    have hS := lxa_slice (inner_lxr i hi li gi)
    have : LxA (prE4L d a ++ '[' :: (wrapL i 8 (prE4L d i) ++ [']'])) (toksE4 d noX a ++ [arr (wrapT (noX i) i 8 (toksE4 d noX i))]) := by
      intro T pre rest f fs hT
      have hT1 : T = pre ++ prE4L d a ++ ('[' :: (wrapL i 8 (prE4L d i) ++ [']']) ++ rest) := by rw [hT]; simp
      have e1 : (prE4L d a ++ '[' :: (wrapL i 8 (prE4L d i) ++ [']'])) ++ rest = prE4L d a ++ ('[' :: (wrapL i 8 (prE4L d i) ++ [']']) ++ rest) := by
        simp
      rw [e1, hA T pre _ f fs hT1]
      have hT2 : T = (pre ++ prE4L d a) ++ ('[' :: (wrapL i 8 (prE4L d i) ++ [']'])) ++ rest := by rw [hT]; simp
      have := hS T (pre ++ prE4L d a) rest (f ++ toksE4 d noX a) fs hT2
      simp only [List.length_append, List.length_cons, List.append_assoc] at this ⊢
      rw [this]
      congr 2 <;> omega
    exact Lx.congr (lxa_lx this) (by simp only [prE4L, indexL]) (by simp only [toksE4])
  pr := by
    subst hd
    simp only [PR.prE, ga.pr, gi.pr, Except.map, bind, Except.bind, pure, Except.pure, wrap_ofList, prE4L, indexL]
    refine ok_ofList ?_
    simp [toString, String.toList_append, String.toList_ofList]
  q := by
    have := K.sep _ _ '[' hK.s_lb ga.q (K.post hK.s_rb (gi.qw 8))
    simpa [prE4L, indexL] using this
  fc := by
    obtain ⟨c, b', hc, hne⟩ := ga.fc
    exact ⟨c, b' ++ '[' :: (wrapL i 8 (prE4L d i) ++ [']']), by simp only [prE4L, indexL, hc]; rfl, hne⟩

end
end LL2
