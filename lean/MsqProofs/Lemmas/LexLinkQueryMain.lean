import MsqProofs.Lemmas.LexLinkQuerySelect
/-!
# The lexer link for nested queries: the mutual induction

`good_all d K` : for every size `n`, every fragment expression / query of size `≤ n` whose payloads satisfy the leaf hypotheses
(`Lv d K`) has its record (`GE` / `GQ`): the printed text lexes to the token rendering, the printer prints the mirror, the kit's
property holds.  The induction only assembles the node lemmas of `LexLinkQueryExpr*.lean` / `LexLinkQuerySelect.lean`.
-/
set_option linter.unusedVariables false
set_option linter.unusedSimpArgs false
namespace LexLink
open Lex Spec C05 C06 C09 Ast TP TS TQ

@[simp] theorem lv_nil (d : Gen.D) (K : QKit) : Lv d K [] ↔ True := by simp [Lv]
@[simp] theorem lv_cons (d : Gen.D) (K : QKit) (a : LeafItem) (l : List LeafItem) :
    Lv d K (a :: l) ↔ (leafOK d a ∧ K.item a) ∧ Lv d K l := by simp [Lv]
@[simp] theorem lv_append (d : Gen.D) (K : QKit) (l1 l2 : List LeafItem) : Lv d K (l1 ++ l2) ↔ Lv d K l1 ∧ Lv d K l2 := by simp [Lv]

theorem isSubQ_frag {d : Gen.D} {v : Expr} (h : isSubQ d v = true) : FragE3 d v = true := by
  cases v <;> simp_all [isSubQ, FragE3]

section
variable {d : Gen.D} {K : QKit} {n : Nat}
  (ihE : ∀ e, szE3 e ≤ n → FragE3 d e = true → Lv d K (leavesE e) → GE d K e)
  (ihQ : ∀ q, szQ q ≤ n → FragQ d q = true → Lv d K (leavesQ q) → GQ d K q)
include ihE ihQ

theorem list_rec : ∀ (ps : List Expr), szL3 ps ≤ n → FragL3 d ps = true → Lv d K (leavesL ps) → ∀ a ∈ ps, GE d K a
  | [], _, _, _ => fun a ha => by cases ha
  | p :: ps, hsz, hf, hl => by
    simp only [szL3] at hsz
    simp only [FragL3, Bool.and_eq_true] at hf
    simp only [leavesL, lv_append] at hl
    intro a ha
    rcases List.mem_cons.mp ha with rfl | ha
    · exact ihE a (by omega) hf.1 hl.1
    · exact list_rec ps (by omega) hf.2 hl.2 a ha

theorem arms_rec : ∀ (cs : List (Expr × Expr)), szA3 cs ≤ n → FragA3 d cs = true → Lv d K (leavesA cs) →
    ∀ p ∈ cs, GE d K p.1 ∧ GE d K p.2
  | [], _, _, _ => fun a ha => by cases ha
  | (w, t) :: cs, hsz, hf, hl => by
    simp only [szA3] at hsz
    simp only [FragA3, Bool.and_eq_true] at hf
    simp only [leavesA, lv_append] at hl
    intro a ha
    rcases List.mem_cons.mp ha with rfl | ha
    · exact ⟨ihE w (by omega) hf.1.1 hl.1, ihE t (by omega) hf.1.2 hl.2.1⟩
    · exact arms_rec cs (by omega) hf.2 hl.2.2 a ha

theorem opt_rec (o : Option Expr) (hsz : szO3 o ≤ n) (hf : FragO3 d o = true) (hl : Lv d K (leavesO o)) :
    ∀ y, o = some y → GE d K y := by
  intro y hy
  subst hy
  exact ihE y (by simpa [szO3] using hsz) (by simpa [FragO3] using hf) (by simpa [leavesO] using hl)

/-! ## SELECT parts -/

theorem cols_rec : ∀ (cols : List (Expr × Option String)), szCols cols ≤ n → colsOK3 d cols = true → Lv d K (leavesCols cols) →
    ∀ c ∈ cols, GE d K c.1 ∧ optAliasLex c.2 ∧ ∀ y, c.2 = some y → K.Q y.toList
  | [], _, _, _ => fun a ha => by cases ha
  | (e, a) :: cs, hsz, hf, hl => by
    simp only [szCols] at hsz
    simp only [colsOK3, Bool.and_eq_true] at hf
    simp only [leavesCols, lv_append] at hl
    intro c hc
    rcases List.mem_cons.mp hc with rfl | hc
    · exact ⟨ihE e (by omega) hf.1.1 hl.1, lv_alias hl.2.1⟩
    · exact cols_rec cs (by omega) hf.2 hl.2.2 c hc

theorem table_rec (t : FromTable) (hsz : szTable t ≤ n) (hf : tableOK3 d t = true) (hl : Lv d K (leavesTable t)) : GT d K t := by
  obtain ⟨r, a⟩ := t
  simp only [tableOK3, Bool.and_eq_true] at hf
  simp only [leavesTable, lv_append] at hl
  have ha := lv_alias hl.2
  cases r with
  | table s n =>
    simp only [leavesRef, lv_cons, lv_nil, and_true] at hl
    exact gt_table s n a hl.1.1 hl.1.2 ha.1 ha.2
  | sub q =>
    simp only [szTable, szRef] at hsz
    exact gt_sub q a (ihQ q (by omega) (by simpa [refOK3] using hf.1) (by simpa [leavesRef] using hl.1)) ha.1 ha.2

theorem tables_rec : ∀ (ts : List FromTable), szTables ts ≤ n → tablesOK3 d ts = true → Lv d K (leavesTables ts) → ∀ t ∈ ts, GT d K t
  | [], _, _, _ => fun a ha => by cases ha
  | t :: ts, hsz, hf, hl => by
    simp only [szTables] at hsz
    simp only [tablesOK3, Bool.and_eq_true] at hf
    simp only [leavesTables, lv_append] at hl
    intro x hx
    rcases List.mem_cons.mp hx with rfl | hx
    · exact table_rec ihE ihQ x (by omega) hf.1 hl.1
    · exact tables_rec ts (by omega) hf.2 hl.2 x hx

theorem join_rec (j : Join) (hsz : szJoin j ≤ n) (hf : joinOK3 d j = true) (hl : Lv d K (leavesJoin j)) : GJ d K j := by
  obtain ⟨ty, t, rule⟩ := j
  simp only [szJoin] at hsz
  simp only [joinOK3, Bool.and_eq_true] at hf
  simp only [leavesJoin, lv_append] at hl
  refine gj_join ty t rule hf.1.1 (table_rec ihE ihQ t (by omega) hf.1.2 hl.1) ?_
  cases rule with
  | none => exact Or.inl rfl
  | some r =>
    cases r with
    | on e =>
      simp only [szRule] at hsz
      exact Or.inr ⟨e, rfl, ihE e (by omega) (by simpa [ruleOK3] using hf.2) (by simpa [leavesRule] using hl.2)⟩
    | «using» u => simp [ruleOK3] at hf

theorem joins_rec : ∀ (js : List Join), szJoins js ≤ n → joinsOK3 d js = true → Lv d K (leavesJoins js) → ∀ j ∈ js, GJ d K j
  | [], _, _, _ => fun a ha => by cases ha
  | j :: js, hsz, hf, hl => by
    simp only [szJoins] at hsz
    simp only [joinsOK3, Bool.and_eq_true] at hf
    simp only [leavesJoins, lv_append] at hl
    intro x hx
    rcases List.mem_cons.mp hx with rfl | hx
    · exact join_rec ihE ihQ x (by omega) hf.1 hl.1
    · exact joins_rec js (by omega) hf.2 hl.2 x hx

theorem ords_rec : ∀ (os : List OrderItem), szOrdL os ≤ n → ordTailOK3 d os = true → Lv d K (leavesOrdL os) → ∀ o ∈ os, GO d K o
  | [], _, _, _ => fun a ha => by cases ha
  | o :: os, hsz, hf, hl => by
    simp only [szOrdL] at hsz
    simp only [ordTailOK3, Bool.and_eq_true] at hf
    simp only [leavesOrdL, lv_append] at hl
    intro x hx
    rcases List.mem_cons.mp hx with rfl | hx
    · obtain ⟨e, desc, nf, nl⟩ := x
      simp only [ordItemOK3, Bool.and_eq_true, Bool.not_eq_true'] at hf
      simp only [szOrdItem] at hsz
      obtain ⟨⟨⟨h1, h2⟩, h3⟩, _⟩ := hf
      subst h2; subst h3
      exact go_item e desc (ihE e (by omega) h1 (by simpa [leavesOrdItem] using hl.1))
    · exact ords_rec os (by omega) hf.2 hl.2 x hx

/-- **a single SELECT**, from the induction hypotheses for its members -/
theorem good_S (s : Select) (hsz : szS3 s ≤ n + 1) (hs : FragS3 d s = true) (hl : Lv d K (leavesS s)) : GS d K s := by
  obtain ⟨ws, dist, cols, fr, lats, js, wh, gb, hv, ob, sb, db, cb, lm⟩ := s
  cases ws with
  | none => simp [FragS3] at hs
  | some w =>
  cases w with
  | cons a b => simp [FragS3] at hs
  | nil =>
  cases lats with
  | cons a b => simp [FragS3] at hs
  | nil =>
  cases sb with
  | some a => simp [FragS3] at hs
  | none =>
  cases db with
  | some a => simp [FragS3] at hs
  | none =>
  cases cb with
  | some a => simp [FragS3] at hs
  | none =>
  simp only [FragS3, Bool.and_eq_true] at hs
  obtain ⟨⟨⟨⟨⟨⟨⟨⟨⟨hcols, hne⟩, hfr⟩, hjs⟩, hwh⟩, hgb⟩, hhv⟩, hob⟩, hlm⟩, _⟩ := hs
  simp only [leavesS, lv_append] at hl
  obtain ⟨lcols, lfr, ljs, lwh, lgb, lhv, lob⟩ := hl
  simp only [szS3] at hsz
  have cne : cols ≠ [] := by
    intro e; subst e; simp at hne
  refine gs_select dist cols fr js wh gb hv ob lm (cols_all cols cne (cols_rec ihE ihQ cols (by omega) hcols lcols)) ?_ ?_
    (cl_where wh (opt_rec ihE ihQ wh (by omega) hwh lwh)) ?_ (cl_having hv (opt_rec ihE ihQ hv (by omega) hhv lhv)) ?_ (cl_limit lm hlm)
  · -- FROM
    refine cl_from fr ?_ ?_
    · intro e; subst e; simp [fromOK3] at hfr
    · intro l hl t ht
      subst hl
      cases l with
      | nil => cases ht
      | cons t0 ts =>
        simp only [fromOK3] at hfr
        exact tables_rec ihE ihQ (t0 :: ts) (by simp only [szFrom] at hsz; omega) (by simpa [tablesOK3] using hfr)
          (by simpa [leavesFrom] using lfr) t ht
  · exact cl_joins js (joins_rec ihE ihQ js (by omega) hjs ljs)
  · -- GROUP BY
    cases gb with
    | none => exact cl_group none (Or.inl rfl) (fun e es a b c h => by cases h)
    | some g =>
      obtain ⟨gc, sets, cube, rollup⟩ := g
      cases gc with
      | nil => simp [groupOK3] at hgb
      | cons e es =>
        cases sets with
        | some x => simp [groupOK3] at hgb
        | none =>
        cases cube with
        | true => simp [groupOK3] at hgb
        | false =>
        cases rollup with
        | true => simp [groupOK3] at hgb
        | false =>
        simp only [groupOK3, Bool.and_eq_true] at hgb
        refine cl_group _ (Or.inr ⟨e, es, rfl⟩) ?_
        intro e' es' a b c h
        cases h
        exact list_rec ihE ihQ (e :: es) (by simp only [szGroup] at hsz; omega) (by simp only [FragL3, Bool.and_eq_true]; exact hgb.1)
          (by simpa [leavesGroup] using lgb)
  · -- ORDER BY
    refine cl_order ob ?_ ?_
    · intro e; subst e; simp [orderOK3] at hob
    · intro l hl o ho
      subst hl
      cases l with
      | nil => cases ho
      | cons o0 os =>
        simp only [orderOK3] at hob
        exact ords_rec ihE ihQ (o0 :: os) (by simp only [szOrder] at hsz; omega) (by simpa [ordTailOK3] using hob)
          (by simpa [leavesOrder] using lob) o ho

theorem un_rec : ∀ (us : List (String × Select)), szUn us ≤ n + 1 → FragUn d us = true → Lv d K (leavesUn us) →
    ∀ p ∈ us, unionTyOK d p.1 = true ∧ GS d K p.2
  | [], _, _, _ => fun a ha => by cases ha
  | (t, s) :: us, hsz, hf, hl => by
    simp only [szUn] at hsz
    simp only [FragUn, Bool.and_eq_true] at hf
    simp only [leavesUn, lv_append] at hl
    intro x hx
    rcases List.mem_cons.mp hx with rfl | hx
    · exact ⟨hf.1.1, good_S ihE ihQ s (by omega) hf.1.2 hl.1⟩
    · exact un_rec us (by omega) hf.2 hl.2 x hx

/-- **the query step** -/
theorem good_Q (q : Query) (hsz : szQ q ≤ n + 1) (hq : FragQ d q = true) (hl : Lv d K (leavesQ q)) : GQ d K q := by
  cases q with
  | single s =>
    simp only [szQ] at hsz
    exact gq_single s (good_S ihE ihQ s (by omega) (by simpa [FragQ] using hq) (by simpa [leavesQ] using hl))
  | union ws s us =>
    cases ws with
    | none => simp [FragQ] at hq
    | some l =>
      cases l with
      | cons _ _ => simp [FragQ] at hq
      | nil =>
        simp only [FragQ, Bool.and_eq_true, Bool.true_and] at hq
        simp only [szQ] at hsz
        simp only [leavesQ, lv_append] at hl
        exact gq_union s us (good_S ihE ihQ s (by omega) hq.1.1 hl.1) (un_rec ihE ihQ us (by omega) hq.1.2 hl.2)

/-- **the expression step** -/
theorem good_E (e : Expr) (hsz : szE3 e ≤ n + 1) (hf : FragE3 d e = true) (hl : Lv d K (leavesE e)) : GE d K e := by
  cases e <;> (try simp only [szE3] at hsz) <;> (try simp only [FragE3, Bool.and_eq_true] at hf) <;> try (simp at hf; done)
  case column t c =>
    simp only [leavesE, lv_cons, lv_nil, and_true] at hl
    cases t with
    | none => exact ge_col c hl.1 (hl.2 c (by simp [strs]))
    | some t => exact ge_qcol t c hl.1 (hl.2 t (by simp [strs])) (hl.2 c (by simp [strs]))
  case literal v =>
    simp only [leavesE, lv_cons, lv_nil, and_true] at hl
    exact ge_lit v hf hl.1 (hl.2 v (by simp [strs]))
  case wildcard t =>
    cases t with
    | none => exact ge_star
    | some t =>
      simp only [leavesE, lv_cons, lv_nil, and_true] at hl
      exact ge_wild t hl.1 (hl.2 t (by simp [strs]))
  case func s nm ps =>
    simp only [leavesE, lv_cons] at hl
    exact ge_func s nm ps hl.1.1 hl.1.2 (list_rec ihE ihQ ps (by omega) hf.2 hl.2)
  case agg nm ps dist =>
    simp only [leavesE, lv_cons] at hl
    exact ge_agg nm ps dist hl.1.1 (hl.1.2 nm (by simp [strs])) (list_rec ihE ihQ ps (by omega) hf.2 hl.2)
  case caseCond cs els =>
    simp only [leavesE, lv_append] at hl
    exact ge_caseCond cs els (arms_rec ihE ihQ cs (by omega) hf.1.1 hl.1) (opt_rec ihE ihQ els (by omega) hf.1.2 hl.2)
  case caseVal v cs els =>
    simp only [leavesE, lv_append] at hl
    exact ge_caseVal v cs els (ihE v (by omega) hf.1.1.1 hl.1) (arms_rec ihE ihQ cs (by omega) hf.1.1.2 hl.2.1)
      (opt_rec ihE ihQ els (by omega) hf.1.2 hl.2.2)
  case subQuery q =>
    exact ge_subQuery q (ihQ q (by omega) hf (by simpa [leavesE] using hl))
  case exists_ v =>
    exact ge_exists v (ihE v (by omega) (isSubQ_frag hf) (by simpa [leavesE] using hl))
  case unary o y =>
    exact ge_unary o y hf.1 (ihE y (by omega) hf.2 (by simpa [leavesE] using hl))
  case compute l o r =>
    simp only [leavesE, lv_append] at hl
    exact ge_compute l r o hf.1.1 (ihE l (by omega) hf.1.2 hl.1) (ihE r (by omega) hf.2 hl.2)
  case kw k n0 l r =>
    simp only [leavesE, lv_append] at hl
    refine ge_kw k n0 l r (ihE l (by omega) hf.1.1 hl.1) ?_
    by_cases hk : k = .in_
    · subst hk
      have hr := hf.1.2
      simp only [beq_self_eq_true, if_true] at hr
      cases r <;> try (simp [inRhs3] at hr; done)
      case subValue vs =>
        simp only [inRhs3, Bool.and_eq_true] at hr
        simp only [szE3] at hsz
        exact ge_subValue vs (list_rec ihE ihQ vs (by omega) hr.1.1 (by simpa [leavesE] using hl.2))
      case subQuery q =>
        exact ihE _ (by omega) (by simpa [FragE3, inRhs3] using hr) hl.2
    · have hk' : (k == KwKind.in_) = false := by simpa using hk
      have hr := hf.1.2
      simp only [hk', Bool.false_eq_true, if_false] at hr
      exact ihE r (by omega) hr hl.2
  case between n0 b f t =>
    simp only [leavesE, lv_append] at hl
    exact ge_between n0 b f t (ihE b (by omega) hf.1.1.1 hl.1) (ihE f (by omega) hf.1.1.2 hl.2.1) (ihE t (by omega) hf.1.2 hl.2.2)
  case compare o l r =>
    simp only [leavesE, lv_append] at hl
    exact ge_compare o l r hf.1.1.1 (ihE l (by omega) hf.1.1.2 hl.1) (ihE r (by omega) hf.1.2 hl.2)
  case not_ y => exact ge_not y (ihE y (by omega) hf (by simpa [leavesE] using hl))
  case and_ l r =>
    simp only [leavesE, lv_append] at hl
    exact ge_and l r (ihE l (by omega) hf.1 hl.1) (ihE r (by omega) hf.2 hl.2)
  case xor l r =>
    simp only [leavesE, lv_append] at hl
    exact ge_xor l r (ihE l (by omega) hf.1 hl.1) (ihE r (by omega) hf.2 hl.2)
  case or_ l r =>
    simp only [leavesE, lv_append] at hl
    exact ge_or l r (ihE l (by omega) hf.1 hl.1) (ihE r (by omega) hf.2 hl.2)

end

/-- **the mutual induction** -/
theorem good_all (d : Gen.D) (K : QKit) : ∀ n,
    (∀ e, szE3 e ≤ n → FragE3 d e = true → Lv d K (leavesE e) → GE d K e) ∧
    (∀ q, szQ q ≤ n → FragQ d q = true → Lv d K (leavesQ q) → GQ d K q) := by
  intro n
  induction n with
  | zero =>
    refine ⟨fun e he => ?_, fun q hq => ?_⟩
    · have := szE3_pos e; omega
    · cases q <;> simp [szQ] at hq
  | succ n ih =>
    obtain ⟨ihE, ihQ⟩ := ih
    exact ⟨fun e he hf hl => good_E ihE ihQ e he hf hl, fun q hq hf hl => good_Q ihE ihQ q hq hf hl⟩

theorem good_expr (d : Gen.D) (K : QKit) (e : Expr) (hf : FragE3 d e = true) (hl : Lv d K (leavesE e)) : GE d K e :=
  (good_all d K (szE3 e)).1 e (Nat.le_refl _) hf hl
theorem good_query (d : Gen.D) (K : QKit) (q : Query) (hf : FragQ d q = true) (hl : Lv d K (leavesQ q)) : GQ d K q :=
  (good_all d K (szQ q)).2 q (Nat.le_refl _) hf hl

end LexLink
