import MsqProofs.Lemmas.TRest1
/-!
# T-parse for ALTER TABLE (C03 / C01)

* `After d r` — what follows a clause of ALTER TABLE: the `,` of the next clause, or the continuation of the statement (`stopsAny`);
* the DDL pieces of `Lemmas/TDdl*.lean` with a continuation instead of the end of a bracket segment: `defCol_after`, `index_after`
  (the four key parsers), `fk_after`; `colOrIdx_ok` (`_parse_column_or_index`);
* `partition_ok` (`_parse_partition_expression` called with the word PARTITION already consumed);
* `alterOp_ok` (`_parse_alter_expression`, every `AlterOp` of the model), `alterLoop_ok`, `alter_ok` (the statement through `pStatement`).
-/
set_option linter.unusedVariables false
set_option linter.unusedSimpArgs false
set_option maxHeartbeats 2000000
open Lex PM Ast TP TS
namespace TR
variable {d : Gen.D}

/-! ### what follows a clause -/
def After (d : Gen.D) (r : List Tok) : Prop := (∃ x, r = commaTok :: x) ∨ stopsAny d r = true
theorem After.comma (x : List Tok) : After d (commaTok :: x) := Or.inl ⟨x, rfl⟩
theorem After.stops {r : List Tok} (h : stopsAny d r = true) : After d r := Or.inr h
theorem up_comma : up "," = "," := by decide
theorem After.up {r : List Tok} (h : After d r) (k : String) (h1 : k ≠ ";") (h2 : k ≠ ",") : searchStrUp r k = false := by
  rcases h with ⟨x, rfl⟩ | h
  · simp only [searchStrUp, commaTok, TD.srcEqUp_opTok, up_comma, beq_eq_false_iff_ne, ne_eq]; exact fun e => h2 e.symm
  · exact sa_up h k h1
theorem After.str {r : List Tok} (h : After d r) (k : String) (h1 : k ≠ ";") (h2 : k ≠ ",") : searchStr r k = false := by
  rcases h with ⟨x, rfl⟩ | h
  · simp only [searchStr, commaTok, TD.srcEq_opTok, beq_eq_false_iff_ne, ne_eq]; exact fun e => h2 e.symm
  · exact sa_str h k h1
theorem After.two {r : List Tok} (h : After d r) (a b : String) (h1 : a ≠ ";") (h2 : a ≠ ",") : searchTwoUp r a b = false := by
  rcases h with ⟨x, rfl⟩ | h
  · have : commaTok.srcEqUp a = false := by
      simp only [commaTok, TD.srcEqUp_opTok, up_comma, beq_eq_false_iff_ne, ne_eq]; exact fun e => h2 e.symm
    cases x <;> simp [searchTwoUp, this]
  · exact sa_two h a b h1
theorem After.paren {r : List Tok} (h : After d r) : searchMark r PAREN = false := by
  rcases h with ⟨x, rfl⟩ | h
  · have : commaTok.has PAREN = false := by decide
    simpa [searchMark] using this
  · exact sa_paren h
theorem After.stop8 {r : List Tok} (h : After d r) : stopLE d 8 r = true := by
  rcases h with ⟨x, rfl⟩ | h
  · exact TS.comma_stop8 x
  · exact stopLE_mono (TP2.sl (sa_stops2 h)) (by omega)
theorem After.ends {r : List Tok} (h : After d r) : (r.isEmpty || searchStr r ";" || searchStr r ",") = true := by
  rcases h with ⟨x, rfl⟩ | h
  · have : commaTok.srcEq "," = true := by decide
    simp [searchStr, this]
  · exact sa_end h

theorem headIn_paren {ks : List String} {ts : List Tok} (h : TD.HeadIn ks ts) (hP : ks.all (fun k => !(opTok k).has PAREN) = true)
    (r : List Tok) (hr : searchMark r PAREN = false) : searchMark (ts ++ r) PAREN = false := by
  rcases h with rfl | ⟨k, x, hk, rfl⟩
  · simpa using hr
  · have := List.all_eq_true.1 hP k hk
    simpa [searchMark] using this
theorem headIn_stop8 {ks : List String} {ts : List Tok} (h : TD.HeadIn ks ts) (hP : ks.all (fun k => stopTok d 8 (opTok k)) = true)
    (r : List Tok) (hr : stopLE d 8 r = true) : stopLE d 8 (ts ++ r) = true := by
  rcases h with rfl | ⟨k, x, hk, rfl⟩
  · simpa using hr
  · exact List.all_eq_true.1 hP k hk

/-! ### a column definition followed by a continuation -/
theorem dl_end_after (f : Nat) (c : DefCol) (r : List Tok) (hr : After d r) : TD.DL d f c r 1 (c, r) := by
  intro g hg
  obtain ⟨g, rfl⟩ : ∃ k, g = k + 1 := ⟨g - 1, by omega⟩
  simp [defColLoop, hr.ends]

theorem defCol_after (c : DefCol) (hc : TD.colOK d c = true) (r : List Tok) (hr : After d r) (f : Nat)
    (hf : 20 * sizeL (TD.toksDefCol d c) + 2 ≤ f) : pDefCol d f (TD.toksDefCol d c ++ r) = .ok (c, r) := by
  have hattr := TD.headIn_attrs (d := d) c
  obtain ⟨n, ty, us, zf, cs, co, gen, an, nn, ai, df, ou, cm⟩ := c
  simp only [TD.colOK, Bool.and_eq_true, TD.nameOK, beq_iff_eq] at hc
  obtain ⟨⟨hn, hty⟩, hrest⟩ := hc
  have hsz : sizeL (TD.toksDefCol d ⟨n, ty, us, zf, cs, co, gen, an, nn, ai, df, ou, cm⟩) =
      1 + (sizeL (TD.toksType d ty) + sizeL (TD.toksAttrs d ⟨n, ty, us, zf, cs, co, gen, an, nn, ai, df, ou, cm⟩)) := by
    simp [TD.toksDefCol, sizeL_cons, sizeL_append, nameTok, size_single]
  have h1 : pColType d f (TD.toksType d ty ++ (TD.toksAttrs d ⟨n, ty, us, zf, cs, co, gen, an, nn, ai, df, ou, cm⟩ ++ r)) =
      .ok (ty, TD.toksAttrs d ⟨n, ty, us, zf, cs, co, gen, an, nn, ai, df, ou, cm⟩ ++ r) :=
    TD.pColType_ok ty hty _ (headIn_paren hattr (by decide) r hr.paren) f (by omega)
  have s1 : stopLE d 8 (TD.toksComment cm ++ r) = true := by
    have h0 : TD.HeadIn ["COMMENT"] (TD.toksComment cm) := by
      have := TD.HeadIn.comment cm [] (ks := ["COMMENT"]) (by decide) (TD.HeadIn.nil _)
      simpa using this
    exact headIn_stop8 h0 (by cases d <;> decide) r hr.stop8
  have s2 : stopLE d 8 (TD.toksOnUpdate d ou ++ (TD.toksComment cm ++ r)) = true := by
    have := headIn_stop8 (d := d) (TD.HeadIn.onUpdate (d := d) ou _ (ks := ["ON", "COMMENT"]) (by decide)
      (TD.HeadIn.comment cm [] (by decide) (TD.HeadIn.nil _))) (by cases d <;> decide) r hr.stop8
    simpa using this
  simp only [pDefCol, TD.toksDefCol, List.cons_append, List.append_assoc, popSrc, hn, h1]
  by_cases hd : d = .MYSQL
  · subst hd
    simp only [if_true, Bool.and_eq_true] at hrest
    have hA : TD.toksAttrs .MYSQL ⟨n, ty, us, zf, cs, co, gen, an, nn, ai, df, ou, cm⟩ =
        TD.toksMyAttrs .MYSQL ⟨n, ty, us, zf, cs, co, gen, an, nn, ai, df, ou, cm⟩ (TD.toksComment cm) := by simp [TD.toksAttrs]
    rw [hA] at hsz ⊢
    simp only [TD.toksMyAttrs, sizeL_append] at hsz
    have hfd : ∀ e, df = some e → 20 * sizeL (W .MYSQL noX e 8) + 2 ≤ f := by
      intro e he; subst he; simp only [TD.toksDefault, sizeL_cons] at hsz; omega
    have hfo : ∀ e, ou = some e → 20 * sizeL (W .MYSQL noX e 8) + 2 ≤ f := by
      intro e he; subst he; simp only [TD.toksOnUpdate, sizeL_cons] at hsz; omega
    have hfg : ∀ e m, gen = some ⟨e, some m⟩ → 20 * sizeL (W .MYSQL noX e 8) + 2 ≤ f := by
      intro e m he; subst he; simp only [TD.toksGenerated, sizeL_cons, size_grp] at hsz; omega
    have k0 := dl_end_after (d := .MYSQL) f ⟨n, ty, us, zf, cs, co, gen, an, nn, ai, df, ou, cm⟩ r hr
    have k1 := TD.dl_comment f n ty us zf cs co gen an nn ai df ou cm r _ _ k0
    have k2 := TD.dl_onUpdate f n ty us zf cs co gen an nn ai df ou none _ _ _ s1 hrest.1.2 hfo k1
    have k3 := TD.dl_default f n ty us zf cs co gen an nn ai df none none _ _ _ s2 hrest.1.1 hfd k2
    have k4 := TD.dl_autoInc f n ty us zf cs co gen an nn ai none none none _ _ _ k3
    have k5 := TD.dl_notNull f n ty us zf cs co gen an nn false none none none _ _ _ k4
    have k6 := TD.dl_allowNull f n ty us zf cs co gen an false false none none none _ _ _ k5
    have k6' := TD.dl_generated f n ty us zf cs co gen false false false none none none _ _ _ hrest.2 hfg k6
    have k7 := TD.dl_collate f n ty us zf cs co none false false false none none none _ _ _ k6'
    have k8 := TD.dl_charset f n ty us zf cs none none false false false none none none _ _ _ k7
    have k9 := TD.dl_zerofill f n ty us zf none none none false false false none none none _ _ _ k8
    have k10 := TD.dl_unsigned f n ty us false none none none false false false none none none _ _ _ k9
    simp only [TD.toksMyAttrs, List.append_assoc]
    exact k10 _ (by simp only [List.length_append]; omega)
  · have hb : (d == Gen.D.MYSQL) = false := by simpa using hd
    rw [if_neg hd] at hrest
    simp only [Bool.and_eq_true, Bool.not_eq_true', Option.isNone_iff_eq_none] at hrest
    obtain ⟨⟨⟨⟨⟨⟨⟨⟨⟨g0, g1⟩, g2⟩, g3⟩, g4⟩, g5⟩, g6⟩, g7⟩, g8⟩, g9⟩ := hrest
    subst g0 g1 g2 g3 g4 g5 g6 g7 g8 g9
    have hA : TD.toksAttrs d ⟨n, ty, false, false, none, none, none, false, false, false, none, none, cm⟩ = TD.toksComment cm := by
      simp [TD.toksAttrs, hb]
    rw [hA]
    have k0 := dl_end_after (d := d) f ⟨n, ty, false, false, none, none, none, false, false, false, none, none, cm⟩ r hr
    have k1 := TD.dl_comment f n ty false false none none none false false false none none cm r _ _ k0
    exact k1 _ (by simp only [List.length_append]; omega)

/-! ### keys and foreign keys followed by a continuation -/
theorem indexTail_after (i : Index) (hc : i.cols.all TD.idxColOK = true) (hk : TD.optIntOK i.keyBlockSize = true) (kind : IndexKind)
    (name : Option String) (r : List Tok) (hr : After d r) :
    pIndexTail kind name (TD.toksIdxTail i ++ r) = .ok (⟨kind, name, i.cols, i.usingMethod, i.comment, i.keyBlockSize⟩, r) := by
  obtain ⟨k0, n0, cols, um, cm, kbs⟩ := i
  have u1 := hr.up "USING" (by decide) (by decide)
  have u2 := hr.up "COMMENT" (by decide) (by decide)
  have u3 := hr.two "KEY_BLOCK_SIZE" "=" (by decide) (by decide)
  simp only [TD.toksIdxTail, pIndexTail, List.cons_append, TD.pIndexCols_ok cols hc]
  cases um <;> cases cm <;> cases kbs
  all_goals simp only [TD.optKw, TD.toksKbs, pOptSrc, List.nil_append, List.cons_append, TD.eqTok]
  all_goals try kw_simp
  all_goals try simp only [u1, u2, u3, Bool.false_eq_true, if_false]
  all_goals try kw_simp
  all_goals try simp only [u1, u2, u3, Bool.false_eq_true, if_false]
  all_goals try simp only [TD.popInt_ok _ hk r]

theorem index_after (i : Index) (h : TD.idxOK i.kind i = true) (r : List Tok) (hr : After d r) :
    (match i.kind with
     | .primary => pPrimaryIndex (TD.toksIndex i ++ r)
     | .unique => pUniqueIndex (TD.toksIndex i ++ r)
     | .normal => pNormalIndex (TD.toksIndex i ++ r)
     | .fulltext => pFulltextIndex (TD.toksIndex i ++ r)) = .ok (i, r) := by
  obtain ⟨k0, n0, cols, um, cm, kbs⟩ := i
  simp only [TD.idxOK, Bool.and_eq_true] at h
  obtain ⟨⟨⟨_, hn⟩, hc⟩, hb⟩ := h
  have ht := fun kind name => indexTail_after (d := d) ⟨k0, n0, cols, um, cm, kbs⟩ hc hb kind name r hr
  simp only at ht
  cases k0 with
  | primary =>
    simp only [beq_self_eq_true, if_true, Option.isNone_iff_eq_none] at hn
    subst hn
    simp only [TD.toksIndex, TD.kindToks, TD.toksIdxName, pPrimaryIndex]
    kw_simp
    simp only [ht]
  | unique =>
    have hn : n0.isSome = true := by simpa using hn
    obtain ⟨n, rfl⟩ := Option.isSome_iff_exists.1 hn
    simp only [TD.toksIndex, TD.kindToks, TD.toksIdxName, pUniqueIndex, pNamedIndex]
    kw_simp
    simp only [ht]
  | normal =>
    have hn : n0.isSome = true := by simpa using hn
    obtain ⟨n, rfl⟩ := Option.isSome_iff_exists.1 hn
    simp only [TD.toksIndex, TD.kindToks, TD.toksIdxName, pNormalIndex, pNamedIndex]
    kw_simp
    simp only [ht]
  | fulltext =>
    have hn : n0.isSome = true := by simpa using hn
    obtain ⟨n, rfl⟩ := Option.isSome_iff_exists.1 hn
    simp only [TD.toksIndex, TD.kindToks, TD.toksIdxName, pFulltextIndex, pNamedIndex]
    kw_simp
    simp only [ht]

theorem optFkAction_none (b : String) (r : List Tok) (hr : After d r) : pOptFkAction (TD.toksFkAct b none ++ r) "ON" b = .ok (none, r) := by
  simp only [TD.toksFkAct, List.nil_append, pOptFkAction, hr.two "ON" b (by decide) (by decide), Bool.false_eq_true, if_false]

theorem fk_after (k : ForeignKey) (h : TD.fkOK k = true) (r : List Tok) (hr : After d r) :
    pForeignKey (TD.toksFk k ++ r) = .ok (k, r) := by
  obtain ⟨cn, sl, ms, mc, od, ou⟩ := k
  simp only [TD.fkOK, Bool.and_eq_true] at h
  obtain ⟨⟨⟨h1, h2⟩, h3⟩, h4⟩ := h
  simp only [TD.toksFk, pForeignKey]
  kw_simp
  simp only [TD.pNameList_ok sl h1]
  kw_simp
  simp only [TD.pNameList_ok mc h2]
  have hD : up "DELETE" = "DELETE" := by decide
  have hU : up "UPDATE" = "UPDATE" := by decide
  have e2 : pOptFkAction (TD.toksFkAct "UPDATE" ou ++ r) "ON" "UPDATE" = .ok (ou, r) := by
    cases ou with
    | none => exact optFkAction_none "UPDATE" r hr
    | some u => exact TD.pOptFkAction_some "UPDATE" u h4 r hU
  cases od with
  | none =>
    have e1 : pOptFkAction (TD.toksFkAct "DELETE" none ++ (TD.toksFkAct "UPDATE" ou ++ r)) "ON" "DELETE" =
        .ok (none, TD.toksFkAct "UPDATE" ou ++ r) := by
      cases ou with
      | none => exact optFkAction_none "DELETE" _ (by simpa [TD.toksFkAct] using hr)
      | some u => simp only [TD.toksFkAct, List.nil_append, pOptFkAction, List.cons_append]; kw_simp
    simp only [e1, e2]
  | some dl =>
    have e1 := TD.pOptFkAction_some "DELETE" dl h3 (TD.toksFkAct "UPDATE" ou ++ r) hD
    simp only [e1, e2]

/-! ### `_parse_column_or_index` -/
theorem sizeL_colOrIdx_col (c : DefCol) : sizeL (toksColOrIdx d (.col c)) = sizeL (TD.toksDefCol d c) := rfl
theorem colOrIdx_ok (x : ColOrIdx) (hx : colOrIdxOK d x = true) (r : List Tok) (hr : After d r) (f : Nat)
    (hf : 20 * sizeL (toksColOrIdx d x) + 2 ≤ f) : pColOrIdx d f (toksColOrIdx d x ++ r) = .ok (x, r) := by
  cases x with
  | col c =>
    simp only [colOrIdxOK] at hx
    have h1 := defCol_after c hx r hr f hf
    simp only [toksColOrIdx] at h1 ⊢
    unfold pColOrIdx
    simp only [TD.toksDefCol, List.cons_append, List.append_assoc] at h1 ⊢
    kw_simp
    simp only [h1]
  | idx i =>
    simp only [colOrIdxOK] at hx
    have h1 := index_after i hx r hr
    obtain ⟨k0, n0, cols, um, cm, kbs⟩ := i
    simp only [toksColOrIdx]
    unfold pColOrIdx
    cases k0 <;> simp only [TD.toksIndex, TD.kindToks, List.cons_append, List.nil_append, List.append_assoc] at h1 ⊢ <;> kw_simp <;> simp only [h1]
  | fk k =>
    simp only [colOrIdxOK] at hx
    have h1 := fk_after k hx r hr
    simp only [toksColOrIdx]
    unfold pColOrIdx
    simp only [TD.toksFk, List.cons_append, List.append_assoc] at h1 ⊢
    kw_simp
    simp only [h1]

/-! ### a partition list after the word PARTITION -/
theorem partition_ok (p : List Expr) (hp : TDM2.PartRec d noX (some p)) (x : List Tok) (f : Nat)
    (hf : 20 * sizeL (TDM2.joinC (p.map (TQ2.toksE4 d noX))) + 2 ≤ f) : pPartition d f true (partGrp d p :: x) = .ok (p, x) := by
  have h1 : pPartition d f false (opTok "PARTITION" :: partGrp d p :: x) = .ok (p, x) := by
    rcases hp with hp | hp
    · exact TDM2.items_ok p true (fun e he => TDM2.static_item e (hp e he)) x f hf
    · exact TDM2.items_ok p false (fun e he => TDM2.dyn_item e (hp e he)) x f hf
  have e : pPartition d f false (opTok "PARTITION" :: partGrp d p :: x) = pPartition d f true (partGrp d p :: x) := by
    unfold pPartition
    kw_simp
  rw [← e]; exact h1

/-! ### one clause of ALTER TABLE -/
theorem colOrIdx_head (x : ColOrIdx) (r : List Tok) :
    ∃ t y, toksColOrIdx d x ++ r = t :: y ∧ t.srcEqUp "PARTITION" = false ∧ t.equalsStr "IF" = false := by
  cases x with
  | col c => exact ⟨nameTok c.name, _, rfl, by kw_simp, by kw_simp⟩
  | idx i =>
    obtain ⟨k0, n0, cols, um, cm, kbs⟩ := i
    cases k0
    · exact ⟨opTok "PRIMARY", _, rfl, by decide, by decide⟩
    · exact ⟨opTok "UNIQUE", _, rfl, by decide, by decide⟩
    · exact ⟨opTok "KEY", _, rfl, by decide, by decide⟩
    · exact ⟨opTok "FULLTEXT", _, rfl, by decide, by decide⟩
  | fk k => exact ⟨opTok "CONSTRAINT", _, rfl, by decide, by decide⟩

theorem sizeL_flag (b : Bool) (ts : List Tok) : sizeL (TD.flag b ts) = if b then sizeL ts else 0 := by cases b <;> simp [TD.flag, sizeL]

theorem alterOp_ok (o : AlterOp) (ho : alterOpOK d o = true) (r : List Tok) (hr : After d r) (f : Nat)
    (hf : 20 * sizeL (toksAlterOp d o) + 2 ≤ f) : pAlterExpr d f (toksAlterOp d o ++ r) = .ok (o, r) := by
  cases o with
  | addPartition b p =>
    simp only [alterOpOK] at ho
    have hp := TDM2.partRec TQ2.chOK_noX (some p) ho
    simp only [toksAlterOp, sizeL_cons, sizeL_append, size_opTok, partGrp, size_grp, sizeL] at hf
    have h1 := partition_ok p hp r f (by omega)
    unfold pAlterExpr
    cases b
    · simp only [toksAlterOp, TD.flag, Bool.false_eq_true, if_false]
      kw_simp
      simp only [h1]
    · simp only [toksAlterOp, TD.flag, if_true]
      kw_simp
      simp only [h1]
  | add x =>
    simp only [alterOpOK] at ho
    simp only [toksAlterOp, sizeL_cons, size_opTok] at hf
    have h1 := colOrIdx_ok x ho r hr f (by omega)
    obtain ⟨t0, y0, e0, c1, c2⟩ := colOrIdx_head (d := d) x r
    show pAlterExpr d f (opTok "ADD" :: (toksColOrIdx d x ++ r)) = _
    rw [e0] at h1 ⊢
    unfold pAlterExpr
    kw_simp
    simp only [c1, c2, Bool.false_eq_true, if_false, false_and, h1]
  | modify x =>
    simp only [alterOpOK] at ho
    simp only [toksAlterOp, sizeL_cons, size_opTok] at hf
    have h1 := colOrIdx_ok x ho r hr f (by omega)
    unfold pAlterExpr
    simp only [toksAlterOp, List.cons_append]
    kw_simp
    simp only [h1]
  | change a t =>
    simp only [alterOpOK, Bool.and_eq_true, TD.nameOK, beq_iff_eq] at ho
    simp only [toksAlterOp, sizeL_cons, size_opTok] at hf
    have h1 := colOrIdx_ok t ho.2 r hr f (by omega)
    unfold pAlterExpr
    simp only [toksAlterOp, List.cons_append]
    kw_simp
    simp only [ho.1, h1]
  | renameColumn a b =>
    simp only [alterOpOK, Bool.and_eq_true, TD.nameOK, beq_iff_eq] at ho
    unfold pAlterExpr
    simp only [toksAlterOp, List.cons_append]
    kw_simp
    simp only [ho.1, ho.2]
  | dropColumn c =>
    simp only [alterOpOK, TD.nameOK, beq_iff_eq] at ho
    unfold pAlterExpr
    simp only [toksAlterOp, List.cons_append]
    kw_simp
    simp only [ho]
  | dropPartition b p =>
    simp only [alterOpOK] at ho
    have hp := TDM2.partRec TQ2.chOK_noX (some p) ho
    simp only [toksAlterOp, sizeL_cons, sizeL_append, size_opTok, partGrp, size_grp, sizeL] at hf
    have h1 := partition_ok p hp r f (by omega)
    unfold pAlterExpr
    cases b
    · simp only [toksAlterOp, TD.flag, Bool.false_eq_true, if_false]
      kw_simp
      simp only [h1]
    · simp only [toksAlterOp, TD.flag, if_true]
      kw_simp
      simp only [h1]

/-! ### the clause loop, the statement -/
theorem alterTail_after (ops : List AlterOp) (rest : List Tok) (hr : stopsAny d rest = true) : After d (toksAlterTail d ops ++ rest) := by
  cases ops with
  | nil => exact After.stops hr
  | cons o r => exact After.comma _
theorem length_alterTail (ops : List AlterOp) : ops.length ≤ (toksAlterTail d ops).length := by
  induction ops with
  | nil => simp [toksAlterTail]
  | cons o r ih => simp only [toksAlterTail, List.length_cons, List.length_append]; omega
theorem alterLoop_ok (rest : List Tok) (hr : stopsAny d rest = true) :
    ∀ (ops : List AlterOp), (∀ o ∈ ops, alterOpOK d o = true) → ∀ acc f g, 20 * sizeL (toksAlterTail d ops) + 2 ≤ f → ops.length + 1 ≤ g →
    alterLoop d f g acc (toksAlterTail d ops ++ rest) = .ok (acc ++ ops, rest) := by
  intro ops
  induction ops with
  | nil =>
    intro _ acc f g _ hg
    obtain ⟨g, rfl⟩ : ∃ k, g = k + 1 := ⟨g - 1, by omega⟩
    simp [toksAlterTail, alterLoop, sa_str hr "," (by decide)]
  | cons o ops ih =>
    intro hops acc f g hf hg
    have hsz : commaTok.size = 1 := by decide
    simp only [toksAlterTail, sizeL_cons, sizeL_append, hsz] at hf
    simp only [List.length_cons] at hg
    obtain ⟨g, rfl⟩ : ∃ k, g = k + 1 := ⟨g - 1, by omega⟩
    have h1 := alterOp_ok o (hops o (by simp)) (toksAlterTail d ops ++ rest) (alterTail_after ops rest hr) f (by omega)
    have h2 := ih (fun q hq => hops q (by simp [hq])) (acc ++ [o]) f g (by omega) (by omega)
    unfold alterLoop
    simp only [toksAlterTail, List.cons_append, List.append_assoc, TS.comma_search, if_true, List.drop_succ_cons, List.drop_zero, h1]
    simpa using h2

theorem alterOp_notDot (o : AlterOp) (x : List Tok) : searchStr (toksAlterOp d o ++ x) "." = false := by
  cases o <;> simp only [toksAlterOp, List.cons_append] <;> kw_simp

theorem alter_ok (t : TableName) (o : AlterOp) (ops : List AlterOp) (ht : TDM2.tblOKD t = true) (ho : alterOpOK d o = true)
    (hops : ∀ q ∈ ops, alterOpOK d q = true) (rest : List Tok) (hr : stopsAny d rest = true) (f : Nat)
    (hf : 20 * sizeL (toksAlter d t (o :: ops)) + 2 ≤ f) :
    pStatement d f (toksAlter d t (o :: ops) ++ rest) = .ok (.alter t (o :: ops), rest) := by
  simp only [toksAlter, toksAlterOps, sizeL_cons, sizeL_append, size_opTok] at hf
  have h1 : pTblName (tbl t :: (toksAlterOp d o ++ (toksAlterTail d ops ++ rest))) = .ok (t, _) :=
    TDM2.tblName_ok t ht _ (alterOp_notDot o _)
  have h2 := alterOp_ok o ho (toksAlterTail d ops ++ rest) (alterTail_after ops rest hr) f (by omega)
  have h3 := alterLoop_ok rest hr ops hops [o] f ((toksAlterTail d ops ++ rest).length + 1) (by omega) (by
    have := length_alterTail (d := d) ops
    simp only [List.length_append]; omega)
  unfold pStatement toksAlter
  kw_simp
  unfold pAlter
  kw_simp
  simp only [toksAlterOps, List.append_assoc, h1, h2, h3]
  rfl

end TR
