import MsqProofs.Lemmas.LexSpec
/-!
# Two generic facts about the lexer's use of the text (for C06 / C09)

The lexer reads the text in two ways only: the characters it is fed, and the window `text[start:now]` it slices when it
emits a token.  Hence, for ANY table and ANY micro-code:

1. **simulation** (`exec_sim` … `runTail_sim`): two runs that are fed the same characters from memories whose
   positions differ by constant offsets into texts with a common suffix (so that all windows agree), and whose frame
   stacks are related token by token by a relation `R` that contains the equal leaves and is a congruence for groups,
   stay related — both fail with the same error, or both succeed with related memories / token lists.
2. **prefix independence** (`feedAllWith_prefix`): feeding the first `L` characters of a text does not depend on what
   follows them, provided no operation looks further ahead than the character it is handling (`GoodCode`: at most one
   `incNow` per operation, none when it asks for a retry).
-/
namespace Lex

/-! ## relations -/

inductive All₂ {α β : Type} (R : α → β → Prop) : List α → List β → Prop
  | nil : All₂ R [] []
  | cons {a b as bs} : R a b → All₂ R as bs → All₂ R (a :: as) (b :: bs)

theorem All₂.length_eq {α β : Type} {R : α → β → Prop} {l1 : List α} {l2 : List β} (h : All₂ R l1 l2) :
    l1.length = l2.length := by
  induction h with
  | nil => rfl
  | cons _ _ ih => simp [ih]

theorem All₂.append {α β : Type} {R : α → β → Prop} {a c : List α} {b d : List β} (h1 : All₂ R a b) (h2 : All₂ R c d) :
    All₂ R (a ++ c) (b ++ d) := by
  induction h1 with
  | nil => exact h2
  | cons h _ ih => exact .cons h ih

theorem All₂.refl {α : Type} {R : α → α → Prop} (h : ∀ a, R a a) (l : List α) : All₂ R l l := by
  induction l with
  | nil => exact .nil
  | cons a as ih => exact .cons (h a) ih

theorem All₂.eq {α : Type} {l1 l2 : List α} (h : All₂ Eq l1 l2) : l1 = l2 := by
  induction h with
  | nil => rfl
  | cons h _ ih => rw [h, ih]

def OptRel {α β : Type} (R : α → β → Prop) : Option α → Option β → Prop
  | none, none => True
  | some a, some b => R a b
  | _, _ => False

theorem All₂.getLast? {α β : Type} {R : α → β → Prop} {l1 : List α} {l2 : List β} (h : All₂ R l1 l2) :
    OptRel R l1.getLast? l2.getLast? := by
  induction h with
  | nil => trivial
  | @cons a b as bs hab hrest ih =>
    cases hrest with
    | nil => simpa [OptRel] using hab
    | cons h1 h2 => simpa [List.getLast?_cons_cons] using ih

/-- both runs fail with the same error, or both succeed with related results -/
def ERel {α β : Type} (P : α → β → Prop) : Except Err α → Except Err β → Prop
  | .error e, .error e' => e = e'
  | .ok a, .ok b => P a b
  | _, _ => False

theorem ERel.eq {α : Type} {x y : Except Err α} (h : ERel Eq x y) : x = y := by
  cases x <;> cases y <;> simp_all [ERel]

/-- `R` relates equal leaves and is a congruence for groups -/
structure TokRel (R : Tok → Tok → Prop) : Prop where
  single : ∀ s k, R (.single s k) (.single s k)
  group : ∀ g k cs ds, All₂ R cs ds → R (.group g cs k) (.group g ds k)

theorem TokRel.eq : TokRel Eq := ⟨fun _ _ => rfl, fun _ _ _ _ h => by rw [h.eq]⟩

/-- memories that agree up to constant position offsets `A1`, `A2` and `R` on the frame stacks -/
structure MemRel (R : Tok → Tok → Prop) (A1 A2 : Nat) (m1 m2 : Mem) : Prop where
  status : m1.status = m2.status
  stack : All₂ (All₂ R) m1.stack m2.stack
  pos : ∃ i j, m1.start = A1 + i ∧ m2.start = A2 + i ∧ m1.now = A1 + j ∧ m2.now = A2 + j

structure RegRel (R : Tok → Tok → Prop) (r1 r2 : Regs) : Prop where
  source : r1.source = r2.source
  tokens : OptRel (All₂ R) r1.tokens r2.tokens

theorem appendTop_rel {R : Tok → Tok → Prop} {t1 t2 : Tok} {s1 s2 : List (List Tok)} (ht : R t1 t2)
    (hs : All₂ (All₂ R) s1 s2) : OptRel (All₂ (All₂ R)) (appendTop t1 s1) (appendTop t2 s2) := by
  cases hs with
  | nil => trivial
  | cons hf hfs => exact .cons (hf.append (.cons ht .nil)) hfs

theorem slice_suffix (P B : List Char) (i j : Nat) :
    ((P ++ B).drop (P.length + i)).take ((P.length + j) - (P.length + i)) = (B.drop i).take (j - i) := by
  have h1 : (P ++ B).drop (P.length + i) = B.drop i := by
    rw [← List.drop_drop]; simp
  rw [h1]; congr 1; omega

/-! ## 1. simulation -/

section sim
variable {R : Tok → Tok → Prop} (hR : TokRel R) (env1 env2 : Env) (P1 P2 B : List Char)
  (hup : env1.upper = env2.upper) (hwm : env1.wordMarks = env2.wordMarks)
  (ht1 : env1.text = P1 ++ B) (ht2 : env2.text = P2 ++ B) (ss : S) (sm : Nat) (sym : Sym)
include hR hup hwm ht1 ht2

abbrev StepRel (R : Tok → Tok → Prop) (A1 A2 : Nat) (x y : Mem × Bool) : Prop := MemRel R A1 A2 x.1 y.1 ∧ x.2 = y.2

theorem exec_sim (is : List Instr) : ∀ (r1 r2 : Regs) (m1 m2 : Mem), RegRel R r1 r2 → MemRel R P1.length P2.length m1 m2 →
    ERel (StepRel R P1.length P2.length) (exec env1 ss sm sym is r1 m1) (exec env2 ss sm sym is r2 m2) := by
  induction is with
  | nil => intro _ _ _ _ _ _; simp [exec, ERel]
  | cons i is ih =>
    intro r1 r2 m1 m2 hr hm
    obtain ⟨i0, j0, hs1, hs2, hn1, hn2⟩ := hm.pos
    cases i with
    | incNow =>
      simp only [exec]
      exact ih _ _ _ _ hr ⟨hm.status, hm.stack, i0, j0 + 1, hs1, hs2, by simp [hn1]; omega, by simp [hn2]; omega⟩
    | setStartNow =>
      simp only [exec]
      exact ih _ _ _ _ hr ⟨hm.status, hm.stack, j0, j0, hn1, hn2, hn1, hn2⟩
    | setStatus s =>
      simp only [exec]
      exact ih _ _ _ _ hr ⟨rfl, hm.stack, i0, j0, hs1, hs2, hn1, hn2⟩
    | setStatusSelf =>
      simp only [exec]
      exact ih _ _ _ _ hr ⟨rfl, hm.stack, i0, j0, hs1, hs2, hn1, hn2⟩
    | sliceWindow =>
      simp only [exec]
      refine ih _ _ _ _ ⟨?_, hr.tokens⟩ hm
      simp only [ht1, ht2, hs1, hs2, hn1, hn2, slice_suffix]
    | emitSingle mk =>
      simp only [exec]
      have hsrc := hr.source
      cases h1 : r1.source with
      | none => rw [h1] at hsrc; simp [← hsrc, ERel]
      | some src =>
        rw [h1] at hsrc; simp only [← hsrc]
        have hap := appendTop_rel (t1 := .single src (resolveMarks env1.upper env1.wordMarks sm src mk))
          (t2 := .single src (resolveMarks env2.upper env2.wordMarks sm src mk)) (by rw [hup, hwm]; exact hR.single _ _) hm.stack
        cases ha1 : appendTop (.single src (resolveMarks env1.upper env1.wordMarks sm src mk)) m1.stack with
        | none =>
          rw [ha1] at hap
          cases ha2 : appendTop (.single src (resolveMarks env2.upper env2.wordMarks sm src mk)) m2.stack with
          | none => simp [ERel]
          | some _ => rw [ha2] at hap; exact hap.elim
        | some st1 =>
          rw [ha1] at hap
          cases ha2 : appendTop (.single src (resolveMarks env2.upper env2.wordMarks sm src mk)) m2.stack with
          | none => rw [ha2] at hap; exact hap.elim
          | some st2 =>
            rw [ha2] at hap
            exact ih _ _ _ _ hr ⟨hm.status, hap, i0, j0, hs1, hs2, hn1, hn2⟩
    | pushStack =>
      simp only [exec]
      exact ih _ _ _ _ hr ⟨hm.status, .cons .nil hm.stack, i0, j0, hs1, hs2, hn1, hn2⟩
    | popStack =>
      simp only [exec]
      have hstk := hm.stack
      revert hstk
      generalize m1.stack = st1
      generalize m2.stack = st2
      intro hstk
      cases hstk with
      | nil => simp [ERel]
      | cons hf hfs => exact ih _ _ _ _ ⟨hr.source, hf⟩ ⟨hm.status, hfs, i0, j0, hs1, hs2, hn1, hn2⟩
    | emitGroup k mk =>
      simp only [exec]
      have htk := hr.tokens
      cases h1 : r1.tokens with
      | none =>
        rw [h1] at htk
        cases h2 : r2.tokens with
        | none => simp [ERel]
        | some _ => rw [h2] at htk; exact htk.elim
      | some ts1 =>
        rw [h1] at htk
        cases h2 : r2.tokens with
        | none => rw [h2] at htk; exact htk.elim
        | some ts2 =>
          rw [h2] at htk
          have hap := appendTop_rel (t1 := .group k ts1 (resolveMarks env1.upper env1.wordMarks sm [] mk))
            (t2 := .group k ts2 (resolveMarks env2.upper env2.wordMarks sm [] mk)) (by rw [hup, hwm]; exact hR.group _ _ _ _ htk) hm.stack
          simp only []
          cases ha1 : appendTop (.group k ts1 (resolveMarks env1.upper env1.wordMarks sm [] mk)) m1.stack with
          | none =>
            rw [ha1] at hap
            cases ha2 : appendTop (.group k ts2 (resolveMarks env2.upper env2.wordMarks sm [] mk)) m2.stack with
            | none => simp [ERel]
            | some _ => rw [ha2] at hap; exact hap.elim
          | some st1 =>
            rw [ha1] at hap
            cases ha2 : appendTop (.group k ts2 (resolveMarks env2.upper env2.wordMarks sm [] mk)) m2.stack with
            | none => rw [ha2] at hap; exact hap.elim
            | some st2 =>
              rw [ha2] at hap
              exact ih _ _ _ _ hr ⟨hm.status, hap, i0, j0, hs1, hs2, hn1, hn2⟩
    | raiseIfDepthLE k =>
      simp only [exec, hm.stack.length_eq]
      split
      · simp [ERel]
      · exact ih _ _ _ _ hr hm
    | raiseIfEnd =>
      simp only [exec]
      split
      · simp [ERel]
      · exact ih _ _ _ _ hr hm
    | raise => simp [exec, ERel]
    | ret b => simp only [exec, ERel]; exact ⟨hm, rfl⟩

end sim

section simdrv
variable {Cls : Type} {R : Tok → Tok → Prop} (hR : TokRel R) (cfg : Cfg Cls) (P1 P2 B : List Char)
include hR

theorem handle_sim (m1 m2 : Mem) (sym : Sym) (hm : MemRel R P1.length P2.length m1 m2) :
    ERel (StepRel R P1.length P2.length) (handle cfg (P1 ++ B) m1 sym) (handle cfg (P2 ++ B) m2 sym) := by
  simp only [handle, hm.status]
  cases cfg.lookup m2.status sym with
  | none => simp [ERel]
  | some o =>
    exact exec_sim hR (cfg.env (P1 ++ B)) (cfg.env (P2 ++ B)) P1 P2 B rfl rfl rfl rfl o.status o.marks sym _ _ _ _ _
      ⟨rfl, trivial⟩ hm

theorem feedWith_sim (m1 m2 : Mem) (c : Char) (hm : MemRel R P1.length P2.length m1 m2) :
    ERel (MemRel R P1.length P2.length) (feedWith (handle cfg (P1 ++ B)) m1 c) (feedWith (handle cfg (P2 ++ B)) m2 c) := by
  have h1 := handle_sim hR cfg P1 P2 B m1 m2 (.ch c) hm
  simp only [feedWith]
  cases e1 : handle cfg (P1 ++ B) m1 (.ch c) with
  | error x =>
    cases e2 : handle cfg (P2 ++ B) m2 (.ch c) with
    | error y => rw [e1, e2] at h1; simpa [ERel] using h1
    | ok y => rw [e1, e2] at h1; exact h1.elim
  | ok x =>
    cases e2 : handle cfg (P2 ++ B) m2 (.ch c) with
    | error y => rw [e1, e2] at h1; exact h1.elim
    | ok y =>
      rw [e1, e2] at h1
      obtain ⟨x1, xb⟩ := x
      obtain ⟨y1, yb⟩ := y
      obtain ⟨hmem, hb⟩ := h1
      simp only at hmem hb
      subst hb
      cases xb with
      | true => simpa [ERel] using hmem
      | false =>
        simp only []
        have h2 := handle_sim hR cfg P1 P2 B x1 y1 (.ch c) hmem
        cases f1 : handle cfg (P1 ++ B) x1 (.ch c) with
        | error u =>
          cases f2 : handle cfg (P2 ++ B) y1 (.ch c) with
          | error v => rw [f1, f2] at h2; simpa [ERel] using h2
          | ok v => rw [f1, f2] at h2; exact h2.elim
        | ok u =>
          cases f2 : handle cfg (P2 ++ B) y1 (.ch c) with
          | error v => rw [f1, f2] at h2; exact h2.elim
          | ok v => rw [f1, f2] at h2; simpa [ERel] using h2.1

theorem feedAllWith_sim (cs : List Char) : ∀ (m1 m2 : Mem), MemRel R P1.length P2.length m1 m2 →
    ERel (MemRel R P1.length P2.length) (feedAllWith (handle cfg (P1 ++ B)) cs m1) (feedAllWith (handle cfg (P2 ++ B)) cs m2) := by
  induction cs with
  | nil => intro m1 m2 hm; simpa [feedAllWith, ERel] using hm
  | cons c cs ih =>
    intro m1 m2 hm
    have h1 := feedWith_sim hR cfg P1 P2 B m1 m2 c hm
    simp only [feedAllWith]
    cases e1 : feedWith (handle cfg (P1 ++ B)) m1 c with
    | error x =>
      cases e2 : feedWith (handle cfg (P2 ++ B)) m2 c with
      | error y => rw [e1, e2] at h1; simpa [ERel] using h1
      | ok y => rw [e1, e2] at h1; exact h1.elim
    | ok x =>
      cases e2 : feedWith (handle cfg (P2 ++ B)) m2 c with
      | error y => rw [e1, e2] at h1; exact h1.elim
      | ok y => rw [e1, e2] at h1; exact ih x y h1

omit hR in
theorem finish_sim (m1 m2 : Mem) (hm : MemRel R P1.length P2.length m1 m2) :
    ERel (All₂ R) (finish cfg m1) (finish cfg m2) := by
  simp only [finish, hm.status, hm.stack.length_eq]
  split
  · simp [ERel]
  · split
    · simp [ERel]
    · have := hm.stack.getLast?
      cases e1 : m1.stack.getLast? with
      | none =>
        cases e2 : m2.stack.getLast? with
        | none => simp [ERel]
        | some _ => rw [e1, e2] at this; exact this.elim
      | some f1 =>
        cases e2 : m2.stack.getLast? with
        | none => rw [e1, e2] at this; exact this.elim
        | some f2 => rw [e1, e2] at this; simpa [ERel, OptRel] using this

end simdrv

/-- the rest of a lexer run from memory `m`: feed `cs`, handle the end of the text, finish -/
def runTail {Cls : Type} (cfg : Cfg Cls) (text cs : List Char) (m : Mem) : Except Err (List Tok) :=
  match feedAllWith (handle cfg text) cs m with
  | .error e => .error e
  | .ok m =>
    match handle cfg text m .eof with
    | .error e => .error e
    | .ok (m', _) => finish cfg m'

theorem lexText_eq_runTail (cfg : Cfg Gen.Cls) (text : List Char) : lexText cfg text = runTail cfg text text {} := rfl

theorem runTail_append {Cls : Type} (cfg : Cfg Cls) (text a b : List Char) (m : Mem) :
    runTail cfg text (a ++ b) m =
      (match feedAllWith (handle cfg text) a m with | .error e => .error e | .ok m' => runTail cfg text b m') := by
  simp only [runTail, feedAllWith_append]
  cases feedAllWith (handle cfg text) a m <;> rfl

theorem runTail_append_ok {Cls : Type} {cfg : Cfg Cls} {text a : List Char} {m m' : Mem}
    (h : feedAllWith (handle cfg text) a m = .ok m') (b : List Char) :
    runTail cfg text (a ++ b) m = runTail cfg text b m' := by
  rw [runTail_append, h]

/-- the rest of two runs from related memories is related -/
theorem runTail_sim {Cls : Type} {R : Tok → Tok → Prop} (hR : TokRel R) (cfg : Cfg Cls) (P1 P2 B cs : List Char)
    (m1 m2 : Mem) (hm : MemRel R P1.length P2.length m1 m2) :
    ERel (All₂ R) (runTail cfg (P1 ++ B) cs m1) (runTail cfg (P2 ++ B) cs m2) := by
  have h1 := feedAllWith_sim hR cfg P1 P2 B cs m1 m2 hm
  simp only [runTail]
  cases e1 : feedAllWith (handle cfg (P1 ++ B)) cs m1 with
  | error x =>
    cases e2 : feedAllWith (handle cfg (P2 ++ B)) cs m2 with
    | error y => rw [e1, e2] at h1; simpa [ERel] using h1
    | ok y => rw [e1, e2] at h1; exact h1.elim
  | ok x =>
    cases e2 : feedAllWith (handle cfg (P2 ++ B)) cs m2 with
    | error y => rw [e1, e2] at h1; exact h1.elim
    | ok y =>
      rw [e1, e2] at h1
      simp only []
      have h2 := handle_sim hR cfg P1 P2 B x y .eof h1
      cases f1 : handle cfg (P1 ++ B) x .eof with
      | error u =>
        cases f2 : handle cfg (P2 ++ B) y .eof with
        | error v => rw [f1, f2] at h2; simpa [ERel] using h2
        | ok v => rw [f1, f2] at h2; exact h2.elim
      | ok u =>
        cases f2 : handle cfg (P2 ++ B) y .eof with
        | error v => rw [f1, f2] at h2; exact h2.elim
        | ok v =>
          rw [f1, f2] at h2
          exact finish_sim cfg P1 P2 u.1 v.1 h2.1

mutual
/-- a relation that contains the equal leaves and is a congruence for groups is reflexive -/
theorem TokRel.refl {R : Tok → Tok → Prop} (hR : TokRel R) : ∀ t, R t t
  | .single s k => hR.single s k
  | .group g cs k => hR.group g k cs cs (TokRel.reflL hR cs)
theorem TokRel.reflL {R : Tok → Tok → Prop} (hR : TokRel R) : ∀ l, All₂ R l l
  | [] => .nil
  | t :: ts => .cons (TokRel.refl hR t) (TokRel.reflL hR ts)
end

theorem TokRel.reflS {R : Tok → Tok → Prop} (hR : TokRel R) (stk : List (List Tok)) : All₂ (All₂ R) stk stk :=
  All₂.refl (TokRel.reflL hR) stk

/-- the **context lemma**: if two middle parts `u1`, `u2`, fed from `m1`, `m2`, lead to related memories (or the same
error), then so do the complete runs, whatever follows -/
theorem runTail_ctx {Cls : Type} {R : Tok → Tok → Prop} (hR : TokRel R) (cfg : Cfg Cls) (P1 P2 B u1 u2 cs : List Char)
    (m1 m2 : Mem)
    (h : ERel (MemRel R P1.length P2.length) (feedAllWith (handle cfg (P1 ++ B)) u1 m1) (feedAllWith (handle cfg (P2 ++ B)) u2 m2)) :
    ERel (All₂ R) (runTail cfg (P1 ++ B) (u1 ++ cs) m1) (runTail cfg (P2 ++ B) (u2 ++ cs) m2) := by
  rw [runTail_append, runTail_append]
  cases e1 : feedAllWith (handle cfg (P1 ++ B)) u1 m1 with
  | error x =>
    cases e2 : feedAllWith (handle cfg (P2 ++ B)) u2 m2 with
    | error y => rw [e1, e2] at h; simpa [ERel] using h
    | ok y => rw [e1, e2] at h; exact h.elim
  | ok x =>
    cases e2 : feedAllWith (handle cfg (P2 ++ B)) u2 m2 with
    | error y => rw [e1, e2] at h; exact h.elim
    | ok y => rw [e1, e2] at h; exact runTail_sim hR cfg P1 P2 B cs x y h

/-- the memory of a result, the flag dropped -/
def dropFlag (r : Except Err (Mem × Bool)) : Except Err Mem :=
  match r with | .error e => .error e | .ok (m, _) => .ok m

theorem feedWith_retry' {h : Mem → Sym → Except Err (Mem × Bool)} {m m1 : Mem} {c : Char}
    (h1 : h m (.ch c) = .ok (m1, false)) : feedWith h m c = dropFlag (h m1 (.ch c)) := by
  rw [feedWith_retry h1]; rfl

theorem dropFlag_sim {R : Tok → Tok → Prop} {A1 A2 : Nat} {x y : Except Err (Mem × Bool)}
    (h : ERel (StepRel R A1 A2) x y) : ERel (MemRel R A1 A2) (dropFlag x) (dropFlag y) := by
  cases x with
  | error e => cases y with
    | error e' => simpa [dropFlag, ERel] using h
    | ok b => exact h.elim
  | ok a => cases y with
    | error e' => exact h.elim
    | ok b => exact h.1

theorem ERel.eq_of_all₂ {x y : Except Err (List Tok)} (h : ERel (All₂ Eq) x y) : x = y := by
  cases x <;> cases y <;> simp_all [ERel]
  exact h.eq

mutual
theorem Tok.eqb_sound : ∀ a b : Tok, Tok.eqb a b = true → a = b
  | .single a m, .single b n, h => by
    simp only [Tok.eqb, Bool.and_eq_true, beq_iff_eq] at h
    rw [h.1, h.2]
  | .group k cs m, .group l ds n, h => by
    simp only [Tok.eqb, Bool.and_eq_true, beq_iff_eq] at h
    rw [h.1.1, h.1.2, eqbL_sound cs ds h.2]
  | .single _ _, .group _ _ _, h => by simp [Tok.eqb] at h
  | .group _ _ _, .single _ _, h => by simp [Tok.eqb] at h
theorem eqbL_sound : ∀ as bs : List Tok, eqbL as bs = true → as = bs
  | [], [], _ => rfl
  | a :: as, b :: bs, h => by
    simp only [eqbL, Bool.and_eq_true] at h
    rw [Tok.eqb_sound a b h.1, eqbL_sound as bs h.2]
  | [], _ :: _, h => by simp [eqbL] at h
  | _ :: _, [], h => by simp [eqbL] at h
end

def stackEqb : List (List Tok) → List (List Tok) → Bool
  | [], [] => true
  | f :: fs, g :: gs => eqbL f g && stackEqb fs gs
  | _, _ => false

theorem stackEqb_sound : ∀ a b, stackEqb a b = true → a = b
  | [], [], _ => rfl
  | f :: fs, g :: gs, h => by
    simp only [stackEqb, Bool.and_eq_true] at h
    rw [eqbL_sound f g h.1, stackEqb_sound fs gs h.2]
  | [], _ :: _, h => by simp [stackEqb] at h
  | _ :: _, [], h => by simp [stackEqb] at h

/-- "after the text `a` the lexer is between tokens, with frame stack `stk`" -/
def WaitAfter {Cls : Type} (cfg : Cfg Cls) (a : List Char) (stk : List (List Tok)) : Prop :=
  feedAllWith (handle cfg a) a {} = .ok ⟨a.length, a.length, .WAIT, stk⟩

/-- … as a computation, so that instances can be decided by the kernel -/
def waitAfterB {Cls : Type} (cfg : Cfg Cls) (a : List Char) (stk : List (List Tok)) : Bool :=
  match feedAllWith (handle cfg a) a {} with
  | .ok m => m.start == a.length && m.now == a.length && m.status == .WAIT && stackEqb m.stack stk
  | .error _ => false

theorem waitAfterB_sound {Cls : Type} (cfg : Cfg Cls) (a : List Char) (stk : List (List Tok))
    (h : waitAfterB cfg a stk = true) : WaitAfter cfg a stk := by
  unfold waitAfterB at h
  unfold WaitAfter
  cases e : feedAllWith (handle cfg a) a {} with
  | error x => rw [e] at h; cases h
  | ok m =>
    rw [e] at h
    simp only [Bool.and_eq_true, beq_iff_eq] at h
    obtain ⟨⟨⟨h1, h2⟩, h3⟩, h4⟩ := h
    cases m with
    | mk st nw q sk =>
      simp only at h1 h2 h3 h4
      rw [h1, h2, h3, stackEqb_sound _ _ h4]

/-! ## 2. prefix independence -/

/-- by how much an operation body advances `now` (up to its first `ret` / `raise`) -/
def nowDelta : List Instr → Nat
  | [] => 0
  | .incNow :: is => 1 + nowDelta is
  | .ret _ :: _ => 0
  | .raise :: _ => 0
  | _ :: is => nowDelta is

/-- the flag an operation body returns -/
def retVal : List Instr → Option Bool
  | [] => none
  | .ret b :: _ => some b
  | .raise :: _ => none
  | _ :: is => retVal is

theorem exec_now (env : Env) (ss : S) (sm : Nat) (sym : Sym) (is : List Instr) :
    ∀ (r : Regs) (m m' : Mem) (b : Bool), exec env ss sm sym is r m = .ok (m', b) →
      m'.now = m.now + nowDelta is ∧ retVal is = some b := by
  induction is with
  | nil => intro r m m' b h; simp [exec] at h
  | cons i is ih =>
    intro r m m' b h
    cases i with
    | incNow =>
      simp only [exec] at h
      obtain ⟨h1, h2⟩ := ih _ _ _ _ h
      simp only [nowDelta, retVal]
      exact ⟨by simp only [] at h1; omega, h2⟩
    | setStartNow => simp only [exec] at h; simpa [nowDelta, retVal] using ih _ _ _ _ h
    | setStatus s => simp only [exec] at h; simpa [nowDelta, retVal] using ih _ _ _ _ h
    | setStatusSelf => simp only [exec] at h; simpa [nowDelta, retVal] using ih _ _ _ _ h
    | sliceWindow => simp only [exec] at h; simpa [nowDelta, retVal] using ih _ _ _ _ h
    | emitSingle mk =>
      simp only [exec] at h
      split at h
      · cases h
      · split at h
        · cases h
        · simpa [nowDelta, retVal] using ih _ _ _ _ h
    | pushStack => simp only [exec] at h; simpa [nowDelta, retVal] using ih _ _ _ _ h
    | popStack =>
      simp only [exec] at h
      split at h
      · cases h
      · simpa [nowDelta, retVal] using ih _ _ _ _ h
    | emitGroup k mk =>
      simp only [exec] at h
      split at h
      · cases h
      · split at h
        · cases h
        · simpa [nowDelta, retVal] using ih _ _ _ _ h
    | raiseIfDepthLE k =>
      simp only [exec] at h
      split at h
      · cases h
      · simpa [nowDelta, retVal] using ih _ _ _ _ h
    | raiseIfEnd =>
      simp only [exec] at h
      split at h
      · cases h
      · simpa [nowDelta, retVal] using ih _ _ _ _ h
    | raise => simp [exec] at h
    | ret b' => simp only [exec, Except.ok.injEq, Prod.mk.injEq] at h; simp [nowDelta, retVal, h.1.symm, h.2]

theorem slice_prefix (T1 T2 : List Char) (L s n : Nat) (h : T1.take L = T2.take L) (hn : n ≤ L) :
    (T1.drop s).take (n - s) = (T2.drop s).take (n - s) := by
  by_cases hs : s ≤ n
  · have h' : T1.take n = T2.take n := by
      have := congrArg (List.take n) h
      simpa [List.take_take, Nat.min_eq_left hn] using this
    rw [List.take_drop, List.take_drop]
    have : s + (n - s) = n := by omega
    rw [this, h']
  · have : n - s = 0 := by omega
    simp [this]

theorem exec_prefix (env1 env2 : Env) (hup : env1.upper = env2.upper) (hwm : env1.wordMarks = env2.wordMarks) (L : Nat)
    (ht : env1.text.take L = env2.text.take L) (ss : S) (sm : Nat) (sym : Sym) (is : List Instr) :
    ∀ (r : Regs) (m : Mem), m.now + nowDelta is ≤ L → exec env1 ss sm sym is r m = exec env2 ss sm sym is r m := by
  induction is with
  | nil => intro r m _; rfl
  | cons i is ih =>
    intro r m hL
    cases i with
    | incNow => simp only [exec]; exact ih _ _ (by simp only [nowDelta] at hL ⊢; omega)
    | setStartNow => simp only [exec]; exact ih _ _ (by simpa [nowDelta] using hL)
    | setStatus s => simp only [exec]; exact ih _ _ (by simpa [nowDelta] using hL)
    | setStatusSelf => simp only [exec]; exact ih _ _ (by simpa [nowDelta] using hL)
    | sliceWindow =>
      simp only [exec]
      rw [slice_prefix env1.text env2.text L m.start m.now ht (by simp only [nowDelta] at hL; omega)]
      exact ih _ _ (by simpa [nowDelta] using hL)
    | emitSingle mk =>
      simp only [exec, hup, hwm]
      cases r.source with
      | none => rfl
      | some src =>
        simp only []
        cases appendTop (.single src (resolveMarks env2.upper env2.wordMarks sm src mk)) m.stack with
        | none => rfl
        | some st => exact ih _ _ (by simpa [nowDelta] using hL)
    | pushStack => simp only [exec]; exact ih _ _ (by simpa [nowDelta] using hL)
    | popStack =>
      simp only [exec]
      cases m.stack with
      | nil => rfl
      | cons f fs => exact ih _ _ (by simpa [nowDelta] using hL)
    | emitGroup k mk =>
      simp only [exec, hup, hwm]
      cases r.tokens with
      | none => rfl
      | some ts =>
        simp only []
        cases appendTop (.group k ts (resolveMarks env2.upper env2.wordMarks sm [] mk)) m.stack with
        | none => rfl
        | some st => exact ih _ _ (by simpa [nowDelta] using hL)
    | raiseIfDepthLE k =>
      simp only [exec]
      split
      · rfl
      · exact ih _ _ (by simpa [nowDelta] using hL)
    | raiseIfEnd =>
      simp only [exec]
      split
      · rfl
      · exact ih _ _ (by simpa [nowDelta] using hL)
    | raise => simp [exec]
    | ret b => simp [exec]

/-- no operation looks further ahead than the character it is handling -/
def GoodCode {Cls : Type} (cfg : Cfg Cls) : Prop :=
  ∀ c, nowDelta (cfg.code c) ≤ 1 ∧ (retVal (cfg.code c) = some false → nowDelta (cfg.code c) = 0)

section pfx
variable {Cls : Type} (cfg : Cfg Cls) (hg : GoodCode cfg) (T1 T2 : List Char) (L : Nat) (ht : T1.take L = T2.take L)
include hg ht

theorem handle_prefix (m : Mem) (sym : Sym) (hL : m.now + 1 ≤ L) : handle cfg T1 m sym = handle cfg T2 m sym := by
  simp only [handle]
  cases cfg.lookup m.status sym with
  | none => rfl
  | some o =>
    exact exec_prefix (cfg.env T1) (cfg.env T2) rfl rfl L ht _ _ _ _ _ _ (by have := (hg o.cls).1; omega)

omit ht in
theorem handle_now (T : List Char) (m m' : Mem) (sym : Sym) (b : Bool) (h : handle cfg T m sym = .ok (m', b)) :
    m'.now ≤ m.now + 1 ∧ (b = false → m'.now = m.now) := by
  simp only [handle] at h
  cases ho : cfg.lookup m.status sym with
  | none => rw [ho] at h; cases h
  | some o =>
    rw [ho] at h
    obtain ⟨hn, hr⟩ := exec_now _ _ _ _ _ _ _ _ _ h
    have := hg o.cls
    refine ⟨by omega, fun hb => ?_⟩
    subst hb
    have := this.2 hr
    omega

theorem feedWith_prefix (m : Mem) (c : Char) (hL : m.now + 1 ≤ L) :
    feedWith (handle cfg T1) m c = feedWith (handle cfg T2) m c ∧
    ∀ m', feedWith (handle cfg T2) m c = .ok m' → m'.now ≤ m.now + 1 := by
  have h1 := handle_prefix cfg hg T1 T2 L ht m (.ch c) hL
  simp only [feedWith, h1]
  cases e : handle cfg T2 m (.ch c) with
  | error x => simp
  | ok x =>
    obtain ⟨m1, b⟩ := x
    obtain ⟨hle, hb⟩ := handle_now cfg hg T2 m m1 (.ch c) b e
    cases b with
    | true => simp only [true_and]; intro m' hm'; cases hm'; exact hle
    | false =>
      have hm1 : m1.now = m.now := hb rfl
      have h2 := handle_prefix cfg hg T1 T2 L ht m1 (.ch c) (by omega)
      simp only [h2, true_and]
      cases e2 : handle cfg T2 m1 (.ch c) with
      | error y => simp
      | ok y =>
        intro m' hm'
        simp only [Except.ok.injEq] at hm'
        subst hm'
        have := (handle_now cfg hg T2 m1 y.1 (.ch c) y.2 e2).1
        omega

theorem feedAllWith_prefix (cs : List Char) : ∀ m : Mem, m.now + cs.length ≤ L →
    feedAllWith (handle cfg T1) cs m = feedAllWith (handle cfg T2) cs m := by
  induction cs with
  | nil => intro m _; rfl
  | cons c cs ih =>
    intro m hL
    simp only [List.length_cons] at hL
    obtain ⟨h1, h2⟩ := feedWith_prefix cfg hg T1 T2 L ht m c (by omega)
    simp only [feedAllWith, h1]
    cases e : feedWith (handle cfg T2) m c with
    | error x => rfl
    | ok m' =>
      have := h2 m' e
      exact ih m' (by omega)

end pfx

/-- feeding a text `a` alone = feeding `a` as the beginning of any longer text -/
theorem feedAllWith_context {Cls : Type} (cfg : Cfg Cls) (hg : GoodCode cfg) (a x : List Char) :
    feedAllWith (handle cfg (a ++ x)) a {} = feedAllWith (handle cfg a) a {} :=
  feedAllWith_prefix cfg hg (a ++ x) a a.length (by simp) a {} (by simp)

end Lex
