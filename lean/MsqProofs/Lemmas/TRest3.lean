import MsqProofs.Lemmas.TRest2
/-!
# T-parse for SHOW COLUMNS, CREATE TABLE … AS, the new classes together, and the union of all fragments (C03 / C01)

* `showColumns_ok` — `SHOW COLUMNS FROM t, … [WHERE e]` (tables and filter of the larger query fragment `TQ2`);
* `with_query_select2`, `sel_ok`, `createAs_ok` — `CREATE TABLE t AS [WITH …] <query of FragQ2>`;
* `rest_ok` — every statement of `FragRest` through `pStatement`;
* `any_ok` — every statement of `FragAny` (queries `FragQ2` ∪ data-change statements `TDM2.FragStmt` ⊇ `TDM.FragStmt` ∪ CREATE TABLE `TD.FragCreate` ∪
  `FragRest`) through `pStatement`, at the common fuel bound `20 * size + 16`.
-/
set_option linter.unusedVariables false
set_option linter.unusedSimpArgs false
set_option maxHeartbeats 2000000
open Lex PM Ast TP TS
namespace TR
variable {d : Gen.D}

/-! ### SHOW COLUMNS -/
theorem showColumns_ok (fr : List FromTable) (wh : Option Expr) (hfr : TQ2.fromOK4 d (some fr) = true) (hwh : TQ2.FragO4 d wh = true)
    (rest : List Tok) (hr : stopsAny d rest = true) (f : Nat) (hf : 20 * sizeL (toksShowColumns d fr wh) + 16 ≤ f) :
    pStatement d f (toksShowColumns d fr wh ++ rest) = .ok (.showColumns fr wh, rest) := by
  have hF := TQ2.from_rec (ch := noX) (TQ2.szFrom (some fr)) (fun q _ h => TQ2.qt TQ2.chOK_noX q h) (some fr) (Nat.le_refl _) hfr
  have hO := TQ2.opt_rec (ch := noX) (TQ2.szO4 wh) (fun e _ h => TQ2.rt4 TQ2.chOK_noX e h) wh (Nat.le_refl _) hwh
  have hq := sa_q2 hr
  simp only [TQ2.stopsQ2, Bool.and_eq_true] at hq
  have hb4 : TQ2.Bd4 d 4 rest = true := TQ2.bd3_mono hq.1 (by omega)
  have hb3 : TQ2.Bd4 d 3 (TQ2.toksOptE4 d noX "WHERE" wh ++ rest) = true := TQ2.bd3_where wh rest hb4
  have hfol := TQ2.Fol.ofBd hb3
  cases fr with
  | nil => simp [TQ2.fromOK4] at hfr
  | cons t ts =>
    simp only [TQ2.FromRec] at hF
    simp only [toksShowColumns, TQ2.toksFrom4, sizeL_cons, sizeL_append, size_opTok] at hf
    have h1 : pFromTable d f (TQ2.toksTable4 d noX t ++ (TQ2.toksTablesTail4 d noX ts ++ (TQ2.toksOptE4 d noX "WHERE" wh ++ rest))) =
        .ok (t, TQ2.toksTablesTail4 d noX ts ++ (TQ2.toksOptE4 d noX "WHERE" wh ++ rest)) :=
      TQ2.fromTable t hF.1 _ (TQ2.Fol.tail (TQ2.tablesTail_shape ts) hfol) f (by omega)
    have h2 := TQ2.fromTables _ hfol (TQ2.bd_comma hb3) ts hF.2 [t] f (by omega)
    have h3 := TQ2.optOr "WHERE" (by decide) 4 (by decide) wh hO rest hb4 f (by omega)
    simp only at h2 h3
    unfold pStatement toksShowColumns
    kw_simp
    unfold pShowColumns
    kw_simp
    unfold pFromClause
    simp only [TQ2.toksFrom4, List.cons_append, List.append_assoc]
    kw_simp
    simp only [h1, h2, List.singleton_append, h3]

/-! ### CREATE TABLE … AS -/
/-- `_parse_select_statement` itself finds the WITH clause (what CREATE TABLE … AS calls): the analogue of `C03.twith_query_select` over `FragQ2` -/
theorem with_query_select2 (q : Query) (hs : TDM2.FragStmt d (.select q) = true) (rest : List Tok) (hr : TDM2.stopsStmt d rest = true)
    (fuel : Nat) (hfuel : 20 * sizeL (TDM2.toksStmt d (.select q)) + 16 ≤ fuel) :
    pSelectStmt d fuel none (TDM2.toksStmt d (.select q) ++ rest) = .ok (q, rest) := by
  simp only [TDM2.FragStmt, Bool.and_eq_true] at hs
  obtain ⟨h0, hq⟩ := hs
  cases hw : TDM2.withsOf q with
  | none => rw [hw] at h0; simp [TDM2.withsOK] at h0
  | some ws =>
    rw [hw] at h0
    obtain ⟨x, hx⟩ := TQ2.toksQ2_head TQ2.chOK_noX (TDM2.stripW q) hq
    rw [TDM2.toksQ_stripW] at hx
    simp only [TDM2.toksStmt, TDM2.toksStmtG, hw, sizeL_append] at hfuel ⊢
    obtain ⟨g, rfl⟩ : ∃ g, fuel = g + 1 := ⟨fuel - 1, by omega⟩
    have k := TDM2.kw_body "SELECT" (by simp)
    have hp := TDM2.with_ok TQ2.chOK_noX ws h0 (TQ2.toksQ2 d noX q ++ rest) (by simpa [hx, searchStr] using k.2.1)
      (by simpa [hx, searchStrUp] using k.2.2.1) g (by omega)
    simp only at hp
    have hb := TDM2.query_ws TQ2.chOK_noX ws (TDM2.stripW q) hq rest hr (g + 1) (by rw [TDM2.toksQ_stripW]; omega)
    simp only [TDM2.toksQ_stripW, TDM2.setQW_stripW q ws hw] at hb
    unfold pSelectStmt at hb ⊢
    simp only [List.append_assoc, hp]
    simpa using hb
/-- a query where `_parse_select_statement` itself looks for the WITH clause -/
theorem sel_ok (q : Query) (hq : selOK d q = true) (rest : List Tok) (hr : stopsAny d rest = true) (f : Nat)
    (hf : 20 * sizeL (toksSel d q) + 16 ≤ f) : pSelectStmt d f none (toksSel d q ++ rest) = .ok (q, rest) := by
  by_cases h1 : TDM2.FragStmt d (.select q) = true
  · simp only [toksSel, h1, if_true] at hf ⊢
    exact with_query_select2 q h1 rest (sa_q2 hr) f hf
  · have h2 : TQ2.FragQ2 d q = true := by simpa [selOK, h1] using hq
    simp only [toksSel, h1, Bool.false_eq_true, if_false] at hf ⊢
    exact C03.tquery2 d q h2 rest (sa_q2 hr) f (by omega)

theorem createAs_ok (t : TableName) (ine : Bool) (q : Query) (ht : TDM2.tblOKD t = true) (hq : selOK d q = true)
    (rest : List Tok) (hr : stopsAny d rest = true) (f : Nat) (hf : 20 * sizeL (toksCreateAs d t ine q) + 16 ≤ f) :
    pStatement d f (toksCreateAs d t ine q ++ rest) = .ok (.createTableAs t ine q, rest) := by
  have h1 : pTblName (tbl t :: opTok "AS" :: (toksSel d q ++ rest)) = .ok (t, _) := TDM2.tblName_ok t ht _ (by kw_simp)
  cases ine with
  | false =>
    simp only [toksCreateAs, Bool.false_eq_true, if_false, List.nil_append, sizeL_cons, size_opTok] at hf
    have h2 := sel_ok q hq rest hr f (by omega)
    unfold pStatement toksCreateAs
    kw_simp
    unfold pCreateTable
    simp only [tbl_eq] at h1 ⊢
    kw_simp
    simp only [h1]
    kw_simp
    simp only [h2]
  | true =>
    simp only [toksCreateAs, if_true, List.cons_append, List.nil_append, sizeL_cons, size_opTok] at hf
    have h2 := sel_ok q hq rest hr f (by omega)
    unfold pStatement toksCreateAs
    kw_simp
    unfold pCreateTable
    simp only [tbl_eq] at h1 ⊢
    kw_simp
    simp only [h1]
    kw_simp
    simp only [h2]

/-! ### the new classes together -/
theorem rest_ok (s : Stmt) (hs : FragRest d s = true) (rest : List Tok) (hr : stopsAny d rest = true) (f : Nat)
    (hf : 20 * sizeL (toksRest d s) + 16 ≤ f) : pStatement d f (toksRest d s ++ rest) = .ok (s, rest) := by
  cases s with
  | dropTable b t => exact drop_ok b t hs rest hr f
  | truncate t => exact truncate_ok t hs rest hr f
  | msck t => exact msck_ok t hs rest hr f
  | use s => exact use_ok s rest f
  | set c =>
    simp only [FragRest, Bool.and_eq_true] at hs
    exact set_ok c hs.1 hs.2 rest hr f
  | analyze t p fc cm ns =>
    simp only [FragRest, Bool.and_eq_true] at hs
    refine analyze_ok t p fc cm ns hs.1 ?_ rest hr f (by simp only [toksRest] at hf; omega)
    by_cases hd : (d == Gen.D.HIVE) = true
    · have h2 := hs.2
      simp only [hd, if_true] at h2 ⊢
      exact TDM2.partRec TQ2.chOK_noX p h2
    · have h2 := hs.2
      simp only [hd, Bool.false_eq_true, if_false, Bool.and_eq_true, Bool.not_eq_true', Option.isNone_iff_eq_none] at h2 ⊢
      exact ⟨h2.1.1.1, h2.1.1.2, h2.1.2, h2.2⟩
  | alter t ops =>
    simp only [FragRest, Bool.and_eq_true, Bool.not_eq_true', List.all_eq_true] at hs
    cases ops with
    | nil => simp at hs
    | cons o ops =>
      exact alter_ok t o ops hs.1.1 (hs.2 o (by simp)) (fun q hq => hs.2 q (by simp [hq])) rest hr f (by simp only [toksRest] at hf; omega)
  | showDatabases => exact showDatabases_ok rest f
  | showTables => exact showTables_ok rest f
  | showColumns fr wh =>
    simp only [FragRest, Bool.and_eq_true] at hs
    exact showColumns_ok fr wh hs.1 hs.2 rest hr f hf
  | createTableAs t ine q =>
    simp only [FragRest, Bool.and_eq_true] at hs
    exact createAs_ok t ine q hs.1 hs.2 rest hr f hf
  | _ => simp [FragRest] at hs

/-! ### the union -/
theorem any_ok (s : Stmt) (hs : FragAny d s = true) (rest : List Tok) (hr : stopsAny d rest = true) (f : Nat)
    (hf : 20 * sizeL (toksAny d s) + 16 ≤ f) : pStatement d f (toksAny d s ++ rest) = .ok (s, restAfter s rest) := by
  have hD : ∀ s', TDM2.FragStmt d s' = true → 20 * sizeL (TDM2.toksStmt d s') + 16 ≤ f →
      pStatement d f (TDM2.toksStmt d s' ++ rest) = .ok (s', rest) :=
    fun s' h1 h2 => TDM2.stmt_ok TQ2.chOK_noX (d == .HIVE) s' h1 rest (sa_q2 hr) f h2
  have hR : ∀ s', FragRest d s' = true → 20 * sizeL (toksRest d s') + 16 ≤ f → pStatement d f (toksRest d s' ++ rest) = .ok (s', rest) :=
    fun s' h1 h2 => rest_ok s' h1 rest hr f h2
  cases s with
  | select q =>
    simp only [toksAny] at hf ⊢
    by_cases h1 : TDM2.FragStmt d (.select q) = true
    · simp only [toksSel, h1, if_true] at hf ⊢
      exact hD _ h1 hf
    · have h2 : TQ2.FragQ2 d q = true := by simpa [FragAny, FragRest, h1] using hs
      simp only [toksSel, h1, Bool.false_eq_true, if_false] at hf ⊢
      exact C03.tquery2_statement d q h2 rest (sa_q2 hr) f (by omega)
  | createTable c =>
    have hc : TD.FragCreate d c = true := by simpa [FragAny, TDM2.FragStmt, FragRest] using hs
    exact C03.tcreate d c hc rest (sa_ends hr) f (by simp only [toksAny] at hf; omega)
  | insertValues h vs => exact hD _ (by simpa [FragAny, FragRest] using hs) hf
  | insertSelect h q => exact hD _ (by simpa [FragAny, FragRest] using hs) hf
  | update ws t sets wh ob lm => exact hD _ (by simpa [FragAny, FragRest] using hs) hf
  | delete t wh ob lm => exact hD _ (by simpa [FragAny, FragRest] using hs) hf
  | dropTable b t => exact hR (.dropTable b t) (by simpa [FragAny, TDM2.FragStmt] using hs) hf
  | truncate t => exact hR (.truncate t) (by simpa [FragAny, TDM2.FragStmt] using hs) hf
  | msck t => exact hR (.msck t) (by simpa [FragAny, TDM2.FragStmt] using hs) hf
  | use s => exact hR (.use s) (by simpa [FragAny, TDM2.FragStmt] using hs) hf
  | set c => exact hR (.set c) (by simpa [FragAny, TDM2.FragStmt] using hs) hf
  | analyze t p fc cm ns => exact hR (.analyze t p fc cm ns) (by simpa [FragAny, TDM2.FragStmt] using hs) hf
  | alter t ops => exact hR (.alter t ops) (by simpa [FragAny, TDM2.FragStmt] using hs) hf
  | showDatabases => exact hR (.showDatabases) (by simpa [FragAny, TDM2.FragStmt] using hs) hf
  | showTables => exact hR (.showTables) (by simpa [FragAny, TDM2.FragStmt] using hs) hf
  | showColumns fr wh => exact hR (.showColumns fr wh) (by simpa [FragAny, TDM2.FragStmt] using hs) hf
  | createTableAs t ine q => exact hR (.createTableAs t ine q) (by simpa [FragAny, TDM2.FragStmt] using hs) hf

/-- **the union contains the data-change fragment over `FragQ`** (Props/C03D.lean), with the same rendering -/
theorem any_of_fragStmt (s : Stmt) (hs : TDM.FragStmt d s = true) : FragAny d s = true ∧ toksAny d s = TDM.toksStmt d s := by
  obtain ⟨h1, h2⟩ := TDM2.fragStmt_sub d noX (d == .HIVE) s hs
  refine ⟨by simp only [FragAny, h1, Bool.or_true, Bool.true_or], ?_⟩
  have h2 : TDM2.toksStmt d s = TDM.toksStmt d s := h2
  cases s <;> first | exact h2 | (simp only [toksAny, toksSel, h1, if_true]; exact h2) | simp [TDM.FragStmt] at hs
theorem withsOf_fragQ2 (q : Query) (hq : TQ2.FragQ2 d q = true) : TDM2.withsOf q = some [] := by
  cases q with
  | single s =>
    simp only [TQ2.FragQ2] at hq
    obtain ⟨dist, c, cs, fr, lats, js, wh, gb, hv, ob, sb, db, cb, lm, rfl, _⟩ := TQ2.srec_of (ch := noX) TQ2.chOK_noX s hq
    rfl
  | union ws s us =>
    cases ws with
    | none => simp [TQ2.FragQ2] at hq
    | some l =>
      cases l with
      | cons _ _ => simp [TQ2.FragQ2] at hq
      | nil => rfl
/-- … and the queries of `FragQ2` with their own rendering -/
theorem any_of_fragQ2 (q : Query) (hq : TQ2.FragQ2 d q = true) : FragAny d (.select q) = true ∧ toksAny d (.select q) = TQ2.toksQ2 d noX q := by
  refine ⟨by simp only [FragAny, hq, Bool.true_or], ?_⟩
  simp only [toksAny, toksSel]
  split
  · simp only [TDM2.toksStmt, TDM2.toksStmtG, withsOf_fragQ2 q hq, TDM2.toksWiths, List.nil_append]
  · rfl

end TR
