import MsqProofs.Lemmas.TRest2
/-!
# T-parse for SHOW COLUMNS, CREATE TABLE … AS, the new classes together, and the union of all fragments (C03 / C01)

* `showColumns_ok` — `SHOW COLUMNS FROM t, … [WHERE e]` (tables and filter of the larger query fragment `TQ2`);
* `sel_ok`, `createAs_ok` — `CREATE TABLE t AS <query>`: a query of `FragQ2`, or `[WITH …]` in front of a query of `FragQ`;
* `rest_ok` — every statement of `FragRest` through `pStatement`;
* `any_ok` — every statement of `FragAny` (queries `FragQ2` ∪ data-change statements `TDM.FragStmt` ∪ CREATE TABLE `TD.FragCreate` ∪
  `FragRest`) through `pStatement`, at the common fuel bound `20 * size + 16`.
-/
set_option linter.unusedVariables false
set_option linter.unusedSimpArgs false
set_option maxHeartbeats 2000000
open Lex PM Ast TP TS
namespace TR
variable {d : Gen.D}

/-! ### SHOW COLUMNS -/
theorem showColumns_ok (fr : List FromTable) (wh : Option Expr) (hfr : TQ2.fromOK4 d (some fr) = true) (hwh : TQ2.FragO4 d wh = true)
    (rest : List Tok) (hr : stopsAny d rest = true) (f : Nat) (hf : 20 * sizeL (toksShowColumns d fr wh) + 16 ≤ f) :
    pStatement d f (toksShowColumns d fr wh ++ rest) = .ok (.showColumns fr wh, rest) := by
  have hF := TQ2.from_rec (ch := noX) (TQ2.szFrom (some fr)) (fun q _ h => TQ2.qt TQ2.chOK_noX q h) (some fr) (Nat.le_refl _) hfr
  have hO := TQ2.opt_rec (ch := noX) (TQ2.szO4 wh) (fun e _ h => TQ2.rt4 TQ2.chOK_noX e h) wh (Nat.le_refl _) hwh
  have hq := sa_q2 hr
  simp only [TQ2.stopsQ2, Bool.and_eq_true] at hq
  have hb4 : TQ2.Bd4 d 4 rest = true := TQ2.bd3_mono hq.1 (by omega)
  have hb3 : TQ2.Bd4 d 3 (TQ2.toksOptE4 d noX "WHERE" wh ++ rest) = true := TQ2.bd3_where wh rest hb4
  have hfol := TQ2.Fol.ofBd hb3
  cases fr with
  | nil => simp [TQ2.fromOK4] at hfr
  | cons t ts =>
    simp only [TQ2.FromRec] at hF
    simp only [toksShowColumns, TQ2.toksFrom4, sizeL_cons, sizeL_append, size_opTok] at hf
    have h1 : pFromTable d f (TQ2.toksTable4 d noX t ++ (TQ2.toksTablesTail4 d noX ts ++ (TQ2.toksOptE4 d noX "WHERE" wh ++ rest))) =
        .ok (t, TQ2.toksTablesTail4 d noX ts ++ (TQ2.toksOptE4 d noX "WHERE" wh ++ rest)) :=
      TQ2.fromTable t hF.1 _ (TQ2.Fol.tail (TQ2.tablesTail_shape ts) hfol) f (by omega)
    have h2 := TQ2.fromTables _ hfol (TQ2.bd_comma hb3) ts hF.2 [t] f (by omega)
    have h3 := TQ2.optOr "WHERE" (by decide) 4 (by decide) wh hO rest hb4 f (by omega)
    simp only at h2 h3
    unfold pStatement toksShowColumns
    kw_simp
    unfold pShowColumns
    kw_simp
    unfold pFromClause
    simp only [TQ2.toksFrom4, List.cons_append, List.append_assoc]
    kw_simp
    simp only [h1, h2, List.singleton_append, h3]

/-! ### CREATE TABLE … AS -/
/-- a query where `_parse_select_statement` itself looks for the WITH clause -/
theorem sel_ok (q : Query) (hq : selOK d q = true) (rest : List Tok) (hr : stopsAny d rest = true) (f : Nat)
    (hf : 20 * sizeL (toksSel d q) + 16 ≤ f) : pSelectStmt d f none (toksSel d q ++ rest) = .ok (q, rest) := by
  by_cases h2 : TQ2.FragQ2 d q = true
  · simp only [toksSel, h2, if_true] at hf ⊢
    exact C03.tquery2 d q h2 rest (sa_q2 hr) f (by omega)
  · have h1 : TDM.FragStmt d (.select q) = true := by simpa [selOK, h2] using hq
    simp only [toksSel, h2, Bool.false_eq_true, if_false] at hf ⊢
    have := C03.twith_query_select d q h1 rest (sa_stmt hr) f hf
    simpa [TDM.toksStmt, TDM.toksStmtG] using this
theorem toksSel_head (q : Query) (hq : selOK d q = true) : ∃ k x, toksSel d q = opTok k :: x ∧ (k = "SELECT" ∨ k = "WITH") := by
  by_cases h2 : TQ2.FragQ2 d q = true
  · obtain ⟨x, hx⟩ := TQ2.toksQ2_head TQ2.chOK_noX q h2
    exact ⟨"SELECT", x, by simp only [toksSel, h2, if_true, hx], Or.inl rfl⟩
  · have h1 : TDM.FragStmt d (.select q) = true := by simpa [selOK, h2] using hq
    simp only [TDM.FragStmt, Bool.and_eq_true] at h1
    obtain ⟨x, hx⟩ := TQ.toksQ_head TQ.chOK_noX (TDM.stripW q) h1.2
    rw [TDM.toksQ_stripW] at hx
    simp only [toksSel, h2, Bool.false_eq_true, if_false, TDM.toksStmt, TDM.toksStmtG]
    rcases hw : TDM.withsOf q with _ | ⟨_ | ⟨w, ws⟩⟩
    · exact ⟨"SELECT", x, by simp only [TDM.toksWiths, List.nil_append, hx], Or.inl rfl⟩
    · exact ⟨"SELECT", x, by simp only [TDM.toksWiths, List.nil_append, hx], Or.inl rfl⟩
    · exact ⟨"WITH", _, by simp only [TDM.toksWiths, List.cons_append]; rfl, Or.inr rfl⟩

theorem createAs_ok (t : TableName) (q : Query) (ht : TDM.tblOKD t = true) (hq : selOK d q = true)
    (rest : List Tok) (hr : stopsAny d rest = true) (f : Nat) (hf : 20 * sizeL (toksCreateAs d t q) + 16 ≤ f) :
    pStatement d f (toksCreateAs d t q ++ rest) = .ok (.createTableAs t q, rest) := by
  simp only [toksCreateAs, sizeL_cons, size_opTok] at hf
  have h1 : pTblName (tbl t :: opTok "AS" :: (toksSel d q ++ rest)) = .ok (t, _) := TDM.tblName_ok t ht _ (by kw_simp)
  have h2 := sel_ok q hq rest hr f (by omega)
  unfold pStatement toksCreateAs
  kw_simp
  unfold pCreateTable
  simp only [tbl_eq] at h1 ⊢
  kw_simp
  simp only [h1]
  kw_simp
  simp only [h2]

/-! ### the new classes together -/
theorem rest_ok (s : Stmt) (hs : FragRest d s = true) (rest : List Tok) (hr : stopsAny d rest = true) (f : Nat)
    (hf : 20 * sizeL (toksRest d s) + 16 ≤ f) : pStatement d f (toksRest d s ++ rest) = .ok (s, rest) := by
  cases s with
  | dropTable b t => exact drop_ok b t hs rest hr f
  | truncate t => exact truncate_ok t hs rest hr f
  | msck t => exact msck_ok t hs rest hr f
  | use s => exact use_ok s rest f
  | set c =>
    simp only [FragRest, Bool.and_eq_true] at hs
    exact set_ok c hs.1 hs.2 rest hr f
  | analyze t p fc cm ns =>
    simp only [FragRest, Bool.and_eq_true] at hs
    refine analyze_ok t p fc cm ns hs.1 ?_ rest hr f (by simp only [toksRest] at hf; omega)
    by_cases hd : (d == Gen.D.HIVE) = true
    · have h2 := hs.2
      simp only [hd, if_true] at h2 ⊢
      exact TDM.partRec TQ.chOK_noX p h2
    · have h2 := hs.2
      simp only [hd, Bool.false_eq_true, if_false, Bool.and_eq_true, Bool.not_eq_true', Option.isNone_iff_eq_none] at h2 ⊢
      exact ⟨h2.1.1.1, h2.1.1.2, h2.1.2, h2.2⟩
  | alter t ops =>
    simp only [FragRest, Bool.and_eq_true, Bool.not_eq_true', List.all_eq_true] at hs
    cases ops with
    | nil => simp at hs
    | cons o ops =>
      exact alter_ok t o ops hs.1.1 (hs.2 o (by simp)) (fun q hq => hs.2 q (by simp [hq])) rest hr f (by simp only [toksRest] at hf; omega)
  | showDatabases => exact showDatabases_ok rest f
  | showTables => exact showTables_ok rest f
  | showColumns fr wh =>
    simp only [FragRest, Bool.and_eq_true] at hs
    exact showColumns_ok fr wh hs.1 hs.2 rest hr f hf
  | createTableAs t q =>
    simp only [FragRest, Bool.and_eq_true] at hs
    exact createAs_ok t q hs.1 hs.2 rest hr f hf
  | _ => simp [FragRest] at hs

/-! ### the union -/
theorem any_ok (s : Stmt) (hs : FragAny d s = true) (rest : List Tok) (hr : stopsAny d rest = true) (f : Nat)
    (hf : 20 * sizeL (toksAny d s) + 16 ≤ f) : pStatement d f (toksAny d s ++ rest) = .ok (s, restAfter s rest) := by
  have hD : ∀ s', TDM.FragStmt d s' = true → 20 * sizeL (TDM.toksStmt d s') + 16 ≤ f →
      pStatement d f (TDM.toksStmt d s' ++ rest) = .ok (s', rest) :=
    fun s' h1 h2 => C03.tstatement d s' h1 rest (sa_stmt hr) f h2
  have hR : ∀ s', FragRest d s' = true → 20 * sizeL (toksRest d s') + 16 ≤ f → pStatement d f (toksRest d s' ++ rest) = .ok (s', rest) :=
    fun s' h1 h2 => rest_ok s' h1 rest hr f h2
  cases s with
  | select q =>
    simp only [toksAny] at hf ⊢
    have hq : selOK d q = true := by simpa [FragAny, FragRest, selOK] using hs
    by_cases h2 : TQ2.FragQ2 d q = true
    · simp only [toksSel, h2, if_true] at hf ⊢
      exact C03.tquery2_statement d q h2 rest (sa_q2 hr) f (by omega)
    · simp only [toksSel, h2, Bool.false_eq_true, if_false] at hf ⊢
      have : TDM.FragStmt d (.select q) = true := by simpa [selOK, h2] using hq
      exact hD _ this hf
  | createTable c =>
    have hc : TD.FragCreate d c = true := by simpa [FragAny, TDM.FragStmt, FragRest] using hs
    exact C03.tcreate d c hc rest (sa_ends hr) f (by simp only [toksAny] at hf; omega)
  | insertValues h vs => exact hD _ (by simpa [FragAny, FragRest] using hs) hf
  | insertSelect h q => exact hD _ (by simpa [FragAny, FragRest] using hs) hf
  | update ws t sets wh ob lm => exact hD _ (by simpa [FragAny, FragRest] using hs) hf
  | delete t wh ob lm => exact hD _ (by simpa [FragAny, FragRest] using hs) hf
  | dropTable b t => exact hR (.dropTable b t) (by simpa [FragAny, TDM.FragStmt] using hs) hf
  | truncate t => exact hR (.truncate t) (by simpa [FragAny, TDM.FragStmt] using hs) hf
  | msck t => exact hR (.msck t) (by simpa [FragAny, TDM.FragStmt] using hs) hf
  | use s => exact hR (.use s) (by simpa [FragAny, TDM.FragStmt] using hs) hf
  | set c => exact hR (.set c) (by simpa [FragAny, TDM.FragStmt] using hs) hf
  | analyze t p fc cm ns => exact hR (.analyze t p fc cm ns) (by simpa [FragAny, TDM.FragStmt] using hs) hf
  | alter t ops => exact hR (.alter t ops) (by simpa [FragAny, TDM.FragStmt] using hs) hf
  | showDatabases => exact hR (.showDatabases) (by simpa [FragAny, TDM.FragStmt] using hs) hf
  | showTables => exact hR (.showTables) (by simpa [FragAny, TDM.FragStmt] using hs) hf
  | showColumns fr wh => exact hR (.showColumns fr wh) (by simpa [FragAny, TDM.FragStmt] using hs) hf
  | createTableAs t q => exact hR (.createTableAs t q) (by simpa [FragAny, TDM.FragStmt] using hs) hf

end TR
