import MsqProofs.Lemmas.LexLinkSelectPrint
import MsqProofs.Lemmas.PrintLemmas
/-!
# The SELECT printer prints `prSL`

`prS_eq`: on fragment SELECTs with lexable leaves, `PR.prS d s` succeeds with exactly the text `prSL d s`
(`String` operations do not reduce in the kernel, so the link is stated on the `List Char` mirror and tied to the
printer here, list function by list function).
-/
set_option linter.unusedVariables false
set_option linter.unusedSimpArgs false
namespace LexLink
open Lex Spec C05 C06 C09 Ast TP TS

theorem intercalate_joinLL (sep : List Char) : ∀ l : List (List Char), sep.intercalate l = joinLL sep l
  | [] => by simp [List.intercalate, joinLL]
  | [a] => by simp [List.intercalate, joinLL]
  | a :: b :: r => by
    have := intercalate_joinLL sep (b :: r)
    simp only [List.intercalate, List.intersperse_cons_cons, List.flatten_cons, joinLL] at this ⊢
    rw [this]; simp

theorem toList_joinS (sep : String) (l : List String) : (PR.joinS sep l).toList = joinLL sep.toList (l.map String.toList) := by
  rw [PR.joinS, String.toList_intercalate, intercalate_joinLL]

theorem ofList_eq {s : String} {l : List Char} (h : s.toList = l) : s = String.ofList l := by
  rw [← h, String.ofList_toList]

theorem quoteName_alias (a : String) (h : aliasLex a) : PR.quoteName a = a := by
  simp [PR.quoteName, h.1, h.2]

theorem aliasSome (x a : String) (h : aliasLex a) :
    (s!"{x} AS {PR.quoteName a}").toList = x.toList ++ aliasL (some a) := by
  have e : (" AS " : String).toList = [' ', 'A', 'S', ' '] := rfl
  simp [quoteName_alias a h, toString, String.toList_append, aliasL, e]

theorem prCols_eq (d : Gen.D) : ∀ (cols : List (Expr × Option String)),
    (∀ c ∈ cols, colOKS d c = true ∧ Leaf d c.1 ∧ optAliasLex c.2) →
    PR.prCols d cols = .ok (cols.map fun c => String.ofList (colL d c))
  | [], _ => rfl
  | (e, a) :: r, h => by
    have hc := h (e, a) (by simp)
    have hf : Frag d e = true := by have := hc.1; simp only [colOKS, Bool.and_eq_true] at this; exact this.1
    have h1 := prE_eq d (sz e) e (Nat.le_refl _) hf hc.2.1
    have h2 := prCols_eq d r fun c hm => h c (by simp [hm])
    simp only [PR.prCols, h1, h2, bind, Except.bind, pure, Except.pure, List.map_cons]
    refine congrArg Except.ok ?_
    congr 1
    cases a with
    | none => simp [colL, aliasL]
    | some a => exact ofList_eq (by rw [aliasSome _ a hc.2.2, String.toList_ofList, colL])

theorem prFrom_eq (d : Gen.D) (t : FromTable) (hf : tableOK t = true) (hl : tableLex t) :
    PR.prFrom d t = .ok (String.ofList (tableL t)) := by
  obtain ⟨r, a⟩ := t
  cases r with
  | sub q => simp [tableOK] at hf
  | table sch n =>
    cases sch with
    | some x => simp [tableOK] at hf
    | none =>
      simp only [PR.prFrom, PR.prTableRef, bind, Except.bind, pure, Except.pure]
      refine congrArg Except.ok ?_
      have hn : (PR.tableNameSrc none n).toList = '`' :: (n.toList ++ ['`']) := by
        simp [PR.tableNameSrc, toString, String.toList_append]
      cases a with
      | none => exact ofList_eq (by simp [hn, tableL, tblName, aliasL])
      | some a => exact ofList_eq (by rw [aliasSome _ a hl.2, hn]; simp [tableL, tblName])

theorem prFromList_eq (d : Gen.D) : ∀ (l : List FromTable), (∀ t ∈ l, tableOK t = true ∧ tableLex t) →
    PR.prFromList d l = .ok (l.map fun t => String.ofList (tableL t))
  | [], _ => rfl
  | t :: r, h => by
    have h1 := prFrom_eq d t (h t (by simp)).1 (h t (by simp)).2
    have h2 := prFromList_eq d r fun x hx => h x (by simp [hx])
    simp only [PR.prFromList, h1, h2, bind, Except.bind, pure, Except.pure, List.map_cons]

theorem prList8_eq (d : Gen.D) : ∀ (l : List Expr), (∀ e ∈ l, Frag d e = true ∧ Leaf d e) →
    PR.prList8 d l = .ok (l.map fun e => String.ofList (keyL d e))
  | [], _ => rfl
  | e :: r, h => by
    have h1 := prE_eq d (sz e) e (Nat.le_refl _) (h e (by simp)).1 (h e (by simp)).2
    have h2 := prList8_eq d r fun x hx => h x (by simp [hx])
    simp only [PR.prList8, h1, h2, bind, Except.bind, pure, Except.pure, List.map_cons, wrap_ofList, keyL]

theorem prOrd_eq (d : Gen.D) (o : OrderItem) (hf : ordOK d o = true) (hl : ordLeaf d o) :
    PR.prOrd d o = .ok (String.ofList (ordItemL d o)) := by
  obtain ⟨e, desc, nf, nl⟩ := o
  simp only [ordOK, Bool.and_eq_true, Bool.not_eq_eq_eq_not, Bool.not_true] at hf
  have h1 := prE_eq d (sz e) e (Nat.le_refl _) hf.1.1 hl
  simp only [PR.prOrd, h1, Except.map, hf.1.2, hf.2, wrap_ofList]
  refine congrArg Except.ok (ofList_eq ?_)
  have e1 : (" DESC" : String).toList = [' ', 'D', 'E', 'S', 'C'] := rfl
  cases desc <;> simp [toString, String.toList_append, String.toList_ofList, ordItemL, keyL, e1]

theorem prOrdList_eq (d : Gen.D) : ∀ (l : List OrderItem), (∀ o ∈ l, ordOK d o = true ∧ ordLeaf d o) →
    PR.prOrdList d l = .ok (l.map fun o => String.ofList (ordItemL d o))
  | [], _ => rfl
  | o :: r, h => by
    have h1 := prOrd_eq d o (h o (by simp)).1 (h o (by simp)).2
    have h2 := prOrdList_eq d r fun x hx => h x (by simp [hx])
    simp only [PR.prOrdList, h1, h2, bind, Except.bind, pure, Except.pure, List.map_cons]

theorem wordsSrc_join (d : Gen.D) (ty : String) (h : joinTyOK d ty = true) :
    ∃ s, PR.wordsSrc Gen.joinTypes ty = .ok s ∧ s.toList = joinWordsL ty := by
  cases hf : Gen.joinTypes.find? (·.1 == ty) with
  | none =>
    simp only [joinTyOK, joinWords, hf, Bool.and_eq_true] at h
    exact absurd h.2 (by simp)
  | some e =>
    refine ⟨PR.joinS " " e.2, by simp [PR.wordsSrc, hf], ?_⟩
    rw [toList_joinS]
    simp only [joinWordsL, hf]
    rfl

theorem prJoin_eq (d : Gen.D) (j : Join) (hf : joinOK d j = true) (hl : joinLex d j) :
    PR.prJoin d j = .ok (String.ofList (joinC d j).1) := by
  obtain ⟨ty, t, rule⟩ := j
  simp only [joinOK, Bool.and_eq_true] at hf
  obtain ⟨tys, h1, h1l⟩ := wordsSrc_join d ty hf.1.1
  have h2 := prFrom_eq d t hf.1.2 hl.1
  cases rule with
  | none =>
    simp only [PR.prJoin, h1, h2, bind, Except.bind, pure, Except.pure]
    refine congrArg Except.ok (ofList_eq ?_)
    simp [toString, String.toList_append, String.toList_ofList, h1l, joinC, ruleL]
  | some r =>
    cases r with
    | on c =>
      have h3 := prE_eq d (sz c) c (Nat.le_refl _) hf.2 hl.2
      simp only [PR.prJoin, h1, h2, h3, bind, Except.bind, pure, Except.pure]
      refine congrArg Except.ok (ofList_eq ?_)
      have e1 : (" ON " : String).toList = [' ', 'O', 'N', ' '] := rfl
      simp [toString, String.toList_append, String.toList_ofList, h1l, joinC, ruleL, e1]
    | «using» u => simp [ruleOK] at hf

theorem prJoinList_eq (d : Gen.D) : ∀ (l : List Join), (∀ j ∈ l, joinOK d j = true ∧ joinLex d j) →
    PR.prJoinList d l = .ok (l.map fun j => String.ofList (joinC d j).1)
  | [], _ => rfl
  | j :: r, h => by
    have h1 := prJoin_eq d j (h j (by simp)).1 (h j (by simp)).2
    have h2 := prJoinList_eq d r fun x hx => h x (by simp [hx])
    simp only [PR.prJoinList, h1, h2, bind, Except.bind, pure, Except.pure, List.map_cons]

theorem map_toList_ofList {α : Type} (f : α → List Char) (l : List α) :
    (l.map fun x => String.ofList (f x)).map String.toList = l.map f := by
  induction l with
  | nil => rfl
  | cons a r ih => simp [String.toList_ofList, ih]

/-! ## the optional clauses (named in `PrintLemmas.lean`: `PR.prOptFrom` …, `PR.prS_eq`) -/

theorem comp_toList_ofList {α : Type} (f : α → List Char) : (String.toList ∘ fun x => String.ofList (f x)) = f := by
  funext x; simp [String.toList_ofList]

theorem optFrom_eq (d : Gen.D) (fr : Option (List FromTable)) (hf : fromOK fr = true)
    (hl : ∀ l, fr = some l → ∀ t ∈ l, tableLex t) :
    PR.prOptFrom d fr = .ok ((fromC fr).map fun p => String.ofList p.1) := by
  cases fr with
  | none => rfl
  | some l =>
    cases l with
    | nil => simp [fromOK] at hf
    | cons t ts =>
      simp only [fromOK, Bool.and_eq_true] at hf
      have := prFromList_eq d (t :: ts) (by
        intro y hy
        refine ⟨?_, hl _ rfl y hy⟩
        rcases List.mem_cons.mp hy with rfl | h
        · exact hf.1
        · exact (List.all_eq_true.mp hf.2) y h)
      simp only [PR.prOptFrom, this, Except.map, fromC, List.map_cons, List.map_nil]
      refine congrArg Except.ok ?_
      congr 1
      apply ofList_eq
      have e1 : ("FROM " : String).toList = "FROM".toList ++ [' '] := rfl
      rw [String.toList_append, toList_joinS, e1]
      simp [String.toList_ofList, comp_toList_ofList]

theorem optExpr_eq (d : Gen.D) (kw : String) (o : Option Expr) (hf : optFrag d o = true) (hl : optLeaf d o)
    (f : Option Expr → Except Err (List String))
    (hnone : f none = pure []) (hsome : ∀ e, f (some e) = (PR.prE d e).map fun x => [kw ++ " " ++ x]) :
    f o = .ok ((optC d kw o).map fun p => String.ofList p.1) := by
  cases o with
  | none => rw [hnone]; rfl
  | some e =>
    have := prE_eq d (sz e) e (Nat.le_refl _) hf hl
    rw [hsome, this]
    simp only [Except.map, optC, List.map_cons, List.map_nil]
    refine congrArg Except.ok ?_
    congr 1
    apply ofList_eq
    have e1 : (" " : String).toList = [' '] := rfl
    simp [String.toList_append, String.toList_ofList, e1]

theorem optWhere_eq (d : Gen.D) (o : Option Expr) (hf : optFrag d o = true) (hl : optLeaf d o) :
    PR.prOptWhere d o = .ok ((optC d "WHERE" o).map fun p => String.ofList p.1) :=
  optExpr_eq d "WHERE" o hf hl (PR.prOptWhere d) rfl (fun e => by
    simp only [PR.prOptWhere]
    have : ∀ x : String, s!"WHERE {x}" = "WHERE" ++ " " ++ x := by
      intro x; apply String.toList_inj.mp; simp [toString, String.toList_append]
    simp only [this])

theorem optHaving_eq (d : Gen.D) (o : Option Expr) (hf : optFrag d o = true) (hl : optLeaf d o) :
    PR.prOptHaving d o = .ok ((optC d "HAVING" o).map fun p => String.ofList p.1) :=
  optExpr_eq d "HAVING" o hf hl (PR.prOptHaving d) rfl (fun e => by
    simp only [PR.prOptHaving]
    have : ∀ x : String, s!"HAVING {x}" = "HAVING" ++ " " ++ x := by
      intro x; apply String.toList_inj.mp; simp [toString, String.toList_append]
    simp only [this])

theorem optGroup_eq (d : Gen.D) (gb : Option GroupBy) (hf : groupOK d gb = true) (hl : groupLeaf d gb) :
    PR.prOptGroup d gb = .ok ((groupC d gb).map fun p => String.ofList p.1) := by
  cases gb with
  | none => rfl
  | some g =>
    obtain ⟨gc, sets, cube, rollup⟩ := g
    cases gc with
    | nil => simp [groupOK] at hf
    | cons e es =>
      cases sets with
      | some x => simp [groupOK] at hf
      | none =>
      cases cube with
      | true => simp [groupOK] at hf
      | false =>
      cases rollup with
      | true => simp [groupOK] at hf
      | false =>
      simp only [groupOK, Bool.and_eq_true] at hf
      have := prList8_eq d (e :: es) (by
        intro y hy
        rcases List.mem_cons.mp hy with rfl | h
        · exact ⟨hf.1.1, hl _ (by simp)⟩
        · exact ⟨(List.all_eq_true.mp hf.1.2) y h, hl y (by simp [h])⟩)
      simp only [PR.prOptGroup, PR.prGroupBy, this, bind, Except.bind, pure, Except.pure, Except.map, groupC, List.map_cons,
        List.map_nil]
      refine congrArg Except.ok ?_
      congr 1
      apply ofList_eq
      have e1 : ("GROUP BY " : String).toList = "GROUP BY".toList ++ [' '] := rfl
      simp [toString, String.toList_append, toList_joinS, e1, String.toList_ofList, comp_toList_ofList]

theorem optOrder_eq (d : Gen.D) (ob : Option (List OrderItem)) (hf : orderOK d ob = true) (hl : orderLeaf d ob) :
    PR.prOptOrder d ob = .ok ((orderC d ob).map fun p => String.ofList p.1) := by
  cases ob with
  | none => rfl
  | some l =>
    cases l with
    | nil => simp [orderOK] at hf
    | cons o os =>
      simp only [orderOK, Bool.and_eq_true] at hf
      have := prOrdList_eq d (o :: os) (by
        intro y hy
        refine ⟨?_, hl y hy⟩
        rcases List.mem_cons.mp hy with rfl | h
        · exact hf.1
        · exact (List.all_eq_true.mp hf.2) y h)
      simp only [PR.prOptOrder, this, Except.map, orderC, List.map_cons, List.map_nil]
      refine congrArg Except.ok ?_
      congr 1
      apply ofList_eq
      have e1 : ("ORDER BY " : String).toList = "ORDER BY".toList ++ [' '] := rfl
      rw [String.toList_append, toList_joinS, e1]
      simp [String.toList_ofList, comp_toList_ofList]

theorem limit_eq (lm : Option (Int × Option Int)) :
    (match lm with | some l => [PR.limitSrc l] | none => []) = (limitC lm).map fun p => String.ofList p.1 := by
  cases lm with
  | none => rfl
  | some pr =>
    obtain ⟨n, m⟩ := pr
    have e1 : ("LIMIT " : String).toList = "LIMIT".toList ++ [' '] := rfl
    have e2 : (", " : String).toList = [',', ' '] := rfl
    cases m with
    | none =>
      simp only [limitC, List.map_cons, List.map_nil]
      congr 1
      apply ofList_eq
      simp [PR.limitSrc, toString, String.toList_append, e1]
    | some m =>
      simp only [limitC, List.map_cons, List.map_nil]
      congr 1
      apply ofList_eq
      simp [PR.limitSrc, toString, String.toList_append, e1, e2]

/-- **the SELECT printer prints `prSL`** -/
theorem prS_text (d : Gen.D) (s : Select) (hs : FragS d s = true) (hl : LeafS d s) :
    PR.prS d s = .ok (String.ofList (prSL d s)) := by
  obtain ⟨ws, dist, cols, fr, lats, js, wh, gb, hv, ob, sb, db, cb, lm⟩ := s
  cases ws with
  | none => simp [FragS] at hs
  | some w =>
  cases w with
  | cons a b => simp [FragS] at hs
  | nil =>
  cases cols with
  | nil => simp [FragS] at hs
  | cons c cs =>
  cases lats with
  | cons a b => simp [FragS] at hs
  | nil =>
  cases sb with
  | some a => simp [FragS] at hs
  | none =>
  cases db with
  | some a => simp [FragS] at hs
  | none =>
  cases cb with
  | some a => simp [FragS] at hs
  | none =>
  simp only [FragS, Bool.and_eq_true] at hs
  obtain ⟨⟨⟨⟨⟨⟨⟨⟨⟨hc, hcs⟩, _⟩, hfr⟩, hjs⟩, hwh⟩, hgb⟩, hhv⟩, hob⟩, hlm⟩ := hs
  obtain ⟨lc, lfr, ljs, lwh, lgb, lhv, lob⟩ := hl
  have e_cols := prCols_eq d (c :: cs) (by
    intro y hy
    refine ⟨?_, lc y hy⟩
    rcases List.mem_cons.mp hy with rfl | h
    · exact hc
    · exact (List.all_eq_true.mp hcs) y h)
  have e_join := prJoinList_eq d js (fun j hj => ⟨(List.all_eq_true.mp hjs) j hj, ljs j hj⟩)
  have e_guard : PR.prSGuard d [] none none none = .ok () := by simp [PR.prSGuard]
  have e_hive : PR.prHive d none none none = .ok [] := by
    unfold PR.prHive; split <;> rfl
  rw [PR.prS_eq]
  simp only [PR.prWithPrefix, List.isEmpty_nil, if_true, PR.ok_bind, e_guard, PR.prSRest, e_cols, optFrom_eq d fr hfr lfr,
    PR.prLateralList, e_join, optWhere_eq d wh hwh lwh, optGroup_eq d gb hgb lgb, optHaving_eq d hv hhv lhv,
    optOrder_eq d ob hob lob, e_hive, limit_eq, bind, Except.bind, pure, Except.pure]
  refine congrArg Except.ok (ofList_eq ?_)
  have e0 : ("" : String).toList = [] := rfl
  have e1 : ("SELECT" : String).toList :: (if dist = true then [("DISTINCT" : String).toList] else []) =
      (if dist = true then ["SELECT".toList, "DISTINCT".toList] else ["SELECT".toList]) := by cases dist <;> rfl
  simp only [String.toList_append, toList_joinS, e0, List.nil_append, List.map_append, List.map_cons, List.map_nil,
    List.map_map, comp_toList_ofList, String.toList_ofList, prSL, clauses, List.append_nil]
  have en : ("\n" : String).toList = ['\n'] := rfl
  have e2 : (" " : String).toList = [' '] := rfl
  have e3 : (", " : String).toList = [',', ' '] := rfl
  have e4 : ("DISTINCT " : String).toList = "DISTINCT".toList ++ [' '] := rfl
  have e5 : ("LIMIT " : String).toList = "LIMIT".toList ++ [' '] := rfl
  have hsel : joinLL " ".toList (["SELECT".toList] ++ List.map String.toList (if dist = true then ["DISTINCT"] else []) ++
      [joinLL ", ".toList (colL d c :: List.map (colL d) cs)]) = (selC d dist c cs).1 := by
    cases dist <;> simp [selC, joinLL, e2, e3, e4]
  rw [hsel, en]
  congr 1
  simp only [List.append_assoc, List.cons_append, List.nil_append]
  congr 1
  have hcomp : (fun x => (joinC d x).fst) = ((fun x : Clause => x.fst) ∘ joinC d) := rfl
  rw [hcomp]
  cases lm with
  | none => rfl
  | some pr =>
    obtain ⟨n, m⟩ := pr
    cases m with
    | none =>
      have : [PR.limitSrc (n, none)].map String.toList = (limitC (some (n, none))).map (fun x => x.fst) := by
        simp [limitC, PR.limitSrc, toString, String.toList_append, e5]
      show _ ++ (_ ++ (_ ++ (_ ++ (_ ++ (_ ++ [PR.limitSrc (n, none)].map String.toList))))) = _
      rw [this]
    | some m =>
      have : [PR.limitSrc (n, some m)].map String.toList = (limitC (some (n, some m))).map (fun x => x.fst) := by
        simp [limitC, PR.limitSrc, toString, String.toList_append, e5, e3]
      show _ ++ (_ ++ (_ ++ (_ ++ (_ ++ (_ ++ [PR.limitSrc (n, some m)].map String.toList))))) = _
      rw [this]

end LexLink
