import MsqProofs.Lemmas.ParseWNSkel
/-!
# C02 — uniqueness for the keyword-predicate layer (level 9), given its operands

The third skeleton (after the logical and the compute one).  Operands are token runs with their trees: expressions of the compute
level (`Derives d 8`), and — for `IN` and `EXISTS` — the bracket group with the value list / sub-query it stands for.  Operators are
the keyword tokens.  A level-9 expression is a first operand (or `EXISTS g`) followed by any number of predicate TAILS

    [NOT] BETWEEN f AND t      [NOT] IS a      IS NOT a      [NOT] LIKE | RLIKE | REGEXP a      [NOT] IN g

each taking everything to its left as its left operand (`KD.step`: the chain associates to the left).  `tailOf` reads the node a
tail builds off its items — a FUNCTION, so a tail means one thing —, `kd_unique`: the items determine the tree.
-/
set_option linter.unusedVariables false
open Lex
namespace WNG
open PM Ast OPG

/-- `[NOT] IS a`, `[NOT] IN g`, `[NOT] LIKE / RLIKE / REGEXP a` with the flag `n` -/
def kw1 (n : Bool) (t : Tok) (a : Expr) : Option (Expr → Expr) :=
  if up t.src = "IS" then some (fun b => .kw .is n b a)
  else if up t.src = "IN" then some (fun b => .kw .in_ n b a)
  else (likeKind (up t.src)).map fun k b => .kw k n b a

/-- the node a predicate tail builds on its left operand -/
def tailOf (d : Gen.D) : List It → Option (Expr → Expr)
  | [.op tb, .atom (_, f), .op ta, .atom (_, t)] =>
    if up tb.src = "BETWEEN" ∧ ta.equalsStr "AND" = true then some (fun b => .between false b f t) else none
  | [.op tn, .op tb, .atom (_, f), .op ta, .atom (_, t)] =>
    if isNot d tn = true ∧ up tb.src = "BETWEEN" ∧ ta.equalsStr "AND" = true then some (fun b => .between true b f t) else none
  | [.op t1, .atom (_, a)] => kw1 false t1 a
  | [.op t1, .op t2, .atom (_, a)] =>
    if up t1.src = "IS" ∧ t2.srcEqUp "NOT" = true then some (fun b => .kw .is true b a)
    else if isNot d t1 = true then kw1 true t2 a else none
  | _ => none

/-- level-9 expressions over operands and keyword tokens -/
inductive KD (d : Gen.D) : List It → Expr → Prop
  | leaf {u : List Tok} {a : Expr} : KD d [.atom (u, a)] a
  | exists_ {te : Tok} {u : List Tok} {e : Expr} : te.srcEqUp "EXISTS" = true → KD d [.op te, .atom (u, e)] (.exists_ e)
  | step {l tl : List It} {b : Expr} {mk : Expr → Expr} : KD d l b → tailOf d tl = some mk → KD d (l ++ tl) (mk b)

/-! ### lexical facts -/
theorem and_not_kw {t : Tok} (h : t.equalsStr "AND" = true) : up t.src = "AND" := by
  cases t with
  | single s m => simp only [Tok.equalsStr, beq_iff_eq] at h; simp only [Tok.src, Tok.source]; rw [h]; decide
  | group k cs m => simp [Tok.equalsStr] at h
theorem kw1_word {n : Bool} {t : Tok} {a : Expr} {mk : Expr → Expr} (h : kw1 n t a = some mk) :
    up t.src = "IS" ∨ up t.src = "IN" ∨ up t.src = "LIKE" ∨ up t.src = "RLIKE" ∨ up t.src = "REGEXP" := by
  unfold kw1 at h
  split at h
  · exact .inl ‹_›
  · split at h
    · exact .inr (.inl ‹_›)
    · unfold likeKind at h
      split at h
      · rename_i hk; exact .inr (.inr (.inl (by simpa using hk)))
      · split at h
        · rename_i hk; exact .inr (.inr (.inr (.inl (by simpa using hk))))
        · split at h
          · rename_i hk; exact .inr (.inr (.inr (.inr (by simpa using hk))))
          · simp at h
theorem kw1_not_and {n : Bool} {t : Tok} {a : Expr} {mk : Expr → Expr} (h : kw1 n t a = some mk) : t.equalsStr "AND" = false := by
  cases hq : t.equalsStr "AND" with
  | false => rfl
  | true =>
    have h1 := and_not_kw hq
    rcases kw1_word h with h2 | h2 | h2 | h2 | h2 <;> (rw [h1] at h2; revert h2; decide)
theorem not_tok_not_and {t : Tok} (h : t.srcEqUp "NOT" = true) : t.equalsStr "AND" = false := by
  cases hq : t.equalsStr "AND" with
  | false => rfl
  | true =>
    have h1 := and_not_kw hq
    simp only [Tok.srcEqUp, beq_iff_eq] at h
    rw [h1] at h; revert h; decide

/-! ### shape of derivable item lists and of tails -/
/-- the four shapes of a tail -/
inductive TShape : List It → Prop
  | bt {tb ta : Tok} {p q : Atom} : ta.equalsStr "AND" = true → TShape [.op tb, .atom p, .op ta, .atom q]
  | nbt {tn tb ta : Tok} {p q : Atom} : ta.equalsStr "AND" = true → TShape [.op tn, .op tb, .atom p, .op ta, .atom q]
  | k1 {t1 : Tok} {p : Atom} : t1.equalsStr "AND" = false → TShape [.op t1, .atom p]
  | k2 {t1 t2 : Tok} {p : Atom} : t2.equalsStr "AND" = false → TShape [.op t1, .op t2, .atom p]

theorem tshape_of {d : Gen.D} {tl : List It} {mk : Expr → Expr} (h : tailOf d tl = some mk) : TShape tl := by
  unfold tailOf at h
  split at h
  · split at h
    · rename_i hc; exact .bt hc.2
    · cases h
  · split at h
    · rename_i hc; exact .nbt hc.2.2
    · cases h
  · exact .k1 (kw1_not_and h)
  · split at h
    · rename_i hc; exact .k2 (not_tok_not_and hc.2)
    · split at h
      · exact .k2 (kw1_not_and h)
      · cases h
  · cases h

theorem TShape.two_le {tl : List It} (h : TShape tl) : 2 ≤ tl.length := by cases h <;> simp

theorem KD.last_atom {d : Gen.D} {items : List It} {e : Expr} (h : KD d items e) : ∃ l p, items = l ++ [.atom p] := by
  induction h with
  | leaf => exact ⟨[], _, rfl⟩
  | @exists_ te u e _ => exact ⟨[.op te], (u, e), rfl⟩
  | @step l tl b mk _ ht _ =>
    have hsh := tshape_of ht
    cases hsh with
    | @bt tb ta p q _ => exact ⟨l ++ [.op tb, .atom p, .op ta], q, by simp⟩
    | @nbt tn tb ta p q _ => exact ⟨l ++ [.op tn, .op tb, .atom p, .op ta], q, by simp⟩
    | @k1 t1 p _ => exact ⟨l ++ [.op t1], p, by simp⟩
    | @k2 t1 t2 p _ => exact ⟨l ++ [.op t1, .op t2], p, by simp⟩

theorem KD.ne_nil {d : Gen.D} {items : List It} {e : Expr} (h : KD d items e) : items ≠ [] := by
  obtain ⟨l, p, rfl⟩ := h.last_atom; simp

/-- the last production of a derivation -/
theorem KD.inv {d : Gen.D} {items : List It} {e : Expr} (h : KD d items e) :
    (∃ u a, items = [.atom (u, a)] ∧ e = a) ∨
    (∃ te u e0, items = [.op te, .atom (u, e0)] ∧ e = .exists_ e0) ∨
    (∃ l tl b mk, items = l ++ tl ∧ e = mk b ∧ KD d l b ∧ tailOf d tl = some mk) := by
  cases h with
  | leaf => exact .inl ⟨_, _, rfl, rfl⟩
  | exists_ _ => exact .inr (.inl ⟨_, _, _, rfl, rfl⟩)
  | step hl ht => exact .inr (.inr ⟨_, _, _, _, rfl, rfl, hl, ht⟩)

/-- the split of a derivable list into left operand and tail is determined -/
theorem split_tail {d : Gen.D} {l l' tl tl' : List It} {b b' : Expr} (hl : KD d l b) (hl' : KD d l' b') (ht : TShape tl) (ht' : TShape tl')
    (h : l ++ tl = l' ++ tl') : l = l' ∧ tl = tl' := by
  obtain ⟨m, p, rfl⟩ := hl.last_atom
  obtain ⟨m', p', rfl⟩ := hl'.last_atom
  have hr := congrArg List.reverse h
  cases ht <;> cases ht' <;> simp only [List.reverse_append, List.reverse_cons, List.reverse_nil, List.nil_append, List.cons_append,
    List.cons.injEq, Item.atom.injEq, Item.op.injEq, reduceCtorEq, false_and, and_false] at hr
  all_goals first
    | (obtain ⟨rfl, rfl, rfl, rfl, hm⟩ := hr; have := List.reverse_injective hm; subst this; exact ⟨rfl, rfl⟩)
    | (obtain ⟨rfl, rfl, rfl, rfl, rfl, hm⟩ := hr; have := List.reverse_injective hm; subst this; exact ⟨rfl, rfl⟩)
    | (obtain ⟨rfl, rfl, rfl, hm⟩ := hr; have := List.reverse_injective hm; subst this; exact ⟨rfl, rfl⟩)
    | (obtain ⟨rfl, rfl, _⟩ := hr; simp_all)
    | skip

theorem step_not_short {d : Gen.D} {l tl : List It} {b : Expr} {mk : Expr → Expr} (hl : KD d l b) (ht : tailOf d tl = some mk) :
    (∀ p, l ++ tl ≠ [.atom p]) ∧ (∀ te p, l ++ tl ≠ [.op te, .atom p]) := by
  have h2 := (tshape_of ht).two_le
  obtain ⟨m, q, rfl⟩ := hl.last_atom
  constructor
  · intro p h
    have := congrArg List.length h
    simp at this; omega
  · intro te p h
    have := congrArg List.length h
    simp at this
    have hm : m = [] := List.length_eq_zero_iff.mp (by omega)
    subst hm
    have h3 : tl.length = 1 := by omega
    omega

theorem kd_unique {d : Gen.D} : ∀ (n : Nat) (items : List It), items.length ≤ n → ∀ {e e' : Expr}, KD d items e → KD d items e' → e = e' := by
  intro n
  induction n with
  | zero => intro items hn e e' h; exact absurd (List.length_eq_zero_iff.mp (by omega)) h.ne_nil
  | succ n ih =>
    intro items hn e e' h h'
    rcases h.inv with ⟨u, a, e1, rfl⟩ | ⟨te, u, e0, e1, rfl⟩ | ⟨l, tl, b, mk, e1, rfl, hl, ht⟩
    · rcases h'.inv with ⟨u', a', e2, rfl⟩ | ⟨te', u', e0', e2, rfl⟩ | ⟨l', tl', b', mk', e2, rfl, hl', ht'⟩
      · rw [e1] at e2; simp at e2; exact e2.2
      · rw [e1] at e2; simp at e2
      · exact absurd (e2.symm.trans e1) ((step_not_short hl' ht').1 _)
    · rcases h'.inv with ⟨u', a', e2, rfl⟩ | ⟨te', u', e0', e2, rfl⟩ | ⟨l', tl', b', mk', e2, rfl, hl', ht'⟩
      · rw [e1] at e2; simp at e2
      · rw [e1] at e2; simp at e2; rw [e2.2.2]
      · exact absurd (e2.symm.trans e1) ((step_not_short hl' ht').2 _ _)
    · rcases h'.inv with ⟨u', a', e2, rfl⟩ | ⟨te', u', e0', e2, rfl⟩ | ⟨l', tl', b', mk', e2, rfl, hl', ht'⟩
      · exact absurd (e1.symm.trans e2) ((step_not_short hl ht).1 _)
      · exact absurd (e1.symm.trans e2) ((step_not_short hl ht).2 _ _)
      · obtain ⟨rfl, rfl⟩ := split_tail hl hl' (tshape_of ht) (tshape_of ht') (e1.symm.trans e2)
        rw [ht] at ht'
        cases ht'
        have hlen : l.length ≤ n := by
          have h2 := (tshape_of ht).two_le
          have h3 := congrArg List.length e1
          simp at h3
          omega
        rw [ih l hlen hl hl']


/-- **the keyword skeleton determines the tree** -/
theorem KD.unique {d : Gen.D} {items : List It} {e e' : Expr} (h : KD d items e) (h' : KD d items e') : e = e' :=
  kd_unique items.length items (Nat.le_refl _) h h'

/-! ### every derivation of level ≤ 9 has a keyword skeleton -/
/-- what an operand of the keyword skeleton is: an expression of the compute level, or the bracket group of an IN / EXISTS -/
def AtomK (d : Gen.D) (u : List Tok) (a : Expr) : Prop :=
  Derives d 8 u a ∨ ∃ g, u = [g] ∧
    ((startsSelect g.children = false ∧ ∃ vs, a = .subValue vs ∧ Segs d (splitBy "," g.children [] []) vs) ∨ ∃ q, a = .subQuery q ∧ SubQ d g q)

theorem isNot_not_is {d : Gen.D} {t : Tok} (h : isNot d t = true) : up t.src ≠ "IS" := by
  intro hc
  simp only [isNot, hc] at h
  cases d <;> simp [Gen.notSet] at h
theorem kw1_like {n : Bool} {t : Tok} {a : Expr} {k : KwKind} (h : likeKind (up t.src) = some k) :
    kw1 n t a = some (fun b => .kw k n b a) := by
  have h1 : up t.src ≠ "IS" := by intro hc; rw [hc] at h; simp [likeKind] at h
  have h2 : up t.src ≠ "IN" := by intro hc; rw [hc] at h; simp [likeKind] at h
  simp [kw1, h1, h2, h]

/-- the items of an optional NOT -/
def nsItems (ns : List Tok) : List It := ns.map Item.op
theorem flatI_nsItems (ns : List Tok) : flatI (nsItems ns) = ns := by
  induction ns with
  | nil => rfl
  | cons t r ih => simp [nsItems, flatI] at ih ⊢; exact ih

theorem tail_kw1 {d : Gen.D} {ns : List Tok} {n : Bool} {t : Tok} {p : Atom} {mk : Expr → Expr} (hn : NotOpt d ns n)
    (hnot : n = true → ¬ (∃ t0, ns = [t0] ∧ up t0.src = "IS" ∧ t.srcEqUp "NOT" = true))
    (hk : kw1 n t p.2 = some mk) : tailOf d (nsItems ns ++ [.op t, .atom p]) = some mk := by
  obtain ⟨u, a⟩ := p
  cases hn with
  | no => simpa [nsItems, tailOf] using hk
  | @yes tn htn =>
    have h1 := isNot_not_is htn
    simp [nsItems, tailOf, h1, htn]
    exact hk

theorem skelK_leaf {d : Gen.D} {ts : List Tok} {e : Expr} (h : Derives d 8 ts e) :
    ∃ items, flatI items = ts ∧ KD d items e ∧ ∀ u a, Item.atom (u, a) ∈ items → AtomK d u a :=
  ⟨[.atom (ts, e)], by simp [flatI], .leaf, by
    intro u a hm
    simp only [List.mem_cons, Item.atom.injEq, Prod.mk.injEq, List.not_mem_nil, or_false] at hm
    obtain ⟨rfl, rfl⟩ := hm
    exact .inl h⟩

theorem skelK_of {d : Gen.D} : ∀ {L : Nat} {ts : List Tok} {e : Expr}, Derives d L ts e → L ≤ 9 →
    ∃ items, flatI items = ts ∧ KD d items e ∧ ∀ u a, Item.atom (u, a) ∈ items → AtomK d u a
  | _, _, _, .up h hl, hL => skelK_of h (by omega)
  | _, _, _, .between (ns := ns) (n := n) (tb := tb) (ta := ta) (u1 := u1) (u2 := u2) (f := f) (t := t) hb hn htb hf hta ht, _ => by
      obtain ⟨il, fl, kl, al⟩ := skelK_of hb (Nat.le_refl _)
      have htl : tailOf d (nsItems ns ++ [.op tb, .atom (u1, f), .op ta, .atom (u2, t)]) = some (fun b => .between n b f t) := by
        cases hn with
        | no => simp [nsItems, tailOf, htb, hta]
        | yes htn => simp [nsItems, tailOf, htb, hta, htn]
      have hk := KD.step kl htl
      refine ⟨il ++ (nsItems ns ++ [.op tb, .atom (u1, f), .op ta, .atom (u2, t)]), ?_, hk, ?_⟩
      · simp [flatI_append, flatI, fl, flatI_nsItems]
      · intro u a hm
        simp only [List.mem_append, List.mem_cons, List.not_mem_nil, or_false, reduceCtorEq, false_or, Item.atom.injEq, Prod.mk.injEq,
          nsItems, List.mem_map, and_false, exists_false] at hm
        rcases hm with hm | ⟨rfl, rfl⟩ | ⟨rfl, rfl⟩
        · exact al u a hm
        · exact .inl hf
        · exact .inl ht
  | _, _, _, .is_ (ns := ns) (n := n) (ti := ti) (r := r) (a := a) hb hn hti hr, _ => by
      obtain ⟨il, fl, kl, al⟩ := skelK_of hb (Nat.le_refl _)
      have htl := tail_kw1 (t := ti) (p := (r, a)) (mk := fun b => .kw .is n b a) hn
        (by rintro _ ⟨t0, rfl, h0, _⟩; cases hn with | yes htn => exact isNot_not_is htn h0) (by simp [kw1, hti])
      have hk := KD.step kl htl
      refine ⟨il ++ (nsItems ns ++ [.op ti, .atom (r, a)]), ?_, hk, ?_⟩
      · simp [flatI_append, flatI, fl, flatI_nsItems]
      · intro u x hm
        simp only [List.mem_append, List.mem_cons, List.not_mem_nil, or_false, reduceCtorEq, false_or, Item.atom.injEq, Prod.mk.injEq,
          nsItems, List.mem_map, and_false, exists_false] at hm
        rcases hm with hm | ⟨rfl, rfl⟩
        · exact al u x hm
        · exact .inl hr
  | _, _, _, .isNot_ (ti := ti) (tn := tn) (r := r) (a := a) hb hti htn hr, _ => by
      obtain ⟨il, fl, kl, al⟩ := skelK_of hb (Nat.le_refl _)
      have htl : tailOf d [.op ti, .op tn, .atom (r, a)] = some (fun b => .kw .is true b a) := by simp [tailOf, hti, htn]
      have hk := KD.step kl htl
      refine ⟨il ++ [.op ti, .op tn, .atom (r, a)], ?_, hk, ?_⟩
      · simp [flatI_append, flatI, fl]
      · intro u x hm
        simp only [List.mem_append, List.mem_cons, List.not_mem_nil, or_false, reduceCtorEq, false_or, Item.atom.injEq, Prod.mk.injEq] at hm
        rcases hm with hm | ⟨rfl, rfl⟩
        · exact al u x hm
        · exact .inl hr
  | _, _, _, .like (ns := ns) (n := n) (tk := tk) (k := k) (r := r) (a := a) hb hn hk hr, _ => by
      obtain ⟨il, fl, kl, al⟩ := skelK_of hb (Nat.le_refl _)
      have htl := tail_kw1 (t := tk) (p := (r, a)) (mk := fun b => .kw k n b a) hn
        (by rintro _ ⟨t0, rfl, h0, _⟩; cases hn with | yes htn => exact isNot_not_is htn h0) (kw1_like hk)
      have hk := KD.step kl htl
      refine ⟨il ++ (nsItems ns ++ [.op tk, .atom (r, a)]), ?_, hk, ?_⟩
      · simp [flatI_append, flatI, fl, flatI_nsItems]
      · intro u x hm
        simp only [List.mem_append, List.mem_cons, List.not_mem_nil, or_false, reduceCtorEq, false_or, Item.atom.injEq, Prod.mk.injEq,
          nsItems, List.mem_map, and_false, exists_false] at hm
        rcases hm with hm | ⟨rfl, rfl⟩
        · exact al u x hm
        · exact .inl hr
  | _, _, _, .inList (ns := ns) (n := n) (ti := ti) (g := g) (vs := vs) hb hn hti hs hsegs, _ => by
      obtain ⟨il, fl, kl, al⟩ := skelK_of hb (Nat.le_refl _)
      have hne : up ti.src ≠ "IS" := by rw [hti]; decide
      have htl := tail_kw1 (t := ti) (p := ([g], .subValue vs)) (mk := fun b => .kw .in_ n b (.subValue vs)) hn
        (by rintro _ ⟨t0, rfl, h0, _⟩; cases hn with | yes htn => exact isNot_not_is htn h0) (by simp [kw1, hti])
      have hk := KD.step kl htl
      refine ⟨il ++ (nsItems ns ++ [.op ti, .atom ([g], .subValue vs)]), ?_, hk, ?_⟩
      · simp [flatI_append, flatI, fl, flatI_nsItems]
      · intro u x hm
        simp only [List.mem_append, List.mem_cons, List.not_mem_nil, or_false, reduceCtorEq, false_or, Item.atom.injEq, Prod.mk.injEq,
          nsItems, List.mem_map, and_false, exists_false] at hm
        rcases hm with hm | ⟨rfl, rfl⟩
        · exact al u x hm
        · exact .inr ⟨g, rfl, .inl ⟨hs, vs, rfl, hsegs⟩⟩
  | _, _, _, .inQuery (ns := ns) (n := n) (ti := ti) (g := g) (q := q) hb hn hti hs hq, _ => by
      obtain ⟨il, fl, kl, al⟩ := skelK_of hb (Nat.le_refl _)
      have hne : up ti.src ≠ "IS" := by rw [hti]; decide
      have htl := tail_kw1 (t := ti) (p := ([g], .subQuery q)) (mk := fun b => .kw .in_ n b (.subQuery q)) hn
        (by rintro _ ⟨t0, rfl, h0, _⟩; cases hn with | yes htn => exact isNot_not_is htn h0) (by simp [kw1, hti])
      have hk := KD.step kl htl
      refine ⟨il ++ (nsItems ns ++ [.op ti, .atom ([g], .subQuery q)]), ?_, hk, ?_⟩
      · simp [flatI_append, flatI, fl, flatI_nsItems]
      · intro u x hm
        simp only [List.mem_append, List.mem_cons, List.not_mem_nil, or_false, reduceCtorEq, false_or, Item.atom.injEq, Prod.mk.injEq,
          nsItems, List.mem_map, and_false, exists_false] at hm
        rcases hm with hm | ⟨rfl, rfl⟩
        · exact al u x hm
        · exact .inr ⟨g, rfl, .inr ⟨q, rfl, hq⟩⟩
  | _, _, _, .exists_ (te := te) (g := g) (q := q) hte hq, _ => by
      refine ⟨[.op te, .atom ([g], .subQuery q)], by simp [flatI], .exists_ hte, ?_⟩
      intro u x hm
      simp only [List.mem_cons, List.not_mem_nil, or_false, reduceCtorEq, false_or, Item.atom.injEq, Prod.mk.injEq] at hm
      obtain ⟨rfl, rfl⟩ := hm
      exact .inr ⟨g, rfl, .inr ⟨q, rfl, hq⟩⟩
  | _, _, _, .or_ _ _ _, hL => by omega
  | _, _, _, .xor _ _ _, hL => by omega
  | _, _, _, .and_ _ _ _, hL => by omega
  | _, _, _, .not_ _ _, hL => by omega
  | _, _, _, .compare _ _ _, hL => by omega
  | _, _, _, h@(.compute ho _ _), _ => skelK_leaf (h.up (by have := computeOp_level ho; omega))
  | _, _, _, h@(.unary _ _ _), _ => skelK_leaf (h.up (by omega))
  | _, _, _, h@(.literal _), _ => skelK_leaf (h.up (by omega))
  | _, _, _, h@(.paren _ _ _ _), _ => skelK_leaf (h.up (by omega))
  | _, _, _, h@(.subQuery _ _ _ _), _ => skelK_leaf (h.up (by omega))
  | _, _, _, h@(.caseCond _ _ _), _ => skelK_leaf (h.up (by omega))
  | _, _, _, h@(.caseVal _ _ _ _), _ => skelK_leaf (h.up (by omega))
  | _, _, _, h@(.wildcard _), _ => skelK_leaf (h.up (by omega))
  | _, _, _, h@(.column _ _), _ => skelK_leaf (h.up (by omega))
  | _, _, _, h@(.qcolumn _ _), _ => skelK_leaf (h.up (by omega))
  | _, _, _, h@(.qwildcard _ _), _ => skelK_leaf (h.up (by omega))
  | _, _, _, h@(.index _ _ _), _ => skelK_leaf (h.up (by omega))
  | _, _, _, h@(.call _ _), _ => skelK_leaf (h.up (by omega))
  | _, _, _, h@(.ifCall _ _ _), _ => skelK_leaf (h.up (by omega))
  | _, _, _, h@(.cast _ _ _ _ _ _), _ => skelK_leaf (h.up (by omega))
  | _, _, _, h@(.extract _ _ _ _ _ _), _ => skelK_leaf (h.up (by omega))
  | _, _, _, h@(.window _ _ _), _ => skelK_leaf (h.up (by omega))

end WNG
