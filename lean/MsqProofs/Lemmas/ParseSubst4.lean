import MsqProofs.Lemmas.ParseSubst3b
/-!
# C06, parser half — derived from the file of the same number of C09 (`ParseCase…`) — part 6: `erAll` for the DDL / DML structures and statements
Every string of the structure is mapped through `er` (config strings through `er2`); flags and numbers are kept.
-/
set_option linter.unusedSimpArgs false
set_option linter.unusedVariables false
open Lex PM Ast
namespace PMQ
variable [S : PaySet]

def erTN : TableName → TableName | ⟨s, n⟩ => ⟨s.map er, er n⟩
def erCT : ColType → ColType | ⟨n, ps⟩ => ⟨er n, ps.map (List.map erE)⟩
def erGC : GenCol → GenCol | ⟨e, m⟩ => ⟨erE e, m.map er⟩
def erDC : DefCol → DefCol
  | ⟨n, ty, un, zf, cs, co, g, an, nn, ai, df, ou, cm⟩ => ⟨er n, erCT ty, un, zf, cs.map er, co.map er, g.map erGC, an, nn, ai, df.map erE, ou.map erE, cm.map er⟩
def erIC : IndexCol → IndexCol | ⟨n, l⟩ => ⟨er n, l⟩
def erIx : Index → Index | ⟨k, n, cs, um, cm, kb⟩ => ⟨k, n.map er, cs.map erIC, um.map er, cm.map er, kb⟩
def erFK : ForeignKey → ForeignKey | ⟨c, s, m, mc, od, ou⟩ => ⟨er c, s.map er, er m, mc.map er, od.map er, ou.map er⟩
def erCI : ColOrIdx → ColOrIdx
  | .col c => .col (erDC c) | .idx i => .idx (erIx i) | .fk f => .fk (erFK f)
def erAO : AlterOp → AlterOp
  | .addPartition b p => .addPartition b (p.map erE)
  | .add x => .add (erCI x)
  | .modify x => .modify (erCI x)
  | .change f t => .change (er f) (erCI t)
  | .renameColumn f t => .renameColumn (er f) (er t)
  | .dropColumn c => .dropColumn (er c)
  | .dropPartition b p => .dropPartition b (p.map erE)
/-- config strings are CONCATENATIONS of popped sources: the larger payload set `P2` -/
def erCS : ConfigStr → ConfigStr | ⟨n, v⟩ => ⟨er2 n, er2 v⟩
def erCR : CreateTable → CreateTable
  | ⟨t, ine, cols, pk, uk, k, fk, fo, pb, cm, en, ai, dc, co, rf, sp, rs, rd, si, st, of, lo, tp⟩ =>
    ⟨erTN t, ine, cols.map erDC, pk.map erIx, uk.map erIx, k.map erIx, fk.map erIx, fo.map erFK, pb.map erDC, cm.map er, en.map er, ai, dc.map er, co.map er,
     rf.map er, sp.map er, rs.map er, rd.map er, si.map er, st, of.map er, lo.map er, tp.map erCS⟩
def erIH : InsertHead → InsertHead
  | ⟨w, ty, t, p, c⟩ => ⟨w.map (List.map erW), er ty, erTN t, p.map (List.map erE), c.map (List.map (Prod.map (Option.map er) er))⟩
def erLim : Option (Int × Option Int) → Option (Int × Option Int) := id
/-- `erAll` of a statement -/
def erSt0 : Stmt → Stmt
  | .select q => .select (erQ q)
  | .insertValues h vs => .insertValues (erIH h) (vs.map (List.map erE))
  | .insertSelect h q => .insertSelect (erIH h) (erQ q)
  | .update w t sets wh ob lm => .update (w.map (List.map erW)) (erTN t) (sets.map (Prod.map er erE)) (wh.map erE) (ob.map (List.map erO)) lm
  | .delete t wh ob lm => .delete (erTN t) (wh.map erE) (ob.map (List.map erO)) lm
  | .createTable c => .createTable (erCR c)
  | .createTableAs t ine q => .createTableAs (erTN t) ine (erQ q)
  | .dropTable b t => .dropTable b (erTN t)
  | .set c => .set (erCS c)
  | .analyze t p a b c => .analyze (erTN t) (p.map (List.map erE)) a b c
  | .alter t ops => .alter (erTN t) (ops.map erAO)
  | .msck t => .msck (erTN t)
  | .use s => .use (er s)
  | .truncate t => .truncate (erTN t)
  | .showDatabases => .showDatabases
  | .showTables => .showTables
  | .showColumns fr wh => .showColumns (fr.map erFT) (wh.map erE)

/-- running a parser on every segment of two related segment lists -/
theorem eachClosed_qe {α β : Type} (f : α → β) (p p' : List Tok → R α) (hp : ∀ sg sg', QEL sg sg' → QER (qeq f) (p sg) (p' sg')) :
    ∀ segs segs', QELL segs segs' → QEX (qeq (List.map f)) (eachClosed p segs) (eachClosed p' segs') := by
  intro segs
  induction segs with
  | nil => intro segs' h; cases segs' <;> simp_all [eachClosed]
  | cons sg rest ih =>
    intro segs' h
    cases segs' with
    | nil => simp at h
    | cons sg' rest' =>
      simp at h
      have h1 := closed_qe (hp sg sg' h.1)
      have h2 := ih rest' h.2
      clear ih
      simp only [eachClosed]
      cases hc : closed (p sg) <;> cases hc' : closed (p' sg') <;> rw [hc, hc'] at h1 <;> simp at h1 ⊢
      · exact h1
      · cases hr : eachClosed p rest <;> cases hr' : eachClosed p' rest' <;> rw [hr, hr'] at h2 <;> simp at h2 ⊢ <;> simp_all
theorem eachClosed_qe_eq {α : Type} (p p' : List Tok → R α) (hp : ∀ sg sg', QEL sg sg' → QER Eq (p sg) (p' sg')) :
    ∀ segs segs', QELL segs segs' → QEX Eq (eachClosed p segs) (eachClosed p' segs') := by
  intro segs
  induction segs with
  | nil => intro segs' h; cases segs' <;> simp_all [eachClosed]
  | cons sg rest ih =>
    intro segs' h
    cases segs' with
    | nil => simp at h
    | cons sg' rest' =>
      simp at h
      have h1 := closed_qe (hp sg sg' h.1)
      have h2 := ih rest' h.2
      clear ih
      simp only [eachClosed]
      cases hc : closed (p sg) <;> cases hc' : closed (p' sg') <;> rw [hc, hc'] at h1 <;> simp at h1 ⊢
      · exact h1
      · cases hr : eachClosed p rest <;> cases hr' : eachClosed p' rest' <;> rw [hr, hr'] at h2 <;> simp at h2 ⊢ <;> simp_all

end PMQ
