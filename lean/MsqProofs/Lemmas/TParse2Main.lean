import MsqProofs.Lemmas.TParse2New
/-!
# T-parse, larger fragment: `IN (…)` and the induction (C02 / C01)

`split_ok`: the comma splitter of `IN (…)` (`pSplit`: token by token, one unit of fuel each, a compute expression per segment,
closed) returns the values of the list; `cont9_in`; `rt2_all : Frag2 d e → RT2 d ch e` by induction on the number of nodes.
-/
set_option linter.unusedVariables false
set_option linter.unusedSimpArgs false
set_option maxHeartbeats 1000000
open Lex PM Ast TP
namespace TP2
variable {d : Gen.D} {ch : Expr → Bool}

theorem RT2.ncW {e : Expr} (h : RT2 d ch e) (L : Nat) : NoComma (W2 d ch e L) := by
  unfold W2 wrapT; split
  · exact grp_nocomma _
  · exact h.nocomma
theorem RT2.lenW {e : Expr} (h : RT2 d ch e) (L : Nat) : (W2 d ch e L).length ≤ tl e := by
  unfold W2 wrapT; split
  · simpa using tl_pos e
  · exact h.len
theorem RT2.neW {e : Expr} (h : RT2 d ch e) (L : Nat) : W2 d ch e L ≠ [] := by
  obtain ⟨t, ts', hw, _⟩ := h.headW L
  rw [hw]; simp

/-! ### the comma splitter -/
theorem split_seg : ∀ (seg : List Tok), NoComma seg → ∀ (f : Nat) (acc : List Expr) (cur rest' : List Tok),
    pSplit d (f + seg.length) acc cur (seg ++ rest') = pSplit d f acc (cur ++ seg) rest' := by
  intro seg
  induction seg with
  | nil => intro _ f acc cur rest'; simp
  | cons t seg ih =>
    intro hnc f acc cur rest'
    have ht := hnc t (by simp)
    have := ih (fun x hx => hnc x (by simp [hx])) f acc (cur ++ [t]) rest'
    simp only [List.length_cons, List.cons_append]
    rw [show f + (seg.length + 1) = (f + seg.length) + 1 by omega]
    conv => lhs; unfold pSplit
    simp only [ht, Bool.false_eq_true, if_false, this, List.append_assoc, List.singleton_append]
theorem comma_equals : commaTok.equalsStr "," = true := by decide

theorem splitTail_ok : ∀ (as : List Expr), (∀ a ∈ as, RT2 d ch a ∧ tl a ≤ 20) → ∀ (acc : List Expr) (cur : List Tok) (e : Expr) (c : Nat),
    cur ≠ [] → (∀ f', c ≤ f' → pCompute d f' cur = .ok (e, [])) →
    ∀ f, c + 1 ≤ f → 20 * sizeL (toksArgsTail d ch 8 as) + 4 ≤ f →
    pSplit d f acc cur (toksArgsTail d ch 8 as) = .ok (acc ++ [e] ++ as) := by
  intro as
  induction as with
  | nil =>
    intro _ acc cur e c hne hc f h1 _
    obtain ⟨g, rfl⟩ : ∃ g, f = g + 1 := ⟨f - 1, by omega⟩
    have he : cur.isEmpty = false := by cases cur <;> simp_all
    simp only [toksArgsTail]
    unfold pSplit
    simp [he, hc g (by omega)]
  | cons a as ih =>
    intro has acc cur e c hne hc f h1 h2
    obtain ⟨ha, hta⟩ := has a (by simp)
    have hsz := dot_facts.2.2.2.2.2.2.2.2.2.2
    simp only [toksArgsTail, sizeL_cons, sizeL_append, hsz] at h2
    obtain ⟨g, rfl⟩ : ∃ g, f = g + 1 := ⟨f - 1, by omega⟩
    have he : cur.isEmpty = false := by cases cur <;> simp_all
    have hlen := ha.lenW 8
    have hpos : 1 ≤ sizeL (W2 d ch a 8) := by
      obtain ⟨t, ts', hw, _⟩ := ha.headW 8
      rw [hw, sizeL_cons]; have : 1 ≤ t.size := by cases t <;> simp [Tok.size] <;> omega
      omega
    have hca : ∀ f', 20 * sizeL (W2 d ch a 8) + 2 ≤ f' → pCompute d f' (W2 d ch a 8) = .ok (a, []) := by
      intro f' hf'
      have := (ha.at 8 (by omega)).s8 (by omega) [] (stopLE2_nil d 8) f' hf'
      simpa using this
    have hrec := ih (fun a' ha' => has a' (by simp [ha'])) (acc ++ [e]) (W2 d ch a 8) a _ (ha.neW 8) hca
      (g - (W2 d ch a 8).length) (by simp only [W2] at h2 hlen hpos ⊢; omega) (by simp only [W2] at h2 hlen hpos ⊢; omega)
    have hseg := split_seg (d := d) (W2 d ch a 8) (ha.ncW 8) (g - (W2 d ch a 8).length) (acc ++ [e]) [] (toksArgsTail d ch 8 as)
    rw [show g - (W2 d ch a 8).length + (W2 d ch a 8).length = g by simp only [W2] at h2 hlen ⊢; omega] at hseg
    simp only [toksArgsTail]
    conv => lhs; unfold pSplit
    simp only [comma_equals, if_true, he, Bool.false_eq_true, if_false, hc g (by omega)]
    simp only [W2, List.nil_append] at hseg hrec
    rw [hseg, hrec]
    simp
/-- `pSplit` on the rendering of a non-empty value list -/
theorem split_ok (v : Expr) (as : List Expr) (hv : RT2 d ch v ∧ tl v ≤ 20) (has : ∀ a ∈ as, RT2 d ch a ∧ tl a ≤ 20) :
    OkAt (fun f => pSplit d f [] [] (toksArgs d ch 8 (v :: as))) (20 * sizeL (toksArgs d ch 8 (v :: as)) + 24) (v :: as) := by
  intro f hf
  obtain ⟨ha, hta⟩ := hv
  simp only [toksArgs, sizeL_append] at hf
  have hlen := ha.lenW 8
  have hca : ∀ f', 20 * sizeL (W2 d ch v 8) + 2 ≤ f' → pCompute d f' (W2 d ch v 8) = .ok (v, []) := by
    intro f' hf'
    have := (ha.at 8 (by omega)).s8 (by omega) [] (stopLE2_nil d 8) f' hf'
    simpa using this
  have hrec := splitTail_ok as has [] (W2 d ch v 8) v _ (ha.neW 8) hca (f - (W2 d ch v 8).length)
    (by simp only [W2] at hf hlen ⊢; omega) (by simp only [W2] at hf hlen ⊢; omega)
  have hseg := split_seg (d := d) (W2 d ch v 8) (ha.ncW 8) (f - (W2 d ch v 8).length) [] [] (toksArgsTail d ch 8 as)
  rw [show f - (W2 d ch v 8).length + (W2 d ch v 8).length = f by simp only [W2] at hf hlen ⊢; omega] at hseg
  simp only [toksArgs]
  simp only [W2, List.nil_append] at hseg hrec
  rw [hseg, hrec]
  simp

/-! ### `[NOT] IN (v₁, …, vₙ)` -/
theorem in_words : up (opTok "IN").src = "IN" ∧ (opTok "IN").size = 1 ∧ (opTok "NOT").size = 1 := by decide
theorem notSet_IN : (Gen.notSet d).contains (up (opTok "IN").src) = false := by cases d <;> decide
theorem cont9_in (n0 : Bool) (l v : Expr) (as : List Expr) (hv : RT2 d ch v ∧ tl v ≤ 20) (has : ∀ a ∈ as, RT2 d ch a ∧ tl a ≤ 20)
    (hl : Cont2 d (P9 d) (kwLoop d) 8 4 (W2 d ch l 9) l) :
    Cont2 d (P9 d) (kwLoop d) 8 4 (W2 d ch l 9 ++ (kwToks .in_ n0 ++ [grp (toksArgs d ch 8 (v :: as))])) (.kw .in_ n0 l (.subValue (v :: as))) := by
  intro rest h8 n res hloop
  obtain ⟨hu, _, _⟩ := in_words
  have hss : startsSelect (toksArgs d ch 8 (v :: as)) = false := by
    obtain ⟨t, ts', hw, hh, _⟩ := hv.1.headW 8
    simp only [toksArgs]
    simp only [W2] at hw
    rw [hw]
    have := hd_start hh
    simp only [startTok, Bool.not_eq_true'] at this
    simpa [startsSelect, searchSetUp] using this
  have body : ∀ isNot, OkAt (fun f => kwLoop d f (.kw .in_ isNot l (.subValue (v :: as))) rest) n res →
      OkAt (fun f => pKwRest d f l isNot (opTok "IN" :: grp (toksArgs d ch 8 (v :: as)) :: rest))
        (n + 20 * sizeL (toksArgs d ch 8 (v :: as)) + 27) res := by
    intro isNot hlp f hf
    obtain ⟨g, rfl⟩ : ∃ g, f = g + 3 := ⟨f - 3, by omega⟩
    have h1 := split_ok v as hv has g (by omega)
    have ht := kw_tail (.kw .in_ isNot l (.subValue (v :: as))) rest (sl h8) n res hlp (g + 2) (by omega)
    unfold pKwRest
    simp only []
    unfold pKwBody
    simp only [hu]
    unfold pInBody
    simp only [children_grp, hss, Bool.false_eq_true, if_false, h1]
    simpa using ht
  have key : OkAt (fun f => kwLoop d f l (kwToks .in_ n0 ++ (grp (toksArgs d ch 8 (v :: as)) :: rest)))
      (n + 20 * sizeL (toksArgs d ch 8 (v :: as)) + 27) res := by
    unfold kwLoop
    cases n0 <;> simp only [kwToks, List.cons_append, List.nil_append, skipNot_of _ notSet_IN, skipNot_NOT, Bool.false_eq_true, if_false, if_true] <;>
      exact body _ hloop
  have hstop : stopLE2 d 8 (kwToks .in_ n0 ++ (grp (toksArgs d ch 8 (v :: as)) :: rest)) = true := by
    cases n0
    · exact (stop2_kw _).2.2.2.2.2.2.2
    · exact (stop2_kw _).2.1
  have := hl _ hstop _ res key
  simp only [List.append_assoc, List.cons_append, List.nil_append, List.singleton_append]
  refine this.mono ?_
  obtain ⟨_, s1, s2⟩ := in_words
  cases n0 <;> simp only [kwToks, sizeL_append, sizeL_cons, size_grp, size_opTok, sizeL, Bool.false_eq_true, if_false, if_true] <;> omega


/-! ### lists of children -/
theorem frag2L_mem : ∀ (ps : List Expr), Frag2L d ps = true → ∀ a ∈ ps, Frag2 d a = true ∧ sz2 a ≤ sz2L ps := by
  intro ps
  induction ps with
  | nil => intro _ a ha; simp at ha
  | cons p ps ih =>
    intro h a ha
    simp only [Frag2L, Bool.and_eq_true] at h
    simp only [List.mem_cons] at ha
    rcases ha with rfl | ha
    · exact ⟨h.1, by simp only [sz2L]; omega⟩
    · obtain ⟨x, y⟩ := ih h.2 a ha; exact ⟨x, by simp only [sz2L]; omega⟩
theorem frag2A_mem : ∀ (cs : List (Expr × Expr)), Frag2A d cs = true → ∀ p ∈ cs, (Frag2 d p.1 = true ∧ sz2 p.1 ≤ sz2A cs) ∧ (Frag2 d p.2 = true ∧ sz2 p.2 ≤ sz2A cs) := by
  intro cs
  induction cs with
  | nil => intro _ a ha; simp at ha
  | cons q cs ih =>
    obtain ⟨w, t⟩ := q
    intro h p hp
    simp only [Frag2A, Bool.and_eq_true] at h
    simp only [List.mem_cons] at hp
    rcases hp with rfl | hp
    · exact ⟨⟨h.1.1, by simp only [sz2A]; omega⟩, ⟨h.1.2, by simp only [sz2A]; omega⟩⟩
    · obtain ⟨⟨x1, x2⟩, ⟨y1, y2⟩⟩ := ih h.2 p hp
      exact ⟨⟨x1, by simp only [sz2A]; omega⟩, ⟨y1, by simp only [sz2A]; omega⟩⟩
theorem arms_nc : ∀ (cs : List (Expr × Expr)), (∀ p ∈ cs, RT2 d ch p.1 ∧ RT2 d ch p.2) →
    NoComma (toksArms d ch cs) ∧ (toksArms d ch cs).length ≤ tlA cs := by
  intro cs
  induction cs with
  | nil => intro _; exact ⟨by simp only [toksArms]; exact NoComma.nil, by simp [toksArms, tlA]⟩
  | cons q cs ih =>
    obtain ⟨w, t⟩ := q
    intro h
    obtain ⟨hw, ht⟩ := h (w, t) (by simp)
    obtain ⟨i1, i2⟩ := ih (fun p hp => h p (by simp [hp]))
    have k := @kw_nocomma
    refine ⟨?_, ?_⟩
    · simp only [toksArms]
      exact NoComma.cons k.2.2.2.2.2.2.2.2.2.2.2.1 ((hw.ncW 14).append (NoComma.cons k.2.2.2.2.2.2.2.2.2.2.2.2.1 ((ht.ncW 14).append i1)))
    · have a := hw.lenW 14; have b := ht.lenW 14
      simp only [toksArms, tlA, List.length_cons, List.length_append]
      simp only [W2] at a b
      omega
theorem else_nc (els : Option Expr) (h : ∀ y, els = some y → RT2 d ch y) :
    NoComma (toksElse d ch els) ∧ (toksElse d ch els).length ≤ tlO els := by
  cases els with
  | none => exact ⟨by simp only [toksElse]; exact NoComma.nil, by simp [toksElse, tlO]⟩
  | some y =>
    have hy := h y rfl
    have k := @kw_nocomma
    refine ⟨by simp only [toksElse]; exact NoComma.cons k.2.2.2.2.2.2.2.2.2.2.2.2.2.1 (hy.ncW 14), ?_⟩
    have a := hy.lenW 14
    simp only [toksElse, tlO, List.length_cons]
    simp only [W2] at a
    omega
theorem kwToks_len (k : KwKind) (n : Bool) : (kwToks k n).length ≤ 2 := by cases k <;> cases n <;> simp [kwToks]
theorem nc_single {t : Tok} (h : t.equalsStr "," = false) : NoComma [t] := NoComma.cons h NoComma.nil

theorem RT2.mk2 {e : Expr} (ts : List Tok) (he : toksE2 d ch e = ts) (own : Tower2 d (PR.lvl e) ts e) (head : Head2 d e ts)
    (nc : NoComma ts) (hl : ts.length ≤ tl e) : RT2 d ch e := by
  subst he; exact RT2.mk' own head nc hl
theorem head_tok {e : Expr} (t : Tok) (ts : List Tok) (h1 : hdTok t = true) (h2 : operandTok d t = true) : Head2 d e (t :: ts) :=
  ⟨t, ts, rfl, h1, fun _ => h2⟩
theorem headOK_tok (t : Tok) (ts : List Tok) (h2 : operandTok d t = true) : HeadOK d (t :: ts) := ⟨t, ts, rfl, h2⟩
theorem star_head : hdTok starTok = true ∧ operandTok d starTok = true ∧ hdTok (opTok "CASE") = true ∧ operandTok d (opTok "CASE") = true ∧
    hdTok (opTok "NOT") = true := by cases d <;> decide

theorem rt2_all : ∀ n e, sz2 e ≤ n → Frag2 d e = true → RT2 d ch e := by
  intro n
  induction n with
  | zero => intro e he; have := sz2_pos e; omega
  | succ n ih =>
    intro e he hf
    have k := @kw_nocomma
    cases e with
    | column t c =>
      cases t with
      | none =>
        simp only [Frag2] at hf
        have hh : operandTok d (nameTok c) = true := by simp only [colOK, elemTok, Bool.and_eq_true] at hf; exact hf.1.1.1.1
        obtain ⟨n1, n2, _⟩ := name_facts c
        exact RT2.mk2 [nameTok c] (by simp only [toksE2])
          ((Tower2.of2 (Full2.of (TP.full2_column c hf)) (headOK_tok _ _ hh)).relevel _ (by simp [PR.lvl])) (head_tok _ _ n1 hh) (nc_single n2)
          (by simp [tl])
      | some t =>
        simp only [Frag2] at hf
        have hq := hf
        simp only [qcolOK, nm2OK, Bool.and_eq_true, Bool.not_eq_true'] at hq
        obtain ⟨_, ho, hd1, _, _, _, _, _, _, c1, _⟩ := nmOK_parts hq.1
        exact RT2.mk2 [nameTok t, dotTok, nameTok c] (by simp only [toksE2])
          ((Tower2.of2 (full2_qcol t c hf) (headOK_tok _ _ ho)).relevel _ (by simp [PR.lvl])) (head_tok _ _ hd1 ho)
          (NoComma.cons c1 (NoComma.cons k.2.2.2.2.2.2.2.2.2.2.2.2.2.2.2.1 (nc_single hq.2.2))) (by simp [tl])
    | literal v =>
      simp only [Frag2] at hf
      have hh : operandTok d (litTok v) = true := by simp only [litOK, elemTok, Bool.and_eq_true] at hf; exact hf.2.1
      obtain ⟨l1, l2⟩ := lit_facts v hf
      exact RT2.mk2 [litTok v] (by simp only [toksE2])
        ((Tower2.of2 (Full2.of (TP.full2_literal v hf)) (headOK_tok _ _ hh)).relevel _ (by simp [PR.lvl])) (head_tok _ _ l1 hh) (nc_single l2)
        (by simp [tl])
    | wildcard t =>
      obtain ⟨s1, s2, _⟩ := @star_head d
      cases t with
      | none =>
        exact RT2.mk2 [starTok] (by simp only [toksE2])
          ((Tower2.of2 full2_star (headOK_tok _ _ s2)).relevel _ (by simp [PR.lvl])) (head_tok _ _ s1 s2)
          (nc_single k.2.2.2.2.2.2.2.2.2.2.2.2.2.2.2.2) (by simp [tl])
      | some t =>
        simp only [Frag2] at hf
        obtain ⟨_, ho, hd1, _, _, _, _, _, _, c1, _⟩ := nmOK_parts hf
        exact RT2.mk2 [qTok t, dotTok, starTok] (by simp only [toksE2])
          ((Tower2.of2 (full2_qstar t hf) (headOK_tok _ _ ho)).relevel _ (by simp [PR.lvl])) (head_tok _ _ hd1 ho)
          (NoComma.cons c1 (NoComma.cons k.2.2.2.2.2.2.2.2.2.2.2.2.2.2.2.1 (nc_single k.2.2.2.2.2.2.2.2.2.2.2.2.2.2.2.2))) (by simp [tl])
    | func s nm ps =>
      simp only [Frag2, Bool.and_eq_true] at hf
      simp only [sz2] at he
      have hps : ∀ a ∈ ps, RT2 d ch a := fun a ha => by
        obtain ⟨x, y⟩ := frag2L_mem ps hf.2 a ha
        exact ih a (by omega) x
      cases s with
      | none =>
        have hq := hf.1
        simp only [fnOK, Bool.and_eq_true] at hq
        obtain ⟨_, ho, hd1, _, _, _, _, _, _, c1, _⟩ := nmOK_parts hq.2.1
        exact RT2.mk2 [qTok nm, grp (toksArgs d ch 14 ps)] (by simp only [toksE2, List.nil_append])
          ((Tower2.of2 (full2_func nm ps hf.1 hps) (headOK_tok _ _ ho)).relevel _ (by simp [PR.lvl])) (head_tok _ _ hd1 ho)
          (NoComma.cons c1 (grp_nocomma _)) (by simp [tl])
      | some s =>
        have hq := hf.1
        simp only [fnOK, nm2OK, Bool.and_eq_true, Bool.not_eq_true'] at hq
        obtain ⟨_, ho, hd1, _, _, _, _, _, _, c1, _⟩ := nmOK_parts hq.2.1
        exact RT2.mk2 [nameTok s, dotTok, qTok nm, grp (toksArgs d ch 14 ps)] (by simp only [toksE2, List.cons_append, List.nil_append])
          ((Tower2.of2 (full2_qfunc s nm ps hf.1 hps) (headOK_tok _ _ ho)).relevel _ (by simp [PR.lvl])) (head_tok _ _ hd1 ho)
          (NoComma.cons c1 (NoComma.cons k.2.2.2.2.2.2.2.2.2.2.2.2.2.2.2.1 (NoComma.cons hq.2.2.2 (grp_nocomma _)))) (by simp [tl])
    | agg nm ps dist =>
      simp only [Frag2, Bool.and_eq_true] at hf
      simp only [sz2] at he
      have hps : ∀ a ∈ ps, RT2 d ch a := fun a ha => by
        obtain ⟨x, y⟩ := frag2L_mem ps hf.2 a ha
        exact ih a (by omega) x
      have hq := hf.1
      simp only [aggOK, Bool.and_eq_true] at hq
      obtain ⟨_, ho, hd1, _, _, _, _, _, _, c1, _⟩ := nmOK_parts hq.1.2
      exact RT2.mk2 _ (by simp only [toksE2])
        ((Tower2.of2 (full2_agg nm ps dist hf.1 hps) (headOK_tok _ _ ho)).relevel _ (by simp [PR.lvl])) (head_tok _ _ hd1 ho)
        (NoComma.cons c1 (grp_nocomma _)) (by simp [tl])
    | caseCond cs els =>
      simp only [Frag2, Bool.and_eq_true, Bool.not_eq_true', List.isEmpty_eq_false_iff] at hf
      simp only [sz2] at he
      obtain ⟨_, _, s3, s4, _⟩ := @star_head d
      have hcs : ∀ p ∈ cs, RT2 d ch p.1 ∧ RT2 d ch p.2 := fun p hp => by
        obtain ⟨⟨x1, x2⟩, ⟨y1, y2⟩⟩ := frag2A_mem cs hf.1.1 p hp
        exact ⟨ih _ (by omega) x1, ih _ (by omega) y1⟩
      have hels : ∀ y, els = some y → RT2 d ch y := fun y hy => by
        subst hy; simp only [Frag2O] at hf; simp only [sz2O] at he; exact ih y (by omega) hf.1.2
      obtain ⟨a1, a2⟩ := arms_nc cs hcs
      obtain ⟨e1, e2⟩ := else_nc els hels
      exact RT2.mk2 _ (by simp only [toksE2])
        ((Tower2.of2 (full2_caseCond cs els hf.2 hcs hels) (headOK_tok _ _ s4)).relevel _ (by simp [PR.lvl])) (head_tok _ _ s3 s4)
        (NoComma.cons k.2.2.2.2.2.2.2.2.2.2.1 (a1.append (e1.append (nc_single k.2.2.2.2.2.2.2.2.2.2.2.2.2.2.1))))
        (by simp only [tl, List.length_cons, List.length_append, List.length_nil]; omega)
    | caseVal v cs els =>
      simp only [Frag2, Bool.and_eq_true, Bool.not_eq_true', List.isEmpty_eq_false_iff] at hf
      simp only [sz2] at he
      obtain ⟨_, _, s3, s4, _⟩ := @star_head d
      have hv := ih v (by omega) hf.1.1.1
      have hcs : ∀ p ∈ cs, RT2 d ch p.1 ∧ RT2 d ch p.2 := fun p hp => by
        obtain ⟨⟨x1, x2⟩, ⟨y1, y2⟩⟩ := frag2A_mem cs hf.1.1.2 p hp
        exact ⟨ih _ (by omega) x1, ih _ (by omega) y1⟩
      have hels : ∀ y, els = some y → RT2 d ch y := fun y hy => by
        subst hy; simp only [Frag2O] at hf; simp only [sz2O] at he; exact ih y (by omega) hf.1.2
      obtain ⟨a1, a2⟩ := arms_nc cs hcs
      obtain ⟨e1, e2⟩ := else_nc els hels
      have lv := hv.lenW 14
      exact RT2.mk2 (opTok "CASE" :: (W2 d ch v 14 ++ (toksArms d ch cs ++ (toksElse d ch els ++ [opTok "END"])))) (by simp only [toksE2, W2])
        ((Tower2.of2 (full2_caseVal v cs els hf.2 hv hcs hels) (headOK_tok _ _ s4)).relevel _ (by simp [PR.lvl])) (head_tok _ _ s3 s4)
        (NoComma.cons k.2.2.2.2.2.2.2.2.2.2.1 ((hv.ncW 14).append (a1.append (e1.append (nc_single k.2.2.2.2.2.2.2.2.2.2.2.2.2.2.1)))))
        (by simp only [tl, List.length_cons, List.length_append, List.length_nil]; omega)
    | unary o x =>
      simp only [Frag2, Bool.and_eq_true] at hf
      simp only [sz2] at he
      have hx := ih x (by omega) hf.2
      have hh : operandTok d (opTok (cval o)) = true := by
        have := hf.1; simp only [unOK, Bool.and_eq_true] at this; exact this.1.2
      obtain ⟨u1, u2⟩ := unary_facts o hf.1
      have lx := hx.lenW 2
      exact RT2.mk2 (opTok (cval o) :: W2 d ch x 2) (by simp only [toksE2, W2])
        ((Tower2.of2 (full2_unary o x hf.1 ((hx.at 2 (by omega)).s2 (by omega))) (headOK_tok _ _ hh)).relevel _ (by simp [PR.lvl]))
        (head_tok _ _ u1 hh) (NoComma.cons u2 (hx.ncW 2)) (by simp only [tl, List.length_cons]; omega)
    | compute l o r =>
      obtain ⟨hb, fl, fr⟩ := frag_compute d hf
      obtain ⟨h3, h8, _⟩ := binOK_parts d hb
      simp only [sz2] at he
      have hl := ih l (by omega) fl
      have hr := ih r (by omega) fr
      have f8 := compute_node d ch (.compute l o r) rfl hf
        (fun u fu su => ((ih u (by simp only [sz2] at su; omega) fu).at 2 (by omega)).s2 (by omega))
      have e1 : toksE2 d ch (.compute l o r) = W2 d ch l (binLevel o) ++ opTok (cval o) :: W2 d ch r (binLevel o - 1) := by
        simp only [toksE2, W2, lvl_compute]
      rw [e1] at f8
      have ll := hl.lenW (binLevel o); have lr := hr.lenW (binLevel o - 1)
      exact RT2.mk2 _ e1
        ((Tower2.of8 f8 ((hl.headOKW (binLevel o) (by omega)).append _)).relevel _ (by rw [lvl_compute]; omega))
        (head_left hl (binLevel o) _ (fun _ => by omega))
        ((hl.ncW _).append (NoComma.cons (bin_nocomma o hb) (hr.ncW _))) (by simp only [tl, List.length_cons, List.length_append]; omega)
    | kw kk n0 l r =>
      simp only [Frag2, Bool.and_eq_true] at hf
      simp only [sz2] at he
      have hl := ih l (by omega) hf.1
      have ll := hl.lenW 9
      have kl := kwToks_len kk n0
      by_cases hk : kk = .in_
      · subst hk
        simp only [beq_self_eq_true, if_true] at hf
        cases r with
        | subValue vs =>
          cases vs with
          | nil => simp [inRhs] at hf
          | cons v as =>
            simp only [inRhs, Bool.and_eq_true, shortL, List.all_cons, decide_eq_true_eq, List.all_eq_true] at hf
            obtain ⟨_, ⟨⟨hfl, _⟩, hv20, has20⟩⟩ := hf
            simp only [sz2, sz2L] at he
            have hmem := frag2L_mem (v :: as) hfl
            have hv : RT2 d ch v ∧ tl v ≤ 20 := ⟨ih v (by have := (hmem v (by simp)).2; simp only [sz2L] at this; omega) (hmem v (by simp)).1, hv20⟩
            have has : ∀ a ∈ as, RT2 d ch a ∧ tl a ≤ 20 := fun a ha =>
              ⟨ih a (by have := (hmem a (by simp [ha])).2; simp only [sz2L] at this; omega) (hmem a (by simp [ha])).1, has20 a ha⟩
            have c9 := cont9_in n0 l v as hv has ((hl.at 9 (by omega)).c9 (by omega))
            have e1 : toksE2 d ch (.kw .in_ n0 l (.subValue (v :: as))) =
                W2 d ch l 9 ++ (kwToks .in_ n0 ++ [grp (toksArgs d ch 8 (v :: as))]) := by
              simp [toksE2, W2, wrapT, PR.lvl]
            exact RT2.mk2 _ e1
              ((Tower2.of9 c9 ((hl.headOKW 9 (by omega)).append _)).relevel _ (by simp [PR.lvl])) (head_left hl 9 _ (fun _ => by omega))
              ((hl.ncW 9).append ((kwToks_nocomma _ _).append (grp_nocomma _)))
              (by simp only [tl, List.length_cons, List.length_append, List.length_nil]; omega)
        | _ => simp [inRhs] at hf
      · have hk' : (kk == KwKind.in_) = false := by simpa using hk
        simp only [hk', Bool.false_eq_true, if_false] at hf
        have hr := ih r (by omega) hf.2
        have lr := hr.lenW 8
        have c9 := cont9_kw kk n0 l r hk ((hl.at 9 (by omega)).c9 (by omega)) ((hr.at 8 (by omega)).s8 (by omega)) (hr.headOKW 8 (by omega))
        have e1 : toksE2 d ch (.kw kk n0 l r) = W2 d ch l 9 ++ (kwToks kk n0 ++ W2 d ch r 8) := by
          have : (kk != KwKind.in_) = true := by simpa using hk
          simp only [toksE2, W2, this, Bool.and_true]
        exact RT2.mk2 _ e1
          ((Tower2.of9 c9 ((hl.headOKW 9 (by omega)).append _)).relevel _ (by simp [PR.lvl])) (head_left hl 9 _ (fun _ => by omega))
          ((hl.ncW 9).append ((kwToks_nocomma _ _).append (hr.ncW 8))) (by simp only [tl, List.length_append]; omega)
    | between n0 b fr to =>
      simp only [Frag2, Bool.and_eq_true] at hf
      simp only [sz2] at he
      have hb := ih b (by omega) hf.1.1
      have hfr := ih fr (by omega) hf.1.2
      have hto := ih to (by omega) hf.2
      have c9 := cont9_between n0 b fr to ((hb.at 9 (by omega)).c9 (by omega)) ((hfr.at 8 (by omega)).s8 (by omega))
        ((hto.at 8 (by omega)).s8 (by omega))
      have l1 := hb.lenW 9; have l2 := hfr.lenW 8; have l3 := hto.lenW 8
      have hnc : NoComma (if n0 = true then [opTok "NOT"] else []) := by cases n0 <;> simp [NoComma.nil, nc_single k.1]
      exact RT2.mk2 (W2 d ch b 9 ++ ((if n0 then [opTok "NOT"] else []) ++ opTok "BETWEEN" :: (W2 d ch fr 8 ++ opTok "AND" :: W2 d ch to 8)))
        (by simp only [toksE2, W2])
        ((Tower2.of9 c9 ((hb.headOKW 9 (by omega)).append _)).relevel _ (by simp [PR.lvl])) (head_left hb 9 _ (fun _ => by omega))
        ((hb.ncW 9).append (hnc.append (NoComma.cons k.2.2.2.2.1 ((hfr.ncW 8).append (NoComma.cons k.2.1 (hto.ncW 8))))))
        (by cases n0 <;> simp only [tl, List.length_cons, List.length_append, List.length_nil, if_true, if_false, Bool.false_eq_true] <;> omega)
    | compare o l r =>
      simp only [Frag2, Bool.and_eq_true] at hf
      simp only [sz2] at he
      have hl := ih l (by omega) hf.1.2
      have hr := ih r (by omega) hf.2
      have c10 := cont10_compare o l r hf.1.1 ((hl.at 10 (by omega)).c10 (by omega)) ((hr.at 9 (by omega)).s9 (by omega))
      have ll := hl.lenW 10; have lr := hr.lenW 9
      exact RT2.mk2 (W2 d ch l 10 ++ opTok (cmpVal o) :: W2 d ch r 9) (by simp only [toksE2, W2])
        ((Tower2.of10 c10 ((hl.headOKW 10 (by omega)).append _)).relevel _ (by simp [PR.lvl])) (head_left hl 10 _ (fun _ => by omega))
        ((hl.ncW _).append (NoComma.cons (cmp_nocomma o hf.1.1) (hr.ncW _))) (by simp only [tl, List.length_cons, List.length_append]; omega)
    | not_ x =>
      simp only [Frag2] at hf
      simp only [sz2] at he
      have hx := ih x (by omega) hf
      have f11 := full11_not x ((hx.at 11 (by omega)).s11 (by omega))
      have lx := hx.lenW 11
      exact RT2.mk2 (opTok "NOT" :: W2 d ch x 11) (by simp only [toksE2, W2])
        ((Tower2.of11 f11).relevel _ (by simp [PR.lvl])) ⟨_, _, rfl, (@star_head d).2.2.2.2, fun h => by simp [PR.lvl] at h⟩
        (NoComma.cons k.1 (hx.ncW _)) (by simp only [tl, List.length_cons]; omega)
    | and_ l r =>
      simp only [Frag2, Bool.and_eq_true] at hf
      simp only [sz2] at he
      have hl := ih l (by omega) hf.1
      have hr := ih r (by omega) hf.2
      have c12 := cont12_and l r ((hl.at 12 (by omega)).c12 (by omega)) ((hr.at 11 (by omega)).s11 (by omega))
      have ll := hl.lenW 12; have lr := hr.lenW 11
      exact RT2.mk2 (W2 d ch l 12 ++ opTok "AND" :: W2 d ch r 11) (by simp only [toksE2, W2])
        ((Tower2.of12 c12).relevel _ (by simp [PR.lvl])) (head_left hl 12 _ (fun h => by simp [PR.lvl] at h))
        ((hl.ncW _).append (NoComma.cons k.2.1 (hr.ncW _))) (by simp only [tl, List.length_cons, List.length_append]; omega)
    | xor l r =>
      simp only [Frag2, Bool.and_eq_true] at hf
      simp only [sz2] at he
      have hl := ih l (by omega) hf.1
      have hr := ih r (by omega) hf.2
      have c13 := cont13_xor l r ((hl.at 13 (by omega)).c13 (by omega)) ((hr.at 12 (by omega)).s12 (by omega))
      have ll := hl.lenW 13; have lr := hr.lenW 12
      exact RT2.mk2 (W2 d ch l 13 ++ opTok "XOR" :: W2 d ch r 12) (by simp only [toksE2, W2])
        ((Tower2.of13 c13).relevel _ (by simp [PR.lvl])) (head_left hl 13 _ (fun h => by simp [PR.lvl] at h))
        ((hl.ncW _).append (NoComma.cons k.2.2.2.1 (hr.ncW _))) (by simp only [tl, List.length_cons, List.length_append]; omega)
    | or_ l r =>
      simp only [Frag2, Bool.and_eq_true] at hf
      simp only [sz2] at he
      have hl := ih l (by omega) hf.1
      have hr := ih r (by omega) hf.2
      have c14 := cont14_or l r (hl.at 14 (by omega)).c14 ((hr.at 13 (by omega)).s13 (by omega))
      have ll := hl.lenW 14; have lr := hr.lenW 13
      exact RT2.mk2 (W2 d ch l 14 ++ opTok "OR" :: W2 d ch r 13) (by simp only [toksE2, W2])
        ((Tower2.of14 c14).relevel _ (by simp [PR.lvl])) (head_left hl 14 _ (fun h => by simp [PR.lvl] at h))
        ((hl.ncW _).append (NoComma.cons k.2.2.1 (hr.ncW _))) (by simp only [tl, List.length_cons, List.length_append]; omega)
    | _ => simp [Frag2] at hf

end TP2
