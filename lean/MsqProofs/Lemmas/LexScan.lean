import MsqProofs.Lemmas.LexSkel
import MsqProofs.Lemmas.LexSpec
/-!
# A structural scanner for brackets, independent of the lexer (C04 b, c)

`Scan.step` knows only: the three quote kinds with their escapes, the three comment forms, the four bracket characters,
and where a bare token (word / number) ends.  It has no table, no windows, no frame stack and no tokens.  Two quirks of
the token language are visible in its definition because they decide whether a bracket is read as a bracket:
inside a bare token `#` does not open a comment (KNOWN finding of C05), and a quote directly after a lone
`b`/`B`/`x`/`X` opens a bit / hex literal, which its quote character closes without escapes.

`bracketSkeleton text` is the sequence of bracket events the scanner sees: `opn` for `(` and `[` (the kind of the
OPENING bracket is not recorded: F-C04-1), `cls paren` for `)`, `cls slice` for `]`, for the bracket characters outside
quotes and comments.

`lex_scan`: for any table that passes the finite check `simCheck` (every cell that does not raise moves between lexer
states exactly as the scanner moves between its modes, related by `rho`, with the same bracket events), the bracket
skeleton of the token tree of every accepted text is `bracketSkeleton` of the text.
-/
namespace Scan
open Lex Spec

inductive Q | sq | dq | bq deriving DecidableEq, Repr
def Q.ch : Q → Char | .sq => '\'' | .dq => '"' | .bq => '`'

inductive Mode
  | N            -- between tokens, or after an operator character
  | D            -- after a `-`
  | SL           -- after a `/`
  | T            -- inside a bare token (word or number)
  | P            -- after a lone b / B / x / X
  | Q (q : Q)    -- inside a quoted region
  | QE (q : Q)   -- … after a backslash
  | QQ (q : Q)   -- … after a quote character: closed, unless the quote is doubled
  | H (q : Q)    -- inside a bit / hex literal b'…' x"…"
  | LC           -- line comment
  | BC           -- block comment
  | BCS          -- block comment, after a `*`
  deriving DecidableEq, Repr

/-- a character read between tokens -/
def fresh (c : Nat) : Mode × List Ev :=
  if c =ᶜ '(' || c =ᶜ '[' then (.N, [.opn])
  else if c =ᶜ ')' then (.N, [.cls .paren])
  else if c =ᶜ ']' then (.N, [.cls .slice])
  else if c =ᶜ '-' then (.D, [])
  else if c =ᶜ '/' then (.SL, [])
  else if c =ᶜ '#' then (.LC, [])
  else if c =ᶜ '\'' then (.Q .sq, [])
  else if c =ᶜ '"' then (.Q .dq, [])
  else if c =ᶜ '`' then (.Q .bq, [])
  else if isWordEnd c then (.N, [])          -- blanks, the other operator / punctuation characters
  else if isBitPrefix c || isHexPrefix c then (.P, [])
  else (.T, [])

/-- the character ends a bare token (`#` does not: KNOWN finding) -/
def endsToken (c : Nat) : Bool := isWordEnd c && !(c =ᶜ '#')

def step : Mode → Nat → Mode × List Ev
  | .N, c => fresh c
  | .D, c => if c =ᶜ '-' then (.LC, []) else fresh c
  | .SL, c => if c =ᶜ '*' then (.BC, []) else fresh c
  | .T, c => if endsToken c then fresh c else (.T, [])
  | .P, c => if c =ᶜ '\'' then (.H .sq, []) else if c =ᶜ '"' then (.H .dq, []) else if endsToken c then fresh c else (.T, [])
  | .Q q, c =>
    if c =ᶜ q.ch then (if q == .bq then (.N, []) else (.QQ q, []))
    else if c =ᶜ '\\' && q != .bq then (.QE q, [])
    else (.Q q, [])
  | .QE q, _ => (.Q q, [])
  | .QQ q, c => if c =ᶜ q.ch then (.Q q, []) else fresh c
  | .H q, c => if c =ᶜ q.ch then (.N, []) else (.H q, [])
  | .LC, c => if c =ᶜ '\n' then (.N, []) else (.LC, [])
  | .BC, c => if c =ᶜ '*' then (.BCS, []) else (.BC, [])
  | .BCS, c => if c =ᶜ '/' then (.N, []) else if c =ᶜ '*' then (.BCS, []) else (.BC, [])

def scanAll : Mode → List Char → Mode × List Ev
  | μ, [] => (μ, [])
  | μ, c :: cs => let r := step μ (norm c.toNat); let r' := scanAll r.1 cs; (r'.1, r.2 ++ r'.2)

/-- **the bracket skeleton of a text**, by the structural scanner -/
def bracketSkeleton (text : List Char) : List Ev := (scanAll .N text).2

/-! ## the lexer's states and the scanner's modes -/

/-- which scanner modes a lexer state may correspond to.  (`IN_FLOAT` also to `N`: after `1.` the scanner, which does
not know numbers, believes the token ended at the point; every cell on which that would matter raises.) -/
def rho : S → List Mode
  | .WAIT | .AFTER_21 | .AFTER_26 | .AFTER_3C | .AFTER_3C_3D | .AFTER_3E | .AFTER_7C => [.N]
  | .AFTER_2D => [.D]
  | .AFTER_2F => [.SL]
  | .IN_WORD | .IN_INT | .AFTER_0 | .IN_HEX_LITERAL_AFTER_0X | .IN_BIT_LITERAL_AFTER_0B => [.T]
  | .IN_FLOAT => [.T, .N]
  | .AFTER_B | .AFTER_X => [.P]
  | .IN_HEX_LITERAL_OF_SINGLE_QUOTE | .IN_BIT_LITERAL_OF_SINGLE_QUOTE => [.H .sq]
  | .IN_HEX_LITERAL_OF_DOUBLE_QUOTE | .IN_BIT_LITERAL_OF_DOUBLE_QUOTE => [.H .dq]
  | .IN_SINGLE_QUOTE => [.Q .sq]
  | .IN_SINGLE_QUOTE_AFTER_27 => [.QQ .sq]
  | .IN_SINGLE_QUOTE_AFTER_5C => [.QE .sq]
  | .IN_DOUBLE_QUOTE => [.Q .dq]
  | .IN_DOUBLE_QUOTE_AFTER_22 => [.QQ .dq]
  | .IN_DOUBLE_QUOTE_AFTER_5C => [.QE .dq]
  | .IN_BACK_QUOTE => [.Q .bq]
  | .IN_EXPLAIN_1 => [.LC]
  | .IN_EXPLAIN_2 => [.BC]
  | .IN_EXPLAIN_2_AFTER_2A => [.BCS]
  | _ => []

/-- `stepInfo` on a character code -/
def stepInfoN (cfg : Cfg Gen.Cls) (s : S) (n : Nat) : Option (S × Bool × List Ev) := opInfo cfg s (lookupN cfg s n)

def traceFeedN? (cfg : Cfg Gen.Cls) (s : S) (n : Nat) : Option (S × List Ev) := feedInfo (fun s => stepInfoN cfg s n) s

theorem stepInfo_ch (cfg : Cfg Gen.Cls) (s : S) (c : Char) : stepInfo cfg s (.ch c) = stepInfoN cfg s c.toNat := by
  simp only [stepInfo, stepInfoN, lookup_ch]

theorem traceFeed?_ch (cfg : Cfg Gen.Cls) (s : S) (c : Char) : traceFeed? cfg s c = traceFeedN? cfg s c.toNat := by
  simp only [traceFeed?, traceFeedN?, stepInfo_ch]

/-- the finite check: on every cell that does not raise, lexer and scanner move alike and see the same bracket events;
at the end of the text no bracket event happens -/
def simCheck (cfg : Cfg Gen.Cls) : Bool :=
  allS.all fun s =>
    ((rho s).all fun μ => (other :: ascii).all fun n =>
      match traceFeedN? cfg s n with
      | none => true
      | some (s', e) => (step μ n).2 == e && (rho s').contains (step μ n).1) &&
    (match stepInfo cfg s .eof with
      | none => true
      | some (_, _, e) => e == [])

theorem traceFeedN?_norm (cfg : Cfg Gen.Cls) (hnorm : ∀ s n, lookupN cfg s n = lookupN cfg s (norm n)) (s : S) (n : Nat) :
    traceFeedN? cfg s n = traceFeedN? cfg s (norm n) := by
  have h1 : (fun s => stepInfoN cfg s n) = (fun s => stepInfoN cfg s (norm n)) := by
    funext s; simp only [stepInfoN, hnorm s n]
  simp only [traceFeedN?, h1]

theorem norm_mem (n : Nat) : norm n ∈ other :: ascii := by
  by_cases ha : n ∈ ascii
  · have : norm n = n := by simp [norm, (isAscii_iff n).mpr ha]
    rw [this]; exact List.mem_cons_of_mem _ ha
  · rw [norm_of_not_ascii ha]; exact List.mem_cons_self ..

theorem step_sim (cfg : Cfg Gen.Cls) (hnorm : ∀ s n, lookupN cfg s n = lookupN cfg s (norm n))
    (hcheck : simCheck cfg = true) (s s' : S) (μ : Mode) (hμ : μ ∈ rho s) (c : Char) (e : List Ev)
    (h : traceFeed? cfg s c = some (s', e)) :
    (step μ (norm c.toNat)).2 = e ∧ (step μ (norm c.toNat)).1 ∈ rho s' := by
  rw [traceFeed?_ch, traceFeedN?_norm cfg hnorm] at h
  have hs := (List.all_eq_true.mp hcheck) s (mem_allS s)
  simp only [Bool.and_eq_true, List.all_eq_true] at hs
  have := hs.1 μ hμ (norm c.toNat) (norm_mem _)
  rw [h] at this
  simp only [Bool.and_eq_true, beq_iff_eq, List.contains_iff_mem] at this
  exact this

theorem feedAllWith_scan (cfg : Cfg Gen.Cls) (hsum : ∀ c, (summarize (cfg.code c)).isSome = true)
    (hnorm : ∀ s n, lookupN cfg s n = lookupN cfg s (norm n)) (hcheck : simCheck cfg = true)
    (text cs : List Char) : ∀ (m m' : Mem) (μ : Mode),
    feedAllWith (handle cfg text) cs m = .ok m' → m.stack ≠ [] → μ ∈ rho m.status →
    (scanAll μ cs).1 ∈ rho m'.status ∧ skelS m'.stack = skelS m.stack ++ (scanAll μ cs).2 ∧ m'.stack ≠ [] := by
  induction cs with
  | nil =>
    intro m m' μ h hne hμ
    simp only [feedAllWith, Except.ok.injEq] at h
    subst h
    simp [scanAll, hne, hμ]
  | cons c cs ih =>
    intro m m' μ h hne hμ
    simp only [feedAllWith] at h
    cases e1 : feedWith (handle cfg text) m c with
    | error x => rw [e1] at h; cases h
    | ok m1 =>
      rw [e1] at h
      obtain ⟨e, a1, a2, a3⟩ := feedWith_skel' cfg hsum text m m1 c e1 hne
      obtain ⟨b1, b2⟩ := step_sim cfg hnorm hcheck m.status m1.status μ hμ c e a1
      obtain ⟨c1, c2, c3⟩ := ih m1 m' _ h a3 b2
      simp only [scanAll]
      exact ⟨c1, by rw [c2, a2, b1, List.append_assoc], c3⟩

/-- **the skeleton theorem with the structural scanner**: for every accepted text, the bracket skeleton of the token
tree is the bracket skeleton of the (pre-processed) text -/
theorem lex_scan (cfg : Cfg Gen.Cls) (hsum : ∀ c, (summarize (cfg.code c)).isSome = true)
    (hnorm : ∀ s n, lookupN cfg s n = lookupN cfg s (norm n)) (hcheck : simCheck cfg = true)
    (hd : cfg.depthLimit ≤ 1) (raw : List Char) (ts : List Tok) (h : Lex.lex cfg raw = .ok ts) :
    skelL ts = bracketSkeleton (cfg.pre raw) := by
  unfold Lex.lex lexWith at h
  simp only at h
  cases e1 : feedAllWith (handle cfg (cfg.pre raw)) (cfg.pre raw) {} with
  | error x => rw [e1] at h; cases h
  | ok m =>
    rw [e1] at h
    simp only at h
    obtain ⟨a1, a2, a3⟩ := feedAllWith_scan cfg hsum hnorm hcheck (cfg.pre raw) (cfg.pre raw) {} m .N e1 (by simp)
      (by simp [rho])
    cases e2 : handle cfg (cfg.pre raw) m .eof with
    | error y => rw [e2] at h; cases h
    | ok y =>
      rw [e2] at h
      obtain ⟨m', b⟩ := y
      simp only at h
      obtain ⟨ev, hi, hk, hn⟩ := handle_skel cfg hsum (cfg.pre raw) m m' .eof b e2 a3
      have hev : ev = [] := by
        have hs := (List.all_eq_true.mp hcheck) m.status (mem_allS _)
        simp only [Bool.and_eq_true] at hs
        have := hs.2
        rw [hi] at this
        simpa using this
      have hts : skelL ts = skelS m'.stack := by
        unfold Lex.finish at h
        split at h
        · cases h
        · split at h
          · cases h
          · rename_i hlen
            cases hst : m'.stack with
            | nil => exact absurd hst hn
            | cons f fs =>
              cases fs with
              | nil =>
                rw [hst] at h
                simp only [List.getLast?_singleton, Except.ok.injEq] at h
                subst h; rfl
              | cons g rest => rw [hst] at hlen; simp only [List.length_cons] at hlen; omega
      rw [hts, hk, a2, hev]
      simp [bracketSkeleton, skelS, skelL]

/-- a text whose bracket skeleton is unbalanced is not accepted -/
theorem lex_scan_unbalanced (cfg : Cfg Gen.Cls) (hsum : ∀ c, (summarize (cfg.code c)).isSome = true)
    (hnorm : ∀ s n, lookupN cfg s n = lookupN cfg s (norm n)) (hcheck : simCheck cfg = true)
    (hd : cfg.depthLimit ≤ 1) (raw : List Char)
    (hu : depthOK 0 (bracketSkeleton (cfg.pre raw)) = false) : ∀ ts, Lex.lex cfg raw ≠ .ok ts := by
  intro ts h
  have := lex_scan cfg hsum hnorm hcheck hd raw ts h
  rw [← this, depthOK_tree] at hu
  cases hu

end Scan
