import MsqProofs.Lemmas.TDml0
/-!
# T-parse for data-change statements: the shared pieces, DELETE and UPDATE (C03 / C01)

* records of the query development from the `Bool` fragment (`optRec`, `orderRec`: by `TQ.rt3`);
* `whereOrderLimit`: `pWhereOrderLimit` (the three optional clauses UPDATE and DELETE share) on `toksTail`;
* `tblName_ok`: `_parse_table_name_expression` on the one back-quoted token of a target table;
* `stmt_dispatch`: the keyword dispatch of `pStatement` for a first word that opens none of the keyword-introduced statements;
* `delete_ok`, `update_ok`: the two statement parsers on their renderings.
-/
set_option linter.unusedVariables false
set_option linter.unusedSimpArgs false
set_option maxHeartbeats 1000000
open Lex PM Ast TP TP2 TS TQ
namespace TDM
variable {d : Gen.D} {ch : Expr → Bool}

/-! ### records from the `Bool` fragment -/
theorem optRec (hch : ChOK d ch) (o : Option Expr) (h : FragO3 d o = true) : OptRec d ch o :=
  opt_rec (szO3 o) (fun e _ h => rt3 hch e h) o (Nat.le_refl _) h
theorem orderRec (hch : ChOK d ch) (ob : Option (List OrderItem)) (h : orderOK3 d ob = true) : OrderRec d ch ob :=
  order_rec (szOrder ob) (fun e _ h => rt3 hch e h) ob (Nat.le_refl _) h

/-! ### WHERE / ORDER BY / LIMIT -/
theorem bd3_tail (wh : Option Expr) (ob : Option (List OrderItem)) (lm : Option (Int × Option Int)) (rest : List Tok) (hr : Bd3 d 7 rest = true) :
    Bd3 d 2 (toksTail d ch wh ob lm ++ rest) = true := by
  have b6 := bd3_limit lm rest hr
  have b5 := bd3_order (ch := ch) ob _ b6
  have b2 := bd3_where (ch := ch) wh _ (bd3_mono b5 (by omega))
  simpa [toksTail, List.append_assoc] using b2
theorem whereOrderLimit (wh : Option Expr) (ob : Option (List OrderItem)) (lm : Option (Int × Option Int))
    (hwh : OptRec d ch wh) (hob : OrderRec d ch ob) (hlm : limitOK lm = true) (rest : List Tok) (hr : Bd3 d 7 rest = true) :
    OkAt (fun f => pWhereOrderLimit d f (toksTail d ch wh ob lm ++ rest)) (20 * sizeL (toksTail d ch wh ob lm) + 16) ((wh, ob, lm), rest) := by
  have b6 := bd3_limit lm rest hr
  have b5 := bd3_order (ch := ch) ob _ b6
  have rW : rank "WHERE" = 3 := by decide
  intro f hf'
  simp only [toksTail, sizeL_append] at hf'
  have h1 := optOr "WHERE" (by decide) 3 (by omega) wh hwh _ (bd3_mono b5 (by omega)) f (by omega)
  have h2 := orderBy ob hob _ b6 f (by omega)
  have h3 := TS.limit lm hlm rest (b3 hr)
  simp only at h1 h2
  unfold pWhereOrderLimit
  simp only [toksTail, List.append_assoc, h1, h2, h3]

/-! ### the target table -/
theorem tblName_ok (t : TableName) (ht : tblOKD t = true) (x : List Tok) (hdot : searchStr x "." = false) :
    pTblName (tblTok t.schema t.name :: x) = .ok (t, x) := by
  simp only [tblOKD, tblOK, Bool.and_eq_true, Bool.not_eq_true', List.isEmpty_iff] at ht
  obtain ⟨⟨⟨⟨⟨hN, hP⟩, hC⟩, hsp⟩, _⟩, _⟩ := ht
  have hsp' := isOkPair_eq hsp
  unfold pTblName pTableName
  simp only [hN, Bool.not_true, Bool.false_eq_true, if_false, hdot, hsp']
theorem tbl_notTable (t : TableName) (ht : tblOKD t = true) : (tblTok t.schema t.name).srcEqUp "TABLE" = false := by
  simp only [tblOKD, Bool.and_eq_true, Bool.not_eq_true'] at ht; exact ht.2
theorem bd3_notDot {k : Nat} {x : List Tok} (h : Bd3 d k x = true) : searchStr x "." = false :=
  TS.stops_notDot (TS.bd_stops (b3 h))

/-! ### the keyword dispatch of `pStatement` -/
/-- what `pStatement` does after the WITH clause: SELECT / INSERT / UPDATE -/
def stmtBody (d : Gen.D) (f : Nat) (withs : List WithTable) (r : List Tok) : R Stmt :=
  if searchStrUp r "SELECT" then (match pSelectStmt d f (some withs) r with | .ok (q, r1) => .ok (.select q, r1) | .error e => .error e)
  else if searchStrUp r "INSERT" then pInsert d f (some withs) r
  else if searchStrUp r "UPDATE" then pUpdate d f (some withs) r
  else .error .parse
/-- what `pStatement` does when the first word opens none of the keyword-introduced statements: WITH, then the body -/
def stmtTail (d : Gen.D) (f : Nat) (ts : List Tok) : R Stmt :=
  match pWith d f ts with
  | .error e => .error e
  | .ok (withs, r) => stmtBody d f withs r
theorem stmt_dispatch (t : Tok) (w : String) (hw : up t.src = w)
    (hne : ["SET", "DELETE", "DROP", "CREATE", "ANALYZE", "ALTER", "MSCK", "USE", "TRUNCATE", "SHOW"].contains w = false)
    (x : List Tok) (f : Nat) : pStatement d f (t :: x) = stmtTail d f (t :: x) := by
  have k : ∀ v : String, v ≠ w → t.srcEqUp v = false := by
    intro v hv
    simp only [Tok.srcEqUp, hw, beq_eq_false_iff_ne, ne_eq]
    exact fun h => hv h.symm
  have s1 : ∀ v : String, v ≠ w → searchStrUp (t :: x) v = false := by
    intro v hv; simpa [searchStrUp] using k v hv
  have s2 : ∀ a b : String, a ≠ w → searchTwoUp (t :: x) a b = false := by
    intro a b ha
    cases x <;> simp [searchTwoUp, k a ha]
  have s3 : ∀ a b c : String, a ≠ w → searchThreeUp (t :: x) a b c = false := by
    intro a b c ha
    rcases x with _ | ⟨y, _ | ⟨z, r⟩⟩ <;> simp [searchThreeUp, k a ha]
  simp only [List.contains_cons, List.contains_nil, Bool.or_false, Bool.or_eq_false_iff, beq_eq_false_iff_ne, ne_eq] at hne
  obtain ⟨h1, h2, h3, h4, h5, h6, h7, h8, h9, h10⟩ := hne
  unfold pStatement stmtTail stmtBody
  simp only [s1 "SET" (Ne.symm h1), s2 "DELETE" "FROM" (Ne.symm h2), s2 "DROP" "TABLE" (Ne.symm h3), s2 "CREATE" "TABLE" (Ne.symm h4),
    s2 "ANALYZE" "TABLE" (Ne.symm h5), s2 "ALTER" "TABLE" (Ne.symm h6), s3 "MSCK" "REPAIR" "TABLE" (Ne.symm h7), s1 "USE" (Ne.symm h8),
    s2 "TRUNCATE" "TABLE" (Ne.symm h9), s2 "SHOW" "DATABASES" (Ne.symm h10), s2 "SHOW" "TABLES" (Ne.symm h10), s2 "SHOW" "COLUMNS" (Ne.symm h10),
    Bool.false_eq_true, if_false]
  cases h : pWith d f (t :: x) with
  | error e => rfl
  | ok p => obtain ⟨withs, r⟩ := p; rfl

/-! ### DELETE -/
theorem kw_delete : (opTok "DELETE").equalsStr "DELETE" = true ∧ (opTok "FROM").equalsStr "FROM" = true ∧
    (opTok "DELETE").srcEqUp "SET" = false ∧ (opTok "DELETE").srcEqUp "DELETE" = true ∧ (opTok "FROM").srcEqUp "FROM" = true := by decide
theorem delete_ok (t : TableName) (wh : Option Expr) (ob : Option (List OrderItem)) (lm : Option (Int × Option Int))
    (ht : tblOKD t = true) (hwh : OptRec d ch wh) (hob : OrderRec d ch ob) (hlm : limitOK lm = true) (rest : List Tok) (hr : Bd3 d 7 rest = true) :
    OkAt (fun f => pDelete d f (opTok "DELETE" :: opTok "FROM" :: tblTok t.schema t.name :: (toksTail d ch wh ob lm ++ rest)))
      (20 * sizeL (toksTail d ch wh ob lm) + 16) (.delete t wh ob lm, rest) := by
  obtain ⟨k1, k2, _, _, _⟩ := kw_delete
  intro f hf'
  have h1 := tblName_ok t ht _ (bd3_notDot (bd3_tail (ch := ch) wh ob lm rest hr))
  have h2 := whereOrderLimit wh ob lm hwh hob hlm rest hr f hf'
  simp only at h2
  unfold pDelete
  simp only [matchSeq, k1, k2, if_true, h1, h2]
/-- through the statement loop's dispatch -/
theorem delete_stmt (t : TableName) (wh : Option Expr) (ob : Option (List OrderItem)) (lm : Option (Int × Option Int))
    (ht : tblOKD t = true) (hwh : OptRec d ch wh) (hob : OrderRec d ch ob) (hlm : limitOK lm = true) (rest : List Tok) (hr : Bd3 d 7 rest = true) :
    OkAt (fun f => pStatement d f (opTok "DELETE" :: opTok "FROM" :: tblTok t.schema t.name :: (toksTail d ch wh ob lm ++ rest)))
      (20 * sizeL (toksTail d ch wh ob lm) + 16) (.delete t wh ob lm, rest) := by
  obtain ⟨_, _, k3, k4, k5⟩ := kw_delete
  intro f hf'
  have := delete_ok t wh ob lm ht hwh hob hlm rest hr f hf'
  simp only at this
  unfold pStatement
  simp only [searchStrUp, k3, Bool.false_eq_true, if_false, searchTwoUp, k4, k5, Bool.and_self, if_true, this]

/-! ### UPDATE -/
theorem kw_update : (opTok "UPDATE").equalsStr "UPDATE" = true ∧ (opTok "SET").equalsStr "SET" = true ∧ (opTok "=").equalsStr "=" = true := by decide
def SetRec (d : Gen.D) (ch : Expr → Bool) (p : String × Expr) : Prop := unifyName (nameTok p.1).src = p.1 ∧ RT3 d ch p.2
theorem setRec (hch : ChOK d ch) (p : String × Expr) (h : setOK d p = true) : SetRec d ch p := by
  simp only [setOK, Bool.and_eq_true, beq_iff_eq] at h
  exact ⟨h.1, rt3 hch p.2 h.2⟩
theorem updateSetCol (p : String × Expr) (hp : SetRec d ch p) (fol : List Tok) (hs : TP2.stops2 d fol = true) :
    OkAt (fun f => pUpdateSetCol d f (toksSet d ch p ++ fol)) (20 * sizeL (toksSet d ch p) + 15) (p, fol) := by
  obtain ⟨c, e⟩ := p
  obtain ⟨hc, he⟩ := hp
  obtain ⟨_, _, k3⟩ := kw_update
  intro f hf'
  simp only [toksSet, sizeL_cons] at hf'
  have he : RT3 d ch e := he
  have h1 : pOr d f (toksE3 d ch e ++ fol) = .ok (e, fol) := he.own.s14 fol hs f (by omega)
  simp only at hc
  unfold pUpdateSetCol
  simp only [toksSet, List.cons_append, popSrc, matchKw, k3, if_true, h1, hc]
theorem setsTail_shape (ss : List (String × Expr)) : toksSetsTail d ch ss = [] ∨ ∃ x, toksSetsTail d ch ss = TS.commaTok :: x := by
  cases ss with
  | nil => left; rfl
  | cons p r => right; exact ⟨_, rfl⟩
theorem stops2_tailC {tl fol : List Tok} (h : tl = [] ∨ ∃ x, tl = TS.commaTok :: x) (hs : TP2.stops2 d fol = true) : TP2.stops2 d (tl ++ fol) = true := by
  rcases h with rfl | ⟨x, rfl⟩
  · exact hs
  · exact comma_stops2 _
theorem sizeL_toksSet_pos (p : String × Expr) : 2 ≤ sizeL (toksSet d ch p) := by
  simp only [toksSet, sizeL_cons, size_opTok]
  have := tok_size_pos (nameTok p.1); omega
/-- the loop `while search_and_move(","): append(set column)`: `g` counts the iterations -/
theorem updateSetLoop_ok (fol : List Tok) (hs : TP2.stops2 d fol = true) (hc : searchStr fol "," = false) :
    ∀ (ss : List (String × Expr)), (∀ p ∈ ss, SetRec d ch p) → ∀ acc f g, 20 * sizeL (toksSetsTail d ch ss) + 15 ≤ f → ss.length + 1 ≤ g →
    updateSetLoop d f g acc (toksSetsTail d ch ss ++ fol) = .ok (acc ++ ss, fol) := by
  intro ss
  induction ss with
  | nil =>
    intro _ acc f g _ hg
    obtain ⟨g', rfl⟩ : ∃ g', g = g' + 1 := ⟨g - 1, by simp at hg; omega⟩
    simp [toksSetsTail, updateSetLoop, hc]
  | cons p r ih =>
    intro hss acc f g hf' hg
    have hsz : TS.commaTok.size = 1 := by decide
    simp only [toksSetsTail, sizeL_cons, sizeL_append, hsz] at hf'
    obtain ⟨g', rfl⟩ : ∃ g', g = g' + 1 := ⟨g - 1, by simp at hg; omega⟩
    have h1 : pUpdateSetCol d f (toksSet d ch p ++ (toksSetsTail d ch r ++ fol)) = .ok (p, toksSetsTail d ch r ++ fol) :=
      updateSetCol p (hss p (by simp)) _ (stops2_tailC (setsTail_shape r) hs) f (by omega)
    have h2 := ih (fun q hq => hss q (by simp [hq])) (acc ++ [p]) f g' (by omega) (by simp at hg ⊢; omega)
    unfold updateSetLoop
    simp only [toksSetsTail, List.cons_append, List.append_assoc, TS.comma_search, if_true, List.drop_succ_cons, List.drop_zero, h1]
    simpa using h2
theorem length_setsTail (ss : List (String × Expr)) : ss.length ≤ (toksSetsTail d ch ss).length := by
  induction ss with
  | nil => simp [toksSetsTail]
  | cons p r ih => simp only [toksSetsTail, List.length_cons, List.length_append]; omega
theorem updateSet_ok (p : String × Expr) (ss : List (String × Expr)) (hp : SetRec d ch p) (hss : ∀ q ∈ ss, SetRec d ch q)
    (fol : List Tok) (hb : Bd3 d 2 fol = true) :
    OkAt (fun f => pUpdateSet d f (opTok "SET" :: (toksSets d ch (p :: ss) ++ fol))) (20 * sizeL (toksSets d ch (p :: ss)) + 15) (p :: ss, fol) := by
  obtain ⟨_, k2, _⟩ := kw_update
  have hs := bd3_stops hb
  intro f hf'
  simp only [toksSets, sizeL_append] at hf'
  have h1 : pUpdateSetCol d f (toksSet d ch p ++ (toksSetsTail d ch ss ++ fol)) = .ok (p, toksSetsTail d ch ss ++ fol) :=
    updateSetCol p hp _ (stops2_tailC (setsTail_shape ss) hs) f (by omega)
  have h2 := updateSetLoop_ok fol hs (TS.bd_comma (b3 hb)) ss hss [p] f ((toksSetsTail d ch ss ++ fol).length + 1) (by omega)
    (by have := length_setsTail (d := d) (ch := ch) ss; simp only [List.length_append]; omega)
  unfold pUpdateSet
  simp only [matchKw, k2, if_true, toksSets, List.append_assoc, h1]
  simpa using h2
theorem set_notDot (x : List Tok) : searchStr (opTok "SET" :: x) "." = false := by
  have : (opTok "SET").srcEq "." = false := by decide
  simpa [searchStr] using this
theorem update_ok (w : Option (List WithTable)) (t : TableName) (p : String × Expr) (ss : List (String × Expr))
    (wh : Option Expr) (ob : Option (List OrderItem)) (lm : Option (Int × Option Int))
    (ht : tblOKD t = true) (hp : SetRec d ch p) (hss : ∀ q ∈ ss, SetRec d ch q)
    (hwh : OptRec d ch wh) (hob : OrderRec d ch ob) (hlm : limitOK lm = true) (rest : List Tok) (hr : Bd3 d 7 rest = true) :
    OkAt (fun f => pUpdate d f w (opTok "UPDATE" :: tblTok t.schema t.name :: opTok "SET" :: (toksSets d ch (p :: ss) ++ (toksTail d ch wh ob lm ++ rest))))
      (20 * sizeL (toksSets d ch (p :: ss) ++ toksTail d ch wh ob lm) + 16) (.update w t (p :: ss) wh ob lm, rest) := by
  obtain ⟨k1, _, _⟩ := kw_update
  intro f hf'
  simp only [sizeL_append] at hf'
  have h1 := tblName_ok t ht _ (set_notDot (toksSets d ch (p :: ss) ++ (toksTail d ch wh ob lm ++ rest)))
  have h2 := updateSet_ok p ss hp hss _ (bd3_tail (ch := ch) wh ob lm rest hr) f (by omega)
  have h3 := whereOrderLimit wh ob lm hwh hob hlm rest hr f (by omega)
  simp only at h2 h3
  unfold pUpdate
  simp only [matchKw, k1, if_true, h1, h2, h3]

end TDM
