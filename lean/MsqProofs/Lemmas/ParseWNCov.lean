import MsqProofs.Lemmas.ParseWNCovE2
/-!
# C02 at the clause level: induction on the fuel
-/
open Lex
namespace WNG
open PM Ast
variable (d : Gen.D)

/-- every function of the SELECT part of the parser model: every expression at a clause position of its result is derived by the
documented grammar from a contiguous run of tokens inside its cursor -/
theorem cv_all : ∀ n, CV d n := by
  intro n
  induction n with
  | zero =>
    constructor <;> (intros; simp [pSubQuery, pWindowBody, pPartitionBy, pComputeList, pOrderItem, pOrderList, pOrderByOpt, pSelectCol,
      pSelectCols, pTableExpr, pFromTable, pFromTables, pJoin, pJoinRule, pJoins, pOptOr, pGroupingElem, pClosedEach, pGroupingElems,
      pGroupingSets, pGroupBy, pGroupCols, pGroupSetsOpt, pWithTable, pWithBody, pWithTables, pWith, pSelectBody, pFromOpt, pSelectRest,
      pSelectTail, pWhereGroup, pHavingOrder, pHiveClauses, pSortBy, pByList, pLateral, pLaterals, pSingle, pSingleParen, pSelectStmt,
      pUnions] at *)
  | succ n ih =>
    exact ⟨cv_pSubQuery ih, cv_pWindowBody ih, cv_pPartitionBy ih, cv_pComputeList ih, cv_pOrderItem ih, cv_pOrderList ih,
      cv_pOrderByOpt ih, cv_pSelectCol ih, cv_pSelectCols ih, cv_pTableExpr ih, cv_pFromTable ih, cv_pFromTables ih, cv_pJoin ih,
      cv_pJoinRule ih, cv_pJoins ih, cv_pOptOr ih, cv_pGroupingElem ih, cv_pClosedEach ih, cv_pGroupingElems ih, cv_pGroupingSets ih,
      cv_pGroupBy ih, cv_pGroupCols ih, cv_pGroupSetsOpt ih, cv_pWithTable ih, cv_pWithBody ih, cv_pWithTables ih, cv_pWith ih,
      cv_pSelectBody ih, cv_pFromOpt ih, cv_pSelectRest ih, cv_pSelectTail ih, cv_pWhereGroup ih, cv_pHavingOrder ih, cv_pHiveClauses ih,
      cv_pSortBy ih, cv_pByList ih, cv_pLateral ih, cv_pLaterals ih, cv_pSingle ih, cv_pSingleParen ih, cv_pSelectStmt ih, cv_pUnions ih⟩

/-- the opaque leaf `SubQ` of `Derives`, opened: every clause expression of the sub-query is derived from tokens of the group -/
theorem subQ_covered {d : Gen.D} {g : Tok} {q : Query} (h : SubQ d g q) : CovL d g.children (exprsQ q) := by
  obtain ⟨f, h⟩ := h
  rw [closed_ok] at h
  exact (cv_all d f).pSelectStmt g.children none g.children q [] .refl (by simpa [exprsOW] using CovL.nil) h

/-- the opaque leaf `WinSpec`, opened: the PARTITION BY and ORDER BY items of a window are derived from tokens of the group -/
theorem winSpec_covered {d : Gen.D} {fn w : Expr} {cs : List Tok} (h : WinSpec d fn cs w) :
    ∃ part ord rows, w = .window fn part ord rows ∧ CovL d cs (part ++ ord.map oiE) := by
  obtain ⟨f, h⟩ := h
  exact (cv_all d f).pWindowBody cs fn cs w .refl h

end WNG
