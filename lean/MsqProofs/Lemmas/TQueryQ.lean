import MsqProofs.Lemmas.TQueryS
/-!
# T-parse closed under nesting: the single SELECT, the set-operator loop, the query (C03 / C01)

`SRec d ch s` — the record of a single SELECT: its shape and the records of its parts; `single3`: `pSingle` on its rendering.
`UnRec` — the record of the branches of a set operation; `unions`: the loop `pUnions` (a left fold: every operator phrase is found again
as its name, `unionTyOK`, every branch is a single SELECT).  `qt_single` / `qt_union`: the query-level record `QT` from these, and the same
for the statement level (`WITH` slot already consumed: `stmt_some`).
-/
set_option linter.unusedVariables false
set_option linter.unusedSimpArgs false
set_option maxHeartbeats 1000000
open Lex PM Ast TP TS
namespace TQ
variable {d : Gen.D} {ch : Expr → Bool}
local notation "commaTok" => TS.commaTok

theorem tok_size_pos (t : Tok) : 1 ≤ t.size := by cases t <;> simp [Tok.size] <;> omega

/-! ### `Bd3` from the end of the statement to the front -/
theorem kw_notOver : (opTok "FROM").srcEqUp "OVER" = false ∧ (opTok "WHERE").srcEqUp "OVER" = false ∧ (opTok "GROUP").srcEqUp "OVER" = false ∧
    (opTok "HAVING").srcEqUp "OVER" = false ∧ (opTok "ORDER").srcEqUp "OVER" = false ∧ (opTok "LIMIT").srcEqUp "OVER" = false := by decide
theorem bd3_limit (lm : Option (Int × Option Int)) (rest : List Tok) (h : Bd3 d 7 rest = true) : Bd3 d 6 (toksLimit lm ++ rest) = true := by
  obtain ⟨_, _, _, _, _, hl⟩ := @TS.bd_keywords d
  obtain ⟨_, _, _, _, _, ol⟩ := kw_notOver
  cases lm with
  | none => exact bd3_mono h (by omega)
  | some p => obtain ⟨n, o⟩ := p; cases o <;> exact bd3_of _ hl ol
theorem bd3_order (ob : Option (List OrderItem)) (x : List Tok) (h : Bd3 d 6 x = true) : Bd3 d 5 (toksOrder3 d ch ob ++ x) = true := by
  obtain ⟨_, _, _, _, ho, _⟩ := @TS.bd_keywords d
  obtain ⟨_, _, _, _, oo, _⟩ := kw_notOver
  cases ob with
  | none => simpa [toksOrder3] using bd3_mono h (by omega)
  | some l => cases l with
    | nil => simpa [toksOrder3] using bd3_mono h (by omega)
    | cons o os => simp only [toksOrder3, List.cons_append]; exact bd3_of _ ho oo
theorem bd3_having (hv : Option Expr) (x : List Tok) (h : Bd3 d 5 x = true) : Bd3 d 4 (toksOptE3 d ch "HAVING" hv ++ x) = true := by
  obtain ⟨_, _, _, hh, _, _⟩ := @TS.bd_keywords d
  obtain ⟨_, _, _, oh, _, _⟩ := kw_notOver
  cases hv with
  | none => simpa [toksOptE3] using bd3_mono h (by omega)
  | some e => simp only [toksOptE3, List.cons_append]; exact bd3_of _ hh oh
theorem bd3_group (gb : Option GroupBy) (x : List Tok) (h : Bd3 d 4 x = true) : Bd3 d 3 (toksGroup3 d ch gb ++ x) = true := by
  obtain ⟨_, _, hg, _, _, _⟩ := @TS.bd_keywords d
  obtain ⟨_, _, og, _, _, _⟩ := kw_notOver
  cases gb with
  | none => simpa [toksGroup3] using bd3_mono h (by omega)
  | some g =>
    obtain ⟨cols, s, c, r⟩ := g
    cases cols with
    | nil => simpa [toksGroup3] using bd3_mono h (by omega)
    | cons e es => simp only [toksGroup3, List.cons_append]; exact bd3_of _ hg og
theorem bd3_where (wh : Option Expr) (x : List Tok) (h : Bd3 d 3 x = true) : Bd3 d 2 (toksOptE3 d ch "WHERE" wh ++ x) = true := by
  obtain ⟨_, hw, _, _, _, _⟩ := @TS.bd_keywords d
  obtain ⟨_, ow, _, _, _, _⟩ := kw_notOver
  cases wh with
  | none => simpa [toksOptE3] using bd3_mono h (by omega)
  | some e => simp only [toksOptE3, List.cons_append]; exact bd3_of _ hw ow
theorem bd3_from (fr : Option (List FromTable)) (x : List Tok) (h : Bd3 d 1 x = true) : Bd3 d 0 (toksFrom3 d ch fr ++ x) = true := by
  obtain ⟨hf, _, _, _, _, _⟩ := @TS.bd_keywords d
  obtain ⟨of, _, _, _, _, _⟩ := kw_notOver
  cases fr with
  | none => simpa [toksFrom3] using bd3_mono h (by omega)
  | some l => cases l with
    | nil => simpa [toksFrom3] using bd3_mono h (by omega)
    | cons t ts => simp only [toksFrom3, List.cons_append]; exact bd3_of _ hf of

/-! ### the clauses in sequence -/
/-- everything after the select list -/
def toksRest3 (d : Gen.D) (ch : Expr → Bool) (fr : Option (List FromTable)) (js : List Join) (wh : Option Expr) (gb : Option GroupBy)
    (hv : Option Expr) (ob : Option (List OrderItem)) (lm : Option (Int × Option Int)) : List Tok :=
  toksFrom3 d ch fr ++ (toksJoins3 d ch js ++ (toksOptE3 d ch "WHERE" wh ++ (toksGroup3 d ch gb ++ (toksOptE3 d ch "HAVING" hv ++
    (toksOrder3 d ch ob ++ toksLimit lm)))))

/-- WHERE … LIMIT -/
theorem selectTail3 (dist : Bool) (cols : List (Expr × Option String)) (fr : Option (List FromTable)) (js : List Join)
    (wh : Option Expr) (gb : Option GroupBy) (hv : Option Expr) (ob : Option (List OrderItem)) (lm : Option (Int × Option Int))
    (hwh : OptRec d ch wh) (hgb : GroupRec d ch gb) (hhv : OptRec d ch hv) (hob : OrderRec d ch ob) (hlm : limitOK lm = true)
    (rest : List Tok) (hr : Bd3 d 7 rest = true) :
    OkAt (fun f => pSelectTail d f [] dist cols fr [] js
        (toksOptE3 d ch "WHERE" wh ++ (toksGroup3 d ch gb ++ (toksOptE3 d ch "HAVING" hv ++ (toksOrder3 d ch ob ++ (toksLimit lm ++ rest))))))
      (20 * sizeL (toksOptE3 d ch "WHERE" wh ++ (toksGroup3 d ch gb ++ (toksOptE3 d ch "HAVING" hv ++ (toksOrder3 d ch ob ++ toksLimit lm)))) + 18)
      (.mk (some []) dist cols fr [] js wh gb hv ob none none none lm, rest) := by
  have b6 := bd3_limit lm rest hr
  have b5 := bd3_order (ch := ch) ob _ b6
  have b4 := bd3_having (ch := ch) hv _ b5
  have b3' := bd3_group (ch := ch) gb _ b4
  have rW : rank "WHERE" = 3 := by decide
  have rH : rank "HAVING" = 5 := by decide
  intro f hf'
  simp only [sizeL_append] at hf'
  obtain ⟨g, rfl⟩ : ∃ g, f = g + 2 := ⟨f - 2, by omega⟩
  have h1 := optOr "WHERE" (by decide) 3 (by omega) wh hwh _ b3' g (by omega)
  have h2 := groupBy gb hgb _ b4 g (by omega)
  have h3 := optOr "HAVING" (by decide) 5 (by omega) hv hhv _ b5 g (by omega)
  have h4 := orderBy ob hob _ b6 g (by omega)
  have h5 := TS.hiveClauses _ (b3 b6) (g + 1) (by omega)
  have h6 := TS.limit lm hlm rest (b3 hr)
  simp only at h1 h2 h3 h4 h5
  unfold pSelectTail pWhereGroup pHavingOrder
  simp only [h1, h2, h3, h4, h5, h6]

theorem selectRest3 (dist : Bool) (cols : List (Expr × Option String)) (fr : Option (List FromTable)) (js : List Join)
    (wh : Option Expr) (gb : Option GroupBy) (hv : Option Expr) (ob : Option (List OrderItem)) (lm : Option (Int × Option Int))
    (hfr : FromRec d ch fr) (hjs : ∀ j ∈ js, JoinRec d ch j)
    (hwh : OptRec d ch wh) (hgb : GroupRec d ch gb) (hhv : OptRec d ch hv) (hob : OrderRec d ch ob) (hlm : limitOK lm = true)
    (rest : List Tok) (hr : Bd3 d 7 rest = true) :
    OkAt (fun f => pSelectRest d f [] dist cols true [] (toksRest3 d ch fr js wh gb hv ob lm ++ rest))
      (20 * sizeL (toksRest3 d ch fr js wh gb hv ob lm) + 23)
      (.mk (some []) dist cols fr [] js wh gb hv ob none none none lm, rest) ∧
    Bd3 d 0 (toksRest3 d ch fr js wh gb hv ob lm ++ rest) = true := by
  have b6 := bd3_limit lm rest hr
  have b5 := bd3_order (ch := ch) ob _ b6
  have b4 := bd3_having (ch := ch) hv _ b5
  have b3' := bd3_group (ch := ch) gb _ b4
  have b2 := bd3_where (ch := ch) wh _ b3'
  have b1 := (joins_bd js hjs _ b2).1
  have b0 := bd3_from (ch := ch) fr _ b1
  have hassoc : toksRest3 d ch fr js wh gb hv ob lm ++ rest =
      toksFrom3 d ch fr ++ (toksJoins3 d ch js ++ (toksOptE3 d ch "WHERE" wh ++ (toksGroup3 d ch gb ++ (toksOptE3 d ch "HAVING" hv ++
        (toksOrder3 d ch ob ++ (toksLimit lm ++ rest)))))) := by
    simp only [toksRest3, List.append_assoc]
  refine ⟨?_, by rw [hassoc]; exact b0⟩
  have rL : rank "LATERAL" = 0 := by decide
  intro f hf'
  simp only [toksRest3, sizeL_append] at hf'
  obtain ⟨g, rfl⟩ : ∃ g, f = g + 1 := ⟨f - 1, by omega⟩
  have h1 := fromOpt fr hfr _ b1 g (by omega)
  have h2 := joins _ b2 js hjs [] g (by omega)
  have h3 := selectTail3 dist cols fr js wh gb hv ob lm hwh hgb hhv hob hlm rest hr g (by simp only [sizeL_append]; omega)
  have hl : pLaterals d g true [] []
      (toksJoins3 d ch js ++ (toksOptE3 d ch "WHERE" wh ++ (toksGroup3 d ch gb ++ (toksOptE3 d ch "HAVING" hv ++ (toksOrder3 d ch ob ++ (toksLimit lm ++ rest)))))) =
      .ok ([], toksJoins3 d ch js ++ (toksOptE3 d ch "WHERE" wh ++ (toksGroup3 d ch gb ++ (toksOptE3 d ch "HAVING" hv ++ (toksOrder3 d ch ob ++ (toksLimit lm ++ rest)))))) := by
    obtain ⟨g', rfl⟩ : ∃ g', g = g' + 1 := ⟨g - 1, by omega⟩
    unfold pLaterals
    simp [TS.bd_search2 (b3 b1) "LATERAL" "VIEW" (by omega)]
  simp only at h1 h2 h3
  rw [hassoc]
  unfold pSelectRest
  simp only [h1, hl, h2, List.nil_append, h3]

theorem toksS3_eq (w : Option (List WithTable)) (dist : Bool) (cols) (fr) (lats : List Lateral) (js wh gb hv ob) (sb : Option (List OrderItem)) (db cb : Option (List Expr)) (lm) :
    toksS3 d ch (.mk w dist cols fr lats js wh gb hv ob sb db cb lm) =
      opTok "SELECT" :: ((if dist then [opTok "DISTINCT"] else []) ++ (toksCols3 d ch cols ++ toksRest3 d ch fr js wh gb hv ob lm)) := by
  simp only [toksS3, toksRest3]

/-- the whole single SELECT -/
theorem single3 (dist : Bool) (c : Expr × Option String) (cs : List (Expr × Option String)) (fr : Option (List FromTable)) (js : List Join)
    (wh : Option Expr) (gb : Option GroupBy) (hv : Option Expr) (ob : Option (List OrderItem)) (lm : Option (Int × Option Int))
    (hc : ColRec d ch c) (hcs : ∀ c' ∈ cs, ColRec d ch c') (hdist : dist = true ∨ searchStrUp (toksCols3 d ch (c :: cs)) "DISTINCT" = false)
    (hfr : FromRec d ch fr) (hjs : ∀ j ∈ js, JoinRec d ch j)
    (hwh : OptRec d ch wh) (hgb : GroupRec d ch gb) (hhv : OptRec d ch hv) (hob : OrderRec d ch ob) (hlm : limitOK lm = true)
    (rest : List Tok) (hr : Bd3 d 7 rest = true) :
    OkAt (fun f => pSingle d f [] (toksS3 d ch (.mk (some []) dist (c :: cs) fr [] js wh gb hv ob none none none lm) ++ rest))
      (20 * sizeL (toksS3 d ch (.mk (some []) dist (c :: cs) fr [] js wh gb hv ob none none none lm)) + 6)
      (.mk (some []) dist (c :: cs) fr [] js wh gb hv ob none none none lm, rest) := by
  obtain ⟨hrest, b0⟩ := selectRest3 dist (c :: cs) fr js wh gb hv ob lm hfr hjs hwh hgb hhv hob hlm rest hr
  obtain ⟨k1, k2, k3⟩ := TS.select_kw
  have folR : Fol d (toksRest3 d ch fr js wh gb hv ob lm ++ rest) := Fol.ofBd b0
  have folC : Fol d (toksColsTail3 d ch cs ++ (toksRest3 d ch fr js wh gb hv ob lm ++ rest)) := Fol.tail (colsTail_shape cs) folR
  obtain ⟨t, ts', hh, _⟩ := hc.1.head
  have hpos : 1 ≤ sizeL (toksCol3 d ch c) := by
    simp only [toksCol3, hh, sizeL_append, sizeL_cons]
    have := tok_size_pos t; omega
  intro f hf'
  simp only [toksS3_eq, toksCols3_cons, sizeL_cons, sizeL_append, size_opTok] at hf'
  obtain ⟨g, rfl⟩ : ∃ g, f = g + 2 := ⟨f - 2, by omega⟩
  have h1 : pSelectCol d g (toksCol3 d ch c ++ (toksColsTail3 d ch cs ++ (toksRest3 d ch fr js wh gb hv ob lm ++ rest))) =
      .ok (c, toksColsTail3 d ch cs ++ (toksRest3 d ch fr js wh gb hv ob lm ++ rest)) := selectCol c hc _ folC g (by omega)
  have h2 := selectCols _ folR (TS.bd_comma (b3 b0)) cs hcs [c] g (by omega)
  have h3 := hrest g (by omega)
  simp only at h2 h3
  have hmove : moveStrUp ((if dist then [opTok "DISTINCT"] else []) ++
        (toksCol3 d ch c ++ (toksColsTail3 d ch cs ++ (toksRest3 d ch fr js wh gb hv ob lm ++ rest)))) "DISTINCT" =
      (dist, toksCol3 d ch c ++ (toksColsTail3 d ch cs ++ (toksRest3 d ch fr js wh gb hv ob lm ++ rest))) := by
    cases dist with
    | true => simp [moveStrUp, searchStrUp, k3]
    | false =>
      rcases hdist with hd | hd
      · cases hd
      · have : t.srcEqUp "DISTINCT" = false := by
          rw [toksCols3_cons] at hd
          simp only [toksCol3, hh, List.cons_append] at hd
          simpa [searchStrUp] using hd
        simp [moveStrUp, searchStrUp, toksCol3, hh, this]
  show pSingle d (g + 2) [] (toksS3 d ch _ ++ rest) = _
  unfold pSingle
  simp only [toksS3_eq, toksCols3_cons, List.cons_append, searchMark, k2, Bool.not_false, if_true]
  unfold pSelectBody
  simp only [matchSeq, k1, if_true, List.append_assoc, hmove, h1, h2, List.singleton_append, h3]

/-! ### the record of a single SELECT -/
def SRec (d : Gen.D) (ch : Expr → Bool) (s : Select) : Prop :=
  ∃ dist c cs fr js wh gb hv ob lm, s = .mk (some []) dist (c :: cs) fr [] js wh gb hv ob none none none lm ∧
    ColRec d ch c ∧ (∀ c' ∈ cs, ColRec d ch c') ∧ (dist = true ∨ searchStrUp (toksCols3 d ch (c :: cs)) "DISTINCT" = false) ∧
    FromRec d ch fr ∧ (∀ j ∈ js, JoinRec d ch j) ∧ OptRec d ch wh ∧ GroupRec d ch gb ∧ OptRec d ch hv ∧ OrderRec d ch ob ∧ limitOK lm = true
theorem SRec.parse {s : Select} (h : SRec d ch s) (rest : List Tok) (hr : Bd3 d 7 rest = true) :
    OkAt (fun f => pSingle d f [] (toksS3 d ch s ++ rest)) (20 * sizeL (toksS3 d ch s) + 6) (s, rest) := by
  obtain ⟨dist, c, cs, fr, js, wh, gb, hv, ob, lm, rfl, h1, h2, h3, h4, h5, h6, h7, h8, h9, h10⟩ := h
  exact single3 dist c cs fr js wh gb hv ob lm h1 h2 h3 h4 h5 h6 h7 h8 h9 h10 rest hr
theorem SRec.head {s : Select} (h : SRec d ch s) : ∃ x, toksS3 d ch s = opTok "SELECT" :: x := by
  obtain ⟨dist, c, cs, fr, js, wh, gb, hv, ob, lm, rfl, _⟩ := h
  exact ⟨_, toksS3_eq _ _ _ _ _ _ _ _ _ _ _ _ _ _⟩
theorem SRec.setWiths {s : Select} (h : SRec d ch s) : setWiths s = s := by
  obtain ⟨dist, c, cs, fr, js, wh, gb, hv, ob, lm, rfl, _⟩ := h
  rfl

/-! ### the set-operator loop -/
def UnRec (d : Gen.D) (ch : Expr → Bool) : List (String × Select) → Prop
  | [] => True
  | (t, s) :: r => unionTyOK d t = true ∧ SRec d ch s ∧ UnRec d ch r
theorem unionTy_parts {ty : String} (h : unionTyOK d ty = true) :
    firstEnumA Gen.unionTypes (unionWords ty) = some (ty, (unionWords ty).length) ∧
    ∃ t ws, unionWords ty = t :: ws ∧ bdTok d 7 t = true ∧ setOpHead [t] = true ∧ t.srcEqUp "OVER" = false := by
  simp only [unionTyOK, Bool.and_eq_true] at h
  obtain ⟨h1, h2⟩ := h
  refine ⟨?_, ?_⟩
  · split at h1
    · rename_i n k heq
      simp only [Bool.and_eq_true, beq_iff_eq] at h1
      rw [heq, h1.1, h1.2]
    · cases h1
  · split at h2
    · rename_i t ws heq
      simp only [Bool.and_eq_true, Bool.not_eq_true'] at h2
      exact ⟨t, ws, heq, h2.1.1, h2.1.2, h2.2⟩
    · cases h2
theorem select_noUnionWord : ∀ e ∈ Gen.unionTypes, ∀ k ∈ e.2, (opTok "SELECT").equalsStr k = false := by decide
/-- what follows a SELECT of a query: the first word of a set operator, or what follows the query -/
theorem unions_bd (us : List (String × Select)) (hus : UnRec d ch us) (rest : List Tok) (hr : stopsQ d rest = true) :
    Bd3 d 7 (toksUn d ch us ++ rest) = true ∧ setOpHead (toksUn d ch us ++ rest) = !us.isEmpty := by
  cases us with
  | nil =>
    simp only [stopsQ, Bool.and_eq_true, Bool.not_eq_true'] at hr
    simpa [toksUn] using hr
  | cons p r =>
    obtain ⟨ty, s⟩ := p
    obtain ⟨_, t, ws, hw, hb, hso, hov⟩ := unionTy_parts hus.1
    simp only [toksUn, hw, List.cons_append, List.isEmpty_cons, Bool.not_false]
    refine ⟨bd3_of _ hb hov, ?_⟩
    simpa [setOpHead] using hso
theorem sizeL_toksS3_pos (s : Select) : 1 ≤ sizeL (toksS3 d ch s) := by
  obtain ⟨w, dist, cols, fr, lats, js, wh, gb, hv, ob, sb, db, cb, lm⟩ := s
  simp only [toksS3_eq, sizeL_cons, size_opTok]; omega
theorem unions (rest : List Tok) (hr : stopsQ d rest = true) :
    ∀ (us : List (String × Select)), UnRec d ch us → ∀ acc,
    OkAt (fun f => pUnions d f [] acc (toksUn d ch us ++ rest)) (20 * sizeL (toksUn d ch us) + 1) (acc ++ us, rest) := by
  intro us
  induction us with
  | nil =>
    intro _ acc f hf'
    obtain ⟨g, rfl⟩ : ∃ g, f = g + 1 := ⟨f - 1, by omega⟩
    have := (unions_bd (ch := ch) [] trivial rest hr).2
    simp only [toksUn, List.nil_append, List.isEmpty_nil, Bool.not_true] at this
    simp [toksUn, pUnions, this]
  | cons p r ih =>
    intro hus acc f hf'
    obtain ⟨ty, s⟩ := p
    obtain ⟨hty, hs, hr'⟩ := hus
    obtain ⟨hfe, t, ws, hw, _, _, _⟩ := unionTy_parts hty
    obtain ⟨x, hx⟩ := hs.head
    have hwpos : 1 ≤ sizeL (unionWords ty) := by
      rw [hw, sizeL_cons]; have := tok_size_pos t; omega
    have hspos := sizeL_toksS3_pos (d := d) (ch := ch) s
    simp only [toksUn, sizeL_append] at hf'
    obtain ⟨g, rfl⟩ : ∃ g, f = g + 1 := ⟨f - 1, by omega⟩
    have hnext := unions_bd r hr' rest hr
    have hhead := (unions_bd ((ty, s) :: r) ⟨hty, hs, hr'⟩ rest hr).2
    have hfirst : firstEnum Gen.unionTypes (unionWords ty ++ (toksS3 d ch s ++ (toksUn d ch r ++ rest))) =
        some (ty, toksS3 d ch s ++ (toksUn d ch r ++ rest)) := by
      rw [hx, List.cons_append, TS.firstEnum_app _ _ _ _ select_noUnionWord, hfe]
      simp
    have h1 : pSingle d g [] (toksS3 d ch s ++ (toksUn d ch r ++ rest)) = .ok (s, toksUn d ch r ++ rest) :=
      hs.parse _ hnext.1 g (by omega)
    have h2 := ih hr' (acc ++ [(ty, s)]) g (by omega)
    show pUnions d (g + 1) [] acc (toksUn d ch ((ty, s) :: r) ++ rest) = _
    unfold pUnions
    simp only [hhead, List.isEmpty_cons, Bool.not_false, Bool.not_true, Bool.false_eq_true, if_false]
    simp only [toksUn, List.append_assoc, hfirst, h1]
    simpa using h2
theorem UnRec.setWiths : ∀ {us : List (String × Select)}, UnRec d ch us → us.map (fun p => (p.1, PM.setWiths p.2)) = us
  | [], _ => rfl
  | (t, s) :: r, h => by
    simp only [List.map_cons, h.2.1.setWiths, UnRec.setWiths h.2.2]

/-! ### the query -/
theorem with_absent (x : List Tok) (g : Nat) : pWith d (g + 1) (opTok "SELECT" :: x) = .ok ([], opTok "SELECT" :: x) := by
  have : (opTok "SELECT").srcEqUp "WITH" = false := by decide
  unfold pWith
  simp [searchStrUp, this]
/-- `_parse_select_statement` on the rendering of a query (`WITH` slot: not yet looked for, or already found absent) -/
theorem stmt_core (w : Option (List WithTable)) (hw : w = none ∨ w = some []) (s : Select) (us : List (String × Select))
    (hs : SRec d ch s) (hus : UnRec d ch us) (rest : List Tok) (hr : stopsQ d rest = true) :
    OkAt (fun f => pSelectStmt d f w (toksS3 d ch s ++ (toksUn d ch us ++ rest))) (20 * sizeL (toksS3 d ch s ++ toksUn d ch us) + 9)
      (if us.isEmpty then .single s else .union (some []) s us, rest) := by
  intro f hf'
  simp only [sizeL_append] at hf'
  obtain ⟨g, rfl⟩ : ∃ g, f = g + 2 := ⟨f - 2, by omega⟩
  obtain ⟨x, hx⟩ := hs.head
  have h1 : pSingle d (g + 1) [] (toksS3 d ch s ++ (toksUn d ch us ++ rest)) = .ok (s, toksUn d ch us ++ rest) :=
    hs.parse _ (unions_bd us hus rest hr).1 (g + 1) (by omega)
  have h2 := unions rest hr us hus [] (g + 1) (by omega)
  simp only [List.nil_append] at h2
  have hwith : pWith d (g + 1) (toksS3 d ch s ++ (toksUn d ch us ++ rest)) = .ok ([], toksS3 d ch s ++ (toksUn d ch us ++ rest)) := by
    simp only [hx, List.cons_append]; exact with_absent _ g
  show pSelectStmt d (g + 2) w _ = _
  unfold pSelectStmt
  rcases hw with rfl | rfl <;> simp only [hwith, h1, h2, hs.setWiths, hus.setWiths] <;> split <;> rfl

theorem qt_single (s : Select) (hs : SRec d ch s) : QT d ch (.single s) := by
  refine ⟨fun rest hr => ?_, by simpa [toksQ] using hs.head⟩
  have := stmt_core none (Or.inl rfl) s [] hs trivial rest hr
  simpa [toksQ, toksUn] using this
theorem qt_union (s : Select) (us : List (String × Select)) (hs : SRec d ch s) (hus : UnRec d ch us) (hne : us.isEmpty = false) :
    QT d ch (.union (some []) s us) := by
  refine ⟨fun rest hr => ?_, ?_⟩
  · have := stmt_core none (Or.inl rfl) s us hs hus rest hr
    simpa [toksQ, hne] using this
  · obtain ⟨x, hx⟩ := hs.head
    exact ⟨x ++ toksUn d ch us, by simp [toksQ, hx]⟩

end TQ
