import MsqProofs.Lemmas.TQuery2S
/-!
# T-parse on the larger nested fragment: the single SELECT, the set-operator loop, the query (C03 / C01)

Derived from Lemmas/TQueryQ.lean (first draft by tools/gen_tquery2.py --select, then maintained by hand): the clauses in sequence with the
finer numbering of `Bd4` — select list, FROM, LATERAL VIEWs, JOINs, WHERE, GROUP BY, HAVING, ORDER BY, SORT BY, DISTRIBUTE BY, CLUSTER BY,
LIMIT.  `SRec d ch s` — the record of a single SELECT; `single4`: `pSingle` on its rendering; `unions`, `stmt_core`, `qt_single`, `qt_union`
as in TQueryQ.lean.
-/
set_option linter.unusedVariables false
set_option linter.unusedSimpArgs false
set_option maxHeartbeats 1000000
open Lex PM Ast TP TS
open TP2 (qTok fnOK nmOK nm2OK isOkNoneS fnNameOK aggOK dotTok starTok)
open TQ (tblTok unionWords lvlH isExists lvlH_eq lvlH_ge lvlH_of_le8 isOkPair tblOK)
namespace TQ2
variable {d : Gen.D} {ch : Expr → Bool}
local notation "commaTok" => TS.commaTok

theorem tok_size_pos (t : Tok) : 1 ≤ t.size := by cases t <;> simp [Tok.size] <;> omega

/-! ### `Bd4` from the end of the statement to the front -/
theorem bd_keywords : bdTok4 d 0 (opTok "FROM") = true ∧ bdTok4 d 3 (opTok "WHERE") = true ∧ bdTok4 d 4 (opTok "GROUP") = true ∧
    bdTok4 d 5 (opTok "HAVING") = true ∧ bdTok4 d 6 (opTok "ORDER") = true ∧ bdTok4 d 7 (opTok "SORT") = true ∧
    bdTok4 d 8 (opTok "DISTRIBUTE") = true ∧ bdTok4 d 9 (opTok "CLUSTER") = true ∧ bdTok4 d 10 (opTok "LIMIT") = true := by cases d <;> decide
theorem bd3_limit (lm : Option (Int × Option Int)) (rest : List Tok) (h : Bd4 d 11 rest = true) : Bd4 d 10 (toksLimit lm ++ rest) = true := by
  obtain ⟨_, _, _, _, _, _, _, _, hl⟩ := @bd_keywords d
  cases lm with
  | none => exact bd3_mono h (by omega)
  | some p => obtain ⟨n, o⟩ := p; cases o <;> exact bd3_of _ hl
theorem bd3_by (kw : String) (k : Nat) (hk : bdTok4 d k (opTok kw) = true) (o : Option (List Expr)) (x : List Tok) (h : Bd4 d (k + 1) x = true) :
    Bd4 d k (toksBy4 d ch kw o ++ x) = true := by
  cases o with
  | none => simpa [toksBy4] using bd3_mono h (by omega)
  | some l => cases l with
    | nil => simpa [toksBy4] using bd3_mono h (by omega)
    | cons e es => simp only [toksBy4, List.cons_append]; exact bd3_of _ hk
theorem bd3_sort (ob : Option (List OrderItem)) (x : List Tok) (h : Bd4 d 8 x = true) : Bd4 d 7 (toksSort4 d ch ob ++ x) = true := by
  obtain ⟨_, _, _, _, _, hs, _⟩ := @bd_keywords d
  cases ob with
  | none => simpa [toksSort4] using bd3_mono h (by omega)
  | some l => cases l with
    | nil => simpa [toksSort4] using bd3_mono h (by omega)
    | cons o os => simp only [toksSort4, List.cons_append]; exact bd3_of _ hs
theorem bd3_order (ob : Option (List OrderItem)) (x : List Tok) (h : Bd4 d 7 x = true) : Bd4 d 6 (toksOrder4 d ch ob ++ x) = true := by
  obtain ⟨_, _, _, _, ho, _⟩ := @bd_keywords d
  cases ob with
  | none => simpa [toksOrder4] using bd3_mono h (by omega)
  | some l => cases l with
    | nil => simpa [toksOrder4] using bd3_mono h (by omega)
    | cons o os => simp only [toksOrder4, List.cons_append]; exact bd3_of _ ho
theorem bd3_having (hv : Option Expr) (x : List Tok) (h : Bd4 d 6 x = true) : Bd4 d 5 (toksOptE4 d ch "HAVING" hv ++ x) = true := by
  obtain ⟨_, _, _, hh, _⟩ := @bd_keywords d
  cases hv with
  | none => simpa [toksOptE4] using bd3_mono h (by omega)
  | some e => simp only [toksOptE4, List.cons_append]; exact bd3_of _ hh
theorem bd3_group (gb : Option GroupBy) (x : List Tok) (h : Bd4 d 5 x = true) : Bd4 d 4 (toksGroup4 d ch gb ++ x) = true := by
  obtain ⟨_, _, hg, _⟩ := @bd_keywords d
  cases gb with
  | none => simpa [toksGroup4] using bd3_mono h (by omega)
  | some g =>
    obtain ⟨cols, s, c, r⟩ := g
    simp only [toksGroup4, List.cons_append]; exact bd3_of _ hg
theorem bd3_where (wh : Option Expr) (x : List Tok) (h : Bd4 d 4 x = true) : Bd4 d 3 (toksOptE4 d ch "WHERE" wh ++ x) = true := by
  obtain ⟨_, hw, _⟩ := @bd_keywords d
  cases wh with
  | none => simpa [toksOptE4] using bd3_mono h (by omega)
  | some e => simp only [toksOptE4, List.cons_append]; exact bd3_of _ hw
theorem bd3_from (fr : Option (List FromTable)) (x : List Tok) (h : Bd4 d 1 x = true) : Bd4 d 0 (toksFrom4 d ch fr ++ x) = true := by
  obtain ⟨hf, _⟩ := @bd_keywords d
  cases fr with
  | none => simpa [toksFrom4] using bd3_mono h (by omega)
  | some l => cases l with
    | nil => simpa [toksFrom4] using bd3_mono h (by omega)
    | cons t ts => simp only [toksFrom4, List.cons_append]; exact bd3_of _ hf

/-! ### LIMIT, the three Hive clauses -/
theorem limit4 (lm : Option (Int × Option Int)) (hl : limitOK lm = true) (fol : List Tok) (hb : Bd4 d 11 fol = true) :
    pLimit (toksLimit lm ++ fol) = .ok (lm, fol) := by
  have r7 : rank4 "LIMIT" = 11 := by decide
  have r0 : rank4 "OFFSET" = 0 := by decide
  have hk : (opTok "LIMIT").srcEqUp "LIMIT" = true := by decide
  cases lm with
  | none => exact C03.limit_absent _ (bd_search hb "LIMIT" (by omega))
  | some p =>
    obtain ⟨n, o⟩ := p
    cases o with
    | none =>
      simp only [limitOK, limOK, Bool.and_eq_true] at hl
      exact C03.limit_plain _ _ fol n hk (TS.isOkInt_eq hl.2) (bd_comma hb) (bd_search hb "OFFSET" (by omega))
    | some m =>
      simp only [limitOK, limOK, Bool.and_eq_true] at hl
      have hc : commaTok.srcEq "," = true := by decide
      exact C03.limit_comma _ _ _ _ fol m n hk (TS.isOkInt_eq hl.2.2) hc (TS.isOkInt_eq hl.1.2)
theorem hiveClauses (sb : Option (List OrderItem)) (db cb : Option (List Expr)) (hsb : OrderRec d ch sb) (hdb : ByRec d ch db) (hcb : ByRec d ch cb)
    (x : List Tok) (hb : Bd4 d 10 x = true) :
    OkAt (fun f => pHiveClauses d f (toksSort4 d ch sb ++ (toksBy4 d ch "DISTRIBUTE" db ++ (toksBy4 d ch "CLUSTER" cb ++ x))))
      (20 * sizeL (toksSort4 d ch sb ++ (toksBy4 d ch "DISTRIBUTE" db ++ toksBy4 d ch "CLUSTER" cb)) + 8) ((sb, db, cb), x) := by
  obtain ⟨_, _, _, _, _, _, kd, kc, _⟩ := @bd_keywords d
  have r8 : rank4 "SORT" = 8 := by decide
  have r9 : rank4 "DISTRIBUTE" = 9 := by decide
  have r10 : rank4 "CLUSTER" = 10 := by decide
  have b9 := bd3_by (ch := ch) "CLUSTER" 9 kc cb x hb
  have b8 := bd3_by (ch := ch) "DISTRIBUTE" 8 kd db _ b9
  intro f hf'
  simp only [sizeL_append] at hf'
  obtain ⟨g, rfl⟩ : ∃ g, f = g + 1 := ⟨f - 1, by omega⟩
  have h1 := sortBy sb hsb _ (OFol.ofBd b8) (bd_comma b8) (bd_search2 b8 "SORT" "BY" (by omega)) g (by omega)
  have h2 := byList "DISTRIBUTE" (by decide) db hdb _ (TP2.stopLE2_mono (bd3_stops b9) (by omega)) (bd_comma b9)
    (bd_search2 b9 "DISTRIBUTE" "BY" (by omega)) g (by omega)
  have h3 := byList "CLUSTER" (by decide) cb hcb _ (TP2.stopLE2_mono (bd3_stops hb) (by omega)) (bd_comma hb)
    (bd_search2 hb "CLUSTER" "BY" (by omega)) g (by omega)
  simp only at h1 h2 h3
  unfold pHiveClauses
  simp only [h1, h2, h3]

/-! ### the clauses in sequence -/
/-- everything after the select list -/
def toksRest4 (d : Gen.D) (ch : Expr → Bool) (fr : Option (List FromTable)) (lats : List Lateral) (js : List Join) (wh : Option Expr) (gb : Option GroupBy)
    (hv : Option Expr) (ob sb : Option (List OrderItem)) (db cb : Option (List Expr)) (lm : Option (Int × Option Int)) : List Tok :=
  toksFrom4 d ch fr ++ (toksLats4 d ch lats ++ (toksJoins4 d ch js ++ (toksOptE4 d ch "WHERE" wh ++ (toksGroup4 d ch gb ++ (toksOptE4 d ch "HAVING" hv ++
    (toksOrder4 d ch ob ++ (toksSort4 d ch sb ++ (toksBy4 d ch "DISTRIBUTE" db ++ (toksBy4 d ch "CLUSTER" cb ++ toksLimit lm)))))))))

/-- WHERE … LIMIT -/
theorem selectTail4 (dist : Bool) (cols : List (Expr × Option String)) (fr : Option (List FromTable)) (lats : List Lateral) (js : List Join)
    (wh : Option Expr) (gb : Option GroupBy) (hv : Option Expr) (ob sb : Option (List OrderItem)) (db cb : Option (List Expr))
    (lm : Option (Int × Option Int))
    (hwh : OptRec d ch wh) (hgb : GroupRec d ch gb) (hhv : OptRec d ch hv) (hob : OrderRec d ch ob) (hsb : OrderRec d ch sb)
    (hdb : ByRec d ch db) (hcb : ByRec d ch cb) (hlm : limitOK lm = true)
    (rest : List Tok) (hr : Bd4 d 11 rest = true) :
    OkAt (fun f => pSelectTail d f [] dist cols fr lats js
        (toksOptE4 d ch "WHERE" wh ++ (toksGroup4 d ch gb ++ (toksOptE4 d ch "HAVING" hv ++ (toksOrder4 d ch ob ++
          (toksSort4 d ch sb ++ (toksBy4 d ch "DISTRIBUTE" db ++ (toksBy4 d ch "CLUSTER" cb ++ (toksLimit lm ++ rest)))))))))
      (20 * sizeL (toksOptE4 d ch "WHERE" wh ++ (toksGroup4 d ch gb ++ (toksOptE4 d ch "HAVING" hv ++ (toksOrder4 d ch ob ++
          (toksSort4 d ch sb ++ (toksBy4 d ch "DISTRIBUTE" db ++ (toksBy4 d ch "CLUSTER" cb ++ toksLimit lm))))))) + 18)
      (.mk (some []) dist cols fr lats js wh gb hv ob sb db cb lm, rest) ∧
    Bd4 d 3 (toksOptE4 d ch "WHERE" wh ++ (toksGroup4 d ch gb ++ (toksOptE4 d ch "HAVING" hv ++ (toksOrder4 d ch ob ++
          (toksSort4 d ch sb ++ (toksBy4 d ch "DISTRIBUTE" db ++ (toksBy4 d ch "CLUSTER" cb ++ (toksLimit lm ++ rest)))))))) = true := by
  obtain ⟨_, _, _, _, _, _, kd, kc, _⟩ := @bd_keywords d
  have b10 := bd3_limit lm rest hr
  have b9 := bd3_by (ch := ch) "CLUSTER" 9 kc cb _ b10
  have b8 := bd3_by (ch := ch) "DISTRIBUTE" 8 kd db _ b9
  have b7 := bd3_sort (ch := ch) sb _ b8
  have b6 := bd3_order (ch := ch) ob _ b7
  have b5 := bd3_having (ch := ch) hv _ b6
  have b4 := bd3_group (ch := ch) gb _ b5
  have b3' := bd3_where (ch := ch) wh _ b4
  refine ⟨?_, b3'⟩
  have rW : rank4 "WHERE" = 4 := by decide
  have rH : rank4 "HAVING" = 6 := by decide
  have rO : rank4 "ORDER" = 7 := by decide
  intro f hf'
  simp only [sizeL_append] at hf'
  obtain ⟨g, rfl⟩ : ∃ g, f = g + 2 := ⟨f - 2, by omega⟩
  have h1 := optOr "WHERE" (by decide) 4 (by omega) wh hwh _ b4 g (by omega)
  have h2 := groupBy gb hgb _ b5 g (by omega)
  have h3 := optOr "HAVING" (by decide) 6 (by omega) hv hhv _ b6 g (by omega)
  have h4 := orderBy ob hob _ (OFol.ofBd b7) (bd_comma b7) (bd_search2 b7 "ORDER" "BY" (by omega)) g (by omega)
  have h5 := hiveClauses sb db cb hsb hdb hcb _ b10 (g + 1) (by simp only [sizeL_append]; omega)
  have h6 := limit4 lm hlm rest hr
  simp only at h1 h2 h3 h4 h5
  unfold pSelectTail pWhereGroup pHavingOrder
  simp only [h1, h2, h3, h4, h5, h6]

theorem selectRest4 (dist : Bool) (cols : List (Expr × Option String)) (fr : Option (List FromTable)) (lats : List Lateral) (js : List Join)
    (wh : Option Expr) (gb : Option GroupBy) (hv : Option Expr) (ob sb : Option (List OrderItem)) (db cb : Option (List Expr))
    (lm : Option (Int × Option Int))
    (hfr : FromRec d ch fr) (hlats : ∀ l ∈ lats, LatRec d ch l) (hjs : ∀ j ∈ js, JoinRec d ch j)
    (hwh : OptRec d ch wh) (hgb : GroupRec d ch gb) (hhv : OptRec d ch hv) (hob : OrderRec d ch ob) (hsb : OrderRec d ch sb)
    (hdb : ByRec d ch db) (hcb : ByRec d ch cb) (hlm : limitOK lm = true)
    (rest : List Tok) (hr : Bd4 d 11 rest = true) :
    OkAt (fun f => pSelectRest d f [] dist cols true [] (toksRest4 d ch fr lats js wh gb hv ob sb db cb lm ++ rest))
      (20 * sizeL (toksRest4 d ch fr lats js wh gb hv ob sb db cb lm) + 23)
      (.mk (some []) dist cols fr lats js wh gb hv ob sb db cb lm, rest) ∧
    Bd4 d 0 (toksRest4 d ch fr lats js wh gb hv ob sb db cb lm ++ rest) = true := by
  obtain ⟨htail, b3'⟩ := selectTail4 dist cols fr lats js wh gb hv ob sb db cb lm hwh hgb hhv hob hsb hdb hcb hlm rest hr
  have b2 := (joins_bd js hjs _ b3').1
  have b1 := lats_bd (ch := ch) lats _ b2
  have b0 := bd3_from (ch := ch) fr _ b1
  have hassoc : toksRest4 d ch fr lats js wh gb hv ob sb db cb lm ++ rest =
      toksFrom4 d ch fr ++ (toksLats4 d ch lats ++ (toksJoins4 d ch js ++ (toksOptE4 d ch "WHERE" wh ++ (toksGroup4 d ch gb ++ (toksOptE4 d ch "HAVING" hv ++
        (toksOrder4 d ch ob ++ (toksSort4 d ch sb ++ (toksBy4 d ch "DISTRIBUTE" db ++ (toksBy4 d ch "CLUSTER" cb ++ (toksLimit lm ++ rest)))))))))) := by
    simp only [toksRest4, List.append_assoc]
  refine ⟨?_, by rw [hassoc]; exact b0⟩
  intro f hf'
  simp only [toksRest4, sizeL_append] at hf'
  obtain ⟨g, rfl⟩ : ∃ g, f = g + 1 := ⟨f - 1, by omega⟩
  have h1 := fromOpt fr hfr _ b1 g (by omega)
  have hl := laterals _ b2 lats hlats [] g (by omega)
  have h2 := joins _ b3' js hjs [] g (by omega)
  have h3 := htail g (by simp only [sizeL_append]; omega)
  simp only at h1 hl h2 h3
  rw [hassoc]
  unfold pSelectRest
  simp only [h1, hl, h2, List.nil_append, h3]

theorem toksS4_eq (w : Option (List WithTable)) (dist : Bool) (cols) (fr) (lats : List Lateral) (js wh gb hv ob) (sb : Option (List OrderItem)) (db cb : Option (List Expr)) (lm) :
    toksS4 d ch (.mk w dist cols fr lats js wh gb hv ob sb db cb lm) =
      opTok "SELECT" :: ((if dist then [opTok "DISTINCT"] else []) ++ (toksCols4 d ch cols ++ toksRest4 d ch fr lats js wh gb hv ob sb db cb lm)) := by
  simp only [toksS4, toksRest4]

/-- the whole single SELECT -/
theorem single4 (dist : Bool) (c : Expr × Option String) (cs : List (Expr × Option String)) (fr : Option (List FromTable)) (lats : List Lateral)
    (js : List Join) (wh : Option Expr) (gb : Option GroupBy) (hv : Option Expr) (ob sb : Option (List OrderItem)) (db cb : Option (List Expr))
    (lm : Option (Int × Option Int))
    (hc : ColRec d ch c) (hcs : ∀ c' ∈ cs, ColRec d ch c') (hdist : dist = true ∨ searchStrUp (toksCols4 d ch (c :: cs)) "DISTINCT" = false)
    (hfr : FromRec d ch fr) (hlats : ∀ l ∈ lats, LatRec d ch l) (hjs : ∀ j ∈ js, JoinRec d ch j)
    (hwh : OptRec d ch wh) (hgb : GroupRec d ch gb) (hhv : OptRec d ch hv) (hob : OrderRec d ch ob) (hsb : OrderRec d ch sb)
    (hdb : ByRec d ch db) (hcb : ByRec d ch cb) (hlm : limitOK lm = true)
    (rest : List Tok) (hr : Bd4 d 11 rest = true) :
    OkAt (fun f => pSingle d f [] (toksS4 d ch (.mk (some []) dist (c :: cs) fr lats js wh gb hv ob sb db cb lm) ++ rest))
      (20 * sizeL (toksS4 d ch (.mk (some []) dist (c :: cs) fr lats js wh gb hv ob sb db cb lm)) + 6)
      (.mk (some []) dist (c :: cs) fr lats js wh gb hv ob sb db cb lm, rest) := by
  obtain ⟨hrest, b0⟩ := selectRest4 dist (c :: cs) fr lats js wh gb hv ob sb db cb lm hfr hlats hjs hwh hgb hhv hob hsb hdb hcb hlm rest hr
  obtain ⟨k1, k2, k3⟩ := TS.select_kw
  have folR : Fol d (toksRest4 d ch fr lats js wh gb hv ob sb db cb lm ++ rest) := Fol.ofBd b0
  have folC : Fol d (toksColsTail4 d ch cs ++ (toksRest4 d ch fr lats js wh gb hv ob sb db cb lm ++ rest)) := Fol.tail (colsTail_shape cs) folR
  obtain ⟨t, ts', hh, _⟩ := hc.1.head
  have hpos : 1 ≤ sizeL (toksCol4 d ch c) := by
    simp only [toksCol4, hh, sizeL_append, sizeL_cons]
    have := tok_size_pos t; omega
  intro f hf'
  simp only [toksS4_eq, toksCols4_cons, sizeL_cons, sizeL_append, size_opTok] at hf'
  obtain ⟨g, rfl⟩ : ∃ g, f = g + 2 := ⟨f - 2, by omega⟩
  have h1 : pSelectCol d g (toksCol4 d ch c ++ (toksColsTail4 d ch cs ++ (toksRest4 d ch fr lats js wh gb hv ob sb db cb lm ++ rest))) =
      .ok (c, toksColsTail4 d ch cs ++ (toksRest4 d ch fr lats js wh gb hv ob sb db cb lm ++ rest)) := selectCol c hc _ folC g (by omega)
  have h2 := selectCols _ folR (bd_comma b0) cs hcs [c] g (by omega)
  have h3 := hrest g (by omega)
  simp only at h2 h3
  have hmove : moveStrUp ((if dist then [opTok "DISTINCT"] else []) ++
        (toksCol4 d ch c ++ (toksColsTail4 d ch cs ++ (toksRest4 d ch fr lats js wh gb hv ob sb db cb lm ++ rest)))) "DISTINCT" =
      (dist, toksCol4 d ch c ++ (toksColsTail4 d ch cs ++ (toksRest4 d ch fr lats js wh gb hv ob sb db cb lm ++ rest))) := by
    cases dist with
    | true => simp [moveStrUp, searchStrUp, k3]
    | false =>
      rcases hdist with hd | hd
      · cases hd
      · have : t.srcEqUp "DISTINCT" = false := by
          rw [toksCols4_cons] at hd
          simp only [toksCol4, hh, List.cons_append] at hd
          simpa [searchStrUp] using hd
        simp [moveStrUp, searchStrUp, toksCol4, hh, this]
  show pSingle d (g + 2) [] (toksS4 d ch _ ++ rest) = _
  unfold pSingle
  simp only [toksS4_eq, toksCols4_cons, List.cons_append, searchMark, k2, Bool.not_false, if_true]
  unfold pSelectBody
  simp only [matchSeq, k1, if_true, List.append_assoc, hmove, h1, h2, List.singleton_append, h3]

/-! ### the record of a single SELECT -/
def SRec (d : Gen.D) (ch : Expr → Bool) (s : Select) : Prop :=
  ∃ dist c cs fr lats js wh gb hv ob sb db cb lm, s = .mk (some []) dist (c :: cs) fr lats js wh gb hv ob sb db cb lm ∧
    ColRec d ch c ∧ (∀ c' ∈ cs, ColRec d ch c') ∧ (dist = true ∨ searchStrUp (toksCols4 d ch (c :: cs)) "DISTINCT" = false) ∧
    FromRec d ch fr ∧ (∀ l ∈ lats, LatRec d ch l) ∧ (∀ j ∈ js, JoinRec d ch j) ∧ OptRec d ch wh ∧ GroupRec d ch gb ∧ OptRec d ch hv ∧
    OrderRec d ch ob ∧ OrderRec d ch sb ∧ ByRec d ch db ∧ ByRec d ch cb ∧ limitOK lm = true
theorem SRec.parse {s : Select} (h : SRec d ch s) (rest : List Tok) (hr : Bd4 d 11 rest = true) :
    OkAt (fun f => pSingle d f [] (toksS4 d ch s ++ rest)) (20 * sizeL (toksS4 d ch s) + 6) (s, rest) := by
  obtain ⟨dist, c, cs, fr, lats, js, wh, gb, hv, ob, sb, db, cb, lm, rfl, h1, h2, h3, h4, h5, h6, h7, h8, h9, h10, h11, h12, h13, h14⟩ := h
  exact single4 dist c cs fr lats js wh gb hv ob sb db cb lm h1 h2 h3 h4 h5 h6 h7 h8 h9 h10 h11 h12 h13 h14 rest hr
theorem SRec.head {s : Select} (h : SRec d ch s) : ∃ x, toksS4 d ch s = opTok "SELECT" :: x := by
  obtain ⟨dist, c, cs, fr, lats, js, wh, gb, hv, ob, sb, db, cb, lm, rfl, _⟩ := h
  exact ⟨_, toksS4_eq _ _ _ _ _ _ _ _ _ _ _ _ _ _⟩
theorem SRec.setWiths {s : Select} (h : SRec d ch s) : setWiths s = s := by
  obtain ⟨dist, c, cs, fr, lats, js, wh, gb, hv, ob, sb, db, cb, lm, rfl, _⟩ := h
  rfl

/-! ### the set-operator loop -/
def UnRec (d : Gen.D) (ch : Expr → Bool) : List (String × Select) → Prop
  | [] => True
  | (t, s) :: r => unionTyOK4 d t = true ∧ SRec d ch s ∧ UnRec d ch r
theorem unionTy_parts {ty : String} (h : unionTyOK4 d ty = true) :
    firstEnumA Gen.unionTypes (unionWords ty) = some (ty, (unionWords ty).length) ∧
    ∃ t ws, unionWords ty = t :: ws ∧ bdTok4 d 11 t = true ∧ setOpHead [t] = true := by
  simp only [unionTyOK4, Bool.and_eq_true] at h
  obtain ⟨h1, h2⟩ := h
  refine ⟨?_, ?_⟩
  · split at h1
    · rename_i n k heq
      simp only [Bool.and_eq_true, beq_iff_eq] at h1
      rw [heq, h1.1, h1.2]
    · cases h1
  · split at h2
    · rename_i t ws heq
      simp only [Bool.and_eq_true] at h2
      exact ⟨t, ws, heq, h2.1, h2.2⟩
    · cases h2
theorem select_noUnionWord : ∀ e ∈ Gen.unionTypes, ∀ k ∈ e.2, (opTok "SELECT").equalsStr k = false := by decide
/-- what follows a SELECT of a query: the first word of a set operator, or what follows the query -/
theorem unions_bd (us : List (String × Select)) (hus : UnRec d ch us) (rest : List Tok) (hr : stopsQ2 d rest = true) :
    Bd4 d 11 (toksUn2 d ch us ++ rest) = true ∧ setOpHead (toksUn2 d ch us ++ rest) = !us.isEmpty := by
  cases us with
  | nil =>
    simp only [stopsQ2, Bool.and_eq_true, Bool.not_eq_true'] at hr
    simpa [toksUn2] using hr
  | cons p r =>
    obtain ⟨ty, s⟩ := p
    obtain ⟨_, t, ws, hw, hb, hso⟩ := unionTy_parts hus.1
    simp only [toksUn2, hw, List.cons_append, List.isEmpty_cons, Bool.not_false]
    refine ⟨bd3_of _ hb, ?_⟩
    simpa [setOpHead] using hso
theorem sizeL_toksS4_pos (s : Select) : 1 ≤ sizeL (toksS4 d ch s) := by
  obtain ⟨w, dist, cols, fr, lats, js, wh, gb, hv, ob, sb, db, cb, lm⟩ := s
  simp only [toksS4_eq, sizeL_cons, size_opTok]; omega
theorem unions (rest : List Tok) (hr : stopsQ2 d rest = true) :
    ∀ (us : List (String × Select)), UnRec d ch us → ∀ acc,
    OkAt (fun f => pUnions d f [] acc (toksUn2 d ch us ++ rest)) (20 * sizeL (toksUn2 d ch us) + 1) (acc ++ us, rest) := by
  intro us
  induction us with
  | nil =>
    intro _ acc f hf'
    obtain ⟨g, rfl⟩ : ∃ g, f = g + 1 := ⟨f - 1, by omega⟩
    have := (unions_bd (ch := ch) [] trivial rest hr).2
    simp only [toksUn2, List.nil_append, List.isEmpty_nil, Bool.not_true] at this
    simp [toksUn2, pUnions, this]
  | cons p r ih =>
    intro hus acc f hf'
    obtain ⟨ty, s⟩ := p
    obtain ⟨hty, hs, hr'⟩ := hus
    obtain ⟨hfe, t, ws, hw, _, _⟩ := unionTy_parts hty
    obtain ⟨x, hx⟩ := hs.head
    have hwpos : 1 ≤ sizeL (unionWords ty) := by
      rw [hw, sizeL_cons]; have := tok_size_pos t; omega
    have hspos := sizeL_toksS4_pos (d := d) (ch := ch) s
    simp only [toksUn2, sizeL_append] at hf'
    obtain ⟨g, rfl⟩ : ∃ g, f = g + 1 := ⟨f - 1, by omega⟩
    have hnext := unions_bd r hr' rest hr
    have hhead := (unions_bd ((ty, s) :: r) ⟨hty, hs, hr'⟩ rest hr).2
    have hfirst : firstEnum Gen.unionTypes (unionWords ty ++ (toksS4 d ch s ++ (toksUn2 d ch r ++ rest))) =
        some (ty, toksS4 d ch s ++ (toksUn2 d ch r ++ rest)) := by
      rw [hx, List.cons_append, TS.firstEnum_app _ _ _ _ select_noUnionWord, hfe]
      simp
    have h1 : pSingle d g [] (toksS4 d ch s ++ (toksUn2 d ch r ++ rest)) = .ok (s, toksUn2 d ch r ++ rest) :=
      hs.parse _ hnext.1 g (by omega)
    have h2 := ih hr' (acc ++ [(ty, s)]) g (by omega)
    show pUnions d (g + 1) [] acc (toksUn2 d ch ((ty, s) :: r) ++ rest) = _
    unfold pUnions
    simp only [hhead, List.isEmpty_cons, Bool.not_false, Bool.not_true, Bool.false_eq_true, if_false]
    simp only [toksUn2, List.append_assoc, hfirst, h1]
    simpa using h2
theorem UnRec.setWiths : ∀ {us : List (String × Select)}, UnRec d ch us → us.map (fun p => (p.1, PM.setWiths p.2)) = us
  | [], _ => rfl
  | (t, s) :: r, h => by
    simp only [List.map_cons, h.2.1.setWiths, UnRec.setWiths h.2.2]

/-! ### the query -/
theorem with_absent (x : List Tok) (g : Nat) : pWith d (g + 1) (opTok "SELECT" :: x) = .ok ([], opTok "SELECT" :: x) := by
  have : (opTok "SELECT").srcEqUp "WITH" = false := by decide
  unfold pWith
  simp [searchStrUp, this]
/-- `_parse_select_statement` on the rendering of a query (`WITH` slot: not yet looked for, or already found absent) -/
theorem stmt_core (w : Option (List WithTable)) (hw : w = none ∨ w = some []) (s : Select) (us : List (String × Select))
    (hs : SRec d ch s) (hus : UnRec d ch us) (rest : List Tok) (hr : stopsQ2 d rest = true) :
    OkAt (fun f => pSelectStmt d f w (toksS4 d ch s ++ (toksUn2 d ch us ++ rest))) (20 * sizeL (toksS4 d ch s ++ toksUn2 d ch us) + 9)
      (if us.isEmpty then .single s else .union (some []) s us, rest) := by
  intro f hf'
  simp only [sizeL_append] at hf'
  obtain ⟨g, rfl⟩ : ∃ g, f = g + 2 := ⟨f - 2, by omega⟩
  obtain ⟨x, hx⟩ := hs.head
  have h1 : pSingle d (g + 1) [] (toksS4 d ch s ++ (toksUn2 d ch us ++ rest)) = .ok (s, toksUn2 d ch us ++ rest) :=
    hs.parse _ (unions_bd us hus rest hr).1 (g + 1) (by omega)
  have h2 := unions rest hr us hus [] (g + 1) (by omega)
  simp only [List.nil_append] at h2
  have hwith : pWith d (g + 1) (toksS4 d ch s ++ (toksUn2 d ch us ++ rest)) = .ok ([], toksS4 d ch s ++ (toksUn2 d ch us ++ rest)) := by
    simp only [hx, List.cons_append]; exact with_absent _ g
  show pSelectStmt d (g + 2) w _ = _
  unfold pSelectStmt
  rcases hw with rfl | rfl <;> simp only [hwith, h1, h2, hs.setWiths, hus.setWiths] <;> split <;> rfl

theorem qt_single (s : Select) (hs : SRec d ch s) : QT d ch (.single s) := by
  refine ⟨fun rest hr => ?_, by simpa [toksQ2] using hs.head⟩
  have := stmt_core none (Or.inl rfl) s [] hs trivial rest hr
  simpa [toksQ2, toksUn2] using this
theorem qt_union (s : Select) (us : List (String × Select)) (hs : SRec d ch s) (hus : UnRec d ch us) (hne : us.isEmpty = false) :
    QT d ch (.union (some []) s us) := by
  refine ⟨fun rest hr => ?_, ?_⟩
  · have := stmt_core none (Or.inl rfl) s us hs hus rest hr
    simpa [toksQ2, hne] using this
  · obtain ⟨x, hx⟩ := hs.head
    exact ⟨x ++ toksUn2 d ch us, by simp [toksQ2, hx]⟩

end TQ2
