import MsqProofs.Lemmas.LexRetain2Defs
/-!
# The retention obligation, arranged for the kernel

`retCheck` looks every code up in its row (`List.find?`: 97 codes × up to 96 entries per state).  The rows of the
generated tables have ascending keys, so ONE pass over the ascending code list and the row (`walk`) visits the same
cells: `retCheckW` checks that the keys ascend and runs the pass; `retCheckW_sound`: it implies `retCheck`.
-/
namespace Lex
open Scan Spec

/-- the answer of a row for a code: first entry with that key, else the default -/
def lk (dflt : Option Op) (row : List (Nat × Op)) (n : Nat) : Option Op :=
  match row.find? (fun e => Nat.beq e.1 n) with
  | some e => some e.2
  | none => dflt

/-- one pass over an ascending list of codes and a row with ascending keys -/
def walk (P : Option Op → Nat → Bool) (dflt : Option Op) : List Nat → List (Nat × Op) → Bool
  | [], _ => true
  | n :: ns, [] => P dflt n && walk P dflt ns []
  | n :: ns, e :: row =>
    if Nat.beq e.1 n then P (some e.2) n && walk P dflt ns row
    else if Nat.blt n e.1 then P dflt n && walk P dflt ns (e :: row)
    else false

def ascending : List Nat → Bool
  | [] => true
  | [_] => true
  | a :: b :: r => Nat.blt a b && ascending (b :: r)

theorem ascending_tail {a : Nat} {l : List Nat} (h : ascending (a :: l) = true) : ascending l = true := by
  cases l with
  | nil => rfl
  | cons b r => simp only [ascending, Bool.and_eq_true] at h; exact h.2

theorem ascending_lt {a : Nat} {l : List Nat} (h : ascending (a :: l) = true) : ∀ b ∈ l, a < b := by
  induction l generalizing a with
  | nil => intro b hb; cases hb
  | cons c r ih =>
    intro b hb
    simp only [ascending, Bool.and_eq_true, Nat.blt_eq] at h
    rcases List.mem_cons.mp hb with rfl | hb
    · exact h.1
    · exact Nat.lt_trans h.1 (ih h.2 b hb)

theorem lk_none (dflt : Option Op) (row : List (Nat × Op)) (n : Nat) (h : ∀ e ∈ row, n < e.1) : lk dflt row n = dflt := by
  have : row.find? (fun e => Nat.beq e.1 n) = none := by
    rw [List.find?_eq_none]
    intro e he hb
    have := h e he
    have : e.1 = n := by simpa using hb
    omega
  simp [lk, this]

theorem walk_sound (P : Option Op → Nat → Bool) (dflt : Option Op) :
    ∀ (ns : List Nat) (row : List (Nat × Op)), ascending ns = true → ascending (row.map (·.1)) = true →
      walk P dflt ns row = true → ∀ n ∈ ns, P (lk dflt row n) n = true := by
  intro ns
  induction ns with
  | nil => intro _ _ _ _ n hn; cases hn
  | cons n ns ih =>
    intro row hns hrow hw m hm
    have hgt := ascending_lt hns
    cases row with
    | nil =>
      simp only [walk, Bool.and_eq_true] at hw
      rcases List.mem_cons.mp hm with rfl | hm
      · simpa [lk] using hw.1
      · exact ih [] (ascending_tail hns) rfl hw.2 m hm
    | cons e row =>
      simp only [walk] at hw
      simp only [List.map_cons] at hrow
      have hkeys := ascending_lt hrow
      split at hw
      · rename_i hk
        have hk' : e.1 = n := by simpa using hk
        simp only [Bool.and_eq_true] at hw
        rcases List.mem_cons.mp hm with rfl | hm
        · simpa [lk, hk] using hw.1
        · have hne : Nat.beq e.1 m = false := by
            have := hgt m hm
            cases hb : Nat.beq e.1 m with
            | false => rfl
            | true => have : e.1 = m := by simpa using hb
                      omega
          have := ih row (ascending_tail hns) (ascending_tail hrow) hw.2 m hm
          simpa [lk, List.find?_cons, hne] using this
      · split at hw
        · rename_i hk hlt
          simp only [Nat.blt_eq] at hlt
          simp only [Bool.and_eq_true] at hw
          rcases List.mem_cons.mp hm with rfl | hm
          · rw [lk_none]
            · exact hw.1
            · intro e' he'
              rcases List.mem_cons.mp he' with rfl | he'
              · exact hlt
              · exact Nat.lt_trans hlt (hkeys e'.1 (List.mem_map.mpr ⟨e', he', rfl⟩))
          · exact ih (e :: row) (ascending_tail hns) hrow hw.2 m hm
        · cases hw

/-- the codes of `other :: ascii`, ascending -/
def codesAsc : List Nat := ascii ++ [other]

theorem codesAsc_asc : ascending codesAsc = true := by decide

theorem mem_codesAsc {n : Nat} (h : n ∈ other :: ascii) : n ∈ codesAsc := by
  simp only [codesAsc, List.mem_append, List.mem_singleton]
  rcases List.mem_cons.mp h with h | h
  · exact .inr h
  · exact .inl h

/-- `cellOKF` with the operation of the first lookup passed in -/
noncomputable def cellOKop (ig : Ign) (cfg : Cfg Gen.Cls) (s : S) (μ : Mode) (o : Option Op) (n : Nat) : Bool :=
  match hInfoOp cfg s o with
  | none => true
  | some (s1, ret1, adv1, a1) =>
    match step μ n with
    | (μ', evs) =>
      let d := pd ig μ (some n)
      if ret1 then
        adv1 && lookaheads.all fun nx =>
          stepOK (isEmptySt cfg s) a1 d (pd ig μ' nx) (outK ig (classOfR (μ', evs) μ n nx))
      else
        !adv1 &&
        match firstOK (isEmptySt cfg s) a1 d with
        | none => false
        | some e1 =>
          match hInfo cfg s1 n with
          | none => true
          | some (_, _, adv2, a2) =>
            adv2 && lookaheads.all fun nx =>
              stepOK (e1 || isEmptySt cfg s1) a2 d (pd ig μ' nx) (outK ig (classOfR (μ', evs) μ n nx))

theorem cellOKop_eq (ig : Ign) (cfg : Cfg Gen.Cls) (s : S) (μ : Mode) (n : Nat) :
    cellOKop ig cfg s μ (lk (cfg.dflt s) (cfg.rows s) n) n = cellOK ig cfg s μ n := by
  have : lk (cfg.dflt s) (cfg.rows s) n = lookupF cfg s n := by rw [lookupF_eq]; rfl
  rw [this, ← cellOKF_eq]
  rfl

noncomputable def retCheckW (ig : Ign) (cfg : Cfg Gen.Cls) : Bool :=
  allS.all fun s => ascending ((cfg.rows s).map (·.1)) && (rho s).all fun μ =>
    walk (cellOKop ig cfg s μ) (cfg.dflt s) codesAsc (cfg.rows s) && eofOK2 ig cfg s μ

theorem retCheckW_sound (ig : Ign) (cfg : Cfg Gen.Cls) (h : retCheckW ig cfg = true) : retCheck ig cfg = true := by
  simp only [retCheck, List.all_eq_true, Bool.and_eq_true]
  intro s hs μ hμ
  have h1 := (List.all_eq_true.mp h) s hs
  simp only [Bool.and_eq_true, List.all_eq_true] at h1
  obtain ⟨hasc, hall⟩ := h1
  obtain ⟨hw, he⟩ := hall μ hμ
  refine ⟨fun n hn => ?_, he⟩
  rw [← cellOKop_eq]
  exact walk_sound _ _ codesAsc (cfg.rows s) codesAsc_asc hasc hw n (mem_codesAsc hn)

end Lex
