import MsqProofs.Lemmas.TSelect0
/-!
# T-parse for the SELECT skeleton: one lemma per clause parser (C03 / C01)

Every lemma has the shape `OkAt (fun f => parser d f (clause tokens ++ fol)) bound (value, fol)` for every continuation `fol` that may
follow the clause (`Bd d k fol`, or what the list tails need: `,`).  Expression positions use `C02.tparse` (unwrapped) or the level
tower at bound 8 (`GROUP BY` / `ORDER BY` keys); lists are inductions on the list with the accumulator general.
-/
set_option linter.unusedVariables false
set_option linter.unusedSimpArgs false
set_option maxHeartbeats 1000000
open Lex PM Ast TP
namespace TS
variable {d : Gen.D}

/-! ### what `Bd` gives -/
theorem bd_parts {k : Nat} {t : Tok} (h : bdTok d k t = true) :
    stopTok d 14 t = true ∧ (t.has NAME = false ∨ up t.src = "CROSS") ∧ t.has PAREN = false ∧ k < rank (up t.src) := by
  simp only [bdTok, Bool.and_eq_true, Bool.or_eq_true, Bool.not_eq_true', beq_iff_eq, decide_eq_true_eq] at h
  exact ⟨h.1.1.1, h.1.1.2, h.1.2, h.2⟩
theorem bd_mono {k k' : Nat} {rest : List Tok} (h : Bd d k rest = true) (hk : k' ≤ k) : Bd d k' rest = true := by
  cases rest with
  | nil => rfl
  | cons t r =>
    simp only [Bd, bdTok, Bool.and_eq_true, decide_eq_true_eq] at h ⊢
    exact ⟨h.1, by omega⟩
theorem bd_stops {k : Nat} {rest : List Tok} (h : Bd d k rest = true) : stops d rest = true := by
  cases rest with
  | nil => rfl
  | cons t r => exact (bd_parts h).1
/-- the head is not a word a parser of rank `≤ k` looks for -/
theorem bd_search {k : Nat} {rest : List Tok} (h : Bd d k rest = true) (w : String) (hw : rank w ≤ k) : searchStrUp rest w = false := by
  cases rest with
  | nil => rfl
  | cons t r =>
    have := (bd_parts h).2.2.2
    simp only [searchStrUp, Tok.srcEqUp, beq_eq_false_iff_ne, ne_eq]
    intro he; rw [he] at this; omega
theorem bd_search2 {k : Nat} {rest : List Tok} (h : Bd d k rest = true) (a b : String) (hw : rank a ≤ k) : searchTwoUp rest a b = false := by
  have := bd_search h a hw
  rcases rest with _ | ⟨x, _ | ⟨y, r⟩⟩ <;> simp_all [searchTwoUp, searchStrUp]
theorem bd_comma {k : Nat} {rest : List Tok} (h : Bd d k rest = true) : searchStr rest "," = false := by
  cases rest with
  | nil => rfl
  | cons t r =>
    have := (bd_parts h).2.2.2
    simp only [searchStr, Tok.srcEq, beq_eq_false_iff_ne, ne_eq]
    intro he
    have hu : up "," = "," := by decide
    rw [he, hu] at this
    have hr : rank "," = 0 := by decide
    omega
theorem bd_alias {k : Nat} {rest : List Tok} (h : Bd d k rest = true) : pAlias rest = .ok (none, rest) := by
  have hr0 : rank "AS" = 0 := by decide
  have hs := bd_search h "AS" (by omega)
  unfold pAlias
  cases rest with
  | nil => simp [hs]
  | cons t r =>
    simp only [hs, Bool.false_eq_true, if_false]
    rcases (bd_parts h).2.1 with hn | hc
    · simp [hn]
    · simp [hc]
theorem bd_joinHead {k : Nat} {rest : List Tok} (h : Bd d k rest = true) (hk : 2 ≤ k) : joinHead rest = false := by
  cases rest with
  | nil => rfl
  | cons t r =>
    have := (bd_parts h).2.2.2
    simp only [PM.joinHead]
    cases hc : ["JOIN", "INNER", "LEFT", "RIGHT", "FULL", "CROSS"].contains (up t.src) with
    | false => rfl
    | true =>
      simp only [List.contains_cons, List.contains_nil, Bool.or_false, Bool.or_eq_true, beq_iff_eq] at hc
      have r1 : rank "JOIN" = 2 := by decide
      have r2 : rank "INNER" = 2 := by decide
      have r3 : rank "LEFT" = 2 := by decide
      have r4 : rank "RIGHT" = 2 := by decide
      have r5 : rank "FULL" = 2 := by decide
      have r6 : rank "CROSS" = 2 := by decide
      rcases hc with hc | hc | hc | hc | hc | hc <;> (rw [hc] at this; omega)
theorem bd_onUsing {k : Nat} {rest : List Tok} (h : Bd d k rest = true) : onUsingHead rest = false := by
  cases rest with
  | nil => rfl
  | cons t r =>
    have := (bd_parts h).2.2.2
    simp only [PM.onUsingHead]
    cases hc : ["ON", "USING"].contains (up t.src) with
    | false => rfl
    | true =>
      simp only [List.contains_cons, List.contains_nil, Bool.or_false, Bool.or_eq_true, beq_iff_eq] at hc
      have r1 : rank "ON" = 0 := by decide
      have r2 : rank "USING" = 0 := by decide
      rcases hc with hc | hc <;> (rw [hc] at this; omega)
theorem stops_notDot {rest : List Tok} (h : stops d rest = true) : searchStr rest "." = false := by
  cases rest with
  | nil => rfl
  | cons t r =>
    have := (stop_parts d h).1
    simp only [stopsE, Bool.and_eq_true, Bool.not_eq_true'] at this
    simpa [searchStr] using this.2

/-! ### the list separator -/
theorem comma_stops (x : List Tok) : stops d (commaTok :: x) = true := by
  show stopTok d 14 commaTok = true
  cases d <;> decide
theorem comma_alias (x : List Tok) : pAlias (commaTok :: x) = .ok (none, commaTok :: x) := by
  have h1 : searchStrUp (commaTok :: x) "AS" = false := by
    have : commaTok.srcEqUp "AS" = false := by decide
    simpa [searchStrUp] using this
  have h2 : commaTok.has NAME = false := by decide
  unfold pAlias
  simp [h1, h2]
theorem comma_search (x : List Tok) : searchStr (commaTok :: x) "," = true := by
  have : commaTok.srcEq "," = true := by decide
  simpa [searchStr] using this
/-- a continuation that may follow a list element: the separator, or what follows the list -/
structure Fol (d : Gen.D) (fol : List Tok) : Prop where
  stops : stops d fol = true
  alias : pAlias fol = .ok (none, fol)
theorem Fol.ofBd {k : Nat} {fol : List Tok} (h : Bd d k fol = true) : Fol d fol := ⟨bd_stops h, bd_alias h⟩
theorem Fol.comma (x : List Tok) : Fol d (commaTok :: x) := ⟨comma_stops x, comma_alias x⟩

/-! ### aliases and select items -/
theorem alias_some (a : String) (h : aliasOK a = true) (fol : List Tok) : pAlias (opTok "AS" :: opTok a :: fol) = .ok (some a, fol) := by
  simp only [aliasOK, Bool.and_eq_true, beq_iff_eq] at h
  have h1 : searchStrUp (opTok "AS" :: opTok a :: fol) "AS" = true := by
    have : (opTok "AS").srcEqUp "AS" = true := by decide
    simpa [searchStrUp] using this
  unfold pAlias
  simp [h1, h.1.1, h.1.2]
theorem as_stops (x : List Tok) : stops d (opTok "AS" :: x) = true := by
  show stopTok d 14 (opTok "AS") = true
  cases d <;> decide
theorem alias_any (a : Option String) (h : optAliasOK a = true) (fol : List Tok) (hf : Fol d fol) :
    pAlias (aliasToks a ++ fol) = .ok (a, fol) ∧ stops d (aliasToks a ++ fol) = true ∧ searchStr (aliasToks a ++ fol) "." = false := by
  cases a with
  | none => exact ⟨hf.alias, hf.stops, stops_notDot hf.stops⟩
  | some a => exact ⟨alias_some a h fol, as_stops (d := d) _, stops_notDot (as_stops (d := d) _)⟩

theorem selectCol (c : Expr × Option String) (hc : colOKS d c = true) (fol : List Tok) (hf : Fol d fol) :
    OkAt (fun f => pSelectCol d f (toksCol d c ++ fol)) (20 * sizeL (toksCol d c) + 16) (c, fol) := by
  obtain ⟨e, a⟩ := c
  simp only [colOKS, Bool.and_eq_true] at hc
  obtain ⟨ha, hs, _⟩ := alias_any a hc.2 fol hf
  intro f hf'
  simp only [toksCol, sizeL_append] at hf'
  obtain ⟨g, rfl⟩ : ∃ g, f = g + 1 := ⟨f - 1, by omega⟩
  have h1 : pOr d g (toksE d noX e ++ (aliasToks a ++ fol)) = .ok (e, aliasToks a ++ fol) :=
    C02.tparse d noX e hc.1 _ hs g (by omega)
  show pSelectCol d (g + 1) (toksCol d (e, a) ++ fol) = _
  unfold pSelectCol
  simp only [toksCol, List.append_assoc, h1, ha]

theorem colsTail_shape (cs : List (Expr × Option String)) : toksColsTail d cs = [] ∨ ∃ x, toksColsTail d cs = commaTok :: x := by
  cases cs with
  | nil => exact Or.inl rfl
  | cons c cs => exact Or.inr ⟨_, rfl⟩
theorem Fol.tail {tl fol : List Tok} (h : tl = [] ∨ ∃ x, tl = commaTok :: x) (hf : Fol d fol) : Fol d (tl ++ fol) := by
  rcases h with rfl | ⟨x, rfl⟩
  · exact hf
  · exact Fol.comma _

theorem selectCols (fol : List Tok) (hf : Fol d fol) (hc : searchStr fol "," = false) :
    ∀ (cs : List (Expr × Option String)), (∀ c ∈ cs, colOKS d c = true) → ∀ acc,
    OkAt (fun f => pSelectCols d f acc (toksColsTail d cs ++ fol)) (20 * sizeL (toksColsTail d cs) + 17) (acc ++ cs, fol) := by
  intro cs
  induction cs with
  | nil =>
    intro _ acc f hf'
    obtain ⟨g, rfl⟩ : ∃ g, f = g + 1 := ⟨f - 1, by omega⟩
    simp [toksColsTail, pSelectCols, hc]
  | cons c cs ih =>
    intro hcs acc f hf'
    simp only [toksColsTail, sizeL_cons, sizeL_append] at hf'
    have hsz : commaTok.size = 1 := by decide
    obtain ⟨g, rfl⟩ : ∃ g, f = g + 1 := ⟨f - 1, by omega⟩
    have h1 : pSelectCol d g (toksCol d c ++ (toksColsTail d cs ++ fol)) = .ok (c, toksColsTail d cs ++ fol) :=
      selectCol c (hcs c (by simp)) _ (Fol.tail (colsTail_shape cs) hf) g (by omega)
    have h2 := ih (fun c' hc' => hcs c' (by simp [hc'])) (acc ++ [c]) g (by omega)
    show pSelectCols d (g + 1) acc (toksColsTail d (c :: cs) ++ fol) = _
    unfold pSelectCols
    simp only [toksColsTail, List.cons_append, List.append_assoc, comma_search, if_true, List.drop_succ_cons, List.drop_zero, h1]
    simpa using h2


/-! ### tables and FROM -/
theorem isOkNone_eq {r : Except Err (Option String × String)} {n : String} (h : isOkNone r n = true) : r = .ok (none, n) := by
  unfold isOkNone at h
  split at h
  · simp only [beq_iff_eq] at h; subst h; rfl
  · cases h
theorem nameTok_name (n : String) : (nameTok n).has NAME = true := by simp [nameTok, Tok.has, Tok.marks]; decide
theorem nameTok_paren (n : String) : (nameTok n).has PAREN = false := by simp [nameTok, Tok.has, Tok.marks]; decide

theorem fromTable (t : FromTable) (ht : tableOK t = true) (fol : List Tok) (hf : Fol d fol) :
    OkAt (fun f => pFromTable d f (toksTable t ++ fol)) 2 (t, fol) := by
  obtain ⟨tr, a⟩ := t
  cases tr with
  | sub q => simp [tableOK] at ht
  | table sch n =>
    cases sch with
    | some s => simp [tableOK] at ht
    | none =>
      simp only [tableOK, Bool.and_eq_true] at ht
      have hsp := isOkNone_eq ht.1
      obtain ⟨ha, _, hdot⟩ := alias_any a ht.2 fol hf
      intro f hf'
      obtain ⟨g, rfl⟩ : ∃ g, f = g + 2 := ⟨f - 2, by omega⟩
      show pFromTable d (g + 2) (nameTok n :: (aliasToks a ++ fol)) = _
      unfold pFromTable pTableExpr
      have hc : (nameTok n).children = [] := rfl
      simp only [headChildren, hc, startsSelect, searchSetUp, Bool.false_eq_true, if_false, searchMark, nameTok_paren]
      unfold pTableName
      simp only [nameTok_name, Bool.not_true, Bool.false_eq_true, if_false, hdot, hsp, ha]

theorem tablesTail_shape (ts : List FromTable) : toksTablesTail ts = [] ∨ ∃ x, toksTablesTail ts = commaTok :: x := by
  cases ts with
  | nil => exact Or.inl rfl
  | cons c cs => exact Or.inr ⟨_, rfl⟩
theorem fromTables (fol : List Tok) (hf : Fol d fol) (hc : searchStr fol "," = false) :
    ∀ (ts : List FromTable), (∀ t ∈ ts, tableOK t = true) → ∀ acc,
    OkAt (fun f => pFromTables d f acc (toksTablesTail ts ++ fol)) (ts.length + 3) (acc ++ ts, fol) := by
  intro ts
  induction ts with
  | nil =>
    intro _ acc f hf'
    obtain ⟨g, rfl⟩ : ∃ g, f = g + 1 := ⟨f - 1, by omega⟩
    simp [toksTablesTail, pFromTables, hc]
  | cons t ts ih =>
    intro hts acc f hf'
    simp only [List.length_cons] at hf'
    obtain ⟨g, rfl⟩ : ∃ g, f = g + 1 := ⟨f - 1, by omega⟩
    have h1 : pFromTable d g (toksTable t ++ (toksTablesTail ts ++ fol)) = .ok (t, toksTablesTail ts ++ fol) :=
      fromTable t (hts t (by simp)) _ (Fol.tail (tablesTail_shape ts) hf) g (by omega)
    have h2 := ih (fun c' hc' => hts c' (by simp [hc'])) (acc ++ [t]) g (by omega)
    show pFromTables d (g + 1) acc (toksTablesTail (t :: ts) ++ fol) = _
    unfold pFromTables
    simp only [toksTablesTail, List.cons_append, List.append_assoc, comma_search, if_true, List.drop_succ_cons, List.drop_zero, h1]
    simpa using h2

theorem fromOpt (fr : Option (List FromTable)) (hfr : fromOK fr = true) (fol : List Tok) (hb : Bd d 1 fol = true) :
    OkAt (fun f => pFromOpt d f (toksFrom fr ++ fol)) ((fr.getD []).length + 4) (fr, fol) := by
  have hf := Fol.ofBd hb
  have hr1 : rank "FROM" = 1 := by decide
  cases fr with
  | none =>
    intro f hf'
    obtain ⟨g, rfl⟩ : ∃ g, f = g + 1 := ⟨f - 1, by omega⟩
    simp [toksFrom, pFromOpt, bd_search hb "FROM" (by omega)]
  | some l =>
    cases l with
    | nil => simp [fromOK] at hfr
    | cons t ts =>
      simp only [fromOK, Bool.and_eq_true, List.all_eq_true] at hfr
      intro f hf'
      simp only [Option.getD_some, List.length_cons] at hf'
      obtain ⟨g, rfl⟩ : ∃ g, f = g + 1 := ⟨f - 1, by omega⟩
      have h1 : pFromTable d g (toksTable t ++ (toksTablesTail ts ++ fol)) = .ok (t, toksTablesTail ts ++ fol) :=
        fromTable t hfr.1 _ (Fol.tail (tablesTail_shape ts) hf) g (by omega)
      have h2 := fromTables fol hf (bd_comma hb) ts hfr.2 [t] g (by omega)
      have hs : searchStrUp (opTok "FROM" :: (toksTable t ++ (toksTablesTail ts ++ fol))) "FROM" = true := by
        have : (opTok "FROM").srcEqUp "FROM" = true := by decide
        simpa [searchStrUp] using this
      show pFromOpt d (g + 1) (toksFrom (some (t :: ts)) ++ fol) = _
      unfold pFromOpt
      simp only [toksFrom, List.cons_append, List.append_assoc, hs, if_true, List.drop_succ_cons, List.drop_zero, h1]
      simp only [h2]; rfl


/-! ### JOINs -/
theorem searchSeq_app (t : Tok) (r : List Tok) : ∀ (ks : List String) (a : List Tok), (∀ k ∈ ks, t.equalsStr k = false) →
    searchSeq (a ++ t :: r) ks = (decide (ks.length ≤ a.length) && searchSeq a ks) := by
  intro ks
  induction ks with
  | nil => intro a _; simp [searchSeq]
  | cons k ks ih =>
    intro a h
    cases a with
    | nil => simp [searchSeq, h k (by simp)]
    | cons x a =>
      simp only [List.cons_append, searchSeq, ih a (fun k' hk' => h k' (by simp [hk'])), List.length_cons, Nat.add_le_add_iff_right]
      cases x.equalsStr k <;> cases decide (ks.length ≤ a.length) <;> simp
theorem firstEnum_app (t : Tok) (r : List Tok) (a : List Tok) : ∀ (tbl : List (String × List String)),
    (∀ e ∈ tbl, ∀ k ∈ e.2, t.equalsStr k = false) →
    firstEnum tbl (a ++ t :: r) = (firstEnumA tbl a).map (fun p => (p.1, (a ++ t :: r).drop p.2)) := by
  intro tbl
  induction tbl with
  | nil => intro _; rfl
  | cons e tbl ih =>
    intro h
    obtain ⟨n, ks⟩ := e
    simp only [firstEnum, firstEnumA, searchSeq_app t r ks a (h (n, ks) (by simp))]
    split
    · rfl
    · exact ih (fun e he => h e (by simp [he]))
theorem up_nameTok_head (n : String) : (up (nameTok n).src).toList.head? = some '`' := by
  simp [up, Gen.pyUpperS, String.toList_ofList, toList_src_nameTok, pyUpper_bq]
theorem nameTok_noJoinWord (n : String) : ∀ e ∈ Gen.joinTypes, ∀ k ∈ e.2, (nameTok n).equalsStr k = false := by
  have hall : Gen.joinTypes.all (fun e => e.2.all (fun k => (up k).toList.head? != some '`')) = true := by decide
  intro e he k hk
  have hk' : ((up k).toList.head? != some '`') = true := by
    simp only [List.all_eq_true] at hall
    exact hall e he k hk
  have hsrc : (nameTok n).equalsStr k = (up (nameTok n).src == up k) := rfl
  rw [hsrc, beq_eq_false_iff_ne]
  exact ne_of_head (up_nameTok_head n) hk'

theorem on_fol (x : List Tok) : Fol d (opTok "ON" :: x) := by
  refine ⟨?_, ?_⟩
  · show stopTok d 14 (opTok "ON") = true
    cases d <;> decide
  · have h1 : searchStrUp (opTok "ON" :: x) "AS" = false := by
      have : (opTok "ON").srcEqUp "AS" = false := by decide
      simpa [searchStrUp] using this
    have h2 : (opTok "ON").has NAME = false := by decide
    unfold pAlias
    simp [h1, h2]

theorem joinTy_parts {ty : String} (h : joinTyOK d ty = true) :
    firstEnumA Gen.joinTypes (joinWords ty) = some (ty, (joinWords ty).length) ∧
    ∃ t ws, joinWords ty = t :: ws ∧ bdTok d 1 t = true ∧ PM.joinHead [t] = true := by
  simp only [joinTyOK, Bool.and_eq_true] at h
  obtain ⟨h1, h2⟩ := h
  refine ⟨?_, ?_⟩
  · split at h1
    · rename_i n k hk
      simp only [Bool.and_eq_true, beq_iff_eq] at h1
      rw [hk, h1.1, h1.2]
    · cases h1
  · split at h2
    · rename_i t ws hw
      simp only [Bool.and_eq_true] at h2
      exact ⟨t, ws, hw, h2.1, h2.2⟩
    · cases h2

theorem join (j : Join) (hj : joinOK d j = true) (fol : List Tok) (hb : Bd d 1 fol = true) :
    OkAt (fun f => pJoin d f (toksJoin d j ++ fol)) (20 * sizeL (toksJoin d j) + 20) (j, fol) := by
  obtain ⟨ty, t, rule⟩ := j
  simp only [joinOK, Bool.and_eq_true] at hj
  obtain ⟨⟨hty, ht⟩, hrule⟩ := hj
  obtain ⟨hfe, _⟩ := joinTy_parts hty
  obtain ⟨tr, a⟩ := t
  have hfirst : firstEnum Gen.joinTypes (joinWords ty ++ (nameTok (tblName tr) :: (aliasToks a ++ (toksRule d rule ++ fol)))) =
      some (ty, nameTok (tblName tr) :: (aliasToks a ++ (toksRule d rule ++ fol))) := by
    rw [firstEnum_app _ _ _ _ (nameTok_noJoinWord _), hfe]
    simp
  have hfolr : Fol d (toksRule d rule ++ fol) := by
    cases rule with
    | none => exact Fol.ofBd hb
    | some r => cases r with
      | on e => exact on_fol _
      | «using» u => simp [ruleOK] at hrule
  intro f hf'
  obtain ⟨g, rfl⟩ : ∃ g, f = g + 2 := ⟨f - 2, by omega⟩
  have h1 : pFromTable d (g + 1) (toksTable (.mk tr a) ++ (toksRule d rule ++ fol)) = .ok (.mk tr a, toksRule d rule ++ fol) :=
    fromTable _ ht _ hfolr (g + 1) (by omega)
  show pJoin d (g + 2) (toksJoin d (.mk ty (.mk tr a) rule) ++ fol) = _
  unfold pJoin
  simp only [toksJoin, toksTable, List.append_assoc, List.cons_append, hfirst]
  simp only [toksTable, List.cons_append] at h1
  simp only [h1]
  unfold pJoinRule
  cases rule with
  | none => simp [toksRule, bd_onUsing hb]
  | some r =>
    cases r with
    | «using» u => simp [ruleOK] at hrule
    | on e =>
      simp only [ruleOK] at hrule
      have ho : onUsingHead (opTok "ON" :: (toksE d noX e ++ fol)) = true := by
        have : ["ON", "USING"].contains (up (opTok "ON").src) = true := by decide
        simpa [onUsingHead] using this
      have hs : searchStrUp (opTok "ON" :: (toksE d noX e ++ fol)) "ON" = true := by
        have : (opTok "ON").srcEqUp "ON" = true := by decide
        simpa [searchStrUp] using this
      have h2 : pOr d g (toksE d noX e ++ fol) = .ok (e, fol) := by
        apply C02.tparse d noX e hrule fol (bd_stops hb) g
        simp only [toksJoin, toksRule, sizeL_append, sizeL_cons] at hf'
        omega
      simp [toksRule, ho, hs, h2]

theorem joins_bd (js : List Join) (hjs : ∀ j ∈ js, joinOK d j = true) (fol : List Tok) (hb : Bd d 2 fol = true) :
    Bd d 1 (toksJoins d js ++ fol) = true ∧ (js ≠ [] → PM.joinHead (toksJoins d js ++ fol) = true) := by
  cases js with
  | nil => exact ⟨bd_mono hb (by omega), fun h => absurd rfl h⟩
  | cons j js =>
    obtain ⟨ty, t, rule⟩ := j
    have := hjs (.mk ty t rule) (by simp)
    simp only [joinOK, Bool.and_eq_true] at this
    obtain ⟨_, t0, ws, hw, hbd, hjh⟩ := joinTy_parts this.1.1
    refine ⟨?_, fun _ => ?_⟩
    · simp only [toksJoins, toksJoin, hw, List.cons_append, Bd]; exact hbd
    · simp only [toksJoins, toksJoin, hw, List.cons_append]
      simpa [PM.joinHead] using hjh

theorem sizeL_toksJoin_pos (j : Join) : 1 ≤ sizeL (toksJoin d j) := by
  obtain ⟨ty, ⟨tr, a⟩, rule⟩ := j
  simp only [toksJoin, toksTable, sizeL_append, sizeL_cons, nameTok, Tok.size]; omega

theorem joins (fol : List Tok) (hb : Bd d 2 fol = true) :
    ∀ (js : List Join), (∀ j ∈ js, joinOK d j = true) → ∀ acc,
    OkAt (fun f => pJoins d f true [] acc (toksJoins d js ++ fol)) (20 * sizeL (toksJoins d js) + 22) (acc ++ js, fol) := by
  intro js
  induction js with
  | nil =>
    intro _ acc f hf'
    obtain ⟨g, rfl⟩ : ∃ g, f = g + 1 := ⟨f - 1, by omega⟩
    simp [toksJoins, pJoins, bd_joinHead hb (by omega)]
  | cons j js ih =>
    intro hjs acc f hf'
    simp only [toksJoins, sizeL_append] at hf'
    obtain ⟨g, rfl⟩ : ∃ g, f = g + 1 := ⟨f - 1, by omega⟩
    have hjs' : ∀ j' ∈ js, joinOK d j' = true := fun j' hj' => hjs j' (by simp [hj'])
    have hnext := (joins_bd js hjs' fol hb).1
    have h1 : pJoin d g (toksJoin d j ++ (toksJoins d js ++ fol)) = .ok (j, toksJoins d js ++ fol) :=
      join j (hjs j (by simp)) _ hnext g (by omega)
    have h2 := ih hjs' (acc ++ [j]) g (by have := sizeL_toksJoin_pos (d := d) j; omega)
    have hh := (joins_bd (j :: js) hjs fol hb).2 (by simp)
    show pJoins d (g + 1) true [] acc (toksJoins d (j :: js) ++ fol) = _
    unfold pJoins
    simp only [if_true, hh]
    simp only [toksJoins, List.append_assoc] at h1 ⊢
    simp only [h1]
    simpa using h2

end TS
