import MsqProofs.Lemmas.TSelect0
/-!
# T-parse for the SELECT skeleton: one lemma per clause parser (C03 / C01)

Every lemma has the shape `OkAt (fun f => parser d f (clause tokens ++ fol)) bound (value, fol)` for every continuation `fol` that may
follow the clause (`Bd d k fol`, or what the list tails need: `,`).  Expression positions use `C02.tparse` (unwrapped) or the level
tower at bound 8 (`GROUP BY` / `ORDER BY` keys); lists are inductions on the list with the accumulator general.
-/
set_option linter.unusedVariables false
set_option linter.unusedSimpArgs false
set_option maxHeartbeats 1000000
open Lex PM Ast TP
namespace TS
variable {d : Gen.D}

/-! ### what `Bd` gives -/
theorem bd_parts {k : Nat} {t : Tok} (h : bdTok d k t = true) :
    stopTok d 14 t = true ∧ (t.has NAME = false ∨ up t.src = "CROSS") ∧ t.has PAREN = false ∧ k < rank (up t.src) := by
  simp only [bdTok, Bool.and_eq_true, Bool.or_eq_true, Bool.not_eq_true', beq_iff_eq, decide_eq_true_eq] at h
  exact ⟨h.1.1.1, h.1.1.2, h.1.2, h.2⟩
theorem bd_mono {k k' : Nat} {rest : List Tok} (h : Bd d k rest = true) (hk : k' ≤ k) : Bd d k' rest = true := by
  cases rest with
  | nil => rfl
  | cons t r =>
    simp only [Bd, bdTok, Bool.and_eq_true, decide_eq_true_eq] at h ⊢
    exact ⟨h.1, by omega⟩
theorem bd_stops {k : Nat} {rest : List Tok} (h : Bd d k rest = true) : stops d rest = true := by
  cases rest with
  | nil => rfl
  | cons t r => exact (bd_parts h).1
/-- the head is not a word a parser of rank `≤ k` looks for -/
theorem bd_search {k : Nat} {rest : List Tok} (h : Bd d k rest = true) (w : String) (hw : rank w ≤ k) : searchStrUp rest w = false := by
  cases rest with
  | nil => rfl
  | cons t r =>
    have := (bd_parts h).2.2.2
    simp only [searchStrUp, Tok.srcEqUp, beq_eq_false_iff_ne, ne_eq]
    intro he; rw [he] at this; omega
theorem bd_search2 {k : Nat} {rest : List Tok} (h : Bd d k rest = true) (a b : String) (hw : rank a ≤ k) : searchTwoUp rest a b = false := by
  have := bd_search h a hw
  rcases rest with _ | ⟨x, _ | ⟨y, r⟩⟩ <;> simp_all [searchTwoUp, searchStrUp]
theorem bd_comma {k : Nat} {rest : List Tok} (h : Bd d k rest = true) : searchStr rest "," = false := by
  cases rest with
  | nil => rfl
  | cons t r =>
    have := (bd_parts h).2.2.2
    simp only [searchStr, Tok.srcEq, beq_eq_false_iff_ne, ne_eq]
    intro he
    have hu : up "," = "," := by decide
    rw [he, hu] at this
    have hr : rank "," = 0 := by decide
    omega
theorem bd_alias {k : Nat} {rest : List Tok} (h : Bd d k rest = true) : pAlias rest = .ok (none, rest) := by
  have hr0 : rank "AS" = 0 := by decide
  have hs := bd_search h "AS" (by omega)
  unfold pAlias
  cases rest with
  | nil => simp [hs]
  | cons t r =>
    simp only [hs, Bool.false_eq_true, if_false]
    rcases (bd_parts h).2.1 with hn | hc
    · simp [hn]
    · simp [hc]
theorem bd_joinHead {k : Nat} {rest : List Tok} (h : Bd d k rest = true) (hk : 2 ≤ k) : joinHead rest = false := by
  cases rest with
  | nil => rfl
  | cons t r =>
    have := (bd_parts h).2.2.2
    simp only [PM.joinHead]
    cases hc : ["JOIN", "INNER", "LEFT", "RIGHT", "FULL", "CROSS"].contains (up t.src) with
    | false => rfl
    | true =>
      simp only [List.contains_cons, List.contains_nil, Bool.or_false, Bool.or_eq_true, beq_iff_eq] at hc
      have r1 : rank "JOIN" = 2 := by decide
      have r2 : rank "INNER" = 2 := by decide
      have r3 : rank "LEFT" = 2 := by decide
      have r4 : rank "RIGHT" = 2 := by decide
      have r5 : rank "FULL" = 2 := by decide
      have r6 : rank "CROSS" = 2 := by decide
      rcases hc with hc | hc | hc | hc | hc | hc <;> (rw [hc] at this; omega)
theorem bd_onUsing {k : Nat} {rest : List Tok} (h : Bd d k rest = true) : onUsingHead rest = false := by
  cases rest with
  | nil => rfl
  | cons t r =>
    have := (bd_parts h).2.2.2
    simp only [PM.onUsingHead]
    cases hc : ["ON", "USING"].contains (up t.src) with
    | false => rfl
    | true =>
      simp only [List.contains_cons, List.contains_nil, Bool.or_false, Bool.or_eq_true, beq_iff_eq] at hc
      have r1 : rank "ON" = 0 := by decide
      have r2 : rank "USING" = 0 := by decide
      rcases hc with hc | hc <;> (rw [hc] at this; omega)
theorem stops_notDot {rest : List Tok} (h : stops d rest = true) : searchStr rest "." = false := by
  cases rest with
  | nil => rfl
  | cons t r =>
    have := (stop_parts d h).1
    simp only [stopsE, Bool.and_eq_true, Bool.not_eq_true'] at this
    simpa [searchStr] using this.2

/-! ### the list separator -/
theorem comma_stops (x : List Tok) : stops d (commaTok :: x) = true := by
  show stopTok d 14 commaTok = true
  cases d <;> decide
theorem comma_alias (x : List Tok) : pAlias (commaTok :: x) = .ok (none, commaTok :: x) := by
  have h1 : searchStrUp (commaTok :: x) "AS" = false := by
    have : commaTok.srcEqUp "AS" = false := by decide
    simpa [searchStrUp] using this
  have h2 : commaTok.has NAME = false := by decide
  unfold pAlias
  simp [h1, h2]
theorem comma_search (x : List Tok) : searchStr (commaTok :: x) "," = true := by
  have : commaTok.srcEq "," = true := by decide
  simpa [searchStr] using this
/-- a continuation that may follow a list element: the separator, or what follows the list -/
structure Fol (d : Gen.D) (fol : List Tok) : Prop where
  stops : stops d fol = true
  alias : pAlias fol = .ok (none, fol)
theorem Fol.ofBd {k : Nat} {fol : List Tok} (h : Bd d k fol = true) : Fol d fol := ⟨bd_stops h, bd_alias h⟩
theorem Fol.comma (x : List Tok) : Fol d (commaTok :: x) := ⟨comma_stops x, comma_alias x⟩

/-! ### aliases and select items -/
theorem alias_some (a : String) (h : aliasOK a = true) (fol : List Tok) : pAlias (opTok "AS" :: opTok a :: fol) = .ok (some a, fol) := by
  simp only [aliasOK, Bool.and_eq_true, beq_iff_eq] at h
  have h1 : searchStrUp (opTok "AS" :: opTok a :: fol) "AS" = true := by
    have : (opTok "AS").srcEqUp "AS" = true := by decide
    simpa [searchStrUp] using this
  unfold pAlias
  simp [h1, h.1.1, h.1.2]
theorem as_stops (x : List Tok) : stops d (opTok "AS" :: x) = true := by
  show stopTok d 14 (opTok "AS") = true
  cases d <;> decide
theorem alias_any (a : Option String) (h : optAliasOK a = true) (fol : List Tok) (hf : Fol d fol) :
    pAlias (aliasToks a ++ fol) = .ok (a, fol) ∧ stops d (aliasToks a ++ fol) = true ∧ searchStr (aliasToks a ++ fol) "." = false := by
  cases a with
  | none => exact ⟨hf.alias, hf.stops, stops_notDot hf.stops⟩
  | some a => exact ⟨alias_some a h fol, as_stops (d := d) _, stops_notDot (as_stops (d := d) _)⟩

theorem selectCol (c : Expr × Option String) (hc : colOKS d c = true) (fol : List Tok) (hf : Fol d fol) :
    OkAt (fun f => pSelectCol d f (toksCol d c ++ fol)) (20 * sizeL (toksCol d c) + 16) (c, fol) := by
  obtain ⟨e, a⟩ := c
  simp only [colOKS, Bool.and_eq_true] at hc
  obtain ⟨ha, hs, _⟩ := alias_any a hc.2 fol hf
  intro f hf'
  simp only [toksCol, sizeL_append] at hf'
  obtain ⟨g, rfl⟩ : ∃ g, f = g + 1 := ⟨f - 1, by omega⟩
  have h1 : pOr d g (toksE d noX e ++ (aliasToks a ++ fol)) = .ok (e, aliasToks a ++ fol) :=
    C02.tparse d noX e hc.1 _ hs g (by omega)
  show pSelectCol d (g + 1) (toksCol d (e, a) ++ fol) = _
  unfold pSelectCol
  simp only [toksCol, List.append_assoc, h1, ha]

theorem colsTail_shape (cs : List (Expr × Option String)) : toksColsTail d cs = [] ∨ ∃ x, toksColsTail d cs = commaTok :: x := by
  cases cs with
  | nil => exact Or.inl rfl
  | cons c cs => exact Or.inr ⟨_, rfl⟩
theorem Fol.tail {tl fol : List Tok} (h : tl = [] ∨ ∃ x, tl = commaTok :: x) (hf : Fol d fol) : Fol d (tl ++ fol) := by
  rcases h with rfl | ⟨x, rfl⟩
  · exact hf
  · exact Fol.comma _

theorem selectCols (fol : List Tok) (hf : Fol d fol) (hc : searchStr fol "," = false) :
    ∀ (cs : List (Expr × Option String)), (∀ c ∈ cs, colOKS d c = true) → ∀ acc,
    OkAt (fun f => pSelectCols d f acc (toksColsTail d cs ++ fol)) (20 * sizeL (toksColsTail d cs) + 17) (acc ++ cs, fol) := by
  intro cs
  induction cs with
  | nil =>
    intro _ acc f hf'
    obtain ⟨g, rfl⟩ : ∃ g, f = g + 1 := ⟨f - 1, by omega⟩
    simp [toksColsTail, pSelectCols, hc]
  | cons c cs ih =>
    intro hcs acc f hf'
    simp only [toksColsTail, sizeL_cons, sizeL_append] at hf'
    have hsz : commaTok.size = 1 := by decide
    obtain ⟨g, rfl⟩ : ∃ g, f = g + 1 := ⟨f - 1, by omega⟩
    have h1 : pSelectCol d g (toksCol d c ++ (toksColsTail d cs ++ fol)) = .ok (c, toksColsTail d cs ++ fol) :=
      selectCol c (hcs c (by simp)) _ (Fol.tail (colsTail_shape cs) hf) g (by omega)
    have h2 := ih (fun c' hc' => hcs c' (by simp [hc'])) (acc ++ [c]) g (by omega)
    show pSelectCols d (g + 1) acc (toksColsTail d (c :: cs) ++ fol) = _
    unfold pSelectCols
    simp only [toksColsTail, List.cons_append, List.append_assoc, comma_search, if_true, List.drop_succ_cons, List.drop_zero, h1]
    simpa using h2


/-! ### tables and FROM -/
theorem isOkNone_eq {r : Except Err (Option String × String)} {n : String} (h : isOkNone r n = true) : r = .ok (none, n) := by
  unfold isOkNone at h
  split at h
  · simp only [beq_iff_eq] at h; subst h; rfl
  · cases h
theorem nameTok_name (n : String) : (nameTok n).has NAME = true := by simp [nameTok, Tok.has, Tok.marks]; decide
theorem nameTok_paren (n : String) : (nameTok n).has PAREN = false := by simp [nameTok, Tok.has, Tok.marks]; decide

theorem fromTable (t : FromTable) (ht : tableOK t = true) (fol : List Tok) (hf : Fol d fol) :
    OkAt (fun f => pFromTable d f (toksTable t ++ fol)) 2 (t, fol) := by
  obtain ⟨tr, a⟩ := t
  cases tr with
  | sub q => simp [tableOK] at ht
  | table sch n =>
    cases sch with
    | some s => simp [tableOK] at ht
    | none =>
      simp only [tableOK, Bool.and_eq_true] at ht
      have hsp := isOkNone_eq ht.1
      obtain ⟨ha, _, hdot⟩ := alias_any a ht.2 fol hf
      intro f hf'
      obtain ⟨g, rfl⟩ : ∃ g, f = g + 2 := ⟨f - 2, by omega⟩
      show pFromTable d (g + 2) (nameTok n :: (aliasToks a ++ fol)) = _
      unfold pFromTable pTableExpr
      have hc : (nameTok n).children = [] := rfl
      simp only [headChildren, hc, startsSelect, searchSetUp, Bool.false_eq_true, if_false, searchMark, nameTok_paren]
      unfold pTableName
      simp only [nameTok_name, Bool.not_true, Bool.false_eq_true, if_false, hdot, hsp, ha]

theorem tablesTail_shape (ts : List FromTable) : toksTablesTail ts = [] ∨ ∃ x, toksTablesTail ts = commaTok :: x := by
  cases ts with
  | nil => exact Or.inl rfl
  | cons c cs => exact Or.inr ⟨_, rfl⟩
theorem fromTables (fol : List Tok) (hf : Fol d fol) (hc : searchStr fol "," = false) :
    ∀ (ts : List FromTable), (∀ t ∈ ts, tableOK t = true) → ∀ acc,
    OkAt (fun f => pFromTables d f acc (toksTablesTail ts ++ fol)) (ts.length + 3) (acc ++ ts, fol) := by
  intro ts
  induction ts with
  | nil =>
    intro _ acc f hf'
    obtain ⟨g, rfl⟩ : ∃ g, f = g + 1 := ⟨f - 1, by omega⟩
    simp [toksTablesTail, pFromTables, hc]
  | cons t ts ih =>
    intro hts acc f hf'
    simp only [List.length_cons] at hf'
    obtain ⟨g, rfl⟩ : ∃ g, f = g + 1 := ⟨f - 1, by omega⟩
    have h1 : pFromTable d g (toksTable t ++ (toksTablesTail ts ++ fol)) = .ok (t, toksTablesTail ts ++ fol) :=
      fromTable t (hts t (by simp)) _ (Fol.tail (tablesTail_shape ts) hf) g (by omega)
    have h2 := ih (fun c' hc' => hts c' (by simp [hc'])) (acc ++ [t]) g (by omega)
    show pFromTables d (g + 1) acc (toksTablesTail (t :: ts) ++ fol) = _
    unfold pFromTables
    simp only [toksTablesTail, List.cons_append, List.append_assoc, comma_search, if_true, List.drop_succ_cons, List.drop_zero, h1]
    simpa using h2

theorem fromOpt (fr : Option (List FromTable)) (hfr : fromOK fr = true) (fol : List Tok) (hb : Bd d 1 fol = true) :
    OkAt (fun f => pFromOpt d f (toksFrom fr ++ fol)) ((fr.getD []).length + 4) (fr, fol) := by
  have hf := Fol.ofBd hb
  have hr1 : rank "FROM" = 1 := by decide
  cases fr with
  | none =>
    intro f hf'
    obtain ⟨g, rfl⟩ : ∃ g, f = g + 1 := ⟨f - 1, by omega⟩
    simp [toksFrom, pFromOpt, bd_search hb "FROM" (by omega)]
  | some l =>
    cases l with
    | nil => simp [fromOK] at hfr
    | cons t ts =>
      simp only [fromOK, Bool.and_eq_true, List.all_eq_true] at hfr
      intro f hf'
      simp only [Option.getD_some, List.length_cons] at hf'
      obtain ⟨g, rfl⟩ : ∃ g, f = g + 1 := ⟨f - 1, by omega⟩
      have h1 : pFromTable d g (toksTable t ++ (toksTablesTail ts ++ fol)) = .ok (t, toksTablesTail ts ++ fol) :=
        fromTable t hfr.1 _ (Fol.tail (tablesTail_shape ts) hf) g (by omega)
      have h2 := fromTables fol hf (bd_comma hb) ts hfr.2 [t] g (by omega)
      have hs : searchStrUp (opTok "FROM" :: (toksTable t ++ (toksTablesTail ts ++ fol))) "FROM" = true := by
        have : (opTok "FROM").srcEqUp "FROM" = true := by decide
        simpa [searchStrUp] using this
      show pFromOpt d (g + 1) (toksFrom (some (t :: ts)) ++ fol) = _
      unfold pFromOpt
      simp only [toksFrom, List.cons_append, List.append_assoc, hs, if_true, List.drop_succ_cons, List.drop_zero, h1]
      simp only [h2]; rfl


/-! ### JOINs -/
theorem searchSeq_app (t : Tok) (r : List Tok) : ∀ (ks : List String) (a : List Tok), (∀ k ∈ ks, t.equalsStr k = false) →
    searchSeq (a ++ t :: r) ks = (decide (ks.length ≤ a.length) && searchSeq a ks) := by
  intro ks
  induction ks with
  | nil => intro a _; simp [searchSeq]
  | cons k ks ih =>
    intro a h
    cases a with
    | nil => simp [searchSeq, h k (by simp)]
    | cons x a =>
      simp only [List.cons_append, searchSeq, ih a (fun k' hk' => h k' (by simp [hk'])), List.length_cons, Nat.add_le_add_iff_right]
      cases x.equalsStr k <;> cases decide (ks.length ≤ a.length) <;> simp
theorem firstEnum_app (t : Tok) (r : List Tok) (a : List Tok) : ∀ (tbl : List (String × List String)),
    (∀ e ∈ tbl, ∀ k ∈ e.2, t.equalsStr k = false) →
    firstEnum tbl (a ++ t :: r) = (firstEnumA tbl a).map (fun p => (p.1, (a ++ t :: r).drop p.2)) := by
  intro tbl
  induction tbl with
  | nil => intro _; rfl
  | cons e tbl ih =>
    intro h
    obtain ⟨n, ks⟩ := e
    simp only [firstEnum, firstEnumA, searchSeq_app t r ks a (h (n, ks) (by simp))]
    split
    · rfl
    · exact ih (fun e he => h e (by simp [he]))
theorem up_nameTok_head (n : String) : (up (nameTok n).src).toList.head? = some '`' := by
  simp [up, Gen.pyUpperS, String.toList_ofList, toList_src_nameTok, pyUpper_bq]
theorem nameTok_noJoinWord (n : String) : ∀ e ∈ Gen.joinTypes, ∀ k ∈ e.2, (nameTok n).equalsStr k = false := by
  have hall : Gen.joinTypes.all (fun e => e.2.all (fun k => (up k).toList.head? != some '`')) = true := by decide
  intro e he k hk
  have hk' : ((up k).toList.head? != some '`') = true := by
    simp only [List.all_eq_true] at hall
    exact hall e he k hk
  have hsrc : (nameTok n).equalsStr k = (up (nameTok n).src == up k) := rfl
  rw [hsrc, beq_eq_false_iff_ne]
  exact ne_of_head (up_nameTok_head n) hk'

theorem on_fol (x : List Tok) : Fol d (opTok "ON" :: x) := by
  refine ⟨?_, ?_⟩
  · show stopTok d 14 (opTok "ON") = true
    cases d <;> decide
  · have h1 : searchStrUp (opTok "ON" :: x) "AS" = false := by
      have : (opTok "ON").srcEqUp "AS" = false := by decide
      simpa [searchStrUp] using this
    have h2 : (opTok "ON").has NAME = false := by decide
    unfold pAlias
    simp [h1, h2]

theorem joinTy_parts {ty : String} (h : joinTyOK d ty = true) :
    firstEnumA Gen.joinTypes (joinWords ty) = some (ty, (joinWords ty).length) ∧
    ∃ t ws, joinWords ty = t :: ws ∧ bdTok d 1 t = true ∧ PM.joinHead [t] = true := by
  simp only [joinTyOK, Bool.and_eq_true] at h
  obtain ⟨h1, h2⟩ := h
  refine ⟨?_, ?_⟩
  · split at h1
    · rename_i n k hk
      simp only [Bool.and_eq_true, beq_iff_eq] at h1
      rw [hk, h1.1, h1.2]
    · cases h1
  · split at h2
    · rename_i t ws hw
      simp only [Bool.and_eq_true] at h2
      exact ⟨t, ws, hw, h2.1, h2.2⟩
    · cases h2

theorem join (j : Join) (hj : joinOK d j = true) (fol : List Tok) (hb : Bd d 1 fol = true) :
    OkAt (fun f => pJoin d f (toksJoin d j ++ fol)) (20 * sizeL (toksJoin d j) + 20) (j, fol) := by
  obtain ⟨ty, t, rule⟩ := j
  simp only [joinOK, Bool.and_eq_true] at hj
  obtain ⟨⟨hty, ht⟩, hrule⟩ := hj
  obtain ⟨hfe, _⟩ := joinTy_parts hty
  obtain ⟨tr, a⟩ := t
  have hfirst : firstEnum Gen.joinTypes (joinWords ty ++ (nameTok (tblName tr) :: (aliasToks a ++ (toksRule d rule ++ fol)))) =
      some (ty, nameTok (tblName tr) :: (aliasToks a ++ (toksRule d rule ++ fol))) := by
    rw [firstEnum_app _ _ _ _ (nameTok_noJoinWord _), hfe]
    simp
  have hfolr : Fol d (toksRule d rule ++ fol) := by
    cases rule with
    | none => exact Fol.ofBd hb
    | some r => cases r with
      | on e => exact on_fol _
      | «using» u => simp [ruleOK] at hrule
  intro f hf'
  obtain ⟨g, rfl⟩ : ∃ g, f = g + 2 := ⟨f - 2, by omega⟩
  have h1 : pFromTable d (g + 1) (toksTable (.mk tr a) ++ (toksRule d rule ++ fol)) = .ok (.mk tr a, toksRule d rule ++ fol) :=
    fromTable _ ht _ hfolr (g + 1) (by omega)
  show pJoin d (g + 2) (toksJoin d (.mk ty (.mk tr a) rule) ++ fol) = _
  unfold pJoin
  simp only [toksJoin, toksTable, List.append_assoc, List.cons_append, hfirst]
  simp only [toksTable, List.cons_append] at h1
  simp only [h1]
  unfold pJoinRule
  cases rule with
  | none => simp [toksRule, bd_onUsing hb]
  | some r =>
    cases r with
    | «using» u => simp [ruleOK] at hrule
    | on e =>
      simp only [ruleOK] at hrule
      have ho : onUsingHead (opTok "ON" :: (toksE d noX e ++ fol)) = true := by
        have : ["ON", "USING"].contains (up (opTok "ON").src) = true := by decide
        simpa [onUsingHead] using this
      have hs : searchStrUp (opTok "ON" :: (toksE d noX e ++ fol)) "ON" = true := by
        have : (opTok "ON").srcEqUp "ON" = true := by decide
        simpa [searchStrUp] using this
      have h2 : pOr d g (toksE d noX e ++ fol) = .ok (e, fol) := by
        apply C02.tparse d noX e hrule fol (bd_stops hb) g
        simp only [toksJoin, toksRule, sizeL_append, sizeL_cons] at hf'
        omega
      simp [toksRule, ho, hs, h2]

theorem joins_bd (js : List Join) (hjs : ∀ j ∈ js, joinOK d j = true) (fol : List Tok) (hb : Bd d 2 fol = true) :
    Bd d 1 (toksJoins d js ++ fol) = true ∧ (js ≠ [] → PM.joinHead (toksJoins d js ++ fol) = true) := by
  cases js with
  | nil => exact ⟨bd_mono hb (by omega), fun h => absurd rfl h⟩
  | cons j js =>
    obtain ⟨ty, t, rule⟩ := j
    have := hjs (.mk ty t rule) (by simp)
    simp only [joinOK, Bool.and_eq_true] at this
    obtain ⟨_, t0, ws, hw, hbd, hjh⟩ := joinTy_parts this.1.1
    refine ⟨?_, fun _ => ?_⟩
    · simp only [toksJoins, toksJoin, hw, List.cons_append, Bd]; exact hbd
    · simp only [toksJoins, toksJoin, hw, List.cons_append]
      simpa [PM.joinHead] using hjh

theorem sizeL_toksJoin_pos (j : Join) : 1 ≤ sizeL (toksJoin d j) := by
  obtain ⟨ty, ⟨tr, a⟩, rule⟩ := j
  simp only [toksJoin, toksTable, sizeL_append, sizeL_cons, nameTok, Tok.size]; omega

theorem joins (fol : List Tok) (hb : Bd d 2 fol = true) :
    ∀ (js : List Join), (∀ j ∈ js, joinOK d j = true) → ∀ acc,
    OkAt (fun f => pJoins d f true [] acc (toksJoins d js ++ fol)) (20 * sizeL (toksJoins d js) + 22) (acc ++ js, fol) := by
  intro js
  induction js with
  | nil =>
    intro _ acc f hf'
    obtain ⟨g, rfl⟩ : ∃ g, f = g + 1 := ⟨f - 1, by omega⟩
    simp [toksJoins, pJoins, bd_joinHead hb (by omega)]
  | cons j js ih =>
    intro hjs acc f hf'
    simp only [toksJoins, sizeL_append] at hf'
    obtain ⟨g, rfl⟩ : ∃ g, f = g + 1 := ⟨f - 1, by omega⟩
    have hjs' : ∀ j' ∈ js, joinOK d j' = true := fun j' hj' => hjs j' (by simp [hj'])
    have hnext := (joins_bd js hjs' fol hb).1
    have h1 : pJoin d g (toksJoin d j ++ (toksJoins d js ++ fol)) = .ok (j, toksJoins d js ++ fol) :=
      join j (hjs j (by simp)) _ hnext g (by omega)
    have h2 := ih hjs' (acc ++ [j]) g (by have := sizeL_toksJoin_pos (d := d) j; omega)
    have hh := (joins_bd (j :: js) hjs fol hb).2 (by simp)
    show pJoins d (g + 1) true [] acc (toksJoins d (j :: js) ++ fol) = _
    unfold pJoins
    simp only [if_true, hh]
    simp only [toksJoins, List.append_assoc] at h1 ⊢
    simp only [h1]
    simpa using h2


/-! ### WHERE / HAVING -/
theorem optOr (kw : String) (hk : (opTok kw).srcEqUp kw = true) (k : Nat) (hrk : rank kw ≤ k) (o : Option Expr) (ho : optFrag d o = true)
    (fol : List Tok) (hb : Bd d k fol = true) :
    OkAt (fun f => pOptOr d f kw (toksOpt d kw o ++ fol)) (20 * sizeL (toksOpt d kw o) + 16) (o, fol) := by
  intro f hf'
  obtain ⟨g, rfl⟩ : ∃ g, f = g + 1 := ⟨f - 1, by omega⟩
  cases o with
  | none => simp [toksOpt, pOptOr, bd_search hb kw hrk]
  | some e =>
    simp only [optFrag] at ho
    simp only [toksOpt, sizeL_cons] at hf'
    have hs : searchStrUp (opTok kw :: (toksE d noX e ++ fol)) kw = true := by simpa [searchStrUp] using hk
    have h2 : pOr d g (toksE d noX e ++ fol) = .ok (e, fol) := C02.tparse d noX e ho fol (bd_stops hb) g (by omega)
    show pOptOr d (g + 1) kw (toksOpt d kw (some e) ++ fol) = _
    unfold pOptOr
    simp [toksOpt, hs, h2]

/-! ### key lists (GROUP BY, ORDER BY): compute level, the printer's `wrap e 8` -/
theorem key8 (e : Expr) (he : Frag d e = true) (fol : List Tok) (hs : stopLE d 8 fol = true) :
    OkAt (fun f => pCompute d f (W d noX e 8 ++ fol)) (20 * sizeL (W d noX e 8) + 2) (e, fol) :=
  ((C02.rt d noX e he).at 8 (by omega)).s8 (by omega) fol hs
theorem key8_head (e : Expr) (he : Frag d e = true) : ∃ t ts', W d noX e 8 = t :: ts' := by
  obtain ⟨t, ts', h, _⟩ := (C02.rt d noX e he).headW 8
  exact ⟨t, ts', h⟩
theorem comma_stop8 (x : List Tok) : stopLE d 8 (commaTok :: x) = true := stopLE_mono (comma_stops (d := d) x) (by omega)
theorem keysTail_shape (es : List Expr) : toksKeysTail d es = [] ∨ ∃ x, toksKeysTail d es = commaTok :: x := by
  cases es with
  | nil => exact Or.inl rfl
  | cons c cs => exact Or.inr ⟨_, rfl⟩
theorem stop8_tail {tl fol : List Tok} (h : tl = [] ∨ ∃ x, tl = commaTok :: x) (hs : stopLE d 8 fol = true) : stopLE d 8 (tl ++ fol) = true := by
  rcases h with rfl | ⟨x, rfl⟩
  · exact hs
  · exact comma_stop8 _
theorem computeList (fol : List Tok) (hs : stopLE d 8 fol = true) (hc : searchStr fol "," = false) :
    ∀ (es : List Expr), (∀ e ∈ es, Frag d e = true) → ∀ acc,
    OkAt (fun f => pComputeList d f acc (toksKeysTail d es ++ fol)) (20 * sizeL (toksKeysTail d es) + 3) (acc ++ es, fol) := by
  intro es
  induction es with
  | nil =>
    intro _ acc f hf'
    obtain ⟨g, rfl⟩ : ∃ g, f = g + 1 := ⟨f - 1, by omega⟩
    simp [toksKeysTail, pComputeList, hc]
  | cons e es ih =>
    intro hes acc f hf'
    simp only [toksKeysTail, sizeL_cons, sizeL_append] at hf'
    have hsz : commaTok.size = 1 := by decide
    obtain ⟨g, rfl⟩ : ∃ g, f = g + 1 := ⟨f - 1, by omega⟩
    have h1 : pCompute d g (W d noX e 8 ++ (toksKeysTail d es ++ fol)) = .ok (e, toksKeysTail d es ++ fol) :=
      key8 e (hes e (by simp)) _ (stop8_tail (keysTail_shape es) hs) g (by omega)
    have h2 := ih (fun c' hc' => hes c' (by simp [hc'])) (acc ++ [e]) g (by omega)
    show pComputeList d (g + 1) acc (toksKeysTail d (e :: es) ++ fol) = _
    unfold pComputeList
    simp only [toksKeysTail, List.cons_append, List.append_assoc, comma_search, if_true, List.drop_succ_cons, List.drop_zero, h1]
    simpa using h2

theorem groupBy (gb : Option GroupBy) (hg : groupOK d gb = true) (fol : List Tok) (hb : Bd d 4 fol = true) :
    OkAt (fun f => pGroupBy d f (toksGroup d gb ++ fol)) (20 * sizeL (toksGroup d gb) + 6) (gb, fol) := by
  have r4 : rank "GROUP" = 4 := by decide
  have r0 : rank "GROUPING" = 0 := by decide
  have rw0 : rank "WITH" = 0 := by decide
  have hs8 : stopLE d 8 fol = true := stopLE_mono (bd_stops hb) (by omega)
  cases gb with
  | none =>
    intro f hf'
    obtain ⟨g, rfl⟩ : ∃ g, f = g + 1 := ⟨f - 1, by omega⟩
    simp [toksGroup, pGroupBy, bd_search2 hb "GROUP" "BY" (by omega)]
  | some gbv =>
    obtain ⟨cols, sets, cube, rollup⟩ := gbv
    cases cols with
    | nil => simp [groupOK] at hg
    | cons e es =>
      cases sets with
      | some l => simp [groupOK] at hg
      | none =>
        cases cube with
        | true => simp [groupOK] at hg
        | false =>
          cases rollup with
          | true => simp [groupOK] at hg
          | false =>
            simp only [groupOK, Bool.and_eq_true, List.all_eq_true, Bool.not_eq_true'] at hg
            obtain ⟨⟨he, hes⟩, hnog⟩ := hg
            intro f hf'
            simp only [toksGroup, sizeL_cons, sizeL_append, size_opTok] at hf'
            obtain ⟨g, rfl⟩ : ∃ g, f = g + 3 := ⟨f - 3, by omega⟩
            have hst : searchTwoUp (opTok "GROUP" :: opTok "BY" :: (W d noX e 8 ++ (toksKeysTail d es ++ fol))) "GROUP" "BY" = true := by
              have h1 : (opTok "GROUP").srcEqUp "GROUP" = true := by decide
              have h2 : (opTok "BY").srcEqUp "BY" = true := by decide
              simp [searchTwoUp, h1, h2]
            have hng : searchTwoUp (W d noX e 8 ++ (toksKeysTail d es ++ fol)) "GROUPING" "SETS" = false := by
              obtain ⟨t, ts', hw⟩ := key8_head e he
              rw [hw] at hnog ⊢
              have : t.srcEqUp "GROUPING" = false := by simpa [searchStrUp] using hnog
              cases hx : ts' ++ (toksKeysTail d es ++ fol) with
              | nil => simp [searchTwoUp, hx]
              | cons y r => simp [searchTwoUp, hx, this]
            have h1 : pCompute d (g + 1) (W d noX e 8 ++ (toksKeysTail d es ++ fol)) = .ok (e, toksKeysTail d es ++ fol) :=
              key8 e he _ (stop8_tail (keysTail_shape es) hs8) (g + 1) (by omega)
            have h2 := computeList fol hs8 (bd_comma hb) es hes [e] (g + 1) (by omega)
            show pGroupBy d (g + 3) (toksGroup d (some (.mk (e :: es) none false false)) ++ fol) = _
            unfold pGroupBy
            simp only [toksGroup, List.cons_append, List.append_assoc, hst, Bool.not_true, Bool.false_eq_true, if_false, List.drop_succ_cons,
              List.drop_zero]
            unfold pGroupCols
            simp only [hng, Bool.false_eq_true, if_false, h1, h2]
            unfold pGroupSetsOpt
            simp [bd_search2 hb "GROUPING" "SETS" (by omega), moveTwoUp, bd_search2 hb "WITH" "CUBE" (by omega),
              bd_search2 hb "WITH" "ROLLUP" (by omega)]

/-! ### ORDER BY -/
/-- what may follow an ORDER BY key (after its direction): no direction word, no NULLS, nothing of the compute level -/
structure OFol (d : Gen.D) (fol : List Tok) : Prop where
  desc : searchStrUp fol "DESC" = false
  asc : searchStrUp fol "ASC" = false
  nf : searchTwoUp fol "NULLS" "FIRST" = false
  nl : searchTwoUp fol "NULLS" "LAST" = false
  stop8 : stopLE d 8 fol = true
theorem OFol.ofBd {k : Nat} {fol : List Tok} (h : Bd d k fol = true) : OFol d fol := by
  have r1 : rank "DESC" = 0 := by decide
  have r2 : rank "ASC" = 0 := by decide
  have r3 : rank "NULLS" = 0 := by decide
  exact ⟨bd_search h _ (by omega), bd_search h _ (by omega), bd_search2 h _ _ (by omega), bd_search2 h _ _ (by omega),
    stopLE_mono (bd_stops h) (by omega)⟩
theorem OFol.comma (x : List Tok) : OFol d (commaTok :: x) := by
  have h1 : commaTok.srcEqUp "DESC" = false := by decide
  have h2 : commaTok.srcEqUp "ASC" = false := by decide
  have h3 : commaTok.srcEqUp "NULLS" = false := by decide
  refine ⟨by simpa [searchStrUp] using h1, by simpa [searchStrUp] using h2, ?_, ?_, comma_stop8 x⟩
  · cases x <;> simp [searchTwoUp, h3]
  · cases x <;> simp [searchTwoUp, h3]
theorem OFol.tail {tl fol : List Tok} (h : tl = [] ∨ ∃ x, tl = commaTok :: x) (hf : OFol d fol) : OFol d (tl ++ fol) := by
  rcases h with rfl | ⟨x, rfl⟩
  · exact hf
  · exact OFol.comma _
theorem desc_stop8 (x : List Tok) : stopLE d 8 (opTok "DESC" :: x) = true := by
  show stopTok d 8 (opTok "DESC") = true
  cases d <;> decide
theorem orderTail_ok (e : Expr) (desc : Bool) (fol : List Tok) (hf : OFol d fol) :
    orderTail e ((if desc then [opTok "DESC"] else []) ++ fol) = .ok (.mk e desc false false, fol) := by
  unfold orderTail
  cases desc with
  | true =>
    have h1 : searchStrUp (opTok "DESC" :: fol) "DESC" = true := by
      have : (opTok "DESC").srcEqUp "DESC" = true := by decide
      simpa [searchStrUp] using this
    simp [h1, moveTwoUp, hf.nf, hf.nl]
  | false => simp [hf.desc, hf.asc, moveTwoUp, hf.nf, hf.nl]

theorem orderItem (o : OrderItem) (ho : ordOK d o = true) (fol : List Tok) (hf : OFol d fol) :
    OkAt (fun f => pOrderItem d f (toksOrdItem d o ++ fol)) (20 * sizeL (toksOrdItem d o) + 3) (o, fol) := by
  obtain ⟨e, desc, nf, nl⟩ := o
  simp only [ordOK, Bool.and_eq_true, Bool.not_eq_true'] at ho
  obtain ⟨⟨he, hnf⟩, hnl⟩ := ho
  subst hnf; subst hnl
  intro f hf'
  simp only [toksOrdItem, sizeL_append] at hf'
  obtain ⟨g, rfl⟩ : ∃ g, f = g + 1 := ⟨f - 1, by omega⟩
  have hs : stopLE d 8 ((if desc then [opTok "DESC"] else []) ++ fol) = true := by
    cases desc with
    | true => exact desc_stop8 _
    | false => exact hf.stop8
  have h1 : pCompute d g (W d noX e 8 ++ ((if desc then [opTok "DESC"] else []) ++ fol)) =
      .ok (e, (if desc then [opTok "DESC"] else []) ++ fol) := key8 e he _ hs g (by omega)
  show pOrderItem d (g + 1) (toksOrdItem d (.mk e desc false false) ++ fol) = _
  unfold pOrderItem
  simp only [toksOrdItem, List.append_assoc, h1, orderTail_ok e desc fol hf]

theorem ordTail_shape (os : List OrderItem) : toksOrdTail d os = [] ∨ ∃ x, toksOrdTail d os = commaTok :: x := by
  cases os with
  | nil => exact Or.inl rfl
  | cons c cs => exact Or.inr ⟨_, rfl⟩
theorem orderList (fol : List Tok) (hf : OFol d fol) (hc : searchStr fol "," = false) :
    ∀ (os : List OrderItem), (∀ o ∈ os, ordOK d o = true) → ∀ acc,
    OkAt (fun f => pOrderList d f acc (toksOrdTail d os ++ fol)) (20 * sizeL (toksOrdTail d os) + 4) (acc ++ os, fol) := by
  intro os
  induction os with
  | nil =>
    intro _ acc f hf'
    obtain ⟨g, rfl⟩ : ∃ g, f = g + 1 := ⟨f - 1, by omega⟩
    simp [toksOrdTail, pOrderList, hc]
  | cons o os ih =>
    intro hos acc f hf'
    simp only [toksOrdTail, sizeL_cons, sizeL_append] at hf'
    have hsz : commaTok.size = 1 := by decide
    obtain ⟨g, rfl⟩ : ∃ g, f = g + 1 := ⟨f - 1, by omega⟩
    have h1 : pOrderItem d g (toksOrdItem d o ++ (toksOrdTail d os ++ fol)) = .ok (o, toksOrdTail d os ++ fol) :=
      orderItem o (hos o (by simp)) _ (OFol.tail (ordTail_shape os) hf) g (by omega)
    have h2 := ih (fun c' hc' => hos c' (by simp [hc'])) (acc ++ [o]) g (by omega)
    show pOrderList d (g + 1) acc (toksOrdTail d (o :: os) ++ fol) = _
    unfold pOrderList
    simp only [toksOrdTail, List.cons_append, List.append_assoc, comma_search, if_true, List.drop_succ_cons, List.drop_zero, h1]
    simpa using h2

theorem orderBy (ob : Option (List OrderItem)) (ho : orderOK d ob = true) (fol : List Tok) (hb : Bd d 6 fol = true) :
    OkAt (fun f => pOrderByOpt d f (toksOrder d ob ++ fol)) (20 * sizeL (toksOrder d ob) + 6) (ob, fol) := by
  have r6 : rank "ORDER" = 6 := by decide
  cases ob with
  | none =>
    intro f hf'
    obtain ⟨g, rfl⟩ : ∃ g, f = g + 1 := ⟨f - 1, by omega⟩
    simp [toksOrder, pOrderByOpt, bd_search2 hb "ORDER" "BY" (by omega)]
  | some l =>
    cases l with
    | nil => simp [orderOK] at ho
    | cons o os =>
      simp only [orderOK, Bool.and_eq_true, List.all_eq_true] at ho
      intro f hf'
      simp only [toksOrder, sizeL_cons, sizeL_append, size_opTok] at hf'
      obtain ⟨g, rfl⟩ : ∃ g, f = g + 1 := ⟨f - 1, by omega⟩
      have hst : searchTwoUp (opTok "ORDER" :: opTok "BY" :: (toksOrdItem d o ++ (toksOrdTail d os ++ fol))) "ORDER" "BY" = true := by
        have h1 : (opTok "ORDER").srcEqUp "ORDER" = true := by decide
        have h2 : (opTok "BY").srcEqUp "BY" = true := by decide
        simp [searchTwoUp, h1, h2]
      have hfo := OFol.ofBd hb
      have h1 : pOrderItem d g (toksOrdItem d o ++ (toksOrdTail d os ++ fol)) = .ok (o, toksOrdTail d os ++ fol) :=
        orderItem o ho.1 _ (OFol.tail (ordTail_shape os) hfo) g (by omega)
      have h2 := orderList fol hfo (bd_comma hb) os ho.2 [o] g (by omega)
      show pOrderByOpt d (g + 1) (toksOrder d (some (o :: os)) ++ fol) = _
      unfold pOrderByOpt
      simp only [toksOrder, List.cons_append, List.append_assoc, hst, if_true, List.drop_succ_cons, List.drop_zero, h1]
      simp only [h2]; rfl

/-! ### the Hive-only clauses are absent, LIMIT -/
theorem hiveClauses (fol : List Tok) {k : Nat} (hb : Bd d k fol = true) :
    OkAt (fun f => pHiveClauses d f fol) 2 ((none, none, none), fol) := by
  have r1 : rank "SORT" = 0 := by decide
  have r2 : rank "DISTRIBUTE" = 0 := by decide
  have r3 : rank "CLUSTER" = 0 := by decide
  intro f hf'
  obtain ⟨g, rfl⟩ : ∃ g, f = g + 2 := ⟨f - 2, by omega⟩
  unfold pHiveClauses pSortBy pByList
  simp [bd_search2 hb "SORT" "BY" (by omega), bd_search2 hb "DISTRIBUTE" "BY" (by omega), bd_search2 hb "CLUSTER" "BY" (by omega)]

theorem isOkInt_eq {r : Except Err Int} {n : Int} (h : isOkInt r n = true) : r = .ok n := by
  unfold isOkInt at h
  split at h
  · simp only [beq_iff_eq] at h; subst h; rfl
  · cases h
theorem limit (lm : Option (Int × Option Int)) (hl : limitOK lm = true) (fol : List Tok) (hb : Bd d 7 fol = true) :
    pLimit (toksLimit lm ++ fol) = .ok (lm, fol) := by
  have r7 : rank "LIMIT" = 7 := by decide
  have r0 : rank "OFFSET" = 0 := by decide
  have hk : (opTok "LIMIT").srcEqUp "LIMIT" = true := by decide
  cases lm with
  | none => exact C03.limit_absent _ (bd_search hb "LIMIT" (by omega))
  | some p =>
    obtain ⟨n, o⟩ := p
    cases o with
    | none =>
      simp only [limitOK, limOK, Bool.and_eq_true] at hl
      exact C03.limit_plain _ _ fol n hk (isOkInt_eq hl.2) (bd_comma hb) (bd_search hb "OFFSET" (by omega))
    | some m =>
      simp only [limitOK, limOK, Bool.and_eq_true] at hl
      have hc : commaTok.srcEq "," = true := by decide
      exact C03.limit_comma _ _ _ _ fol m n hk (isOkInt_eq hl.2.2) hc (isOkInt_eq hl.1.2)

end TS
