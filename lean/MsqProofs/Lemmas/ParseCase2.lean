import MsqProofs.Lemmas.ParseCase1
/-!
# C09, parser half — hand-written part 3: what the parser's token tests see of two case-equivalent tokens / cursors
-/
set_option linter.unusedSimpArgs false
set_option linter.unusedVariables false
set_option maxHeartbeats 1000000
open Lex Ast
namespace PM

/-- a literal the model compares a source with case-SENSITIVELY and that no case word can be: it starts with a character that is
neither a letter, a digit, `_` nor `(` -/
def isOpLit (k : String) : Bool := match k.toList with | c :: _ => !(plainCh c) && c != '(' | [] => false

/-! ### case words -/
section word
variable {s : List Char} (h : caseWord s = true)
include h
theorem caseWord_hasNonAscii : hasNonAscii (String.ofList s) = false := by
  simp only [hasNonAscii, String.toList_ofList, List.any_eq_false]
  intro c hc; have := plainCh_lt c (caseWord_all h c hc); simp; omega
theorem caseWord_dropWhile : s.dropWhile (· == '`') = s := by
  obtain ⟨c, r, rfl, hc⟩ := caseWord_head h
  have : (c == '`') = false := by simpa using plainCh_ne c '`' hc (by decide)
  simp [List.dropWhile, this]
theorem caseWord_unifyName : unifyName (String.ofList s) = String.ofList s := by
  have hr : s.reverse.dropWhile (· == '`') = s.reverse := by
    have hl : s.getLast (caseWord_ne_nil h) ≠ '`' :=
      plainCh_ne _ '`' (caseWord_all h _ (List.getLast_mem _)) (by decide)
    cases hrev : s.reverse with
    | nil => rfl
    | cons c r =>
      have : c = s.getLast (caseWord_ne_nil h) := by
        have := List.head?_reverse (l := s); rw [hrev] at this; simp at this
        rw [List.getLast?_eq_some_getLast (caseWord_ne_nil h)] at this; simpa using this
      have hl' : (s.getLast (caseWord_ne_nil h) == '`') = false := by simpa using hl
      simp [List.dropWhile, this, hl']
  simp [unifyName, String.toList_ofList, caseWord_dropWhile h, hr]
theorem caseWord_splitName : splitName (String.ofList s) = .ok (none, String.ofList s) := by
  have : s.filter (· == '.') = [] := by
    simp only [List.filter_eq_nil_iff]; intro c hc; have := plainCh_ne c '.' (caseWord_all h c hc) (by decide); simpa using this
  simp [splitName, String.toList_ofList, this, caseWord_unifyName h]
theorem caseWord_intBody : intBody s = s := by
  obtain ⟨c, r, rfl, hc⟩ := caseWord_head h
  have h1 : c ≠ '+' := plainCh_ne c '+' hc (by decide)
  have h2 : c ≠ '-' := plainCh_ne c '-' hc (by decide)
  unfold intBody; split <;> simp_all
theorem caseWord_pyInt : pyInt (String.ofList s) = .error (.py .ValueError) := by
  have hb : isAsciiIntBody s = false := by
    obtain ⟨c, r, rfl, hc⟩ := caseWord_head h
    have := (caseWord_not_digits h).1
    simp only [isAsciiIntBody, this, Bool.false_and]
  simp [pyInt, caseWord_hasNonAscii h, String.toList_ofList, caseWord_intBody h, hb]
theorem caseWord_asInt : asInt (String.ofList s) = .error .parse := by
  have hb : isIntLiteral (String.ofList s) = false := by
    simp [isIntLiteral, String.toList_ofList, caseWord_intBody h, (caseWord_not_digits h).2]
  simp [asInt, caseWord_hasNonAscii h, hb]
theorem caseWord_notOp (k : String) (hk : isOpLit k = true) : String.ofList s ≠ k := by
  rintro rfl
  obtain ⟨c, r, rfl, hc⟩ := caseWord_head h
  simp [isOpLit, String.toList_ofList, hc] at hk
end word

/-! ### the rendering of a token -/
abbrev p128 : Char → Bool := fun c => decide (c.toNat ≥ 128)
mutual
theorem ce_source : ∀ t t' : Tok, CE t t' →
    Gen.pyUpper (Tok.source t) = Gen.pyUpper (Tok.source t') ∧ (Tok.source t).any p128 = (Tok.source t').any p128
  | .single s m, .single s' m', h => by
    simp only [CE] at h
    rcases h.2 with rfl | ⟨h1, h2, h3⟩
    · exact ⟨rfl, rfl⟩
    · refine ⟨by simpa [Tok.source] using h3, ?_⟩
      have a := caseWord_hasNonAscii h1; have b := caseWord_hasNonAscii h2
      simp only [hasNonAscii, String.toList_ofList] at a b
      show (s.any fun c => decide (c.toNat ≥ 128)) = (s'.any fun c => decide (c.toNat ≥ 128))
      rw [a, b]
  | .group k cs m, .group k' cs' m', h => by
    simp only [CE] at h
    have := cel_sourceL cs cs' h.2.2.1
    have e : ∀ l : List Char, Gen.pyUpper ('(' :: (l ++ [')'])) = Gen.pyUpper ['('] ++ (Gen.pyUpper l ++ Gen.pyUpper [')']) := fun l => by
      rw [← pyUpper_append, ← pyUpper_append]; rfl
    constructor
    · simp only [Tok.source]; rw [e, e, this.1]
    · simp only [Tok.source, List.any_cons, List.any_append, this.2]
  | .single _ _, .group _ _ _, h => by simp [CE] at h
  | .group _ _ _, .single _ _, h => by simp [CE] at h
theorem cel_sourceL : ∀ ts ts' : List Tok, CEL ts ts' →
    Gen.pyUpper (sourceL ts) = Gen.pyUpper (sourceL ts') ∧ (sourceL ts).any p128 = (sourceL ts').any p128
  | [], [], _ => ⟨rfl, rfl⟩
  | t :: ts, t' :: ts', h => by
    simp only [cel_cons_cons] at h
    have a := ce_source t t' h.1; have b := cel_sourceL ts ts' h.2
    simp only [sourceL, pyUpper_append, List.any_append, a.1, a.2, b.1, b.2, and_self]
  | [], _ :: _, h => by simp at h
  | _ :: _, [], h => by simp at h
end

/-- a bracket group renders as `(`…`)`: `str.strip("`")` has nothing to strip -/
theorem unifyName_paren (l : List Char) : unifyName (String.ofList ('(' :: (l ++ [')']))) = String.ofList ('(' :: (l ++ [')'])) := by
  simp [unifyName, String.toList_ofList, List.dropWhile]

/-! ### one token -/
section tok
variable {t t' : Tok} (h : CE t t')
include h
theorem ce_marks : t.marks = t'.marks := by
  cases t <;> cases t' <;> simp_all [CE, Tok.marks]
theorem ce_has (m : Nat) : t.has m = t'.has m := by simp [Tok.has, ce_marks h]
theorem ce_up_src : up t.src = up t'.src := by
  simp only [Tok.src, up_ofList, (ce_source t t' h).1]
theorem ce_hasNonAscii : hasNonAscii t.src = hasNonAscii t'.src := by
  have := (ce_source t t' h).2
  simp only [hasNonAscii, Tok.src, String.toList_ofList]; exact this
theorem ce_srcEqUp (k : String) : t.srcEqUp k = t'.srcEqUp k := by simp [Tok.srcEqUp, ce_up_src h]
theorem ce_equalsStr (k : String) : t.equalsStr k = t'.equalsStr k := by
  have := ce_up_src h
  cases t <;> cases t' <;> simp_all [CE, Tok.equalsStr, Tok.src, Tok.source]
theorem ce_children : CEL t.children t'.children := by
  cases t <;> cases t' <;> simp_all [CE, Tok.children]
/-- the sources are the same, or both are case words (leaves), or both are bracket groups -/
theorem ce_src_cases : t.src = t'.src ∨ (∃ s s', t.src = String.ofList s ∧ t'.src = String.ofList s' ∧ caseWord s = true ∧ caseWord s' = true)
    ∨ (∃ l l', t.src = String.ofList ('(' :: (l ++ [')'])) ∧ t'.src = String.ofList ('(' :: (l' ++ [')'])) ∧ t.has NAME = false ∧ t'.has NAME = false) := by
  cases t with
  | single s m => cases t' with
    | single s' m' =>
      simp only [CE] at h
      rcases h.2 with rfl | ⟨h1, h2, _⟩
      · exact .inl rfl
      · exact .inr (.inl ⟨s, s', rfl, rfl, h1, h2⟩)
    | group _ _ _ => simp [CE] at h
  | group k cs m => cases t' with
    | single _ _ => simp [CE] at h
    | group k' cs' m' =>
      simp only [CE] at h
      rcases h.2.2.2 with hm | rfl
      · refine .inr (.inr ⟨_, _, rfl, rfl, ?_, ?_⟩) <;> simp [Tok.has, Tok.marks, ← h.2.1, hm]
      · exact .inl rfl
theorem ce_notOp (k : String) (hk : isOpLit k = true) : (t.src == k) = (t'.src == k) := by
  rcases ce_src_cases h with e | ⟨s, s', e1, e2, h1, h2⟩ | ⟨l, l', e1, e2, _, _⟩
  · rw [e]
  · have a := caseWord_notOp h1 k hk; have b := caseWord_notOp h2 k hk
    rw [e1, e2, beq_eq_false_iff_ne.mpr a, beq_eq_false_iff_ne.mpr b]
  · have a : String.ofList ('(' :: (l ++ [')'])) ≠ k := by rintro rfl; simp [isOpLit, String.toList_ofList] at hk
    have b : String.ofList ('(' :: (l' ++ [')'])) ≠ k := by rintro rfl; simp [isOpLit, String.toList_ofList] at hk
    rw [e1, e2, beq_eq_false_iff_ne.mpr a, beq_eq_false_iff_ne.mpr b]
theorem ce_srcEq (k : String) (hk : isOpLit k = true) : t.srcEq k = t'.srcEq k := by simpa [Tok.srcEq] using ce_notOp h k hk
theorem ce_contains (ks : List String) (hks : ks.all isOpLit = true) : ks.contains t.src = ks.contains t'.src := by
  induction ks with
  | nil => rfl
  | cons k ks ih =>
    simp only [List.all_cons, Bool.and_eq_true] at hks
    simp only [List.contains_cons, ce_notOp h k hks.1, ih hks.2]
theorem ce_unarySet (d : Gen.D) : (Gen.unarySet d).contains t.src = (Gen.unarySet d).contains t'.src :=
  ce_contains h _ (by cases d <;> decide)
theorem ce_compareOp : compareOp? t.src = compareOp? t'.src := by
  have : ∀ (l : List (String × String)), (l.all fun e => isOpLit e.1) = true → l.find? (·.1 == t.src) = l.find? (·.1 == t'.src) := by
    intro l hl
    induction l with
    | nil => rfl
    | cons e l ih =>
      simp only [List.all_cons, Bool.and_eq_true] at hl
      have := ce_notOp h e.1 hl.1
      simp only [List.find?_cons, BEq.comm (a := e.1), this, ih hl.2]
  simp only [compareOp?, this Gen.compareHash (by decide)]
theorem ce_pyInt : pyInt t.src = pyInt t'.src := by
  rcases ce_src_cases h with e | ⟨s, s', e1, e2, h1, h2⟩ | ⟨l, l', e1, e2, _, _⟩
  · rw [e]
  · rw [e1, e2, caseWord_pyInt h1, caseWord_pyInt h2]
  · have hn := ce_hasNonAscii h
    have body : ∀ l : List Char, isAsciiIntBody (intBody ('(' :: (l ++ [')']))) = false := by
      intro l; simp [intBody, isAsciiIntBody]
    unfold pyInt
    rw [hn, e1, e2]
    simp [String.toList_ofList, body]
theorem ce_asInt : asInt t.src = asInt t'.src := by
  rcases ce_src_cases h with e | ⟨s, s', e1, e2, h1, h2⟩ | ⟨l, l', e1, e2, _, _⟩
  · rw [e]
  · rw [e1, e2, caseWord_asInt h1, caseWord_asInt h2]
  · have hn := ce_hasNonAscii h
    have lit : ∀ l : List Char, isIntLiteral (String.ofList ('(' :: (l ++ [')']))) = false := by
      intro l; simp [isIntLiteral, intBody, String.toList_ofList]
    unfold asInt
    rw [hn, e1, e2, lit, lit]; simp
/-- a stored name: equal up to case -/
theorem ce_unifyName : up (unifyName t.src) = up (unifyName t'.src) := by
  have hu := ce_up_src h
  rcases ce_src_cases h with e | ⟨s, s', e1, e2, h1, h2⟩ | ⟨l, l', e1, e2, _, _⟩
  · rw [e]
  · rw [e1, e2, caseWord_unifyName h1, caseWord_unifyName h2, ← e1, ← e2, hu]
  · rw [e1, e2, unifyName_paren, unifyName_paren, ← e1, ← e2, hu]
end tok

end PM
