import MsqProofs.Lemmas.TParse0
/-!
# T-parse: from one level of the expression grammar to the next (C02 / C01)

For a FIXED rendering `ts` and tree `x`:

* `Full d p L off ts x` — in front of every continuation `rest` that does not continue a level `≤ L` (`stopLE d L rest`), the level
  parser `p` returns `(x, rest)` on `ts ++ rest`, at every fuel `≥ 20 * sizeL ts + off`;
* `Cont d p loop L off ts x` — CONTINUATION form for the levels with a left-associative loop (keyword chain 9, comparison 10,
  `AND` 12, `XOR` 13, `OR` 14): whatever the loop of that level, started with `x` on `rest`, returns, the level parser returns on
  `ts ++ rest` (`rest` must only not continue the levels BELOW `L`).

`Tower d L0 ts x` collects both forms for every level `≥ L0`; the lemmas `up8 … up14` climb one level, so a tower is built from
the form at its lowest level alone (`Tower.of2`, `of8`, `of9`, `of10`, `of11`, `of12`, `of13`, `of14`).
The fuel offsets: unary 0, compute 2, keyword 6, comparison 8, `NOT` 9, `AND` 11, `XOR` 13, `OR` 15.
-/
set_option linter.unusedVariables false
set_option linter.unusedSimpArgs false
open Lex PM Ast
namespace TP
variable (d : Gen.D)

def Full (p : Nat → List Tok → R Expr) (L off : Nat) (ts : List Tok) (x : Expr) : Prop :=
  ∀ rest, stopLE d L rest = true → OkAt (fun f => p f (ts ++ rest)) (20 * sizeL ts + off) (x, rest)
/-- the loop of the keyword level as the caller of `pKwFirst` runs it -/
def kwLoop (f : Nat) (x : Expr) (rest : List Tok) : R Expr := pKwRest d f x (skipNot d rest).1 (skipNot d rest).2
/-- after a predicate: the chain continues, or nothing of the keyword level follows -/
def kOk (rest : List Tok) : Bool := chainsOn rest || stopLE d 9 rest
def Cont (p : Nat → List Tok → R Expr) (loop : Nat → Expr → List Tok → R Expr) (L off : Nat) (ts : List Tok) (x : Expr) : Prop :=
  ∀ rest, stopLE d L rest = true → ∀ n res, OkAt (fun f => loop f x rest) n res → OkAt (fun f => p f (ts ++ rest)) (n + 20 * sizeL ts + off) res

/-- the first token of the rendering may start an operand -/
def HeadOK (ts : List Tok) : Prop := ∃ t ts', ts = t :: ts' ∧ operandTok d t = true

abbrev P2 := fun f ts => pUnary d f ts
abbrev P8 := fun f ts => pCompute d f ts
abbrev P9 := fun f ts => pKeyword d f none ts
abbrev P10 := fun f ts => pCompare d f ts
abbrev P11 := fun f ts => pNot d f ts
abbrev P12 := fun f ts => pAnd d f ts
abbrev P13 := fun f ts => pXor d f ts
abbrev P14 := fun f ts => pOr d f ts

/-! ### the loops stop -/
theorem stop_parts {L : Nat} {t : Tok} {r : List Tok} (h : stopLE d L (t :: r) = true) :
    stopsE t = true ∧ (8 ≤ L → stopsC t = true) ∧ (9 ≤ L → stopsK d t = true) ∧ (10 ≤ L → stopsCmp t = true) ∧
      (12 ≤ L → stopsA t = true) ∧ (13 ≤ L → stopsX t = true) ∧ (14 ≤ L → stopsO t = true) := by
  simp only [stopLE, stopTok, Bool.and_eq_true, Bool.or_eq_true, decide_eq_true_eq] at h
  obtain ⟨⟨⟨⟨⟨⟨h1, h2⟩, h3⟩, h4⟩, h5⟩, h6⟩, h7⟩ := h
  refine ⟨h1, ?_, ?_, ?_, ?_, ?_, ?_⟩ <;> intro hl
  · exact h2.resolve_left (by omega)
  · exact h3.resolve_left (by omega)
  · exact h4.resolve_left (by omega)
  · exact h5.resolve_left (by omega)
  · exact h6.resolve_left (by omega)
  · exact h7.resolve_left (by omega)

theorem computeLoop_stop (st) (top : Expr) (rest : List Tok) (h : stopLE d 8 rest = true) :
    OkAt (fun f => pComputeLoop d f st top rest) 1 (PM.collapse st top, rest) := by
  intro f hf
  obtain ⟨g, rfl⟩ : ∃ g, f = g + 1 := ⟨f - 1, by omega⟩
  unfold pComputeLoop
  cases rest with
  | nil => rfl
  | cons t r =>
    have := (stop_parts d h).2.1 (by omega)
    simp only [stopsC, Option.isNone_iff_eq_none] at this
    simp [this]
theorem kwLoop_stop (x : Expr) (rest : List Tok) (h : stopLE d 9 rest = true) : OkAt (fun f => kwLoop d f x rest) 2 (x, rest) := by
  intro f hf
  obtain ⟨g, rfl⟩ : ∃ g, f = g + 2 := ⟨f - 2, by omega⟩
  unfold kwLoop
  cases rest with
  | nil => simp [skipNot, pKwRest]
  | cons t r =>
    have hk := (stop_parts d h).2.2.1 (by omega)
    simp only [stopsK, Bool.and_eq_true, Bool.not_eq_true'] at hk
    have hs : skipNot d (t :: r) = (false, t :: r) := by simp only [skipNot, hk.1]; rfl
    rw [hs]
    have hb : pKwBody d (g + 1) (up t.src) false x r = .ok none := by
      have hk2 := hk.2
      simp only [List.contains_cons, List.contains_nil, Bool.or_false, Bool.or_eq_false_iff, beq_eq_false_iff_ne, ne_eq] at hk2
      obtain ⟨_, h1, h2, h3, h4, h5, h6⟩ := hk2
      unfold pKwBody
      simp [h1, h2, h3, h4, h5, h6]
    unfold pKwRest
    simp [hb]
theorem compareLoop_stop (x : Expr) (rest : List Tok) (h : stopLE d 10 rest = true) : OkAt (fun f => pCompareLoop d f x rest) 1 (x, rest) := by
  intro f hf
  obtain ⟨g, rfl⟩ : ∃ g, f = g + 1 := ⟨f - 1, by omega⟩
  unfold pCompareLoop
  cases rest with
  | nil => rfl
  | cons t r =>
    have := (stop_parts d h).2.2.2.1 (by omega)
    simp only [stopsCmp, Option.isNone_iff_eq_none] at this
    simp [this]
theorem andLoop_stop (x : Expr) (rest : List Tok) (h : stopLE d 12 rest = true) : OkAt (fun f => pAndLoop d f x rest) 1 (x, rest) := by
  intro f hf
  obtain ⟨g, rfl⟩ : ∃ g, f = g + 1 := ⟨f - 1, by omega⟩
  unfold pAndLoop
  cases rest with
  | nil => rfl
  | cons t r =>
    have := (stop_parts d h).2.2.2.2.1 (by omega)
    simp only [stopsA, Bool.not_eq_true'] at this
    simp [this]
theorem xorLoop_stop (x : Expr) (rest : List Tok) (h : stopLE d 13 rest = true) : OkAt (fun f => pXorLoop d f x rest) 1 (x, rest) := by
  intro f hf
  obtain ⟨g, rfl⟩ : ∃ g, f = g + 1 := ⟨f - 1, by omega⟩
  unfold pXorLoop
  cases rest with
  | nil => simp [searchStrUp]
  | cons t r =>
    have := (stop_parts d h).2.2.2.2.2.1 (by omega)
    simp only [stopsX, Bool.not_eq_true'] at this
    simp [searchStrUp, this]
theorem orLoop_stop (x : Expr) (rest : List Tok) (h : stopLE d 14 rest = true) : OkAt (fun f => pOrLoop d f x rest) 1 (x, rest) := by
  intro f hf
  obtain ⟨g, rfl⟩ : ∃ g, f = g + 1 := ⟨f - 1, by omega⟩
  unfold pOrLoop
  cases rest with
  | nil => rfl
  | cons t r =>
    have := (stop_parts d h).2.2.2.2.2.2 (by omega)
    simp only [stopsO, Bool.not_eq_true'] at this
    simp [this]

/-! ### one level up -/
variable {d}
theorem up8 {ts x} (h : Full d (P2 d) 2 0 ts x) : Full d (P8 d) 8 2 ts x := by
  intro rest hr f hf
  obtain ⟨g, rfl⟩ : ∃ g, f = g + 1 := ⟨f - 1, by omega⟩
  show pCompute d (g + 1) (ts ++ rest) = _
  unfold pCompute
  have : pUnary d g (ts ++ rest) = .ok (x, rest) := h rest (stopLE_mono hr (by omega)) g (by omega)
  rw [this]
  simpa [PM.collapse] using computeLoop_stop d [] x rest hr g (by omega)

theorem c9_of_s8 {ts x} (h : Full d (P8 d) 8 2 ts x) (hd : HeadOK d ts) : Cont d (P9 d) (kwLoop d) 8 4 ts x := by
  intro rest hr n res hl f hf
  obtain ⟨g, rfl⟩ : ∃ g, f = g + 2 := ⟨f - 2, by omega⟩
  obtain ⟨t, ts', rfl, ht⟩ := hd
  show pKeyword d (g + 2) none (t :: ts' ++ rest) = _
  have he : searchStrUp (t :: ts' ++ rest) "EXISTS" = false := by
    simp only [operandTok, Bool.and_eq_true, Bool.not_eq_true'] at ht
    simpa [searchStrUp] using ht.2
  have h1 : pCompute d g (t :: ts' ++ rest) = .ok (x, rest) := h rest hr g (by omega)
  unfold pKeyword
  simp only [he, Bool.and_false, Bool.false_eq_true, if_false]
  unfold pKwFirst
  simp only [h1]
  exact hl (g + 1) (by omega)
theorem s9_of_c9 {ts x} (h : Cont d (P9 d) (kwLoop d) 8 4 ts x) : Full d (P9 d) 9 6 ts x := by
  intro rest hr
  exact (h rest (stopLE_mono hr (by omega)) 2 _ (kwLoop_stop d x rest hr)).mono (by omega)
theorem c10_of_s9 {ts x} (h : Full d (P9 d) 9 6 ts x) : Cont d (P10 d) (fun f => pCompareLoop d f) 9 7 ts x := by
  intro rest hr n res hl f hf
  obtain ⟨g, rfl⟩ : ∃ g, f = g + 1 := ⟨f - 1, by omega⟩
  show pCompare d (g + 1) (ts ++ rest) = _
  unfold pCompare
  have h1 : pKeyword d g none (ts ++ rest) = .ok (x, rest) := h rest hr g (by omega)
  rw [h1]
  exact hl g (by omega)
theorem s10_of_c10 {ts x} (h : Cont d (P10 d) (fun f => pCompareLoop d f) 9 7 ts x) : Full d (P10 d) 10 8 ts x := by
  intro rest hr
  exact (h rest (stopLE_mono hr (by omega)) 1 _ (compareLoop_stop d x rest hr)).mono (by omega)
theorem up11 {ts x} (h : Full d (P10 d) 10 8 ts x) (hd : HeadOK d ts) : Full d (P11 d) 11 9 ts x := by
  intro rest hr f hf
  obtain ⟨g, rfl⟩ : ∃ g, f = g + 1 := ⟨f - 1, by omega⟩
  obtain ⟨t, ts', rfl, ht⟩ := hd
  show pNot d (g + 1) (t :: ts' ++ rest) = _
  have hn : (Gen.notSet d).contains (up t.src) = false := by
    simp only [operandTok, Bool.and_eq_true, Bool.not_eq_true'] at ht
    exact ht.1.2
  unfold pNot
  simp only [List.cons_append, hn, Bool.false_eq_true, if_false]
  exact h rest (stopLE_mono hr (by omega)) g (by omega)
theorem c12_of_s11 {ts x} (h : Full d (P11 d) 11 9 ts x) : Cont d (P12 d) (fun f => pAndLoop d f) 11 10 ts x := by
  intro rest hr n res hl f hf
  obtain ⟨g, rfl⟩ : ∃ g, f = g + 1 := ⟨f - 1, by omega⟩
  show pAnd d (g + 1) (ts ++ rest) = _
  unfold pAnd
  have h1 : pNot d g (ts ++ rest) = .ok (x, rest) := h rest hr g (by omega)
  rw [h1]
  exact hl g (by omega)
theorem s12_of_c12 {ts x} (h : Cont d (P12 d) (fun f => pAndLoop d f) 11 10 ts x) : Full d (P12 d) 12 11 ts x := by
  intro rest hr
  exact (h rest (stopLE_mono hr (by omega)) 1 _ (andLoop_stop d x rest hr)).mono (by omega)
theorem c13_of_s12 {ts x} (h : Full d (P12 d) 12 11 ts x) : Cont d (P13 d) (fun f => pXorLoop d f) 12 12 ts x := by
  intro rest hr n res hl f hf
  obtain ⟨g, rfl⟩ : ∃ g, f = g + 1 := ⟨f - 1, by omega⟩
  show pXor d (g + 1) (ts ++ rest) = _
  unfold pXor
  have h1 : pAnd d g (ts ++ rest) = .ok (x, rest) := h rest hr g (by omega)
  rw [h1]
  exact hl g (by omega)
theorem s13_of_c13 {ts x} (h : Cont d (P13 d) (fun f => pXorLoop d f) 12 12 ts x) : Full d (P13 d) 13 13 ts x := by
  intro rest hr
  exact (h rest (stopLE_mono hr (by omega)) 1 _ (xorLoop_stop d x rest hr)).mono (by omega)
theorem c14_of_s13 {ts x} (h : Full d (P13 d) 13 13 ts x) : Cont d (P14 d) (fun f => pOrLoop d f) 13 14 ts x := by
  intro rest hr n res hl f hf
  obtain ⟨g, rfl⟩ : ∃ g, f = g + 1 := ⟨f - 1, by omega⟩
  show pOr d (g + 1) (ts ++ rest) = _
  unfold pOr
  have h1 : pXor d g (ts ++ rest) = .ok (x, rest) := h rest hr g (by omega)
  rw [h1]
  exact hl g (by omega)
theorem s14_of_c14 {ts x} (h : Cont d (P14 d) (fun f => pOrLoop d f) 13 14 ts x) : Full d (P14 d) 14 15 ts x := by
  intro rest hr
  exact (h rest (stopLE_mono hr (by omega)) 1 _ (orLoop_stop d x rest hr)).mono (by omega)

/-! ### every level from `L0` upwards -/
variable (d)
structure Tower (L0 : Nat) (ts : List Tok) (x : Expr) : Prop where
  s2 : L0 ≤ 2 → Full d (P2 d) 2 0 ts x
  s8 : L0 ≤ 8 → Full d (P8 d) 8 2 ts x
  c9 : L0 ≤ 9 → Cont d (P9 d) (kwLoop d) 8 4 ts x
  s9 : L0 ≤ 9 → Full d (P9 d) 9 6 ts x
  c10 : L0 ≤ 10 → Cont d (P10 d) (fun f => pCompareLoop d f) 9 7 ts x
  s10 : L0 ≤ 10 → Full d (P10 d) 10 8 ts x
  s11 : L0 ≤ 11 → Full d (P11 d) 11 9 ts x
  c12 : L0 ≤ 12 → Cont d (P12 d) (fun f => pAndLoop d f) 11 10 ts x
  s12 : L0 ≤ 12 → Full d (P12 d) 12 11 ts x
  c13 : L0 ≤ 13 → Cont d (P13 d) (fun f => pXorLoop d f) 12 12 ts x
  s13 : L0 ≤ 13 → Full d (P13 d) 13 13 ts x
  c14 : Cont d (P14 d) (fun f => pOrLoop d f) 13 14 ts x
  s14 : Full d (P14 d) 14 15 ts x
variable {d}

theorem Tower.of14 {ts x} (h : Cont d (P14 d) (fun f => pOrLoop d f) 13 14 ts x) : Tower d 14 ts x :=
  ⟨fun h => absurd h (by omega), fun h => absurd h (by omega), fun h => absurd h (by omega), fun h => absurd h (by omega),
   fun h => absurd h (by omega), fun h => absurd h (by omega), fun h => absurd h (by omega), fun h => absurd h (by omega),
   fun h => absurd h (by omega), fun h => absurd h (by omega), fun h => absurd h (by omega), h, s14_of_c14 h⟩
theorem Tower.of_s13 {ts x} (L0 : Nat) (hL : 13 ≤ L0) (h13 : Full d (P13 d) 13 13 ts x)
    (c13 : Cont d (P13 d) (fun f => pXorLoop d f) 12 12 ts x) : Tower d L0 ts x :=
  ⟨fun h => absurd h (by omega), fun h => absurd h (by omega), fun h => absurd h (by omega), fun h => absurd h (by omega),
   fun h => absurd h (by omega), fun h => absurd h (by omega), fun h => absurd h (by omega), fun h => absurd h (by omega),
   fun h => absurd h (by omega), fun _ => c13, fun _ => h13, c14_of_s13 h13, s14_of_c14 (c14_of_s13 h13)⟩
theorem Tower.of13 {ts x} (h : Cont d (P13 d) (fun f => pXorLoop d f) 12 12 ts x) : Tower d 13 ts x :=
  Tower.of_s13 13 (by omega) (s13_of_c13 h) h
theorem Tower.of_s12 {ts x} (L0 : Nat) (hL : 12 ≤ L0) (h12 : Full d (P12 d) 12 11 ts x)
    (c12 : Cont d (P12 d) (fun f => pAndLoop d f) 11 10 ts x) : Tower d L0 ts x :=
  let T := Tower.of13 (c13_of_s12 h12)
  ⟨fun h => absurd h (by omega), fun h => absurd h (by omega), fun h => absurd h (by omega), fun h => absurd h (by omega),
   fun h => absurd h (by omega), fun h => absurd h (by omega), fun h => absurd h (by omega), fun _ => c12, fun _ => h12,
   fun _ => T.c13 (by omega), fun _ => T.s13 (by omega), T.c14, T.s14⟩
theorem Tower.of12 {ts x} (h : Cont d (P12 d) (fun f => pAndLoop d f) 11 10 ts x) : Tower d 12 ts x :=
  Tower.of_s12 12 (by omega) (s12_of_c12 h) h
theorem Tower.of11 {ts x} (h : Full d (P11 d) 11 9 ts x) : Tower d 11 ts x :=
  let T := Tower.of12 (c12_of_s11 h)
  ⟨fun h => absurd h (by omega), fun h => absurd h (by omega), fun h => absurd h (by omega), fun h => absurd h (by omega),
   fun h => absurd h (by omega), fun h => absurd h (by omega), fun _ => h, fun _ => T.c12 (by omega), fun _ => T.s12 (by omega),
   fun _ => T.c13 (by omega), fun _ => T.s13 (by omega), T.c14, T.s14⟩
theorem Tower.of10 {ts x} (h : Cont d (P10 d) (fun f => pCompareLoop d f) 9 7 ts x) (hd : HeadOK d ts) : Tower d 10 ts x :=
  let T := Tower.of11 (up11 (s10_of_c10 h) hd)
  ⟨fun h => absurd h (by omega), fun h => absurd h (by omega), fun h => absurd h (by omega), fun h => absurd h (by omega),
   fun _ => h, fun _ => s10_of_c10 h, fun _ => T.s11 (by omega), fun _ => T.c12 (by omega), fun _ => T.s12 (by omega),
   fun _ => T.c13 (by omega), fun _ => T.s13 (by omega), T.c14, T.s14⟩
theorem Tower.of9 {ts x} (h : Cont d (P9 d) (kwLoop d) 8 4 ts x) (hd : HeadOK d ts) : Tower d 9 ts x :=
  let T := Tower.of10 (c10_of_s9 (s9_of_c9 h)) hd
  ⟨fun h => absurd h (by omega), fun h => absurd h (by omega), fun _ => h, fun _ => s9_of_c9 h,
   fun _ => T.c10 (by omega), fun _ => T.s10 (by omega), fun _ => T.s11 (by omega), fun _ => T.c12 (by omega), fun _ => T.s12 (by omega),
   fun _ => T.c13 (by omega), fun _ => T.s13 (by omega), T.c14, T.s14⟩
theorem Tower.of8 {ts x} (h : Full d (P8 d) 8 2 ts x) (hd : HeadOK d ts) : Tower d 8 ts x :=
  let T := Tower.of9 (c9_of_s8 h hd) hd
  ⟨fun h => absurd h (by omega), fun _ => h, fun _ => T.c9 (by omega), fun _ => T.s9 (by omega),
   fun _ => T.c10 (by omega), fun _ => T.s10 (by omega), fun _ => T.s11 (by omega), fun _ => T.c12 (by omega), fun _ => T.s12 (by omega),
   fun _ => T.c13 (by omega), fun _ => T.s13 (by omega), T.c14, T.s14⟩
theorem Tower.of2 {ts x} (h : Full d (P2 d) 2 0 ts x) (hd : HeadOK d ts) : Tower d 2 ts x :=
  let T := Tower.of8 (up8 h) hd
  ⟨fun _ => h, fun _ => T.s8 (by omega), fun _ => T.c9 (by omega), fun _ => T.s9 (by omega),
   fun _ => T.c10 (by omega), fun _ => T.s10 (by omega), fun _ => T.s11 (by omega), fun _ => T.c12 (by omega), fun _ => T.s12 (by omega),
   fun _ => T.c13 (by omega), fun _ => T.s13 (by omega), T.c14, T.s14⟩
/-- a tower from `L0` is a tower from every higher level -/
theorem Tower.weaken {ts x} {L0 L1 : Nat} (T : Tower d L0 ts x) (h : L0 ≤ L1) : Tower d L1 ts x :=
  ⟨fun g => T.s2 (by omega), fun g => T.s8 (by omega), fun g => T.c9 (by omega), fun g => T.s9 (by omega),
   fun g => T.c10 (by omega), fun g => T.s10 (by omega), fun g => T.s11 (by omega), fun g => T.c12 (by omega), fun g => T.s12 (by omega),
   fun g => T.c13 (by omega), fun g => T.s13 (by omega), T.c14, T.s14⟩

end TP
