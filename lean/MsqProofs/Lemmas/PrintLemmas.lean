import MsqModel.Print
/-!
# Lemmas about the printer model `PR.prE / prS / prQ / prStmt` (used by `Props/C13.lean`)

* `PR.prS_unfold` — the body of `prS` as an equation (Lean cannot generate the equation lemma of `prS`
  itself: its inline `match`es over optional clauses carry recursive calls; proved by 2⁸ `rfl`s).
* `Loc`, `anyE … anyQ` — "some node of the tree satisfies a local predicate": one structural traversal of
  ALL typed query trees (every child the printer visits), parametrised by local predicates on the five
  node classes (expression, SELECT, JOIN, GROUP BY, query; the printer can fail locally at all but GROUP BY since the
  repair 1fd5412 of `ASTGroupingSets.source`, the GROUP BY hook is kept for generality).
* `bad_E … bad_Q` — **propagation**: if every locally flagged node makes its own printer call fail, then a
  flagged node at ANY position and depth makes the whole print fail (no text is produced).
* `eq_E … eq_Q` — **irrelevance**: two dialects print a tree identically unless the tree contains a node
  at which the two dialects answer one of the printer's five dialect tests differently.
* `res_E … res_Q`, `res_Stmt` — **which errors**: if at every unflagged node the printer's own steps succeed or fail within
  an error set `E`, the whole print succeeds or fails within `E` (`E = ∅`: totality; `E = {notSupported}`: the refusal kind).
* `none_E … none_Q` — a predicate that flags nothing finds nothing.
* `anyStmt`, `bad_Stmt` — the same for statements (`prStmt`), over every child every dialect prints.
-/
namespace PR
open Ast

/-! ## `Except` plumbing -/

theorem bind_eq_ok {ε α β : Type} (x : Except ε α) (f : α → Except ε β) (b : β) :
    (x >>= f) = .ok b ↔ ∃ a, x = .ok a ∧ f a = .ok b := by
  cases x <;> simp [bind, Except.bind]

theorem map_eq_ok {ε α β : Type} (x : Except ε α) (f : α → β) (b : β) :
    Except.map f x = .ok b ↔ ∃ a, x = .ok a ∧ f a = b := by
  cases x <;> simp [Except.map]

theorem fmap_eq_ok {ε α β : Type} (x : Except ε α) (f : α → β) (b : β) :
    (f <$> x) = .ok b ↔ ∃ a, x = .ok a ∧ f a = b := by
  cases x <;> simp [Functor.map, Except.map]

theorem pure_eq_ok {ε α : Type} (a b : α) : (pure a : Except ε α) = .ok b ↔ a = b := by
  simp [pure, Except.pure]

theorem throw_ne_ok {ε α : Type} (e : ε) (b : α) : (throw e : Except ε α) = .ok b ↔ False := by
  simp [throw, throwThe, MonadExceptOf.throw]

theorem ok_bind {ε α β : Type} (a : α) (f : α → Except ε β) : (Except.ok a >>= f) = f a := rfl
theorem ok_map {ε α β : Type} (a : α) (f : α → β) : Except.map f (Except.ok a : Except ε α) = .ok (f a) := rfl

/-! ## the body of `prS` -/

/-- `prS` on a constructor application, verbatim from `MsqModel/Print.lean` -/
def prSBody (d : Gen.D) (ws : Option (List WithTable)) (dist : Bool) (cols : List (Expr × Option String))
    (fr : Option (List FromTable)) (lats : List Lateral) (js : List Join) (wh : Option Expr) (gb : Option GroupBy)
    (hv : Option Expr) (ob sb : Option (List OrderItem)) (db cb : Option (List Expr)) (lm : Option (Int × Option Int)) : P := do
  let w ← prWithPrefix d "\n" ws
  if d != .HIVE && (sb.isSome || db.isSome || cb.isSome) then throw .notSupported
  if !(d == .HIVE || d == .DEFAULT) && !lats.isEmpty then throw .notSupported
  let cs ← prCols d cols
  let sel := joinS " " (["SELECT"] ++ (if dist then ["DISTINCT"] else []) ++ [joinS ", " cs])
  let frs ← (match fr with | some l => (prFromList d l).map fun x => ["FROM " ++ joinS ", " x] | none => pure [])
  let lts ← prLateralList d lats
  let jss ← prJoinList d js
  let whs ← (match wh with | some e => (prE d e).map fun x => [s!"WHERE {x}"] | none => pure [])
  let gbs ← (match gb with | some g => (prGroupBy d g).map fun x => [x] | none => pure [])
  let hvs ← (match hv with | some e => (prE d e).map fun x => [s!"HAVING {x}"] | none => pure [])
  let obs ← (match ob with | some l => (prOrdList d l).map fun x => ["ORDER BY " ++ joinS ", " x] | none => pure [])
  let hive ← (if d == .HIVE then do
      let a ← (match sb with | some l => (prOrdList d l).map fun x => ["SORT BY " ++ joinS ", " x] | none => pure [])
      let b ← (match db with | some l => (prList8 d l).map fun x => ["DISTRIBUTE BY " ++ joinS ", " x] | none => pure [])
      let c ← (match cb with | some l => (prList8 d l).map fun x => ["CLUSTER BY " ++ joinS ", " x] | none => pure [])
      pure (a ++ b ++ c)
    else pure [])
  let lms := match lm with | some l => [limitSrc l] | none => []
  pure (w ++ joinS "\n" ([sel] ++ frs ++ lts ++ jss ++ whs ++ gbs ++ hvs ++ obs ++ hive ++ lms))

theorem prS_unfold (d : Gen.D) (ws : Option (List WithTable)) (dist : Bool) (cols : List (Expr × Option String))
    (fr : Option (List FromTable)) (lats : List Lateral) (js : List Join) (wh : Option Expr) (gb : Option GroupBy)
    (hv : Option Expr) (ob sb : Option (List OrderItem)) (db cb : Option (List Expr)) (lm : Option (Int × Option Int)) :
    prS d (.mk ws dist cols fr lats js wh gb hv ob sb db cb lm) = prSBody d ws dist cols fr lats js wh gb hv ob sb db cb lm := by
  cases fr <;> cases wh <;> cases gb <;> cases hv <;> cases ob <;> cases sb <;> cases db <;> cases cb <;> rfl

/-- the two dialect guards of `prS` (`node.py:1224-1230` after the repairs): Hive-only clauses, LATERAL VIEW -/
def prSGuard (d : Gen.D) (lats : List Lateral) (sb : Option (List OrderItem)) (db cb : Option (List Expr)) : Except Err Unit :=
  if d != .HIVE && (sb.isSome || db.isSome || cb.isSome) then .error .notSupported
  else if !(d == .HIVE || d == .DEFAULT) && !lats.isEmpty then .error .notSupported
  else .ok ()

/-! the optional clauses of `prS`, named (definitionally the inline `match`es of `Print.lean`) -/
def prOptFrom (d : Gen.D) : Option (List FromTable) → Except Err (List String)
  | some l => (prFromList d l).map fun x => ["FROM " ++ joinS ", " x] | none => pure []
def prOptWhere (d : Gen.D) : Option Expr → Except Err (List String)
  | some e => (prE d e).map fun x => [s!"WHERE {x}"] | none => pure []
def prOptGroup (d : Gen.D) : Option GroupBy → Except Err (List String)
  | some g => (prGroupBy d g).map fun x => [x] | none => pure []
def prOptHaving (d : Gen.D) : Option Expr → Except Err (List String)
  | some e => (prE d e).map fun x => [s!"HAVING {x}"] | none => pure []
def prOptOrder (d : Gen.D) : Option (List OrderItem) → Except Err (List String)
  | some l => (prOrdList d l).map fun x => ["ORDER BY " ++ joinS ", " x] | none => pure []
def prOptSort (d : Gen.D) : Option (List OrderItem) → Except Err (List String)
  | some l => (prOrdList d l).map fun x => ["SORT BY " ++ joinS ", " x] | none => pure []
def prOptDistribute (d : Gen.D) : Option (List Expr) → Except Err (List String)
  | some l => (prList8 d l).map fun x => ["DISTRIBUTE BY " ++ joinS ", " x] | none => pure []
def prOptCluster (d : Gen.D) : Option (List Expr) → Except Err (List String)
  | some l => (prList8 d l).map fun x => ["CLUSTER BY " ++ joinS ", " x] | none => pure []
/-- SORT BY / DISTRIBUTE BY / CLUSTER BY: printed for Hive only -/
def prHive (d : Gen.D) (sb : Option (List OrderItem)) (db cb : Option (List Expr)) : Except Err (List String) :=
  if d == .HIVE then do
    let a ← prOptSort d sb
    let b ← prOptDistribute d db
    let c ← prOptCluster d cb
    pure (a ++ b ++ c)
  else pure []

/-- what `prS` does after the WITH prefix and the guards -/
def prSRest (d : Gen.D) (w : String) (dist : Bool) (cols : List (Expr × Option String))
    (fr : Option (List FromTable)) (lats : List Lateral) (js : List Join) (wh : Option Expr) (gb : Option GroupBy)
    (hv : Option Expr) (ob sb : Option (List OrderItem)) (db cb : Option (List Expr)) (lm : Option (Int × Option Int)) : P := do
  let cs ← prCols d cols
  let sel := joinS " " (["SELECT"] ++ (if dist then ["DISTINCT"] else []) ++ [joinS ", " cs])
  let frs ← prOptFrom d fr
  let lts ← prLateralList d lats
  let jss ← prJoinList d js
  let whs ← prOptWhere d wh
  let gbs ← prOptGroup d gb
  let hvs ← prOptHaving d hv
  let obs ← prOptOrder d ob
  let hive ← prHive d sb db cb
  let lms := match lm with | some l => [limitSrc l] | none => []
  pure (w ++ joinS "\n" ([sel] ++ frs ++ lts ++ jss ++ whs ++ gbs ++ hvs ++ obs ++ hive ++ lms))

/-- `prS` in sequential form: WITH prefix, then the guards, then the clauses -/
theorem prS_eq (d : Gen.D) (ws : Option (List WithTable)) (dist : Bool) (cols : List (Expr × Option String))
    (fr : Option (List FromTable)) (lats : List Lateral) (js : List Join) (wh : Option Expr) (gb : Option GroupBy)
    (hv : Option Expr) (ob sb : Option (List OrderItem)) (db cb : Option (List Expr)) (lm : Option (Int × Option Int)) :
    prS d (.mk ws dist cols fr lats js wh gb hv ob sb db cb lm) =
      (prWithPrefix d "\n" ws >>= fun w => prSGuard d lats sb db cb >>= fun _ => prSRest d w dist cols fr lats js wh gb hv ob sb db cb lm) := by
  rw [prS_unfold]
  unfold prSBody prSGuard
  cases prWithPrefix d "\n" ws with
  | error e => rfl
  | ok w =>
    simp only [ok_bind]
    by_cases h1 : (d != .HIVE && (sb.isSome || db.isSome || cb.isSome)) = true
    · simp only [h1, if_true]; rfl
    · by_cases h2 : (!(d == .HIVE || d == .DEFAULT) && !lats.isEmpty) = true
      · simp only [h1, h2, if_true]; rfl
      · simp only [h1, h2]; rfl

/-! ## "some node satisfies a local predicate" -/

/-- local predicates on node classes (the printer can fail without looking at a child at an expression, SELECT, JOIN or
query node; a GROUP BY node has had no local failure since an empty grouping set prints `()`) -/
structure Loc where
  e : Expr → Bool := fun _ => false
  s : Select → Bool := fun _ => false
  j : Join → Bool := fun _ => false
  g : GroupBy → Bool := fun _ => false
  q : Query → Bool := fun _ => false

mutual
def anyE (L : Loc) : Expr → Bool
  | .column t c => L.e (.column t c)
  | .literal v => L.e (.literal v)
  | .wildcard t => L.e (.wildcard t)
  | .func s n ps => L.e (.func s n ps) || anyEs L ps
  | .agg n ps dist => L.e (.agg n ps dist) || anyEs L ps
  | .cast e sg ty ps => L.e (.cast e sg ty ps) || anyE L e
  | .extract n e => L.e (.extract n e) || anyE L n || anyE L e
  | .window fn part ord rows => L.e (.window fn part ord rows) || anyE L fn || anyEs L part || anyOs L ord
  | .caseCond cs els => L.e (.caseCond cs els) || anyArms L cs || anyOE L els
  | .caseVal v cs els => L.e (.caseVal v cs els) || anyE L v || anyArms L cs || anyOE L els
  | .subValue vs => L.e (.subValue vs) || anyEs L vs
  | .subQuery q => L.e (.subQuery q) || anyQ L q
  | .exists_ v => L.e (.exists_ v) || anyE L v
  | .index a i => L.e (.index a i) || anyE L a || anyE L i
  | .unary o e => L.e (.unary o e) || anyE L e
  | .compute l o r => L.e (.compute l o r) || anyE L l || anyE L r
  | .kw k n l r => L.e (.kw k n l r) || anyE L l || anyE L r
  | .between n b f t => L.e (.between n b f t) || anyE L b || anyE L f || anyE L t
  | .compare o l r => L.e (.compare o l r) || anyE L l || anyE L r
  | .not_ e => L.e (.not_ e) || anyE L e
  | .and_ l r => L.e (.and_ l r) || anyE L l || anyE L r
  | .xor l r => L.e (.xor l r) || anyE L l || anyE L r
  | .or_ l r => L.e (.or_ l r) || anyE L l || anyE L r
  | .mybatis s => L.e (.mybatis s)
def anyEs (L : Loc) : List Expr → Bool
  | [] => false
  | e :: r => anyE L e || anyEs L r
def anyOE (L : Loc) : Option Expr → Bool
  | none => false
  | some e => anyE L e
def anyArms (L : Loc) : List (Expr × Expr) → Bool
  | [] => false
  | (w, t) :: r => anyE L w || anyE L t || anyArms L r
def anyO (L : Loc) : OrderItem → Bool
  | .mk e _ _ _ => anyE L e
def anyOs (L : Loc) : List OrderItem → Bool
  | [] => false
  | o :: r => anyO L o || anyOs L r
def anyOOs (L : Loc) : Option (List OrderItem) → Bool
  | none => false
  | some l => anyOs L l
def anyOEs (L : Loc) : Option (List Expr) → Bool
  | none => false
  | some l => anyEs L l
def anyTR (L : Loc) : TableRef → Bool
  | .table _ _ => false
  | .sub q => anyQ L q
def anyF (L : Loc) : FromTable → Bool
  | .mk t _ => anyTR L t
def anyFs (L : Loc) : List FromTable → Bool
  | [] => false
  | t :: r => anyF L t || anyFs L r
def anyOFs (L : Loc) : Option (List FromTable) → Bool
  | none => false
  | some l => anyFs L l
def anyRule (L : Loc) : Option JoinRule → Bool
  | none => false
  | some (.on c) => anyE L c
  | some (.using u) => anyE L u
def anyJ (L : Loc) : Join → Bool
  | .mk ty t rule => L.j (.mk ty t rule) || anyF L t || anyRule L rule
def anyJs (L : Loc) : List Join → Bool
  | [] => false
  | j :: r => anyJ L j || anyJs L r
def anySets (L : Loc) : List (List Expr) → Bool
  | [] => false
  | g :: r => anyEs L g || anySets L r
def anyOSets (L : Loc) : Option (List (List Expr)) → Bool
  | none => false
  | some l => anySets L l
def anyG (L : Loc) : GroupBy → Bool
  | .mk gc sets cube rollup => L.g (.mk gc sets cube rollup) || anyEs L gc || anyOSets L sets
def anyOG (L : Loc) : Option GroupBy → Bool
  | none => false
  | some g => anyG L g
def anyLat (L : Loc) : Lateral → Bool
  | .mk _ fn _ _ => anyE L fn
def anyLats (L : Loc) : List Lateral → Bool
  | [] => false
  | l :: r => anyLat L l || anyLats L r
def anyWTs (L : Loc) : List WithTable → Bool
  | [] => false
  | .mk _ q :: r => anyQ L q || anyWTs L r
def anyW (L : Loc) : Option (List WithTable) → Bool
  | none => false
  | some ws => anyWTs L ws
def anyCols (L : Loc) : List (Expr × Option String) → Bool
  | [] => false
  | (e, _) :: r => anyE L e || anyCols L r
def anyS (L : Loc) : Select → Bool
  | .mk ws dist cols fr lats js wh gb hv ob sb db cb lm =>
    L.s (.mk ws dist cols fr lats js wh gb hv ob sb db cb lm) || anyW L ws || anyCols L cols || anyOFs L fr || anyLats L lats
      || anyJs L js || anyOE L wh || anyOG L gb || anyOE L hv || anyOOs L ob || anyOOs L sb || anyOEs L db || anyOEs L cb
def anyUs (L : Loc) : List (String × Select) → Bool
  | [] => false
  | (_, s) :: r => anyS L s || anyUs L r
def anyQ (L : Loc) : Query → Bool
  | .single s => L.q (.single s) || anyS L s
  | .union ws s us => L.q (.union ws s us) || anyW L ws || anyS L s || anyUs L us
end

/-- a predicate that flags nothing … -/
structure Loc.Empty (L : Loc) : Prop where
  e : ∀ x, L.e x = false
  s : ∀ x, L.s x = false
  j : ∀ x, L.j x = false
  g : ∀ x, L.g x = false
  q : ∀ x, L.q x = false

mutual
/-- … finds nothing -/
theorem none_E {L : Loc} (hL : L.Empty) : ∀ e, anyE L e = false
  | .column _ _ | .literal _ | .wildcard _ | .mybatis _ => by simp [anyE, hL.e]
  | .func _ _ ps | .agg _ ps _ | .subValue ps => by simp [anyE, hL.e, none_Es hL ps]
  | .cast e _ _ _ | .exists_ e | .unary _ e | .not_ e => by simp [anyE, hL.e, none_E hL e]
  | .extract l r | .index l r | .compute l _ r | .kw _ _ l r | .compare _ l r | .and_ l r | .xor l r | .or_ l r => by
    simp [anyE, hL.e, none_E hL l, none_E hL r]
  | .between _ b f t => by simp [anyE, hL.e, none_E hL b, none_E hL f, none_E hL t]
  | .window fn part ord _ => by simp [anyE, hL.e, none_E hL fn, none_Es hL part, none_Os hL ord]
  | .caseCond cs els => by simp [anyE, hL.e, none_Arms hL cs, none_OE hL els]
  | .caseVal v cs els => by simp [anyE, hL.e, none_E hL v, none_Arms hL cs, none_OE hL els]
  | .subQuery q => by simp [anyE, hL.e, none_Q hL q]
theorem none_Es {L : Loc} (hL : L.Empty) : ∀ es, anyEs L es = false
  | [] => rfl
  | e :: r => by simp [anyEs, none_E hL e, none_Es hL r]
theorem none_OE {L : Loc} (hL : L.Empty) : ∀ e, anyOE L e = false
  | none => rfl
  | some e => by simp [anyOE, none_E hL e]
theorem none_Arms {L : Loc} (hL : L.Empty) : ∀ cs, anyArms L cs = false
  | [] => rfl
  | (w, t) :: r => by simp [anyArms, none_E hL w, none_E hL t, none_Arms hL r]
theorem none_O {L : Loc} (hL : L.Empty) : ∀ o, anyO L o = false
  | .mk e _ _ _ => by simp [anyO, none_E hL e]
theorem none_Os {L : Loc} (hL : L.Empty) : ∀ os, anyOs L os = false
  | [] => rfl
  | o :: r => by simp [anyOs, none_O hL o, none_Os hL r]
theorem none_OOs {L : Loc} (hL : L.Empty) : ∀ os, anyOOs L os = false
  | none => rfl
  | some l => by simp [anyOOs, none_Os hL l]
theorem none_OEs {L : Loc} (hL : L.Empty) : ∀ es, anyOEs L es = false
  | none => rfl
  | some l => by simp [anyOEs, none_Es hL l]
theorem none_TR {L : Loc} (hL : L.Empty) : ∀ t, anyTR L t = false
  | .table _ _ => rfl
  | .sub q => by simp [anyTR, none_Q hL q]
theorem none_F {L : Loc} (hL : L.Empty) : ∀ t, anyF L t = false
  | .mk t _ => by simp [anyF, none_TR hL t]
theorem none_Fs {L : Loc} (hL : L.Empty) : ∀ ts, anyFs L ts = false
  | [] => rfl
  | t :: r => by simp [anyFs, none_F hL t, none_Fs hL r]
theorem none_OFs {L : Loc} (hL : L.Empty) : ∀ ts, anyOFs L ts = false
  | none => rfl
  | some l => by simp [anyOFs, none_Fs hL l]
theorem none_Rule {L : Loc} (hL : L.Empty) : ∀ r, anyRule L r = false
  | none => rfl
  | some (.on c) => by simp [anyRule, none_E hL c]
  | some (.using u) => by simp [anyRule, none_E hL u]
theorem none_J {L : Loc} (hL : L.Empty) : ∀ j, anyJ L j = false
  | .mk _ t rule => by simp [anyJ, hL.j, none_F hL t, none_Rule hL rule]
theorem none_Js {L : Loc} (hL : L.Empty) : ∀ js, anyJs L js = false
  | [] => rfl
  | j :: r => by simp [anyJs, none_J hL j, none_Js hL r]
theorem none_Sets {L : Loc} (hL : L.Empty) : ∀ gs, anySets L gs = false
  | [] => rfl
  | g :: r => by simp [anySets, none_Es hL g, none_Sets hL r]
theorem none_OSets {L : Loc} (hL : L.Empty) : ∀ gs, anyOSets L gs = false
  | none => rfl
  | some l => by simp [anyOSets, none_Sets hL l]
theorem none_G {L : Loc} (hL : L.Empty) : ∀ g, anyG L g = false
  | .mk gc sets _ _ => by simp [anyG, hL.g, none_Es hL gc, none_OSets hL sets]
theorem none_OG {L : Loc} (hL : L.Empty) : ∀ g, anyOG L g = false
  | none => rfl
  | some g => by simp [anyOG, none_G hL g]
theorem none_Lat {L : Loc} (hL : L.Empty) : ∀ l, anyLat L l = false
  | .mk _ fn _ _ => by simp [anyLat, none_E hL fn]
theorem none_Lats {L : Loc} (hL : L.Empty) : ∀ ls, anyLats L ls = false
  | [] => rfl
  | l :: r => by simp [anyLats, none_Lat hL l, none_Lats hL r]
theorem none_WTs {L : Loc} (hL : L.Empty) : ∀ ws, anyWTs L ws = false
  | [] => rfl
  | .mk _ q :: r => by simp [anyWTs, none_Q hL q, none_WTs hL r]
theorem none_W {L : Loc} (hL : L.Empty) : ∀ ws, anyW L ws = false
  | none => rfl
  | some ws => by simp [anyW, none_WTs hL ws]
theorem none_Cols {L : Loc} (hL : L.Empty) : ∀ cs, anyCols L cs = false
  | [] => rfl
  | (e, _) :: r => by simp [anyCols, none_E hL e, none_Cols hL r]
theorem none_S {L : Loc} (hL : L.Empty) : ∀ x, anyS L x = false
  | .mk ws _ cols fr lats js wh gb hv ob sb db cb _ => by
    simp [anyS, hL.s, none_W hL ws, none_Cols hL cols, none_OFs hL fr, none_Lats hL lats, none_Js hL js, none_OE hL wh, none_OG hL gb,
      none_OE hL hv, none_OOs hL ob, none_OOs hL sb, none_OEs hL db, none_OEs hL cb]
theorem none_Us {L : Loc} (hL : L.Empty) : ∀ us, anyUs L us = false
  | [] => rfl
  | (_, x) :: r => by simp [anyUs, none_S hL x, none_Us hL r]
theorem none_Q {L : Loc} (hL : L.Empty) : ∀ q, anyQ L q = false
  | .single x => by simp [anyQ, hL.q, none_S hL x]
  | .union ws x us => by simp [anyQ, hL.q, none_W hL ws, none_S hL x, none_Us hL us]
end

/-! ## propagation: a locally refused node anywhere makes the whole print fail -/

/-- every node flagged by `L` makes its own printer call fail under dialect `d` -/
structure Loc.Refused (d : Gen.D) (L : Loc) : Prop where
  e : ∀ x, L.e x = true → ∀ s, prE d x ≠ .ok s
  s : ∀ x, L.s x = true → ∀ r, prS d x ≠ .ok r
  j : ∀ x, L.j x = true → ∀ r, prJoin d x ≠ .ok r
  g : ∀ x, L.g x = true → ∀ r, prGroupBy d x ≠ .ok r
  q : ∀ x, L.q x = true → ∀ r, prQ d x ≠ .ok r

local macro "close_bad" : tactic =>
  `(tactic| simp_all [prE, prList, prList8, prOptE, prArms, prOrd, prOrdList, prTableRef, prFrom, prFromList, prJoin, prJoinList,
      prSets, prLateral, prLateralList, prWithTables, prWithPrefix, prCols, prGroupBy, prUnions, prQ,
      bind_eq_ok, map_eq_ok, fmap_eq_ok, pure_eq_ok, throw_ne_ok])

mutual
theorem bad_E {d : Gen.D} {L : Loc} (hL : L.Refused d) : ∀ e, anyE L e = true → ∀ s, prE d e ≠ .ok s
  | .column t c => by intro hb s h; simp only [anyE] at hb; exact hL.e _ hb s h
  | .literal v => by intro hb s h; simp only [anyE] at hb; exact hL.e _ hb s h
  | .wildcard t => by intro hb s h; simp only [anyE] at hb; exact hL.e _ hb s h
  | .mybatis v => by intro hb s h; simp only [anyE] at hb; exact hL.e _ hb s h
  | .func sc n ps => by
    intro hb s h; have i1 := bad_Es hL ps
    simp only [anyE, Bool.or_eq_true] at hb
    rcases hb with hb | hb
    · exact hL.e _ hb s h
    all_goals close_bad
  | .agg n ps dist => by
    intro hb s h; have i1 := bad_Es hL ps
    simp only [anyE, Bool.or_eq_true] at hb
    rcases hb with hb | hb
    · exact hL.e _ hb s h
    all_goals close_bad
  | .cast e sg ty ps => by
    intro hb s h; have i1 := bad_E hL e
    simp only [anyE, Bool.or_eq_true] at hb
    rcases hb with hb | hb
    · exact hL.e _ hb s h
    all_goals close_bad
  | .extract n e => by
    intro hb s h; have i1 := bad_E hL n; have i2 := bad_E hL e
    simp only [anyE, Bool.or_eq_true, or_assoc] at hb
    rcases hb with hb | hb | hb
    · exact hL.e _ hb s h
    all_goals close_bad
  | .window fn part ord rows => by
    intro hb s h; have i1 := bad_E hL fn; have i2 := bad_Es8 hL part; have i3 := bad_Os hL ord
    simp only [anyE, Bool.or_eq_true, or_assoc] at hb
    rcases hb with hb | hb | hb | hb
    · exact hL.e _ hb s h
    all_goals (rcases rows with _ | ⟨x, y⟩ <;> close_bad)
  | .caseCond cs els => by
    intro hb s h; have i1 := bad_Arms hL cs; have i2 := bad_OE hL els
    simp only [anyE, Bool.or_eq_true, or_assoc] at hb
    rcases hb with hb | hb | hb
    · exact hL.e _ hb s h
    all_goals close_bad
  | .caseVal v cs els => by
    intro hb s h; have i0 := bad_E hL v; have i1 := bad_Arms hL cs; have i2 := bad_OE hL els
    simp only [anyE, Bool.or_eq_true, or_assoc] at hb
    rcases hb with hb | hb | hb | hb
    · exact hL.e _ hb s h
    all_goals close_bad
  | .subValue vs => by
    intro hb s h; have i1 := bad_Es8 hL vs
    simp only [anyE, Bool.or_eq_true] at hb
    rcases hb with hb | hb
    · exact hL.e _ hb s h
    all_goals close_bad
  | .subQuery q => by
    intro hb s h; have i1 := bad_Q hL q
    simp only [anyE, Bool.or_eq_true] at hb
    rcases hb with hb | hb
    · exact hL.e _ hb s h
    all_goals close_bad
  | .exists_ v => by
    intro hb s h; have i1 := bad_E hL v
    simp only [anyE, Bool.or_eq_true] at hb
    rcases hb with hb | hb
    · exact hL.e _ hb s h
    all_goals close_bad
  | .index a i => by
    intro hb s h; have i1 := bad_E hL a; have i2 := bad_E hL i
    simp only [anyE, Bool.or_eq_true, or_assoc] at hb
    rcases hb with hb | hb | hb
    · exact hL.e _ hb s h
    all_goals (simp only [prE] at h; split at h <;> close_bad)
  | .unary o e => by
    intro hb s h; have i1 := bad_E hL e
    simp only [anyE, Bool.or_eq_true] at hb
    rcases hb with hb | hb
    · exact hL.e _ hb s h
    all_goals close_bad
  | .compute l o r => by
    intro hb s h; have i1 := bad_E hL l; have i2 := bad_E hL r
    simp only [anyE, Bool.or_eq_true, or_assoc] at hb
    rcases hb with hb | hb | hb
    · exact hL.e _ hb s h
    all_goals close_bad
  | .kw k n l r => by
    intro hb s h; have i1 := bad_E hL l; have i2 := bad_E hL r
    simp only [anyE, Bool.or_eq_true, or_assoc] at hb
    rcases hb with hb | hb | hb
    · exact hL.e _ hb s h
    all_goals close_bad
  | .between n b f t => by
    intro hb s h; have i1 := bad_E hL b; have i2 := bad_E hL f; have i3 := bad_E hL t
    simp only [anyE, Bool.or_eq_true, or_assoc] at hb
    rcases hb with hb | hb | hb | hb
    · exact hL.e _ hb s h
    all_goals close_bad
  | .compare o l r => by
    intro hb s h; have i1 := bad_E hL l; have i2 := bad_E hL r
    simp only [anyE, Bool.or_eq_true, or_assoc] at hb
    rcases hb with hb | hb | hb
    · exact hL.e _ hb s h
    all_goals close_bad
  | .not_ e => by
    intro hb s h; have i1 := bad_E hL e
    simp only [anyE, Bool.or_eq_true] at hb
    rcases hb with hb | hb
    · exact hL.e _ hb s h
    all_goals close_bad
  | .and_ l r => by
    intro hb s h; have i1 := bad_E hL l; have i2 := bad_E hL r
    simp only [anyE, Bool.or_eq_true, or_assoc] at hb
    rcases hb with hb | hb | hb
    · exact hL.e _ hb s h
    all_goals close_bad
  | .xor l r => by
    intro hb s h; have i1 := bad_E hL l; have i2 := bad_E hL r
    simp only [anyE, Bool.or_eq_true, or_assoc] at hb
    rcases hb with hb | hb | hb
    · exact hL.e _ hb s h
    all_goals close_bad
  | .or_ l r => by
    intro hb s h; have i1 := bad_E hL l; have i2 := bad_E hL r
    simp only [anyE, Bool.or_eq_true, or_assoc] at hb
    rcases hb with hb | hb | hb
    · exact hL.e _ hb s h
    all_goals close_bad
theorem bad_Es {d : Gen.D} {L : Loc} (hL : L.Refused d) : ∀ es, anyEs L es = true → ∀ l, prList d es ≠ .ok l
  | [] => by simp [anyEs]
  | e :: r => by
    intro hb l h; have i1 := bad_E hL e; have i2 := bad_Es hL r
    simp only [anyEs, Bool.or_eq_true] at hb
    rcases hb with hb | hb <;> close_bad
theorem bad_Es8 {d : Gen.D} {L : Loc} (hL : L.Refused d) : ∀ es, anyEs L es = true → ∀ l, prList8 d es ≠ .ok l
  | [] => by simp [anyEs]
  | e :: r => by
    intro hb l h; have i1 := bad_E hL e; have i2 := bad_Es8 hL r
    simp only [anyEs, Bool.or_eq_true] at hb
    rcases hb with hb | hb <;> close_bad
theorem bad_OE {d : Gen.D} {L : Loc} (hL : L.Refused d) : ∀ e, anyOE L e = true → ∀ l, prOptE d e ≠ .ok l
  | none => by simp [anyOE]
  | some e => by
    intro hb l h; have i1 := bad_E hL e
    simp only [anyOE] at hb
    close_bad
theorem bad_Arms {d : Gen.D} {L : Loc} (hL : L.Refused d) : ∀ cs, anyArms L cs = true → ∀ l, prArms d cs ≠ .ok l
  | [] => by simp [anyArms]
  | (w, t) :: r => by
    intro hb l h; have i1 := bad_E hL w; have i2 := bad_E hL t; have i3 := bad_Arms hL r
    simp only [anyArms, Bool.or_eq_true, or_assoc] at hb
    rcases hb with hb | hb | hb <;> close_bad
theorem bad_O {d : Gen.D} {L : Loc} (hL : L.Refused d) : ∀ o, anyO L o = true → ∀ s, prOrd d o ≠ .ok s
  | .mk e _ _ _ => by
    intro hb s h; have i1 := bad_E hL e
    simp only [anyO] at hb
    close_bad
theorem bad_Os {d : Gen.D} {L : Loc} (hL : L.Refused d) : ∀ os, anyOs L os = true → ∀ l, prOrdList d os ≠ .ok l
  | [] => by simp [anyOs]
  | o :: r => by
    intro hb l h; have i1 := bad_O hL o; have i2 := bad_Os hL r
    simp only [anyOs, Bool.or_eq_true] at hb
    rcases hb with hb | hb <;> close_bad
theorem bad_TR {d : Gen.D} {L : Loc} (hL : L.Refused d) : ∀ t, anyTR L t = true → ∀ s, prTableRef d t ≠ .ok s
  | .table _ _ => by simp [anyTR]
  | .sub q => by
    intro hb s h; have i1 := bad_Q hL q
    simp only [anyTR] at hb
    close_bad
theorem bad_F {d : Gen.D} {L : Loc} (hL : L.Refused d) : ∀ t, anyF L t = true → ∀ s, prFrom d t ≠ .ok s
  | .mk t a => by
    intro hb s h; have i1 := bad_TR hL t
    simp only [anyF] at hb
    close_bad
theorem bad_Fs {d : Gen.D} {L : Loc} (hL : L.Refused d) : ∀ ts, anyFs L ts = true → ∀ l, prFromList d ts ≠ .ok l
  | [] => by simp [anyFs]
  | t :: r => by
    intro hb l h; have i1 := bad_F hL t; have i2 := bad_Fs hL r
    simp only [anyFs, Bool.or_eq_true] at hb
    rcases hb with hb | hb <;> close_bad
theorem bad_J {d : Gen.D} {L : Loc} (hL : L.Refused d) : ∀ j, anyJ L j = true → ∀ s, prJoin d j ≠ .ok s
  | .mk ty t none => by
    intro hb s h; have i1 := bad_F hL t
    simp only [anyJ, anyRule, Bool.or_eq_true, Bool.false_eq_true, or_false] at hb
    rcases hb with hb | hb
    · exact hL.j _ hb s h
    all_goals close_bad
  | .mk ty t (some (.on c)) => by
    intro hb s h; have i1 := bad_F hL t; have i2 := bad_E hL c
    simp only [anyJ, anyRule, Bool.or_eq_true, or_assoc] at hb
    rcases hb with hb | hb | hb
    · exact hL.j _ hb s h
    all_goals close_bad
  | .mk ty t (some (.using u)) => by
    intro hb s h; have i1 := bad_F hL t; have i2 := bad_E hL u
    simp only [anyJ, anyRule, Bool.or_eq_true, or_assoc] at hb
    rcases hb with hb | hb | hb
    · exact hL.j _ hb s h
    all_goals close_bad
theorem bad_Js {d : Gen.D} {L : Loc} (hL : L.Refused d) : ∀ js, anyJs L js = true → ∀ l, prJoinList d js ≠ .ok l
  | [] => by simp [anyJs]
  | j :: r => by
    intro hb l h; have i1 := bad_J hL j; have i2 := bad_Js hL r
    simp only [anyJs, Bool.or_eq_true] at hb
    rcases hb with hb | hb <;> close_bad
theorem bad_Sets {d : Gen.D} {L : Loc} (hL : L.Refused d) : ∀ gs, anySets L gs = true → ∀ l, prSets d gs ≠ .ok l
  | [] => by simp [anySets]
  | g :: r => by
    intro hb l h; have i1 := bad_Es8 hL g; have i2 := bad_Sets hL r
    simp only [anySets, Bool.or_eq_true] at hb
    simp only [prSets, bind_eq_ok, map_eq_ok] at h
    obtain ⟨_, ⟨p, hp, -⟩, b, hb', -⟩ := h
    rcases hb with hb | hb
    · exact i1 hb p hp
    · exact i2 hb b hb'
theorem bad_G {d : Gen.D} {L : Loc} (hL : L.Refused d) : ∀ g, anyG L g = true → ∀ s, prGroupBy d g ≠ .ok s
  | .mk gc none cube rollup => by
    intro hb s h; have i1 := bad_Es8 hL gc
    simp only [anyG, anyOSets, Bool.or_eq_true, Bool.false_eq_true, or_false] at hb
    rcases hb with hb | hb
    · exact hL.g _ hb s h
    all_goals close_bad
  | .mk gc (some l) cube rollup => by
    intro hb s h; have i1 := bad_Es8 hL gc; have i2 := bad_Sets hL l
    simp only [anyG, anyOSets, Bool.or_eq_true, or_assoc] at hb
    rcases hb with hb | hb | hb
    · exact hL.g _ hb s h
    all_goals close_bad
theorem bad_Lat {d : Gen.D} {L : Loc} (hL : L.Refused d) : ∀ l, anyLat L l = true → ∀ s, prLateral d l ≠ .ok s
  | .mk _ fn _ _ => by
    intro hb s h; have i1 := bad_E hL fn
    simp only [anyLat] at hb
    close_bad
theorem bad_Lats {d : Gen.D} {L : Loc} (hL : L.Refused d) : ∀ ls, anyLats L ls = true → ∀ l, prLateralList d ls ≠ .ok l
  | [] => by simp [anyLats]
  | x :: r => by
    intro hb l h; have i1 := bad_Lat hL x; have i2 := bad_Lats hL r
    simp only [anyLats, Bool.or_eq_true] at hb
    rcases hb with hb | hb <;> close_bad
theorem bad_WTs {d : Gen.D} {L : Loc} (hL : L.Refused d) : ∀ ws, anyWTs L ws = true → ∀ l, prWithTables d ws ≠ .ok l
  | [] => by simp [anyWTs]
  | .mk _ q :: r => by
    intro hb l h; have i1 := bad_Q hL q; have i2 := bad_WTs hL r
    simp only [anyWTs, Bool.or_eq_true] at hb
    rcases hb with hb | hb <;> close_bad
theorem bad_W {d : Gen.D} {L : Loc} (hL : L.Refused d) (sep : String) : ∀ ws, anyW L ws = true → ∀ s, prWithPrefix d sep ws ≠ .ok s
  | none => by simp [anyW]
  | some [] => by simp [anyW, anyWTs]
  | some (w :: r) => by
    intro hb s h; have i1 := bad_WTs hL (w :: r)
    simp only [anyW] at hb
    simp only [prWithPrefix, List.isEmpty_cons, Bool.false_eq_true, if_false] at h
    close_bad
theorem bad_Cols {d : Gen.D} {L : Loc} (hL : L.Refused d) : ∀ cs, anyCols L cs = true → ∀ l, prCols d cs ≠ .ok l
  | [] => by simp [anyCols]
  | (e, _) :: r => by
    intro hb l h; have i1 := bad_E hL e; have i2 := bad_Cols hL r
    simp only [anyCols, Bool.or_eq_true] at hb
    rcases hb with hb | hb <;> close_bad
theorem bad_S {d : Gen.D} {L : Loc} (hL : L.Refused d) : ∀ x, anyS L x = true → ∀ s, prS d x ≠ .ok s
  | .mk ws dist cols fr lats js wh gb hv ob sb db cb lm => by
    intro hb s h
    have i1 := bad_W hL "\n" ws; have i2 := bad_Cols hL cols; have i4 := bad_Lats hL lats; have i5 := bad_Js hL js
    simp only [anyS, Bool.or_eq_true, or_assoc] at hb
    rcases hb with hb | hb
    · exact hL.s _ hb s h
    rw [prS_eq] at h
    obtain ⟨w, hw, h⟩ := (bind_eq_ok _ _ _).1 h
    obtain ⟨_, hg, h⟩ := (bind_eq_ok _ _ _).1 h
    simp only [prSRest, bind_eq_ok] at h
    obtain ⟨cs, hcs, frs, hfrs, lts, hlts, jss, hjss, whs, hwhs, gbs, hgbs, hvs, hhvs, obs, hobs, hive, hhive, -⟩ := h
    rcases hb with hb | hb | hb | hb | hb | hb | hb | hb | hb | hb | hb | hb
    · exact i1 hb _ hw
    · exact i2 hb _ hcs
    · cases fr with
      | none => simp [anyOFs] at hb
      | some l =>
        simp only [prOptFrom, map_eq_ok] at hfrs; simp only [anyOFs] at hb
        obtain ⟨x, hx, -⟩ := hfrs; exact bad_Fs hL l hb x hx
    · exact i4 hb _ hlts
    · exact i5 hb _ hjss
    · cases wh with
      | none => simp [anyOE] at hb
      | some e =>
        simp only [prOptWhere, map_eq_ok] at hwhs; simp only [anyOE] at hb
        obtain ⟨x, hx, -⟩ := hwhs; exact bad_E hL e hb x hx
    · cases gb with
      | none => simp [anyOG] at hb
      | some g =>
        simp only [prOptGroup, map_eq_ok] at hgbs; simp only [anyOG] at hb
        obtain ⟨x, hx, -⟩ := hgbs; exact bad_G hL g hb x hx
    · cases hv with
      | none => simp [anyOE] at hb
      | some e =>
        simp only [prOptHaving, map_eq_ok] at hhvs; simp only [anyOE] at hb
        obtain ⟨x, hx, -⟩ := hhvs; exact bad_E hL e hb x hx
    · cases ob with
      | none => simp [anyOOs] at hb
      | some l =>
        simp only [prOptOrder, map_eq_ok] at hobs; simp only [anyOOs] at hb
        obtain ⟨x, hx, -⟩ := hobs; exact bad_Os hL l hb x hx
    · cases sb with
      | none => simp [anyOOs] at hb
      | some l =>
        simp only [anyOOs] at hb
        by_cases hd : d = .HIVE
        · subst hd
          simp only [prHive, beq_self_eq_true, if_true, bind_eq_ok, prOptSort, map_eq_ok] at hhive
          obtain ⟨_, ⟨x, hx, -⟩, -⟩ := hhive; exact bad_Os hL l hb x hx
        · simp [prSGuard, hd] at hg
    · cases db with
      | none => simp [anyOEs] at hb
      | some l =>
        simp only [anyOEs] at hb
        by_cases hd : d = .HIVE
        · subst hd
          simp only [prHive, beq_self_eq_true, if_true, bind_eq_ok, prOptDistribute, map_eq_ok] at hhive
          obtain ⟨_, -, _, ⟨x, hx, -⟩, -⟩ := hhive; exact bad_Es8 hL l hb x hx
        · simp [prSGuard, hd] at hg
    · cases cb with
      | none => simp [anyOEs] at hb
      | some l =>
        simp only [anyOEs] at hb
        by_cases hd : d = .HIVE
        · subst hd
          simp only [prHive, beq_self_eq_true, if_true, bind_eq_ok, prOptCluster, map_eq_ok] at hhive
          obtain ⟨_, -, _, -, _, ⟨x, hx, -⟩, -⟩ := hhive; exact bad_Es8 hL l hb x hx
        · simp [prSGuard, hd] at hg
theorem bad_Us {d : Gen.D} {L : Loc} (hL : L.Refused d) : ∀ us, anyUs L us = true → ∀ l, prUnions d us ≠ .ok l
  | [] => by simp [anyUs]
  | (_, x) :: r => by
    intro hb l h; have i1 := bad_S hL x; have i2 := bad_Us hL r
    simp only [anyUs, Bool.or_eq_true] at hb
    rcases hb with hb | hb <;> close_bad
theorem bad_Q {d : Gen.D} {L : Loc} (hL : L.Refused d) : ∀ q, anyQ L q = true → ∀ s, prQ d q ≠ .ok s
  | .single x => by
    intro hb s h; have i1 := bad_S hL x
    simp only [anyQ, Bool.or_eq_true] at hb
    rcases hb with hb | hb
    · exact hL.q _ hb s h
    all_goals close_bad
  | .union ws x us => by
    intro hb s h; have i0 := bad_W hL "\n" ws; have i1 := bad_S hL x; have i2 := bad_Us hL us
    simp only [anyQ, Bool.or_eq_true, or_assoc] at hb
    rcases hb with hb | hb | hb | hb
    · exact hL.q _ hb s h
    all_goals close_bad
end

/-! ## irrelevance: two dialects print alike wherever they answer the printer's dialect tests alike -/

/-- `L` flags every node at which the printers for `d` and `d'` could take different branches -/
structure Loc.Covers (d d' : Gen.D) (L : Loc) : Prop where
  col : ∀ t c, L.e (.column t c) = false → columnSrc d t c = columnSrc d' t c
  un : ∀ o e, L.e (.unary o e) = false → computeOpSrc d o = computeOpSrc d' o
  bin : ∀ l o r, L.e (.compute l o r) = false → computeOpSrc d o = computeOpSrc d' o
  idx : ∀ a i, L.e (.index a i) = false → (d != .HIVE) = (d' != .HIVE)
  hive : ∀ ws dist cols fr lats js wh gb hv ob sb db cb lm, L.s (.mk ws dist cols fr lats js wh gb hv ob sb db cb lm) = false →
    (d == .HIVE) = (d' == .HIVE) ∨ (sb = none ∧ db = none ∧ cb = none)
  lat : ∀ ws dist cols fr lats js wh gb hv ob sb db cb lm, L.s (.mk ws dist cols fr lats js wh gb hv ob sb db cb lm) = false →
    (d == .HIVE || d == .DEFAULT) = (d' == .HIVE || d' == .DEFAULT) ∨ lats = []

theorem prSGuard_congr {d d' : Gen.D} {lats : List Lateral} {sb : Option (List OrderItem)} {db cb : Option (List Expr)}
    (h1 : (d == .HIVE) = (d' == .HIVE) ∨ (sb = none ∧ db = none ∧ cb = none))
    (h2 : (d == .HIVE || d == .DEFAULT) = (d' == .HIVE || d' == .DEFAULT) ∨ lats = []) :
    prSGuard d lats sb db cb = prSGuard d' lats sb db cb := by
  unfold prSGuard
  rcases h1 with h1 | ⟨rfl, rfl, rfl⟩ <;> rcases h2 with h2 | rfl
  · simp only [bne, h2]; simp only [h1]
  · simp only [bne, h1, List.isEmpty_nil, Bool.not_true, Bool.and_false, Bool.false_eq_true, if_false]
  · simp only [bne, h2, Option.isSome_none, Bool.or_false, Bool.and_false, Bool.false_eq_true, if_false]
  · simp only [Option.isSome_none, Bool.or_false, Bool.and_false, Bool.false_eq_true, if_false, List.isEmpty_nil, Bool.not_true]

local macro "close_eq" : tactic =>
  `(tactic| simp_all [anyE, anyEs, anyOE, anyArms, anyO, anyOs, anyTR, anyF, anyFs, anyRule, anyJ, anyJs, anySets, anyOSets, anyG,
      anyLat, anyLats, anyWTs, anyW, anyCols, anyUs, anyQ,
      prE, prList, prList8, prOptE, prArms, prOrd, prOrdList, prTableRef, prFrom, prFromList, prJoin, prJoinList,
      prSets, prLateral, prLateralList, prWithTables, prWithPrefix, prCols, prGroupBy, prUnions, prQ])

mutual
theorem eq_E {d d' : Gen.D} {L : Loc} (hC : L.Covers d d') : ∀ e, anyE L e = false → prE d e = prE d' e
  | .column t c => by intro hb; have := hC.col t c; close_eq
  | .literal v => by intro _; simp [prE]
  | .wildcard t => by intro _; cases t <;> simp [prE]
  | .mybatis v => by intro _; simp [prE]
  | .func sc n ps => by intro hb; have i1 := eq_Es hC ps; close_eq
  | .agg n ps dist => by intro hb; have i1 := eq_Es hC ps; close_eq
  | .cast e sg ty ps => by intro hb; have i1 := eq_E hC e; close_eq
  | .extract n e => by intro hb; have i1 := eq_E hC n; have i2 := eq_E hC e; close_eq
  | .window fn part ord rows => by
    intro hb; have i1 := eq_E hC fn; have i2 := eq_Es8 hC part; have i3 := eq_Os hC ord
    rcases rows with _ | ⟨x, y⟩ <;> close_eq
  | .caseCond cs els => by intro hb; have i1 := eq_Arms hC cs; have i2 := eq_OE hC els; close_eq
  | .caseVal v cs els => by intro hb; have i0 := eq_E hC v; have i1 := eq_Arms hC cs; have i2 := eq_OE hC els; close_eq
  | .subValue vs => by intro hb; have i1 := eq_Es8 hC vs; close_eq
  | .subQuery q => by intro hb; have i1 := eq_Q hC q; close_eq
  | .exists_ v => by intro hb; have i1 := eq_E hC v; close_eq
  | .index a i => by intro hb; have i1 := eq_E hC a; have i2 := eq_E hC i; have := hC.idx a i; close_eq
  | .unary o e => by intro hb; have i1 := eq_E hC e; have := hC.un o e; close_eq
  | .compute l o r => by intro hb; have i1 := eq_E hC l; have i2 := eq_E hC r; have := hC.bin l o r; close_eq
  | .kw k n l r => by intro hb; have i1 := eq_E hC l; have i2 := eq_E hC r; close_eq
  | .between n b f t => by intro hb; have i1 := eq_E hC b; have i2 := eq_E hC f; have i3 := eq_E hC t; close_eq
  | .compare o l r => by intro hb; have i1 := eq_E hC l; have i2 := eq_E hC r; close_eq
  | .not_ e => by intro hb; have i1 := eq_E hC e; close_eq
  | .and_ l r => by intro hb; have i1 := eq_E hC l; have i2 := eq_E hC r; close_eq
  | .xor l r => by intro hb; have i1 := eq_E hC l; have i2 := eq_E hC r; close_eq
  | .or_ l r => by intro hb; have i1 := eq_E hC l; have i2 := eq_E hC r; close_eq
theorem eq_Es {d d' : Gen.D} {L : Loc} (hC : L.Covers d d') : ∀ es, anyEs L es = false → prList d es = prList d' es
  | [] => by intro _; simp [prList]
  | e :: r => by intro hb; have i1 := eq_E hC e; have i2 := eq_Es hC r; close_eq
theorem eq_Es8 {d d' : Gen.D} {L : Loc} (hC : L.Covers d d') : ∀ es, anyEs L es = false → prList8 d es = prList8 d' es
  | [] => by intro _; simp [prList8]
  | e :: r => by intro hb; have i1 := eq_E hC e; have i2 := eq_Es8 hC r; close_eq
theorem eq_OE {d d' : Gen.D} {L : Loc} (hC : L.Covers d d') : ∀ e, anyOE L e = false → prOptE d e = prOptE d' e
  | none => by intro _; simp [prOptE]
  | some e => by intro hb; have i1 := eq_E hC e; close_eq
theorem eq_Arms {d d' : Gen.D} {L : Loc} (hC : L.Covers d d') : ∀ cs, anyArms L cs = false → prArms d cs = prArms d' cs
  | [] => by intro _; simp [prArms]
  | (w, t) :: r => by intro hb; have i1 := eq_E hC w; have i2 := eq_E hC t; have i3 := eq_Arms hC r; close_eq
theorem eq_O {d d' : Gen.D} {L : Loc} (hC : L.Covers d d') : ∀ o, anyO L o = false → prOrd d o = prOrd d' o
  | .mk e _ _ _ => by intro hb; have i1 := eq_E hC e; close_eq
theorem eq_Os {d d' : Gen.D} {L : Loc} (hC : L.Covers d d') : ∀ os, anyOs L os = false → prOrdList d os = prOrdList d' os
  | [] => by intro _; simp [prOrdList]
  | o :: r => by intro hb; have i1 := eq_O hC o; have i2 := eq_Os hC r; close_eq
theorem eq_TR {d d' : Gen.D} {L : Loc} (hC : L.Covers d d') : ∀ t, anyTR L t = false → prTableRef d t = prTableRef d' t
  | .table _ _ => by intro _; simp [prTableRef]
  | .sub q => by intro hb; have i1 := eq_Q hC q; close_eq
theorem eq_F {d d' : Gen.D} {L : Loc} (hC : L.Covers d d') : ∀ t, anyF L t = false → prFrom d t = prFrom d' t
  | .mk t a => by intro hb; have i1 := eq_TR hC t; close_eq
theorem eq_Fs {d d' : Gen.D} {L : Loc} (hC : L.Covers d d') : ∀ ts, anyFs L ts = false → prFromList d ts = prFromList d' ts
  | [] => by intro _; simp [prFromList]
  | t :: r => by intro hb; have i1 := eq_F hC t; have i2 := eq_Fs hC r; close_eq
theorem eq_J {d d' : Gen.D} {L : Loc} (hC : L.Covers d d') : ∀ j, anyJ L j = false → prJoin d j = prJoin d' j
  | .mk ty t none => by intro hb; have i1 := eq_F hC t; close_eq
  | .mk ty t (some (.on c)) => by intro hb; have i1 := eq_F hC t; have i2 := eq_E hC c; close_eq
  | .mk ty t (some (.using u)) => by intro hb; have i1 := eq_F hC t; have i2 := eq_E hC u; close_eq
theorem eq_Js {d d' : Gen.D} {L : Loc} (hC : L.Covers d d') : ∀ js, anyJs L js = false → prJoinList d js = prJoinList d' js
  | [] => by intro _; simp [prJoinList]
  | j :: r => by intro hb; have i1 := eq_J hC j; have i2 := eq_Js hC r; close_eq
theorem eq_Sets {d d' : Gen.D} {L : Loc} (hC : L.Covers d d') : ∀ gs, anySets L gs = false → prSets d gs = prSets d' gs
  | [] => by intro _; simp [prSets]
  | g :: r => by
    intro hb; have i1 := eq_Es8 hC g; have i2 := eq_Sets hC r
    simp only [anySets, Bool.or_eq_false_iff] at hb
    simp only [prSets, i1 hb.1, i2 hb.2]
theorem eq_G {d d' : Gen.D} {L : Loc} (hC : L.Covers d d') : ∀ g, anyG L g = false → prGroupBy d g = prGroupBy d' g
  | .mk gc none cube rollup => by intro hb; have i1 := eq_Es8 hC gc; close_eq
  | .mk gc (some l) cube rollup => by intro hb; have i1 := eq_Es8 hC gc; have i2 := eq_Sets hC l; close_eq
theorem eq_Lat {d d' : Gen.D} {L : Loc} (hC : L.Covers d d') : ∀ l, anyLat L l = false → prLateral d l = prLateral d' l
  | .mk _ fn _ _ => by intro hb; have i1 := eq_E hC fn; close_eq
theorem eq_Lats {d d' : Gen.D} {L : Loc} (hC : L.Covers d d') : ∀ ls, anyLats L ls = false → prLateralList d ls = prLateralList d' ls
  | [] => by intro _; simp [prLateralList]
  | x :: r => by intro hb; have i1 := eq_Lat hC x; have i2 := eq_Lats hC r; close_eq
theorem eq_WTs {d d' : Gen.D} {L : Loc} (hC : L.Covers d d') : ∀ ws, anyWTs L ws = false → prWithTables d ws = prWithTables d' ws
  | [] => by intro _; simp [prWithTables]
  | .mk _ q :: r => by intro hb; have i1 := eq_Q hC q; have i2 := eq_WTs hC r; close_eq
theorem eq_W {d d' : Gen.D} {L : Loc} (hC : L.Covers d d') (sep : String) : ∀ ws, anyW L ws = false → prWithPrefix d sep ws = prWithPrefix d' sep ws
  | none => by intro _; simp [prWithPrefix]
  | some ws => by intro hb; have i1 := eq_WTs hC ws; close_eq
theorem eq_Cols {d d' : Gen.D} {L : Loc} (hC : L.Covers d d') : ∀ cs, anyCols L cs = false → prCols d cs = prCols d' cs
  | [] => by intro _; simp [prCols]
  | (e, _) :: r => by intro hb; have i1 := eq_E hC e; have i2 := eq_Cols hC r; close_eq
theorem eq_S {d d' : Gen.D} {L : Loc} (hC : L.Covers d d') : ∀ x, anyS L x = false → prS d x = prS d' x
  | .mk ws dist cols fr lats js wh gb hv ob sb db cb lm => by
    intro hb
    simp only [anyS, Bool.or_eq_false_iff, and_assoc] at hb
    obtain ⟨hs, hws, hcols, hfr, hlats, hjs, hwh, hgb, hhv, hob, hsb, hdb, hcb⟩ := hb
    have e1 := eq_W hC "\n" ws hws; have e2 := eq_Cols hC cols hcols; have e4 := eq_Lats hC lats hlats; have e5 := eq_Js hC js hjs
    have e3 : prOptFrom d fr = prOptFrom d' fr := by
      cases fr with
      | none => rfl
      | some l => simp only [prOptFrom, eq_Fs hC l (by simpa only [anyOFs] using hfr)]
    have e6 : prOptWhere d wh = prOptWhere d' wh := by
      cases wh with
      | none => rfl
      | some e => simp only [prOptWhere, eq_E hC e (by simpa only [anyOE] using hwh)]
    have e7 : prOptGroup d gb = prOptGroup d' gb := by
      cases gb with
      | none => rfl
      | some g => simp only [prOptGroup, eq_G hC g (by simpa only [anyOG] using hgb)]
    have e8 : prOptHaving d hv = prOptHaving d' hv := by
      cases hv with
      | none => rfl
      | some e => simp only [prOptHaving, eq_E hC e (by simpa only [anyOE] using hhv)]
    have e9 : prOptOrder d ob = prOptOrder d' ob := by
      cases ob with
      | none => rfl
      | some l => simp only [prOptOrder, eq_Os hC l (by simpa only [anyOOs] using hob)]
    have e10 : prOptSort d sb = prOptSort d' sb := by
      cases sb with
      | none => rfl
      | some l => simp only [prOptSort, eq_Os hC l (by simpa only [anyOOs] using hsb)]
    have e11 : prOptDistribute d db = prOptDistribute d' db := by
      cases db with
      | none => rfl
      | some l => simp only [prOptDistribute, eq_Es8 hC l (by simpa only [anyOEs] using hdb)]
    have e12 : prOptCluster d cb = prOptCluster d' cb := by
      cases cb with
      | none => rfl
      | some l => simp only [prOptCluster, eq_Es8 hC l (by simpa only [anyOEs] using hcb)]
    have hh := hC.hive _ _ _ _ _ _ _ _ _ _ _ _ _ _ hs
    have hl := hC.lat _ _ _ _ _ _ _ _ _ _ _ _ _ _ hs
    have eg := prSGuard_congr hh hl
    have eh : prHive d sb db cb = prHive d' sb db cb := by
      unfold prHive
      rcases hh with hh | ⟨rfl, rfl, rfl⟩
      · rw [e10, e11, e12, hh]
      · cases d <;> cases d' <;> rfl
    rw [prS_eq, prS_eq, e1, eg]
    simp only [prSRest, e2, e3, e4, e5, e6, e7, e8, e9, eh]
theorem eq_Us {d d' : Gen.D} {L : Loc} (hC : L.Covers d d') : ∀ us, anyUs L us = false → prUnions d us = prUnions d' us
  | [] => by intro _; simp [prUnions]
  | (_, x) :: r => by intro hb; have i1 := eq_S hC x; have i2 := eq_Us hC r; close_eq
theorem eq_Q {d d' : Gen.D} {L : Loc} (hC : L.Covers d d') : ∀ q, anyQ L q = false → prQ d q = prQ d' q
  | .single x => by intro hb; have i1 := eq_S hC x; close_eq
  | .union ws x us => by intro hb; have i0 := eq_W hC "\n" ws; have i1 := eq_S hC x; have i2 := eq_Us hC us; close_eq
end

/-! ## statements -/

theorem not_ok_iff_error {ε α : Type} (x : Except ε α) : (∀ a, x ≠ .ok a) ↔ ∃ e, x = .error e := by
  cases x <;> simp

theorem mapM'_ok {α : Type} (f : α → P) : ∀ (l : List α) (r : List String), mapM' f l = .ok r → ∀ a ∈ l, ∃ s, f a = .ok s
  | [], _, _ => by simp
  | a :: l, r, h => by
    simp only [mapM', bind_eq_ok, pure_eq_ok] at h
    obtain ⟨x, hx, y, hy, -⟩ := h
    intro b hb
    rcases List.mem_cons.1 hb with rfl | hb
    · exact ⟨x, hx⟩
    · exact mapM'_ok f l y hy b hb

theorem mapM'_congr {α : Type} (f g : α → P) : ∀ (l : List α), (∀ a ∈ l, f a = g a) → mapM' f l = mapM' g l
  | [], _ => rfl
  | a :: l, h => by
    simp only [mapM', h a (List.mem_cons_self ..), mapM'_congr f g l (fun b hb => h b (List.mem_cons_of_mem _ hb))]

/-- the dialect guard of `prInsertHead` -/
def headGuard (d : Gen.D) (ty : String) : Except Err Unit :=
  if ty == "INSERT_OVERWRITE" && !(d == .HIVE || d == .DEFAULT) then .error .notSupported else .ok ()

def prOptPartition (d : Gen.D) : Option (List Expr) → P
  | some p => (prPartition d p).map fun x => x ++ " " | none => pure ""

/-- `prInsertHead` after its guard -/
def prHeadRest (d : Gen.D) (h : InsertHead) : P := do
  let ty ← wordsSrc Gen.insertTypes h.type
  let part ← prOptPartition d h.partition
  let cols := match h.columns with
    | some cs => "(" ++ joinS ", " (cs.map fun (t, c) => columnSrc d t c) ++ ") "
    | none => ""
  let w ← prWithPrefix d "\n" h.withs
  pure s!"{w}{ty} {if d == .HIVE then "TABLE " else ""}{tn h.table} {part}{cols}"

theorem prInsertHead_eq (d : Gen.D) (h : InsertHead) : prInsertHead d h = (headGuard d h.type >>= fun _ => prHeadRest d h) := by
  unfold prInsertHead headGuard
  by_cases h1 : (h.type == "INSERT_OVERWRITE" && !(d == .HIVE || d == .DEFAULT)) = true
  · simp only [h1, if_true]; rfl
  · simp only [h1]; rfl

def prOptWhereS (d : Gen.D) : Option Expr → P
  | some e => (prE d e).map fun x => s!" WHERE {x}" | none => pure ""
def prOptOrderS (d : Gen.D) : Option (List OrderItem) → P
  | some l => (prOrdList d l).map fun x => " ORDER BY " ++ joinS ", " x | none => pure ""

theorem prTail_eq (d : Gen.D) (wh : Option Expr) (ob : Option (List OrderItem)) (lm : Option (Int × Option Int)) :
    prTail d wh ob lm = (do
      let a ← prOptWhereS d wh
      let b ← prOptOrderS d ob
      pure (a ++ b ++ (match lm with | some l => " " ++ limitSrc l | none => "")) : P) := rfl

/-- the query-tree children of a statement that EVERY dialect's printer visits.  Not traversed (and why): the
expressions inside column definitions of CREATE / ALTER TABLE (`DEFAULT`, `ON UPDATE`, generated columns are printed
for MySQL only; type parameters are dropped by Hive except for DECIMAL/VARCHAR/CHAR), and the PARTITION of ANALYZE TABLE
(MySQL prints the statement without it). -/
def anyAlterOp (L : Loc) : AlterOp → Bool
  | .addPartition _ p => anyEs L p
  | .dropPartition _ p => anyEs L p
  | _ => false

def anyHead (L : Loc) (h : InsertHead) : Bool := anyOEs L h.partition || anyW L h.withs

def anyStmt (L : Loc) : Stmt → Bool
  | .select q => anyQ L q
  | .insertValues h vs => vs.any (anyEs L) || anyHead L h
  | .insertSelect h q => anyHead L h || anyQ L q
  | .update ws _ sets wh ob _ => anyW L ws || sets.any (fun cv => anyE L cv.2) || anyOE L wh || anyOOs L ob
  | .delete _ wh ob _ => anyOE L wh || anyOOs L ob
  | .createTableAs _ _ q => anyQ L q
  | .alter _ ops => ops.any (anyAlterOp L)
  | .showColumns fr wh => anyOE L wh || anyFs L fr
  | _ => false

/-- the partition item printer succeeds / fails exactly like the expression printer on the item (same components, same order) -/
theorem prPartItem_shape (d : Gen.D) : ∀ e, (∃ a b, prPartItem d e = .ok a ∧ prE d e = .ok b) ∨ (∃ x, prPartItem d e = .error x ∧ prE d e = .error x) := by
  intro e
  have gen : ∀ e, (∃ a b, (prE d e).map (wrap e 8) = .ok a ∧ prE d e = .ok b) ∨ (∃ x, (prE d e).map (wrap e 8) = .error x ∧ prE d e = .error x) := by
    intro e; cases h : prE d e with
    | ok b => exact .inl ⟨_, b, rfl, rfl⟩
    | error x => exact .inr ⟨x, rfl, rfl⟩
  cases e with
  | compare o l r =>
    simp only [prPartItem, prE, bind, Except.bind, pure, Except.pure]
    cases prE d l with
    | error x => exact .inr ⟨x, rfl, rfl⟩
    | ok a =>
      simp only [Except.map]
      cases compareOpSrc o with
      | error x => exact .inr ⟨x, rfl, rfl⟩
      | ok b =>
        cases prE d r with
        | error x => exact .inr ⟨x, rfl, rfl⟩
        | ok c => exact .inl ⟨_, _, rfl, rfl⟩
  | _ => simpa only [prPartItem] using gen _

theorem bad_Ps {d : Gen.D} {L : Loc} (hL : L.Refused d) : ∀ es, anyEs L es = true → ∀ l, prPartList d es ≠ .ok l
  | [] => by simp [anyEs]
  | e :: r => by
    intro hb l h
    simp only [prPartList, bind_eq_ok] at h
    obtain ⟨a, ha, b, hb', -⟩ := h
    simp only [anyEs, Bool.or_eq_true] at hb
    rcases hb with hb | hb
    · rcases prPartItem_shape d e with ⟨_, b', -, hb2⟩ | ⟨x, hx, -⟩
      · exact bad_E hL e hb b' hb2
      · rw [hx] at ha; cases ha
    · exact bad_Ps hL r hb b hb'

theorem bad_OptPartition {d : Gen.D} {L : Loc} (hL : L.Refused d) : ∀ p, anyOEs L p = true → ∀ s, prOptPartition d p ≠ .ok s
  | none => by simp [anyOEs]
  | some p => by
    intro hb s h
    simp only [prOptPartition, prPartition, map_eq_ok] at h
    obtain ⟨_, ⟨x, hx, -⟩, -⟩ := h
    exact bad_Ps hL p (by simpa only [anyOEs] using hb) x hx

theorem bad_Head {d : Gen.D} {L : Loc} (hL : L.Refused d) (h : InsertHead) (hb : anyHead L h = true) : ∀ s, prInsertHead d h ≠ .ok s := by
  intro s hs
  rw [prInsertHead_eq] at hs
  obtain ⟨_, -, hs⟩ := (bind_eq_ok _ _ _).1 hs
  simp only [prHeadRest, bind_eq_ok] at hs
  obtain ⟨ty, -, part, hpart, w, hw, -⟩ := hs
  simp only [anyHead, Bool.or_eq_true] at hb
  rcases hb with hb | hb
  · exact bad_OptPartition hL _ hb _ hpart
  · exact bad_W hL _ _ hb _ hw

theorem bad_Tail {d : Gen.D} {L : Loc} (hL : L.Refused d) (wh : Option Expr) (ob : Option (List OrderItem)) (lm : Option (Int × Option Int))
    (hb : (anyOE L wh || anyOOs L ob) = true) : ∀ s, prTail d wh ob lm ≠ .ok s := by
  intro s hs
  rw [prTail_eq] at hs
  simp only [bind_eq_ok] at hs
  obtain ⟨a, ha, b, hb', -⟩ := hs
  simp only [Bool.or_eq_true] at hb
  rcases hb with hb | hb
  · cases wh with
    | none => simp [anyOE] at hb
    | some e =>
      simp only [prOptWhereS, map_eq_ok] at ha; obtain ⟨x, hx, -⟩ := ha
      exact bad_E hL e (by simpa only [anyOE] using hb) x hx
  · cases ob with
    | none => simp [anyOOs] at hb
    | some l =>
      simp only [prOptOrderS, map_eq_ok] at hb'; obtain ⟨x, hx, -⟩ := hb'
      exact bad_Os hL l (by simpa only [anyOOs] using hb) x hx

theorem bad_AlterOp {d : Gen.D} {L : Loc} (hL : L.Refused d) : ∀ o, anyAlterOp L o = true → ∀ s, prAlterOp d o ≠ .ok s
  | .addPartition _ p => by
    intro hb s h
    simp only [prAlterOp, prPartition, map_eq_ok] at h
    obtain ⟨_, ⟨x, hx, -⟩, -⟩ := h
    exact bad_Ps hL p hb x hx
  | .dropPartition _ p => by
    intro hb s h
    simp only [prAlterOp, prPartition, map_eq_ok] at h
    obtain ⟨_, ⟨x, hx, -⟩, -⟩ := h
    exact bad_Ps hL p hb x hx
  | .add _ | .modify _ | .change _ _ | .renameColumn _ _ | .dropColumn _ => by simp [anyAlterOp]

/-- propagation for statements -/
theorem bad_Stmt {d : Gen.D} {L : Loc} (hL : L.Refused d) : ∀ st, anyStmt L st = true → ∀ s, prStmt d st ≠ .ok s
  | .select q => by intro hb s h; exact bad_Q hL q hb s h
  | .insertValues hd vs => by
    intro hb s h
    simp only [prStmt, bind_eq_ok] at h
    obtain ⟨rows, hrows, x, hx, -⟩ := h
    simp only [anyStmt, Bool.or_eq_true, List.any_eq_true] at hb
    rcases hb with ⟨r, hr, hb⟩ | hb
    · obtain ⟨y, hy⟩ := mapM'_ok _ _ _ hrows r hr
      simp only [map_eq_ok] at hy
      obtain ⟨z, hz, -⟩ := hy
      exact bad_Es8 hL r hb z hz
    · exact bad_Head hL hd hb x hx
  | .insertSelect hd q => by
    intro hb s h
    simp only [prStmt, bind_eq_ok] at h
    obtain ⟨x, hx, y, hy, -⟩ := h
    simp only [anyStmt, Bool.or_eq_true] at hb
    rcases hb with hb | hb
    · exact bad_Head hL hd hb x hx
    · exact bad_Q hL q hb y hy
  | .update ws t sets wh ob lm => by
    intro hb s h
    simp only [prStmt, bind_eq_ok] at h
    obtain ⟨w, hw, ss, hss, tl, htl, -⟩ := h
    simp only [anyStmt, Bool.or_eq_true, List.any_eq_true, or_assoc] at hb
    rcases hb with hb | ⟨cv, hcv, hb⟩ | hb
    · exact bad_W hL _ ws hb w hw
    · obtain ⟨y, hy⟩ := mapM'_ok _ _ _ hss cv hcv
      simp only [map_eq_ok] at hy
      obtain ⟨z, hz, -⟩ := hy
      exact bad_E hL cv.2 hb z hz
    · exact bad_Tail hL wh ob lm (by simpa only [Bool.or_eq_true] using hb) tl htl
  | .delete t wh ob lm => by
    intro hb s h
    simp only [prStmt, bind_eq_ok] at h
    obtain ⟨tl, htl, -⟩ := h
    exact bad_Tail hL wh ob lm hb tl htl
  | .createTableAs t ine q => by
    intro hb s h
    simp only [prStmt, map_eq_ok] at h
    obtain ⟨x, hx, -⟩ := h
    exact bad_Q hL q hb x hx
  | .alter t ops => by
    intro hb s h
    simp only [prStmt, map_eq_ok] at h
    obtain ⟨l, hl, -⟩ := h
    simp only [anyStmt, List.any_eq_true] at hb
    obtain ⟨o, ho, hb⟩ := hb
    obtain ⟨y, hy⟩ := mapM'_ok _ _ _ hl o ho
    exact bad_AlterOp hL o hb y hy
  | .showColumns fr wh => by
    intro hb s h
    simp only [prStmt, bind_eq_ok] at h
    obtain ⟨w, hw, f, hf, -⟩ := h
    simp only [anyStmt, Bool.or_eq_true] at hb
    rcases hb with hb | hb
    · cases wh with
      | none => simp [anyOE] at hb
      | some e =>
        simp only [map_eq_ok] at hw; obtain ⟨x, hx, -⟩ := hw
        exact bad_E hL e (by simpa only [anyOE] using hb) x hx
    · exact bad_Fs hL fr hb f hf
  | .createTable _ | .dropTable _ _ | .set _ | .analyze _ _ _ _ _ | .msck _ | .use _ | .truncate _ | .showDatabases | .showTables => by
    simp [anyStmt]

/-! ## which errors can come out: `OkOr E x` — `x` succeeds, or fails with an error in `E` -/

def OkOr (E : Err → Prop) {α : Type} (x : Except Err α) : Prop := ∀ err, x = .error err → E err

theorem OkOr.ok {E : Err → Prop} {α : Type} (a : α) : OkOr E (Except.ok a) := by intro e h; cases h
theorem OkOr.pure {E : Err → Prop} {α : Type} (a : α) : OkOr E (Pure.pure a : Except Err α) := by intro e h; cases h
theorem OkOr.error {E : Err → Prop} {α : Type} {e : Err} (h : E e) : OkOr E (Except.error e : Except Err α) := by
  intro e' h'; cases h'; exact h
theorem OkOr.bind {E : Err → Prop} {α β : Type} {x : Except Err α} {f : α → Except Err β}
    (hx : OkOr E x) (hf : ∀ a, OkOr E (f a)) : OkOr E (x >>= f) := by
  intro e h
  cases x with
  | error e' => cases h; exact hx _ rfl
  | ok a => exact hf a e h
theorem OkOr.map {E : Err → Prop} {α β : Type} {x : Except Err α} {f : α → β} (hx : OkOr E x) : OkOr E (Except.map f x) := by
  intro e h
  cases x with
  | error e' => cases h; exact hx _ rfl
  | ok a => cases h
/-- with `E` empty, `OkOr` is success -/
theorem OkOr.total {α : Type} {x : Except Err α} (h : OkOr (fun _ => False) x) : ∃ a, x = .ok a := by
  cases x with
  | error e => exact (h e rfl).elim
  | ok a => exact ⟨a, rfl⟩

/-- at every node NOT flagged by `L`, the printer's own (non-recursive) steps succeed or fail within `E` -/
structure Loc.Clean (d : Gen.D) (E : Err → Prop) (L : Loc) : Prop where
  un : ∀ o e, L.e (.unary o e) = false → OkOr E (computeOpSrc d o)
  bin : ∀ l o r, L.e (.compute l o r) = false → OkOr E (computeOpSrc d o)
  cmp : ∀ o l r, L.e (.compare o l r) = false → OkOr E (compareOpSrc o)
  cast : ∀ e sg ty ps, L.e (.cast e sg ty ps) = false → OkOr E (valueSrc Gen.castTypes ty)
  idx : ∀ a i, L.e (.index a i) = false → d = .HIVE ∨ E .notSupported
  sel : ∀ ws dist cols fr lats js wh gb hv ob sb db cb lm, L.s (.mk ws dist cols fr lats js wh gb hv ob sb db cb lm) = false →
    ws ≠ none ∧ OkOr E (prSGuard d lats sb db cb)
  join : ∀ ty t rule, L.j (.mk ty t rule) = false → OkOr E (wordsSrc Gen.joinTypes ty)
  qry : ∀ ws x us, L.q (.union ws x us) = false → ws ≠ none ∧ ∀ p ∈ us, OkOr E (wordsSrc Gen.unionTypes p.1)

local macro "okor" : tactic =>
  `(tactic| repeat' (first | assumption | exact OkOr.ok _ | exact OkOr.pure _ | apply OkOr.map | apply OkOr.bind | intro _))

mutual
theorem res_E {d : Gen.D} {E : Err → Prop} {L : Loc} (hT : L.Clean d E) : ∀ e, anyE L e = false → OkOr E (prE d e)
  | .column t c => fun _ => OkOr.ok _
  | .literal v => fun _ => OkOr.ok _
  | .wildcard t => fun _ => by cases t <;> exact OkOr.ok _
  | .mybatis v => fun _ => OkOr.ok _
  | .func sc n ps => fun hb => by
    simp only [anyE, Bool.or_eq_false_iff] at hb
    have i1 := res_Es hT ps hb.2
    simp only [prE]; okor
  | .agg n ps dist => fun hb => by
    simp only [anyE, Bool.or_eq_false_iff] at hb
    have i1 := res_Es hT ps hb.2
    simp only [prE]; okor
  | .cast e sg ty ps => fun hb => by
    simp only [anyE, Bool.or_eq_false_iff] at hb
    have i1 := res_E hT e hb.2; have l1 := hT.cast _ _ _ _ hb.1
    simp only [prE]; okor
  | .extract n e => fun hb => by
    simp only [anyE, Bool.or_eq_false_iff] at hb
    have i1 := res_E hT n hb.1.2; have i2 := res_E hT e hb.2
    simp only [prE]; okor
  | .window fn part ord rows => fun hb => by
    simp only [anyE, Bool.or_eq_false_iff] at hb
    have i1 := res_E hT fn hb.1.1.2; have i2 := res_Es8 hT part hb.1.2; have i3 := res_Os hT ord hb.2
    rcases rows with _ | ⟨x, y⟩ <;> (simp only [prE]; okor)
  | .caseCond cs els => fun hb => by
    simp only [anyE, Bool.or_eq_false_iff] at hb
    have i1 := res_Arms hT cs hb.1.2; have i2 := res_OE hT els hb.2
    simp only [prE]; okor
  | .caseVal v cs els => fun hb => by
    simp only [anyE, Bool.or_eq_false_iff] at hb
    have i0 := res_E hT v hb.1.1.2; have i1 := res_Arms hT cs hb.1.2; have i2 := res_OE hT els hb.2
    simp only [prE]; okor
  | .subValue vs => fun hb => by
    simp only [anyE, Bool.or_eq_false_iff] at hb
    have i1 := res_Es8 hT vs hb.2
    simp only [prE]; okor
  | .subQuery q => fun hb => by
    simp only [anyE, Bool.or_eq_false_iff] at hb
    have i1 := res_Q hT q hb.2
    simp only [prE]; okor
  | .exists_ v => fun hb => by
    simp only [anyE, Bool.or_eq_false_iff] at hb
    have i1 := res_E hT v hb.2
    simp only [prE]; okor
  | .index a i => fun hb => by
    simp only [anyE, Bool.or_eq_false_iff] at hb
    have i1 := res_E hT a hb.1.2; have i2 := res_E hT i hb.2
    simp only [prE]
    rcases hT.idx _ _ hb.1.1 with rfl | hE
    · simp only [bne_self_eq_false, Bool.false_eq_true, if_false]; okor
    · split
      · exact OkOr.error hE
      · okor
  | .unary o e => fun hb => by
    simp only [anyE, Bool.or_eq_false_iff] at hb
    have i1 := res_E hT e hb.2; have l1 := hT.un _ _ hb.1
    simp only [prE]; okor
  | .compute l o r => fun hb => by
    simp only [anyE, Bool.or_eq_false_iff] at hb
    have i1 := res_E hT l hb.1.2; have i2 := res_E hT r hb.2; have l1 := hT.bin _ _ _ hb.1.1
    simp only [prE]; okor
  | .kw k n l r => fun hb => by
    simp only [anyE, Bool.or_eq_false_iff] at hb
    have i1 := res_E hT l hb.1.2; have i2 := res_E hT r hb.2
    simp only [prE]; okor
  | .between n b f t => fun hb => by
    simp only [anyE, Bool.or_eq_false_iff] at hb
    have i1 := res_E hT b hb.1.1.2; have i2 := res_E hT f hb.1.2; have i3 := res_E hT t hb.2
    simp only [prE]; okor
  | .compare o l r => fun hb => by
    simp only [anyE, Bool.or_eq_false_iff] at hb
    have i1 := res_E hT l hb.1.2; have i2 := res_E hT r hb.2; have l1 := hT.cmp _ _ _ hb.1.1
    simp only [prE]; okor
  | .not_ e => fun hb => by
    simp only [anyE, Bool.or_eq_false_iff] at hb
    have i1 := res_E hT e hb.2
    simp only [prE]; okor
  | .and_ l r => fun hb => by
    simp only [anyE, Bool.or_eq_false_iff] at hb
    have i1 := res_E hT l hb.1.2; have i2 := res_E hT r hb.2
    simp only [prE]; okor
  | .xor l r => fun hb => by
    simp only [anyE, Bool.or_eq_false_iff] at hb
    have i1 := res_E hT l hb.1.2; have i2 := res_E hT r hb.2
    simp only [prE]; okor
  | .or_ l r => fun hb => by
    simp only [anyE, Bool.or_eq_false_iff] at hb
    have i1 := res_E hT l hb.1.2; have i2 := res_E hT r hb.2
    simp only [prE]; okor
theorem res_Es {d : Gen.D} {E : Err → Prop} {L : Loc} (hT : L.Clean d E) : ∀ es, anyEs L es = false → OkOr E (prList d es)
  | [] => fun _ => OkOr.ok _
  | e :: r => fun hb => by
    simp only [anyEs, Bool.or_eq_false_iff] at hb
    have i1 := res_E hT e hb.1; have i2 := res_Es hT r hb.2
    simp only [prList]; okor
theorem res_Es8 {d : Gen.D} {E : Err → Prop} {L : Loc} (hT : L.Clean d E) : ∀ es, anyEs L es = false → OkOr E (prList8 d es)
  | [] => fun _ => OkOr.ok _
  | e :: r => fun hb => by
    simp only [anyEs, Bool.or_eq_false_iff] at hb
    have i1 := res_E hT e hb.1; have i2 := res_Es8 hT r hb.2
    simp only [prList8]; okor
theorem res_OE {d : Gen.D} {E : Err → Prop} {L : Loc} (hT : L.Clean d E) : ∀ e, anyOE L e = false → OkOr E (prOptE d e)
  | none => fun _ => OkOr.ok _
  | some e => fun hb => by
    simp only [anyOE] at hb
    have i1 := res_E hT e hb
    simp only [prOptE]; okor
theorem res_Arms {d : Gen.D} {E : Err → Prop} {L : Loc} (hT : L.Clean d E) : ∀ cs, anyArms L cs = false → OkOr E (prArms d cs)
  | [] => fun _ => OkOr.ok _
  | (w, t) :: r => fun hb => by
    simp only [anyArms, Bool.or_eq_false_iff] at hb
    have i1 := res_E hT w hb.1.1; have i2 := res_E hT t hb.1.2; have i3 := res_Arms hT r hb.2
    simp only [prArms]; okor
theorem res_O {d : Gen.D} {E : Err → Prop} {L : Loc} (hT : L.Clean d E) : ∀ o, anyO L o = false → OkOr E (prOrd d o)
  | .mk e _ _ _ => fun hb => by
    simp only [anyO] at hb
    have i1 := res_E hT e hb
    simp only [prOrd]; okor
theorem res_Os {d : Gen.D} {E : Err → Prop} {L : Loc} (hT : L.Clean d E) : ∀ os, anyOs L os = false → OkOr E (prOrdList d os)
  | [] => fun _ => OkOr.ok _
  | o :: r => fun hb => by
    simp only [anyOs, Bool.or_eq_false_iff] at hb
    have i1 := res_O hT o hb.1; have i2 := res_Os hT r hb.2
    simp only [prOrdList]; okor
theorem res_TR {d : Gen.D} {E : Err → Prop} {L : Loc} (hT : L.Clean d E) : ∀ t, anyTR L t = false → OkOr E (prTableRef d t)
  | .table _ _ => fun _ => OkOr.ok _
  | .sub q => fun hb => by
    simp only [anyTR] at hb
    have i1 := res_Q hT q hb
    simp only [prTableRef]; okor
theorem res_F {d : Gen.D} {E : Err → Prop} {L : Loc} (hT : L.Clean d E) : ∀ t, anyF L t = false → OkOr E (prFrom d t)
  | .mk t a => fun hb => by
    simp only [anyF] at hb
    have i1 := res_TR hT t hb
    simp only [prFrom]; okor
theorem res_Fs {d : Gen.D} {E : Err → Prop} {L : Loc} (hT : L.Clean d E) : ∀ ts, anyFs L ts = false → OkOr E (prFromList d ts)
  | [] => fun _ => OkOr.ok _
  | t :: r => fun hb => by
    simp only [anyFs, Bool.or_eq_false_iff] at hb
    have i1 := res_F hT t hb.1; have i2 := res_Fs hT r hb.2
    simp only [prFromList]; okor
theorem res_J {d : Gen.D} {E : Err → Prop} {L : Loc} (hT : L.Clean d E) : ∀ j, anyJ L j = false → OkOr E (prJoin d j)
  | .mk ty t none => fun hb => by
    simp only [anyJ, anyRule, Bool.or_eq_false_iff] at hb
    have i1 := res_F hT t hb.1.2; have l1 := hT.join _ _ _ hb.1.1
    simp only [prJoin]; okor
  | .mk ty t (some (.on c)) => fun hb => by
    simp only [anyJ, anyRule, Bool.or_eq_false_iff] at hb
    have i1 := res_F hT t hb.1.2; have i2 := res_E hT c hb.2; have l1 := hT.join _ _ _ hb.1.1
    simp only [prJoin]; okor
  | .mk ty t (some (.using u)) => fun hb => by
    simp only [anyJ, anyRule, Bool.or_eq_false_iff] at hb
    have i1 := res_F hT t hb.1.2; have i2 := res_E hT u hb.2; have l1 := hT.join _ _ _ hb.1.1
    simp only [prJoin]; okor
theorem res_Js {d : Gen.D} {E : Err → Prop} {L : Loc} (hT : L.Clean d E) : ∀ js, anyJs L js = false → OkOr E (prJoinList d js)
  | [] => fun _ => OkOr.ok _
  | j :: r => fun hb => by
    simp only [anyJs, Bool.or_eq_false_iff] at hb
    have i1 := res_J hT j hb.1; have i2 := res_Js hT r hb.2
    simp only [prJoinList]; okor
theorem res_Sets {d : Gen.D} {E : Err → Prop} {L : Loc} (hT : L.Clean d E) : ∀ gs, anySets L gs = false → OkOr E (prSets d gs)
  | [] => fun _ => OkOr.ok _
  | g :: r => fun hb => by
    simp only [anySets, Bool.or_eq_false_iff] at hb
    have i1 := res_Es8 hT g hb.1; have i2 := res_Sets hT r hb.2
    simp only [prSets]; okor
theorem res_G {d : Gen.D} {E : Err → Prop} {L : Loc} (hT : L.Clean d E) : ∀ g, anyG L g = false → OkOr E (prGroupBy d g)
  | .mk gc none cube rollup => fun hb => by
    simp only [anyG, anyOSets, Bool.or_eq_false_iff] at hb
    have i1 := res_Es8 hT gc hb.1.2
    simp only [prGroupBy]; okor
  | .mk gc (some l) cube rollup => fun hb => by
    simp only [anyG, anyOSets, Bool.or_eq_false_iff] at hb
    have i1 := res_Es8 hT gc hb.1.2; have i2 := res_Sets hT l hb.2
    simp only [prGroupBy]; okor
theorem res_Lat {d : Gen.D} {E : Err → Prop} {L : Loc} (hT : L.Clean d E) : ∀ l, anyLat L l = false → OkOr E (prLateral d l)
  | .mk _ fn _ _ => fun hb => by
    simp only [anyLat] at hb
    have i1 := res_E hT fn hb
    simp only [prLateral]; okor
theorem res_Lats {d : Gen.D} {E : Err → Prop} {L : Loc} (hT : L.Clean d E) : ∀ ls, anyLats L ls = false → OkOr E (prLateralList d ls)
  | [] => fun _ => OkOr.ok _
  | x :: r => fun hb => by
    simp only [anyLats, Bool.or_eq_false_iff] at hb
    have i1 := res_Lat hT x hb.1; have i2 := res_Lats hT r hb.2
    simp only [prLateralList]; okor
theorem res_WTs {d : Gen.D} {E : Err → Prop} {L : Loc} (hT : L.Clean d E) : ∀ ws, anyWTs L ws = false → OkOr E (prWithTables d ws)
  | [] => fun _ => OkOr.ok _
  | .mk _ q :: r => fun hb => by
    simp only [anyWTs, Bool.or_eq_false_iff] at hb
    have i1 := res_Q hT q hb.1; have i2 := res_WTs hT r hb.2
    simp only [prWithTables]; okor
theorem res_W {d : Gen.D} {E : Err → Prop} {L : Loc} (hT : L.Clean d E) (sep : String) : ∀ ws, ws ≠ none → anyW L ws = false → OkOr E (prWithPrefix d sep ws)
  | none, hne => (hne rfl).elim
  | some ws, _ => fun hb => by
    simp only [anyW] at hb
    have i1 := res_WTs hT ws hb
    simp only [prWithPrefix]
    split
    · exact OkOr.ok _
    · okor
theorem res_Cols {d : Gen.D} {E : Err → Prop} {L : Loc} (hT : L.Clean d E) : ∀ cs, anyCols L cs = false → OkOr E (prCols d cs)
  | [] => fun _ => OkOr.ok _
  | (e, _) :: r => fun hb => by
    simp only [anyCols, Bool.or_eq_false_iff] at hb
    have i1 := res_E hT e hb.1; have i2 := res_Cols hT r hb.2
    simp only [prCols]; okor
theorem res_S {d : Gen.D} {E : Err → Prop} {L : Loc} (hT : L.Clean d E) : ∀ x, anyS L x = false → OkOr E (prS d x)
  | .mk ws dist cols fr lats js wh gb hv ob sb db cb lm => fun hb => by
    simp only [anyS, Bool.or_eq_false_iff, and_assoc] at hb
    obtain ⟨hs, hws, hcols, hfr, hlats, hjs, hwh, hgb, hhv, hob, hsb, hdb, hcb⟩ := hb
    obtain ⟨hne, hg⟩ := hT.sel _ _ _ _ _ _ _ _ _ _ _ _ _ _ hs
    have e1 := res_W hT "\n" ws hne hws; have e2 := res_Cols hT cols hcols; have e4 := res_Lats hT lats hlats; have e5 := res_Js hT js hjs
    have e3 : OkOr E (prOptFrom d fr) := by
      cases fr with
      | none => exact OkOr.pure _
      | some l => exact OkOr.map (res_Fs hT l (by simpa only [anyOFs] using hfr))
    have e6 : OkOr E (prOptWhere d wh) := by
      cases wh with
      | none => exact OkOr.pure _
      | some e => exact OkOr.map (res_E hT e (by simpa only [anyOE] using hwh))
    have e7 : OkOr E (prOptGroup d gb) := by
      cases gb with
      | none => exact OkOr.pure _
      | some g => exact OkOr.map (res_G hT g (by simpa only [anyOG] using hgb))
    have e8 : OkOr E (prOptHaving d hv) := by
      cases hv with
      | none => exact OkOr.pure _
      | some e => exact OkOr.map (res_E hT e (by simpa only [anyOE] using hhv))
    have e9 : OkOr E (prOptOrder d ob) := by
      cases ob with
      | none => exact OkOr.pure _
      | some l => exact OkOr.map (res_Os hT l (by simpa only [anyOOs] using hob))
    have e10 : OkOr E (prOptSort d sb) := by
      cases sb with
      | none => exact OkOr.pure _
      | some l => exact OkOr.map (res_Os hT l (by simpa only [anyOOs] using hsb))
    have e11 : OkOr E (prOptDistribute d db) := by
      cases db with
      | none => exact OkOr.pure _
      | some l => exact OkOr.map (res_Es8 hT l (by simpa only [anyOEs] using hdb))
    have e12 : OkOr E (prOptCluster d cb) := by
      cases cb with
      | none => exact OkOr.pure _
      | some l => exact OkOr.map (res_Es8 hT l (by simpa only [anyOEs] using hcb))
    have eh : OkOr E (prHive d sb db cb) := by
      unfold prHive
      split
      · okor
      · exact OkOr.pure _
    rw [prS_eq]
    refine OkOr.bind e1 (fun w => OkOr.bind hg (fun _ => ?_))
    simp only [prSRest]; okor
theorem res_Us {d : Gen.D} {E : Err → Prop} {L : Loc} (hT : L.Clean d E) : ∀ us, (∀ p ∈ us, OkOr E (wordsSrc Gen.unionTypes p.1)) →
    anyUs L us = false → OkOr E (prUnions d us)
  | [], _ => fun _ => OkOr.ok _
  | (t, x) :: r, hu => fun hb => by
    simp only [anyUs, Bool.or_eq_false_iff] at hb
    have i1 := res_S hT x hb.1; have i2 := res_Us hT r (fun p hp => hu p (List.mem_cons_of_mem _ hp)) hb.2
    have l1 : OkOr E (wordsSrc Gen.unionTypes t) := hu (t, x) (List.mem_cons_self ..)
    simp only [prUnions]; okor
theorem res_Q {d : Gen.D} {E : Err → Prop} {L : Loc} (hT : L.Clean d E) : ∀ q, anyQ L q = false → OkOr E (prQ d q)
  | .single x => fun hb => by
    simp only [anyQ, Bool.or_eq_false_iff] at hb
    have i1 := res_S hT x hb.2
    simp only [prQ]; exact i1
  | .union ws x us => fun hb => by
    simp only [anyQ, Bool.or_eq_false_iff, and_assoc] at hb
    obtain ⟨hq, hws, hx, hus⟩ := hb
    obtain ⟨hne, hu⟩ := hT.qry _ _ _ hq
    have i0 := res_W hT "\n" ws hne hws; have i1 := res_S hT x hx; have i2 := res_Us hT us hu hus
    simp only [prQ]; okor
end

/-! ### statements: which errors can come out -/

theorem OkOr.mono {E E' : Err → Prop} {α : Type} {x : Except Err α} (h : ∀ e, E e → E' e) (hx : OkOr E x) : OkOr E' x :=
  fun e he => h e (hx e he)

theorem Loc.Clean.mono {d : Gen.D} {E E' : Err → Prop} {L : Loc} (h : ∀ e, E e → E' e) (hT : L.Clean d E) : L.Clean d E' where
  un := fun o e hb => (hT.un o e hb).mono h
  bin := fun l o r hb => (hT.bin l o r hb).mono h
  cmp := fun o l r hb => (hT.cmp o l r hb).mono h
  cast := fun e sg ty ps hb => (hT.cast e sg ty ps hb).mono h
  idx := fun a i hb => (hT.idx a i hb).imp id (h _)
  sel := fun ws dist cols fr lats js wh gb hv ob sb db cb lm hb =>
    ⟨(hT.sel ws dist cols fr lats js wh gb hv ob sb db cb lm hb).1, (hT.sel ws dist cols fr lats js wh gb hv ob sb db cb lm hb).2.mono h⟩
  join := fun ty t rule hb => (hT.join ty t rule hb).mono h
  qry := fun ws x us hb => ⟨(hT.qry ws x us hb).1, fun p hp => ((hT.qry ws x us hb).2 p hp).mono h⟩

theorem mapM'_res {E : Err → Prop} {α : Type} (f : α → P) : ∀ (l : List α), (∀ a ∈ l, OkOr E (f a)) → OkOr E (mapM' f l)
  | [], _ => OkOr.ok _
  | a :: l, h => by
    have h1 := h a (List.mem_cons_self ..)
    have h2 := mapM'_res f l (fun b hb => h b (List.mem_cons_of_mem _ hb))
    simp only [mapM']
    exact OkOr.bind h1 (fun _ => OkOr.bind h2 (fun _ => OkOr.pure _))

/-- the statement's own (non-recursive) steps succeed or fail within `E`.  CREATE TABLE and ANALYZE TABLE are taken as a
whole (their column definitions / partition are outside `anyStmt`); an ALTER TABLE must not carry a column definition. -/
def StmtClean (d : Gen.D) (E : Err → Prop) : Stmt → Prop
  | .insertValues h _ => h.withs ≠ none ∧ OkOr E (headGuard d h.type) ∧ OkOr E (wordsSrc Gen.insertTypes h.type)
  | .insertSelect h _ => h.withs ≠ none ∧ OkOr E (headGuard d h.type) ∧ OkOr E (wordsSrc Gen.insertTypes h.type)
  | .update ws _ _ _ _ _ => ws ≠ none
  | .createTable c => OkOr E (prStmt d (.createTable c))
  | .analyze t p fc cm ns => OkOr E (prStmt d (.analyze t p fc cm ns))
  | .alter _ ops => ∀ o ∈ ops, ∀ c, o ≠ .add (.col c) ∧ o ≠ .modify (.col c) ∧ ∀ f, o ≠ .change f (.col c)
  | _ => True

theorem res_Ps {d : Gen.D} {E : Err → Prop} {L : Loc} (hT : L.Clean d E) : ∀ es, anyEs L es = false → OkOr E (prPartList d es)
  | [] => fun _ => OkOr.pure _
  | e :: r => fun hb => by
    simp only [anyEs, Bool.or_eq_false_iff] at hb
    have i1 : OkOr E (prPartItem d e) := by
      intro x hx
      rcases prPartItem_shape d e with ⟨_, _, ha, -⟩ | ⟨y, hy, hy2⟩
      · rw [ha] at hx; cases hx
      · rw [hy] at hx; cases hx; exact res_E hT e hb.1 _ hy2
    have i2 := res_Ps hT r hb.2
    simp only [prPartList]
    exact OkOr.bind i1 (fun _ => OkOr.bind i2 (fun _ => OkOr.pure _))

theorem res_OptPartition {d : Gen.D} {E : Err → Prop} {L : Loc} (hT : L.Clean d E) : ∀ p, anyOEs L p = false → OkOr E (prOptPartition d p)
  | none => fun _ => OkOr.pure _
  | some p => fun hb => by
    simp only [prOptPartition, prPartition]
    exact OkOr.map (OkOr.map (res_Ps hT p (by simpa only [anyOEs] using hb)))

theorem res_Head {d : Gen.D} {E : Err → Prop} {L : Loc} (hT : L.Clean d E) (h : InsertHead)
    (hc : h.withs ≠ none ∧ OkOr E (headGuard d h.type) ∧ OkOr E (wordsSrc Gen.insertTypes h.type)) (hb : anyHead L h = false) :
    OkOr E (prInsertHead d h) := by
  simp only [anyHead, Bool.or_eq_false_iff] at hb
  have e1 := res_OptPartition hT _ hb.1
  have e2 := res_W hT "\n" _ hc.1 hb.2
  rw [prInsertHead_eq]
  refine OkOr.bind hc.2.1 (fun _ => ?_)
  simp only [prHeadRest]
  exact OkOr.bind hc.2.2 (fun _ => OkOr.bind e1 (fun _ => OkOr.bind e2 (fun _ => OkOr.pure _)))

theorem res_Tail {d : Gen.D} {E : Err → Prop} {L : Loc} (hT : L.Clean d E) (wh : Option Expr) (ob : Option (List OrderItem))
    (lm : Option (Int × Option Int)) (hb : (anyOE L wh || anyOOs L ob) = false) : OkOr E (prTail d wh ob lm) := by
  simp only [Bool.or_eq_false_iff] at hb
  have e1 : OkOr E (prOptWhereS d wh) := by
    cases wh with
    | none => exact OkOr.pure _
    | some e => exact OkOr.map (res_E hT e (by simpa only [anyOE] using hb.1))
  have e2 : OkOr E (prOptOrderS d ob) := by
    cases ob with
    | none => exact OkOr.pure _
    | some l => exact OkOr.map (res_Os hT l (by simpa only [anyOOs] using hb.2))
  rw [prTail_eq]
  exact OkOr.bind e1 (fun _ => OkOr.bind e2 (fun _ => OkOr.pure _))

theorem res_AlterOp {d : Gen.D} {E : Err → Prop} {L : Loc} (hT : L.Clean d E) : ∀ o,
    (∀ c, o ≠ .add (.col c) ∧ o ≠ .modify (.col c) ∧ ∀ f, o ≠ .change f (.col c)) → anyAlterOp L o = false → OkOr E (prAlterOp d o)
  | .addPartition _ p, _, hb => by simp only [prAlterOp, prPartition]; exact OkOr.map (OkOr.map (res_Ps hT p hb))
  | .dropPartition _ p, _, hb => by simp only [prAlterOp, prPartition]; exact OkOr.map (OkOr.map (res_Ps hT p hb))
  | .renameColumn _ _, _, _ => OkOr.ok _
  | .dropColumn _, _, _ => OkOr.ok _
  | .add (.col c), hc, _ => ((hc c).1 rfl).elim
  | .add (.idx _), _, _ => OkOr.ok _
  | .add (.fk _), _, _ => OkOr.ok _
  | .modify (.col c), hc, _ => ((hc c).2.1 rfl).elim
  | .modify (.idx _), _, _ => OkOr.ok _
  | .modify (.fk _), _, _ => OkOr.ok _
  | .change f (.col c), hc, _ => ((hc c).2.2 f rfl).elim
  | .change _ (.idx _), _, _ => OkOr.ok _
  | .change _ (.fk _), _, _ => OkOr.ok _

theorem res_Stmt {d : Gen.D} {E : Err → Prop} {L : Loc} (hT : L.Clean d E) : ∀ st, StmtClean d E st → anyStmt L st = false →
    OkOr E (prStmt d st)
  | .select q, _, hb => res_Q hT q hb
  | .insertValues h vs, hc, hb => by
    simp only [anyStmt, Bool.or_eq_false_iff, List.any_eq_false, Bool.not_eq_true] at hb
    have e1 : OkOr E (mapM' (fun r => (prList8 d r).map fun p => s!"({joinS ", " p})") vs) :=
      mapM'_res _ vs (fun r hr => OkOr.map (res_Es8 hT r (hb.1 r hr)))
    have e2 := res_Head hT h hc hb.2
    simp only [prStmt]
    exact OkOr.bind e1 (fun _ => OkOr.bind e2 (fun _ => OkOr.pure _))
  | .insertSelect h q, hc, hb => by
    simp only [anyStmt, Bool.or_eq_false_iff] at hb
    have e1 := res_Head hT h hc hb.1
    have e2 := res_Q hT q hb.2
    simp only [prStmt]
    exact OkOr.bind e1 (fun _ => OkOr.bind e2 (fun _ => OkOr.pure _))
  | .update ws t sets wh ob lm, hc, hb => by
    simp only [anyStmt, Bool.or_eq_false_iff, List.any_eq_false, Bool.not_eq_true, and_assoc] at hb
    obtain ⟨h1, h2, h3, h4⟩ := hb
    have e0 := res_W hT "\n\n" ws hc h1
    have e1 : OkOr E (mapM' (fun (cv : String × Expr) => (prE d cv.2).map fun x => s!"`{cv.1}` = {x}") sets) :=
      mapM'_res _ sets (fun cv hcv => OkOr.map (res_E hT cv.2 (h2 cv hcv)))
    have e2 := res_Tail hT wh ob lm (by simp only [h3, h4, Bool.or_false])
    simp only [prStmt]
    exact OkOr.bind e0 (fun _ => OkOr.bind e1 (fun _ => OkOr.bind e2 (fun _ => OkOr.pure _)))
  | .delete t wh ob lm, _, hb => by
    have e2 := res_Tail hT wh ob lm hb
    simp only [prStmt]
    exact OkOr.bind e2 (fun _ => OkOr.pure _)
  | .createTable c, hc, _ => hc
  | .createTableAs t ine q, _, hb => by simp only [prStmt]; exact OkOr.map (res_Q hT q hb)
  | .dropTable _ _, _, _ => OkOr.ok _
  | .set _, _, _ => OkOr.ok _
  | .analyze t p fc cm ns, hc, _ => hc
  | .alter t ops, hc, hb => by
    simp only [anyStmt, List.any_eq_false, Bool.not_eq_true] at hb
    simp only [prStmt]
    exact OkOr.map (mapM'_res _ ops (fun o ho => res_AlterOp hT o (hc o ho) (hb o ho)))
  | .msck _, _, _ => OkOr.ok _
  | .use _, _, _ => OkOr.ok _
  | .truncate _, _, _ => OkOr.ok _
  | .showDatabases, _, _ => OkOr.ok _
  | .showTables, _, _ => OkOr.ok _
  | .showColumns fr none, _, hb => by
    simp only [anyStmt, Bool.or_eq_false_iff] at hb
    simp only [prStmt]
    exact OkOr.bind (OkOr.pure _) (fun _ => OkOr.bind (res_Fs hT fr hb.2) (fun _ => OkOr.pure _))
  | .showColumns fr (some e), _, hb => by
    simp only [anyStmt, Bool.or_eq_false_iff, anyOE] at hb
    simp only [prStmt]
    exact OkOr.bind (OkOr.map (res_E hT e hb.1)) (fun _ => OkOr.bind (res_Fs hT fr hb.2) (fun _ => OkOr.pure _))

end PR
