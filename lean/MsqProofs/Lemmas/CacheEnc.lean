import MsqModel.Cache
/-! the file-name encoding of the cache (`Cache.enc` = `urllib.parse.quote(·, safe="")`): it has a left inverse (`dec_enc`), so it is
injective; its image has no path separator and no NUL; `decStem` recognises exactly the image -/
namespace Cache

theorem toNat_lt (c : Char) : c.toNat < 0x110000 := by
  have h := c.valid
  simp only [Char.toNat]
  rcases h with h | ⟨_, h⟩
  · have : c.val.toNat < 0xd800 := h
    omega
  · exact h

/-- the model's UTF-8 is Lean core's `String.utf8EncodeChar` (whose decoder round trip is proved in `Init.Data.String.Decode`) -/
theorem utf8_eq_core (c : Char) : utf8 c = (String.utf8EncodeChar c).map (·.toNat) := by
  have hv := toNat_lt c
  unfold utf8 String.utf8EncodeChar
  simp only [Char.toNat] at hv ⊢
  by_cases h1 : c.val.toNat ≤ 0x7f
  · have : c.val.toNat < 0x80 := by omega
    simp only [this, h1, ↓reduceIte, List.map_cons, List.map_nil, UInt8.toNat_ofNat']
    congr 1; omega
  · have n1 : ¬ c.val.toNat < 0x80 := by omega
    by_cases h2 : c.val.toNat ≤ 0x7ff
    · have : c.val.toNat < 0x800 := by omega
      simp only [this, h1, h2, n1, ↓reduceIte, List.map_cons, List.map_nil, UInt8.toNat_ofNat']
      congr 1
      · omega
      · congr 1; omega
    · have n2 : ¬ c.val.toNat < 0x800 := by omega
      by_cases h3 : c.val.toNat ≤ 0xffff
      · have : c.val.toNat < 0x10000 := by omega
        simp only [this, h1, h2, h3, n1, n2, ↓reduceIte, List.map_cons, List.map_nil, UInt8.toNat_ofNat']
        congr 1
        · omega
        · congr 1
          · omega
          · congr 1; omega
      · have n3 : ¬ c.val.toNat < 0x10000 := by omega
        simp only [h1, h2, h3, n1, n2, n3, ↓reduceIte, List.map_cons, List.map_nil, UInt8.toNat_ofNat']
        congr 1
        · omega
        · congr 1
          · omega
          · congr 1
            · omega
            · congr 1; omega

theorem hexVal_hexU : ∀ d : Fin 16, hexVal (hexU d.val) = some d.val := by decide

theorem hexU_ok : ∀ d : Fin 16, hexU d.val ≠ '/' ∧ hexU d.val ≠ '\x00' ∧ hexU d.val ≠ '%' := by decide

theorem pctByte_pct (b : Nat) (r : List Char) (hb : b < 256) : pctByte (pct b ++ r) = some (b, r) := by
  have h1 := hexVal_hexU ⟨b / 16, by omega⟩
  have h2 := hexVal_hexU ⟨b % 16, by omega⟩
  simp only at h1 h2
  simp only [pct, List.cons_append, List.nil_append, pctByte, h1, h2]
  congr 2
  omega

theorem utf8_lt (c : Char) : ∀ b ∈ utf8 c, b < 256 := by
  have hv := toNat_lt c
  intro b hb
  unfold utf8 at hb
  simp only at hb
  split at hb
  · simp only [List.mem_cons, List.not_mem_nil, or_false] at hb; omega
  · split at hb
    · simp only [List.mem_cons, List.not_mem_nil, or_false] at hb; omega
    · split at hb
      · simp only [List.mem_cons, List.not_mem_nil, or_false] at hb; omega
      · simp only [List.mem_cons, List.not_mem_nil, or_false] at hb; omega

/-- one step of the decoder on a `%XX` token -/
theorem decAux_pct (g b0 : Nat) (rest : List Char) (hb : b0 < 256) :
    decAux (g + 1) (pct b0 ++ rest) =
      if b0 < 0x80 then (decAux g rest).map (Char.ofNat b0 :: ·)
      else if b0 < 0xE0 then
        (pctByte rest).bind fun p1 =>
          (decAux g p1.2).map (Char.ofNat ((b0 - 0xC0) * 64 + (p1.1 - 0x80)) :: ·)
      else if b0 < 0xF0 then
        (pctByte rest).bind fun p1 => (pctByte p1.2).bind fun p2 =>
          (decAux g p2.2).map (Char.ofNat (((b0 - 0xE0) * 64 + (p1.1 - 0x80)) * 64 + (p2.1 - 0x80)) :: ·)
      else
        (pctByte rest).bind fun p1 => (pctByte p1.2).bind fun p2 => (pctByte p2.2).bind fun p3 =>
          (decAux g p3.2).map (Char.ofNat ((((b0 - 0xF0) * 64 + (p1.1 - 0x80)) * 64 + (p2.1 - 0x80)) * 64 + (p3.1 - 0x80)) :: ·) := by
  have h := pctByte_pct b0 rest hb
  simp only [pct, List.cons_append, List.nil_append] at h ⊢
  simp only [decAux, ↓reduceIte, h, Option.bind_some]

theorem decAux_plain (g : Nat) (c : Char) (rest : List Char) (hc : c ≠ '%') :
    decAux (g + 1) (c :: rest) = (decAux g rest).map (c :: ·) := by
  simp only [decAux, hc, ↓reduceIte]

theorem safe_not_pct (c : Char) (h : safeChar c = true) : c ≠ '%' := by
  intro hc
  subst hc
  revert h
  decide

theorem safe_not_sep (c : Char) (h : safeChar c = true) : c ≠ '/' ∧ c ≠ '\x00' := by
  constructor <;> (intro hc; subst hc; revert h; decide)

/-- the decoder undoes the encoding of one character -/
theorem decAux_encC (g : Nat) (c : Char) (rest : List Char) :
    decAux (g + 1) (encC c ++ rest) = (decAux g rest).map (c :: ·) := by
  unfold encC
  split
  · rename_i hs
    exact decAux_plain g c rest (safe_not_pct c hs)
  · have hv := toNat_lt c
    have hlt := utf8_lt c
    have hof := Char.ofNat_toNat c
    unfold utf8 at hlt ⊢
    simp only at hlt ⊢
    split
    · rename_i h1
      simp only [List.flatMap_cons, List.flatMap_nil, List.append_nil]
      rw [decAux_pct g _ _ (by omega), if_pos h1, hof]
    · rename_i h1
      split
      · rename_i h2
        have hb := hlt
        simp only [h1, h2, ↓reduceIte, List.mem_cons, List.not_mem_nil, or_false, forall_eq_or_imp, forall_eq] at hb
        simp only [List.flatMap_cons, List.flatMap_nil, List.append_nil, List.append_assoc]
        rw [decAux_pct g _ _ hb.1, if_neg (by omega), if_pos (by omega), pctByte_pct _ _ hb.2, Option.bind_some]
        simp only
        have e : (0xC0 + c.toNat / 64 - 0xC0) * 64 + (0x80 + c.toNat % 64 - 0x80) = c.toNat := by omega
        rw [e, hof]
      · rename_i h2
        split
        · rename_i h3
          have hb := hlt
          simp only [h1, h2, h3, ↓reduceIte, List.mem_cons, List.not_mem_nil, or_false, forall_eq_or_imp, forall_eq] at hb
          simp only [List.flatMap_cons, List.flatMap_nil, List.append_nil, List.append_assoc]
          rw [decAux_pct g _ _ hb.1, if_neg (by omega), if_neg (by omega), if_pos (by omega), pctByte_pct _ _ hb.2.1, Option.bind_some]
          simp only
          rw [pctByte_pct _ _ hb.2.2, Option.bind_some]
          simp only
          have e : ((0xE0 + c.toNat / 4096 - 0xE0) * 64 + (0x80 + c.toNat / 64 % 64 - 0x80)) * 64 + (0x80 + c.toNat % 64 - 0x80) = c.toNat := by omega
          rw [e, hof]
        · rename_i h3
          have hb := hlt
          simp only [h1, h2, h3, ↓reduceIte, List.mem_cons, List.not_mem_nil, or_false, forall_eq_or_imp, forall_eq] at hb
          simp only [List.flatMap_cons, List.flatMap_nil, List.append_nil, List.append_assoc]
          rw [decAux_pct g _ _ hb.1, if_neg (by omega), if_neg (by omega), if_neg (by omega), pctByte_pct _ _ hb.2.1, Option.bind_some]
          simp only
          rw [pctByte_pct _ _ hb.2.2.1, Option.bind_some]
          simp only
          rw [pctByte_pct _ _ hb.2.2.2, Option.bind_some]
          simp only
          have e : (((0xF0 + c.toNat / 262144 - 0xF0) * 64 + (0x80 + c.toNat / 4096 % 64 - 0x80)) * 64 + (0x80 + c.toNat / 64 % 64 - 0x80)) * 64
              + (0x80 + c.toNat % 64 - 0x80) = c.toNat := by omega
          rw [e, hof]

theorem encC_length_pos (c : Char) : 1 ≤ (encC c).length := by
  unfold encC
  split
  · simp
  · unfold utf8
    simp only
    split
    · simp [pct]
    · split
      · simp [pct]
      · split <;> simp [pct]

theorem decAux_enc (n : Name) : ∀ f, (enc n).length ≤ f → decAux f (enc n) = some n := by
  induction n with
  | nil => intro f _; cases f <;> simp [enc, decAux]
  | cons c r ih =>
    intro f hf
    have he : enc (c :: r) = encC c ++ enc r := by simp [enc]
    rw [he] at hf ⊢
    have hp := encC_length_pos c
    rw [List.length_append] at hf
    obtain ⟨g, rfl⟩ : ∃ g, f = g + 1 := ⟨f - 1, by omega⟩
    rw [decAux_encC, ih g (by omega)]
    rfl

/-- **the encoding has a left inverse** -/
theorem dec_enc (n : Name) : dec (enc n) = some n := decAux_enc n _ (Nat.le_refl _)

/-- **the encoding is injective**: two table names never share a file name -/
theorem enc_injective : Function.Injective enc := by
  intro a b h
  have := dec_enc a
  rw [h, dec_enc b] at this
  injection this with this
  exact this.symm

/-- `decStem` answers `n` exactly for the stem `enc n` -/
theorem decStem_iff (s : List Char) (n : Name) : decStem s = some n ↔ enc n = s := by
  unfold decStem
  constructor
  · intro h
    split at h
    · rename_i m _
      split at h
      · rename_i he
        injection h with h
        subst h
        exact he
      · cases h
    · cases h
  · intro h
    subst h
    simp [dec_enc]

theorem decStem_enc (n : Name) : decStem (enc n) = some n := (decStem_iff _ _).2 rfl

/-- **no path separator, no NUL** in an encoded name -/
theorem enc_chars (n : Name) : ∀ x ∈ enc n, x ≠ '/' ∧ x ≠ '\x00' := by
  intro x hx
  simp only [enc, List.mem_flatMap] at hx
  obtain ⟨c, _, hx⟩ := hx
  unfold encC at hx
  split at hx
  · rename_i hs
    simp only [List.mem_cons, List.not_mem_nil, or_false] at hx
    subst hx
    exact safe_not_sep x hs
  · simp only [List.mem_flatMap] at hx
    obtain ⟨b, hb, hx⟩ := hx
    have hlt := utf8_lt c b hb
    simp only [pct, List.mem_cons, List.not_mem_nil, or_false] at hx
    rcases hx with hx | hx | hx
    · subst hx; decide
    · have := hexU_ok ⟨b / 16, by omega⟩
      subst hx
      exact ⟨this.1, this.2.1⟩
    · have := hexU_ok ⟨b % 16, by omega⟩
      subst hx
      exact ⟨this.1, this.2.1⟩

/-- a name made only of safe characters is its own encoding: such tables keep the file names they had before /repo 69f92c3 -/
theorem enc_safe (n : Name) (h : ∀ c ∈ n, safeChar c = true) : enc n = n := by
  induction n with
  | nil => rfl
  | cons c r ih =>
    have hc : safeChar c = true := h c (by simp)
    have : enc (c :: r) = encC c ++ enc r := by simp [enc]
    rw [this, ih (fun d hd => h d (by simp [hd]))]
    simp [encC, hc]

end Cache
