import MsqProofs.Lemmas.AnalyzeText3c
/-!
# The column scanner on the tokens the printer writes: step lemmas (C15 on texts)

How `CT.colL` walks over each kind of token of a fragment rendering: keywords and operators (`kwOut`), literals, back-quoted names,
qualified names, calls, aggregates, bracket groups.  `ColOK ts l`: the piece `ts`, scanned where an operand is expected, yields the
references `l` and ends an operand — provided what follows starts with a plain token that is no `.` (`hdS`).
-/
set_option linter.unusedVariables false
set_option linter.unusedSimpArgs false
open Lex PM Ast TP TP2 TS TQ Spec
open AN (QCol Clause)
namespace CT

theorem colL_nil (st : St) : colL st [] = [] := by simp [colL]
theorem colL_tok {t : Tok} (h : isGrp t = false) (st : St) (r : List Tok) :
    colL st (t :: r) = (step st t r).1 ++ colL (step st t r).2 r := by
  cases t with
  | single s m => simp [colL]
  | group k cs m => simp [isGrp] at h
theorem colL_grp (st : St) (cs r : List Tok) : colL st (grp cs :: r) = colG st (grp cs) ++ colL (.expr true) r := by
  simp [colL, grp]
theorem colG_expr (b : Bool) (cs : List Tok) : colG (.expr b) (grp cs) = if isSubq cs then [] else colL (.expr false) cs := by
  simp [colG, grp]
theorem colG_agg (cs : List Tok) :
    colG .agg (grp cs) = if (colL (.expr false) cs).length > 0 then colL (.expr false) cs else [anon] := by
  simp [colG, grp]
theorem colL_grp_expr (b : Bool) (cs r : List Tok) :
    colL (.expr b) (grp cs :: r) = (if isSubq cs then [] else colL (.expr false) cs) ++ colL (.expr true) r := by
  rw [colL_grp, colG_expr]

/-! ### what follows a piece -/
/-- nothing, or a plain token that is no `.`: what follows an operand -/
def hdS : List Tok → Bool
  | [] => true
  | t :: _ => !isGrp t && !t.equalsStr "."
theorem hdS_dot {r : List Tok} (h : hdS r = true) : nextIs "." r = false := by
  cases r with
  | nil => rfl
  | cons t r => simp only [hdS, Bool.and_eq_true, Bool.not_eq_true'] at h; exact h.2
theorem hdS_grp {r : List Tok} (h : hdS r = true) : nextIsGrp r = false := by
  cases r with
  | nil => rfl
  | cons t r => simp only [hdS, Bool.and_eq_true, Bool.not_eq_true'] at h; exact h.1
theorem hdS_cons {t : Tok} (h1 : isGrp t = false) (h2 : t.equalsStr "." = false) (r : List Tok) : hdS (t :: r) = true := by
  simp [hdS, h1, h2]

/-! ### keywords and operators -/
/-- a plain token that is no reference and does not look ahead (apart from the `.` test): `some a` = the state after it is `expr a` -/
def kwOut (t : Tok) : Option Bool :=
  if isGrp t || t.has LITERAL then none
  else if isWord t then (if t.equalsStr "AS" || quoted t || !reserved.contains (up t.src) then none else some (endsOperand t))
  else if t.equalsStr "*" then none else some false

theorem kwOut_single {t : Tok} {a : Bool} (h : kwOut t = some a) : isGrp t = false := by
  unfold kwOut at h
  cases hg : isGrp t with
  | false => rfl
  | true => simp [hg] at h
theorem step_kw {t : Tok} {a : Bool} (h : kwOut t = some a) (b : Bool) (r : List Tok) (hr : nextIs "." r = false) :
    step (.expr b) t r = ([], .expr a) := by
  have hg := kwOut_single h
  unfold kwOut at h
  unfold step
  cases hl : t.has LITERAL <;> cases hw : isWord t <;> cases hs : t.equalsStr "*" <;> cases ha : t.equalsStr "AS" <;>
    cases hq : quoted t <;> cases hres : reserved.contains (up t.src) <;> simp_all
theorem colL_kw {t : Tok} {a : Bool} (h : kwOut t = some a) (b : Bool) (r : List Tok) (hr : nextIs "." r = false) :
    colL (.expr b) (t :: r) = colL (.expr a) r := by
  rw [colL_tok (kwOut_single h), step_kw h b r hr]; rfl

/-- the sign `*`: the wildcard where an operand is expected, the multiplication sign after an operand -/
theorem colL_star_wild (r : List Tok) : colL (.expr false) (starTok :: r) = ⟨none, some "*", none⟩ :: colL (.expr true) r := by
  have h1 : starTok.has LITERAL = false := by decide
  have h2 : isWord starTok = false := by decide
  have h3 : starTok.equalsStr "*" = true := by decide
  rw [colL_tok (by rfl)]
  simp [step, h1, h2, h3]
theorem colL_star_op (r : List Tok) : colL (.expr true) (starTok :: r) = colL (.expr false) r := by
  have h1 : starTok.has LITERAL = false := by decide
  have h2 : isWord starTok = false := by decide
  have h3 : starTok.equalsStr "*" = true := by decide
  rw [colL_tok (by rfl)]
  simp [step, h1, h2, h3]

/-- a literal -/
theorem colL_lit {t : Tok} (hg : isGrp t = false) (h : t.has LITERAL = true) (b : Bool) (r : List Tok) :
    colL (.expr b) (t :: r) = colL (.expr true) r := by
  rw [colL_tok hg]
  simp [step, h]

/-- a back-quoted name that is followed by neither `.` nor a bracket group: an unqualified reference -/
theorem colL_name {t : Tok} (hw : isWord t = true) (hl : t.has LITERAL = false) (hq : quoted t = true) (ha : t.equalsStr "AS" = false)
    (b : Bool) (r : List Tok) (hr : hdS r = true) : colL (.expr b) (t :: r) = ref none (nm t) ++ colL (.expr true) r := by
  have hg : isGrp t = false := by cases t <;> simp_all [isWord, isGrp]
  rw [colL_tok hg]
  simp [step, hl, hw, hdS_dot hr, hdS_grp hr, ha, hq]
/-- `q . name` -/
theorem colL_qcol {t u : Tok} (hw : isWord t = true) (hl : t.has LITERAL = false) (hu : isWord u = true) (b : Bool) (r : List Tok)
    (hr : hdS r = true) : colL (.expr b) (t :: dotTok :: u :: r) = ⟨some (nm t), some (nm u), none⟩ :: colL (.expr true) r := by
  have hg : isGrp t = false := by cases t <;> simp_all [isWord, isGrp]
  have hgu : isGrp u = false := by cases u <;> simp_all [isWord, isGrp]
  have hd : nextIs "." (dotTok :: u :: r) = true := by show dotTok.equalsStr "." = true; decide
  rw [colL_tok hg, colL_tok (t := dotTok) (by rfl), colL_tok hgu]
  simp [step, hl, hw, hd, hu, hdS_grp hr]
/-- `q . *` -/
theorem colL_qstar {t : Tok} (hw : isWord t = true) (hl : t.has LITERAL = false) (b : Bool) (r : List Tok) (hr : hdS r = true) :
    colL (.expr b) (t :: dotTok :: starTok :: r) = ⟨some (nm t), some "*", none⟩ :: colL (.expr true) r := by
  have hg : isGrp t = false := by cases t <;> simp_all [isWord, isGrp]
  have hd : nextIs "." (dotTok :: starTok :: r) = true := by show dotTok.equalsStr "." = true; decide
  have h2 : isWord starTok = false := by decide
  have h3 : starTok.equalsStr "*" = true := by decide
  rw [colL_tok hg, colL_tok (t := dotTok) (by rfl), colL_tok (t := starTok) (by rfl)]
  simp [step, hl, hw, hd, h2, h3, hdS_grp hr]
/-- `name (…)`: a call of a function that is no aggregate -/
theorem colL_fn {t : Tok} (hw : isWord t = true) (hl : t.has LITERAL = false) (hn : Gen.aggNames.contains (up t.src) = false)
    (b : Bool) (cs r : List Tok) :
    colL (.expr b) (t :: grp cs :: r) = (if isSubq cs then [] else colL (.expr false) cs) ++ colL (.expr true) r := by
  have hg : isGrp t = false := by cases t <;> simp_all [isWord, isGrp]
  have hd : nextIs "." (grp cs :: r) = false := by simp [nextIs, grp, Tok.equalsStr]
  have hp : nextIsGrp (grp cs :: r) = true := rfl
  rw [colL_tok hg]
  cases h1 : t.equalsStr "AS" <;> cases hq : quoted t <;> cases h2 : reserved.contains (up t.src) <;>
    simp only [step, hl, hw, hd, hp, hn, h1, hq, h2, Bool.false_eq_true, if_false, if_true, Bool.not_false, Bool.not_true,
      Bool.and_true, Bool.true_and, Bool.and_false, Bool.false_and, List.nil_append, colL_grp_expr]
/-- `q . name (…)`: a schema-qualified call -/
theorem colL_qfn {t u : Tok} (hw : isWord t = true) (hl : t.has LITERAL = false) (hu : isGrp u = false) (b : Bool) (cs r : List Tok) :
    colL (.expr b) (t :: dotTok :: u :: grp cs :: r) = (if isSubq cs then [] else colL (.expr false) cs) ++ colL (.expr true) r := by
  have hg : isGrp t = false := by cases t <;> simp_all [isWord, isGrp]
  have hd : nextIs "." (dotTok :: u :: grp cs :: r) = true := by show dotTok.equalsStr "." = true; decide
  have hp : nextIsGrp (grp cs :: r) = true := rfl
  rw [colL_tok hg, colL_tok (t := dotTok) (by rfl), colL_tok hu]
  simp only [step, hl, hw, hd, hp, Bool.false_eq_true, if_false, if_true, List.nil_append, colL_grp_expr]
/-- `AGG (…)`: the references of the arguments, or one anonymous reference -/
theorem colL_agg {t : Tok} (hw : isWord t = true) (hl : t.has LITERAL = false) (ha : t.equalsStr "AS" = false)
    (hres : reserved.contains (up t.src) = false) (hn : Gen.aggNames.contains (up t.src) = true) (b : Bool) (cs r : List Tok) :
    colL (.expr b) (t :: grp cs :: r) =
      (if (colL (.expr false) cs).length > 0 then colL (.expr false) cs else [anon]) ++ colL (.expr true) r := by
  have hg : isGrp t = false := by cases t <;> simp_all [isWord, isGrp]
  have hd : nextIs "." (grp cs :: r) = false := by simp [nextIs, grp, Tok.equalsStr]
  have hp : nextIsGrp (grp cs :: r) = true := rfl
  rw [colL_tok hg]
  simp only [step, hl, hw, hd, hp, hn, ha, hres, Bool.false_eq_true, if_false, if_true, Bool.and_false, List.nil_append, colL_grp, colG_agg]

/-! ### pieces -/
/-- a first token that is neither `.` nor `SELECT` / `WITH` -/
def okHd (t : Tok) : Bool := noneOf [".", "SELECT", "WITH"] t
theorem okHd_dot {t : Tok} (h : okHd t = true) : t.equalsStr "." = false := noneOf_mem h (by decide)
theorem okHd_grp (cs : List Tok) : okHd (grp cs) = true := by simp [okHd, noneOf, grp, Tok.equalsStr]

/-- the piece `ts`, scanned where an operand is expected, yields `l` and ends an operand -/
structure ColOK (ts : List Tok) (l : List QCol) : Prop where
  scan : ∀ rest, hdS rest = true → colL (.expr false) (ts ++ rest) = l ++ colL (.expr true) rest
  hd : ∃ t r, ts = t :: r ∧ okHd t = true

theorem ColOK.cast {ts ts' : List Tok} {l l' : List QCol} (h : ColOK ts l) (e1 : ts = ts') (e2 : l = l') : ColOK ts' l' := by
  subst e1; subst e2; exact h
theorem ColOK.nodot {ts : List Tok} {l : List QCol} (h : ColOK ts l) (rest : List Tok) : nextIs "." (ts ++ rest) = false := by
  obtain ⟨t, r, rfl, ht⟩ := h.hd
  exact okHd_dot ht
theorem ColOK.nosubq {ts : List Tok} {l : List QCol} (h : ColOK ts l) : isSubq ts = false := by
  obtain ⟨t, r, rfl, ht⟩ := h.hd
  simp [isSubq, noneOf_mem ht (k := "SELECT") (by decide), noneOf_mem ht (k := "WITH") (by decide)]
theorem ColOK.inner {ts : List Tok} {l : List QCol} (h : ColOK ts l) : colL (.expr false) ts = l := by
  have := h.scan [] rfl
  simpa [colL_nil] using this
theorem ColOK.ne {ts : List Tok} {l : List QCol} (h : ColOK ts l) : ts ≠ [] := by
  obtain ⟨t, r, rfl, _⟩ := h.hd
  simp
/-- a bracketed piece -/
theorem ColOK.grp {ts : List Tok} {l : List QCol} (h : ColOK ts l) : ColOK [grp ts] l :=
  ⟨fun rest hr => by simp [colL_grp_expr, h.nosubq, h.inner], ⟨_, _, rfl, okHd_grp ts⟩⟩
theorem ColOK.wrap {ts : List Tok} {l : List QCol} (h : ColOK ts l) (b : Bool) (e : Expr) (k : Nat) : ColOK (wrapT b e k ts) l := by
  unfold wrapT
  split
  · exact h.grp
  · exact h
/-- a keyword / prefix operator in front of a piece -/
theorem ColOK.pre {t : Tok} (hk : kwOut t = some false) (ho : okHd t = true) {ts : List Tok} {l : List QCol} (h : ColOK ts l) :
    ColOK (t :: ts) l :=
  ⟨fun rest hr => by rw [List.cons_append, colL_kw hk false _ (h.nodot rest), h.scan rest hr], ⟨_, _, rfl, ho⟩⟩
/-- a token between two operands -/
structure BinTok (t : Tok) : Prop where
  go : ∀ r, nextIs "." r = false → colL (.expr true) (t :: r) = colL (.expr false) r
  single : isGrp t = false
  nd : t.equalsStr "." = false
theorem BinTok.hdS {t : Tok} (h : BinTok t) (r : List Tok) : CT.hdS (t :: r) = true := hdS_cons h.single h.nd r
theorem BinTok.ofKw {t : Tok} (hk : kwOut t = some false) (hn : t.equalsStr "." = false) : BinTok t :=
  ⟨fun r hr => colL_kw hk true r hr, kwOut_single hk, hn⟩
theorem binTok_star : BinTok starTok := ⟨fun r _ => colL_star_op r, rfl, by decide⟩
theorem ColOK.bin {a b : List Tok} {x y : List QCol} (ha : ColOK a x) {t : Tok} (ht : BinTok t) (hb : ColOK b y) :
    ColOK (a ++ t :: b) (x ++ y) :=
  ⟨fun rest hr => by
    rw [List.append_assoc, List.cons_append, ha.scan _ (ht.hdS _), ht.go _ (hb.nodot rest), hb.scan rest hr, List.append_assoc], by
    obtain ⟨t0, r0, rfl, h0⟩ := ha.hd
    exact ⟨t0, r0 ++ t :: b, rfl, h0⟩⟩

end CT
