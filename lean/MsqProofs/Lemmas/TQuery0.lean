import MsqProofs.Props.C02T2
import MsqProofs.Props.C03T
/-!
# T-parse closed under nesting: queries and expressions in ONE mutually recursive fragment, base definitions (C03 / C01 / C02)

Built NEXT to TP (Props/C02T.lean), TS (Props/C03T.lean) and TP2 (Props/C02T2.lean), whose definitions and statements are unchanged.

* `toksE3 d ch e` / `toksS3 d ch s` / `toksQ d ch q` — the token-level printers of expressions, single SELECTs and queries, mutually
  recursive: an expression may be a scalar sub-query `(q)`, `[NOT] IN (q)`, `EXISTS (q)`; a FROM item may be a derived table
  `(q) AS alias`; a query is a single SELECT or `s₀ op₁ s₁ op₂ s₂ …` over the set operators of `Gen.unionTypes`.  On the old
  constructors `toksE3` is `TP2.toksE2` clause for clause and `toksS3` is `TS.toksS` (with `toksE3` at every expression position).
* `FragE3 d e` / `FragS3 d s` / `FragQ d q` — the fragment (three `Bool`s, mutually recursive); `szE3` / `szS3` / `szQ` — the common
  size of the induction.
* continuations: `Bd3 d k rest` = `TS.Bd d k rest` and the head is not `OVER` (expressions may now be calls); `stopsQ d rest`: nothing
  of a query follows — `Bd3 d 7 rest` and the head is no set operator.
-/
set_option linter.unusedVariables false
set_option linter.unusedSimpArgs false
open Lex PM Ast TP TP2 TS
namespace TQ

/-- a table name as `tableNameSrc` prints it: `` `n` `` or `` `s.n` `` (ONE back-quoted token) -/
def tblTok (s : Option String) (n : String) : Tok :=
  match s with
  | none => nameTok n
  | some s => .single ('`' :: (s.toList ++ '.' :: (n.toList ++ ['`']))) NAME
def unionWords (ty : String) : List Tok :=
  match Gen.unionTypes.find? (·.1 == ty) with | some e => e.2.map opTok | none => []

mutual
def toksE3 (d : Gen.D) (ch : Expr → Bool) : Expr → List Tok
  | .column none c => [nameTok c]
  | .column (some t) c => [nameTok t, dotTok, nameTok c]
  | .literal v => [litTok v]
  | .wildcard none => [starTok]
  | .wildcard (some t) => [qTok t, dotTok, starTok]
  | .func s n ps => (match s with | some s => [nameTok s, dotTok] | none => []) ++ [qTok n, grp (toksArgs3 d ch 14 ps)]
  | .agg n ps dist => [opTok n, grp ((if dist then [opTok "DISTINCT"] else []) ++ toksArgs3 d ch 14 ps)]
  | .caseCond cs els => opTok "CASE" :: (toksArms3 d ch cs ++ (toksElse3 d ch els ++ [opTok "END"]))
  | .caseVal v cs els =>
      opTok "CASE" :: (wrapT (ch v) v 14 (toksE3 d ch v) ++ (toksArms3 d ch cs ++ (toksElse3 d ch els ++ [opTok "END"])))
  | .subValue vs => [grp (toksArgs3 d ch 8 vs)]
  | .subQuery q => [grp (toksQ d ch q)]
  | .exists_ v => opTok "EXISTS" :: toksE3 d ch v
  | .unary o e => opTok (cval o) :: wrapT (ch e) e 2 (toksE3 d ch e)
  | .compute l o r =>
      wrapT (ch l) l (PR.lvl (.compute l o r)) (toksE3 d ch l) ++ opTok (cval o) :: wrapT (ch r) r (PR.lvl (.compute l o r) - 1) (toksE3 d ch r)
  | .kw k n l r => wrapT (ch l) l 9 (toksE3 d ch l) ++ (kwToks k n ++ wrapT (ch r && k != .in_) r 8 (toksE3 d ch r))
  | .between n b f t =>
      wrapT (ch b) b 9 (toksE3 d ch b) ++ ((if n then [opTok "NOT"] else []) ++ opTok "BETWEEN" :: (wrapT (ch f) f 8 (toksE3 d ch f) ++ opTok "AND" :: wrapT (ch t) t 8 (toksE3 d ch t)))
  | .compare o l r => wrapT (ch l) l 10 (toksE3 d ch l) ++ opTok (cmpVal o) :: wrapT (ch r) r 9 (toksE3 d ch r)
  | .not_ e => opTok "NOT" :: wrapT (ch e) e 11 (toksE3 d ch e)
  | .and_ l r => wrapT (ch l) l 12 (toksE3 d ch l) ++ opTok "AND" :: wrapT (ch r) r 11 (toksE3 d ch r)
  | .xor l r => wrapT (ch l) l 13 (toksE3 d ch l) ++ opTok "XOR" :: wrapT (ch r) r 12 (toksE3 d ch r)
  | .or_ l r => wrapT (ch l) l 14 (toksE3 d ch l) ++ opTok "OR" :: wrapT (ch r) r 13 (toksE3 d ch r)
  | _ => []
def toksArgs3 (d : Gen.D) (ch : Expr → Bool) (k : Nat) : List Expr → List Tok
  | [] => []
  | a :: as => wrapT (ch a) a k (toksE3 d ch a) ++ toksArgsTail3 d ch k as
def toksArgsTail3 (d : Gen.D) (ch : Expr → Bool) (k : Nat) : List Expr → List Tok
  | [] => []
  | a :: as => TP2.commaTok :: (wrapT (ch a) a k (toksE3 d ch a) ++ toksArgsTail3 d ch k as)
def toksArms3 (d : Gen.D) (ch : Expr → Bool) : List (Expr × Expr) → List Tok
  | [] => []
  | (w, t) :: r =>
      opTok "WHEN" :: (wrapT (ch w) w 14 (toksE3 d ch w) ++ opTok "THEN" :: (wrapT (ch t) t 14 (toksE3 d ch t) ++ toksArms3 d ch r))
def toksElse3 (d : Gen.D) (ch : Expr → Bool) : Option Expr → List Tok
  | none => []
  | some y => opTok "ELSE" :: wrapT (ch y) y 14 (toksE3 d ch y)
def toksQ (d : Gen.D) (ch : Expr → Bool) : Query → List Tok
  | .single s => toksS3 d ch s
  | .union _ s us => toksS3 d ch s ++ toksUn d ch us
def toksUn (d : Gen.D) (ch : Expr → Bool) : List (String × Select) → List Tok
  | [] => []
  | (t, s) :: r => unionWords t ++ (toksS3 d ch s ++ toksUn d ch r)
def toksS3 (d : Gen.D) (ch : Expr → Bool) : Select → List Tok
  | .mk _ dist cols fr _ js wh gb hv ob _ _ _ lm =>
      opTok "SELECT" :: ((if dist then [opTok "DISTINCT"] else []) ++ (toksCols3 d ch cols ++ (toksFrom3 d ch fr ++ (toksJoins3 d ch js ++
        (toksOptE3 d ch "WHERE" wh ++ (toksGroup3 d ch gb ++ (toksOptE3 d ch "HAVING" hv ++ (toksOrder3 d ch ob ++ toksLimit lm))))))))
def toksCols3 (d : Gen.D) (ch : Expr → Bool) : List (Expr × Option String) → List Tok
  | [] => []
  | (e, a) :: cs => toksE3 d ch e ++ aliasToks a ++ toksColsTail3 d ch cs
def toksColsTail3 (d : Gen.D) (ch : Expr → Bool) : List (Expr × Option String) → List Tok
  | [] => []
  | (e, a) :: cs => TS.commaTok :: (toksE3 d ch e ++ aliasToks a ++ toksColsTail3 d ch cs)
def toksRef3 (d : Gen.D) (ch : Expr → Bool) : TableRef → List Tok
  | .table s n => [tblTok s n]
  | .sub q => [grp (toksQ d ch q)]
def toksTable3 (d : Gen.D) (ch : Expr → Bool) : FromTable → List Tok
  | .mk t a => toksRef3 d ch t ++ aliasToks a
def toksTablesTail3 (d : Gen.D) (ch : Expr → Bool) : List FromTable → List Tok
  | [] => []
  | t :: ts => TS.commaTok :: (toksTable3 d ch t ++ toksTablesTail3 d ch ts)
def toksFrom3 (d : Gen.D) (ch : Expr → Bool) : Option (List FromTable) → List Tok
  | some (t :: ts) => opTok "FROM" :: (toksTable3 d ch t ++ toksTablesTail3 d ch ts)
  | _ => []
def toksRule3 (d : Gen.D) (ch : Expr → Bool) : Option JoinRule → List Tok
  | some (.on e) => opTok "ON" :: toksE3 d ch e
  | _ => []
def toksJoin3 (d : Gen.D) (ch : Expr → Bool) : Join → List Tok
  | .mk ty t rule => joinWords ty ++ (toksTable3 d ch t ++ toksRule3 d ch rule)
def toksJoins3 (d : Gen.D) (ch : Expr → Bool) : List Join → List Tok
  | [] => []
  | j :: js => toksJoin3 d ch j ++ toksJoins3 d ch js
def toksOptE3 (d : Gen.D) (ch : Expr → Bool) (kw : String) : Option Expr → List Tok
  | some e => opTok kw :: toksE3 d ch e
  | none => []
def toksGroup3 (d : Gen.D) (ch : Expr → Bool) : Option GroupBy → List Tok
  | some (.mk (e :: es) _ _ _) => opTok "GROUP" :: opTok "BY" :: (wrapT (ch e) e 8 (toksE3 d ch e) ++ toksArgsTail3 d ch 8 es)
  | _ => []
def toksOrdItem3 (d : Gen.D) (ch : Expr → Bool) : OrderItem → List Tok
  | .mk e desc _ _ => wrapT (ch e) e 8 (toksE3 d ch e) ++ (if desc then [opTok "DESC"] else [])
def toksOrdTail3 (d : Gen.D) (ch : Expr → Bool) : List OrderItem → List Tok
  | [] => []
  | o :: os => TS.commaTok :: (toksOrdItem3 d ch o ++ toksOrdTail3 d ch os)
def toksOrder3 (d : Gen.D) (ch : Expr → Bool) : Option (List OrderItem) → List Tok
  | some (o :: os) => opTok "ORDER" :: opTok "BY" :: (toksOrdItem3 d ch o ++ toksOrdTail3 d ch os)
  | _ => []
end
def W3 (d : Gen.D) (ch : Expr → Bool) (e : Expr) (k : Nat) : List Tok := wrapT (ch e) e k (toksE3 d ch e)


/-! ### an upper bound for the number of top-level tokens of a rendering -/
mutual
def tl3 : Expr → Nat
  | .column (some _) _ => 3
  | .wildcard (some _) => 3
  | .func _ _ _ => 4
  | .agg _ _ _ => 2
  | .caseCond cs els => 2 + tlA3 cs + tlO3 els
  | .caseVal v cs els => 2 + tl3 v + tlA3 cs + tlO3 els
  | .exists_ v => 1 + tl3 v
  | .unary _ e => 1 + tl3 e
  | .compute l _ r => tl3 l + 1 + tl3 r
  | .kw _ _ l r => tl3 l + 2 + tl3 r
  | .between _ b f t => tl3 b + 3 + tl3 f + tl3 t
  | .compare _ l r => tl3 l + 1 + tl3 r
  | .not_ e => 1 + tl3 e
  | .and_ l r => tl3 l + 1 + tl3 r
  | .xor l r => tl3 l + 1 + tl3 r
  | .or_ l r => tl3 l + 1 + tl3 r
  | _ => 1
def tlA3 : List (Expr × Expr) → Nat
  | [] => 0
  | (w, t) :: r => 2 + tl3 w + tl3 t + tlA3 r
def tlO3 : Option Expr → Nat
  | none => 0
  | some y => 1 + tl3 y
end
theorem tl3_pos (e : Expr) : 1 ≤ tl3 e := by
  cases e with
  | column t c => cases t <;> simp [tl3]
  | wildcard t => cases t <;> simp [tl3]
  | _ => first | (simp only [tl3]; omega) | simp [tl3]
def shortL3 (vs : List Expr) : Bool := vs.all (fun v => decide (tl3 v ≤ 20))

/-- the level that decides whether the FIRST token of the unwrapped rendering is an operand token: the printer's level, except that
`EXISTS (q)` starts with a word that is none (like `NOT …`) -/
def lvlH : Expr → Nat
  | .exists_ _ => 11
  | e => PR.lvl e
def isExists : Expr → Bool
  | .exists_ _ => true
  | _ => false
theorem lvlH_eq {e : Expr} (h : isExists e = false) : lvlH e = PR.lvl e := by cases e <;> simp_all [lvlH, isExists]
theorem lvlH_ge (e : Expr) : PR.lvl e ≤ lvlH e := by cases e <;> simp [lvlH, PR.lvl]
theorem lvlH_of_le8 {e : Expr} (h : PR.lvl e ≤ 8) : lvlH e = PR.lvl e := by cases e <;> simp_all [lvlH, PR.lvl]

/-! ### continuations -/
def Bd3 (d : Gen.D) (k : Nat) (rest : List Tok) : Bool := Bd d k rest && !headIsOver rest
/-- nothing of a query follows: nothing of a SELECT, and no set operator -/
def stopsQ (d : Gen.D) (rest : List Tok) : Bool := Bd3 d 7 rest && !setOpHead rest

/-! ### the fragment -/
def isOkPair (r : Except Err (Option String × String)) (s : Option String) (n : String) : Bool :=
  match r with | .ok (a, b) => a == s && b == n | _ => false
/-- a table name, optionally schema-qualified: its ONE back-quoted token is read back as that (schema, name) -/
def tblOK (s : Option String) (n : String) : Bool :=
  (tblTok s n).has NAME && !(tblTok s n).has PAREN && (tblTok s n).children.isEmpty && isOkPair (splitName (tblTok s n).src) s n &&
    Gen.joinTypes.all (fun e => e.2.all (fun k => !(tblTok s n).equalsStr k))
/-- a set operator of the regenerated table whose words are found again as that operator; its first word ends the SELECT before it -/
def unionTyOK (d : Gen.D) (ty : String) : Bool :=
  (match firstEnumA Gen.unionTypes (unionWords ty) with | some (n, k) => n == ty && k == (unionWords ty).length | none => false) &&
    (match unionWords ty with | t :: _ => bdTok d 7 t && setOpHead [t] && !t.srcEqUp "OVER" | [] => false)

mutual
def FragE3 (d : Gen.D) : Expr → Bool
  | .column none c => colOK d c
  | .column (some t) c => qcolOK d t c
  | .literal v => litOK d v
  | .wildcard none => true
  | .wildcard (some t) => wildOK d t
  | .func s n ps => fnOK d s n && FragL3 d ps
  | .agg n ps _ => aggOK d n && FragL3 d ps
  | .caseCond cs els => FragA3 d cs && FragO3 d els && !cs.isEmpty
  | .caseVal v cs els => FragE3 d v && FragA3 d cs && FragO3 d els && !cs.isEmpty
  | .subQuery q => FragQ d q
  | .exists_ v => isSubQ d v
  | .unary o e => unOK d o && FragE3 d e
  | .compute l o r => binOK d o && FragE3 d l && FragE3 d r
  | .kw k _ l r => FragE3 d l && (if k == .in_ then inRhs3 d r else FragE3 d r) && !isExists l
  | .between _ b f t => FragE3 d b && FragE3 d f && FragE3 d t && !isExists b
  | .compare o l r => cmpOK d o && FragE3 d l && FragE3 d r && !isExists l
  | .not_ e => FragE3 d e
  | .and_ l r => FragE3 d l && FragE3 d r
  | .xor l r => FragE3 d l && FragE3 d r
  | .or_ l r => FragE3 d l && FragE3 d r
  | _ => false
def FragL3 (d : Gen.D) : List Expr → Bool
  | [] => true
  | a :: as => FragE3 d a && FragL3 d as
def FragA3 (d : Gen.D) : List (Expr × Expr) → Bool
  | [] => true
  | (w, t) :: r => FragE3 d w && FragE3 d t && FragA3 d r
def FragO3 (d : Gen.D) : Option Expr → Bool
  | none => true
  | some y => FragE3 d y
/-- the right side of `IN`: a non-empty list of short values, or a sub-query -/
def inRhs3 (d : Gen.D) : Expr → Bool
  | .subValue vs => FragL3 d vs && !vs.isEmpty && shortL3 vs
  | .subQuery q => FragQ d q
  | _ => false
def isSubQ (d : Gen.D) : Expr → Bool
  | .subQuery q => FragQ d q
  | _ => false
def FragQ (d : Gen.D) : Query → Bool
  | .single s => FragS3 d s
  | .union ws s us => (match ws with | some [] => true | _ => false) && FragS3 d s && FragUn d us && !us.isEmpty
def FragUn (d : Gen.D) : List (String × Select) → Bool
  | [] => true
  | (t, s) :: r => unionTyOK d t && FragS3 d s && FragUn d r
def FragS3 (d : Gen.D) : Select → Bool
  | .mk (some []) dist cols fr [] js wh gb hv ob none none none lm =>
      colsOK3 d cols && !cols.isEmpty && fromOK3 d fr && joinsOK3 d js && FragO3 d wh && groupOK3 d gb && FragO3 d hv && orderOK3 d ob &&
        limitOK lm && (dist || !searchStrUp (toksCols3 d noX cols) "DISTINCT")
  | _ => false
def colsOK3 (d : Gen.D) : List (Expr × Option String) → Bool
  | [] => true
  | (e, a) :: cs => FragE3 d e && optAliasOK a && colsOK3 d cs
def refOK3 (d : Gen.D) : TableRef → Bool
  | .table s n => tblOK s n
  | .sub q => FragQ d q
def tableOK3 (d : Gen.D) : FromTable → Bool
  | .mk r a => refOK3 d r && optAliasOK a
def tablesOK3 (d : Gen.D) : List FromTable → Bool
  | [] => true
  | t :: ts => tableOK3 d t && tablesOK3 d ts
def fromOK3 (d : Gen.D) : Option (List FromTable) → Bool
  | none => true
  | some (t :: ts) => tableOK3 d t && tablesOK3 d ts
  | some [] => false
def ruleOK3 (d : Gen.D) : Option JoinRule → Bool
  | none => true
  | some (.on e) => FragE3 d e
  | some (.using _) => false
def joinOK3 (d : Gen.D) : Join → Bool
  | .mk ty t rule => joinTyOK d ty && tableOK3 d t && ruleOK3 d rule
def joinsOK3 (d : Gen.D) : List Join → Bool
  | [] => true
  | j :: js => joinOK3 d j && joinsOK3 d js
def groupOK3 (d : Gen.D) : Option GroupBy → Bool
  | none => true
  | some (.mk (e :: es) none false false) => FragE3 d e && FragL3 d es && !searchStrUp (W3 d noX e 8) "GROUPING"
  | _ => false
def ordItemOK3 (d : Gen.D) : OrderItem → Bool
  | .mk e _ nf nl => FragE3 d e && !nf && !nl
def ordTailOK3 (d : Gen.D) : List OrderItem → Bool
  | [] => true
  | o :: os => ordItemOK3 d o && ordTailOK3 d os
def orderOK3 (d : Gen.D) : Option (List OrderItem) → Bool
  | none => true
  | some (o :: os) => ordItemOK3 d o && ordTailOK3 d os
  | some [] => false
end

/-! ### the common size -/
mutual
def szE3 : Expr → Nat
  | .func _ _ ps => szL3 ps + 1
  | .agg _ ps _ => szL3 ps + 1
  | .caseCond cs els => szA3 cs + szO3 els + 1
  | .caseVal v cs els => szE3 v + szA3 cs + szO3 els + 1
  | .subValue vs => szL3 vs + 1
  | .subQuery q => szQ q + 1
  | .exists_ v => szE3 v + 1
  | .unary _ e => szE3 e + 1
  | .compute l _ r => szE3 l + szE3 r + 1
  | .kw _ _ l r => szE3 l + szE3 r + 1
  | .between _ b f t => szE3 b + szE3 f + szE3 t + 1
  | .compare _ l r => szE3 l + szE3 r + 1
  | .not_ e => szE3 e + 1
  | .and_ l r => szE3 l + szE3 r + 1
  | .xor l r => szE3 l + szE3 r + 1
  | .or_ l r => szE3 l + szE3 r + 1
  | _ => 1
def szL3 : List Expr → Nat
  | [] => 0
  | a :: as => szE3 a + szL3 as
def szA3 : List (Expr × Expr) → Nat
  | [] => 0
  | (w, t) :: r => szE3 w + szE3 t + szA3 r
def szO3 : Option Expr → Nat
  | none => 0
  | some y => szE3 y
def szQ : Query → Nat
  | .single s => szS3 s + 1
  | .union _ s us => szS3 s + szUn us + 1
def szUn : List (String × Select) → Nat
  | [] => 0
  | (_, s) :: r => szS3 s + szUn r + 1
def szS3 : Select → Nat
  | .mk _ _ cols fr _ js wh gb hv ob _ _ _ _ => szCols cols + szFrom fr + szJoins js + szO3 wh + szGroup gb + szO3 hv + szOrder ob + 1
def szCols : List (Expr × Option String) → Nat
  | [] => 0
  | (e, _) :: cs => szE3 e + szCols cs
def szRef : TableRef → Nat
  | .table _ _ => 1
  | .sub q => szQ q + 1
def szTable : FromTable → Nat
  | .mk r _ => szRef r
def szTables : List FromTable → Nat
  | [] => 0
  | t :: ts => szTable t + szTables ts
def szFrom : Option (List FromTable) → Nat
  | none => 0
  | some ts => szTables ts
def szRule : Option JoinRule → Nat
  | some (.on e) => szE3 e
  | _ => 0
def szJoin : Join → Nat
  | .mk _ t rule => szTable t + szRule rule
def szJoins : List Join → Nat
  | [] => 0
  | j :: js => szJoin j + szJoins js
def szGroup : Option GroupBy → Nat
  | some (.mk es _ _ _) => szL3 es
  | none => 0
def szOrdItem : OrderItem → Nat
  | .mk e _ _ _ => szE3 e
def szOrdL : List OrderItem → Nat
  | [] => 0
  | o :: os => szOrdItem o + szOrdL os
def szOrder : Option (List OrderItem) → Nat
  | none => 0
  | some os => szOrdL os
end
theorem szE3_pos (e : Expr) : 1 ≤ szE3 e := by cases e <;> simp [szE3] <;> omega

end TQ
