import MsqProofs.Props.C02T2
import MsqProofs.Props.C03T
/-!
# T-parse closed under nesting: queries and expressions in ONE mutually recursive fragment, base definitions (C03 / C01 / C02)

Built NEXT to TP (Props/C02T.lean), TS (Props/C03T.lean) and TP2 (Props/C02T2.lean), whose definitions and statements are unchanged.

* `toksE3 d ch e` / `toksS3 d ch s` / `toksQ d ch q` — the token-level printers of expressions, single SELECTs and queries, mutually
  recursive: an expression may be a scalar sub-query `(q)`, `[NOT] IN (q)`, `EXISTS (q)`; a FROM item may be a derived table
  `(q) AS alias`; a query is a single SELECT or `s₀ op₁ s₁ op₂ s₂ …` over the set operators of `Gen.unionTypes`.  On the old
  constructors `toksE3` is `TP2.toksE2` clause for clause and `toksS3` is `TS.toksS` (with `toksE3` at every expression position).
* `FragE3 d e` / `FragS3 d s` / `FragQ d q` — the fragment (three `Bool`s, mutually recursive); `szE3` / `szS3` / `szQ` — the common
  size of the induction.
* continuations: `Bd3 d k rest` = `TS.Bd d k rest` and the head is not `OVER` (expressions may now be calls); `stopsQ d rest`: nothing
  of a query follows — `Bd3 d 7 rest` and the head is no set operator.
-/
set_option linter.unusedVariables false
set_option linter.unusedSimpArgs false
open Lex PM Ast TP TP2 TS
namespace TQ

/-- a table name as `tableNameSrc` prints it: `` `n` `` or `` `s.n` `` (ONE back-quoted token) -/
def tblTok (s : Option String) (n : String) : Tok :=
  match s with
  | none => nameTok n
  | some s => .single ('`' :: (s.toList ++ '.' :: (n.toList ++ ['`']))) NAME
def unionWords (ty : String) : List Tok :=
  match Gen.unionTypes.find? (·.1 == ty) with | some e => e.2.map opTok | none => []

mutual
def toksE3 (d : Gen.D) (ch : Expr → Bool) : Expr → List Tok
  | .column none c => [nameTok c]
  | .column (some t) c => [nameTok t, dotTok, nameTok c]
  | .literal v => [litTok v]
  | .wildcard none => [starTok]
  | .wildcard (some t) => [qTok t, dotTok, starTok]
  | .func s n ps => (match s with | some s => [nameTok s, dotTok] | none => []) ++ [qTok n, grp (toksArgs3 d ch 14 ps)]
  | .agg n ps dist => [opTok n, grp ((if dist then [opTok "DISTINCT"] else []) ++ toksArgs3 d ch 14 ps)]
  | .caseCond cs els => opTok "CASE" :: (toksArms3 d ch cs ++ (toksElse3 d ch els ++ [opTok "END"]))
  | .caseVal v cs els =>
      opTok "CASE" :: (wrapT (ch v) v 14 (toksE3 d ch v) ++ (toksArms3 d ch cs ++ (toksElse3 d ch els ++ [opTok "END"])))
  | .subValue vs => [grp (toksArgs3 d ch 8 vs)]
  | .subQuery q => [grp (toksQ d ch q)]
  | .exists_ v => opTok "EXISTS" :: toksE3 d ch v
  | .unary o e => opTok (cval o) :: wrapT (ch e) e 2 (toksE3 d ch e)
  | .compute l o r =>
      wrapT (ch l) l (PR.lvl (.compute l o r)) (toksE3 d ch l) ++ opTok (cval o) :: wrapT (ch r) r (PR.lvl (.compute l o r) - 1) (toksE3 d ch r)
  | .kw k n l r => wrapT (ch l) l 9 (toksE3 d ch l) ++ (kwToks k n ++ wrapT (ch r && k != .in_) r 8 (toksE3 d ch r))
  | .between n b f t =>
      wrapT (ch b) b 9 (toksE3 d ch b) ++ ((if n then [opTok "NOT"] else []) ++ opTok "BETWEEN" :: (wrapT (ch f) f 8 (toksE3 d ch f) ++ opTok "AND" :: wrapT (ch t) t 8 (toksE3 d ch t)))
  | .compare o l r => wrapT (ch l) l 10 (toksE3 d ch l) ++ opTok (cmpVal o) :: wrapT (ch r) r 9 (toksE3 d ch r)
  | .not_ e => opTok "NOT" :: wrapT (ch e) e 11 (toksE3 d ch e)
  | .and_ l r => wrapT (ch l) l 12 (toksE3 d ch l) ++ opTok "AND" :: wrapT (ch r) r 11 (toksE3 d ch r)
  | .xor l r => wrapT (ch l) l 13 (toksE3 d ch l) ++ opTok "XOR" :: wrapT (ch r) r 12 (toksE3 d ch r)
  | .or_ l r => wrapT (ch l) l 14 (toksE3 d ch l) ++ opTok "OR" :: wrapT (ch r) r 13 (toksE3 d ch r)
  | _ => []
def toksArgs3 (d : Gen.D) (ch : Expr → Bool) (k : Nat) : List Expr → List Tok
  | [] => []
  | a :: as => wrapT (ch a) a k (toksE3 d ch a) ++ toksArgsTail3 d ch k as
def toksArgsTail3 (d : Gen.D) (ch : Expr → Bool) (k : Nat) : List Expr → List Tok
  | [] => []
  | a :: as => TP2.commaTok :: (wrapT (ch a) a k (toksE3 d ch a) ++ toksArgsTail3 d ch k as)
def toksArms3 (d : Gen.D) (ch : Expr → Bool) : List (Expr × Expr) → List Tok
  | [] => []
  | (w, t) :: r =>
      opTok "WHEN" :: (wrapT (ch w) w 14 (toksE3 d ch w) ++ opTok "THEN" :: (wrapT (ch t) t 14 (toksE3 d ch t) ++ toksArms3 d ch r))
def toksElse3 (d : Gen.D) (ch : Expr → Bool) : Option Expr → List Tok
  | none => []
  | some y => opTok "ELSE" :: wrapT (ch y) y 14 (toksE3 d ch y)
def toksQ (d : Gen.D) (ch : Expr → Bool) : Query → List Tok
  | .single s => toksS3 d ch s
  | .union _ s us => toksS3 d ch s ++ toksUn d ch us
def toksUn (d : Gen.D) (ch : Expr → Bool) : List (String × Select) → List Tok
  | [] => []
  | (t, s) :: r => unionWords t ++ (toksS3 d ch s ++ toksUn d ch r)
def toksS3 (d : Gen.D) (ch : Expr → Bool) : Select → List Tok
  | .mk _ dist cols fr _ js wh gb hv ob _ _ _ lm =>
      opTok "SELECT" :: ((if dist then [opTok "DISTINCT"] else []) ++ (toksCols3 d ch cols ++ (toksFrom3 d ch fr ++ (toksJoins3 d ch js ++
        (toksOptE3 d ch "WHERE" wh ++ (toksGroup3 d ch gb ++ (toksOptE3 d ch "HAVING" hv ++ (toksOrder3 d ch ob ++ toksLimit lm))))))))
def toksCols3 (d : Gen.D) (ch : Expr → Bool) : List (Expr × Option String) → List Tok
  | [] => []
  | (e, a) :: cs => toksE3 d ch e ++ aliasToks a ++ toksColsTail3 d ch cs
def toksColsTail3 (d : Gen.D) (ch : Expr → Bool) : List (Expr × Option String) → List Tok
  | [] => []
  | (e, a) :: cs => TS.commaTok :: (toksE3 d ch e ++ aliasToks a ++ toksColsTail3 d ch cs)
def toksRef3 (d : Gen.D) (ch : Expr → Bool) : TableRef → List Tok
  | .table s n => [tblTok s n]
  | .sub q => [grp (toksQ d ch q)]
def toksTable3 (d : Gen.D) (ch : Expr → Bool) : FromTable → List Tok
  | .mk t a => toksRef3 d ch t ++ aliasToks a
def toksTablesTail3 (d : Gen.D) (ch : Expr → Bool) : List FromTable → List Tok
  | [] => []
  | t :: ts => TS.commaTok :: (toksTable3 d ch t ++ toksTablesTail3 d ch ts)
def toksFrom3 (d : Gen.D) (ch : Expr → Bool) : Option (List FromTable) → List Tok
  | some (t :: ts) => opTok "FROM" :: (toksTable3 d ch t ++ toksTablesTail3 d ch ts)
  | _ => []
def toksRule3 (d : Gen.D) (ch : Expr → Bool) : Option JoinRule → List Tok
  | some (.on e) => opTok "ON" :: toksE3 d ch e
  | _ => []
def toksJoin3 (d : Gen.D) (ch : Expr → Bool) : Join → List Tok
  | .mk ty t rule => joinWords ty ++ (toksTable3 d ch t ++ toksRule3 d ch rule)
def toksJoins3 (d : Gen.D) (ch : Expr → Bool) : List Join → List Tok
  | [] => []
  | j :: js => toksJoin3 d ch j ++ toksJoins3 d ch js
def toksOptE3 (d : Gen.D) (ch : Expr → Bool) (kw : String) : Option Expr → List Tok
  | some e => opTok kw :: toksE3 d ch e
  | none => []
def toksGroup3 (d : Gen.D) (ch : Expr → Bool) : Option GroupBy → List Tok
  | some (.mk (e :: es) _ _ _) => opTok "GROUP" :: opTok "BY" :: (wrapT (ch e) e 8 (toksE3 d ch e) ++ toksArgsTail3 d ch 8 es)
  | _ => []
def toksOrdItem3 (d : Gen.D) (ch : Expr → Bool) : OrderItem → List Tok
  | .mk e desc _ _ => wrapT (ch e) e 8 (toksE3 d ch e) ++ (if desc then [opTok "DESC"] else [])
def toksOrdTail3 (d : Gen.D) (ch : Expr → Bool) : List OrderItem → List Tok
  | [] => []
  | o :: os => TS.commaTok :: (toksOrdItem3 d ch o ++ toksOrdTail3 d ch os)
def toksOrder3 (d : Gen.D) (ch : Expr → Bool) : Option (List OrderItem) → List Tok
  | some (o :: os) => opTok "ORDER" :: opTok "BY" :: (toksOrdItem3 d ch o ++ toksOrdTail3 d ch os)
  | _ => []
end
def W3 (d : Gen.D) (ch : Expr → Bool) (e : Expr) (k : Nat) : List Tok := wrapT (ch e) e k (toksE3 d ch e)

end TQ
