import MsqProofs.Lemmas.LexSem
/-!
# Bracket structure of the token tree (C04 b, c), generic in the table

Every operation body has a normal form (`summarize`); its group part is `none`, `push` or `pop k`.  Running the lexer,
the frame stack is at every moment the parse of the sequence of these *bracket events*:

* `skelL ts` — the bracket skeleton of a token list, in pre-order: a group of kind `k` contributes `opn`, the skeleton
  of its children, `cls k`;
* `skelS stack` — the skeleton of a frame stack: the closed part of every open frame, separated by one `opn` per open
  frame;
* `trace cfg s text` — the events the table prescribes for `text` from state `s`: a projection of the lexer to its
  *status* component (no window, no stack, no errors).

`lex_skel`: for every accepted text the skeleton of the result is the trace of the text.  Since the skeleton of a tree
is balanced (`depthOK_skelL`), a text whose trace is unbalanced is not accepted (`lex_unbalanced`).
-/
namespace Lex

/-- a bracket event: a group is opened (its kind is not known yet: it is decided by the CLOSING bracket, F-C04-1), or
the innermost open group is closed as a group of kind `k` -/
inductive Ev | opn | cls (k : GK) deriving DecidableEq, Repr

mutual
/-- pre-order bracket skeleton of a token -/
def skelT : Tok → List Ev
  | .single _ _ => []
  | .group k cs _ => .opn :: (skelL cs ++ [.cls k])
def skelL : List Tok → List Ev
  | [] => []
  | t :: ts => skelT t ++ skelL ts
end

theorem skelL_append (a b : List Tok) : skelL (a ++ b) = skelL a ++ skelL b := by
  induction a with
  | nil => rfl
  | cons t ts ih => simp [skelL, ih]

/-- skeleton of a frame stack (innermost frame first) -/
def skelS : List (List Tok) → List Ev
  | [] => []
  | [f] => skelL f
  | f :: g :: rest => skelS (g :: rest) ++ .opn :: skelL f

theorem skelS_top_single (f : List Tok) (fs : List (List Tok)) (s : List Char) (k : Nat) :
    skelS ((f ++ [.single s k]) :: fs) = skelS (f :: fs) := by
  cases fs <;> simp [skelS, skelL_append, skelL, skelT]

theorem skelS_push (g : List Tok) (rest : List (List Tok)) : skelS ([] :: g :: rest) = skelS (g :: rest) ++ [.opn] := by
  simp [skelS, skelL]

theorem skelS_pop (f g : List Tok) (rest : List (List Tok)) (k : GK) (mk : Nat) :
    skelS ((g ++ [.group k f mk]) :: rest) = skelS (f :: g :: rest) ++ [.cls k] := by
  cases rest <;> simp [skelS, skelL_append, skelL, skelT]

def grpEv : Grp → List Ev
  | .none => []
  | .push => [.opn]
  | .pop k _ => [.cls k]

/-- one summarised operation: the stack stays non-empty and its skeleton grows by the operation's bracket event -/
theorem execCore_skel (env : Env) (ss : S) (sm : Nat) (adv : Bool) (body : Body) (grp : Grp) (st : St) (ret : Bool)
    (m m' : Mem) (b : Bool) (h : execCore env ss sm adv body grp st ret m = .ok (m', b)) (hne : m.stack ≠ []) :
    m'.stack ≠ [] ∧ skelS m'.stack = skelS m.stack ++ grpEv grp ∧ m'.status = st.resolve ss m.status ∧ b = ret := by
  cases hst : m.stack with
  | nil => exact absurd hst hne
  | cons f fs =>
    unfold execCore at h
    rw [hst] at h
    cases body <;> cases grp <;> simp only [appendTop] at h
    case keep.none | drop.none | emit.none =>
      simp only [Except.ok.injEq, Prod.mk.injEq] at h
      obtain ⟨rfl, rfl⟩ := h
      exact ⟨by simp, by simp [grpEv, skelS_top_single], rfl, rfl⟩
    case keep.push | drop.push | emit.push =>
      simp only [Except.ok.injEq, Prod.mk.injEq] at h
      obtain ⟨rfl, rfl⟩ := h
      exact ⟨by simp, by simp only [skelS_push, grpEv, skelS_top_single], rfl, rfl⟩
    case keep.pop k mk | drop.pop k mk | emit.pop k mk =>
      cases fs with
      | nil => simp at h
      | cons g rest =>
        simp only [Except.ok.injEq, Prod.mk.injEq] at h
        obtain ⟨rfl, rfl⟩ := h
        refine ⟨by simp, ?_, rfl, rfl⟩
        simp only [skelS_pop, grpEv]
        try (show skelS ((f ++ [Tok.single _ _]) :: g :: rest) ++ _ = _; rw [skelS_top_single])

/-! ## the status projection of the lexer -/

variable {Cls : Type}

/-- what an operation does, as far as status, retry flag and bracket events are concerned (`none`: no cell, or the
cell raises) -/
def opInfo (cfg : Cfg Cls) (s : S) : Option (OpRef Cls) → Option (S × Bool × List Ev)
  | none => none
  | some o =>
    match summarize (cfg.code o.cls) with
    | none => none
    | some sm => if sm.raises then none else some (sm.st.resolve o.status s, sm.ret, grpEv sm.grp)

/-- what the table prescribes in state `s` on `sym` -/
def stepInfo (cfg : Cfg Cls) (s : S) (sym : Sym) : Option (S × Bool × List Ev) := opInfo cfg s (cfg.lookup s sym)

/-- one character with the driver's retry (`if not handle(ch): handle(ch)`), given the single-step function -/
def feedInfo (f : S → Option (S × Bool × List Ev)) (s : S) : Option (S × List Ev) :=
  match f s with
  | none => none
  | some (s1, true, e1) => some (s1, e1)
  | some (s1, false, e1) =>
    match f s1 with
    | none => none
    | some (s2, _, e2) => some (s2, e1 ++ e2)

/-- one character, with the driver's retry (`if not handle(ch): handle(ch)`) -/
def traceFeed (cfg : Cfg Cls) (s : S) (c : Char) : S × List Ev :=
  match stepInfo cfg s (.ch c) with
  | none => (s, [])
  | some (s1, true, e1) => (s1, e1)
  | some (s1, false, e1) =>
    match stepInfo cfg s1 (.ch c) with
    | none => (s1, e1)
    | some (s2, _, e2) => (s2, e1 ++ e2)

/-- the same, `none` when a cell is missing or raises (then the text is not accepted) -/
def traceFeed? (cfg : Cfg Cls) (s : S) (c : Char) : Option (S × List Ev) := feedInfo (fun s => stepInfo cfg s (.ch c)) s

/-- the final status and the bracket events of a text read from status `s` -/
def trace (cfg : Cfg Cls) : S → List Char → S × List Ev
  | s, [] => (s, [])
  | s, c :: cs => let r := traceFeed cfg s c; let r' := trace cfg r.1 cs; (r'.1, r.2 ++ r'.2)

/-- the bracket skeleton of a text according to the table: the events of its characters and of the end of the text -/
def textSkeleton (cfg : Cfg Cls) (text : List Char) : List Ev :=
  let r := trace cfg .WAIT text
  r.2 ++ (match stepInfo cfg r.1 .eof with | some (_, _, e) => e | none => [])

section run
variable (cfg : Cfg Cls) (hsum : ∀ c, (summarize (cfg.code c)).isSome = true) (text : List Char)
include hsum

theorem handle_skel (m m' : Mem) (sym : Sym) (b : Bool) (h : handle cfg text m sym = .ok (m', b)) (hne : m.stack ≠ []) :
    ∃ e, stepInfo cfg m.status sym = some (m'.status, b, e) ∧ skelS m'.stack = skelS m.stack ++ e ∧ m'.stack ≠ [] := by
  unfold handle at h
  cases ho : cfg.lookup m.status sym with
  | none => rw [ho] at h; cases h
  | some o =>
    rw [ho] at h
    dsimp only at h
    cases hs : summarize (cfg.code o.cls) with
    | none => have := hsum o.cls; rw [hs] at this; cases this
    | some sm =>
      rw [exec_summarize _ _ _ _ _ _ hs] at h
      simp only [execS] at h
      split at h
      · cases h
      · split at h
        · cases h
        · rename_i hr
          obtain ⟨h1, h2, h3, h4⟩ := execCore_skel _ _ _ _ _ _ _ _ _ _ _ h hne
          refine ⟨grpEv sm.grp, ?_, h2, h1⟩
          simp [stepInfo, opInfo, ho, hs, h3, h4, hr]

theorem feedWith_skel (m m' : Mem) (c : Char) (h : feedWith (handle cfg text) m c = .ok m') (hne : m.stack ≠ []) :
    m'.status = (traceFeed cfg m.status c).1 ∧ skelS m'.stack = skelS m.stack ++ (traceFeed cfg m.status c).2 ∧
      m'.stack ≠ [] := by
  simp only [feedWith] at h
  cases e1 : handle cfg text m (.ch c) with
  | error x => rw [e1] at h; cases h
  | ok x =>
    rw [e1] at h
    obtain ⟨m1, b1⟩ := x
    obtain ⟨ev1, hi1, hk1, hn1⟩ := handle_skel cfg hsum text m m1 (.ch c) b1 e1 hne
    cases b1 with
    | true =>
      simp only [Except.ok.injEq] at h
      subst h
      simp [traceFeed, hi1, hk1, hn1]
    | false =>
      simp only at h
      cases e2 : handle cfg text m1 (.ch c) with
      | error y => rw [e2] at h; cases h
      | ok y =>
        rw [e2] at h
        obtain ⟨m2, b2⟩ := y
        simp only [Except.ok.injEq] at h
        subst h
        obtain ⟨ev2, hi2, hk2, hn2⟩ := handle_skel cfg hsum text m1 m2 (.ch c) b2 e2 hn1
        simp [traceFeed, hi1, hi2, hk1, hk2, hn2]

theorem feedWith_skel' (m m' : Mem) (c : Char) (h : feedWith (handle cfg text) m c = .ok m') (hne : m.stack ≠ []) :
    ∃ e, traceFeed? cfg m.status c = some (m'.status, e) ∧ skelS m'.stack = skelS m.stack ++ e ∧ m'.stack ≠ [] := by
  simp only [feedWith] at h
  cases e1 : handle cfg text m (.ch c) with
  | error x => rw [e1] at h; cases h
  | ok x =>
    rw [e1] at h
    obtain ⟨m1, b1⟩ := x
    obtain ⟨ev1, hi1, hk1, hn1⟩ := handle_skel cfg hsum text m m1 (.ch c) b1 e1 hne
    cases b1 with
    | true =>
      simp only [Except.ok.injEq] at h
      subst h
      exact ⟨ev1, by simp [traceFeed?, feedInfo, hi1], hk1, hn1⟩
    | false =>
      simp only at h
      cases e2 : handle cfg text m1 (.ch c) with
      | error y => rw [e2] at h; cases h
      | ok y =>
        rw [e2] at h
        obtain ⟨m2, b2⟩ := y
        simp only [Except.ok.injEq] at h
        subst h
        obtain ⟨ev2, hi2, hk2, hn2⟩ := handle_skel cfg hsum text m1 m2 (.ch c) b2 e2 hn1
        exact ⟨ev1 ++ ev2, by simp [traceFeed?, feedInfo, hi1, hi2], by rw [hk2, hk1, List.append_assoc], hn2⟩

theorem feedAllWith_skel (cs : List Char) : ∀ (m m' : Mem), feedAllWith (handle cfg text) cs m = .ok m' → m.stack ≠ [] →
    m'.status = (trace cfg m.status cs).1 ∧ skelS m'.stack = skelS m.stack ++ (trace cfg m.status cs).2 ∧ m'.stack ≠ [] := by
  induction cs with
  | nil =>
    intro m m' h hne
    simp only [feedAllWith, Except.ok.injEq] at h
    subst h
    simp [trace, hne]
  | cons c cs ih =>
    intro m m' h hne
    simp only [feedAllWith] at h
    cases e1 : feedWith (handle cfg text) m c with
    | error x => rw [e1] at h; cases h
    | ok m1 =>
      rw [e1] at h
      obtain ⟨a1, a2, a3⟩ := feedWith_skel cfg hsum text m m1 c e1 hne
      obtain ⟨b1, b2, b3⟩ := ih m1 m' h a3
      simp only [trace]
      rw [← a1]
      exact ⟨b1, by rw [b2, a2, List.append_assoc], b3⟩

end run

/-- **the skeleton theorem**, generic in the table: for every accepted text, the bracket skeleton of the token tree is
the bracket-event trace of the (pre-processed) text -/
theorem lex_skel (cfg : Cfg Cls) (hsum : ∀ c, (summarize (cfg.code c)).isSome = true) (hd : cfg.depthLimit ≤ 1)
    (raw : List Char) (ts : List Tok) (h : lex cfg raw = .ok ts) : skelL ts = textSkeleton cfg (cfg.pre raw) := by
  unfold lex lexWith at h
  simp only at h
  cases e1 : feedAllWith (handle cfg (cfg.pre raw)) (cfg.pre raw) {} with
  | error x => rw [e1] at h; cases h
  | ok m =>
    rw [e1] at h
    simp only at h
    obtain ⟨a1, a2, a3⟩ := feedAllWith_skel cfg hsum (cfg.pre raw) (cfg.pre raw) {} m e1 (by simp)
    cases e2 : handle cfg (cfg.pre raw) m .eof with
    | error y => rw [e2] at h; cases h
    | ok y =>
      rw [e2] at h
      obtain ⟨m', b⟩ := y
      simp only at h
      obtain ⟨ev, hi, hk, hn⟩ := handle_skel cfg hsum (cfg.pre raw) m m' .eof b e2 a3
      have hts : skelL ts = skelS m'.stack := by
        unfold finish at h
        split at h
        · cases h
        · split at h
          · cases h
          · rename_i hlen
            cases hst : m'.stack with
            | nil => exact absurd hst hn
            | cons f fs =>
              cases fs with
              | nil =>
                rw [hst] at h
                simp only [List.getLast?_singleton, Except.ok.injEq] at h
                subst h; rfl
              | cons g rest => rw [hst] at hlen; simp only [List.length_cons] at hlen; omega
      rw [hts, hk, a2]
      simp only [textSkeleton]
      rw [a1] at hi
      simp [hi, skelS, skelL]

/-! ## trees are balanced -/

/-- the events are a balanced bracket word from depth `d`: never more closings than openings, none left open -/
def depthOK : Nat → List Ev → Bool
  | d, [] => d == 0
  | d, .opn :: r => depthOK (d + 1) r
  | d + 1, .cls _ :: r => depthOK d r
  | 0, .cls _ :: _ => false

mutual
theorem depthOK_skelT : ∀ (t : Tok) (d : Nat) (rest : List Ev), depthOK d (skelT t ++ rest) = depthOK d rest
  | .single _ _, d, rest => rfl
  | .group k cs m, d, rest => by
    simp only [skelT, List.cons_append, List.append_assoc, depthOK]
    rw [depthOK_skelL cs (d + 1)]
    simp [depthOK]
theorem depthOK_skelL : ∀ (l : List Tok) (d : Nat) (rest : List Ev), depthOK d (skelL l ++ rest) = depthOK d rest
  | [], d, rest => rfl
  | t :: ts, d, rest => by
    simp only [skelL, List.append_assoc]
    rw [depthOK_skelT t d, depthOK_skelL ts d]
end

theorem depthOK_tree (ts : List Tok) : depthOK 0 (skelL ts) = true := by
  have := depthOK_skelL ts 0 []
  simpa [depthOK] using this

/-- a text whose bracket-event trace is unbalanced is not accepted -/
theorem lex_unbalanced (cfg : Cfg Cls) (hsum : ∀ c, (summarize (cfg.code c)).isSome = true) (hd : cfg.depthLimit ≤ 1)
    (raw : List Char) (hu : depthOK 0 (textSkeleton cfg (cfg.pre raw)) = false) : ∀ ts, lex cfg raw ≠ .ok ts := by
  intro ts h
  have := lex_skel cfg hsum hd raw ts h
  rw [← this, depthOK_tree] at hu
  cases hu

end Lex
