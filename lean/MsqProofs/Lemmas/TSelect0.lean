import MsqProofs.Props.C02T
import MsqProofs.Props.C03
/-!
# T-parse for the SELECT skeleton, base definitions (C03 / C01)

* `toksS d s` — the TOKEN-level printer of a single SELECT: what `PR.prS d s` prints, clause by clause, as the tokens the lexer makes
  of it.  Every expression position re-uses `TP.toksE d TP.noX` (select items, `ON`, `WHERE`, `HAVING`: unwrapped; `GROUP BY` and
  `ORDER BY` keys: `TP.W … 8`, the printer's `wrap e 8`); table names are the back-quoted NAME token `tableNameSrc` prints; aliases are
  printed bare after `AS` (`quoteName` of a plain name that is no word of `Gen.wordMarks`); `LIMIT n` / `LIMIT m, n` as `limitSrc`.
  The link `lex (prS d s) = toksS d s` is the lexer's business and is checked by compiled evaluation (`#guard`s in Props/C03T.lean).
* `FragS d s` — the SELECT fragment (a `Bool`); see `MsqProofs/Props/C03T.lean`.
* `Bd d k rest` — the continuation `rest` may follow clause number `k` (0 select list, 1 FROM, 2 JOINs, 3 WHERE, 4 GROUP BY, 5 HAVING,
  6 ORDER BY, 7 LIMIT): it is empty, or its head does not continue an expression (`TP.stopTok d 14`), carries no NAME mark (it would be
  read as an alias; `CROSS` excepted, as in the parser), and is not a word a clause parser of rank `≤ k` looks for (`rank`).
  `stopsS d rest = Bd d 7 rest`: nothing of a SELECT follows.
-/
set_option linter.unusedVariables false
set_option linter.unusedSimpArgs false
open Lex PM Ast TP
namespace TS

/-! ### tokens -/
def commaTok : Tok := opTok ","
/-- `LIMIT` arguments as `limitSrc` prints them -/
def intTok (n : Int) : Tok := litTok (toString n)
def aliasToks : Option String → List Tok
  | none => []
  | some a => [opTok "AS", opTok a]
def joinWords (ty : String) : List Tok :=
  match Gen.joinTypes.find? (·.1 == ty) with | some e => e.2.map opTok | none => []

variable (d : Gen.D)
def toksCol (c : Expr × Option String) : List Tok := toksE d noX c.1 ++ aliasToks c.2
def toksColsTail : List (Expr × Option String) → List Tok
  | [] => []
  | c :: cs => commaTok :: (toksCol d c ++ toksColsTail cs)
def tblName : TableRef → String
  | .table _ n => n
  | .sub _ => ""
def toksTable : FromTable → List Tok
  | .mk t a => nameTok (tblName t) :: aliasToks a
def toksTablesTail : List FromTable → List Tok
  | [] => []
  | t :: ts => commaTok :: (toksTable t ++ toksTablesTail ts)
def toksFrom : Option (List FromTable) → List Tok
  | some (t :: ts) => opTok "FROM" :: (toksTable t ++ toksTablesTail ts)
  | _ => []
def toksRule : Option JoinRule → List Tok
  | some (.on e) => opTok "ON" :: toksE d noX e
  | _ => []
def toksJoin : Join → List Tok
  | .mk ty t rule => joinWords ty ++ (toksTable t ++ toksRule d rule)
def toksJoins : List Join → List Tok
  | [] => []
  | j :: js => toksJoin d j ++ toksJoins js
def toksOpt (kw : String) : Option Expr → List Tok
  | some e => opTok kw :: toksE d noX e
  | none => []
def toksKeysTail : List Expr → List Tok
  | [] => []
  | e :: es => commaTok :: (W d noX e 8 ++ toksKeysTail es)
def toksGroup : Option GroupBy → List Tok
  | some (.mk (e :: es) _ _ _) => opTok "GROUP" :: opTok "BY" :: (W d noX e 8 ++ toksKeysTail d es)
  | _ => []
def toksOrdItem : OrderItem → List Tok
  | .mk e desc _ _ => W d noX e 8 ++ (if desc then [opTok "DESC"] else [])
def toksOrdTail : List OrderItem → List Tok
  | [] => []
  | o :: os => commaTok :: (toksOrdItem d o ++ toksOrdTail os)
def toksOrder : Option (List OrderItem) → List Tok
  | some (o :: os) => opTok "ORDER" :: opTok "BY" :: (toksOrdItem d o ++ toksOrdTail d os)
  | _ => []
def toksLimit : Option (Int × Option Int) → List Tok
  | some (n, none) => [opTok "LIMIT", intTok n]
  | some (n, some m) => [opTok "LIMIT", intTok m, commaTok, intTok n]
  | none => []
/-- everything after the select list -/
def toksRest (fr : Option (List FromTable)) (js : List Join) (wh : Option Expr) (gb : Option GroupBy) (hv : Option Expr)
    (ob : Option (List OrderItem)) (lm : Option (Int × Option Int)) : List Tok :=
  toksFrom fr ++ (toksJoins d js ++ (toksOpt d "WHERE" wh ++ (toksGroup d gb ++ (toksOpt d "HAVING" hv ++ (toksOrder d ob ++ toksLimit lm)))))
def toksS : Select → List Tok
  | .mk _ dist (c :: cs) fr _ js wh gb hv ob _ _ _ lm =>
      opTok "SELECT" :: ((if dist then [opTok "DISTINCT"] else []) ++ (toksCol d c ++ (toksColsTail d cs ++ toksRest d fr js wh gb hv ob lm)))
  | _ => []

/-! ### what may follow a clause -/
/-- the rank of the clause a word starts; 0 for the words that continue a clause or belong to clauses outside the fragment -/
def rank (u : String) : Nat :=
  if u == "FROM" then 1
  else if ["JOIN", "INNER", "LEFT", "RIGHT", "FULL", "CROSS"].contains u then 2
  else if u == "WHERE" then 3
  else if u == "GROUP" then 4
  else if u == "HAVING" then 5
  else if u == "ORDER" then 6
  else if u == "LIMIT" then 7
  else if [",", "AS", "ON", "USING", "DISTINCT", "LATERAL", "VIEW", "WITH", "GROUPING", "BY", "ASC", "DESC", "NULLS", "OFFSET", "SORT",
      "DISTRIBUTE", "CLUSTER", "SELECT"].contains u then 0
  else 8
def bdTok (k : Nat) (t : Tok) : Bool :=
  stopTok d 14 t && (!t.has NAME || up t.src == "CROSS") && !t.has PAREN && decide (k < rank (up t.src))
def Bd (k : Nat) : List Tok → Bool
  | [] => true
  | t :: _ => bdTok d k t
/-- nothing of a SELECT follows (`;`, a set operator, the end of a bracket group, …) -/
def stopsS (rest : List Tok) : Bool := Bd d 7 rest

/-! ### the fragment -/
/-- an alias the printer prints bare: it comes back as itself -/
def aliasOK (a : String) : Bool := (opTok a).has NAME && unifyName (opTok a).src == a && PR.quoteName a == a
def optAliasOK : Option String → Bool
  | none => true
  | some a => aliasOK a
def isOkNone (r : Except Err (Option String × String)) (n : String) : Bool :=
  match r with | .ok (none, m) => m == n | _ => false
/-- an unqualified table name: its back-quoted token is read back as that name -/
def tableOK : FromTable → Bool
  | .mk (.table none n) a => isOkNone (splitName (nameTok n).src) n && optAliasOK a
  | _ => false
def isOkInt (r : Except Err Int) (n : Int) : Bool := match r with | .ok m => m == n | _ => false
/-- a LIMIT argument: a non-negative integer whose decimal text is read back as that integer -/
def limOK (n : Int) : Bool := decide (0 ≤ n) && isOkInt (asInt (intTok n).src) n
def ruleOK : Option JoinRule → Bool
  | none => true
  | some (.on e) => Frag d e
  | some (.using _) => false
/-- a join type of the regenerated table whose words are found again as that type -/
def firstEnumA (tbl : List (String × List String)) (a : List Tok) : Option (String × Nat) :=
  match tbl with
  | [] => none
  | (n, ks) :: rest => if decide (ks.length ≤ a.length) && searchSeq a ks then some (n, ks.length) else firstEnumA rest a
def joinTyOK (ty : String) : Bool :=
  (match firstEnumA Gen.joinTypes (joinWords ty) with | some (n, k) => n == ty && k == (joinWords ty).length | none => false) &&
    (match joinWords ty with | t :: _ => bdTok d 1 t && joinHead [t] | [] => false)
def joinOK : Join → Bool
  | .mk ty t rule => joinTyOK d ty && tableOK t && ruleOK d rule
def ordOK : OrderItem → Bool
  | .mk e _ nf nl => Frag d e && !nf && !nl
def limitOK : Option (Int × Option Int) → Bool
  | none => true
  | some (n, none) => limOK n
  | some (n, some m) => limOK n && limOK m
def groupOK : Option GroupBy → Bool
  | none => true
  | some (.mk (e :: es) none false false) => Frag d e && es.all (Frag d) && !searchStrUp (W d noX e 8) "GROUPING"
  | _ => false
def orderOK : Option (List OrderItem) → Bool
  | none => true
  | some (o :: os) => ordOK d o && os.all (ordOK d)
  | some [] => false
def fromOK : Option (List FromTable) → Bool
  | none => true
  | some (t :: ts) => tableOK t && ts.all tableOK
  | some [] => false
def optFrag : Option Expr → Bool
  | none => true
  | some e => Frag d e
def colOKS (c : Expr × Option String) : Bool := Frag d c.1 && optAliasOK c.2

def FragS : Select → Bool
  | .mk (some []) dist (c :: cs) fr [] js wh gb hv ob none none none lm =>
      colOKS d c && cs.all (colOKS d) && (dist || !searchStrUp (toksE d noX c.1) "DISTINCT") && fromOK fr && js.all (joinOK d) &&
        optFrag d wh && groupOK d gb && optFrag d hv && orderOK d ob && limitOK lm
  | _ => false

end TS
