import MsqProofs.Lemmas.ParseSubstDefs
/-!
# C06, parser half — derived from the file of the same number of C09 (`ParseCase…`) — part 7: the facts the generated fuel steps of a few block functions need in addition
(`pFunc`: a related PAIR of (schema, name) has related components; `pSingleParen`: `close()` on the stack of opened cursors)
-/
set_option linter.unusedSimpArgs false
set_option linter.unusedVariables false
open Lex PM Ast
namespace PMQ
variable [S : PaySet]

omit S in
/-- a related pair has related components -/
theorem qeq_prod_mk {α β γ δ : Type} (f : α → γ) (g : β → δ) (a c : α) (b e : β) (h : qeq (Prod.map f g) (a, b) (c, e)) :
    f a = f c ∧ g b = g e := by
  simpa [qeq, Prod.map] using h
grind_pattern qeq_prod_mk => qeq (Prod.map f g) (a, b) (c, e)

theorem optmap_up_isNone (a b : Option String) (h : Option.map er a = Option.map er b) : a.isNone = b.isNone := by
  cases a <;> cases b <;> simp_all
grind_pattern optmap_up_isNone => Option.map er a, Option.map er b, a.isNone

theorem qell_drop {a b : List (List Tok)} (h : QELL a b) (n : Nat) : QELL (a.drop n) (b.drop n) := by
  induction n generalizing a b with
  | zero => simpa using h
  | succ n ih => cases a <;> cases b <;> simp_all
theorem qell_anyNonEmpty {a b : List (List Tok)} (h : QELL a b) : (a.any fun c => !c.isEmpty) = (b.any fun c => !c.isEmpty) := by
  induction a generalizing b with
  | nil => cases b <;> simp_all
  | cons x a ih =>
    cases b with
    | nil => simp at h
    | cons y b => simp at h; simp only [List.any_cons, qel_isEmpty h.1, ih h.2]
/-- `close()` on the cursors opened by `_parse_single_select_statement`: the same answer -/
theorem qell_drop_any {a b : List (List Tok)} (h : QELL a b) (n : Nat) :
    ((a.drop n).any fun c => !c.isEmpty) = ((b.drop n).any fun c => !c.isEmpty) := qell_anyNonEmpty (qell_drop h n)
grind_pattern qell_drop_any => QELL a b, (a.drop n).any fun c => !c.isEmpty

omit S in
/-- `ord.getD []` under `erAll` (`pWindowBody`) -/
@[grind =] theorem map_getD_nil {α β : Type} (f : α → β) (o : Option (List α)) : List.map f (o.getD []) = (Option.map (List.map f) o).getD [] := by
  cases o <;> simp

/-! ### lockstep steps: for the long `if`-chains the two runs are taken apart TOGETHER (one goal per path instead of one per pair of paths) -/
theorem qer_ite {α : Type} {rv : α → α → Prop} {b b' : Bool} {x y x' y' : R α} (hc : b = b')
    (h1 : b = true → b' = true → QER rv x x') (h2 : b = false → b' = false → QER rv y y') :
    QER rv (if b then x else y) (if b' then x' else y') := by
  subst hc; cases b <;> simp_all
omit S in
theorem qex_ite {α : Type} {rv : α → α → Prop} {b b' : Bool} {x y x' y' : Except Err α} (hc : b = b')
    (h1 : b = true → b' = true → QEX rv x x') (h2 : b = false → b' = false → QEX rv y y') :
    QEX rv (if b then x else y) (if b' then x' else y') := by
  subst hc; cases b <;> simp_all
theorem qer_of_eq {α : Type} {rv : α → α → Prop} {a b : R α} (h : ∀ res res', a = res → b = res' → QER rv res res') : QER rv a b :=
  h _ _ rfl rfl
omit S in
theorem qex_of_eq {α : Type} {rv : α → α → Prop} {a b : Except Err α} (h : ∀ res res', a = res → b = res' → QEX rv res res') : QEX rv a b :=
  h _ _ rfl rfl

end PMQ
