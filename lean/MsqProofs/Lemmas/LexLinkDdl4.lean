import MsqProofs.Lemmas.LexLinkDdl3
import MsqProofs.Props.C18T
/-!
# The Hive side of a converted MySQL table, from hypotheses on the MySQL table only

`c` a table of the MySQL fragment with lexable payloads, `c'` its conversion with the shipped map.  Then the Hive projection of `c'`
is in the Hive fragment (`frag_conv`), has lexable payloads (`leaf_conv`) and — if no payload of `c` contains `==` — none of its
payloads does (`noEq_conv`).  The one thing that does not transfer by itself is the DIALECT of the expression fragment for the type
parameters Hive keeps (`DECIMAL(p, s)` when `remove_param = False`): `HiveParams rp c` asks them to be in the Hive expression fragment
(`hiveParams_of_B`: a Bool form; integer literals satisfy it).
-/
set_option linter.unusedVariables false
set_option linter.unusedSimpArgs false
namespace LD
open Lex Spec C05 C06 C09 Ast TP TS TD LexLink Conv PM

/-! ## what `change_type` does to the columns -/

/-- `col'` is `col` with its type mapped -/
def ConvOf (rp : Bool) (col col' : DefCol) : Prop :=
  ∃ h, lookup Gen.mysqlToHive col.type.name = some h ∧ col' = { col with type := ⟨h, if rp then none else col.type.params⟩ }

theorem changeColsT_mem (rp : Bool) : ∀ (cols cols' : List DefCol), changeColsT Gen.mysqlToHive rp cols = .ok cols' →
    ∀ x ∈ cols', ∃ col ∈ cols, ConvOf rp col x
  | [], cols', h, x, hx => by
    simp only [changeColsT] at h
    injection h with h; subst h; cases hx
  | c :: r, cols', h, x, hx => by
    unfold changeColsT changeColT at h
    cases hl : lookup Gen.mysqlToHive c.type.name with
    | none => simp [hl] at h
    | some y =>
      simp only [hl] at h
      cases hr : changeColsT Gen.mysqlToHive rp r with
      | error e => simp [hr] at h
      | ok r' =>
        simp only [hr] at h
        injection h with h; subst h
        rcases List.mem_cons.mp hx with rfl | hx
        · exact ⟨c, by simp, y, hl, rfl⟩
        · obtain ⟨col, hc, hco⟩ := changeColsT_mem rp r r' hr x hx
          exact ⟨col, by simp [hc], hco⟩

theorem changeTypeT_cols (rp : Bool) (c c' : CreateTable) (h : changeTypeT Gen.mysqlToHive rp c = .ok c') :
    (∀ x ∈ c'.columns, ∃ col ∈ c.columns, ConvOf rp col x) ∧ c' = { c with columns := c'.columns } := by
  unfold changeTypeT at h
  cases hc : changeColsT Gen.mysqlToHive rp c.columns with
  | error e => simp [hc] at h
  | ok cols =>
    simp only [hc] at h
    injection h with h; subst h
    exact ⟨changeColsT_mem rp _ _ hc, rfl⟩

theorem lookup_mem (n h : String) (hl : lookup Gen.mysqlToHive n = some h) : ∃ p ∈ Gen.mysqlToHive, p.2 = h := by
  unfold lookup at hl
  cases hf : Gen.mysqlToHive.find? (·.1 == Gen.pyUpperS n) with
  | none => rw [hf] at hl; cases hl
  | some p =>
    rw [hf] at hl
    simp only [Option.map_some, Option.some.injEq] at hl
    exact ⟨p, List.mem_of_find?_eq_some hf, hl⟩

/-- every image of the shipped map: a plain word, not the comma token -/
theorem images_facts : Gen.mysqlToHive.all (fun p => plainL p.2.toList && !(opTok p.2).equalsStr ",") = true := by decide +kernel

/-! ## the dialect of the leaf hypotheses -/

theorem columnSrc_hm (c : String) : PR.columnSrc .HIVE none c = PR.columnSrc .MYSQL none c := rfl

theorem leaf_hive : ∀ (n : Nat) (e : Expr), sz e ≤ n → Leaf .MYSQL e → Leaf .HIVE e := by
  intro n
  induction n with
  | zero => intro e he; cases e <;> simp [sz] at he
  | succ n ih =>
    intro e he h
    cases e <;> simp only [sz] at he <;> simp only [Leaf] at h ⊢ <;> try trivial
    case unary o y => exact ih y (by omega) h
    case compute l o r => exact ⟨ih l (by omega) h.1, ih r (by omega) h.2⟩
    case kw k n0 l r => exact ⟨ih l (by omega) h.1, ih r (by omega) h.2⟩
    case between n0 b f t => exact ⟨ih b (by omega) h.1, ih f (by omega) h.2.1, ih t (by omega) h.2.2⟩
    case compare o l r => exact ⟨ih l (by omega) h.1, ih r (by omega) h.2⟩
    case not_ y => exact ih y (by omega) h
    case and_ l r => exact ⟨ih l (by omega) h.1, ih r (by omega) h.2⟩
    case xor l r => exact ⟨ih l (by omega) h.1, ih r (by omega) h.2⟩
    case or_ l r => exact ⟨ih l (by omega) h.1, ih r (by omega) h.2⟩

/-! ## the hypothesis on the parameters Hive keeps -/

/-- the parameters the Hive DDL will state (`remove_param = False`, image `DECIMAL`) are in the HIVE expression fragment and none of
their renderings is empty or has a top-level comma -/
def HiveParams (rp : Bool) (c : CreateTable) : Prop :=
  rp = false → ∀ col ∈ c.columns, ∀ h, lookup Gen.mysqlToHive col.type.name = some h → hiveKeepsParams h = true →
    ∀ ps, col.type.params = some ps → ps.all (Frag .HIVE) = true ∧ segsOK (ps.map fun e => W .HIVE noX e 8) = true

def hiveParamsB (rp : Bool) (c : CreateTable) : Bool :=
  rp || c.columns.all fun col =>
    match lookup Gen.mysqlToHive col.type.name, col.type.params with
    | some h, some ps => !hiveKeepsParams h || (ps.all (Frag .HIVE) && segsOK (ps.map fun e => W .HIVE noX e 8))
    | _, _ => true

theorem hiveParams_of_B (rp : Bool) (c : CreateTable) (h : hiveParamsB rp c = true) : HiveParams rp c := by
  intro hrp col hc y hl hk ps hps
  subst hrp
  simp only [hiveParamsB, Bool.false_or, List.all_eq_true] at h
  have := h col hc
  rw [hl, hps] at this
  simp only [hk, Bool.not_true, Bool.false_or, Bool.and_eq_true, List.all_eq_true] at this
  exact ⟨List.all_eq_true.mpr this.1, this.2⟩

/-! ## the three conditions on the Hive projection -/

theorem noComma_mem {ts : List Tok} (h : noComma ts = true) (t : Tok) (ht : t ∈ ts) : t.equalsStr "," = false := by
  simp only [noComma, List.all_eq_true, Bool.not_eq_true'] at h
  exact h t ht

theorem src_ne_eq (s : String) (h : srcLex s) : (s != "=") = true := by
  simp only [bne_iff_ne, ne_eq]
  intro e
  have := src_head s h '=' (by rw [e]; rfl)
  exact this rfl

/-- the converted column, as Hive states it, is in the Hive fragment -/
theorem hiveColOK_conv (rp : Bool) (col col' : DefCol) (hcv : ConvOf rp col col') (hok : TD.colOK .MYSQL col = true)
    (hnc : noComma (toksDefCol .MYSQL col) = true)
    (hpar : rp = false → ∀ h, lookup Gen.mysqlToHive col.type.name = some h → hiveKeepsParams h = true →
      ∀ ps, col.type.params = some ps → ps.all (Frag .HIVE) = true ∧ segsOK (ps.map fun e => W .HIVE noX e 8) = true) :
    C18.hiveColOK col' = true := by
  obtain ⟨h, hl, rfl⟩ := hcv
  obtain ⟨p, hp, rfl⟩ := lookup_mem _ _ hl
  have himg := (List.all_eq_true.mp images_facts) p hp
  simp only [Bool.and_eq_true, Bool.not_eq_eq_eq_not, Bool.not_true] at himg
  obtain ⟨n, ⟨tn, ps⟩, us, zf, cs, co, gen, an, nn, ai, df, ou, cm⟩ := col
  have hm : (Gen.D.HIVE == Gen.D.MYSQL) = false := rfl
  have hh : (Gen.D.HIVE == Gen.D.HIVE) = true := rfl
  simp only [TD.colOK, Bool.and_eq_true] at hok
  have hname : nameOK n = true := hok.1.1
  -- the comment token is not the comma
  have hcm : ∀ s, cm = some s → (srcTok s).equalsStr "," = false := by
    intro s hs
    subst hs
    refine noComma_mem hnc _ ?_
    simp [toksDefCol, toksAttrs, toksMyAttrs, toksComment]
  have hkeep : hiveDrops .HIVE ⟨p.2, some []⟩ = !hiveKeepsParams p.2 := by simp [hiveDrops, hiveKeepsParams]
  have hdrop : ∀ l : List Expr, hiveDrops .HIVE ⟨p.2, some l⟩ = !hiveKeepsParams p.2 := by intro l; simp [hiveDrops, hiveKeepsParams]
  simp only [C18.hiveColOK, Bool.and_eq_true]
  constructor
  · -- colOK HIVE (hiveCol col')
    simp only [TD.colOK, hiveCol, hm, Bool.false_eq_true, if_false, hname, Bool.true_and, Option.isNone_none, Bool.not_false, Bool.and_true]
    cases hk : hiveKeepsParams p.2 with
    | false => simp [typeOK]
    | true =>
      cases rp with
      | true => simp [typeOK]
      | false =>
        cases ps with
        | none => simp [typeOK]
        | some l =>
          have := hpar rfl p.2 hl hk l rfl
          simp only [Bool.false_eq_true, if_false, if_true, typeOK, hdrop, hk, Bool.not_true, Bool.not_false, Bool.true_and, Bool.and_eq_true]
          exact ⟨by simpa [paramOK] using this.1, this.2⟩
  · -- no top-level comma in the Hive line
    have hcmt : noComma (toksComment cm) = true := by
      cases cm with
      | none => rfl
      | some s =>
        simp only [toksComment, noComma, List.all_cons, List.all_nil, Bool.and_true, Bool.and_eq_true, Bool.not_eq_eq_eq_not, Bool.not_true]
        exact ⟨by decide, hcm s rfl⟩
    have hpt : noComma (toksParams .HIVE ⟨p.2, if rp = true then none else ps⟩) = true := by
      cases rp <;> cases ps <;> simp only [toksParams, Bool.false_eq_true, if_false, if_true] <;>
        first | rfl | (split <;> simp [noComma, equalsStr_grp])
    simp only [toksDefCol, toksType, toksAttrs, hm, Bool.false_eq_true, if_false, noComma, List.all_cons, List.all_append, Bool.and_eq_true,
      Bool.not_eq_eq_eq_not, Bool.not_true] at hcmt hpt ⊢
    exact ⟨equalsStr_nameTok _ _ (by decide), ⟨himg.2, hpt⟩, hcmt⟩

section
variable (rp : Bool) (c c' : CreateTable) (hf : FragCreate .MYSQL c = true) (hl : LeafC .MYSQL c)
  (h : changeTypeT Gen.mysqlToHive rp c = .ok c')
include hf hl h

theorem my_parts : (c.partitionedBy = [] ∧ c.tblproperties = []) ∧ c.rowFormatSerde = none ∧ c.rowFormatDelimited = none ∧
    c.storedAsInputformat = none ∧ c.outputformat = none ∧ c.location = none := by
  have hm : (Gen.D.MYSQL == Gen.D.MYSQL) = true := rfl
  simp only [FragCreate, hm, if_true, Bool.and_eq_true] at hf
  obtain ⟨_, ⟨⟨⟨⟨⟨⟨⟨⟨_, h7⟩, h8⟩, h9⟩, h10⟩, _⟩, h12⟩, h13⟩, h14⟩⟩ := hf
  refine ⟨⟨List.isEmpty_iff.mp h7, List.isEmpty_iff.mp h14⟩, ?_, ?_, ?_, ?_, ?_⟩
  · exact Option.isNone_iff_eq_none.mp h8
  · exact Option.isNone_iff_eq_none.mp h9
  · exact Option.isNone_iff_eq_none.mp h10
  · exact Option.isNone_iff_eq_none.mp h12
  · exact Option.isNone_iff_eq_none.mp h13

/-- **the Hive projection of the converted table is in the Hive fragment** -/
theorem frag_conv (hp : HiveParams rp c) : FragCreate .HIVE (hiveProj c') = true := by
  obtain ⟨hcols, hc'⟩ := changeTypeT_cols rp c c' h
  obtain ⟨⟨e1, e2⟩, e3, e4, e5, e6, e7⟩ := my_parts rp c c' hf hl h
  have hm : (Gen.D.MYSQL == Gen.D.MYSQL) = true := rfl
  have hf0 := hf
  simp only [FragCreate, hm, if_true, Bool.and_eq_true, List.all_eq_true] at hf0
  have htbl := hf0.1.1.1
  have hcok := hf0.1.1.2
  have hsegs : ∀ col ∈ c.columns, noComma (toksDefCol .MYSQL col) = true := by
    intro col hc
    have := hf0.1.2
    simp only [segsOK, List.all_eq_true, Bool.and_eq_true] at this
    exact (this (toksDefCol .MYSQL col) (by simp only [toksLines, List.mem_append, List.mem_map]; exact Or.inl ⟨col, hc, rfl⟩)).2
  apply C18.fragHive_of_conv
  rw [hc']
  simp only [C18.hiveOK, e1, e2, e3, e4, e5, e6, e7, List.all_nil, List.map_nil, segsOK, valOK, Bool.and_true, Bool.and_eq_true,
    List.all_eq_true]
  refine ⟨⟨htbl, ?_⟩, ?_⟩
  · intro x hx
    obtain ⟨col, hc, hcv⟩ := hcols x hx
    exact hiveColOK_conv rp col x hcv (hcok col hc) (hsegs col hc) (fun hr y hy hk ps hps => hp hr col hc y hy hk ps hps)
  · cases hcm : c.comment with
    | none => rfl
    | some s => exact src_ne_eq s (by have := hl.comment; rw [hcm] at this; exact this)

/-- **the payloads of the Hive projection are lexable** -/
theorem leaf_conv : LeafC .HIVE (hiveProj c') := by
  obtain ⟨hcols, hc'⟩ := changeTypeT_cols rp c c' h
  obtain ⟨⟨e1, e2⟩, e3, e4, e5, e6, e7⟩ := my_parts rp c c' hf hl h
  rw [hc']
  refine ⟨hl.schema, hl.table, ?_, ?_, ?_, ?_, ?_, ?_, ?_, hl.comment, trivial, trivial, trivial, trivial, trivial, hl.serde, hl.delimited,
    hl.inputformat, hl.outputformat, hl.location, hl.props⟩
  · intro x hx
    simp only [hiveProj, emptyCreate, List.mem_map] at hx
    obtain ⟨x', hx', rfl⟩ := hx
    obtain ⟨col, hc, y, hy, rfl⟩ := hcols x' hx'
    obtain ⟨p, hp, rfl⟩ := lookup_mem _ _ hy
    have himg := (List.all_eq_true.mp images_facts) p hp
    simp only [Bool.and_eq_true] at himg
    have hlc := hl.cols col hc
    refine ⟨hlc.name, ⟨himg.1, ?_⟩, trivial, trivial, trivial, trivial, trivial, hlc.comment⟩
    intro ps hps e he
    simp only [hiveCol] at hps
    split at hps
    · split at hps
      · cases hps
      · exact leaf_hive _ e (Nat.le_refl _) (hlc.type.2 ps hps e he)
    · cases hps
  · intro i hi; simp [hiveProj, emptyCreate] at hi
  · intro i hi; simp [hiveProj, emptyCreate] at hi
  · intro i hi; simp [hiveProj, emptyCreate] at hi
  · intro i hi; simp [hiveProj, emptyCreate] at hi
  · intro i hi; simp [hiveProj, emptyCreate] at hi
  · intro x hx; simp [hiveProj, emptyCreate, e1] at hx

/-- **no payload of the Hive projection contains `==`** if none of the MySQL table does -/
theorem noEq_conv (hq : NoEqC c) : NoEqC (hiveProj c') := by
  obtain ⟨hcols, hc'⟩ := changeTypeT_cols rp c c' h
  obtain ⟨⟨e1, e2⟩, e3, e4, e5, e6, e7⟩ := my_parts rp c c' hf hl h
  rw [hc']
  refine ⟨hq.table, ?_, ?_, hq.comment, hq.serde, hq.delimited, hq.inputformat, hq.outputformat, hq.location, hq.props⟩
  · intro x hx
    simp only [hiveProj, emptyCreate, List.mem_map] at hx
    obtain ⟨x', hx', rfl⟩ := hx
    obtain ⟨col, hc, y, hy, rfl⟩ := hcols x' hx'
    have hqc := hq.cols col hc
    refine ⟨hqc.name, ?_, hqc.comment⟩
    intro ps hps e he
    simp only [hiveCol] at hps
    split at hps
    · split at hps
      · cases hps
      · exact hqc.params ps hps e he
    · cases hps
  · intro x hx; simp [hiveProj, emptyCreate, e1] at hx
end

end LD
