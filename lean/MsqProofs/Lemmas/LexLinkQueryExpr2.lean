import MsqProofs.Lemmas.LexLinkQueryExpr
/-!
# The lexer link for nested queries: expression nodes with lists — calls, aggregates, CASE, value lists, sub-queries

`GQ d K q` — the record of a query text (as `GE` for expressions).  The list helpers (`prListLL` …) are maps over the children; a
comma list lexes by `lx_commaList`, a blank / line separated piece list by `Seg`.
-/
set_option linter.unusedVariables false
set_option linter.unusedSimpArgs false
namespace LexLink
open Lex Spec C05 C06 C09 Ast TP TS TQ

structure GQ (d : Gen.D) (K : QKit) (q : Query) : Prop where
  lx : Lx (prQL d q) (toksQ d noX q)
  pr : PR.prQ d q = .ok (String.ofList (prQL d q))
  q : K.Q (prQL d q)

section
variable {d : Gen.D} {K : QKit}

/-! ## the list helpers are maps -/

theorem prListLL_eq (ps : List Expr) : prListLL d ps = ps.map (prE3L d) := by
  induction ps with
  | nil => simp [prListLL]
  | cons a as ih => simp [prListLL, ih]
theorem prList8LL_eq (ps : List Expr) : prList8LL d ps = ps.map (fun a => wrapL a 8 (prE3L d a)) := by
  induction ps with
  | nil => simp [prList8LL]
  | cons a as ih => simp [prList8LL, ih]
def armL (d : Gen.D) (p : Expr × Expr) : List Char :=
  "WHEN".toList ++ ' ' :: (prE3L d p.1 ++ ' ' :: ("THEN".toList ++ ' ' :: prE3L d p.2))
def armT (d : Gen.D) (p : Expr × Expr) : List Tok :=
  opTok "WHEN" :: (wrapT (noX p.1) p.1 14 (toksE3 d noX p.1) ++ opTok "THEN" :: wrapT (noX p.2) p.2 14 (toksE3 d noX p.2))
theorem prArmsLL_eq (cs : List (Expr × Expr)) : prArmsLL d cs = cs.map (armL d) := by
  induction cs with
  | nil => simp [prArmsLL]
  | cons p r ih => obtain ⟨w, t⟩ := p; simp [prArmsLL, ih, armL]
theorem toksArms3_eq (cs : List (Expr × Expr)) : toksArms3 d noX cs = (cs.map (armT d)).flatten := by
  induction cs with
  | nil => simp [toksArms3]
  | cons p r ih => obtain ⟨w, t⟩ := p; simp [toksArms3, ih, armT]

theorem map_map_ofList (l : List (List Char)) : (l.map String.ofList).map String.toList = l := by
  induction l with
  | nil => rfl
  | cons a r ih => simp [String.toList_ofList, ih]

/-! ## comma lists -/

theorem lx_args (k : Nat) : ∀ (ps : List Expr), (∀ a ∈ ps, GE d K a) →
    Lx (joinLL [',', ' '] (ps.map fun a => wrapL a k (prE3L d a))) (toksArgs3 d noX k ps)
  | [], _ => by simpa [joinLL, toksArgs3] using lx_nil
  | a :: as, h => by
    have := lx_commaList (fun a => wrapL a k (prE3L d a)) (fun a => wrapT (noX a) a k (toksE3 d noX a)) (toksArgsTail3 d noX k)
      (by simp [toksArgsTail3]) (by intro x xs; simp [toksArgsTail3, TS.commaTok, TP2.commaTok]) as a ((h a (by simp)).w k)
      (fun y hy => (h y (by simp [hy])).w k)
    exact Lx.congr this rfl (by simp [toksArgs3])

theorem lx_args14 (ps : List Expr) (h : ∀ a ∈ ps, GE d K a) : Lx (joinLL [',', ' '] (prListLL d ps)) (toksArgs3 d noX 14 ps) := by
  have := lx_args (d := d) (K := K) 14 ps h
  simpa [prListLL_eq, wrapL14] using this
theorem lx_args8 (ps : List Expr) (h : ∀ a ∈ ps, GE d K a) : Lx (joinLL [',', ' '] (prList8LL d ps)) (toksArgs3 d noX 8 ps) := by
  have := lx_args (d := d) (K := K) 8 ps h
  simpa [prList8LL_eq] using this

theorem pr_list : ∀ (ps : List Expr), (∀ a ∈ ps, GE d K a) → PR.prList d ps = .ok ((prListLL d ps).map String.ofList)
  | [], _ => rfl
  | a :: as, h => by
    have h1 := (h a (by simp)).pr
    have h2 := pr_list as fun y hy => h y (by simp [hy])
    simp only [PR.prList, h1, h2, bind, Except.bind, pure, Except.pure, prListLL, List.map_cons]
theorem pr_list8 : ∀ (ps : List Expr), (∀ a ∈ ps, GE d K a) → PR.prList8 d ps = .ok ((prList8LL d ps).map String.ofList)
  | [], _ => rfl
  | a :: as, h => by
    have h1 := (h a (by simp)).pr
    have h2 := pr_list8 as fun y hy => h y (by simp [hy])
    simp only [PR.prList8, h1, h2, bind, Except.bind, pure, Except.pure, prList8LL, List.map_cons, wrap_ofList]

theorem q_list (ps : List Expr) (h : ∀ a ∈ ps, GE d K a) : K.Q (joinLL [',', ' '] (prListLL d ps)) := by
  refine K.joinLL2 _ fun x hx => ?_
  rw [prListLL_eq] at hx
  obtain ⟨a, ha, rfl⟩ := List.mem_map.mp hx
  exact (h a ha).q
theorem q_list8 (ps : List Expr) (h : ∀ a ∈ ps, GE d K a) : K.Q (joinLL [',', ' '] (prList8LL d ps)) := by
  refine K.joinLL2 _ fun x hx => ?_
  rw [prList8LL_eq] at hx
  obtain ⟨a, ha, rfl⟩ := List.mem_map.mp hx
  exact (h a ha).qw 8

/-! ## calls -/

theorem fnameSrc_toList (s : Option String) (n : String) : (PR.fnameSrc s n).toList = fnameL s n := by
  cases s with
  | none => simp [PR.fnameSrc, fnameL, quoteName_toList]
  | some s => simp [PR.fnameSrc, fnameL, toString, String.toList_append, quoteName_toList]

theorem grp_eq (ts : List Tok) : grp ts = .group .paren ts Gen.mark_PARENTHESIS := rfl

theorem ge_func (s : Option String) (n : String) (ps : List Expr) (hl : optNameLex s ∧ nameLex n) (hq : K.item (.fn s n))
    (hps : ∀ a ∈ ps, GE d K a) : GE d K (.func s n ps) where
  lx := by
    have inner := Lx.paren (lx_args14 ps hps)
    have h2 := Lx.prefix inner rfl (tk_qname n (fun x hx => (hl.2 x hx).1) '(' (Or.inl rfl))
    cases s with
    | none => exact Lx.congr h2 (by simp [prE3L, fnameL]) (by simp [toksE3, grp_eq])
    | some s =>
      obtain ⟨c, r, hc, _⟩ := qnameL_fc n
      have h3 := Lx.prefix h2 (c := c) (by rw [hc]; rfl) (tk_dot c)
      have h4 := Lx.prefix h3 rfl (tk_bq s.toList (fun x hx => (hl.1 x hx).1) '.')
      exact Lx.congr h4 (by simp [prE3L, fnameL]) (by simp [toksE3, grp_eq, dotTok_eq, nameTok_eq])
  pr := by
    simp only [PR.prE, pr_list ps hps, Except.map, prE3L]
    refine ok_ofList ?_
    simp [toString, String.toList_append, fnameSrc_toList, toList_joinS, map_map_ofList]
  q := by
    have hn : K.Q (fnameL s n) := by
      cases s with
      | none => exact q_qname n (hq n (by simp [strs]))
      | some s =>
        have := K.sep _ _ '.' K.s_dot (K.bq (hq s (by simp [strs]))) (q_qname n (hq n (by simp [strs])))
        simpa [fnameL] using this
    exact K.sep _ _ '(' K.s_lp hn (K.post K.s_rp (q_list ps hps))
  fc := by
    cases s with
    | none =>
      obtain ⟨c, r, hc, hne⟩ := qnameL_fc n
      exact ⟨c, _, by simp only [prE3L, fnameL, hc]; rfl, hne⟩
    | some s => exact ⟨'`', _, rfl, by decide⟩

theorem plain_fc (n : String) (h : PR.isPlainName n = true) : ∃ c r, n.toList = c :: r ∧ c ≠ '=' := by
  unfold PR.isPlainName at h
  cases hc : n.toList with
  | nil => rw [hc] at h; cases h
  | cons c r =>
    rw [hc] at h
    simp only [Bool.and_eq_true] at h
    exact ⟨c, r, rfl, alphaU_ne_eq c h.1⟩

theorem ge_agg (n : String) (ps : List Expr) (dist : Bool) (hl : PR.isPlainName n = true) (hq : K.Q n.toList)
    (hps : ∀ a ∈ ps, GE d K a) : GE d K (.agg n ps dist) where
  lx := by
    have hargs := lx_args14 ps hps
    have hin : Lx ((if dist then "DISTINCT ".toList else []) ++ joinLL [',', ' '] (prListLL d ps))
        ((if dist then [opTok "DISTINCT"] else []) ++ toksArgs3 d noX 14 ps) := by
      cases dist with
      | false => simpa using hargs
      | true =>
        have e1 : "DISTINCT ".toList = "DISTINCT".toList ++ [' '] := rfl
        simp only [↓reduceIte]
        rw [e1]
        exact Lx.congr (Lx.sep (lx_qw "DISTINCT" (by simp [queryWords])) hargs) (by simp only [List.append_assoc, List.singleton_append])
          rfl
    have h2 := Lx.prefix (Lx.paren hin) rfl (tk_plain n.toList (by rw [← isPlainName_plainL]; exact hl) '(' (Or.inl rfl))
    exact Lx.congr h2 (by simp only [prE3L, List.append_assoc]) (by simp [toksE3, grp_eq, opTok_eq])
  pr := by
    simp only [PR.prE, pr_list ps hps, Except.map, prE3L]
    refine ok_ofList ?_
    cases dist <;> simp [toString, String.toList_append, toList_joinS, map_map_ofList]
  q := by
    have h1 : K.Q ((if dist then "DISTINCT ".toList else []) ++ (joinLL [',', ' '] (prListLL d ps) ++ [')'])) := by
      cases dist with
      | false => simpa using K.post K.s_rp (q_list ps hps)
      | true =>
        have e1 : "DISTINCT ".toList = "DISTINCT".toList ++ [' '] := rfl
        have := K.sp (K.word "DISTINCT" (mem_qw (by simp [queryWords]))) (K.post K.s_rp (q_list ps hps))
        simpa [e1] using this
    exact K.sep _ _ '(' K.s_lp hq h1
  fc := by
    obtain ⟨c, r, hc, hne⟩ := plain_fc n hl
    exact ⟨c, _, by simp only [prE3L, hc]; rfl, hne⟩

/-! ## value lists and sub-queries -/

theorem ge_subValue (vs : List Expr) (hvs : ∀ a ∈ vs, GE d K a) : GE d K (.subValue vs) where
  lx := Lx.congr (Lx.paren (lx_args8 vs hvs)) (by simp [prE3L]) (by simp [toksE3, grp_eq])
  pr := by
    simp only [PR.prE, pr_list8 vs hvs, Except.map, prE3L]
    refine ok_ofList ?_
    simp [toString, String.toList_append, toList_joinS, map_map_ofList]
  q := K.paren (q_list8 vs hvs)
  fc := ⟨'(', _, rfl, by decide⟩

theorem ge_subQuery (q : Query) (hq : GQ d K q) : GE d K (.subQuery q) where
  lx := Lx.congr (Lx.paren hq.lx) (by simp [prE3L]) (by simp [toksE3, grp_eq])
  pr := by
    simp only [PR.prE, hq.pr, Except.map, prE3L]
    refine ok_ofList ?_
    simp [toString, String.toList_append, String.toList_ofList]
  q := K.paren hq.q
  fc := ⟨'(', _, rfl, by decide⟩

/-! ## CASE -/

theorem lx_arm (p : Expr × Expr) (h1 : GE d K p.1) (h2 : GE d K p.2) : Lx (armL d p) (armT d p) :=
  Lx.congr (Lx.sep (lx_qw "WHEN" (by simp [queryWords])) (Lx.sep (h1.w 14) (Lx.sep (lx_qw "THEN" (by simp [queryWords])) (h2.w 14))))
    (by simp [armL, wrapL14]) (by simp [armT])
theorem q_arm (p : Expr × Expr) (h1 : GE d K p.1) (h2 : GE d K p.2) : K.Q (armL d p) :=
  K.sp (K.word "WHEN" (mem_qw (by simp [queryWords]))) (K.sp h1.q (K.sp (K.word "THEN" (mem_qw (by simp [queryWords]))) h2.q))

def elseT (d : Gen.D) : Option Expr → List Tok
  | none => []
  | some y => opTok "ELSE" :: wrapT (noX y) y 14 (toksE3 d noX y)
theorem toksElse3_eq (els : Option Expr) : toksElse3 d noX els = elseT d els := by cases els <;> simp [toksElse3, elseT]

theorem seg_else (c : Char) (els : Option Expr) (h : ∀ y, els = some y → GE d K y) : Seg c (prElseLL d els) (elseT d els) := by
  cases els with
  | none => exact Seg.nil c
  | some y =>
    have := Seg.one c (Lx.sep (lx_qw "ELSE" (by simp [queryWords])) ((h y rfl).w 14))
    simpa [prElseLL, elseT, wrapL14] using this

theorem pr_arms : ∀ (cs : List (Expr × Expr)), (∀ p ∈ cs, GE d K p.1 ∧ GE d K p.2) →
    PR.prArms d cs = .ok ((prArmsLL d cs).map String.ofList)
  | [], _ => rfl
  | (w, t) :: r, h => by
    have h1 := (h (w, t) (by simp)).1.pr
    have h2 := (h (w, t) (by simp)).2.pr
    have h3 := pr_arms r fun y hy => h y (by simp [hy])
    simp only at h1 h2
    simp only [PR.prArms, h1, h2, h3, bind, Except.bind, pure, Except.pure, prArmsLL, List.map_cons]
    refine congrArg Except.ok ?_
    congr 1
    apply ofList_eq
    simp [toString, String.toList_append, String.toList_ofList]
theorem pr_optE (els : Option Expr) (h : ∀ y, els = some y → GE d K y) :
    PR.prOptE d els = .ok (els.map fun y => String.ofList (prE3L d y)) := by
  cases els with
  | none => rfl
  | some y => simp [PR.prOptE, (h y rfl).pr, Except.map]

theorem ge_caseCond (cs : List (Expr × Expr)) (els : Option Expr) (hcs : ∀ p ∈ cs, GE d K p.1 ∧ GE d K p.2)
    (hels : ∀ y, els = some y → GE d K y) : GE d K (.caseCond cs els) where
  lx := by
    have hc : (' ' : Char) = ' ' ∨ (' ' : Char) = '\n' := Or.inl rfl
    have sarms := Seg.map hc (armL d) (armT d) cs fun p hp => lx_arm p (hcs p hp).1 (hcs p hp).2
    have s := Seg.cons hc (lx_qw "CASE" (by simp [queryWords])) (Seg.append hc sarms (Seg.append hc (seg_else ' ' els hels)
      (Seg.one ' ' (lx_qw "END" (by simp [queryWords])))))
    exact Lx.congr (s.lx (by simp)) (by simp [prE3L, prArmsLL_eq]) (by simp [toksE3, toksArms3_eq, toksElse3_eq])
  pr := by
    simp only [PR.prE, pr_arms cs hcs, pr_optE els hels, bind, Except.bind, pure, Except.pure, prE3L]
    refine ok_ofList ?_
    rw [toList_joinS]
    congr 1
    cases els <;> simp [map_map_ofList, prElseLL, toString, String.toList_append, String.toList_ofList]
  q := by
    simp only [prE3L]
    refine K.joinLL1 ' ' K.s_sp _ fun x hx => ?_
    simp only [List.mem_cons, List.mem_append, prArmsLL_eq, List.mem_map, List.mem_nil_iff, or_false] at hx
    rcases hx with rfl | ⟨p, hp, rfl⟩ | hx | rfl
    · exact K.word "CASE" (mem_qw (by simp [queryWords]))
    · exact q_arm p (hcs p hp).1 (hcs p hp).2
    · cases els with
      | none => simp [prElseLL] at hx
      | some y =>
        simp only [prElseLL, List.mem_singleton] at hx
        subst hx
        exact K.sp (K.word "ELSE" (mem_qw (by simp [queryWords]))) (hels y rfl).q
    · exact K.word "END" (mem_qw (by simp [queryWords]))
  fc := by
    refine ⟨'C', ?_⟩
    simp only [prE3L]
    have hne : prArmsLL d cs ++ (prElseLL d els ++ ["END".toList]) ≠ [] := by simp
    rw [joinLL_cons_ne _ _ _ hne]
    exact ⟨_, rfl, by decide⟩

theorem lx_ind4 {x : List Char} {tx : List Tok} (h : Lx x tx) : Lx (ind4 x) tx := Lx.blank (Lx.blank (Lx.blank (Lx.blank h)))
theorem q_ind4 (K : QKit) {x : List Char} (h : K.Q x) : K.Q (ind4 x) := K.pre K.s_sp (K.pre K.s_sp (K.pre K.s_sp (K.pre K.s_sp h)))

theorem ge_caseVal (v : Expr) (cs : List (Expr × Expr)) (els : Option Expr) (hv : GE d K v) (hcs : ∀ p ∈ cs, GE d K p.1 ∧ GE d K p.2)
    (hels : ∀ y, els = some y → GE d K y) : GE d K (.caseVal v cs els) where
  lx := by
    have hc : ('\n' : Char) = ' ' ∨ ('\n' : Char) = '\n' := Or.inr rfl
    have sarms := Seg.map hc (fun p => ind4 (armL d p)) (armT d) cs fun p hp => lx_ind4 (lx_arm p (hcs p hp).1 (hcs p hp).2)
    have selse : Seg '\n' ((prElseLL d els).map ind4) (elseT d els) := by
      cases els with
      | none => exact Seg.nil _
      | some y =>
        have := Seg.one '\n' (lx_ind4 (Lx.sep (lx_qw "ELSE" (by simp [queryWords])) ((hels y rfl).w 14)))
        simpa [prElseLL, elseT, wrapL14] using this
    have s := Seg.cons hc (lx_qw "CASE" (by simp [queryWords])) (Seg.cons hc (hv.w 14) (Seg.append hc sarms (Seg.append hc selse
      (Seg.one '\n' (lx_qw "END" (by simp [queryWords]))))))
    exact Lx.congr (s.lx (by simp)) (by simp [prE3L, prArmsLL_eq, wrapL14, Function.comp_def])
      (by simp [toksE3, toksArms3_eq, toksElse3_eq])
  pr := by
    simp only [PR.prE, hv.pr, pr_arms cs hcs, pr_optE els hels, bind, Except.bind, pure, Except.pure, prE3L]
    refine ok_ofList ?_
    rw [toList_joinS]
    congr 1
    cases els <;> simp [map_map_ofList, prElseLL, toString, String.toList_append, String.toList_ofList, ind4, Function.comp_def]
  q := by
    simp only [prE3L]
    refine K.joinLL1 '\n' K.s_nl _ fun x hx => ?_
    simp only [List.mem_cons, List.mem_append, prArmsLL_eq, List.mem_map, List.mem_nil_iff, or_false] at hx
    rcases hx with rfl | rfl | ⟨_, ⟨p, hp, rfl⟩, rfl⟩ | ⟨y, hy, rfl⟩ | rfl
    · exact K.word "CASE" (mem_qw (by simp [queryWords]))
    · exact hv.q
    · exact q_ind4 K (q_arm p (hcs p hp).1 (hcs p hp).2)
    · cases els with
      | none => simp [prElseLL] at hy
      | some z =>
        simp only [prElseLL, List.mem_singleton] at hy
        subst hy
        exact q_ind4 K (K.sp (K.word "ELSE" (mem_qw (by simp [queryWords]))) (hels z rfl).q)
    · exact K.word "END" (mem_qw (by simp [queryWords]))
  fc := by
    refine ⟨'C', ?_⟩
    simp only [prE3L]
    rw [joinLL_cons_ne _ _ _ (by simp)]
    exact ⟨_, rfl, by decide⟩

end
end LexLink
