import MsqProofs.Lemmas.TQuery2X
/-!
# T-parse on the larger nested fragment: the clause parsers of a SELECT (C03 / C01)

Derived from Lemmas/TQueryS.lean (first draft by tools/gen_tquery2.py --select, then maintained by hand): the clause lemmas against the
records `RT4` / `QT` of the larger fragment, with the finer clause numbering of `Bd4` (Lemmas/TQuery2_0.lean) and the new clauses:
`JOIN … USING (…)` (the rule is a call, `func_ok`), order items with `NULLS FIRST` / `NULLS LAST` (`orderTail_ok`), `ORDER BY` / `SORT BY` in
one lemma (`orderByKw`), `DISTRIBUTE BY` / `CLUSTER BY` (`byList`), `LATERAL VIEW [OUTER] f(…) v AS a, b` (`lateral`, `laterals`),
`GROUP BY keys [GROUPING SETS (…)] [WITH CUBE] [WITH ROLLUP]` (`groupBy`, with the comma splitter `splitBy` on the sets).
-/
set_option linter.unusedVariables false
set_option linter.unusedSimpArgs false
set_option maxHeartbeats 1000000
open Lex PM Ast TP TS
open TP2 (qTok fnOK nmOK nm2OK isOkNoneS fnNameOK aggOK dotTok starTok)
open TQ (tblTok unionWords lvlH isExists lvlH_eq lvlH_ge lvlH_of_le8 isOkPair tblOK)
namespace TQ2
variable {d : Gen.D} {ch : Expr → Bool}
local notation "commaTok" => TS.commaTok

/-! ### what `Bd4` gives -/
theorem bd_parts {k : Nat} {t : Tok} (h : bdTok4 d k t = true) :
    stopTok d 14 t = true ∧ (t.has NAME = false ∨ ["CROSS", "SORT", "DISTRIBUTE", "CLUSTER"].contains (up t.src) = true) ∧
      t.has PAREN = false ∧ k < rank4 (up t.src) ∧ t.srcEqUp "OVER" = false := by
  simp only [bdTok4, Bool.and_eq_true, Bool.or_eq_true, Bool.not_eq_true', decide_eq_true_eq] at h
  exact ⟨h.1.1.1.1, h.1.1.1.2, h.1.1.2, h.1.2, h.2⟩
theorem bd3_mono {k k' : Nat} {rest : List Tok} (h : Bd4 d k rest = true) (hk : k' ≤ k) : Bd4 d k' rest = true := by
  cases rest with
  | nil => rfl
  | cons t r =>
    simp only [Bd4, bdTok4, Bool.and_eq_true, decide_eq_true_eq] at h ⊢
    exact ⟨⟨h.1.1, by omega⟩, h.2⟩
theorem b3o {k : Nat} {rest : List Tok} (h : Bd4 d k rest = true) : headIsOver rest = false := by
  cases rest with
  | nil => rfl
  | cons t r => exact (bd_parts h).2.2.2.2
theorem bd_stops {k : Nat} {rest : List Tok} (h : Bd4 d k rest = true) : TP.stops d rest = true := by
  cases rest with
  | nil => rfl
  | cons t r => exact (bd_parts h).1
theorem bd3_stops {k : Nat} {rest : List Tok} (h : Bd4 d k rest = true) : TP2.stops2 d rest = true := by
  simp only [TP2.stops2, TP2.stopLE2, Bool.and_eq_true, Bool.not_eq_true']
  exact ⟨bd_stops h, b3o h⟩
theorem bd3_of {k : Nat} {t : Tok} (x : List Tok) (h : bdTok4 d k t = true) : Bd4 d k (t :: x) = true := h
theorem bd_search {k : Nat} {rest : List Tok} (h : Bd4 d k rest = true) (w : String) (hw : rank4 w ≤ k) : searchStrUp rest w = false := by
  cases rest with
  | nil => rfl
  | cons t r =>
    have := (bd_parts h).2.2.2.1
    simp only [searchStrUp, Tok.srcEqUp, beq_eq_false_iff_ne, ne_eq]
    intro he; rw [he] at this; omega
theorem bd_search2 {k : Nat} {rest : List Tok} (h : Bd4 d k rest = true) (a b : String) (hw : rank4 a ≤ k) : searchTwoUp rest a b = false := by
  have := bd_search h a hw
  rcases rest with _ | ⟨x, _ | ⟨y, r⟩⟩ <;> simp_all [searchTwoUp, searchStrUp]
theorem bd_comma {k : Nat} {rest : List Tok} (h : Bd4 d k rest = true) : searchStr rest "," = false := by
  cases rest with
  | nil => rfl
  | cons t r =>
    have := (bd_parts h).2.2.2.1
    simp only [searchStr, Tok.srcEq, beq_eq_false_iff_ne, ne_eq]
    intro he
    have hu : up "," = "," := by decide
    rw [he, hu] at this
    have hr : rank4 "," = 0 := by decide
    omega
theorem bd_alias {k : Nat} {rest : List Tok} (h : Bd4 d k rest = true) : pAlias rest = .ok (none, rest) := by
  have hr0 : rank4 "AS" = 0 := by decide
  have hs := bd_search h "AS" (by omega)
  unfold pAlias
  cases rest with
  | nil => simp [hs]
  | cons t r =>
    simp only [hs, Bool.false_eq_true, if_false]
    rcases (bd_parts h).2.1 with hn | hc
    · simp [hn]
    · have : ["CROSS", "USING", "SORT", "DISTRIBUTE", "CLUSTER"].contains (up t.src) = true := by
        simp only [List.contains_cons, List.contains_nil, Bool.or_false, Bool.or_eq_true, beq_iff_eq] at hc ⊢
        rcases hc with h | h | h | h <;> simp [h]
      simp only [this, Bool.not_true, Bool.and_false, Bool.false_eq_true, if_false]
theorem bd_joinHead {k : Nat} {rest : List Tok} (h : Bd4 d k rest = true) (hk : 3 ≤ k) : joinHead rest = false := by
  cases rest with
  | nil => rfl
  | cons t r =>
    have := (bd_parts h).2.2.2.1
    simp only [PM.joinHead]
    cases hc : ["JOIN", "INNER", "LEFT", "RIGHT", "FULL", "CROSS"].contains (up t.src) with
    | false => rfl
    | true =>
      simp only [List.contains_cons, List.contains_nil, Bool.or_false, Bool.or_eq_true, beq_iff_eq] at hc
      have r1 : rank4 "JOIN" = 3 := by decide
      have r2 : rank4 "INNER" = 3 := by decide
      have r3 : rank4 "LEFT" = 3 := by decide
      have r4 : rank4 "RIGHT" = 3 := by decide
      have r5 : rank4 "FULL" = 3 := by decide
      have r6 : rank4 "CROSS" = 3 := by decide
      rcases hc with hc | hc | hc | hc | hc | hc <;> (rw [hc] at this; omega)
theorem bd_onUsing {k : Nat} {rest : List Tok} (h : Bd4 d k rest = true) : onUsingHead rest = false := by
  cases rest with
  | nil => rfl
  | cons t r =>
    have := (bd_parts h).2.2.2.1
    simp only [PM.onUsingHead]
    cases hc : ["ON", "USING"].contains (up t.src) with
    | false => rfl
    | true =>
      simp only [List.contains_cons, List.contains_nil, Bool.or_false, Bool.or_eq_true, beq_iff_eq] at hc
      have r1 : rank4 "ON" = 0 := by decide
      have r2 : rank4 "USING" = 0 := by decide
      rcases hc with hc | hc <;> (rw [hc] at this; omega)

/-! ### the list separator, what may follow a list element -/
theorem comma_stops2 (x : List Tok) : TP2.stops2 d (commaTok :: x) = true := TP2.comma_stop2 x
structure Fol (d : Gen.D) (fol : List Tok) : Prop where
  stops : TP2.stops2 d fol = true
  alias : pAlias fol = .ok (none, fol)
theorem Fol.ofBd {k : Nat} {fol : List Tok} (h : Bd4 d k fol = true) : Fol d fol := ⟨bd3_stops h, bd_alias h⟩
theorem Fol.comma (x : List Tok) : Fol d (commaTok :: x) := ⟨comma_stops2 x, TS.comma_alias x⟩
theorem Fol.tail {tl fol : List Tok} (h : tl = [] ∨ ∃ x, tl = commaTok :: x) (hf : Fol d fol) : Fol d (tl ++ fol) := by
  rcases h with rfl | ⟨x, rfl⟩
  · exact hf
  · exact Fol.comma _
theorem stops2_stops {fol : List Tok} (h : TP2.stops2 d fol = true) : TP.stops d fol = true := TP2.sl h

/-! ### aliases and select items -/
theorem as_stops2 (x : List Tok) : TP2.stops2 d (opTok "AS" :: x) = true := by
  have h : stopTok d 14 (opTok "AS") = true := by cases d <;> decide
  exact TP2.stop2_of x h (by decide)
theorem alias_any (a : Option String) (h : optAliasOK a = true) (fol : List Tok) (hf : Fol d fol) :
    pAlias (aliasToks a ++ fol) = .ok (a, fol) ∧ TP2.stops2 d (aliasToks a ++ fol) = true ∧ searchStr (aliasToks a ++ fol) "." = false := by
  cases a with
  | none => exact ⟨hf.alias, hf.stops, TS.stops_notDot (stops2_stops hf.stops)⟩
  | some a => exact ⟨TS.alias_some a h fol, as_stops2 (d := d) _, TS.stops_notDot (stops2_stops (as_stops2 (d := d) _))⟩

def toksCol4 (d : Gen.D) (ch : Expr → Bool) (c : Expr × Option String) : List Tok := toksE4 d ch c.1 ++ aliasToks c.2
theorem toksColsTail4_cons (c : Expr × Option String) (cs) : toksColsTail4 d ch (c :: cs) = commaTok :: (toksCol4 d ch c ++ toksColsTail4 d ch cs) := by
  obtain ⟨e, a⟩ := c; simp only [toksColsTail4, toksCol4]
theorem toksCols4_cons (c : Expr × Option String) (cs) : toksCols4 d ch (c :: cs) = toksCol4 d ch c ++ toksColsTail4 d ch cs := by
  obtain ⟨e, a⟩ := c; simp only [toksCols4, toksCol4]
def ColRec (d : Gen.D) (ch : Expr → Bool) (c : Expr × Option String) : Prop := RT4 d ch c.1 ∧ optAliasOK c.2 = true

theorem selectCol (c : Expr × Option String) (hc : ColRec d ch c) (fol : List Tok) (hf : Fol d fol) :
    OkAt (fun f => pSelectCol d f (toksCol4 d ch c ++ fol)) (20 * sizeL (toksCol4 d ch c) + 16) (c, fol) := by
  obtain ⟨e, a⟩ := c
  obtain ⟨ha, hs, _⟩ := alias_any a hc.2 fol hf
  intro f hf'
  simp only [toksCol4, sizeL_append] at hf'
  obtain ⟨g, rfl⟩ : ∃ g, f = g + 1 := ⟨f - 1, by omega⟩
  have hc1 : RT4 d ch e := hc.1
  have h1 : pOr d g (toksE4 d ch e ++ (aliasToks a ++ fol)) = .ok (e, aliasToks a ++ fol) :=
    hc1.own.s14 _ hs g (by omega)
  show pSelectCol d (g + 1) (toksCol4 d ch (e, a) ++ fol) = _
  unfold pSelectCol
  simp only [toksCol4, List.append_assoc, h1, ha]

theorem colsTail_shape (cs : List (Expr × Option String)) : toksColsTail4 d ch cs = [] ∨ ∃ x, toksColsTail4 d ch cs = commaTok :: x := by
  cases cs with
  | nil => left; simp only [toksColsTail4]
  | cons c cs => right; exact ⟨_, toksColsTail4_cons c cs⟩

theorem selectCols (fol : List Tok) (hf : Fol d fol) (hc : searchStr fol "," = false) :
    ∀ (cs : List (Expr × Option String)), (∀ c ∈ cs, ColRec d ch c) → ∀ acc,
    OkAt (fun f => pSelectCols d f acc (toksColsTail4 d ch cs ++ fol)) (20 * sizeL (toksColsTail4 d ch cs) + 17) (acc ++ cs, fol) := by
  intro cs
  induction cs with
  | nil =>
    intro _ acc f hf'
    obtain ⟨g, rfl⟩ : ∃ g, f = g + 1 := ⟨f - 1, by omega⟩
    simp [toksColsTail4, pSelectCols, hc]
  | cons c cs ih =>
    intro hcs acc f hf'
    simp only [toksColsTail4_cons, sizeL_cons, sizeL_append] at hf'
    have hsz : commaTok.size = 1 := by decide
    obtain ⟨g, rfl⟩ : ∃ g, f = g + 1 := ⟨f - 1, by omega⟩
    have h1 : pSelectCol d g (toksCol4 d ch c ++ (toksColsTail4 d ch cs ++ fol)) = .ok (c, toksColsTail4 d ch cs ++ fol) :=
      selectCol c (hcs c (by simp)) _ (Fol.tail (colsTail_shape cs) hf) g (by omega)
    have h2 := ih (fun c' hc' => hcs c' (by simp [hc'])) (acc ++ [c]) g (by omega)
    show pSelectCols d (g + 1) acc (toksColsTail4 d ch (c :: cs) ++ fol) = _
    unfold pSelectCols
    simp only [toksColsTail4_cons, List.cons_append, List.append_assoc, TS.comma_search, if_true, List.drop_succ_cons, List.drop_zero, h1]
    simpa using h2

/-! ### tables (plain, schema-qualified, derived) and FROM -/
theorem isOkPair_eq {r : Except Err (Option String × String)} {s : Option String} {n : String} (h : isOkPair r s n = true) : r = .ok (s, n) := by
  unfold isOkPair at h
  split at h
  · simp only [Bool.and_eq_true, beq_iff_eq] at h; obtain ⟨rfl, rfl⟩ := h; rfl
  · cases h
def RefRec (d : Gen.D) (ch : Expr → Bool) : TableRef → Prop
  | .table s n => tblOK s n = true
  | .sub q => QT d ch q
def TabRec (d : Gen.D) (ch : Expr → Bool) : FromTable → Prop
  | .mk r a => RefRec d ch r ∧ optAliasOK a = true
/-- the first token of a table reference is no word of a join phrase -/
theorem ref_noJoinWord (r : TableRef) (hr : RefRec d ch r) : ∃ t, toksRef4 d ch r = [t] ∧ ∀ e ∈ Gen.joinTypes, ∀ k ∈ e.2, t.equalsStr k = false := by
  cases r with
  | table s n =>
    simp only [RefRec, tblOK, Bool.and_eq_true, List.all_eq_true, Bool.not_eq_true'] at hr
    exact ⟨_, by simp only [toksRef4], hr.2⟩
  | sub q => exact ⟨grp (toksQ2 d ch q), by simp only [toksRef4], fun _ _ _ _ => rfl⟩

theorem fromTable (t : FromTable) (ht : TabRec d ch t) (fol : List Tok) (hf : Fol d fol) :
    OkAt (fun f => pFromTable d f (toksTable4 d ch t ++ fol)) (20 * sizeL (toksTable4 d ch t) + 2) (t, fol) := by
  obtain ⟨tr, a⟩ := t
  obtain ⟨hr, hal⟩ := ht
  obtain ⟨ha, _, hdot⟩ := alias_any a hal fol hf
  cases tr with
  | table sch n =>
    simp only [RefRec, tblOK, Bool.and_eq_true, Bool.not_eq_true', List.isEmpty_iff] at hr
    obtain ⟨⟨⟨⟨hN, hP⟩, hC⟩, hsp⟩, _⟩ := hr
    have hsp' := isOkPair_eq hsp
    intro f hf'
    obtain ⟨g, rfl⟩ : ∃ g, f = g + 2 := ⟨f - 2, by simp only [toksTable4, toksRef4, sizeL_append, sizeL_cons] at hf'; omega⟩
    show pFromTable d (g + 2) (toksTable4 d ch (.mk (.table sch n) a) ++ fol) = _
    unfold pFromTable pTableExpr
    simp only [toksTable4, toksRef4, List.cons_append, List.nil_append, List.append_assoc, headChildren, hC, startsSelect, searchSetUp,
      Bool.false_eq_true, if_false, searchMark, hP]
    unfold pTableName
    simp only [hN, Bool.not_true, Bool.false_eq_true, if_false, hdot, hsp', ha]
  | sub q =>
    simp only [RefRec] at hr
    obtain ⟨x, hx⟩ := hr.head
    have hs : startsSelect (toksQ2 d ch q) = true := by rw [hx]; exact select_starts x
    intro f hf'
    simp only [toksTable4, toksRef4, sizeL_append, sizeL_cons, size_grp, sizeL] at hf'
    obtain ⟨g, rfl⟩ : ∃ g, f = g + 2 := ⟨f - 2, by omega⟩
    have h1 := subq_ok q hr (aliasToks a ++ fol) g (by omega)
    show pFromTable d (g + 2) (toksTable4 d ch (.mk (.sub q) a) ++ fol) = _
    unfold pFromTable pTableExpr
    simp only [toksTable4, toksRef4, List.cons_append, List.nil_append, List.append_assoc, headChildren, children_grp, hs, if_true, h1, ha]

theorem toksTablesTail4_cons (t : FromTable) (ts) : toksTablesTail4 d ch (t :: ts) = commaTok :: (toksTable4 d ch t ++ toksTablesTail4 d ch ts) := by
  simp only [toksTablesTail4]
theorem tablesTail_shape (ts : List FromTable) : toksTablesTail4 d ch ts = [] ∨ ∃ x, toksTablesTail4 d ch ts = commaTok :: x := by
  cases ts with
  | nil => left; simp only [toksTablesTail4]
  | cons c cs => right; exact ⟨_, toksTablesTail4_cons c cs⟩
theorem fromTables (fol : List Tok) (hf : Fol d fol) (hc : searchStr fol "," = false) :
    ∀ (ts : List FromTable), (∀ t ∈ ts, TabRec d ch t) → ∀ acc,
    OkAt (fun f => pFromTables d f acc (toksTablesTail4 d ch ts ++ fol)) (20 * sizeL (toksTablesTail4 d ch ts) + 3) (acc ++ ts, fol) := by
  intro ts
  induction ts with
  | nil =>
    intro _ acc f hf'
    obtain ⟨g, rfl⟩ : ∃ g, f = g + 1 := ⟨f - 1, by omega⟩
    simp [toksTablesTail4, pFromTables, hc]
  | cons t ts ih =>
    intro hts acc f hf'
    have hsz : commaTok.size = 1 := by decide
    simp only [toksTablesTail4_cons, sizeL_cons, sizeL_append, hsz] at hf'
    obtain ⟨g, rfl⟩ : ∃ g, f = g + 1 := ⟨f - 1, by omega⟩
    have h1 : pFromTable d g (toksTable4 d ch t ++ (toksTablesTail4 d ch ts ++ fol)) = .ok (t, toksTablesTail4 d ch ts ++ fol) :=
      fromTable t (hts t (by simp)) _ (Fol.tail (tablesTail_shape ts) hf) g (by omega)
    have h2 := ih (fun c' hc' => hts c' (by simp [hc'])) (acc ++ [t]) g (by omega)
    show pFromTables d (g + 1) acc (toksTablesTail4 d ch (t :: ts) ++ fol) = _
    unfold pFromTables
    simp only [toksTablesTail4_cons, List.cons_append, List.append_assoc, TS.comma_search, if_true, List.drop_succ_cons, List.drop_zero, h1]
    simpa using h2

def FromRec (d : Gen.D) (ch : Expr → Bool) : Option (List FromTable) → Prop
  | none => True
  | some (t :: ts) => TabRec d ch t ∧ ∀ x ∈ ts, TabRec d ch x
  | some [] => False
theorem fromOpt (fr : Option (List FromTable)) (hfr : FromRec d ch fr) (fol : List Tok) (hb : Bd4 d 1 fol = true) :
    OkAt (fun f => pFromOpt d f (toksFrom4 d ch fr ++ fol)) (20 * sizeL (toksFrom4 d ch fr) + 4) (fr, fol) := by
  have hf := Fol.ofBd hb
  have hr1 : rank4 "FROM" = 1 := by decide
  cases fr with
  | none =>
    intro f hf'
    obtain ⟨g, rfl⟩ : ∃ g, f = g + 1 := ⟨f - 1, by omega⟩
    simp [toksFrom4, pFromOpt, bd_search hb "FROM" (by omega)]
  | some l =>
    cases l with
    | nil => exact absurd hfr (by simp [FromRec])
    | cons t ts =>
      simp only [FromRec] at hfr
      intro f hf'
      simp only [toksFrom4, sizeL_cons, sizeL_append, size_opTok] at hf'
      obtain ⟨g, rfl⟩ : ∃ g, f = g + 1 := ⟨f - 1, by omega⟩
      have h1 : pFromTable d g (toksTable4 d ch t ++ (toksTablesTail4 d ch ts ++ fol)) = .ok (t, toksTablesTail4 d ch ts ++ fol) :=
        fromTable t hfr.1 _ (Fol.tail (tablesTail_shape ts) hf) g (by omega)
      have h2 := fromTables fol hf (bd_comma hb) ts hfr.2 [t] g (by omega)
      have hs : searchStrUp (opTok "FROM" :: (toksTable4 d ch t ++ (toksTablesTail4 d ch ts ++ fol))) "FROM" = true := by
        have : (opTok "FROM").srcEqUp "FROM" = true := by decide
        simpa [searchStrUp] using this
      show pFromOpt d (g + 1) (toksFrom4 d ch (some (t :: ts)) ++ fol) = _
      unfold pFromOpt
      simp only [toksFrom4, List.cons_append, List.append_assoc, hs, if_true, List.drop_succ_cons, List.drop_zero, h1]
      simp only [h2]; rfl



/-! ### calls read by `pFunc` (USING rule, LATERAL VIEW): no array index is looked for -/
theorem func_ok (ts : List Tok) (schema : Option String) (name : String) (A rest : List Tok) (isAgg dist : Bool) (A' : List Tok) (ps : List Expr)
    (hname : pFuncName ts = .ok ((schema, name), grp A :: rest))
    (hsp : (schema.isNone && up name == "CAST") = false ∧ (schema.isNone && up name == "EXTRACT") = false ∧ (schema.isNone && up name == "IF") = false)
    (hprep : callPrep name (grp A) = (isAgg, dist, A'))
    (B : Nat) (acc : List Expr) (r2 : List Tok) (h1 : OkAt (fun f => pFirstArg d f A') B (acc, r2)) (h2 : OkAt (fun f => pArgs d f acc r2) B (ps, [])) :
    OkAt (fun f => pFunc d f ts) (B + 2) (callNode schema name isAgg dist ps, rest) := by
  intro f hf
  obtain ⟨g, rfl⟩ : ∃ g, f = g + 2 := ⟨f - 2, by omega⟩
  have a1 := h1 g (by omega)
  have a2 := h2 g (by omega)
  simp only at a1 a2
  unfold pFunc
  simp only [hname, hsp.1, hsp.2.1, hsp.2.2, Bool.false_eq_true, if_false]
  unfold pCall
  simp only [hprep, a1, a2, closed]
/-- `f(a₁, …, aₙ)` through `pFunc`, whatever follows -/
theorem plainFunc_ok (n : String) (ps : List Expr) (hn : fnOK d none n = true) (hps : ∀ a ∈ ps, RT4 d ch a) (rest : List Tok) :
    OkAt (fun f => pFunc d f (qTok n :: grp (toksArgs4 d ch 14 ps) :: rest)) (20 * sizeL (toksArgs4 d ch 14 ps) + 20) (.func none n ps, rest) := by
  simp only [fnOK, Bool.and_eq_true] at hn
  obtain ⟨hfn, hnm, hsp⟩ := hn
  obtain ⟨u, _, _, hN, l, p, cs, st, un, _, _⟩ := nmOK_parts hnm
  obtain ⟨c1, c2, c3, _, _⟩ := fnName_parts hfn
  obtain ⟨acc, r2, h1, h2⟩ := args_ok ps hps
  have key := func_ok (d := d) (qTok n :: grp (toksArgs4 d ch 14 ps) :: rest) none n _ rest false false _ ps
    (pFuncName_plain _ n _ rest hN (isOkNoneS_eq hsp)) ⟨by simp [c1], by simp [c2], by simp [c3]⟩ (callPrep_func n _ hfn) _ acc r2 h1 h2
  simp only [callNode, Option.isNone_none, Bool.true_and, Bool.false_eq_true, if_false] at key
  exact key.mono (by omega)

/-! ### JOINs -/
/-- the USING rule: a call `USING (…)` (the tree stores the spelling of the word: F-C09-2) -/
def UsingRec (d : Gen.D) (ch : Expr → Bool) : Expr → Prop
  | .func none n ps => fnOK d none n = true ∧ (qTok n).srcEqUp "USING" = true ∧ stopTok d 14 (qTok n) = true ∧ ∀ a ∈ ps, RT4 d ch a
  | _ => False
def RuleRec (d : Gen.D) (ch : Expr → Bool) : Option JoinRule → Prop
  | none => True
  | some (.on e) => RT4 d ch e
  | some (.using u) => UsingRec d ch u
theorem using_fol {t : Tok} (hu : t.srcEqUp "USING" = true) (hs : stopTok d 14 t = true) (x : List Tok) : Fol d (t :: x) := by
  have hu' : up t.src = "USING" := by simpa [Tok.srcEqUp] using hu
  refine ⟨TP2.stop2_of x hs (by simp [Tok.srcEqUp, hu']), ?_⟩
  unfold pAlias
  simp [searchStrUp, Tok.srcEqUp, hu']
def JoinRec (d : Gen.D) (ch : Expr → Bool) : Join → Prop
  | .mk ty t rule => joinTyOK4 d ty = true ∧ TabRec d ch t ∧ RuleRec d ch rule
theorem on_fol (x : List Tok) : Fol d (opTok "ON" :: x) := by
  refine ⟨?_, (TS.on_fol (d := d) x).alias⟩
  have h : stopTok d 14 (opTok "ON") = true := by cases d <;> decide
  exact TP2.stop2_of x h (by decide)
theorem sizeL_ref (r : TableRef) : 1 ≤ sizeL (toksRef4 d ch r) := by
  cases r <;> simp only [toksRef4, sizeL, tblTok] <;> (try split) <;> simp [Tok.size, nameTok, size_grp] <;> omega

theorem joinTy_parts {ty : String} (h : joinTyOK4 d ty = true) :
    firstEnumA Gen.joinTypes (joinWords ty) = some (ty, (joinWords ty).length) ∧
    ∃ t ws, joinWords ty = t :: ws ∧ bdTok4 d 2 t = true ∧ PM.joinHead [t] = true := by
  simp only [joinTyOK4, Bool.and_eq_true] at h
  obtain ⟨h1, h2⟩ := h
  refine ⟨?_, ?_⟩
  · split at h1
    · rename_i n k hk
      simp only [Bool.and_eq_true, beq_iff_eq] at h1
      rw [hk, h1.1, h1.2]
    · cases h1
  · split at h2
    · rename_i t ws hw
      simp only [Bool.and_eq_true] at h2
      exact ⟨t, ws, hw, h2.1, h2.2⟩
    · cases h2
theorem join (j : Join) (hj : JoinRec d ch j) (fol : List Tok) (hb : Bd4 d 2 fol = true) :
    OkAt (fun f => pJoin d f (toksJoin4 d ch j ++ fol)) (20 * sizeL (toksJoin4 d ch j) + 20) (j, fol) := by
  obtain ⟨ty, t, rule⟩ := j
  obtain ⟨hty, ht, hrule⟩ := hj
  obtain ⟨hfe, _⟩ := joinTy_parts hty
  obtain ⟨tr, a⟩ := t
  obtain ⟨t0, ht0, hnj⟩ := ref_noJoinWord tr ht.1
  have hfirst : firstEnum Gen.joinTypes (joinWords ty ++ (t0 :: (aliasToks a ++ (toksRule4 d ch rule ++ fol)))) =
      some (ty, t0 :: (aliasToks a ++ (toksRule4 d ch rule ++ fol))) := by
    rw [TS.firstEnum_app _ _ _ _ hnj, hfe]
    simp
  have hfolr : Fol d (toksRule4 d ch rule ++ fol) := by
    cases rule with
    | none => simpa [toksRule4] using Fol.ofBd hb
    | some r => cases r with
      | on e => simp only [toksRule4, List.cons_append]; exact on_fol _
      | «using» u =>
        cases u with
        | func s n ps =>
          cases s with
          | none => simp only [toksRule4, toksE4, List.nil_append, List.cons_append]; exact using_fol hrule.2.1 hrule.2.2.1 _
          | some s => exact absurd hrule (by simp [RuleRec, UsingRec])
        | _ => exact absurd hrule (by simp [RuleRec, UsingRec])
  intro f hf'
  obtain ⟨g, rfl⟩ : ∃ g, f = g + 2 := ⟨f - 2, by omega⟩
  have h1 : pFromTable d (g + 1) (toksTable4 d ch (.mk tr a) ++ (toksRule4 d ch rule ++ fol)) = .ok (.mk tr a, toksRule4 d ch rule ++ fol) :=
    fromTable _ ht _ hfolr (g + 1) (by simp only [toksJoin4, sizeL_append] at hf'; omega)
  show pJoin d (g + 2) (toksJoin4 d ch (.mk ty (.mk tr a) rule) ++ fol) = _
  unfold pJoin
  simp only [toksJoin4, toksTable4, ht0, List.append_assoc, List.cons_append, List.nil_append, hfirst]
  simp only [toksTable4, ht0, List.cons_append, List.nil_append, List.append_assoc] at h1
  simp only [h1]
  unfold pJoinRule
  cases rule with
  | none => simp [toksRule4, bd_onUsing hb]
  | some r =>
    cases r with
    | «using» u =>
      cases u with
      | func s n ps =>
        cases s with
        | some s => exact absurd hrule (by simp [RuleRec, UsingRec])
        | none =>
          obtain ⟨hfn, hu, _, hps⟩ := hrule
          have hu' : up (qTok n).src = "USING" := by simpa [Tok.srcEqUp] using hu
          have h2 : pFunc d g (qTok n :: grp (toksArgs4 d ch 14 ps) :: fol) = .ok (.func none n ps, fol) := by
            apply plainFunc_ok n ps hfn hps fol g
            simp only [toksJoin4, toksRule4, toksE4, sizeL_append, sizeL_cons, size_grp, List.nil_append, sizeL] at hf'
            omega
          simp [toksRule4, toksE4, onUsingHead, searchStrUp, Tok.srcEqUp, hu', h2]
      | _ => exact absurd hrule (by simp [RuleRec, UsingRec])
    | on e =>
      simp only [RuleRec] at hrule
      have ho : onUsingHead (opTok "ON" :: (toksE4 d ch e ++ fol)) = true := by
        have : ["ON", "USING"].contains (up (opTok "ON").src) = true := by decide
        simpa [onUsingHead] using this
      have hs : searchStrUp (opTok "ON" :: (toksE4 d ch e ++ fol)) "ON" = true := by
        have : (opTok "ON").srcEqUp "ON" = true := by decide
        simpa [searchStrUp] using this
      have h2 : pOr d g (toksE4 d ch e ++ fol) = .ok (e, fol) := by
        apply hrule.own.s14 fol (bd3_stops hb) g
        simp only [toksJoin4, toksRule4, sizeL_append, sizeL_cons] at hf'
        omega
      simp [toksRule4, ho, hs, h2]

theorem joins_bd (js : List Join) (hjs : ∀ j ∈ js, JoinRec d ch j) (fol : List Tok) (hb : Bd4 d 3 fol = true) :
    Bd4 d 2 (toksJoins4 d ch js ++ fol) = true ∧ (js ≠ [] → PM.joinHead (toksJoins4 d ch js ++ fol) = true) := by
  cases js with
  | nil => exact ⟨by simpa [toksJoins4] using bd3_mono hb (by omega), fun h => absurd rfl h⟩
  | cons j js =>
    obtain ⟨ty, t, rule⟩ := j
    have := hjs (.mk ty t rule) (by simp)
    obtain ⟨_, t0, ws, hw, hbd, hjh⟩ := joinTy_parts this.1
    refine ⟨?_, fun _ => ?_⟩
    · simp only [toksJoins4, toksJoin4, hw, List.cons_append]; exact bd3_of _ hbd
    · simp only [toksJoins4, toksJoin4, hw, List.cons_append]
      simpa [PM.joinHead] using hjh
theorem sizeL_toksJoin_pos (j : Join) : 1 ≤ sizeL (toksJoin4 d ch j) := by
  obtain ⟨ty, ⟨tr, a⟩, rule⟩ := j
  have := sizeL_ref (d := d) (ch := ch) tr
  simp only [toksJoin4, toksTable4, sizeL_append]; omega
theorem joins (fol : List Tok) (hb : Bd4 d 3 fol = true) :
    ∀ (js : List Join), (∀ j ∈ js, JoinRec d ch j) → ∀ acc,
    OkAt (fun f => pJoins d f true [] acc (toksJoins4 d ch js ++ fol)) (20 * sizeL (toksJoins4 d ch js) + 22) (acc ++ js, fol) := by
  intro js
  induction js with
  | nil =>
    intro _ acc f hf'
    obtain ⟨g, rfl⟩ : ∃ g, f = g + 1 := ⟨f - 1, by omega⟩
    simp [toksJoins4, pJoins, bd_joinHead hb (by omega)]
  | cons j js ih =>
    intro hjs acc f hf'
    simp only [toksJoins4, sizeL_append] at hf'
    obtain ⟨g, rfl⟩ : ∃ g, f = g + 1 := ⟨f - 1, by omega⟩
    have hjs' : ∀ j' ∈ js, JoinRec d ch j' := fun j' hj' => hjs j' (by simp [hj'])
    have hnext := (joins_bd js hjs' fol hb).1
    have h1 : pJoin d g (toksJoin4 d ch j ++ (toksJoins4 d ch js ++ fol)) = .ok (j, toksJoins4 d ch js ++ fol) :=
      join j (hjs j (by simp)) _ hnext g (by omega)
    have h2 := ih hjs' (acc ++ [j]) g (by have := sizeL_toksJoin_pos (d := d) (ch := ch) j; omega)
    have hh := (joins_bd (j :: js) hjs fol hb).2 (by simp)
    show pJoins d (g + 1) true [] acc (toksJoins4 d ch (j :: js) ++ fol) = _
    unfold pJoins
    simp only [if_true, hh]
    simp only [toksJoins4, List.append_assoc] at h1 ⊢
    simp only [h1]
    simpa using h2

/-! ### WHERE / HAVING -/
def OptRec (d : Gen.D) (ch : Expr → Bool) : Option Expr → Prop
  | none => True
  | some e => RT4 d ch e
theorem optOr (kw : String) (hk : (opTok kw).srcEqUp kw = true) (k : Nat) (hrk : rank4 kw ≤ k) (o : Option Expr) (ho : OptRec d ch o)
    (fol : List Tok) (hb : Bd4 d k fol = true) :
    OkAt (fun f => pOptOr d f kw (toksOptE4 d ch kw o ++ fol)) (20 * sizeL (toksOptE4 d ch kw o) + 16) (o, fol) := by
  intro f hf'
  obtain ⟨g, rfl⟩ : ∃ g, f = g + 1 := ⟨f - 1, by omega⟩
  cases o with
  | none => simp [toksOptE4, pOptOr, bd_search hb kw hrk]
  | some e =>
    simp only [OptRec] at ho
    simp only [toksOptE4, sizeL_cons] at hf'
    have hs : searchStrUp (opTok kw :: (toksE4 d ch e ++ fol)) kw = true := by simpa [searchStrUp] using hk
    have h2 : pOr d g (toksE4 d ch e ++ fol) = .ok (e, fol) := ho.own.s14 fol (bd3_stops hb) g (by omega)
    show pOptOr d (g + 1) kw (toksOptE4 d ch kw (some e) ++ fol) = _
    unfold pOptOr
    simp [toksOptE4, hs, h2]

/-! ### key lists (GROUP BY, ORDER BY) -/
theorem key8 (e : Expr) (he : RT4 d ch e) (fol : List Tok) (hs : TP2.stopLE2 d 8 fol = true) :
    OkAt (fun f => pCompute d f (W4 d ch e 8 ++ fol)) (20 * sizeL (W4 d ch e 8) + 2) (e, fol) :=
  (he.at 8 (by omega)).s8 (by omega) fol hs
theorem comma_stop8 (x : List Tok) : TP2.stopLE2 d 8 (commaTok :: x) = true := TP2.stopLE2_mono (comma_stops2 (d := d) x) (by omega)
theorem keysTail_shape (es : List Expr) : toksArgsTail4 d ch 8 es = [] ∨ ∃ x, toksArgsTail4 d ch 8 es = commaTok :: x := by
  cases es with
  | nil => left; simp only [toksArgsTail4]
  | cons c cs => right; exact ⟨_, by simp only [toksArgsTail4]; rfl⟩
theorem stop8_tail {tl fol : List Tok} (h : tl = [] ∨ ∃ x, tl = commaTok :: x) (hs : TP2.stopLE2 d 8 fol = true) : TP2.stopLE2 d 8 (tl ++ fol) = true := by
  rcases h with rfl | ⟨x, rfl⟩
  · exact hs
  · exact comma_stop8 _
theorem computeList (fol : List Tok) (hs : TP2.stopLE2 d 8 fol = true) (hc : searchStr fol "," = false) :
    ∀ (es : List Expr), (∀ e ∈ es, RT4 d ch e) → ∀ acc,
    OkAt (fun f => pComputeList d f acc (toksArgsTail4 d ch 8 es ++ fol)) (20 * sizeL (toksArgsTail4 d ch 8 es) + 3) (acc ++ es, fol) := by
  intro es
  induction es with
  | nil =>
    intro _ acc f hf'
    obtain ⟨g, rfl⟩ : ∃ g, f = g + 1 := ⟨f - 1, by omega⟩
    simp [toksArgsTail4, pComputeList, hc]
  | cons e es ih =>
    intro hes acc f hf'
    have hsz : commaTok.size = 1 := by decide
    have e1 : toksArgsTail4 d ch 8 (e :: es) = commaTok :: (W4 d ch e 8 ++ toksArgsTail4 d ch 8 es) := by simp only [toksArgsTail4, W4]; rfl
    simp only [e1, sizeL_cons, sizeL_append, hsz] at hf'
    obtain ⟨g, rfl⟩ : ∃ g, f = g + 1 := ⟨f - 1, by omega⟩
    have h1 : pCompute d g (W4 d ch e 8 ++ (toksArgsTail4 d ch 8 es ++ fol)) = .ok (e, toksArgsTail4 d ch 8 es ++ fol) :=
      key8 e (hes e (by simp)) _ (stop8_tail (keysTail_shape es) hs) g (by omega)
    have h2 := ih (fun c' hc' => hes c' (by simp [hc'])) (acc ++ [e]) g (by omega)
    show pComputeList d (g + 1) acc (toksArgsTail4 d ch 8 (e :: es) ++ fol) = _
    unfold pComputeList
    simp only [e1, List.cons_append, List.append_assoc, TS.comma_search, if_true, List.drop_succ_cons, List.drop_zero, h1]
    simpa using h2


theorem s0cons (a : Tok) (x : List Tok) (p : String) : searchStr (a :: x) p = a.srcEq p := rfl
theorem s1cons (a : Tok) (x : List Tok) (p : String) : searchStrUp (a :: x) p = a.srcEqUp p := rfl
theorem s2cons (a b : Tok) (x : List Tok) (p q : String) : searchTwoUp (a :: b :: x) p q = (a.srcEqUp p && b.srcEqUp q) := rfl

/-! ### GROUP BY keys [GROUPING SETS (…)] [WITH CUBE] [WITH ROLLUP] -/
/-- segments joined by commas -/
def joinCT : List (List Tok) → List Tok
  | [] => []
  | s :: r => TP2.commaTok :: (s ++ joinCT r)
def joinC : List (List Tok) → List Tok
  | [] => []
  | s :: r => s ++ joinCT r
theorem splitBy_seg : ∀ (seg : List Tok), NoComma seg → ∀ (cur : List Tok) (acc : List (List Tok)) (rest' : List Tok),
    splitBy "," (seg ++ rest') cur acc = splitBy "," rest' (cur ++ seg) acc := by
  intro seg
  induction seg with
  | nil => intro _ cur acc rest'; simp
  | cons t seg ih =>
    intro hnc cur acc rest'
    have ht := hnc t (by simp)
    simp only [List.cons_append, splitBy, ht, Bool.false_eq_true, if_false]
    rw [ih (fun x hx => hnc x (by simp [hx]))]
    simp
theorem splitBy_tail : ∀ (segs : List (List Tok)), (∀ s ∈ segs, NoComma s ∧ s ≠ []) → ∀ (cur : List Tok) (acc : List (List Tok)), cur ≠ [] →
    splitBy "," (joinCT segs) cur acc = acc ++ [cur] ++ segs := by
  intro segs
  induction segs with
  | nil =>
    intro _ cur acc hne
    have : cur.isEmpty = false := by cases cur <;> simp_all
    simp [joinCT, splitBy, this]
  | cons s r ih =>
    intro h cur acc hne
    have : cur.isEmpty = false := by cases cur <;> simp_all
    obtain ⟨hs1, hs2⟩ := h s (by simp)
    simp only [joinCT, splitBy, comma_equals, if_true, this, Bool.false_eq_true, if_false]
    rw [splitBy_seg s hs1, ih (fun x hx => h x (by simp [hx])) _ _ (by simpa using hs2)]
    simp
theorem splitBy_join (segs : List (List Tok)) (h : ∀ s ∈ segs, NoComma s ∧ s ≠ []) : splitBy "," (joinC segs) [] [] = segs := by
  cases segs with
  | nil => simp [joinC, splitBy]
  | cons s r =>
    obtain ⟨hs1, hs2⟩ := h s (by simp)
    simp only [joinC]
    rw [splitBy_seg s hs1, splitBy_tail r (fun x hx => h x (by simp [hx])) _ _ (by simpa using hs2)]
    simp
theorem sizeL_joinCT_le (segs : List (List Tok)) : sizeL (joinCT segs) ≤ sizeL (joinC segs) + 1 := by
  cases segs with
  | nil => simp [joinCT, joinC, sizeL]
  | cons s r =>
    have : TP2.commaTok.size = 1 := by decide
    simp only [joinCT, joinC, sizeL_cons, sizeL_append, this]; omega
theorem argsTail_join (es : List Expr) : toksArgsTail4 d ch 8 es = joinCT (es.map (fun e => W4 d ch e 8)) := by
  induction es with
  | nil => simp only [toksArgsTail4, List.map_nil, joinCT]
  | cons e es ih => simp only [toksArgsTail4, List.map_cons, joinCT, ih, W4]
theorem args_join (es : List Expr) : toksArgs4 d ch 8 es = joinC (es.map (fun e => W4 d ch e 8)) := by
  cases es with
  | nil => simp only [toksArgs4, List.map_nil, joinC]
  | cons e es => simp only [toksArgs4, List.map_cons, joinC, argsTail_join, W4]
theorem setsTail_join (l : List (List Expr)) : toksSetsTail4 d ch l = joinCT (l.map (toksSet4 d ch)) := by
  induction l with
  | nil => simp only [toksSetsTail4, List.map_nil, joinCT]
  | cons g l ih => simp only [toksSetsTail4, List.map_cons, joinCT, ih]
theorem sets_join (l : List (List Expr)) : toksSets4 d ch l = joinC (l.map (toksSet4 d ch)) := by
  cases l with
  | nil => simp only [toksSets4, List.map_nil, joinC]
  | cons g l => simp only [toksSets4, List.map_cons, joinC, setsTail_join]
theorem key8_closed (e : Expr) (he : RT4 d ch e) : OkAt (fun f => closed (pCompute d f (W4 d ch e 8))) (20 * sizeL (W4 d ch e 8) + 2) e := by
  intro f hf
  have := key8 e he [] (TP2.stopLE2_nil d 8) f hf
  simp only [List.append_nil] at this
  simp only [this, closed]
theorem closedEach_ok : ∀ (es : List Expr), (∀ e ∈ es, RT4 d ch e) → ∀ (acc : List Expr) (f : Nat),
    20 * sizeL (joinCT (es.map (fun e => W4 d ch e 8))) + 3 ≤ f → pClosedEach d f acc (es.map (fun e => W4 d ch e 8)) = .ok (acc ++ es) := by
  intro es
  induction es with
  | nil =>
    intro _ acc f hf
    obtain ⟨g, rfl⟩ : ∃ g, f = g + 1 := ⟨f - 1, by omega⟩
    simp [pClosedEach]
  | cons e es ih =>
    intro hes acc f hf
    have hsz : TP2.commaTok.size = 1 := by decide
    simp only [List.map_cons, joinCT, sizeL_cons, sizeL_append, hsz] at hf
    obtain ⟨g, rfl⟩ : ∃ g, f = g + 1 := ⟨f - 1, by omega⟩
    have h1 := key8_closed e (hes e (by simp)) g (by omega)
    have h2 := ih (fun x hx => hes x (by simp [hx])) (acc ++ [e]) g (by omega)
    simp only at h1
    simp only [List.map_cons]
    unfold pClosedEach
    simp only [h1, h2, List.append_assoc, List.singleton_append]
theorem args_segs (es : List Expr) (hes : ∀ e ∈ es, RT4 d ch e) : ∀ s ∈ es.map (fun e => W4 d ch e 8), NoComma s ∧ s ≠ [] := by
  intro s hs
  simp only [List.mem_map] at hs
  obtain ⟨e, he, rfl⟩ := hs
  exact ⟨(hes e he).ncW 8, (hes e he).neW 8⟩
/-- a bracketed grouping set `(e₁, …, eₙ)` (also `()` and the doubly bracketed single element) -/
theorem groupElem_paren (g : List Expr) (hg : ∀ e ∈ g, RT4 d ch e) :
    OkAt (fun f => pGroupingElem d f [grp (toksArgs4 d ch 8 g)]) (20 * sizeL (toksArgs4 d ch 8 g) + 25) g := by
  intro f hf
  obtain ⟨f1, rfl⟩ : ∃ f1, f = f1 + 1 := ⟨f - 1, by omega⟩
  have hsp : splitBy "," (toksArgs4 d ch 8 g) [] [] = g.map (fun e => W4 d ch e 8) := by
    rw [args_join]; exact splitBy_join _ (args_segs g hg)
  have h2 := closedEach_ok g hg [] f1 (by
    have := sizeL_joinCT_le (g.map (fun e => W4 d ch e 8))
    rw [args_join] at hf; omega)
  unfold pGroupingElem
  simp only [grp_paren, if_true, children_grp, hsp, h2, List.nil_append, List.isEmpty_nil]
/-- a single bare element -/
theorem groupElem_bare (e : Expr) (he : RT4 d ch e) (hh : headIsGrp (W4 d ch e 8) = false) :
    OkAt (fun f => pGroupingElem d f (W4 d ch e 8)) (20 * sizeL (W4 d ch e 8) + 3) [e] := by
  intro f hf
  obtain ⟨f1, rfl⟩ : ∃ f1, f = f1 + 1 := ⟨f - 1, by omega⟩
  have h1 := key8_closed e he f1 (by omega)
  simp only at h1
  obtain ⟨t, ts', hw, _⟩ := he.headW 8
  rw [hw] at hh h1 ⊢
  simp only [headIsGrp] at hh
  unfold pGroupingElem
  simp only [hh, Bool.false_eq_true, if_false, h1]
theorem toksSet4_cases (g : List Expr) : toksSet4 d ch g = [grp (toksArgs4 d ch 8 g)] ∨
    ∃ e, g = [e] ∧ toksSet4 d ch g = W4 d ch e 8 ∧ headIsGrp (W4 d ch e 8) = false := by
  cases g with
  | nil => left; simp only [toksSet4, toksArgs4]
  | cons e r =>
    cases r with
    | nil =>
      by_cases h : headIsGrp (W4 d ch e 8) = true
      · left; simp only [W4] at h; simp only [toksSet4, h, if_true, toksArgs4, toksArgsTail4, List.append_nil]
      · right; simp only [Bool.not_eq_true] at h
        refine ⟨e, rfl, ?_, h⟩
        simp only [W4] at h; simp only [toksSet4, h, Bool.false_eq_true, if_false, W4]
    | cons e2 es => left; simp only [toksSet4, toksArgs4, toksArgsTail4]
theorem groupElem_ok (g : List Expr) (hg : ∀ e ∈ g, RT4 d ch e) :
    OkAt (fun f => pGroupingElem d f (toksSet4 d ch g)) (20 * sizeL (toksSet4 d ch g) + 5) g ∧ NoComma (toksSet4 d ch g) ∧ toksSet4 d ch g ≠ [] := by
  rcases toksSet4_cases (d := d) (ch := ch) g with h | ⟨e, rfl, h, hh⟩
  · rw [h]
    refine ⟨(groupElem_paren g hg).mono ?_, grp_nocomma _, by simp⟩
    simp only [sizeL, size_grp]; omega
  · rw [h]
    have he := hg e (by simp)
    exact ⟨(groupElem_bare e he hh).mono (by omega), he.ncW 8, he.neW 8⟩
theorem groupElems_ok : ∀ (l : List (List Expr)), (∀ g ∈ l, ∀ e ∈ g, RT4 d ch e) → ∀ (acc : List (List Expr)) (f : Nat),
    20 * sizeL (joinCT (l.map (toksSet4 d ch))) + 6 ≤ f → pGroupingElems d f acc (l.map (toksSet4 d ch)) = .ok (acc ++ l) := by
  intro l
  induction l with
  | nil =>
    intro _ acc f hf
    obtain ⟨g, rfl⟩ : ∃ g, f = g + 1 := ⟨f - 1, by omega⟩
    simp [pGroupingElems]
  | cons g0 l ih =>
    intro hl acc f hf
    have hsz : TP2.commaTok.size = 1 := by decide
    simp only [List.map_cons, joinCT, sizeL_cons, sizeL_append, hsz] at hf
    obtain ⟨g, rfl⟩ : ∃ g, f = g + 1 := ⟨f - 1, by omega⟩
    have h1 := (groupElem_ok g0 (hl g0 (by simp))).1 g (by omega)
    have h2 := ih (fun x hx => hl x (by simp [hx])) (acc ++ [g0]) g (by omega)
    simp only at h1
    simp only [List.map_cons]
    unfold pGroupingElems
    simp only [h1, h2, List.append_assoc, List.singleton_append]

def SetsRec (d : Gen.D) (ch : Expr → Bool) : Option (List (List Expr)) → Prop
  | none => True
  | some l => ∀ g ∈ l, ∀ e ∈ g, RT4 d ch e
def GroupRec (d : Gen.D) (ch : Expr → Bool) : Option GroupBy → Prop
  | none => True
  | some (.mk cols sets _ _) => (∀ e ∈ cols, RT4 d ch e) ∧ SetsRec d ch sets ∧ (cols = [] → sets.isSome = true) ∧
      (∀ e es, cols = e :: es → searchStrUp (W4 d ch e 8) "GROUPING" = false)
def cubeT (b : Bool) : List Tok := if b then [opTok "WITH", opTok "CUBE"] else []
def rollT (b : Bool) : List Tok := if b then [opTok "WITH", opTok "ROLLUP"] else []
theorem group_words : (opTok "WITH").srcEqUp "WITH" = true ∧ (opTok "CUBE").srcEqUp "CUBE" = true ∧ (opTok "ROLLUP").srcEqUp "ROLLUP" = true ∧
    (opTok "ROLLUP").srcEqUp "CUBE" = false ∧ (opTok "WITH").srcEqUp "GROUPING" = false ∧ (opTok "GROUPING").srcEqUp "GROUPING" = true ∧
    (opTok "SETS").srcEqUp "SETS" = true ∧ (opTok "GROUPING").equalsStr "GROUPING" = true ∧ (opTok "SETS").equalsStr "SETS" = true ∧
    (opTok "WITH").srcEq "," = false ∧ (opTok "GROUPING").srcEq "," = false ∧ (opTok "GROUP").srcEqUp "GROUP" = true ∧
    (opTok "BY").srcEqUp "BY" = true := by decide
theorem with_stop8 (x : List Tok) : TP2.stopLE2 d 8 (opTok "WITH" :: x) = true ∧ TP2.stopLE2 d 8 (opTok "GROUPING" :: x) = true := by
  have h : stopTok d 8 (opTok "WITH") = true ∧ stopTok d 8 (opTok "GROUPING") = true := by cases d <;> decide
  exact ⟨TP2.stop2_of x h.1 (by decide), TP2.stop2_of x h.2 (by decide)⟩
/-- what follows the keys of GROUP BY: `GROUPING SETS (…)`, `WITH CUBE`, `WITH ROLLUP`, or what follows the clause -/
theorem group_tail (sets : Option (List (List Expr))) (cube rollup : Bool) (fol : List Tok) (hb : Bd4 d 5 fol = true) :
    TP2.stopLE2 d 8 (toksSetsOpt4 d ch sets ++ (cubeT cube ++ (rollT rollup ++ fol))) = true ∧
    searchStr (toksSetsOpt4 d ch sets ++ (cubeT cube ++ (rollT rollup ++ fol))) "," = false ∧
    searchTwoUp (toksSetsOpt4 d ch sets ++ (cubeT cube ++ (rollT rollup ++ fol))) "GROUPING" "SETS" = sets.isSome ∧
    moveTwoUp (cubeT cube ++ (rollT rollup ++ fol)) "WITH" "CUBE" = (cube, rollT rollup ++ fol) ∧
    moveTwoUp (rollT rollup ++ fol) "WITH" "ROLLUP" = (rollup, fol) := by
  obtain ⟨k1, k2, k3, k4, k5, k6, k7, _, _, k10, k11, _⟩ := group_words
  have r0 : rank4 "GROUPING" = 0 := by decide
  have rw0 : rank4 "WITH" = 0 := by decide
  have f8 : TP2.stopLE2 d 8 fol = true := TP2.stopLE2_mono (bd3_stops hb) (by omega)
  have fc := bd_comma hb
  have fg := bd_search2 hb "GROUPING" "SETS" (by omega)
  have fwc := bd_search2 hb "WITH" "CUBE" (by omega)
  have fwr := bd_search2 hb "WITH" "ROLLUP" (by omega)
  cases sets <;> cases cube <;> cases rollup <;>
    simp [toksSetsOpt4, cubeT, rollT, moveTwoUp, s2cons, s0cons, (with_stop8 (d := d) _).1, (with_stop8 (d := d) _).2, k1, k2, k3, k4, k5, k6, k7,
      k10, k11, f8, fc, fg, fwc, fwr]
theorem groupBy (gb : Option GroupBy) (hg : GroupRec d ch gb) (fol : List Tok) (hb : Bd4 d 5 fol = true) :
    OkAt (fun f => pGroupBy d f (toksGroup4 d ch gb ++ fol)) (20 * sizeL (toksGroup4 d ch gb) + 6) (gb, fol) := by
  have r5 : rank4 "GROUP" = 5 := by decide
  obtain ⟨_, _, _, _, _, _, _, k8, k9, _, _, k12, k13⟩ := group_words
  cases gb with
  | none =>
    intro f hf'
    obtain ⟨g, rfl⟩ : ∃ g, f = g + 1 := ⟨f - 1, by omega⟩
    simp [toksGroup4, pGroupBy, bd_search2 hb "GROUP" "BY" (by omega)]
  | some gbv =>
    obtain ⟨cols, sets, cube, rollup⟩ := gbv
    obtain ⟨hcols, hsets, hne, hnog⟩ := hg
    obtain ⟨t8, tc, tg, tmc, tmr⟩ := group_tail (ch := ch) sets cube rollup fol hb
    have e1 : toksGroup4 d ch (some (.mk cols sets cube rollup)) =
        opTok "GROUP" :: opTok "BY" :: (toksArgs4 d ch 8 cols ++ (toksSetsOpt4 d ch sets ++ (cubeT cube ++ rollT rollup))) := by
      simp only [toksGroup4, cubeT, rollT]
    intro f hf'
    simp only [e1, sizeL_cons, sizeL_append, size_opTok] at hf'
    obtain ⟨g, rfl⟩ : ∃ g, f = g + 3 := ⟨f - 3, by omega⟩
    have hst : ∀ x, searchTwoUp (opTok "GROUP" :: opTok "BY" :: x) "GROUP" "BY" = true := by
      intro x; simp [s2cons, k12, k13]
    -- the keys
    have hcolsP : pGroupCols d (g + 2) (toksArgs4 d ch 8 cols ++ (toksSetsOpt4 d ch sets ++ (cubeT cube ++ (rollT rollup ++ fol)))) =
        .ok (cols, toksSetsOpt4 d ch sets ++ (cubeT cube ++ (rollT rollup ++ fol))) := by
      cases cols with
      | nil =>
        have := hne rfl
        unfold pGroupCols
        simp [toksArgs4, tg, this]
      | cons e es =>
        have he := hcols e (by simp)
        have hng : searchTwoUp (W4 d ch e 8 ++ (toksArgsTail4 d ch 8 es ++ (toksSetsOpt4 d ch sets ++ (cubeT cube ++ (rollT rollup ++ fol))))) "GROUPING" "SETS" = false := by
          have hno := hnog e es rfl
          obtain ⟨t, ts', hw, _⟩ := he.headW 8
          rw [hw] at hno ⊢
          have : t.srcEqUp "GROUPING" = false := by simpa [searchStrUp] using hno
          cases hx : ts' ++ (toksArgsTail4 d ch 8 es ++ (toksSetsOpt4 d ch sets ++ (cubeT cube ++ (rollT rollup ++ fol)))) with
          | nil => simp [searchTwoUp, hx]
          | cons y r => simp [searchTwoUp, hx, this]
        have h1 : pCompute d (g + 1) (W4 d ch e 8 ++ (toksArgsTail4 d ch 8 es ++ (toksSetsOpt4 d ch sets ++ (cubeT cube ++ (rollT rollup ++ fol))))) =
            .ok (e, toksArgsTail4 d ch 8 es ++ (toksSetsOpt4 d ch sets ++ (cubeT cube ++ (rollT rollup ++ fol)))) :=
          key8 e he _ (stop8_tail (keysTail_shape es) t8) (g + 1) (by simp only [toksArgs4, sizeL_append, W4] at hf' ⊢; omega)
        have h2 := computeList _ t8 tc es (fun x hx => hcols x (by simp [hx])) [e] (g + 1) (by simp only [toksArgs4, sizeL_append] at hf'; omega)
        unfold pGroupCols
        simp only [toksArgs4, List.append_assoc]
        simp only [W4] at hng h1
        simp only [hng, Bool.false_eq_true, if_false, h1]
        simpa using h2
    -- the sets
    have hsetsP : pGroupSetsOpt d (g + 2) (toksSetsOpt4 d ch sets ++ (cubeT cube ++ (rollT rollup ++ fol))) = .ok (sets, cubeT cube ++ (rollT rollup ++ fol)) := by
      cases sets with
      | none =>
        unfold pGroupSetsOpt
        simp only [toksSetsOpt4, List.nil_append] at tg ⊢
        simp [tg]
      | some l =>
        have hsp : splitBy "," (toksSets4 d ch l) [] [] = l.map (toksSet4 d ch) := by
          rw [sets_join]
          refine splitBy_join _ (fun s hs => ?_)
          simp only [List.mem_map] at hs
          obtain ⟨g0, hg0, rfl⟩ := hs
          exact (groupElem_ok g0 (hsets g0 hg0)).2
        have h2 := groupElems_ok l hsets [] g (by
          have := sizeL_joinCT_le (l.map (toksSet4 d ch))
          simp only [toksSetsOpt4, sizeL_cons, size_opTok, size_grp, sets_join, sizeL] at hf'
          omega)
        unfold pGroupSetsOpt
        simp only [tg, Option.isSome_some, if_true]
        unfold pGroupingSets
        simp only [toksSetsOpt4, List.cons_append, List.nil_append, matchSeq, k8, k9, if_true, children_grp, hsp, h2]
    show pGroupBy d (g + 3) (toksGroup4 d ch (some (.mk cols sets cube rollup)) ++ fol) = _
    unfold pGroupBy
    simp only [e1, List.cons_append, List.append_assoc, hst, Bool.not_true, Bool.false_eq_true, if_false, List.drop_succ_cons, List.drop_zero,
      hcolsP, hsetsP, tmc, tmr]

/-! ### ORDER BY / SORT BY: items with direction and NULLS FIRST / LAST -/
structure OFol (d : Gen.D) (fol : List Tok) : Prop where
  desc : searchStrUp fol "DESC" = false
  asc : searchStrUp fol "ASC" = false
  nf : searchTwoUp fol "NULLS" "FIRST" = false
  nl : searchTwoUp fol "NULLS" "LAST" = false
  stop8 : TP2.stopLE2 d 8 fol = true
theorem OFol.ofBd {k : Nat} {fol : List Tok} (h : Bd4 d k fol = true) : OFol d fol := by
  have r1 : rank4 "DESC" = 0 := by decide
  have r2 : rank4 "ASC" = 0 := by decide
  have r3 : rank4 "NULLS" = 0 := by decide
  exact ⟨bd_search h _ (by omega), bd_search h _ (by omega), bd_search2 h _ _ (by omega), bd_search2 h _ _ (by omega),
    TP2.stopLE2_mono (bd3_stops h) (by omega)⟩
theorem OFol.comma (x : List Tok) : OFol d (commaTok :: x) := by
  have o := TS.OFol.comma (d := d) x
  exact ⟨o.desc, o.asc, o.nf, o.nl, comma_stop8 x⟩
theorem OFol.tail {tl fol : List Tok} (h : tl = [] ∨ ∃ x, tl = commaTok :: x) (hf : OFol d fol) : OFol d (tl ++ fol) := by
  rcases h with rfl | ⟨x, rfl⟩
  · exact hf
  · exact OFol.comma _
theorem desc_stop8 (x : List Tok) : TP2.stopLE2 d 8 (opTok "DESC" :: x) = true := by
  have h : stopTok d 8 (opTok "DESC") = true := by cases d <;> decide
  exact TP2.stop2_of x h (by decide)
theorem nulls_stop8 (x : List Tok) : TP2.stopLE2 d 8 (opTok "NULLS" :: x) = true := by
  have h : stopTok d 8 (opTok "NULLS") = true := by cases d <;> decide
  exact TP2.stop2_of x h (by decide)
def nullsToks (nf nl : Bool) : List Tok := (if nf then [opTok "NULLS", opTok "FIRST"] else []) ++ (if nl then [opTok "NULLS", opTok "LAST"] else [])
theorem order_words : (opTok "DESC").srcEqUp "DESC" = true ∧ (opTok "NULLS").srcEqUp "DESC" = false ∧ (opTok "NULLS").srcEqUp "ASC" = false ∧
    (opTok "NULLS").srcEqUp "NULLS" = true ∧ (opTok "FIRST").srcEqUp "FIRST" = true ∧ (opTok "LAST").srcEqUp "LAST" = true ∧
    (opTok "LAST").srcEqUp "FIRST" = false ∧ (opTok "FIRST").srcEqUp "LAST" = false := by decide
/-- the tail of an order item: `[DESC] [NULLS FIRST] [NULLS LAST]`, not both NULLS phrases -/
theorem orderTail_ok (e : Expr) (desc nf nl : Bool) (hn : (nf && nl) = false) (fol : List Tok) (hf : OFol d fol) :
    orderTail e ((if desc then [opTok "DESC"] else []) ++ (nullsToks nf nl ++ fol)) = .ok (.mk e desc nf nl, fol) := by
  obtain ⟨k1, k2, k3, k4, k5, k6, k7, k8⟩ := order_words
  unfold orderTail
  cases desc <;> cases nf <;> cases nl <;> first | (cases hn; done) |
    simp [nullsToks, s1cons, s2cons, moveTwoUp, k1, k2, k3, k4, k5, k6, k7, k8, hf.desc, hf.asc, hf.nf, hf.nl]
def OrdRec (d : Gen.D) (ch : Expr → Bool) : OrderItem → Prop
  | .mk e _ nf nl => RT4 d ch e ∧ (nf && nl) = false
theorem toksOrdItem4_eq (e : Expr) (desc nf nl : Bool) :
    toksOrdItem4 d ch (.mk e desc nf nl) = W4 d ch e 8 ++ ((if desc then [opTok "DESC"] else []) ++ nullsToks nf nl) := by
  simp only [toksOrdItem4, W4, nullsToks]
theorem orderItem (o : OrderItem) (ho : OrdRec d ch o) (fol : List Tok) (hf : OFol d fol) :
    OkAt (fun f => pOrderItem d f (toksOrdItem4 d ch o ++ fol)) (20 * sizeL (toksOrdItem4 d ch o) + 3) (o, fol) := by
  obtain ⟨e, desc, nf, nl⟩ := o
  obtain ⟨he, hn⟩ := ho
  intro f hf'
  simp only [toksOrdItem4_eq, sizeL_append] at hf'
  obtain ⟨g, rfl⟩ : ∃ g, f = g + 1 := ⟨f - 1, by omega⟩
  have hs : TP2.stopLE2 d 8 ((if desc then [opTok "DESC"] else []) ++ (nullsToks nf nl ++ fol)) = true := by
    cases desc with
    | true => exact desc_stop8 _
    | false =>
      cases nf with
      | true => exact nulls_stop8 _
      | false =>
        cases nl with
        | true => exact nulls_stop8 _
        | false => exact hf.stop8
  have h1 : pCompute d g (W4 d ch e 8 ++ ((if desc then [opTok "DESC"] else []) ++ (nullsToks nf nl ++ fol))) =
      .ok (e, (if desc then [opTok "DESC"] else []) ++ (nullsToks nf nl ++ fol)) := key8 e he _ hs g (by omega)
  show pOrderItem d (g + 1) (toksOrdItem4 d ch (.mk e desc nf nl) ++ fol) = _
  unfold pOrderItem
  simp only [toksOrdItem4_eq, List.append_assoc, h1, orderTail_ok e desc nf nl hn fol hf]

theorem toksOrdTail4_cons (o : OrderItem) (os) : toksOrdTail4 d ch (o :: os) = commaTok :: (toksOrdItem4 d ch o ++ toksOrdTail4 d ch os) := by
  simp only [toksOrdTail4]
theorem ordTail_shape (os : List OrderItem) : toksOrdTail4 d ch os = [] ∨ ∃ x, toksOrdTail4 d ch os = commaTok :: x := by
  cases os with
  | nil => left; simp only [toksOrdTail4]
  | cons c cs => right; exact ⟨_, toksOrdTail4_cons c cs⟩
theorem orderList (fol : List Tok) (hf : OFol d fol) (hc : searchStr fol "," = false) :
    ∀ (os : List OrderItem), (∀ o ∈ os, OrdRec d ch o) → ∀ acc,
    OkAt (fun f => pOrderList d f acc (toksOrdTail4 d ch os ++ fol)) (20 * sizeL (toksOrdTail4 d ch os) + 4) (acc ++ os, fol) := by
  intro os
  induction os with
  | nil =>
    intro _ acc f hf'
    obtain ⟨g, rfl⟩ : ∃ g, f = g + 1 := ⟨f - 1, by omega⟩
    simp [toksOrdTail4, pOrderList, hc]
  | cons o os ih =>
    intro hos acc f hf'
    have hsz : commaTok.size = 1 := by decide
    simp only [toksOrdTail4_cons, sizeL_cons, sizeL_append, hsz] at hf'
    obtain ⟨g, rfl⟩ : ∃ g, f = g + 1 := ⟨f - 1, by omega⟩
    have h1 : pOrderItem d g (toksOrdItem4 d ch o ++ (toksOrdTail4 d ch os ++ fol)) = .ok (o, toksOrdTail4 d ch os ++ fol) :=
      orderItem o (hos o (by simp)) _ (OFol.tail (ordTail_shape os) hf) g (by omega)
    have h2 := ih (fun c' hc' => hos c' (by simp [hc'])) (acc ++ [o]) g (by omega)
    show pOrderList d (g + 1) acc (toksOrdTail4 d ch (o :: os) ++ fol) = _
    unfold pOrderList
    simp only [toksOrdTail4_cons, List.cons_append, List.append_assoc, TS.comma_search, if_true, List.drop_succ_cons, List.drop_zero, h1]
    simpa using h2
def OrderRec (d : Gen.D) (ch : Expr → Bool) : Option (List OrderItem) → Prop
  | none => True
  | some (o :: os) => OrdRec d ch o ∧ ∀ x ∈ os, OrdRec d ch x
  | some [] => False
/-- `ORDER BY` items, in front of any continuation that is no item tail, no comma, not `ORDER BY` again -/
theorem orderBy (ob : Option (List OrderItem)) (ho : OrderRec d ch ob) (fol : List Tok) (hfo : OFol d fol) (hc : searchStr fol "," = false)
    (hn : searchTwoUp fol "ORDER" "BY" = false) :
    OkAt (fun f => pOrderByOpt d f (toksOrder4 d ch ob ++ fol)) (20 * sizeL (toksOrder4 d ch ob) + 6) (ob, fol) := by
  cases ob with
  | none =>
    intro f hf'
    obtain ⟨g, rfl⟩ : ∃ g, f = g + 1 := ⟨f - 1, by omega⟩
    simp [toksOrder4, pOrderByOpt, hn]
  | some l =>
    cases l with
    | nil => exact absurd ho (by simp [OrderRec])
    | cons o os =>
      simp only [OrderRec] at ho
      intro f hf'
      simp only [toksOrder4, sizeL_cons, sizeL_append, size_opTok] at hf'
      obtain ⟨g, rfl⟩ : ∃ g, f = g + 1 := ⟨f - 1, by omega⟩
      have hst : searchTwoUp (opTok "ORDER" :: opTok "BY" :: (toksOrdItem4 d ch o ++ (toksOrdTail4 d ch os ++ fol))) "ORDER" "BY" = true := by
        have h1 : (opTok "ORDER").srcEqUp "ORDER" = true := by decide
        have h2 : (opTok "BY").srcEqUp "BY" = true := by decide
        simp [searchTwoUp, h1, h2]
      have h1 : pOrderItem d g (toksOrdItem4 d ch o ++ (toksOrdTail4 d ch os ++ fol)) = .ok (o, toksOrdTail4 d ch os ++ fol) :=
        orderItem o ho.1 _ (OFol.tail (ordTail_shape os) hfo) g (by omega)
      have h2 := orderList fol hfo hc os ho.2 [o] g (by omega)
      show pOrderByOpt d (g + 1) (toksOrder4 d ch (some (o :: os)) ++ fol) = _
      unfold pOrderByOpt
      simp only [toksOrder4, List.cons_append, List.append_assoc, hst, if_true, List.drop_succ_cons, List.drop_zero, h1]
      simp only [h2]; rfl
/-- `SORT BY` items, in front of any continuation that is no item tail, no comma, not `SORT BY` again -/
theorem sortBy (ob : Option (List OrderItem)) (ho : OrderRec d ch ob) (fol : List Tok) (hfo : OFol d fol) (hc : searchStr fol "," = false)
    (hn : searchTwoUp fol "SORT" "BY" = false) :
    OkAt (fun f => pSortBy d f (toksSort4 d ch ob ++ fol)) (20 * sizeL (toksSort4 d ch ob) + 6) (ob, fol) := by
  cases ob with
  | none =>
    intro f hf'
    obtain ⟨g, rfl⟩ : ∃ g, f = g + 1 := ⟨f - 1, by omega⟩
    simp [toksSort4, pSortBy, hn]
  | some l =>
    cases l with
    | nil => exact absurd ho (by simp [OrderRec])
    | cons o os =>
      simp only [OrderRec] at ho
      intro f hf'
      simp only [toksSort4, sizeL_cons, sizeL_append, size_opTok] at hf'
      obtain ⟨g, rfl⟩ : ∃ g, f = g + 1 := ⟨f - 1, by omega⟩
      have hst : searchTwoUp (opTok "SORT" :: opTok "BY" :: (toksOrdItem4 d ch o ++ (toksOrdTail4 d ch os ++ fol))) "SORT" "BY" = true := by
        have h1 : (opTok "SORT").srcEqUp "SORT" = true := by decide
        have h2 : (opTok "BY").srcEqUp "BY" = true := by decide
        simp [searchTwoUp, h1, h2]
      have h1 : pOrderItem d g (toksOrdItem4 d ch o ++ (toksOrdTail4 d ch os ++ fol)) = .ok (o, toksOrdTail4 d ch os ++ fol) :=
        orderItem o ho.1 _ (OFol.tail (ordTail_shape os) hfo) g (by omega)
      have h2 := orderList fol hfo hc os ho.2 [o] g (by omega)
      show pSortBy d (g + 1) (toksSort4 d ch (some (o :: os)) ++ fol) = _
      unfold pSortBy
      simp only [toksSort4, List.cons_append, List.append_assoc, hst, if_true, List.drop_succ_cons, List.drop_zero, h1]
      simp only [h2]; rfl

/-! ### DISTRIBUTE BY / CLUSTER BY -/
def ByRec (d : Gen.D) (ch : Expr → Bool) : Option (List Expr) → Prop
  | none => True
  | some (e :: es) => RT4 d ch e ∧ ∀ x ∈ es, RT4 d ch x
  | some [] => False
theorem byList (kw : String) (hk : (opTok kw).srcEqUp kw = true) (o : Option (List Expr)) (ho : ByRec d ch o) (fol : List Tok)
    (hs8 : TP2.stopLE2 d 8 fol = true) (hc : searchStr fol "," = false) (hn : searchTwoUp fol kw "BY" = false) :
    OkAt (fun f => pByList d f kw (toksBy4 d ch kw o ++ fol)) (20 * sizeL (toksBy4 d ch kw o) + 6) (o, fol) := by
  cases o with
  | none =>
    intro f hf'
    obtain ⟨g, rfl⟩ : ∃ g, f = g + 1 := ⟨f - 1, by omega⟩
    simp [toksBy4, pByList, hn]
  | some l =>
    cases l with
    | nil => exact absurd ho (by simp [ByRec])
    | cons e es =>
      simp only [ByRec] at ho
      have e1 : toksBy4 d ch kw (some (e :: es)) = opTok kw :: opTok "BY" :: (W4 d ch e 8 ++ toksArgsTail4 d ch 8 es) := by
        simp only [toksBy4, W4]
      intro f hf'
      simp only [e1, sizeL_cons, sizeL_append, size_opTok] at hf'
      obtain ⟨g, rfl⟩ : ∃ g, f = g + 1 := ⟨f - 1, by omega⟩
      have hst : searchTwoUp (opTok kw :: opTok "BY" :: (W4 d ch e 8 ++ (toksArgsTail4 d ch 8 es ++ fol))) kw "BY" = true := by
        have h2 : (opTok "BY").srcEqUp "BY" = true := by decide
        simp [searchTwoUp, hk, h2]
      have h1 : pCompute d g (W4 d ch e 8 ++ (toksArgsTail4 d ch 8 es ++ fol)) = .ok (e, toksArgsTail4 d ch 8 es ++ fol) :=
        key8 e ho.1 _ (stop8_tail (keysTail_shape es) hs8) g (by omega)
      have h2 := computeList fol hs8 hc es ho.2 [e] g (by omega)
      show pByList d (g + 1) kw (toksBy4 d ch kw (some (e :: es)) ++ fol) = _
      unfold pByList
      simp only [e1, List.cons_append, List.append_assoc, hst, if_true, List.drop_succ_cons, List.drop_zero, h1]
      simp only [h2]; rfl

/-! ### LATERAL VIEW -/
theorem aliasTail_len (as : List String) : (aliasTail as).length = 2 * as.length := by
  induction as with
  | nil => rfl
  | cons a r ih => simp only [aliasTail, List.length_cons, ih]; omega
theorem nm2_alias {a : String} (h : nm2OK (qTok a) a = true) (x : List Tok) : getAliasName (qTok a :: x) = .ok (a, x) := by
  simp only [nm2OK, Bool.and_eq_true, beq_iff_eq] at h
  simp [getAliasName, h.1.1, h.1.2]
theorem multiAlias_ok (fol : List Tok) (hc : searchStr fol "," = false) : ∀ (as : List String), (∀ x ∈ as, nm2OK (qTok x) x = true) → ∀ acc f,
    as.length + 1 ≤ f → multiAliasLoop f acc (aliasTail as ++ fol) = .ok (acc ++ as, fol) := by
  intro as
  induction as with
  | nil =>
    intro _ acc f hf
    obtain ⟨g, rfl⟩ : ∃ g, f = g + 1 := ⟨f - 1, by omega⟩
    simp [aliasTail, multiAliasLoop, hc]
  | cons a r ih =>
    intro has acc f hf
    simp only [List.length_cons] at hf
    obtain ⟨g, rfl⟩ : ∃ g, f = g + 1 := ⟨f - 1, by omega⟩
    have hcs : searchStr (TP2.commaTok :: qTok a :: (aliasTail r ++ fol)) "," = true := by
      have : TP2.commaTok.srcEq "," = true := by decide
      simpa [searchStr] using this
    have h2 := ih (fun x hx => has x (by simp [hx])) (acc ++ [a]) g (by omega)
    unfold multiAliasLoop
    simp only [aliasTail, List.cons_append, hcs, if_true, List.drop_succ_cons, List.drop_zero, nm2_alias (has a (by simp))]
    simpa using h2
def LatRec (d : Gen.D) (ch : Expr → Bool) : Lateral → Prop
  | .mk _ fn _ as => (∃ n ps, fn = .func none n ps ∧ fnOK d none n = true ∧ (qTok n).srcEqUp "OUTER" = false ∧ ∀ a ∈ ps, RT4 d ch a) ∧
      aliasesOK as = true
theorem lat_words : (opTok "LATERAL").equalsStr "LATERAL" = true ∧ (opTok "VIEW").equalsStr "VIEW" = true ∧ (opTok "OUTER").srcEqUp "OUTER" = true ∧
    (opTok "AS").equalsStr "AS" = true ∧ (opTok "LATERAL").srcEqUp "LATERAL" = true ∧ (opTok "VIEW").srcEqUp "VIEW" = true ∧
    (opTok "LATERAL").srcEq "," = false := by decide
theorem lateral (l : Lateral) (hl : LatRec d ch l) (fol : List Tok) (hc : searchStr fol "," = false) :
    OkAt (fun f => pLateral d f (toksLat4 d ch l ++ fol)) (20 * sizeL (toksLat4 d ch l) + 4) (l, fol) := by
  obtain ⟨o, fn, v, as⟩ := l
  obtain ⟨⟨n, ps, rfl, hfn, hno, hps⟩, has⟩ := hl
  obtain ⟨k1, k2, k3, k4, _⟩ := lat_words
  cases as with
  | nil => simp [aliasesOK] at has
  | cons a r =>
    simp only [aliasesOK, List.all_eq_true] at has
    intro f hf'
    simp only [toksLat4, toksE4, List.nil_append, sizeL_cons, sizeL_append, size_opTok, size_grp, sizeL] at hf'
    obtain ⟨g, rfl⟩ : ∃ g, f = g + 1 := ⟨f - 1, by omega⟩
    have h1 : pFunc d g (qTok n :: grp (toksArgs4 d ch 14 ps) :: (opTok v :: opTok "AS" :: (aliasList (a :: r) ++ fol))) =
        .ok (.func none n ps, opTok v :: opTok "AS" :: (aliasList (a :: r) ++ fol)) :=
      plainFunc_ok n ps hfn hps _ g (by cases o <;> simp only [sizeL, if_true, if_false, Bool.false_eq_true, size_opTok] at hf' <;> omega)
    have hm : moveStrUp ((if o then [opTok "OUTER"] else []) ++ (qTok n :: grp (toksArgs4 d ch 14 ps) :: (opTok v :: opTok "AS" :: (aliasList (a :: r) ++ fol)))) "OUTER" =
        (o, qTok n :: grp (toksArgs4 d ch 14 ps) :: (opTok v :: opTok "AS" :: (aliasList (a :: r) ++ fol))) := by
      cases o <;> simp [moveStrUp, searchStrUp, k3, hno]
    have h3 := multiAlias_ok fol hc r (fun x hx => has x (by simp [hx])) [a] ((aliasTail r ++ fol).length + 1)
      (by simp only [List.length_append, aliasTail_len]; omega)
    have ea : aliasList (a :: r) = qTok a :: aliasTail r := rfl
    rw [ea] at hm h1
    simp only [List.cons_append] at hm h1
    show pLateral d (g + 1) (toksLat4 d ch (.mk o (.func none n ps) v (a :: r)) ++ fol) = _
    unfold pLateral
    simp only [toksLat4, toksE4, List.nil_append, List.cons_append, List.append_assoc, matchSeq, k1, k2, if_true, ea, hm, h1, popSrc, src_opTok,
      pMultiAlias, matchKw, k4, nm2_alias (has a (by simp)), h3]
theorem lats_shape (ls : List Lateral) : toksLats4 d ch ls = [] ∨ ∃ x, toksLats4 d ch ls = opTok "LATERAL" :: opTok "VIEW" :: x := by
  cases ls with
  | nil => left; simp only [toksLats4]
  | cons l r => obtain ⟨o, fn, v, as⟩ := l; right; exact ⟨_, by simp only [toksLats4, toksLat4, List.cons_append]; rfl⟩
theorem lateral_bd : bdTok4 d 1 (opTok "LATERAL") = true := by cases d <;> decide
/-- what follows FROM when LATERAL VIEWs follow -/
theorem lats_bd (ls : List Lateral) (fol : List Tok) (hb : Bd4 d 2 fol = true) : Bd4 d 1 (toksLats4 d ch ls ++ fol) = true := by
  rcases lats_shape (d := d) (ch := ch) ls with h | ⟨x, h⟩
  · rw [h]; exact bd3_mono hb (by omega)
  · rw [h]; exact bd3_of _ lateral_bd
theorem sizeL_lat_pos (l : Lateral) : 1 ≤ sizeL (toksLat4 d ch l) := by
  obtain ⟨o, fn, v, as⟩ := l
  simp only [toksLat4, sizeL_cons, size_opTok]; omega
theorem laterals (fol : List Tok) (hb : Bd4 d 2 fol = true) :
    ∀ (ls : List Lateral), (∀ l ∈ ls, LatRec d ch l) → ∀ acc,
    OkAt (fun f => pLaterals d f true [] acc (toksLats4 d ch ls ++ fol)) (20 * sizeL (toksLats4 d ch ls) + 6) (acc ++ ls, fol) := by
  obtain ⟨_, _, _, _, k5, k6, k7⟩ := lat_words
  have rL : rank4 "LATERAL" = 2 := by decide
  intro ls
  induction ls with
  | nil =>
    intro _ acc f hf'
    obtain ⟨g, rfl⟩ : ∃ g, f = g + 1 := ⟨f - 1, by omega⟩
    simp [toksLats4, pLaterals, bd_search2 hb "LATERAL" "VIEW" (by omega)]
  | cons l ls ih =>
    intro hls acc f hf'
    simp only [toksLats4, sizeL_append] at hf'
    obtain ⟨g, rfl⟩ : ∃ g, f = g + 1 := ⟨f - 1, by omega⟩
    have hc : searchStr (toksLats4 d ch ls ++ fol) "," = false := by
      rcases lats_shape (d := d) (ch := ch) ls with h | ⟨x, h⟩
      · rw [h]; exact bd_comma hb
      · rw [h]; simpa [searchStr] using k7
    have h1 : pLateral d g (toksLat4 d ch l ++ (toksLats4 d ch ls ++ fol)) = .ok (l, toksLats4 d ch ls ++ fol) :=
      lateral l (hls l (by simp)) _ hc g (by omega)
    have h2 := ih (fun l' hl' => hls l' (by simp [hl'])) (acc ++ [l]) g (by have := sizeL_lat_pos (d := d) (ch := ch) l; omega)
    have hh : searchTwoUp (toksLat4 d ch l ++ (toksLats4 d ch ls ++ fol)) "LATERAL" "VIEW" = true := by
      obtain ⟨o, fn, v, as⟩ := l
      simp [toksLat4, searchTwoUp, k5, k6]
    show pLaterals d (g + 1) true [] acc (toksLats4 d ch (l :: ls) ++ fol) = _
    unfold pLaterals
    simp only [toksLats4, List.append_assoc, if_true, hh, h1]
    simpa using h2

end TQ2
