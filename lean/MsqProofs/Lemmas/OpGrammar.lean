import MsqProofs.Lemmas.SR
/-!
# An operator grammar over opaque operands is unambiguous

Abstract form of "the table, left associativity and the position of the operands dictate the tree".  Items are opaque operands
(`atom`) and operator tokens (`op`); a token may be a binary operator of some level (`binL`), a prefix operator of some level
(`preL`), or both (`-`).  `G L items x`: the item list is an expression of level at most `L` with the tree `x` —

    leaf                                   an operand
    pre   t : p,  operand : p              prefix operator of level p (NOT; the unary signs)
    bin   left : k,  t : k,  right : k-1   binary operator of level k, left associative

`unique`: `G L items x → G L' items y → x = y` — provided no binary level equals a prefix level (true of the documented table:
binary 2 … 8, 10, 12, 13, 14; prefix 1 and 11).  The role of a token (prefix or binary) is determined by its position
(`ann`: a scan of the items), the root by the last binary-role operator of maximal level (`SR.T.split_unique`).
-/
namespace OPG

inductive Item (α τ : Type) where
  | atom (a : α)
  | op (t : τ)

inductive Tr (α τ : Type) where
  | leaf (a : α)
  | pre (t : τ) (x : Tr α τ)
  | bin (l : Tr α τ) (t : τ) (r : Tr α τ)

/-- the operator table -/
structure Sig (τ : Type) where
  binL : τ → Option Nat
  preL : τ → Option Nat
  bin_pos : ∀ {t k}, binL t = some k → 1 ≤ k
  apart : ∀ {t t' k p}, binL t = some k → preL t' = some p → k ≠ p

variable {α τ : Type}

inductive G (S : Sig τ) : Nat → List (Item α τ) → Tr α τ → Prop
  | leaf {L : Nat} {a : α} : G S L [.atom a] (.leaf a)
  | up {L L' : Nat} {is : List (Item α τ)} {x : Tr α τ} : G S L is x → L ≤ L' → G S L' is x
  | pre {p : Nat} {t : τ} {r : List (Item α τ)} {x : Tr α τ} : S.preL t = some p → G S p r x → G S p (.op t :: r) (.pre t x)
  | bin {k : Nat} {t : τ} {l r : List (Item α τ)} {a b : Tr α τ} :
      S.binL t = some k → G S k l a → G S (k - 1) r b → G S k (l ++ .op t :: r) (.bin a t b)

/-- scan state after the items: `false` = an operand is expected, `true` = an operator is expected -/
def st : Bool → List (Item α τ) → Bool
  | s, [] => s
  | _, .atom _ :: r => st true r
  | _, .op _ :: r => st false r
/-- the items with their role: `true` = operator token in BINARY position -/
def ann : Bool → List (Item α τ) → List (Item α τ × Bool)
  | _, [] => []
  | _, .atom a :: r => (.atom a, false) :: ann true r
  | s, .op t :: r => (.op t, s) :: ann false r

theorem st_append (s : Bool) (a b : List (Item α τ)) : st s (a ++ b) = st (st s a) b := by
  induction a generalizing s with
  | nil => rfl
  | cons i a ih => cases i <;> simp [st, ih]
theorem ann_append (s : Bool) (a b : List (Item α τ)) : ann s (a ++ b) = ann s a ++ ann (st s a) b := by
  induction a generalizing s with
  | nil => rfl
  | cons i a ih => cases i <;> simp [st, ann, ih]
theorem ann_fst (s : Bool) (a : List (Item α τ)) : (ann s a).map Prod.fst = a := by
  induction a generalizing s with
  | nil => rfl
  | cons i a ih => cases i <;> simp [ann, ih]

variable {S : Sig τ}

theorem G.ne_nil {L : Nat} {is : List (Item α τ)} {x : Tr α τ} (h : G S L is x) : is ≠ [] := by
  induction h with
  | leaf => simp
  | up _ _ ih => exact ih
  | pre _ _ _ => simp
  | bin _ _ _ _ _ => simp

/-- after a derivable item list an operator is expected -/
theorem G.st_true {L : Nat} {is : List (Item α τ)} {x : Tr α τ} (h : G S L is x) : st false is = true := by
  induction h with
  | leaf => rfl
  | up _ _ ih => exact ih
  | pre _ _ ih => simpa [st] using ih
  | bin _ _ _ ih1 ih2 => rw [st_append, ih1]; simpa [st] using ih2

/-- level of an annotated item: the binary level of a token in binary position, 0 otherwise -/
def lv (S : Sig τ) : Item α τ × Bool → Nat
  | (.op t, true) => (S.binL t).getD 0
  | _ => 0

theorem ann_bin {k : Nat} {l r : List (Item α τ)} {a : Tr α τ} {t : τ} (hl : G S k l a) :
    ann false (l ++ .op t :: r) = ann false l ++ (.op t, true) :: ann false r := by
  rw [ann_append, hl.st_true]; rfl

/-- every operator in binary position has a level within the level of the derivation -/
theorem G.lv_le {L : Nat} {is : List (Item α τ)} {x : Tr α τ} (h : G S L is x) : ∀ p ∈ ann false is, lv S p ≤ L := by
  induction h with
  | leaf => intro p hp; simp [ann] at hp; subst hp; simp [lv]
  | up _ hl ih => intro p hp; exact Nat.le_trans (ih p hp) hl
  | pre _ _ ih =>
    intro p hp
    simp only [ann, List.mem_cons] at hp
    rcases hp with rfl | hp
    · simp [lv]
    · exact ih p hp
  | @bin k t l r a b hb h1 h2 ih1 ih2 =>
    intro p hp
    rw [ann_bin h1] at hp
    simp only [List.mem_append, List.mem_cons] at hp
    rcases hp with hp | rfl | hp
    · exact ih1 p hp
    · simp [lv, hb]
    · have := ih2 p hp; omega

/-- a derivable item list that starts with an operator token starts with a PREFIX operator of a level within the derivation's -/
theorem G.head_op {L : Nat} {is : List (Item α τ)} {x : Tr α τ} (h : G S L is x) :
    ∀ t r0, is = .op t :: r0 → ∃ p, S.preL t = some p ∧ p ≤ L := by
  induction h with
  | leaf => intro t r0 h; simp at h
  | up _ hl ih => intro t r0 h; obtain ⟨p, h1, h2⟩ := ih t r0 h; exact ⟨p, h1, by omega⟩
  | @pre p t r x hp _ _ => intro t' r0 h; simp only [List.cons.injEq, Item.op.injEq] at h; exact ⟨p, h.1 ▸ hp, Nat.le_refl _⟩
  | @bin k t l r a b hb h1 h2 ih1 ih2 =>
    intro t' r0 h
    cases l with
    | nil => exact absurd rfl h1.ne_nil
    | cons i l0 =>
      simp only [List.cons_append, List.cons.injEq] at h
      exact ih1 t' l0 (by rw [h.1])

/-- the root production of a derivation (`up` peeled off) -/
theorem G.root {L : Nat} {is : List (Item α τ)} {x : Tr α τ} (h : G S L is x) :
    (∃ a, is = [.atom a] ∧ x = .leaf a) ∨
    (∃ t p r x0, S.preL t = some p ∧ p ≤ L ∧ is = .op t :: r ∧ x = .pre t x0 ∧ G S p r x0) ∨
    (∃ t k l r a b, S.binL t = some k ∧ k ≤ L ∧ is = l ++ .op t :: r ∧ x = .bin a t b ∧ G S k l a ∧ G S (k - 1) r b) := by
  induction h with
  | leaf => exact .inl ⟨_, rfl, rfl⟩
  | up _ hl ih =>
    rcases ih with h | ⟨t, p, r, x0, h1, h2, h3⟩ | ⟨t, k, l, r, a, b, h1, h2, h3⟩
    · exact .inl h
    · exact .inr (.inl ⟨t, p, r, x0, h1, by omega, h3⟩)
    · exact .inr (.inr ⟨t, k, l, r, a, b, h1, by omega, h3⟩)
  | pre hp h _ => exact .inr (.inl ⟨_, _, _, _, hp, Nat.le_refl _, rfl, rfl, h⟩)
  | bin hb h1 h2 _ _ => exact .inr (.inr ⟨_, _, _, _, _, _, hb, Nat.le_refl _, rfl, rfl, h1, h2⟩)

theorem mem_op_of_split {is l r : List (Item α τ)} {t : τ} (h : is = l ++ .op t :: r) : Item.op t ∈ is := by
  rw [h]; simp

/-- **the grammar is unambiguous**: the item list determines the tree, whatever the levels asked for -/
theorem unique : ∀ (n : Nat) (is : List (Item α τ)), is.length ≤ n → ∀ {L L' : Nat} {x y : Tr α τ}, G S L is x → G S L' is y → x = y := by
  intro n
  induction n with
  | zero => intro is hn L L' x y hx; exact absurd (List.length_eq_zero_iff.mp (by omega)) hx.ne_nil
  | succ n ih =>
    intro is hn L L' x y hx hy
    rcases hx.root with ⟨a, e1, rfl⟩ | ⟨t, p, r, x0, hp, hpl, e1, rfl, hx0⟩ | ⟨t, k, l, r, a, b, hb, hkl, e1, rfl, ha, hb2⟩
    · -- leaf
      rcases hy.root with ⟨a', e2, rfl⟩ | ⟨t, p, r, x0, _, _, e2, _⟩ | ⟨t, k, l, r, a', b, _, _, e2, _⟩
      · rw [e1] at e2; simp only [List.cons.injEq, Item.atom.injEq, and_true] at e2; rw [e2]
      · rw [e1] at e2; simp at e2
      · have := mem_op_of_split e2; rw [e1] at this; simp at this
    · -- prefix
      rcases hy.root with ⟨a', e2, rfl⟩ | ⟨t', p', r', y0, hp', _, e2, rfl, hy0⟩ | ⟨t', k, l, r', a', b, hb, _, e2, rfl, ha, hb2⟩
      · rw [e1] at e2; simp at e2
      · rw [e1] at e2
        simp only [List.cons.injEq, Item.op.injEq] at e2
        obtain ⟨rfl, rfl⟩ := e2
        have hpp : p = p' := by rw [hp] at hp'; exact Option.some.inj hp'
        subst hpp
        have : r.length ≤ n := by rw [e1] at hn; simp at hn; omega
        rw [ih r this hx0 hy0]
      · exfalso
        -- `t'` is in binary position inside `r`, so `k ≤ p`; the left operand starts with the prefix `t`, so `p ≤ k`
        have hl : l ≠ [] := ha.ne_nil
        cases l with
        | nil => exact hl rfl
        | cons i l0 =>
          rw [e1] at e2
          simp only [List.cons_append, List.cons.injEq] at e2
          obtain ⟨rfl, e3⟩ := e2
          obtain ⟨p2, hp2, hle⟩ := ha.head_op t l0 rfl
          rw [hp] at hp2
          have hpe : p = p2 := Option.some.inj hp2
          subst hpe
          have hmem : (Item.op t', true) ∈ ann false (Item.op t :: l0 ++ Item.op t' :: r') := by
            rw [ann_bin ha]; simp
          have hmem2 : (Item.op t', true) ∈ ann false r := by
            rw [List.cons_append, ← e3] at hmem
            simpa [ann] using hmem
          have := hx0.lv_le _ hmem2
          simp only [lv, hb, Option.getD_some] at this
          exact S.apart hb hp (by omega)
    · -- binary
      rcases hy.root with ⟨a', e2, rfl⟩ | ⟨t', p', r', y0, hp', _, e2, rfl, hy0⟩ | ⟨t', k', l', r', a', b', hb', _, e2, rfl, ha', hb2'⟩
      · have := mem_op_of_split e1; rw [e2] at this; simp at this
      · exfalso
        have hl : l ≠ [] := ha.ne_nil
        cases l with
        | nil => exact hl rfl
        | cons i l0 =>
          rw [e2] at e1
          simp only [List.cons_append, List.cons.injEq] at e1
          obtain ⟨rfl, e3⟩ := e1
          obtain ⟨p2, hp2, hle⟩ := ha.head_op t' l0 rfl
          rw [hp'] at hp2
          have hpe : p' = p2 := Option.some.inj hp2
          subst hpe
          have hmem : (Item.op t, true) ∈ ann false (Item.op t' :: l0 ++ Item.op t :: r) := by
            rw [ann_bin ha]; simp
          have hmem2 : (Item.op t, true) ∈ ann false r' := by
            rw [List.cons_append, ← e3] at hmem
            simpa [ann] using hmem
          have := hy0.lv_le _ hmem2
          simp only [lv, hb, Option.getD_some] at this
          exact S.apart hb hp' (by omega)
      · have hk := S.bin_pos hb
        have hk' := S.bin_pos hb'
        have e : ann false l ++ (Item.op t, true) :: ann false r = ann false l' ++ (Item.op t', true) :: ann false r' := by
          rw [← ann_bin ha, ← ann_bin ha', ← e1, ← e2]
        have hlv : lv S ((Item.op t, true) : Item α τ × Bool) = k := by simp [lv, hb]
        have hlv' : lv S ((Item.op t', true) : Item α τ × Bool) = k' := by simp [lv, hb']
        obtain ⟨el, em, er⟩ := SR.T.split_unique (lv S) _ _ _ _ _ _ e
          (fun p hp => by rw [hlv]; exact ha.lv_le p hp)
          (fun p hp => by rw [hlv]; have := hb2.lv_le p hp; omega)
          (fun p hp => by rw [hlv']; exact ha'.lv_le p hp)
          (fun p hp => by rw [hlv']; have := hb2'.lv_le p hp; omega)
        have el2 : l = l' := by rw [← ann_fst false l, el, ann_fst]
        have er2 : r = r' := by rw [← ann_fst false r, er, ann_fst]
        simp only [Prod.mk.injEq, Item.op.injEq, and_true] at em
        subst el2; subst er2; subst em
        have hkk : k = k' := by rw [hb] at hb'; exact Option.some.inj hb'
        subst hkk
        have h1 : l.length ≤ n := by rw [e1] at hn; simp at hn; omega
        have h2 : r.length ≤ n := by rw [e1] at hn; simp at hn; omega
        rw [ih l h1 ha ha', ih r h2 hb2 hb2']

/-- **unambiguity**, plain form -/
theorem G.unique {L L' : Nat} {is : List (Item α τ)} {x y : Tr α τ} (hx : G S L is x) (hy : G S L' is y) : x = y :=
  OPG.unique is.length is (Nat.le_refl _) hx hy


/-! ### the tree-level form: well-nested operator trees

`x.WN`: at every binary node of level `k` the left operand has level ≤ k, the right operand level < k (left associativity); under a
prefix operator of level `p` the operand has level ≤ p; an operand (`leaf`) has level 0 — whatever it is (a bracket group, a call …).
`G L x.flat x ↔ x.WN ∧ x.lvl ≤ L`, hence a well-nested tree is THE well-nested tree over its items (`WN_unique`). -/
def Tr.flat : Tr α τ → List (Item α τ)
  | .leaf a => [.atom a]
  | .pre t x => .op t :: x.flat
  | .bin l t r => l.flat ++ .op t :: r.flat
def Tr.lvl (S : Sig τ) : Tr α τ → Nat
  | .leaf _ => 0
  | .pre t _ => (S.preL t).getD 0
  | .bin _ t _ => (S.binL t).getD 0
def Tr.WN (S : Sig τ) : Tr α τ → Prop
  | .leaf _ => True
  | .pre t x => (S.preL t).isSome ∧ x.WN S ∧ x.lvl S ≤ (S.preL t).getD 0
  | .bin l t r => (S.binL t).isSome ∧ l.WN S ∧ r.WN S ∧ l.lvl S ≤ (S.binL t).getD 0 ∧ r.lvl S < (S.binL t).getD 0

theorem G.flat_eq {L : Nat} {is : List (Item α τ)} {x : Tr α τ} (h : G S L is x) : x.flat = is := by
  induction h with
  | leaf => rfl
  | up _ _ ih => exact ih
  | pre _ _ ih => simp [Tr.flat, ih]
  | bin _ _ _ ih1 ih2 => simp [Tr.flat, ih1, ih2]
theorem G.lvl_le_level {L : Nat} {is : List (Item α τ)} {x : Tr α τ} (h : G S L is x) : x.lvl S ≤ L := by
  induction h with
  | leaf => simp [Tr.lvl]
  | up _ hl ih => omega
  | pre hp _ _ => simp [Tr.lvl, hp]
  | bin hb _ _ _ _ => simp [Tr.lvl, hb]
/-- what the grammar derives is well nested -/
theorem G.wn {L : Nat} {is : List (Item α τ)} {x : Tr α τ} (h : G S L is x) : x.WN S := by
  induction h with
  | leaf => trivial
  | up _ _ ih => exact ih
  | pre hp h ih => exact ⟨by simp [hp], ih, by simpa [hp] using h.lvl_le_level⟩
  | bin hb h1 h2 ih1 ih2 =>
    have := S.bin_pos hb
    exact ⟨by simp [hb], ih1, ih2, by simpa [hb] using h1.lvl_le_level, by have := h2.lvl_le_level; simp [hb]; omega⟩
/-- and every well-nested tree is derived, at its own level, from its items -/
theorem G.of_wn : ∀ (x : Tr α τ), x.WN S → G S (x.lvl S) x.flat x
  | .leaf _, _ => .leaf
  | .pre t x, h => by
    obtain ⟨hp, hx, hl⟩ := h
    obtain ⟨p, hp⟩ := Option.isSome_iff_exists.mp hp
    simp only [hp, Option.getD_some] at hl
    simpa [Tr.lvl, Tr.flat, hp] using G.pre hp ((G.of_wn x hx).up hl)
  | .bin l t r, h => by
    obtain ⟨hb, hl, hr, h1, h2⟩ := h
    obtain ⟨k, hb⟩ := Option.isSome_iff_exists.mp hb
    simp only [hb, Option.getD_some] at h1 h2
    simpa [Tr.lvl, Tr.flat, hb] using G.bin hb ((G.of_wn l hl).up h1) ((G.of_wn r hr).up (by omega))

/-- **a well-nested tree is THE well-nested tree over its items** (`SR.T.WN_unique` with prefix operators, all levels) -/
theorem WN_unique {x y : Tr α τ} (hx : x.WN S) (hy : y.WN S) (h : x.flat = y.flat) : x = y :=
  (G.of_wn x hx).unique (h ▸ G.of_wn y hy)

end OPG
