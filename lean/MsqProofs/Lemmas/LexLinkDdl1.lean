import MsqProofs.Lemmas.LexLinkDdl0
/-!
# The lexer link for CREATE TABLE: the `List Char` mirror of the two printers, the leaf payloads, and the link in context

* `defColL d c`, `indexL i`, `fkL k`, `createL d c` — what `PR.prDefCol`, `PR.prIndex`, `PR.prForeignKey`, `PR.prCreateMysql` (`d = MYSQL`) and
  `PR.prCreateHive` (otherwise) write, as character lists: a first piece and blank-separated further pieces (`tailL`), optional pieces
  as empty lists, the column list on lines of its own with a two-blank indentation;
* `LeafC d c` — what the link needs of the payloads of a table definition;
* `lx_create` — **the link, in context**: `Lx (createL d c) (toksCreate d c)`.
-/
set_option linter.unusedVariables false
set_option linter.unusedSimpArgs false
namespace LD
open Lex Spec C05 C06 C09 Ast TP TS TD LexLink

/-! ## text pieces -/

abbrev P := List (List Char)
def wordsP (ws : List String) : P := ws.map String.toList
def flagP (b : Bool) (ws : List String) : P := if b then wordsP ws else []
/-- `KW … s` -/
def srcP (kws : List String) : Option String → P
  | some s => wordsP kws ++ [s.toList]
  | none => []
def bqL (n : String) : List Char := '`' :: (n.toList ++ ['`'])
def parenL (a : List Char) : List Char := '(' :: (a ++ [')'])

section
variable (d : Gen.D)

def typeL (t : ColType) : List Char :=
  match t.params with
  | none => t.name.toList
  | some ps => if hiveDrops d t then t.name.toList else t.name.toList ++ parenL (joinLL [','] (ps.map (keyL d)))
def genP : Option GenCol → P
  | some ⟨e, some m⟩ => wordsP ["GENERATED", "ALWAYS", "AS"] ++ [parenL (keyL d e), m.toList]
  | _ => []
def dfltP : Option Expr → P
  | some e => ["DEFAULT".toList, keyL d e]
  | none => []
def onUpP : Option Expr → P
  | some e => ["ON".toList, "UPDATE".toList, keyL d e]
  | none => []
def myAttrsP (c : DefCol) (tail : P) : P :=
  flagP c.unsigned ["UNSIGNED"] ++ (flagP c.zerofill ["ZEROFILL"] ++ (srcP ["CHARACTER", "SET"] c.charset ++ (srcP ["COLLATE"] c.collate ++
    (genP d c.generated ++ (flagP c.allowNull ["NULL"] ++ (flagP c.notNull ["NOT", "NULL"] ++ (flagP c.autoInc ["AUTO_INCREMENT"] ++
      (dfltP d c.default ++ (onUpP d c.onUpdate ++ tail)))))))))
def attrsP (c : DefCol) : P := if d == .MYSQL then myAttrsP d c (srcP ["COMMENT"] c.comment) else srcP ["COMMENT"] c.comment
/-- `PR.prDefCol d c` -/
def defColL (c : DefCol) : List Char := bqL c.name ++ tailL (typeL d c.type :: attrsP d c)
end

def idxColL (c : IndexCol) : List Char :=
  match c.maxLen with | none => bqL c.name | some n => bqL c.name ++ parenL (toString n).toList
def kindL : IndexKind → List Char
  | .primary => "PRIMARY KEY".toList | .unique => "UNIQUE KEY".toList | .normal => "KEY".toList | .fulltext => "FULLTEXT KEY".toList
def optIntP (kw : String) : Option Int → P
  | some n => [kw.toList ++ '=' :: (toString n).toList]
  | none => []
def idxNameP : Option String → P
  | some n => [n.toList]
  | none => []
/-- `PR.prIndex i` -/
def indexL (i : Index) : List Char :=
  kindL i.kind ++ tailL (idxNameP i.name ++ (parenL (joinLL [','] (i.cols.map idxColL)) ::
    (srcP ["USING"] i.usingMethod ++ (srcP ["COMMENT"] i.comment ++ optIntP "KEY_BLOCK_SIZE" i.keyBlockSize))))
def actP (b : String) : Option String → P
  | some s => ["ON".toList, b.toList, s.toList]
  | none => []
def namesL (ns : List String) : List Char := parenL (joinLL [',', ' '] (ns.map String.toList))
/-- `PR.prForeignKey k` -/
def fkL (k : ForeignKey) : List Char :=
  "CONSTRAINT".toList ++ tailL (k.constraint.toList :: "FOREIGN".toList :: "KEY".toList :: namesL k.slave :: "REFERENCES".toList ::
    k.master.toList :: namesL k.masterCols :: (actP "DELETE" k.onDelete ++ actP "UPDATE" k.onUpdate))

/-- `[KW …] KW=s` -/
def optEqP (pre : List String) (kw : String) : Option String → P
  | some s => wordsP pre ++ [kw.toList ++ '=' :: s.toList]
  | none => []
def myOptsP (c : CreateTable) : P :=
  optEqP [] "ENGINE" c.engine ++ (optIntP "AUTO_INCREMENT" c.autoIncrement ++ (optEqP ["DEFAULT"] "CHARSET" c.defaultCharset ++
    (optEqP [] "COLLATE" c.collate ++ (optEqP [] "ROW_FORMAT" c.rowFormat ++ (optEqP [] "STATS_PERSISTENT" c.statesPersistent ++
      optEqP [] "COMMENT" c.comment)))))
def propL (p : ConfigStr) : List Char := p.name.toList ++ '=' :: p.value.toList

section
variable (d : Gen.D)
def partP (ps : List DefCol) : P :=
  if ps.isEmpty then [] else ["PARTITIONED".toList, "BY".toList, parenL (joinLL [',', ' '] (ps.map (defColL d)))]
def propsP (ps : List ConfigStr) : P :=
  if ps.isEmpty then [] else ["TBLPROPERTIES".toList, parenL (joinLL [',', ' '] (ps.map propL))]
def hiveOptsP (c : CreateTable) : P :=
  srcP ["COMMENT"] c.comment ++ (partP d c.partitionedBy ++ (srcP ["ROW", "FORMAT", "SERDE"] c.rowFormatSerde ++
    (srcP ["ROW", "FORMAT", "DELIMITED", "FIELDS", "TERMINATED", "BY"] c.rowFormatDelimited ++
      (srcP ["STORED", "AS", "INPUTFORMAT"] c.storedAsInputformat ++ (flagP c.storedAsTextfile ["STORED", "AS", "TEXTFILE"] ++
        (srcP ["OUTPUTFORMAT"] c.outputformat ++ (srcP ["LOCATION"] c.location ++ propsP c.tblproperties)))))))
/-- the lines inside the bracket -/
def linesL (c : CreateTable) : P :=
  c.columns.map (defColL d) ++
    (if d == .MYSQL then
      (optList c.primaryKey).map indexL ++ (c.uniqueKey.map indexL ++ (c.key.map indexL ++ (c.fulltextKey.map indexL ++ c.foreignKey.map fkL)))
     else [])
/-- the bracket: a line break, the lines each indented by two blanks and joined by `,` + line break, a line break -/
def groupL (ls : P) : List Char := parenL ('\n' :: (joinLL [',', '\n'] (ls.map fun l => ' ' :: ' ' :: l) ++ ['\n']))
def tblL (t : TableName) : List Char := bqL (tblStr t)
/-- **the text of CREATE TABLE**: `PR.prCreateMysql c` for `d = MYSQL`, `PR.prCreateHive c` otherwise (leading blank, the bracket glued
to the table name) -/
def createL (c : CreateTable) : List Char :=
  if d == .MYSQL then
    "CREATE".toList ++ tailL ("TABLE".toList :: (flagP c.ifNotExists ["IF", "NOT", "EXISTS"] ++ ([tblL c.table, groupL (linesL d c)] ++ myOptsP c)))
  else
    ' ' :: ("CREATE".toList ++ tailL ("TABLE".toList :: (flagP c.ifNotExists ["IF", "NOT", "EXISTS"] ++
      ([tblL c.table ++ groupL (linesL d c)] ++ hiveOptsP d c))))
end

/-! ## the leaf payloads -/

def optNameLex : Option String → Prop
  | none => True
  | some s => nameLex s
section
variable (d : Gen.D)
/-- a type: its name a plain word, its parameters with lexable leaves -/
def LeafType (t : ColType) : Prop := plainL t.name.toList = true ∧ ∀ ps, t.params = some ps → ∀ e ∈ ps, Leaf d e
def genLeaf : Option GenCol → Prop
  | some g => Leaf d g.e
  | none => True
/-- a column definition: the name without back-quote / pre-pass characters, the type, raw-source charset / collation / comment, the
expressions of GENERATED / DEFAULT / ON UPDATE with lexable leaves -/
structure LeafCol (c : DefCol) : Prop where
  name : nameLex c.name
  type : LeafType d c.type
  charset : optSrcLex c.charset
  collate : optSrcLex c.collate
  gen : genLeaf d c.generated
  dflt : optLeaf d c.default
  onUp : optLeaf d c.onUpdate
  comment : optSrcLex c.comment
end
structure LeafIdx (i : Index) : Prop where
  name : optSrcLex i.name
  cols : ∀ c ∈ i.cols, nameLex c.name
  using_ : optSrcLex i.usingMethod
  comment : optSrcLex i.comment
structure LeafFk (k : ForeignKey) : Prop where
  constraint : srcLex k.constraint
  slave : ∀ n ∈ k.slave, srcLex n
  master : srcLex k.master
  masterCols : ∀ n ∈ k.masterCols, srcLex n
/-- a table property `'k'='v'`: key and value raw-source payloads -/
def LeafProp (p : ConfigStr) : Prop := srcLex p.name ∧ srcLex p.value
/-- **the leaf hypotheses of a table definition** -/
structure LeafC (d : Gen.D) (c : CreateTable) : Prop where
  schema : optNameLex c.table.schema
  table : nameLex c.table.name
  cols : ∀ x ∈ c.columns, LeafCol d x
  pk : ∀ i, c.primaryKey = some i → LeafIdx i
  uk : ∀ i ∈ c.uniqueKey, LeafIdx i
  key : ∀ i ∈ c.key, LeafIdx i
  ft : ∀ i ∈ c.fulltextKey, LeafIdx i
  fk : ∀ k ∈ c.foreignKey, LeafFk k
  parts : ∀ x ∈ c.partitionedBy, LeafCol d x
  comment : optSrcLex c.comment
  engine : optSrcLex c.engine
  charset : optSrcLex c.defaultCharset
  collate : optSrcLex c.collate
  rowFormat : optSrcLex c.rowFormat
  stats : optSrcLex c.statesPersistent
  serde : optSrcLex c.rowFormatSerde
  delimited : optSrcLex c.rowFormatDelimited
  inputformat : optSrcLex c.storedAsInputformat
  outputformat : optSrcLex c.outputformat
  location : optSrcLex c.location
  props : ∀ p ∈ c.tblproperties, LeafProp p

/-! ## blank-separated pieces lex to their tokens -/

theorem Seg.congr {c : Char} {us us' : List (List Char)} {ts ts' : List Tok} (h : Seg c us ts) (e1 : us = us') (e2 : ts = ts') :
    Seg c us' ts' := e1 ▸ e2 ▸ h

theorem flat_single {α : Type} (f : α → Tok) : ∀ (l : List α), (l.map fun x => [f x]).flatten = l.map f
  | [] => rfl
  | a :: r => by simp [flat_single f r]

theorem seg_words (ws : List String) (h : ∀ w ∈ ws, w ∈ ddlWords) : Seg ' ' (wordsP ws) (ws.map opTok) := by
  have := Seg.map (Or.inl rfl) String.toList (fun w => [opTok w]) ws (fun w hw => lx_w w (h w hw))
  rw [flat_single] at this
  exact this

theorem seg_flag (b : Bool) (ws : List String) (h : ∀ w ∈ ws, w ∈ ddlWords) : Seg ' ' (flagP b ws) (flag b (ws.map opTok)) := by
  cases b
  · exact Seg.nil _
  · exact seg_words ws h

theorem seg_src (kws : List String) (hk : ∀ w ∈ kws, w ∈ ddlWords) (o : Option String) (ho : optSrcLex o) (tk : Option String → List Tok)
    (h0 : tk none = []) (h1 : ∀ s, tk (some s) = kws.map opTok ++ [srcTok s]) : Seg ' ' (srcP kws o) (tk o) := by
  cases o with
  | none => rw [h0]; exact Seg.nil _
  | some s => rw [h1]; exact Seg.append (Or.inl rfl) (seg_words kws hk) (Seg.one _ (lx_src s ho))

theorem bq_no (n : String) (h : nameLex n) : ∀ x ∈ n.toList, x ≠ '`' := fun x hx => (h x hx).1

theorem lx_bq (n : String) (h : nameLex n) : Lx (bqL n) [nameTok n] := by
  have := lx_name n.toList (bq_no n h)
  exact Lx.congr this rfl (by simp [nameTok, Lex.NAME])

theorem tk_bqn (n : String) (h : nameLex n) (d : Char) : Tk (bqL n) (nameTok n) d := by
  have := tk_bq n.toList (bq_no n h) d
  simpa [nameTok, Lex.NAME, bqL] using this

/-! ## column definitions -/

section
variable (d : Gen.D)

theorem lx_type (t : ColType) (hf : typeOK d t = true) (hl : LeafType d t) : Lx (typeL d t) (toksType d t) := by
  obtain ⟨tn, ps⟩ := t
  obtain ⟨hp, hps⟩ := hl
  cases ps with
  | none =>
    have := lx_plain tn.toList hp
    simpa [typeL, toksType, toksParams, opTok_eq] using this
  | some ps =>
    simp only [typeOK, Bool.and_eq_true, Bool.not_eq_eq_eq_not, Bool.not_true, List.all_eq_true] at hf
    have hll : LL (ps.map (keyL d)) (ps.map fun e => W d noX e 8) :=
      LL.map (keyL d) (fun e => W d noX e 8) ps fun e he => lx_key d e (hf.1.2 e he) (hps ps rfl e he)
    have hg := Lx.paren (lx_sepAll [] (fun h => h) _ _ hll)
    have := Lx.prefix hg rfl (tk_plain tn.toList hp '(' (Or.inl rfl))
    simp only [typeL, toksType, toksParams, hf.1.1, Bool.false_eq_true, if_false, parenL, opTok_eq]
    exact this

theorem mode_plain : Gen.genColSaveModes.all (fun sm => plainL sm.2.toList) = true := by decide +kernel

theorem mode_src (m : String) (h : modeOK m = true) : srcLex m := by
  unfold modeOK at h
  cases hf : Gen.genColSaveModes.find? (·.1 == up m) with
  | none => rw [hf] at h; cases h
  | some sm =>
    rw [hf] at h
    simp only [beq_iff_eq] at h
    have := (List.all_eq_true.mp mode_plain) sm (List.mem_of_find?_eq_some hf)
    rw [h] at this
    exact Or.inr (Or.inr (Or.inr this))

theorem seg_gen (g : Option GenCol) (hf : genOK d g = true) (hl : genLeaf d g) : Seg ' ' (genP d g) (toksGenerated d g) := by
  cases g with
  | none => exact Seg.nil _
  | some g =>
    obtain ⟨e, m⟩ := g
    cases m with
    | none => simp [genOK] at hf
    | some m =>
      simp only [genOK, Bool.and_eq_true] at hf
      have h1 := seg_words ["GENERATED", "ALWAYS", "AS"] (by simp [ddlWords])
      have h2 : Lx (parenL (keyL d e)) [grp (W d noX e 8)] := Lx.paren (lx_key d e hf.1 hl)
      have h3 := lx_src m (mode_src m hf.2)
      exact Seg.congr (Seg.append (Or.inl rfl) h1 (Seg.cons (Or.inl rfl) h2 (Seg.one _ h3))) rfl rfl

theorem seg_dflt (o : Option Expr) (hf : optFragE d o = true) (hl : optLeaf d o) : Seg ' ' (dfltP d o) (toksDefault d o) := by
  cases o with
  | none => exact Seg.nil _
  | some e =>
    exact Seg.congr (Seg.cons (Or.inl rfl) (lx_w "DEFAULT" (by simp [ddlWords])) (Seg.one _ (lx_key d e hf hl))) rfl rfl

theorem seg_onUp (o : Option Expr) (hf : optFragE d o = true) (hl : optLeaf d o) : Seg ' ' (onUpP d o) (toksOnUpdate d o) := by
  cases o with
  | none => exact Seg.nil _
  | some e =>
    exact Seg.congr (Seg.cons (Or.inl rfl) (lx_w "ON" (by simp [ddlWords])) (Seg.cons (Or.inl rfl) (lx_w "UPDATE" (by simp [ddlWords]))
      (Seg.one _ (lx_key d e hf hl)))) rfl rfl

theorem seg_comment (o : Option String) (ho : optSrcLex o) : Seg ' ' (srcP ["COMMENT"] o) (toksComment o) :=
  seg_src ["COMMENT"] (by simp [ddlWords]) o ho toksComment rfl (fun s => rfl)

theorem seg_myAttrs (c : DefCol) (h1 : optFragE d c.default = true) (h2 : optFragE d c.onUpdate = true) (h3 : genOK d c.generated = true)
    (hl : LeafCol d c) {tp : P} {tt : List Tok} (ht : Seg ' ' tp tt) : Seg ' ' (myAttrsP d c tp) (toksMyAttrs d c tt) := by
  have b : (' ' : Char) = ' ' ∨ (' ' : Char) = '\n' := Or.inl rfl
  exact Seg.append b (seg_flag _ ["UNSIGNED"] (by simp [ddlWords])) (Seg.append b (seg_flag _ ["ZEROFILL"] (by simp [ddlWords]))
    (Seg.append b (seg_src ["CHARACTER", "SET"] (by simp [ddlWords]) c.charset hl.charset toksCharset rfl (fun s => rfl))
    (Seg.append b (seg_src ["COLLATE"] (by simp [ddlWords]) c.collate hl.collate toksCollate rfl (fun s => rfl))
    (Seg.append b (seg_gen d c.generated h3 hl.gen) (Seg.append b (seg_flag _ ["NULL"] (by simp [ddlWords]))
    (Seg.append b (seg_flag _ ["NOT", "NULL"] (by simp [ddlWords])) (Seg.append b (seg_flag _ ["AUTO_INCREMENT"] (by simp [ddlWords]))
    (Seg.append b (seg_dflt d c.default h1 hl.dflt) (Seg.append b (seg_onUp d c.onUpdate h2 hl.onUp) ht)))))))))

theorem seg_attrs (c : DefCol) (hf : TD.colOK d c = true) (hl : LeafCol d c) : Seg ' ' (attrsP d c) (toksAttrs d c) := by
  simp only [TD.colOK, Bool.and_eq_true] at hf
  cases hd : d == Gen.D.MYSQL with
  | true =>
    simp only [hd, if_true, Bool.and_eq_true] at hf
    simp only [attrsP, toksAttrs, hd, if_true]
    exact seg_myAttrs d c hf.2.1.1 hf.2.1.2 hf.2.2 hl (seg_comment c.comment hl.comment)
  | false =>
    simp only [attrsP, toksAttrs, hd, Bool.false_eq_true, if_false]
    exact seg_comment c.comment hl.comment

/-- **a column definition** -/
theorem lx_defCol (c : DefCol) (hf : TD.colOK d c = true) (hl : LeafCol d c) : Lx (defColL d c) (toksDefCol d c) := by
  have ht : typeOK d c.type = true := by simp only [TD.colOK, Bool.and_eq_true] at hf; exact hf.1.2
  exact lx_tail (lx_bq c.name hl.name) (Seg.cons (Or.inl rfl) (lx_type d c.type ht hl.type) (seg_attrs d c hf hl))
end

/-! ## keys -/

theorem intOK_nonneg (n : Int) (h : intOK n = true) : 0 ≤ n := by
  simp only [intOK, Bool.and_eq_true, decide_eq_true_eq] at h; exact h.1

theorem lx_idxCol (c : IndexCol) (hf : idxColOK c = true) (hl : nameLex c.name) : Lx (idxColL c) (toksIdxCol c) := by
  obtain ⟨n, ml⟩ := c
  cases ml with
  | none => simpa [idxColL, toksIdxCol] using lx_bq n hl
  | some k =>
    simp only [idxColOK, Bool.and_eq_true] at hf
    have := Lx.prefix (Lx.paren (lx_intTok k (intOK_nonneg k hf.2))) rfl (tk_bqn n hl '(')
    exact Lx.congr this (by simp [idxColL, parenL]) rfl

theorem lx_kind (k : IndexKind) : Lx (kindL k) (kindToks k) := by
  have key := lx_w "KEY" (by simp [ddlWords])
  cases k
  · exact Lx.sep (lx_w "PRIMARY" (by simp [ddlWords])) key
  · exact Lx.sep (lx_w "UNIQUE" (by simp [ddlWords])) key
  · exact key
  · exact Lx.sep (lx_w "FULLTEXT" (by simp [ddlWords])) key

theorem seg_optInt (kw : String) (hkw : kw ∈ eqWords) (o : Option Int) (ho : optIntOK o = true) (tk : Option Int → List Tok)
    (h0 : tk none = []) (h1 : ∀ n, tk (some n) = [opTok kw, eqTok, intTok n]) : Seg ' ' (optIntP kw o) (tk o) := by
  cases o with
  | none => rw [h0]; exact Seg.nil _
  | some n =>
    have h0 := intOK_nonneg n ho
    rw [h1]
    exact Seg.one _ (Lx.eqJoin (tk_w_eq kw hkw) (lx_intTok n h0) (int_ne_nil n h0))

theorem seg_idxName (o : Option String) (ho : optSrcLex o) : Seg ' ' (idxNameP o) (toksIdxName o) := by
  cases o with
  | none => exact Seg.nil _
  | some n => exact Seg.one _ (lx_src n ho)

/-- **a key** -/
theorem lx_index (i : Index) (hc : i.cols.all idxColOK = true) (hk : optIntOK i.keyBlockSize = true) (hl : LeafIdx i) :
    Lx (indexL i) (toksIndex i) := by
  have b : (' ' : Char) = ' ' ∨ (' ' : Char) = '\n' := Or.inl rfl
  simp only [List.all_eq_true] at hc
  have hll : LL (i.cols.map idxColL) (i.cols.map toksIdxCol) :=
    LL.map idxColL toksIdxCol i.cols fun c hm => lx_idxCol c (hc c hm) (hl.cols c hm)
  have hg : Lx (parenL (joinLL [','] (i.cols.map idxColL))) [grp (sepAll (i.cols.map toksIdxCol))] :=
    Lx.paren (lx_sepAll [] (fun h => h) _ _ hll)
  have := lx_tail (lx_kind i.kind) (Seg.append b (seg_idxName i.name hl.name) (Seg.cons b hg
    (Seg.append b (seg_src ["USING"] (by simp [ddlWords]) i.usingMethod hl.using_ (optKw "USING") rfl (fun s => rfl))
      (Seg.append b (seg_src ["COMMENT"] (by simp [ddlWords]) i.comment hl.comment (optKw "COMMENT") rfl (fun s => rfl))
        (seg_optInt "KEY_BLOCK_SIZE" (by simp [eqWords]) i.keyBlockSize hk toksKbs rfl (fun n => rfl))))))
  exact Lx.congr this rfl (by simp [toksIndex, toksIdxTail])

theorem lx_act (s : String) (h : actOK (some s) = true) : Lx s.toList (actToks s) := by
  simp only [actOK, List.contains_eq_mem, List.mem_cons, List.mem_nil_iff, or_false, decide_eq_true_eq] at h
  rcases h with rfl | rfl | rfl | rfl
  · exact Lx.congr (Lx.sep (lx_w "NO" (by simp [ddlWords])) (lx_w "ACTION" (by simp [ddlWords]))) rfl (by simp [actToks])
  · exact Lx.congr (Lx.sep (lx_w "SET" (by simp [ddlWords])) (lx_w "NULL" (by simp [ddlWords]))) rfl (by simp [actToks])
  · exact Lx.congr (lx_w "CASCADE" (by simp [ddlWords])) rfl (by simp [actToks])
  · exact Lx.congr (lx_w "RESTRICT" (by simp [ddlWords])) rfl (by simp [actToks])

theorem seg_act (bw : String) (hb : bw ∈ ddlWords) (o : Option String) (ho : actOK o = true) : Seg ' ' (actP bw o) (toksFkAct bw o) := by
  cases o with
  | none => exact Seg.nil _
  | some s =>
    exact Seg.congr (Seg.cons (Or.inl rfl) (lx_w "ON" (by simp [ddlWords])) (Seg.cons (Or.inl rfl) (lx_w bw hb) (Seg.one _ (lx_act s ho))))
      rfl rfl

theorem lx_names (ns : List String) (h : ∀ n ∈ ns, srcLex n) : Lx (namesL ns) [toksNames ns] :=
  Lx.paren (lx_sepAll [' '] (fun h => Lx.blank h) _ _ (LL.map String.toList (fun n => [srcTok n]) ns fun n hn => lx_src n (h n hn)))

/-- **a foreign key** -/
theorem lx_fk (k : ForeignKey) (hf : fkOK k = true) (hl : LeafFk k) : Lx (fkL k) (toksFk k) := by
  have b : (' ' : Char) = ' ' ∨ (' ' : Char) = '\n' := Or.inl rfl
  simp only [fkOK, Bool.and_eq_true] at hf
  have w : ∀ k : String, k ∈ ddlWords → Lx k.toList [opTok k] := lx_w
  have := lx_tail (w "CONSTRAINT" (by simp [ddlWords])) (Seg.cons b (lx_src _ hl.constraint) (Seg.cons b (w "FOREIGN" (by simp [ddlWords]))
    (Seg.cons b (w "KEY" (by simp [ddlWords])) (Seg.cons b (lx_names k.slave hl.slave) (Seg.cons b (w "REFERENCES" (by simp [ddlWords]))
      (Seg.cons b (lx_src _ hl.master) (Seg.cons b (lx_names k.masterCols hl.masterCols)
        (Seg.append b (seg_act "DELETE" (by simp [ddlWords]) k.onDelete hf.1.2) (seg_act "UPDATE" (by simp [ddlWords]) k.onUpdate hf.2)))))))))
  exact Lx.congr this rfl (by simp [toksFk])

/-! ## table options -/

theorem seg_optEq (pre : List String) (hpre : ∀ w ∈ pre, w ∈ ddlWords) (kw : String) (hkw : kw ∈ eqWords) (o : Option String)
    (ho : optSrcLex o) : Seg ' ' (optEqP pre kw o) (optEq (pre.map opTok ++ [opTok kw]) o) := by
  cases o with
  | none => exact Seg.nil _
  | some s =>
    have h1 := seg_words pre hpre
    have h2 : Lx (kw.toList ++ '=' :: s.toList) [opTok kw, eqTok, srcTok s] :=
      Lx.eqJoin (tk_w_eq kw hkw) (lx_src s ho) (src_ne_nil s ho)
    exact Seg.congr (Seg.append (Or.inl rfl) h1 (Seg.one _ h2)) rfl (by simp [optEq])

theorem seg_myOpts (c : CreateTable) (hai : optIntOK c.autoIncrement = true) (hl : LeafC .MYSQL c) : Seg ' ' (myOptsP c) (toksMyOpts c) := by
  have b : (' ' : Char) = ' ' ∨ (' ' : Char) = '\n' := Or.inl rfl
  exact Seg.append b (seg_optEq [] (by simp) "ENGINE" (by simp [eqWords]) c.engine hl.engine)
    (Seg.append b (seg_optInt "AUTO_INCREMENT" (by simp [eqWords]) c.autoIncrement hai toksAutoInc rfl (fun n => rfl))
    (Seg.append b (seg_optEq ["DEFAULT"] (by simp [ddlWords]) "CHARSET" (by simp [eqWords]) c.defaultCharset hl.charset)
    (Seg.append b (seg_optEq [] (by simp) "COLLATE" (by simp [eqWords]) c.collate hl.collate)
    (Seg.append b (seg_optEq [] (by simp) "ROW_FORMAT" (by simp [eqWords]) c.rowFormat hl.rowFormat)
    (Seg.append b (seg_optEq [] (by simp) "STATS_PERSISTENT" (by simp [eqWords]) c.statesPersistent hl.stats)
      (seg_optEq [] (by simp) "COMMENT" (by simp [eqWords]) c.comment hl.comment))))))

theorem lx_prop (p : ConfigStr) (hl : LeafProp p) : Lx (propL p) (toksProp p) :=
  Lx.eqJoin (tk_src_eq p.name hl.1) (lx_src p.value hl.2) (src_ne_nil p.value hl.2)

section
variable (d : Gen.D)

theorem seg_part (ps : List DefCol) (hf : ps.all (TD.colOK d) = true) (hl : ∀ x ∈ ps, LeafCol d x) :
    Seg ' ' (partP d ps) (toksPartitioned d ps) := by
  simp only [List.all_eq_true] at hf
  cases he : ps.isEmpty with
  | true => simp only [partP, toksPartitioned, he, if_true]; exact Seg.nil _
  | false =>
    simp only [partP, toksPartitioned, he, Bool.false_eq_true, if_false]
    have hg : Lx (parenL (joinLL [',', ' '] (ps.map (defColL d)))) [grp (sepAll (ps.map (toksDefCol d)))] :=
      Lx.paren (lx_sepAll [' '] (fun h => Lx.blank h) _ _ (LL.map (defColL d) (toksDefCol d) ps fun x hx => lx_defCol d x (hf x hx) (hl x hx)))
    exact Seg.congr (Seg.cons (Or.inl rfl) (lx_w "PARTITIONED" (by simp [ddlWords])) (Seg.cons (Or.inl rfl) (lx_w "BY" (by simp [ddlWords]))
      (Seg.one _ hg))) rfl rfl

theorem seg_props (ps : List ConfigStr) (hl : ∀ p ∈ ps, LeafProp p) : Seg ' ' (propsP ps) (toksProps ps) := by
  cases he : ps.isEmpty with
  | true => simp only [propsP, toksProps, he, if_true]; exact Seg.nil _
  | false =>
    simp only [propsP, toksProps, he, Bool.false_eq_true, if_false]
    have hg : Lx (parenL (joinLL [',', ' '] (ps.map propL))) [grp (sepAll (ps.map toksProp))] :=
      Lx.paren (lx_sepAll [' '] (fun h => Lx.blank h) _ _ (LL.map propL toksProp ps fun p hp => lx_prop p (hl p hp)))
    exact Seg.congr (Seg.cons (Or.inl rfl) (lx_w "TBLPROPERTIES" (by simp [ddlWords])) (Seg.one _ hg)) rfl rfl

theorem seg_hiveOpts (c : CreateTable) (hp : c.partitionedBy.all (TD.colOK d) = true) (hl : LeafC d c) :
    Seg ' ' (hiveOptsP d c) (toksHiveOpts d c) := by
  have b : (' ' : Char) = ' ' ∨ (' ' : Char) = '\n' := Or.inl rfl
  exact Seg.append b (seg_src ["COMMENT"] (by simp [ddlWords]) c.comment hl.comment (optSp [opTok "COMMENT"]) rfl (fun s => rfl))
    (Seg.append b (seg_part d c.partitionedBy hp hl.parts)
    (Seg.append b (seg_src ["ROW", "FORMAT", "SERDE"] (by simp [ddlWords]) c.rowFormatSerde hl.serde
      (optSp [opTok "ROW", opTok "FORMAT", opTok "SERDE"]) rfl (fun s => rfl))
    (Seg.append b (seg_src ["ROW", "FORMAT", "DELIMITED", "FIELDS", "TERMINATED", "BY"] (by simp [ddlWords]) c.rowFormatDelimited hl.delimited
      (optSp [opTok "ROW", opTok "FORMAT", opTok "DELIMITED", opTok "FIELDS", opTok "TERMINATED", opTok "BY"]) rfl (fun s => rfl))
    (Seg.append b (seg_src ["STORED", "AS", "INPUTFORMAT"] (by simp [ddlWords]) c.storedAsInputformat hl.inputformat
      (optSp [opTok "STORED", opTok "AS", opTok "INPUTFORMAT"]) rfl (fun s => rfl))
    (Seg.append b (seg_flag _ ["STORED", "AS", "TEXTFILE"] (by simp [ddlWords]))
    (Seg.append b (seg_src ["OUTPUTFORMAT"] (by simp [ddlWords]) c.outputformat hl.outputformat (optSp [opTok "OUTPUTFORMAT"]) rfl (fun s => rfl))
    (Seg.append b (seg_src ["LOCATION"] (by simp [ddlWords]) c.location hl.location (optSp [opTok "LOCATION"]) rfl (fun s => rfl))
      (seg_props c.tblproperties hl.props))))))))
end

/-! ## the statement -/

theorem lx_group (us : P) (tss : List (List Tok)) (h : LL us tss) : Lx (groupL us) [grp (sepAll tss)] :=
  Lx.paren (Lx.nl (Lx.nlTrail (lx_sepAll ['\n'] (fun h => Lx.nl h) _ _
    (LL.mapL (us := us) (ts := tss) (fun l => ' ' :: ' ' :: l) (fun h => Lx.blank (Lx.blank h)) h))))

theorem toList_tblStr (t : TableName) :
    (tblStr t).toList = match t.schema with | some s => s.toList ++ '.' :: t.name.toList | none => t.name.toList := by
  obtain ⟨s, n⟩ := t
  cases s with
  | none => rfl
  | some s =>
    have e : (".": String).toList = ['.'] := rfl
    simp [tblStr, String.toList_append, e]

theorem nameLex_tbl (t : TableName) (h1 : optNameLex t.schema) (h2 : nameLex t.name) : nameLex (tblStr t) := by
  intro x hx
  rw [toList_tblStr] at hx
  obtain ⟨s, n⟩ := t
  cases s with
  | none => exact h2 x hx
  | some s =>
    simp only [List.mem_append, List.mem_cons] at hx
    rcases hx with hx | rfl | hx
    · exact h1 x hx
    · exact ⟨by decide, by decide⟩
    · exact h2 x hx

theorem idxOK_parts {k : IndexKind} {i : Index} (h : idxOK k i = true) : i.cols.all idxColOK = true ∧ optIntOK i.keyBlockSize = true := by
  simp only [idxOK, Bool.and_eq_true] at h
  exact ⟨h.1.2, h.2⟩

theorem ll_idx (k : IndexKind) (l : List Index) (hf : l.all (idxOK k) = true) (hl : ∀ i ∈ l, LeafIdx i) :
    LL (l.map indexL) (l.map toksIndex) := by
  simp only [List.all_eq_true] at hf
  exact LL.map indexL toksIndex l fun i hi => lx_index i (idxOK_parts (hf i hi)).1 (idxOK_parts (hf i hi)).2 (hl i hi)

/-- **the link for the MySQL rendering, in context** -/
theorem lx_createMy (c : CreateTable) (hf : FragCreate .MYSQL c = true) (hl : LeafC .MYSQL c) :
    Lx (createL .MYSQL c) (toksCreate .MYSQL c) := by
  have b : (' ' : Char) = ' ' ∨ (' ' : Char) = '\n' := Or.inl rfl
  have hm : (Gen.D.MYSQL == Gen.D.MYSQL) = true := rfl
  simp only [FragCreate, hm, if_true, Bool.and_eq_true, List.all_eq_true] at hf
  obtain ⟨⟨⟨htbl, hcols⟩, _⟩, ⟨⟨⟨⟨⟨⟨⟨⟨⟨⟨⟨⟨⟨hfk, hpk⟩, huk⟩, hkey⟩, hft⟩, hai⟩, _⟩, _⟩, _⟩, _⟩, _⟩, _⟩, _⟩, _⟩⟩ := hf
  have hpkl : LL ((optList c.primaryKey).map indexL) ((optList c.primaryKey).map toksIndex) := by
    cases hp : c.primaryKey with
    | none => exact LL.nil
    | some i =>
      rw [hp] at hpk
      simp only [optIdxOK] at hpk
      exact LL.cons (lx_index i (idxOK_parts hpk).1 (idxOK_parts hpk).2 (hl.pk i hp)) LL.nil
  have hlines : LL (linesL .MYSQL c) (toksLines .MYSQL c) := by
    simp only [linesL, toksLines, hm, if_true]
    exact LL.append (LL.map _ _ c.columns fun x hx => lx_defCol .MYSQL x (hcols x hx) (hl.cols x hx))
      (LL.append hpkl (LL.append (ll_idx .unique c.uniqueKey (List.all_eq_true.mpr huk) hl.uk)
        (LL.append (ll_idx .normal c.key (List.all_eq_true.mpr hkey) hl.key) (LL.append (ll_idx .fulltext c.fulltextKey (List.all_eq_true.mpr hft) hl.ft)
          (LL.map fkL toksFk c.foreignKey fun k hk => lx_fk k (hfk k hk) (hl.fk k hk))))))
  have htb : Lx (tblL c.table) [tblTok c.table] := lx_bq _ (nameLex_tbl c.table hl.schema hl.table)
  have := lx_tail (lx_w "CREATE" (by simp [ddlWords])) (Seg.cons b (lx_w "TABLE" (by simp [ddlWords]))
    (Seg.append b (seg_flag c.ifNotExists ["IF", "NOT", "EXISTS"] (by simp [ddlWords]))
      (Seg.append b (Seg.cons b htb (Seg.one _ (lx_group _ _ hlines))) (seg_myOpts c hai hl))))
  exact Lx.congr this (by simp [createL]) (by simp [toksCreate, toksOpts])

/-- **the link for the Hive rendering, in context** -/
theorem lx_createHive (c : CreateTable) (hf : FragCreate .HIVE c = true) (hl : LeafC .HIVE c) :
    Lx (createL .HIVE c) (toksCreate .HIVE c) := by
  have b : (' ' : Char) = ' ' ∨ (' ' : Char) = '\n' := Or.inl rfl
  have hm : (Gen.D.HIVE == Gen.D.MYSQL) = false := rfl
  simp only [FragCreate, hm, Bool.false_eq_true, if_false, Bool.and_eq_true] at hf
  have hcols := hf.1.1.2
  have hparts := hf.2.1.1.1.1.1.1.1.1.2
  simp only [List.all_eq_true] at hcols
  have hlines : LL (linesL .HIVE c) (toksLines .HIVE c) := by
    simp only [linesL, toksLines, hm, Bool.false_eq_true, if_false, List.append_nil]
    exact LL.map _ _ c.columns fun x hx => lx_defCol .HIVE x (hcols x hx) (hl.cols x hx)
  have htb : Lx (tblL c.table ++ groupL (linesL .HIVE c)) [tblTok c.table, grp (sepAll (toksLines .HIVE c))] :=
    Lx.prefix (lx_group _ _ hlines) rfl (tk_bqn _ (nameLex_tbl c.table hl.schema hl.table) '(')
  have := Lx.blank (lx_tail (lx_w "CREATE" (by simp [ddlWords])) (Seg.cons b (lx_w "TABLE" (by simp [ddlWords]))
    (Seg.append b (seg_flag c.ifNotExists ["IF", "NOT", "EXISTS"] (by simp [ddlWords]))
      (Seg.append b (Seg.one _ htb) (seg_hiveOpts .HIVE c hparts hl)))))
  exact Lx.congr this (by simp [createL]) (by simp [toksCreate, toksOpts])

end LD
