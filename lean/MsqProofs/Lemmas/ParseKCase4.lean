import MsqProofs.Lemmas.ParseKCase3b
/-! DERIVED by tools/gen_kcase.py from ParseCase4.lean (identifier substitution `CE`→`KE`, `CER`→`KER`, `upAll`→`kmAll`) — C09, parser half, sharp form for reserved words -/

/-!
# C09, parser half — hand-written part 6: `kmAll` for the DDL / DML structures and statements
Every string of the structure is mapped through `km`; flags and numbers are kept.
-/
set_option linter.unusedSimpArgs false
set_option linter.unusedVariables false
open Lex Ast
namespace PM

def kmTN : TableName → TableName | ⟨s, n⟩ => ⟨s.map km, km n⟩
def kmCT : ColType → ColType | ⟨n, ps⟩ => ⟨km n, ps.map (List.map kmE)⟩
def kmGC : GenCol → GenCol | ⟨e, m⟩ => ⟨kmE e, m.map km⟩
def kmDC : DefCol → DefCol
  | ⟨n, ty, un, zf, cs, co, g, an, nn, ai, df, ou, cm⟩ => ⟨km n, kmCT ty, un, zf, cs.map km, co.map km, g.map kmGC, an, nn, ai, df.map kmE, ou.map kmE, cm.map km⟩
def kmIC : IndexCol → IndexCol | ⟨n, l⟩ => ⟨km n, l⟩
def kmIx : Index → Index | ⟨k, n, cs, um, cm, kb⟩ => ⟨k, n.map km, cs.map kmIC, um.map km, cm.map km, kb⟩
def kmFK : ForeignKey → ForeignKey | ⟨c, s, m, mc, od, ou⟩ => ⟨km c, s.map km, km m, mc.map km, od.map km, ou.map km⟩
def kmCI : ColOrIdx → ColOrIdx
  | .col c => .col (kmDC c) | .idx i => .idx (kmIx i) | .fk f => .fk (kmFK f)
def kmAO : AlterOp → AlterOp
  | .addPartition b p => .addPartition b (p.map kmE)
  | .add x => .add (kmCI x)
  | .modify x => .modify (kmCI x)
  | .change f t => .change (km f) (kmCI t)
  | .renameColumn f t => .renameColumn (km f) (km t)
  | .dropColumn c => .dropColumn (km c)
  | .dropPartition b p => .dropPartition b (p.map kmE)
/-- a config string is a CONCATENATION of popped sources (`a.b-c`): only the `≈` form holds for it -/
def kmCS : ConfigStr → ConfigStr | ⟨n, v⟩ => ⟨up n, up v⟩
def kmCR : CreateTable → CreateTable
  | ⟨t, ine, cols, pk, uk, k, fk, fo, pb, cm, en, ai, dc, co, rf, sp, rs, rd, si, st, of, lo, tp⟩ =>
    ⟨kmTN t, ine, cols.map kmDC, pk.map kmIx, uk.map kmIx, k.map kmIx, fk.map kmIx, fo.map kmFK, pb.map kmDC, cm.map km, en.map km, ai, dc.map km, co.map km,
     rf.map km, sp.map km, rs.map km, rd.map km, si.map km, st, of.map km, lo.map km, tp.map kmCS⟩
def kmIH : InsertHead → InsertHead
  | ⟨w, ty, t, p, c⟩ => ⟨w.map (List.map kmW), km ty, kmTN t, p.map (List.map kmE), c.map (List.map (Prod.map (Option.map km) km))⟩
def kmLim : Option (Int × Option Int) → Option (Int × Option Int) := id
/-- `kmAll` of a statement -/
def kmSt0 : Stmt → Stmt
  | .select q => .select (kmQ q)
  | .insertValues h vs => .insertValues (kmIH h) (vs.map (List.map kmE))
  | .insertSelect h q => .insertSelect (kmIH h) (kmQ q)
  | .update w t sets wh ob lm => .update (w.map (List.map kmW)) (kmTN t) (sets.map (Prod.map km kmE)) (wh.map kmE) (ob.map (List.map kmO)) lm
  | .delete t wh ob lm => .delete (kmTN t) (wh.map kmE) (ob.map (List.map kmO)) lm
  | .createTable c => .createTable (kmCR c)
  | .createTableAs t ine q => .createTableAs (kmTN t) ine (kmQ q)
  | .dropTable b t => .dropTable b (kmTN t)
  | .set c => .set (kmCS c)
  | .analyze t p a b c => .analyze (kmTN t) (p.map (List.map kmE)) a b c
  | .alter t ops => .alter (kmTN t) (ops.map kmAO)
  | .msck t => .msck (kmTN t)
  | .use s => .use (km s)
  | .truncate t => .truncate (kmTN t)
  | .showDatabases => .showDatabases
  | .showTables => .showTables
  | .showColumns fr wh => .showColumns (fr.map kmFT) (wh.map kmE)

/-- running a parser on every segment of two related segment lists -/
theorem eachClosed_ke {α β : Type} (f : α → β) (p p' : List Tok → R α) (hp : ∀ sg sg', KEL sg sg' → KER (ceq f) (p sg) (p' sg')) :
    ∀ segs segs', KELL segs segs' → KEX (ceq (List.map f)) (eachClosed p segs) (eachClosed p' segs') := by
  intro segs
  induction segs with
  | nil => intro segs' h; cases segs' <;> simp_all [eachClosed]
  | cons sg rest ih =>
    intro segs' h
    cases segs' with
    | nil => simp at h
    | cons sg' rest' =>
      simp at h
      have h1 := closed_ke (hp sg sg' h.1)
      have h2 := ih rest' h.2
      clear ih
      simp only [eachClosed]
      cases hc : closed (p sg) <;> cases hc' : closed (p' sg') <;> rw [hc, hc'] at h1 <;> simp at h1 ⊢
      · exact h1
      · cases hr : eachClosed p rest <;> cases hr' : eachClosed p' rest' <;> rw [hr, hr'] at h2 <;> simp at h2 ⊢ <;> simp_all
theorem eachClosed_ke_eq {α : Type} (p p' : List Tok → R α) (hp : ∀ sg sg', KEL sg sg' → KER Eq (p sg) (p' sg')) :
    ∀ segs segs', KELL segs segs' → KEX Eq (eachClosed p segs) (eachClosed p' segs') := by
  intro segs
  induction segs with
  | nil => intro segs' h; cases segs' <;> simp_all [eachClosed]
  | cons sg rest ih =>
    intro segs' h
    cases segs' with
    | nil => simp at h
    | cons sg' rest' =>
      simp at h
      have h1 := closed_ke (hp sg sg' h.1)
      have h2 := ih rest' h.2
      clear ih
      simp only [eachClosed]
      cases hc : closed (p sg) <;> cases hc' : closed (p' sg') <;> rw [hc, hc'] at h1 <;> simp at h1 ⊢
      · exact h1
      · cases hr : eachClosed p rest <;> cases hr' : eachClosed p' rest' <;> rw [hr, hr'] at h2 <;> simp at h2 ⊢ <;> simp_all

end PM
