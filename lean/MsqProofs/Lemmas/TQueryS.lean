import MsqProofs.Lemmas.TQueryX
/-!
# T-parse closed under nesting: the clause parsers of a SELECT over the nested fragment (C03 / C01)

The clause lemmas of MsqProofs/Lemmas/TSelect.lean, restated against RECORDS instead of the `Bool` fragment: wherever the old lemma used
`C02.tparse` for an expression position it now takes the expression record `RT3 d ch e` (what the mutual induction provides for the
smaller expressions), wherever a FROM item may be a derived table it takes the query record `QT d ch q`.  Continuations: `Bd3` (= `TS.Bd`
and not `OVER`).  Table names may be schema-qualified (`tblOK`).
-/
set_option linter.unusedVariables false
set_option linter.unusedSimpArgs false
set_option maxHeartbeats 1000000
open Lex PM Ast TP TS
namespace TQ
variable {d : Gen.D} {ch : Expr → Bool}
local notation "commaTok" => TS.commaTok

/-! ### what `Bd3` gives -/
theorem b3 {k : Nat} {rest : List Tok} (h : Bd3 d k rest = true) : Bd d k rest = true := by
  simp only [Bd3, Bool.and_eq_true] at h; exact h.1
theorem b3o {k : Nat} {rest : List Tok} (h : Bd3 d k rest = true) : headIsOver rest = false := by
  simp only [Bd3, Bool.and_eq_true, Bool.not_eq_true'] at h; exact h.2
theorem bd3_mono {k k' : Nat} {rest : List Tok} (h : Bd3 d k rest = true) (hk : k' ≤ k) : Bd3 d k' rest = true := by
  simp only [Bd3, Bool.and_eq_true] at h ⊢; exact ⟨TS.bd_mono h.1 hk, h.2⟩
theorem bd3_stops {k : Nat} {rest : List Tok} (h : Bd3 d k rest = true) : TP2.stops2 d rest = true := by
  simp only [TP2.stops2, TP2.stopLE2, Bool.and_eq_true, Bool.not_eq_true']
  exact ⟨TS.bd_stops (b3 h), b3o h⟩
theorem bd3_of {k : Nat} {t : Tok} (x : List Tok) (h : bdTok d k t = true) (ho : t.srcEqUp "OVER" = false) : Bd3 d k (t :: x) = true := by
  simp only [Bd3, Bd, h, headIsOver, ho]; rfl

/-! ### the list separator, what may follow a list element -/
theorem comma_stops2 (x : List Tok) : TP2.stops2 d (commaTok :: x) = true := TP2.comma_stop2 x
structure Fol (d : Gen.D) (fol : List Tok) : Prop where
  stops : TP2.stops2 d fol = true
  alias : pAlias fol = .ok (none, fol)
theorem Fol.ofBd {k : Nat} {fol : List Tok} (h : Bd3 d k fol = true) : Fol d fol := ⟨bd3_stops h, TS.bd_alias (b3 h)⟩
theorem Fol.comma (x : List Tok) : Fol d (commaTok :: x) := ⟨comma_stops2 x, TS.comma_alias x⟩
theorem Fol.tail {tl fol : List Tok} (h : tl = [] ∨ ∃ x, tl = commaTok :: x) (hf : Fol d fol) : Fol d (tl ++ fol) := by
  rcases h with rfl | ⟨x, rfl⟩
  · exact hf
  · exact Fol.comma _
theorem stops2_stops {fol : List Tok} (h : TP2.stops2 d fol = true) : TP.stops d fol = true := TP2.sl h

/-! ### aliases and select items -/
theorem as_stops2 (x : List Tok) : TP2.stops2 d (opTok "AS" :: x) = true := by
  have h : stopTok d 14 (opTok "AS") = true := by cases d <;> decide
  exact TP2.stop2_of x h (by decide)
theorem alias_any (a : Option String) (h : optAliasOK a = true) (fol : List Tok) (hf : Fol d fol) :
    pAlias (aliasToks a ++ fol) = .ok (a, fol) ∧ TP2.stops2 d (aliasToks a ++ fol) = true ∧ searchStr (aliasToks a ++ fol) "." = false := by
  cases a with
  | none => exact ⟨hf.alias, hf.stops, TS.stops_notDot (stops2_stops hf.stops)⟩
  | some a => exact ⟨TS.alias_some a h fol, as_stops2 (d := d) _, TS.stops_notDot (stops2_stops (as_stops2 (d := d) _))⟩

def toksCol3 (d : Gen.D) (ch : Expr → Bool) (c : Expr × Option String) : List Tok := toksE3 d ch c.1 ++ aliasToks c.2
theorem toksColsTail3_cons (c : Expr × Option String) (cs) : toksColsTail3 d ch (c :: cs) = commaTok :: (toksCol3 d ch c ++ toksColsTail3 d ch cs) := by
  obtain ⟨e, a⟩ := c; simp only [toksColsTail3, toksCol3]
theorem toksCols3_cons (c : Expr × Option String) (cs) : toksCols3 d ch (c :: cs) = toksCol3 d ch c ++ toksColsTail3 d ch cs := by
  obtain ⟨e, a⟩ := c; simp only [toksCols3, toksCol3]
def ColRec (d : Gen.D) (ch : Expr → Bool) (c : Expr × Option String) : Prop := RT3 d ch c.1 ∧ optAliasOK c.2 = true

theorem selectCol (c : Expr × Option String) (hc : ColRec d ch c) (fol : List Tok) (hf : Fol d fol) :
    OkAt (fun f => pSelectCol d f (toksCol3 d ch c ++ fol)) (20 * sizeL (toksCol3 d ch c) + 16) (c, fol) := by
  obtain ⟨e, a⟩ := c
  obtain ⟨ha, hs, _⟩ := alias_any a hc.2 fol hf
  intro f hf'
  simp only [toksCol3, sizeL_append] at hf'
  obtain ⟨g, rfl⟩ : ∃ g, f = g + 1 := ⟨f - 1, by omega⟩
  have hc1 : RT3 d ch e := hc.1
  have h1 : pOr d g (toksE3 d ch e ++ (aliasToks a ++ fol)) = .ok (e, aliasToks a ++ fol) :=
    hc1.own.s14 _ hs g (by omega)
  show pSelectCol d (g + 1) (toksCol3 d ch (e, a) ++ fol) = _
  unfold pSelectCol
  simp only [toksCol3, List.append_assoc, h1, ha]

theorem colsTail_shape (cs : List (Expr × Option String)) : toksColsTail3 d ch cs = [] ∨ ∃ x, toksColsTail3 d ch cs = commaTok :: x := by
  cases cs with
  | nil => left; simp only [toksColsTail3]
  | cons c cs => right; exact ⟨_, toksColsTail3_cons c cs⟩

theorem selectCols (fol : List Tok) (hf : Fol d fol) (hc : searchStr fol "," = false) :
    ∀ (cs : List (Expr × Option String)), (∀ c ∈ cs, ColRec d ch c) → ∀ acc,
    OkAt (fun f => pSelectCols d f acc (toksColsTail3 d ch cs ++ fol)) (20 * sizeL (toksColsTail3 d ch cs) + 17) (acc ++ cs, fol) := by
  intro cs
  induction cs with
  | nil =>
    intro _ acc f hf'
    obtain ⟨g, rfl⟩ : ∃ g, f = g + 1 := ⟨f - 1, by omega⟩
    simp [toksColsTail3, pSelectCols, hc]
  | cons c cs ih =>
    intro hcs acc f hf'
    simp only [toksColsTail3_cons, sizeL_cons, sizeL_append] at hf'
    have hsz : commaTok.size = 1 := by decide
    obtain ⟨g, rfl⟩ : ∃ g, f = g + 1 := ⟨f - 1, by omega⟩
    have h1 : pSelectCol d g (toksCol3 d ch c ++ (toksColsTail3 d ch cs ++ fol)) = .ok (c, toksColsTail3 d ch cs ++ fol) :=
      selectCol c (hcs c (by simp)) _ (Fol.tail (colsTail_shape cs) hf) g (by omega)
    have h2 := ih (fun c' hc' => hcs c' (by simp [hc'])) (acc ++ [c]) g (by omega)
    show pSelectCols d (g + 1) acc (toksColsTail3 d ch (c :: cs) ++ fol) = _
    unfold pSelectCols
    simp only [toksColsTail3_cons, List.cons_append, List.append_assoc, TS.comma_search, if_true, List.drop_succ_cons, List.drop_zero, h1]
    simpa using h2

/-! ### tables (plain, schema-qualified, derived) and FROM -/
theorem isOkPair_eq {r : Except Err (Option String × String)} {s : Option String} {n : String} (h : isOkPair r s n = true) : r = .ok (s, n) := by
  unfold isOkPair at h
  split at h
  · simp only [Bool.and_eq_true, beq_iff_eq] at h; obtain ⟨rfl, rfl⟩ := h; rfl
  · cases h
def RefRec (d : Gen.D) (ch : Expr → Bool) : TableRef → Prop
  | .table s n => tblOK s n = true
  | .sub q => QT d ch q
def TabRec (d : Gen.D) (ch : Expr → Bool) : FromTable → Prop
  | .mk r a => RefRec d ch r ∧ optAliasOK a = true
/-- the first token of a table reference is no word of a join phrase -/
theorem ref_noJoinWord (r : TableRef) (hr : RefRec d ch r) : ∃ t, toksRef3 d ch r = [t] ∧ ∀ e ∈ Gen.joinTypes, ∀ k ∈ e.2, t.equalsStr k = false := by
  cases r with
  | table s n =>
    simp only [RefRec, tblOK, Bool.and_eq_true, List.all_eq_true, Bool.not_eq_true'] at hr
    exact ⟨_, by simp only [toksRef3], hr.2⟩
  | sub q => exact ⟨grp (toksQ d ch q), by simp only [toksRef3], fun _ _ _ _ => rfl⟩

theorem fromTable (t : FromTable) (ht : TabRec d ch t) (fol : List Tok) (hf : Fol d fol) :
    OkAt (fun f => pFromTable d f (toksTable3 d ch t ++ fol)) (20 * sizeL (toksTable3 d ch t) + 2) (t, fol) := by
  obtain ⟨tr, a⟩ := t
  obtain ⟨hr, hal⟩ := ht
  obtain ⟨ha, _, hdot⟩ := alias_any a hal fol hf
  cases tr with
  | table sch n =>
    simp only [RefRec, tblOK, Bool.and_eq_true, Bool.not_eq_true', List.isEmpty_iff] at hr
    obtain ⟨⟨⟨⟨hN, hP⟩, hC⟩, hsp⟩, _⟩ := hr
    have hsp' := isOkPair_eq hsp
    intro f hf'
    obtain ⟨g, rfl⟩ : ∃ g, f = g + 2 := ⟨f - 2, by simp only [toksTable3, toksRef3, sizeL_append, sizeL_cons] at hf'; omega⟩
    show pFromTable d (g + 2) (toksTable3 d ch (.mk (.table sch n) a) ++ fol) = _
    unfold pFromTable pTableExpr
    simp only [toksTable3, toksRef3, List.cons_append, List.nil_append, List.append_assoc, headChildren, hC, startsSelect, searchSetUp,
      Bool.false_eq_true, if_false, searchMark, hP]
    unfold pTableName
    simp only [hN, Bool.not_true, Bool.false_eq_true, if_false, hdot, hsp', ha]
  | sub q =>
    simp only [RefRec] at hr
    obtain ⟨x, hx⟩ := hr.head
    have hs : startsSelect (toksQ d ch q) = true := by rw [hx]; exact select_starts x
    intro f hf'
    simp only [toksTable3, toksRef3, sizeL_append, sizeL_cons, size_grp, sizeL] at hf'
    obtain ⟨g, rfl⟩ : ∃ g, f = g + 2 := ⟨f - 2, by omega⟩
    have h1 := subq_ok q hr (aliasToks a ++ fol) g (by omega)
    show pFromTable d (g + 2) (toksTable3 d ch (.mk (.sub q) a) ++ fol) = _
    unfold pFromTable pTableExpr
    simp only [toksTable3, toksRef3, List.cons_append, List.nil_append, List.append_assoc, headChildren, children_grp, hs, if_true, h1, ha]

theorem toksTablesTail3_cons (t : FromTable) (ts) : toksTablesTail3 d ch (t :: ts) = commaTok :: (toksTable3 d ch t ++ toksTablesTail3 d ch ts) := by
  simp only [toksTablesTail3]
theorem tablesTail_shape (ts : List FromTable) : toksTablesTail3 d ch ts = [] ∨ ∃ x, toksTablesTail3 d ch ts = commaTok :: x := by
  cases ts with
  | nil => left; simp only [toksTablesTail3]
  | cons c cs => right; exact ⟨_, toksTablesTail3_cons c cs⟩
theorem fromTables (fol : List Tok) (hf : Fol d fol) (hc : searchStr fol "," = false) :
    ∀ (ts : List FromTable), (∀ t ∈ ts, TabRec d ch t) → ∀ acc,
    OkAt (fun f => pFromTables d f acc (toksTablesTail3 d ch ts ++ fol)) (20 * sizeL (toksTablesTail3 d ch ts) + 3) (acc ++ ts, fol) := by
  intro ts
  induction ts with
  | nil =>
    intro _ acc f hf'
    obtain ⟨g, rfl⟩ : ∃ g, f = g + 1 := ⟨f - 1, by omega⟩
    simp [toksTablesTail3, pFromTables, hc]
  | cons t ts ih =>
    intro hts acc f hf'
    have hsz : commaTok.size = 1 := by decide
    simp only [toksTablesTail3_cons, sizeL_cons, sizeL_append, hsz] at hf'
    obtain ⟨g, rfl⟩ : ∃ g, f = g + 1 := ⟨f - 1, by omega⟩
    have h1 : pFromTable d g (toksTable3 d ch t ++ (toksTablesTail3 d ch ts ++ fol)) = .ok (t, toksTablesTail3 d ch ts ++ fol) :=
      fromTable t (hts t (by simp)) _ (Fol.tail (tablesTail_shape ts) hf) g (by omega)
    have h2 := ih (fun c' hc' => hts c' (by simp [hc'])) (acc ++ [t]) g (by omega)
    show pFromTables d (g + 1) acc (toksTablesTail3 d ch (t :: ts) ++ fol) = _
    unfold pFromTables
    simp only [toksTablesTail3_cons, List.cons_append, List.append_assoc, TS.comma_search, if_true, List.drop_succ_cons, List.drop_zero, h1]
    simpa using h2

def FromRec (d : Gen.D) (ch : Expr → Bool) : Option (List FromTable) → Prop
  | none => True
  | some (t :: ts) => TabRec d ch t ∧ ∀ x ∈ ts, TabRec d ch x
  | some [] => False
theorem fromOpt (fr : Option (List FromTable)) (hfr : FromRec d ch fr) (fol : List Tok) (hb : Bd3 d 1 fol = true) :
    OkAt (fun f => pFromOpt d f (toksFrom3 d ch fr ++ fol)) (20 * sizeL (toksFrom3 d ch fr) + 4) (fr, fol) := by
  have hf := Fol.ofBd hb
  have hr1 : rank "FROM" = 1 := by decide
  cases fr with
  | none =>
    intro f hf'
    obtain ⟨g, rfl⟩ : ∃ g, f = g + 1 := ⟨f - 1, by omega⟩
    simp [toksFrom3, pFromOpt, TS.bd_search (b3 hb) "FROM" (by omega)]
  | some l =>
    cases l with
    | nil => exact absurd hfr (by simp [FromRec])
    | cons t ts =>
      simp only [FromRec] at hfr
      intro f hf'
      simp only [toksFrom3, sizeL_cons, sizeL_append, size_opTok] at hf'
      obtain ⟨g, rfl⟩ : ∃ g, f = g + 1 := ⟨f - 1, by omega⟩
      have h1 : pFromTable d g (toksTable3 d ch t ++ (toksTablesTail3 d ch ts ++ fol)) = .ok (t, toksTablesTail3 d ch ts ++ fol) :=
        fromTable t hfr.1 _ (Fol.tail (tablesTail_shape ts) hf) g (by omega)
      have h2 := fromTables fol hf (TS.bd_comma (b3 hb)) ts hfr.2 [t] g (by omega)
      have hs : searchStrUp (opTok "FROM" :: (toksTable3 d ch t ++ (toksTablesTail3 d ch ts ++ fol))) "FROM" = true := by
        have : (opTok "FROM").srcEqUp "FROM" = true := by decide
        simpa [searchStrUp] using this
      show pFromOpt d (g + 1) (toksFrom3 d ch (some (t :: ts)) ++ fol) = _
      unfold pFromOpt
      simp only [toksFrom3, List.cons_append, List.append_assoc, hs, if_true, List.drop_succ_cons, List.drop_zero, h1]
      simp only [h2]; rfl


/-! ### JOINs -/
def RuleRec (d : Gen.D) (ch : Expr → Bool) : Option JoinRule → Prop
  | none => True
  | some (.on e) => RT3 d ch e
  | some (.using _) => False
def JoinRec (d : Gen.D) (ch : Expr → Bool) : Join → Prop
  | .mk ty t rule => joinTyOK d ty = true ∧ TabRec d ch t ∧ RuleRec d ch rule
theorem on_fol (x : List Tok) : Fol d (opTok "ON" :: x) := by
  refine ⟨?_, (TS.on_fol (d := d) x).alias⟩
  have h : stopTok d 14 (opTok "ON") = true := by cases d <;> decide
  exact TP2.stop2_of x h (by decide)
theorem sizeL_ref (r : TableRef) : 1 ≤ sizeL (toksRef3 d ch r) := by
  cases r <;> simp only [toksRef3, sizeL, tblTok] <;> (try split) <;> simp [Tok.size, nameTok, size_grp] <;> omega

theorem join (j : Join) (hj : JoinRec d ch j) (fol : List Tok) (hb : Bd3 d 1 fol = true) :
    OkAt (fun f => pJoin d f (toksJoin3 d ch j ++ fol)) (20 * sizeL (toksJoin3 d ch j) + 20) (j, fol) := by
  obtain ⟨ty, t, rule⟩ := j
  obtain ⟨hty, ht, hrule⟩ := hj
  obtain ⟨hfe, _⟩ := TS.joinTy_parts hty
  obtain ⟨tr, a⟩ := t
  obtain ⟨t0, ht0, hnj⟩ := ref_noJoinWord tr ht.1
  have hfirst : firstEnum Gen.joinTypes (joinWords ty ++ (t0 :: (aliasToks a ++ (toksRule3 d ch rule ++ fol)))) =
      some (ty, t0 :: (aliasToks a ++ (toksRule3 d ch rule ++ fol))) := by
    rw [TS.firstEnum_app _ _ _ _ hnj, hfe]
    simp
  have hfolr : Fol d (toksRule3 d ch rule ++ fol) := by
    cases rule with
    | none => simpa [toksRule3] using Fol.ofBd hb
    | some r => cases r with
      | on e => simp only [toksRule3, List.cons_append]; exact on_fol _
      | «using» u => exact absurd hrule (by simp [RuleRec])
  intro f hf'
  obtain ⟨g, rfl⟩ : ∃ g, f = g + 2 := ⟨f - 2, by omega⟩
  have h1 : pFromTable d (g + 1) (toksTable3 d ch (.mk tr a) ++ (toksRule3 d ch rule ++ fol)) = .ok (.mk tr a, toksRule3 d ch rule ++ fol) :=
    fromTable _ ht _ hfolr (g + 1) (by simp only [toksJoin3, sizeL_append] at hf'; omega)
  show pJoin d (g + 2) (toksJoin3 d ch (.mk ty (.mk tr a) rule) ++ fol) = _
  unfold pJoin
  simp only [toksJoin3, toksTable3, ht0, List.append_assoc, List.cons_append, List.nil_append, hfirst]
  simp only [toksTable3, ht0, List.cons_append, List.nil_append, List.append_assoc] at h1
  simp only [h1]
  unfold pJoinRule
  cases rule with
  | none => simp [toksRule3, TS.bd_onUsing (b3 hb)]
  | some r =>
    cases r with
    | «using» u => exact absurd hrule (by simp [RuleRec])
    | on e =>
      simp only [RuleRec] at hrule
      have ho : onUsingHead (opTok "ON" :: (toksE3 d ch e ++ fol)) = true := by
        have : ["ON", "USING"].contains (up (opTok "ON").src) = true := by decide
        simpa [onUsingHead] using this
      have hs : searchStrUp (opTok "ON" :: (toksE3 d ch e ++ fol)) "ON" = true := by
        have : (opTok "ON").srcEqUp "ON" = true := by decide
        simpa [searchStrUp] using this
      have h2 : pOr d g (toksE3 d ch e ++ fol) = .ok (e, fol) := by
        apply hrule.own.s14 fol (bd3_stops hb) g
        simp only [toksJoin3, toksRule3, sizeL_append, sizeL_cons] at hf'
        omega
      simp [toksRule3, ho, hs, h2]

theorem joins_bd (js : List Join) (hjs : ∀ j ∈ js, JoinRec d ch j) (fol : List Tok) (hb : Bd3 d 2 fol = true) :
    Bd3 d 1 (toksJoins3 d ch js ++ fol) = true ∧ (js ≠ [] → PM.joinHead (toksJoins3 d ch js ++ fol) = true) := by
  cases js with
  | nil => exact ⟨by simpa [toksJoins3] using bd3_mono hb (by omega), fun h => absurd rfl h⟩
  | cons j js =>
    obtain ⟨ty, t, rule⟩ := j
    have := hjs (.mk ty t rule) (by simp)
    obtain ⟨_, t0, ws, hw, hbd, hjh⟩ := TS.joinTy_parts this.1
    have hov : t0.srcEqUp "OVER" = false := by
      cases ho : t0.srcEqUp "OVER" with
      | false => rfl
      | true =>
        simp only [Tok.srcEqUp, beq_iff_eq] at ho
        have : ["JOIN", "INNER", "LEFT", "RIGHT", "FULL", "CROSS"].contains (up t0.src) = true := by simpa [PM.joinHead] using hjh
        rw [ho] at this; exact absurd this (by decide)
    refine ⟨?_, fun _ => ?_⟩
    · simp only [toksJoins3, toksJoin3, hw, List.cons_append]; exact bd3_of _ hbd hov
    · simp only [toksJoins3, toksJoin3, hw, List.cons_append]
      simpa [PM.joinHead] using hjh
theorem sizeL_toksJoin_pos (j : Join) : 1 ≤ sizeL (toksJoin3 d ch j) := by
  obtain ⟨ty, ⟨tr, a⟩, rule⟩ := j
  have := sizeL_ref (d := d) (ch := ch) tr
  simp only [toksJoin3, toksTable3, sizeL_append]; omega
theorem joins (fol : List Tok) (hb : Bd3 d 2 fol = true) :
    ∀ (js : List Join), (∀ j ∈ js, JoinRec d ch j) → ∀ acc,
    OkAt (fun f => pJoins d f true [] acc (toksJoins3 d ch js ++ fol)) (20 * sizeL (toksJoins3 d ch js) + 22) (acc ++ js, fol) := by
  intro js
  induction js with
  | nil =>
    intro _ acc f hf'
    obtain ⟨g, rfl⟩ : ∃ g, f = g + 1 := ⟨f - 1, by omega⟩
    simp [toksJoins3, pJoins, TS.bd_joinHead (b3 hb) (by omega)]
  | cons j js ih =>
    intro hjs acc f hf'
    simp only [toksJoins3, sizeL_append] at hf'
    obtain ⟨g, rfl⟩ : ∃ g, f = g + 1 := ⟨f - 1, by omega⟩
    have hjs' : ∀ j' ∈ js, JoinRec d ch j' := fun j' hj' => hjs j' (by simp [hj'])
    have hnext := (joins_bd js hjs' fol hb).1
    have h1 : pJoin d g (toksJoin3 d ch j ++ (toksJoins3 d ch js ++ fol)) = .ok (j, toksJoins3 d ch js ++ fol) :=
      join j (hjs j (by simp)) _ hnext g (by omega)
    have h2 := ih hjs' (acc ++ [j]) g (by have := sizeL_toksJoin_pos (d := d) (ch := ch) j; omega)
    have hh := (joins_bd (j :: js) hjs fol hb).2 (by simp)
    show pJoins d (g + 1) true [] acc (toksJoins3 d ch (j :: js) ++ fol) = _
    unfold pJoins
    simp only [if_true, hh]
    simp only [toksJoins3, List.append_assoc] at h1 ⊢
    simp only [h1]
    simpa using h2

/-! ### WHERE / HAVING -/
def OptRec (d : Gen.D) (ch : Expr → Bool) : Option Expr → Prop
  | none => True
  | some e => RT3 d ch e
theorem optOr (kw : String) (hk : (opTok kw).srcEqUp kw = true) (k : Nat) (hrk : rank kw ≤ k) (o : Option Expr) (ho : OptRec d ch o)
    (fol : List Tok) (hb : Bd3 d k fol = true) :
    OkAt (fun f => pOptOr d f kw (toksOptE3 d ch kw o ++ fol)) (20 * sizeL (toksOptE3 d ch kw o) + 16) (o, fol) := by
  intro f hf'
  obtain ⟨g, rfl⟩ : ∃ g, f = g + 1 := ⟨f - 1, by omega⟩
  cases o with
  | none => simp [toksOptE3, pOptOr, TS.bd_search (b3 hb) kw hrk]
  | some e =>
    simp only [OptRec] at ho
    simp only [toksOptE3, sizeL_cons] at hf'
    have hs : searchStrUp (opTok kw :: (toksE3 d ch e ++ fol)) kw = true := by simpa [searchStrUp] using hk
    have h2 : pOr d g (toksE3 d ch e ++ fol) = .ok (e, fol) := ho.own.s14 fol (bd3_stops hb) g (by omega)
    show pOptOr d (g + 1) kw (toksOptE3 d ch kw (some e) ++ fol) = _
    unfold pOptOr
    simp [toksOptE3, hs, h2]

/-! ### key lists (GROUP BY, ORDER BY) -/
theorem key8 (e : Expr) (he : RT3 d ch e) (fol : List Tok) (hs : TP2.stopLE2 d 8 fol = true) :
    OkAt (fun f => pCompute d f (W3 d ch e 8 ++ fol)) (20 * sizeL (W3 d ch e 8) + 2) (e, fol) :=
  (he.at 8 (by omega)).s8 (by omega) fol hs
theorem comma_stop8 (x : List Tok) : TP2.stopLE2 d 8 (commaTok :: x) = true := TP2.stopLE2_mono (comma_stops2 (d := d) x) (by omega)
theorem keysTail_shape (es : List Expr) : toksArgsTail3 d ch 8 es = [] ∨ ∃ x, toksArgsTail3 d ch 8 es = commaTok :: x := by
  cases es with
  | nil => left; simp only [toksArgsTail3]
  | cons c cs => right; exact ⟨_, by simp only [toksArgsTail3]; rfl⟩
theorem stop8_tail {tl fol : List Tok} (h : tl = [] ∨ ∃ x, tl = commaTok :: x) (hs : TP2.stopLE2 d 8 fol = true) : TP2.stopLE2 d 8 (tl ++ fol) = true := by
  rcases h with rfl | ⟨x, rfl⟩
  · exact hs
  · exact comma_stop8 _
theorem computeList (fol : List Tok) (hs : TP2.stopLE2 d 8 fol = true) (hc : searchStr fol "," = false) :
    ∀ (es : List Expr), (∀ e ∈ es, RT3 d ch e) → ∀ acc,
    OkAt (fun f => pComputeList d f acc (toksArgsTail3 d ch 8 es ++ fol)) (20 * sizeL (toksArgsTail3 d ch 8 es) + 3) (acc ++ es, fol) := by
  intro es
  induction es with
  | nil =>
    intro _ acc f hf'
    obtain ⟨g, rfl⟩ : ∃ g, f = g + 1 := ⟨f - 1, by omega⟩
    simp [toksArgsTail3, pComputeList, hc]
  | cons e es ih =>
    intro hes acc f hf'
    have hsz : commaTok.size = 1 := by decide
    have e1 : toksArgsTail3 d ch 8 (e :: es) = commaTok :: (W3 d ch e 8 ++ toksArgsTail3 d ch 8 es) := by simp only [toksArgsTail3, W3]; rfl
    simp only [e1, sizeL_cons, sizeL_append, hsz] at hf'
    obtain ⟨g, rfl⟩ : ∃ g, f = g + 1 := ⟨f - 1, by omega⟩
    have h1 : pCompute d g (W3 d ch e 8 ++ (toksArgsTail3 d ch 8 es ++ fol)) = .ok (e, toksArgsTail3 d ch 8 es ++ fol) :=
      key8 e (hes e (by simp)) _ (stop8_tail (keysTail_shape es) hs) g (by omega)
    have h2 := ih (fun c' hc' => hes c' (by simp [hc'])) (acc ++ [e]) g (by omega)
    show pComputeList d (g + 1) acc (toksArgsTail3 d ch 8 (e :: es) ++ fol) = _
    unfold pComputeList
    simp only [e1, List.cons_append, List.append_assoc, TS.comma_search, if_true, List.drop_succ_cons, List.drop_zero, h1]
    simpa using h2

def GroupRec (d : Gen.D) (ch : Expr → Bool) : Option GroupBy → Prop
  | none => True
  | some (.mk (e :: es) none false false) => RT3 d ch e ∧ (∀ x ∈ es, RT3 d ch x) ∧ searchStrUp (W3 d ch e 8) "GROUPING" = false
  | _ => False
theorem groupBy (gb : Option GroupBy) (hg : GroupRec d ch gb) (fol : List Tok) (hb : Bd3 d 4 fol = true) :
    OkAt (fun f => pGroupBy d f (toksGroup3 d ch gb ++ fol)) (20 * sizeL (toksGroup3 d ch gb) + 6) (gb, fol) := by
  have r4 : rank "GROUP" = 4 := by decide
  have r0 : rank "GROUPING" = 0 := by decide
  have rw0 : rank "WITH" = 0 := by decide
  have hb' := b3 hb
  have hs8 : TP2.stopLE2 d 8 fol = true := TP2.stopLE2_mono (bd3_stops hb) (by omega)
  cases gb with
  | none =>
    intro f hf'
    obtain ⟨g, rfl⟩ : ∃ g, f = g + 1 := ⟨f - 1, by omega⟩
    simp [toksGroup3, pGroupBy, TS.bd_search2 hb' "GROUP" "BY" (by omega)]
  | some gbv =>
    obtain ⟨cols, sets, cube, rollup⟩ := gbv
    cases cols with
    | nil => exact absurd hg (by simp [GroupRec])
    | cons e es =>
      cases sets with
      | some l => exact absurd hg (by simp [GroupRec])
      | none =>
        cases cube with
        | true => exact absurd hg (by simp [GroupRec])
        | false =>
          cases rollup with
          | true => exact absurd hg (by simp [GroupRec])
          | false =>
            simp only [GroupRec] at hg
            obtain ⟨he, hes, hnog⟩ := hg
            have e1 : toksGroup3 d ch (some (.mk (e :: es) none false false)) = opTok "GROUP" :: opTok "BY" :: (W3 d ch e 8 ++ toksArgsTail3 d ch 8 es) := by
              simp only [toksGroup3, W3]
            intro f hf'
            simp only [e1, sizeL_cons, sizeL_append, size_opTok] at hf'
            obtain ⟨g, rfl⟩ : ∃ g, f = g + 3 := ⟨f - 3, by omega⟩
            have hst : searchTwoUp (opTok "GROUP" :: opTok "BY" :: (W3 d ch e 8 ++ (toksArgsTail3 d ch 8 es ++ fol))) "GROUP" "BY" = true := by
              have h1 : (opTok "GROUP").srcEqUp "GROUP" = true := by decide
              have h2 : (opTok "BY").srcEqUp "BY" = true := by decide
              simp [searchTwoUp, h1, h2]
            have hng : searchTwoUp (W3 d ch e 8 ++ (toksArgsTail3 d ch 8 es ++ fol)) "GROUPING" "SETS" = false := by
              obtain ⟨t, ts', hw, _⟩ := he.headW 8
              rw [hw] at hnog ⊢
              have : t.srcEqUp "GROUPING" = false := by simpa [searchStrUp] using hnog
              cases hx : ts' ++ (toksArgsTail3 d ch 8 es ++ fol) with
              | nil => simp [searchTwoUp, hx]
              | cons y r => simp [searchTwoUp, hx, this]
            have h1 : pCompute d (g + 1) (W3 d ch e 8 ++ (toksArgsTail3 d ch 8 es ++ fol)) = .ok (e, toksArgsTail3 d ch 8 es ++ fol) :=
              key8 e he _ (stop8_tail (keysTail_shape es) hs8) (g + 1) (by omega)
            have h2 := computeList fol hs8 (TS.bd_comma hb') es hes [e] (g + 1) (by omega)
            show pGroupBy d (g + 3) (toksGroup3 d ch (some (.mk (e :: es) none false false)) ++ fol) = _
            unfold pGroupBy
            simp only [e1, List.cons_append, List.append_assoc, hst, Bool.not_true, Bool.false_eq_true, if_false, List.drop_succ_cons,
              List.drop_zero]
            unfold pGroupCols
            simp only [hng, Bool.false_eq_true, if_false, h1, h2]
            unfold pGroupSetsOpt
            simp [TS.bd_search2 hb' "GROUPING" "SETS" (by omega), moveTwoUp, TS.bd_search2 hb' "WITH" "CUBE" (by omega),
              TS.bd_search2 hb' "WITH" "ROLLUP" (by omega)]

/-! ### ORDER BY -/
structure OFol (d : Gen.D) (fol : List Tok) : Prop where
  desc : searchStrUp fol "DESC" = false
  asc : searchStrUp fol "ASC" = false
  nf : searchTwoUp fol "NULLS" "FIRST" = false
  nl : searchTwoUp fol "NULLS" "LAST" = false
  stop8 : TP2.stopLE2 d 8 fol = true
theorem OFol.ofBd {k : Nat} {fol : List Tok} (h : Bd3 d k fol = true) : OFol d fol := by
  have o := TS.OFol.ofBd (b3 h)
  exact ⟨o.desc, o.asc, o.nf, o.nl, TP2.stopLE2_mono (bd3_stops h) (by omega)⟩
theorem OFol.comma (x : List Tok) : OFol d (commaTok :: x) := by
  have o := TS.OFol.comma (d := d) x
  exact ⟨o.desc, o.asc, o.nf, o.nl, comma_stop8 x⟩
theorem OFol.tail {tl fol : List Tok} (h : tl = [] ∨ ∃ x, tl = commaTok :: x) (hf : OFol d fol) : OFol d (tl ++ fol) := by
  rcases h with rfl | ⟨x, rfl⟩
  · exact hf
  · exact OFol.comma _
theorem desc_stop8 (x : List Tok) : TP2.stopLE2 d 8 (opTok "DESC" :: x) = true := by
  have h : stopTok d 8 (opTok "DESC") = true := by cases d <;> decide
  exact TP2.stop2_of x h (by decide)
theorem OFol.old {fol : List Tok} (h : OFol d fol) : TS.OFol d fol := ⟨h.desc, h.asc, h.nf, h.nl, TP2.sl h.stop8⟩
def OrdRec (d : Gen.D) (ch : Expr → Bool) : OrderItem → Prop
  | .mk e _ nf nl => RT3 d ch e ∧ nf = false ∧ nl = false
theorem orderItem (o : OrderItem) (ho : OrdRec d ch o) (fol : List Tok) (hf : OFol d fol) :
    OkAt (fun f => pOrderItem d f (toksOrdItem3 d ch o ++ fol)) (20 * sizeL (toksOrdItem3 d ch o) + 3) (o, fol) := by
  obtain ⟨e, desc, nf, nl⟩ := o
  obtain ⟨he, hnf, hnl⟩ := ho
  subst hnf; subst hnl
  have e1 : toksOrdItem3 d ch (.mk e desc false false) = W3 d ch e 8 ++ (if desc then [opTok "DESC"] else []) := by simp only [toksOrdItem3, W3]
  intro f hf'
  simp only [e1, sizeL_append] at hf'
  obtain ⟨g, rfl⟩ : ∃ g, f = g + 1 := ⟨f - 1, by omega⟩
  have hs : TP2.stopLE2 d 8 ((if desc then [opTok "DESC"] else []) ++ fol) = true := by
    cases desc with
    | true => exact desc_stop8 _
    | false => exact hf.stop8
  have h1 : pCompute d g (W3 d ch e 8 ++ ((if desc then [opTok "DESC"] else []) ++ fol)) =
      .ok (e, (if desc then [opTok "DESC"] else []) ++ fol) := key8 e he _ hs g (by omega)
  show pOrderItem d (g + 1) (toksOrdItem3 d ch (.mk e desc false false) ++ fol) = _
  unfold pOrderItem
  simp only [e1, List.append_assoc, h1, TS.orderTail_ok e desc fol hf.old]

theorem toksOrdTail3_cons (o : OrderItem) (os) : toksOrdTail3 d ch (o :: os) = commaTok :: (toksOrdItem3 d ch o ++ toksOrdTail3 d ch os) := by
  simp only [toksOrdTail3]
theorem ordTail_shape (os : List OrderItem) : toksOrdTail3 d ch os = [] ∨ ∃ x, toksOrdTail3 d ch os = commaTok :: x := by
  cases os with
  | nil => left; simp only [toksOrdTail3]
  | cons c cs => right; exact ⟨_, toksOrdTail3_cons c cs⟩
theorem orderList (fol : List Tok) (hf : OFol d fol) (hc : searchStr fol "," = false) :
    ∀ (os : List OrderItem), (∀ o ∈ os, OrdRec d ch o) → ∀ acc,
    OkAt (fun f => pOrderList d f acc (toksOrdTail3 d ch os ++ fol)) (20 * sizeL (toksOrdTail3 d ch os) + 4) (acc ++ os, fol) := by
  intro os
  induction os with
  | nil =>
    intro _ acc f hf'
    obtain ⟨g, rfl⟩ : ∃ g, f = g + 1 := ⟨f - 1, by omega⟩
    simp [toksOrdTail3, pOrderList, hc]
  | cons o os ih =>
    intro hos acc f hf'
    have hsz : commaTok.size = 1 := by decide
    simp only [toksOrdTail3_cons, sizeL_cons, sizeL_append, hsz] at hf'
    obtain ⟨g, rfl⟩ : ∃ g, f = g + 1 := ⟨f - 1, by omega⟩
    have h1 : pOrderItem d g (toksOrdItem3 d ch o ++ (toksOrdTail3 d ch os ++ fol)) = .ok (o, toksOrdTail3 d ch os ++ fol) :=
      orderItem o (hos o (by simp)) _ (OFol.tail (ordTail_shape os) hf) g (by omega)
    have h2 := ih (fun c' hc' => hos c' (by simp [hc'])) (acc ++ [o]) g (by omega)
    show pOrderList d (g + 1) acc (toksOrdTail3 d ch (o :: os) ++ fol) = _
    unfold pOrderList
    simp only [toksOrdTail3_cons, List.cons_append, List.append_assoc, TS.comma_search, if_true, List.drop_succ_cons, List.drop_zero, h1]
    simpa using h2
def OrderRec (d : Gen.D) (ch : Expr → Bool) : Option (List OrderItem) → Prop
  | none => True
  | some (o :: os) => OrdRec d ch o ∧ ∀ x ∈ os, OrdRec d ch x
  | some [] => False
theorem orderBy (ob : Option (List OrderItem)) (ho : OrderRec d ch ob) (fol : List Tok) (hb : Bd3 d 6 fol = true) :
    OkAt (fun f => pOrderByOpt d f (toksOrder3 d ch ob ++ fol)) (20 * sizeL (toksOrder3 d ch ob) + 6) (ob, fol) := by
  have r6 : rank "ORDER" = 6 := by decide
  cases ob with
  | none =>
    intro f hf'
    obtain ⟨g, rfl⟩ : ∃ g, f = g + 1 := ⟨f - 1, by omega⟩
    simp [toksOrder3, pOrderByOpt, TS.bd_search2 (b3 hb) "ORDER" "BY" (by omega)]
  | some l =>
    cases l with
    | nil => exact absurd ho (by simp [OrderRec])
    | cons o os =>
      simp only [OrderRec] at ho
      intro f hf'
      simp only [toksOrder3, sizeL_cons, sizeL_append, size_opTok] at hf'
      obtain ⟨g, rfl⟩ : ∃ g, f = g + 1 := ⟨f - 1, by omega⟩
      have hst : searchTwoUp (opTok "ORDER" :: opTok "BY" :: (toksOrdItem3 d ch o ++ (toksOrdTail3 d ch os ++ fol))) "ORDER" "BY" = true := by
        have h1 : (opTok "ORDER").srcEqUp "ORDER" = true := by decide
        have h2 : (opTok "BY").srcEqUp "BY" = true := by decide
        simp [searchTwoUp, h1, h2]
      have hfo := OFol.ofBd hb
      have h1 : pOrderItem d g (toksOrdItem3 d ch o ++ (toksOrdTail3 d ch os ++ fol)) = .ok (o, toksOrdTail3 d ch os ++ fol) :=
        orderItem o ho.1 _ (OFol.tail (ordTail_shape os) hfo) g (by omega)
      have h2 := orderList fol hfo (TS.bd_comma (b3 hb)) os ho.2 [o] g (by omega)
      show pOrderByOpt d (g + 1) (toksOrder3 d ch (some (o :: os)) ++ fol) = _
      unfold pOrderByOpt
      simp only [toksOrder3, List.cons_append, List.append_assoc, hst, if_true, List.drop_succ_cons, List.drop_zero, h1]
      simp only [h2]; rfl

end TQ
