import MsqProofs.Lemmas.LexLinkQuery
/-!
# The lexer link for nested queries: the `List Char` mirror of the printer on `TQ.FragQ`, the leaf payloads

* `prE3L d e` / `prS3L d s` / `prQL d q` — what `PR.prE` / `PR.prS` / `PR.prQ` write on the nested fragment, as character lists, in ONE
  mutually recursive block shaped like the printer (pieces joined by `joinLL`), so that `String` never has to be reduced;
* `leavesE` / `leavesS` / `leavesQ` — the payloads of a tree (column names, literal payloads, names of calls, aliases, table names) as a
  LIST of `LeafItem`s: every hypothesis about payloads is a predicate on items, required of all members of that list;
* `leafOK d x` — what the link genuinely needs of a payload (the lexer reads it back as the token the token-level printer expects);
  `leafOKB` a decidable sufficient condition;
* `QKit` — a property of texts that holds of the empty text and survives joining with "safe" separators, for the two instances
  "no character the lexer's pre-pass rewrites" and "`==` does not occur" (Hive pre-pass).
-/
set_option linter.unusedVariables false
set_option linter.unusedSimpArgs false
namespace LexLink
open Lex Spec C05 C06 C09 Ast TP TS TQ

/-! ## text pieces -/

/-- `tableNameSrc s n` -/
def tblL (s : Option String) (n : String) : List Char :=
  match s with
  | none => '`' :: (n.toList ++ ['`'])
  | some s => '`' :: (s.toList ++ '.' :: (n.toList ++ ['`']))
/-- `fnameSrc s n` -/
def fnameL (s : Option String) (n : String) : List Char :=
  match s with
  | none => qnameL n
  | some s => '`' :: (s.toList ++ '`' :: '.' :: qnameL n)
def unionWordsL (ty : String) : List Char :=
  match Gen.unionTypes.find? (·.1 == ty) with | some e => joinLL [' '] (e.2.map String.toList) | none => []
def ind4 (l : List Char) : List Char := ' ' :: ' ' :: ' ' :: ' ' :: l

mutual
def prE3L (d : Gen.D) : Expr → List Char
  | .column none c => '`' :: (c.toList ++ ['`'])
  | .column (some t) c => '`' :: (t.toList ++ '`' :: '.' :: '`' :: (c.toList ++ ['`']))
  | .literal v => v.toList
  | .wildcard none => ['*']
  | .wildcard (some t) => qnameL t ++ ['.', '*']
  | .func s n ps => fnameL s n ++ '(' :: (joinLL [',', ' '] (prListLL d ps) ++ [')'])
  | .agg n ps dist => n.toList ++ '(' :: ((if dist then "DISTINCT ".toList else []) ++ (joinLL [',', ' '] (prListLL d ps) ++ [')']))
  | .caseCond cs els => joinLL [' '] ("CASE".toList :: (prArmsLL d cs ++ (prElseLL d els ++ ["END".toList])))
  | .caseVal v cs els =>
      joinLL ['\n'] ("CASE".toList :: prE3L d v :: ((prArmsLL d cs).map ind4 ++ ((prElseLL d els).map ind4 ++ ["END".toList])))
  | .subValue vs => '(' :: (joinLL [',', ' '] (prList8LL d vs) ++ [')'])
  | .subQuery q => '(' :: (prQL d q ++ [')'])
  | .exists_ v => "EXISTS".toList ++ ' ' :: prE3L d v
  | .unary o e =>
      if (cval o).toList = ['-'] ∧ (wrapL e 2 (prE3L d e)).head? = some '-' then (cval o).toList ++ ' ' :: wrapL e 2 (prE3L d e)
      else (cval o).toList ++ wrapL e 2 (prE3L d e)
  | .compute l o r =>
      wrapL l (PR.lvl (.compute l o r)) (prE3L d l) ++ ' ' :: ((cval o).toList ++ ' ' :: wrapL r (PR.lvl (.compute l o r) - 1) (prE3L d r))
  | .kw k n l r => wrapL l 9 (prE3L d l) ++ ' ' :: ((PR.kwSrc k n).toList ++ ' ' :: wrapL r 8 (prE3L d r))
  | .between n b f t =>
      wrapL b 9 (prE3L d b) ++ ' ' :: ((if n then "NOT ".toList else []) ++ ("BETWEEN".toList ++ ' ' ::
        (wrapL f 8 (prE3L d f) ++ ' ' :: ("AND".toList ++ ' ' :: wrapL t 8 (prE3L d t)))))
  | .compare o l r => wrapL l 10 (prE3L d l) ++ ' ' :: ((cmpVal o).toList ++ ' ' :: wrapL r 9 (prE3L d r))
  | .not_ e => "NOT".toList ++ ' ' :: wrapL e 11 (prE3L d e)
  | .and_ l r => wrapL l 12 (prE3L d l) ++ ' ' :: ("AND".toList ++ ' ' :: wrapL r 11 (prE3L d r))
  | .xor l r => wrapL l 13 (prE3L d l) ++ ' ' :: ("XOR".toList ++ ' ' :: wrapL r 12 (prE3L d r))
  | .or_ l r => wrapL l 14 (prE3L d l) ++ ' ' :: ("OR".toList ++ ' ' :: wrapL r 13 (prE3L d r))
  | _ => []
def prListLL (d : Gen.D) : List Expr → List (List Char)
  | [] => []
  | a :: as => prE3L d a :: prListLL d as
def prList8LL (d : Gen.D) : List Expr → List (List Char)
  | [] => []
  | a :: as => wrapL a 8 (prE3L d a) :: prList8LL d as
def prArmsLL (d : Gen.D) : List (Expr × Expr) → List (List Char)
  | [] => []
  | (w, t) :: r => ("WHEN".toList ++ ' ' :: (prE3L d w ++ ' ' :: ("THEN".toList ++ ' ' :: prE3L d t))) :: prArmsLL d r
def prElseLL (d : Gen.D) : Option Expr → List (List Char)
  | none => []
  | some y => ["ELSE".toList ++ ' ' :: prE3L d y]
def prQL (d : Gen.D) : Query → List Char
  | .single s => prS3L d s
  | .union _ s us => joinLL ['\n'] (prS3L d s :: prUnLL d us)
def prUnLL (d : Gen.D) : List (String × Select) → List (List Char)
  | [] => []
  | (t, s) :: r => unionWordsL t :: prS3L d s :: prUnLL d r
def prS3L (d : Gen.D) : Select → List Char
  | .mk _ dist cols fr _ js wh gb hv ob _ _ _ lm =>
      joinLL ['\n'] (("SELECT".toList ++ ' ' :: ((if dist then "DISTINCT ".toList else []) ++ joinLL [',', ' '] (prColsLL d cols))) ::
        (fromLL d fr ++ (joinsLL d js ++ (optLL d "WHERE" wh ++ (groupLL d gb ++ (optLL d "HAVING" hv ++ (orderLL d ob ++
          (limitC lm).map (·.1))))))))
def prColsLL (d : Gen.D) : List (Expr × Option String) → List (List Char)
  | [] => []
  | (e, a) :: cs => (prE3L d e ++ aliasL a) :: prColsLL d cs
def refL (d : Gen.D) : TableRef → List Char
  | .table s n => tblL s n
  | .sub q => '(' :: (prQL d q ++ [')'])
def tableL3 (d : Gen.D) : FromTable → List Char
  | .mk t a => refL d t ++ aliasL a
def tablesLL (d : Gen.D) : List FromTable → List (List Char)
  | [] => []
  | t :: ts => tableL3 d t :: tablesLL d ts
def fromLL (d : Gen.D) : Option (List FromTable) → List (List Char)
  | some (t :: ts) => ["FROM".toList ++ ' ' :: joinLL [',', ' '] (tableL3 d t :: tablesLL d ts)]
  | _ => []
def ruleL3 (d : Gen.D) : Option JoinRule → List Char
  | some (.on e) => ' ' :: ("ON".toList ++ ' ' :: prE3L d e)
  | _ => []
def joinL3 (d : Gen.D) : Join → List Char
  | .mk ty t rule => joinWordsL ty ++ ' ' :: (tableL3 d t ++ ruleL3 d rule)
def joinsLL (d : Gen.D) : List Join → List (List Char)
  | [] => []
  | j :: js => joinL3 d j :: joinsLL d js
def optLL (d : Gen.D) (kw : String) : Option Expr → List (List Char)
  | some e => [kw.toList ++ ' ' :: prE3L d e]
  | none => []
def groupLL (d : Gen.D) : Option GroupBy → List (List Char)
  | some (.mk (e :: es) _ _ _) => ["GROUP".toList ++ ' ' :: ("BY".toList ++ ' ' :: joinLL [',', ' '] (wrapL e 8 (prE3L d e) :: prList8LL d es))]
  | _ => []
def ordItemL3 (d : Gen.D) : OrderItem → List Char
  | .mk e desc _ _ => wrapL e 8 (prE3L d e) ++ (if desc then ' ' :: "DESC".toList else [])
def ordLL (d : Gen.D) : List OrderItem → List (List Char)
  | [] => []
  | o :: os => ordItemL3 d o :: ordLL d os
def orderLL (d : Gen.D) : Option (List OrderItem) → List (List Char)
  | some (o :: os) => ["ORDER".toList ++ ' ' :: ("BY".toList ++ ' ' :: joinLL [',', ' '] (ordItemL3 d o :: ordLL d os))]
  | _ => []
end

/-! ## the payloads of a tree -/

inductive LeafItem
  | col (t : Option String) (c : String)
  | lit (v : String)
  | wild (t : String)
  | fn (s : Option String) (n : String)
  | agg (n : String)
  | alias (a : String)
  | tbl (s : Option String) (n : String)

def leavesAlias : Option String → List LeafItem
  | none => []
  | some a => [.alias a]

mutual
def leavesE : Expr → List LeafItem
  | .column t c => [.col t c]
  | .literal v => [.lit v]
  | .wildcard none => []
  | .wildcard (some t) => [.wild t]
  | .func s n ps => .fn s n :: leavesL ps
  | .agg n ps _ => .agg n :: leavesL ps
  | .caseCond cs els => leavesA cs ++ leavesO els
  | .caseVal v cs els => leavesE v ++ (leavesA cs ++ leavesO els)
  | .subValue vs => leavesL vs
  | .subQuery q => leavesQ q
  | .exists_ v => leavesE v
  | .unary _ e => leavesE e
  | .compute l _ r => leavesE l ++ leavesE r
  | .kw _ _ l r => leavesE l ++ leavesE r
  | .between _ b f t => leavesE b ++ (leavesE f ++ leavesE t)
  | .compare _ l r => leavesE l ++ leavesE r
  | .not_ e => leavesE e
  | .and_ l r => leavesE l ++ leavesE r
  | .xor l r => leavesE l ++ leavesE r
  | .or_ l r => leavesE l ++ leavesE r
  | _ => []
def leavesL : List Expr → List LeafItem
  | [] => []
  | a :: as => leavesE a ++ leavesL as
def leavesA : List (Expr × Expr) → List LeafItem
  | [] => []
  | (w, t) :: r => leavesE w ++ (leavesE t ++ leavesA r)
def leavesO : Option Expr → List LeafItem
  | none => []
  | some y => leavesE y
def leavesQ : Query → List LeafItem
  | .single s => leavesS s
  | .union _ s us => leavesS s ++ leavesUn us
def leavesUn : List (String × Select) → List LeafItem
  | [] => []
  | (_, s) :: r => leavesS s ++ leavesUn r
def leavesS : Select → List LeafItem
  | .mk _ _ cols fr _ js wh gb hv ob _ _ _ _ =>
      leavesCols cols ++ (leavesFrom fr ++ (leavesJoins js ++ (leavesO wh ++ (leavesGroup gb ++ (leavesO hv ++ leavesOrder ob)))))
def leavesCols : List (Expr × Option String) → List LeafItem
  | [] => []
  | (e, a) :: cs => leavesE e ++ (leavesAlias a ++ leavesCols cs)
def leavesRef : TableRef → List LeafItem
  | .table s n => [.tbl s n]
  | .sub q => leavesQ q
def leavesTable : FromTable → List LeafItem
  | .mk t a => leavesRef t ++ leavesAlias a
def leavesTables : List FromTable → List LeafItem
  | [] => []
  | t :: ts => leavesTable t ++ leavesTables ts
def leavesFrom : Option (List FromTable) → List LeafItem
  | none => []
  | some ts => leavesTables ts
def leavesRule : Option JoinRule → List LeafItem
  | some (.on e) => leavesE e
  | _ => []
def leavesJoin : Join → List LeafItem
  | .mk _ t rule => leavesTable t ++ leavesRule rule
def leavesJoins : List Join → List LeafItem
  | [] => []
  | j :: js => leavesJoin j ++ leavesJoins js
def leavesGroup : Option GroupBy → List LeafItem
  | some (.mk es _ _ _) => leavesL es
  | none => []
def leavesOrdItem : OrderItem → List LeafItem
  | .mk e _ _ _ => leavesE e
def leavesOrdL : List OrderItem → List LeafItem
  | [] => []
  | o :: os => leavesOrdItem o ++ leavesOrdL os
def leavesOrder : Option (List OrderItem) → List LeafItem
  | none => []
  | some os => leavesOrdL os
end

/-- every member of the list satisfies `P` -/
def On (P : LeafItem → Prop) (l : List LeafItem) : Prop := ∀ x ∈ l, P x
@[simp] theorem on_nil (P : LeafItem → Prop) : On P [] ↔ True := by simp [On]
@[simp] theorem on_cons (P : LeafItem → Prop) (a : LeafItem) (l : List LeafItem) : On P (a :: l) ↔ P a ∧ On P l := by simp [On]
@[simp] theorem on_append (P : LeafItem → Prop) (l1 l2 : List LeafItem) : On P (l1 ++ l2) ↔ On P l1 ∧ On P l2 := by
  simp only [On, List.mem_append]
  exact ⟨fun h => ⟨fun x hx => h x (Or.inl hx), fun x hx => h x (Or.inr hx)⟩, fun h x hx => hx.elim (h.1 x) (h.2 x)⟩

/-! ## what the link needs of a payload -/

/-- a qualified column is printed as two back-quoted names around a dot; both free of back-quotes and pre-pass characters -/
def qcolLex (d : Gen.D) (t c : String) : Prop :=
  (PR.columnSrc d (some t) c).toList = '`' :: (t.toList ++ '`' :: '.' :: '`' :: (c.toList ++ ['`'])) ∧ nameLex t ∧ nameLex c
def optNameLex : Option String → Prop
  | none => True
  | some s => nameLex s
/-- **the leaf hypotheses**: column names printed back-quoted verbatim (`colLex` / `qcolLex`), literal payloads the lexer reads as one
token (`litLex`), names of wildcards / functions / schemas / tables without back-quote and pre-pass characters (`nameLex`; they are
printed bare or back-quoted by `quoteName`), aggregate names plain words, aliases plain non-keywords (`aliasLex`) -/
def leafOK (d : Gen.D) : LeafItem → Prop
  | .col none c => colLex d c
  | .col (some t) c => qcolLex d t c
  | .lit v => litLex v
  | .wild t => nameLex t
  | .fn s n => optNameLex s ∧ nameLex n
  | .agg n => PR.isPlainName n = true
  | .alias a => aliasLex a
  | .tbl s n => optNameLex s ∧ nameLex n

/-- the payload strings of an item -/
def strs : LeafItem → List String
  | .col none c => [c]
  | .col (some t) c => [t, c]
  | .lit v => [v]
  | .wild t => [t]
  | .fn none n => [n]
  | .fn (some s) n => [s, n]
  | .agg n => [n]
  | .alias a => [a]
  | .tbl none n => [n]
  | .tbl (some s) n => [s, n]

/-! ## properties of texts that survive the printer's separators -/

def allWords : List String := keywords ++ clauseWords ++ queryWords

structure QKit where
  Q : List Char → Prop
  safe : Char → Prop
  nil : Q []
  sep : ∀ (a b : List Char) (c : Char), safe c → Q a → Q b → Q (a ++ c :: b)
  s_sp : safe ' '
  s_cm : safe ','
  s_nl : safe '\n'
  s_lp : safe '('
  s_rp : safe ')'
  s_bq : safe '`'
  s_dot : safe '.'
  s_un : safe '!' ∧ safe '+' ∧ safe '-' ∧ safe '~'
  num : ∀ n : Int, 0 ≤ n → Q (toString n).toList
  words : ∀ k ∈ allWords, Q k.toList
  cops : ∀ e ∈ Gen.computeEnum, Q e.2.1.toList
  cmps : ∀ e ∈ Gen.compareEnum, ∀ x, e.2 = [x] → Q x.toList
  jws : ∀ e ∈ Gen.joinTypes, ∀ w ∈ e.2, Q w.toList
  uws : ∀ e ∈ Gen.unionTypes, ∀ w ∈ e.2, Q w.toList

/-- the kit's property holds of every payload string of the item -/
def QKit.item (K : QKit) (x : LeafItem) : Prop := ∀ s ∈ strs x, K.Q s.toList

/-- the hypotheses on the payloads of a tree -/
def Lv (d : Gen.D) (K : QKit) (l : List LeafItem) : Prop := On (fun x => leafOK d x ∧ K.item x) l

end LexLink
