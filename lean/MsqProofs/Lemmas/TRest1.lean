import MsqProofs.Lemmas.TRest0
/-!
# T-parse for the remaining statement classes: what may follow, and the statements without sub-structure (C03 / C01)

* `stopsAny` unfolded: the continuation is empty or starts with a leaf of source `;` that continues nothing (`sa_*`);
* DROP TABLE [IF EXISTS], TRUNCATE TABLE, MSCK REPAIR TABLE, USE, SET k = v (dotted / dashed configuration strings), SHOW DATABASES,
  SHOW TABLES, ANALYZE TABLE (Hive rendering with PARTITION and the three flags; the bare MySQL rendering).
-/
set_option linter.unusedVariables false
set_option linter.unusedSimpArgs false
set_option maxHeartbeats 1000000
open Lex PM Ast TP TS
namespace TR
variable {d : Gen.D}

/-! ### the table token -/
theorem tbl_eq (t : TableName) : tbl t = nameTok (TD.tblStr t) := by
  obtain ⟨s, n⟩ := t
  cases s with
  | none => rfl
  | some s => simp [tbl, TQ.tblTok, nameTok, TD.tblStr, String.toList_append]

/-! ### what may follow a statement -/
theorem equalsStr_src {t : Tok} {k : String} (h : t.equalsStr k = true) : up t.src = up k := by
  cases t with
  | single s m => simpa [Tok.equalsStr, Tok.src, Tok.source] using h
  | group k' cs m => simp [Tok.equalsStr] at h

/-- `stopsAny` unfolded -/
theorem sa_cases {rest : List Tok} (h : stopsAny d rest = true) :
    rest = [] ∨ ∃ t x, rest = t :: x ∧ t.src = ";" := by
  simp only [stopsAny, TD.endsC, Bool.and_eq_true, Bool.or_eq_true] at h
  cases rest with
  | nil => exact Or.inl rfl
  | cons t x =>
    right
    refine ⟨t, x, rfl, ?_⟩
    rcases h.2 with h2 | h2
    · simp at h2
    · simpa [searchStr, Tok.srcEq] using h2
theorem sa_bd {rest : List Tok} (h : stopsAny d rest = true) : TQ.Bd3 d 7 rest = true := by
  simp only [stopsAny, Bool.and_eq_true] at h
  exact TDM.stops_bd h.1
theorem sa_stmt {rest : List Tok} (h : stopsAny d rest = true) : TDM.stopsStmt d rest = true := by
  simp only [stopsAny, Bool.and_eq_true] at h; exact h.1
theorem sa_ends {rest : List Tok} (h : stopsAny d rest = true) : TD.endsC rest = true := by
  simp only [stopsAny, Bool.and_eq_true] at h; exact h.2
theorem sa_q2 {rest : List Tok} (h : stopsAny d rest = true) : TQ2.stopsQ2 d rest = true :=
  TQ2.stopsQ2_of_stopsQ (sa_stmt h)
theorem sa_up {rest : List Tok} (h : stopsAny d rest = true) (k : String) (hk : k ≠ ";") : searchStrUp rest k = false := by
  rcases sa_cases h with rfl | ⟨t, x, rfl, ht⟩
  · rfl
  · simp only [searchStrUp, Tok.srcEqUp, ht, up_semi, beq_eq_false_iff_ne, ne_eq]; exact fun e => hk e.symm
theorem sa_str {rest : List Tok} (h : stopsAny d rest = true) (k : String) (hk : k ≠ ";") : searchStr rest k = false := by
  rcases sa_cases h with rfl | ⟨t, x, rfl, ht⟩
  · rfl
  · simp only [searchStr, Tok.srcEq, ht, beq_eq_false_iff_ne, ne_eq]; exact fun e => hk e.symm
theorem sa_two {rest : List Tok} (h : stopsAny d rest = true) (a b : String) (ha : a ≠ ";") : searchTwoUp rest a b = false := by
  rcases sa_cases h with rfl | ⟨t, x, rfl, ht⟩
  · rfl
  · cases x with
    | nil => rfl
    | cons y z =>
      have : t.srcEqUp a = false := by simp only [Tok.srcEqUp, ht, up_semi, beq_eq_false_iff_ne, ne_eq]; exact fun e => ha e.symm
      simp [searchTwoUp, this]
theorem sa_paren {rest : List Tok} (h : stopsAny d rest = true) : searchMark rest PAREN = false := by
  have hb := TQ.b3 (sa_bd h)
  cases rest with
  | nil => rfl
  | cons t x =>
    obtain ⟨_, _, h3, _⟩ := TS.bd_parts hb
    simpa [searchMark] using h3
theorem sa_stops2 {rest : List Tok} (h : stopsAny d rest = true) : TP2.stops2 d rest = true := TQ.bd3_stops (sa_bd h)
theorem sa_end {rest : List Tok} (h : stopsAny d rest = true) : (rest.isEmpty || searchStr rest ";" || searchStr rest ",") = true := by
  have := sa_ends h
  simp only [TD.endsC, Bool.or_eq_true] at this
  simp only [Bool.or_eq_true]
  exact Or.inl this
theorem sa_nil : stopsAny d [] = true := rfl
theorem sa_semi (x : List Tok) : stopsAny d (TDM.semiTok :: x) = true := by
  have : stopsAny d [TDM.semiTok] = true := by cases d <;> decide
  exact this

/-! ### DROP TABLE, TRUNCATE TABLE, MSCK REPAIR TABLE, USE, SHOW DATABASES / TABLES -/
theorem tblName_rest (t : TableName) (ht : TDM.tblOKD t = true) (rest : List Tok) (hr : stopsAny d rest = true) :
    pTblName (tbl t :: rest) = .ok (t, rest) := TDM.tblName_ok t ht rest (sa_str hr "." (by decide))

theorem drop_ok (b : Bool) (t : TableName) (ht : TDM.tblOKD t = true) (rest : List Tok) (hr : stopsAny d rest = true) (f : Nat) :
    pStatement d f (toksDrop b t ++ rest) = .ok (.dropTable b t, rest) := by
  have h1 := tblName_rest t ht rest hr
  unfold pStatement toksDrop
  kw_simp
  unfold pDropTable
  cases b
  · simp only [TD.flag, tbl_eq] at h1 ⊢
    kw_simp
    simp only [h1]
  · simp only [TD.flag]
    kw_simp
    simp only [h1]

theorem truncate_ok (t : TableName) (ht : TDM.tblOKD t = true) (rest : List Tok) (hr : stopsAny d rest = true) (f : Nat) :
    pStatement d f (toksTruncate t ++ rest) = .ok (.truncate t, rest) := by
  have h1 := tblName_rest t ht rest hr
  unfold pStatement toksTruncate
  kw_simp
  unfold pTruncate pKwTable
  kw_simp
  simp only [h1]

theorem msck_ok (t : TableName) (ht : TDM.tblOKD t = true) (rest : List Tok) (hr : stopsAny d rest = true) (f : Nat) :
    pStatement d f (toksMsck t ++ rest) = .ok (.msck t, rest) := by
  have h1 := tblName_rest t ht rest hr
  unfold pStatement toksMsck
  kw_simp
  unfold pMsck pKwTable
  kw_simp
  simp only [h1]

theorem use_ok (s : String) (rest : List Tok) (f : Nat) : pStatement d f (toksUse s ++ rest) = .ok (.use s, rest) := by
  unfold pStatement toksUse
  kw_simp
  unfold pUse
  kw_simp

theorem showDatabases_ok (rest : List Tok) (f : Nat) :
    pStatement d f ([opTok "SHOW", opTok "DATABASES"] ++ rest) = .ok (.showDatabases, rest) := by
  unfold pStatement
  kw_simp
theorem showTables_ok (rest : List Tok) (f : Nat) :
    pStatement d f ([opTok "SHOW", opTok "TABLES"] ++ rest) = .ok (.showTables, rest) := by
  unfold pStatement
  kw_simp

end TR
