import MsqProofs.Lemmas.TRest0
/-!
# T-parse for the remaining statement classes: what may follow, and the statements without sub-structure (C03 / C01)

* `stopsAny` unfolded: the continuation is empty or starts with a leaf of source `;` that continues nothing (`sa_*`);
* DROP TABLE [IF EXISTS], TRUNCATE TABLE, MSCK REPAIR TABLE, USE, SET k = v (dotted / dashed configuration strings), SHOW DATABASES,
  SHOW TABLES, ANALYZE TABLE (Hive rendering with PARTITION and the three flags; the bare MySQL rendering).
-/
set_option linter.unusedVariables false
set_option linter.unusedSimpArgs false
set_option maxHeartbeats 1000000
open Lex PM Ast TP TS
namespace TR
variable {d : Gen.D}

/-! ### the table token -/
theorem tbl_eq (t : TableName) : tbl t = nameTok (TD.tblStr t) := by
  obtain ⟨s, n⟩ := t
  cases s with
  | none => rfl
  | some s => simp [tbl, TQ.tblTok, nameTok, TD.tblStr, String.toList_append]

/-! ### what may follow a statement -/
theorem equalsStr_src {t : Tok} {k : String} (h : t.equalsStr k = true) : up t.src = up k := by
  cases t with
  | single s m => simpa [Tok.equalsStr, Tok.src, Tok.source] using h
  | group k' cs m => simp [Tok.equalsStr] at h

/-- `stopsAny` unfolded -/
theorem sa_cases {rest : List Tok} (h : stopsAny d rest = true) :
    rest = [] ∨ ∃ t x, rest = t :: x ∧ t.src = ";" := by
  simp only [stopsAny, TD.endsC, Bool.and_eq_true, Bool.or_eq_true] at h
  cases rest with
  | nil => exact Or.inl rfl
  | cons t x =>
    right
    refine ⟨t, x, rfl, ?_⟩
    rcases h.2 with h2 | h2
    · simp at h2
    · simpa [searchStr, Tok.srcEq] using h2
theorem sa_bd {rest : List Tok} (h : stopsAny d rest = true) : TQ.Bd3 d 7 rest = true := by
  simp only [stopsAny, Bool.and_eq_true] at h
  exact TDM.stops_bd h.1
theorem sa_stmt {rest : List Tok} (h : stopsAny d rest = true) : TDM.stopsStmt d rest = true := by
  simp only [stopsAny, Bool.and_eq_true] at h; exact h.1
theorem sa_ends {rest : List Tok} (h : stopsAny d rest = true) : TD.endsC rest = true := by
  simp only [stopsAny, Bool.and_eq_true] at h; exact h.2
theorem sa_q2 {rest : List Tok} (h : stopsAny d rest = true) : TQ2.stopsQ2 d rest = true :=
  TQ2.stopsQ2_of_stopsQ (sa_stmt h)
theorem sa_up {rest : List Tok} (h : stopsAny d rest = true) (k : String) (hk : k ≠ ";") : searchStrUp rest k = false := by
  rcases sa_cases h with rfl | ⟨t, x, rfl, ht⟩
  · rfl
  · simp only [searchStrUp, Tok.srcEqUp, ht, up_semi, beq_eq_false_iff_ne, ne_eq]; exact fun e => hk e.symm
theorem sa_str {rest : List Tok} (h : stopsAny d rest = true) (k : String) (hk : k ≠ ";") : searchStr rest k = false := by
  rcases sa_cases h with rfl | ⟨t, x, rfl, ht⟩
  · rfl
  · simp only [searchStr, Tok.srcEq, ht, beq_eq_false_iff_ne, ne_eq]; exact fun e => hk e.symm
theorem sa_two {rest : List Tok} (h : stopsAny d rest = true) (a b : String) (ha : a ≠ ";") : searchTwoUp rest a b = false := by
  rcases sa_cases h with rfl | ⟨t, x, rfl, ht⟩
  · rfl
  · cases x with
    | nil => rfl
    | cons y z =>
      have : t.srcEqUp a = false := by simp only [Tok.srcEqUp, ht, up_semi, beq_eq_false_iff_ne, ne_eq]; exact fun e => ha e.symm
      simp [searchTwoUp, this]
theorem sa_paren {rest : List Tok} (h : stopsAny d rest = true) : searchMark rest PAREN = false := by
  have hb := TQ.b3 (sa_bd h)
  cases rest with
  | nil => rfl
  | cons t x =>
    obtain ⟨_, _, h3, _⟩ := TS.bd_parts hb
    simpa [searchMark] using h3
theorem sa_stops2 {rest : List Tok} (h : stopsAny d rest = true) : TP2.stops2 d rest = true := TQ.bd3_stops (sa_bd h)
theorem sa_end {rest : List Tok} (h : stopsAny d rest = true) : (rest.isEmpty || searchStr rest ";" || searchStr rest ",") = true := by
  have := sa_ends h
  simp only [TD.endsC, Bool.or_eq_true] at this
  simp only [Bool.or_eq_true]
  exact Or.inl this
theorem sa_nil : stopsAny d [] = true := rfl
theorem sa_semi (x : List Tok) : stopsAny d (TDM.semiTok :: x) = true := by
  have : stopsAny d [TDM.semiTok] = true := by cases d <;> decide
  exact this

/-! ### DROP TABLE, TRUNCATE TABLE, MSCK REPAIR TABLE, USE, SHOW DATABASES / TABLES -/
theorem tblName_rest (t : TableName) (ht : TDM2.tblOKD t = true) (rest : List Tok) (hr : stopsAny d rest = true) :
    pTblName (tbl t :: rest) = .ok (t, rest) := TDM2.tblName_ok t ht rest (sa_str hr "." (by decide))

theorem drop_ok (b : Bool) (t : TableName) (ht : TDM2.tblOKD t = true) (rest : List Tok) (hr : stopsAny d rest = true) (f : Nat) :
    pStatement d f (toksDrop b t ++ rest) = .ok (.dropTable b t, rest) := by
  have h1 := tblName_rest t ht rest hr
  unfold pStatement toksDrop
  kw_simp
  unfold pDropTable
  cases b
  · simp only [TD.flag, tbl_eq] at h1 ⊢
    kw_simp
    simp only [h1]
  · simp only [TD.flag]
    kw_simp
    simp only [h1]

theorem truncate_ok (t : TableName) (ht : TDM2.tblOKD t = true) (rest : List Tok) (hr : stopsAny d rest = true) (f : Nat) :
    pStatement d f (toksTruncate t ++ rest) = .ok (.truncate t, rest) := by
  have h1 := tblName_rest t ht rest hr
  unfold pStatement toksTruncate
  kw_simp
  unfold pTruncate pKwTable
  kw_simp
  simp only [h1]

theorem msck_ok (t : TableName) (ht : TDM2.tblOKD t = true) (rest : List Tok) (hr : stopsAny d rest = true) (f : Nat) :
    pStatement d f (toksMsck t ++ rest) = .ok (.msck t, rest) := by
  have h1 := tblName_rest t ht rest hr
  unfold pStatement toksMsck
  kw_simp
  unfold pMsck pKwTable
  kw_simp
  simp only [h1]

theorem use_ok (s : String) (rest : List Tok) (f : Nat) : pStatement d f (toksUse s ++ rest) = .ok (.use s, rest) := by
  unfold pStatement toksUse
  kw_simp
  unfold pUse
  kw_simp

theorem showDatabases_ok (rest : List Tok) (f : Nat) :
    pStatement d f ([opTok "SHOW", opTok "DATABASES"] ++ rest) = .ok (.showDatabases, rest) := by
  unfold pStatement
  kw_simp
theorem showTables_ok (rest : List Tok) (f : Nat) :
    pStatement d f ([opTok "SHOW", opTok "TABLES"] ++ rest) = .ok (.showTables, rest) := by
  unfold pStatement
  kw_simp

/-! ### SET k = v -/
theorem src_cfgTok (s : String) : (cfgTok s).src = s := src_single s _
theorem length_cfgTail (ps : List (Bool × String)) : ps.length ≤ (cfgTail ps).length := by
  induction ps with
  | nil => simp [cfgTail]
  | cons p r ih => obtain ⟨b, w⟩ := p; simp only [cfgTail, List.length_cons]; omega
/-- the loop of `_parse_config_string` rebuilds the string from its pieces -/
theorem cfgLoop_ok (fol : List Tok) (hd : searchStr fol "." = false) (hm : searchStr fol "-" = false) :
    ∀ (ps : List (Bool × String)) (w : String) (g : Nat), ps.length + 1 ≤ g →
      configStringLoop g w (cfgTail ps ++ fol) = .ok (cfgJoin w ps, fol) := by
  intro ps
  induction ps with
  | nil =>
    intro w g hg
    obtain ⟨g, rfl⟩ : ∃ k, g = k + 1 := ⟨g - 1, by omega⟩
    simp [cfgTail, cfgJoin, configStringLoop, hd, hm]
  | cons p r ih =>
    obtain ⟨b, x⟩ := p
    intro w g hg
    simp only [List.length_cons] at hg
    obtain ⟨g, rfl⟩ : ∃ k, g = k + 1 := ⟨g - 1, by omega⟩
    have := ih (w ++ (if b then "." else "-") ++ x) g (by omega)
    cases b
    · simp only [cfgTail, cfgJoin, Bool.false_eq_true, if_false] at this ⊢
      rw [configStringLoop]
      kw_simp
      simp only [src_cfgTok]
      exact this
    · simp only [cfgTail, cfgJoin, if_true] at this ⊢
      rw [configStringLoop]
      kw_simp
      simp only [src_cfgTok]
      exact this
theorem cfg_ok (s : String) (hs : cfgOK s = true) (fol : List Tok) (hd : searchStr fol "." = false) (hm : searchStr fol "-" = false) :
    pConfigString (toksCfg s ++ fol) = .ok (s, fol) := by
  simp only [cfgOK, beq_iff_eq] at hs
  unfold pConfigString toksCfg
  kw_simp
  simp only [src_cfgTok]
  have := cfgLoop_ok fol hd hm (cfgSplit s).2 (cfgSplit s).1 ((cfgTail (cfgSplit s).2 ++ fol).length + 1) (by
    have := length_cfgTail (cfgSplit s).2
    simp only [List.length_append]; omega)
  rw [this, hs]
theorem set_ok (c : ConfigStr) (hn : cfgOK c.name = true) (hv : cfgOK c.value = true) (rest : List Tok) (hr : stopsAny d rest = true) (f : Nat) :
    pStatement d f (toksSet c ++ rest) = .ok (.set c, rest) := by
  obtain ⟨n, v⟩ := c
  have h1 := cfg_ok n hn (TD.eqTok :: (toksCfg v ++ rest)) (by simp only [TD.eqTok]; kw_simp) (by simp only [TD.eqTok]; kw_simp)
  have h2 := cfg_ok v hv rest (sa_str hr "." (by decide)) (sa_str hr "-" (by decide))
  unfold pStatement toksSet
  kw_simp
  unfold pSet
  kw_simp
  unfold pConfigStrExpr
  simp only [h1]
  simp only [TD.eqTok]
  kw_simp
  simp only [h2]

/-! ### ANALYZE TABLE -/
theorem analyze_ok (t : TableName) (p : Option (List Expr)) (fc cm ns : Bool) (ht : TDM2.tblOKD t = true)
    (hp : if d == .HIVE then TDM2.PartRec d noX p else p = none ∧ fc = false ∧ cm = false ∧ ns = false)
    (rest : List Tok) (hr : stopsAny d rest = true) (f : Nat) (hf : 20 * sizeL (toksAnalyze d t p fc cm ns) + 2 ≤ f) :
    pStatement d f (toksAnalyze d t p fc cm ns ++ rest) = .ok (.analyze t p fc cm ns, rest) := by
  have u1 := sa_up hr "PARTITION" (by decide)
  have u2 := sa_two hr "COMPUTE" "STATISTICS" (by decide)
  have u3 := sa_two hr "FOR" "COLUMNS" (by decide)
  have u4 := sa_two hr "CACHE" "METADATA" (by decide)
  have u5 := sa_up hr "NOSCAN" (by decide)
  have e : ∀ X, matchSeq (opTok "ANALYZE" :: opTok "TABLE" :: X) ["ANALYZE", "TABLE"] = .ok ((), X) := by intro X; kw_simp
  unfold pStatement toksAnalyze
  kw_simp
  unfold pAnalyze
  by_cases hd : (d == Gen.D.HIVE) = true
  · simp only [hd, if_true] at hp ⊢
    simp only [toksAnalyze, hd, if_true, sizeL_cons, sizeL_append] at hf
    have h1 : pTblName (tbl t :: (TDM2.toksPart d noX p ++ (opTok "COMPUTE" :: opTok "STATISTICS" :: (TD.flag fc [opTok "FOR", opTok "COLUMNS"] ++
        (TD.flag cm [opTok "CACHE", opTok "METADATA"] ++ (TD.flag ns [opTok "NOSCAN"] ++ rest)))))) = .ok (t, _) :=
      TDM2.tblName_ok t ht _ (TDM2.part_head p _ (by kw_simp))
    have h2 := TDM2.optPartition_ok p hp (opTok "COMPUTE" :: opTok "STATISTICS" :: (TD.flag fc [opTok "FOR", opTok "COLUMNS"] ++
        (TD.flag cm [opTok "CACHE", opTok "METADATA"] ++ (TD.flag ns [opTok "NOSCAN"] ++ rest)))) (by kw_simp) f (by omega)
    simp only at h2
    simp only [List.append_assoc, List.cons_append, e, h1, h2]
    cases fc <;> cases cm <;> cases ns <;> simp only [TD.flag, if_true, Bool.false_eq_true, if_false] <;> kw_simp <;>
      simp only [u3, u4, u5, moveTwoUp, moveStrUp, Bool.false_eq_true, if_false]
  · simp only [hd, Bool.false_eq_true, if_false] at hp ⊢
    obtain ⟨rfl, rfl, rfl, rfl⟩ := hp
    have h1 := tblName_rest t ht rest hr
    simp only [List.cons_append, List.nil_append, e, h1, pOptPartition, u1, Bool.false_eq_true, if_false, moveTwoUp, u2, u3, u4, moveStrUp, u5]

end TR
