/-! the shift/reduce loop of `_parse_compute_expression` (`parser.py:822-848`) over an abstract operand type, and its
    complete characterisation: it returns THE well-nested tree over the operand/operator sequence -/
namespace SR

structure Op where
  name : String
  level : Nat
  deriving DecidableEq, Repr

inductive T (α : Type) where
  | leaf : α → T α
  | node : T α → Op → T α → T α
  deriving Repr

namespace T
variable {α : Type}

def flat : T α → α × List (Op × α)
  | leaf a => (a, [])
  | node l o r =>
    let (a, xs) := l.flat
    let (b, ys) := r.flat
    (a, xs ++ (o, b) :: ys)

def rootLevel : T α → Option Nat
  | leaf _ => none
  | node _ o _ => some o.level

/-- left child may have level ≤, right child must have level < (left associativity; smaller number binds tighter) -/
def WN : T α → Prop
  | leaf _ => True
  | node l o r => l.WN ∧ r.WN ∧ (∀ k, l.rootLevel = some k → k ≤ o.level) ∧ (∀ k, r.rootLevel = some k → k < o.level)

end T

variable {α : Type}

/-- stack top-first: (l, o) means `l o <top>` pending -/
def reduceWhile (lvl : Nat) : List (T α × Op) → T α → List (T α × Op) × T α
  | (l, o) :: st, top => if lvl ≥ o.level then reduceWhile lvl st (.node l o top) else ((l, o) :: st, top)
  | [], top => ([], top)

def collapse : List (T α × Op) → T α → T α
  | (l, o) :: st, top => collapse st (.node l o top)
  | [], top => top

def go : List (T α × Op) → T α → List (Op × α) → T α
  | st, top, [] => collapse st top
  | st, top, (o, e) :: rest =>
    let r := reduceWhile o.level st top
    go ((r.2, o) :: r.1) (.leaf e) rest

def shiftReduce (e0 : α) (rest : List (Op × α)) : T α := go [] (.leaf e0) rest

namespace T
/-- sequence represented by a pending stack plus top -/
def flatSt : List (T α × Op) → (α × List (Op × α)) → α × List (Op × α)
  | [], acc => acc
  | (l, o) :: st, acc => flatSt st (l.flat.1, l.flat.2 ++ (o, acc.1) :: acc.2)
end T

open T

theorem flat_node (l r : T α) (o : Op) :
    (T.node l o r).flat = (l.flat.1, l.flat.2 ++ (o, r.flat.1) :: r.flat.2) := by
  simp [T.flat]

theorem flat_collapse (st : List (T α × Op)) (top : T α) :
    (collapse st top).flat = flatSt st top.flat := by
  induction st generalizing top with
  | nil => simp [collapse, flatSt]
  | cons e st ih =>
    obtain ⟨l, o⟩ := e
    simp [collapse, flatSt, ih, flat_node]

theorem flatSt_reduceWhile (lvl : Nat) (st : List (T α × Op)) (top : T α) :
    flatSt (reduceWhile lvl st top).1 (reduceWhile lvl st top).2.flat = flatSt st top.flat := by
  induction st generalizing top with
  | nil => simp [reduceWhile]
  | cons e st ih =>
    obtain ⟨l, o⟩ := e
    simp only [reduceWhile]
    split
    · rw [ih]; simp [flatSt, flat_node]
    · rfl

theorem flatSt_append (st : List (T α × Op)) (a : α) (xs ys : List (Op × α)) :
    flatSt st (a, xs ++ ys) = ((flatSt st (a, xs)).1, (flatSt st (a, xs)).2 ++ ys) := by
  induction st generalizing a xs with
  | nil => simp [flatSt]
  | cons e st ih =>
    obtain ⟨l, o⟩ := e
    simp only [flatSt]
    have := ih l.flat.1 (l.flat.2 ++ (o, a) :: xs)
    simpa [List.append_assoc] using this

theorem flat_go (st : List (T α × Op)) (top : T α) (rest : List (Op × α)) :
    (go st top rest).flat = ((flatSt st top.flat).1, (flatSt st top.flat).2 ++ rest) := by
  induction rest generalizing st top with
  | nil => simp [go, flat_collapse]
  | cons p rest ih =>
    obtain ⟨o, e⟩ := p
    simp only [go]
    rw [ih]
    simp only [flatSt, T.flat]
    have h := flatSt_reduceWhile o.level st top
    have h2 := flatSt_append (reduceWhile o.level st top).1 (reduceWhile o.level st top).2.flat.1
      (reduceWhile o.level st top).2.flat.2 [(o, e)]
    rw [h2, h]
    simp

theorem flat_shiftReduce (e0 : α) (rest : List (Op × α)) :
    (shiftReduce e0 rest).flat = (e0, rest) := by
  simp [shiftReduce, flat_go, flatSt, T.flat]

/-- rootLevel bounded strictly / weakly -/
def T.rlLt (t : T α) (n : Nat) : Prop := ∀ k, t.rootLevel = some k → k < n
def T.rlLe (t : T α) (n : Nat) : Prop := ∀ k, t.rootLevel = some k → k ≤ n

/-- stack invariant: entries well nested, left-child condition, strictly increasing levels downward,
    and `bound` = strict upper bound required for whatever sits on top of this stack -/
def StInv : List (T α × Op) → Prop
  | [] => True
  | (l, o) :: st => l.WN ∧ l.rlLe o.level ∧ StInv st ∧ (∀ e ∈ st.head?, o.level < e.2.level)

def TopOK (st : List (T α × Op)) (top : T α) : Prop :=
  top.WN ∧ ∀ e ∈ st.head?, top.rlLt e.2.level

theorem collapse_WN (st : List (T α × Op)) (top : T α) (h : StInv st) (ht : TopOK st top) :
    (collapse st top).WN := by
  induction st generalizing top with
  | nil => simpa [collapse] using ht.1
  | cons e st ih =>
    obtain ⟨l, o⟩ := e
    simp only [collapse]
    obtain ⟨hl, hle, hst, hsorted⟩ := h
    apply ih _ hst
    refine ⟨⟨hl, ht.1, hle, ?_⟩, ?_⟩
    · exact ht.2 (l, o) (by simp)
    · intro e he k hk
      simp [T.rootLevel] at hk
      subst hk
      exact hsorted e he

theorem reduceWhile_inv (lvl : Nat) (st : List (T α × Op)) (top : T α) (h : StInv st) (ht : TopOK st top) :
    StInv (reduceWhile lvl st top).1 ∧ TopOK (reduceWhile lvl st top).1 (reduceWhile lvl st top).2 ∧
    (reduceWhile lvl st top).2.WN ∧
    ((reduceWhile lvl st top).2.rlLe lvl ∨ (reduceWhile lvl st top).2 = top) ∧
    (∀ e ∈ (reduceWhile lvl st top).1.head?, lvl < e.2.level) := by
  induction st generalizing top with
  | nil => simp [reduceWhile, StInv, TopOK, ht.1]
  | cons e st ih =>
    obtain ⟨l, o⟩ := e
    obtain ⟨hl, hle, hst, hsorted⟩ := h
    simp only [reduceWhile]
    split
    · rename_i hge
      have hnew : TopOK st (T.node l o top) := by
        refine ⟨⟨hl, ht.1, hle, ht.2 (l, o) (by simp)⟩, ?_⟩
        intro e he k hk
        simp [T.rootLevel] at hk
        subst hk
        exact hsorted e he
      obtain ⟨a, b, c, d, e'⟩ := ih (T.node l o top) hst hnew
      refine ⟨a, b, c, ?_, e'⟩
      rcases d with d | d
      · exact Or.inl d
      · left
        rw [d]
        intro k hk
        simp [T.rootLevel] at hk
        omega
    · rename_i hlt
      refine ⟨⟨hl, hle, hst, hsorted⟩, ht, ht.1, Or.inr rfl, ?_⟩
      intro e he
      simp at he
      subst he
      simp
      omega

theorem go_WN (st : List (T α × Op)) (top : T α) (rest : List (Op × α))
    (h : StInv st) (ht : TopOK st top) (hleaf : top.rootLevel = none) : (go st top rest).WN := by
  induction rest generalizing st top with
  | nil => exact collapse_WN st top h ht
  | cons p rest ih =>
    obtain ⟨o, e⟩ := p
    simp only [go]
    obtain ⟨a, b, c, d, e'⟩ := reduceWhile_inv o.level st top h ht
    apply ih
    · refine ⟨c, ?_, a, e'⟩
      rcases d with d | d
      · exact d
      · rw [d]; intro k hk; rw [hleaf] at hk; cases hk
    · refine ⟨trivial, ?_⟩
      intro e he k hk
      simp [T.rootLevel] at hk
    · rfl

theorem shiftReduce_WN (e0 : α) (rest : List (Op × α)) : (shiftReduce e0 rest).WN :=
  go_WN [] (.leaf e0) rest trivial ⟨trivial, by simp⟩ rfl

/-! uniqueness of the well-nested tree for a given flat sequence -/
namespace T
def ops : T α → List Op
  | leaf _ => []
  | node l o r => l.ops ++ o :: r.ops

theorem ops_eq_flat (t : T α) : t.ops = t.flat.2.map (·.1) := by
  induction t with
  | leaf a => simp [ops, flat]
  | node l o r ihl ihr => simp [ops, flat, ihl, ihr]

/-- in a well nested tree every operator is at most the root's level -/
theorem WN_ops_le (t : T α) (h : t.WN) : ∀ o ∈ t.ops, ∀ k, t.rootLevel = some k → o.level ≤ k := by
  induction t with
  | leaf a => simp [ops]
  | node l o r ihl ihr =>
    obtain ⟨hl, hr, hll, hrl⟩ := h
    intro o' ho' k hk
    simp [rootLevel] at hk; subst hk
    simp [ops] at ho'
    rcases ho' with ho' | ho' | ho'
    · cases hlr : l.rootLevel with
      | none => cases l <;> simp_all [ops, rootLevel]
      | some kl => exact Nat.le_trans (ihl hl o' ho' kl hlr) (hll kl hlr)
    · subst ho'; exact Nat.le_refl _
    · cases hrr : r.rootLevel with
      | none => cases r <;> simp_all [ops, rootLevel]
      | some kr => exact Nat.le_of_lt (Nat.lt_of_le_of_lt (ihr hr o' ho' kr hrr) (hrl kr hrr))
end T

namespace T
theorem flat_ops_le (t : T α) (h : t.WN) (n : Nat) (hb : ∀ k, t.rootLevel = some k → k ≤ n) :
    ∀ p ∈ t.flat.2, p.1.level ≤ n := by
  intro p hp
  have hmem : p.1 ∈ t.ops := by rw [ops_eq_flat]; exact List.mem_map_of_mem hp
  cases hr : t.rootLevel with
  | none => cases t <;> simp_all [rootLevel, flat]
  | some k => exact Nat.le_trans (WN_ops_le t h p.1 hmem k hr) (hb k hr)

theorem flat_ops_lt (t : T α) (h : t.WN) (n : Nat) (hb : ∀ k, t.rootLevel = some k → k < n) :
    ∀ p ∈ t.flat.2, p.1.level < n := by
  intro p hp
  have hmem : p.1 ∈ t.ops := by rw [ops_eq_flat]; exact List.mem_map_of_mem hp
  cases hr : t.rootLevel with
  | none => cases t <;> simp_all [rootLevel, flat]
  | some k => exact Nat.lt_of_le_of_lt (WN_ops_le t h p.1 hmem k hr) (hb k hr)

/-- the root operator position is determined by the sequence: last operator of maximal level -/
theorem split_unique {β : Type} (lv : β → Nat) (xs ys xs' ys' : List β) (m m' : β)
    (h : xs ++ m :: ys = xs' ++ m' :: ys')
    (h1 : ∀ p ∈ xs, lv p ≤ lv m) (h2 : ∀ p ∈ ys, lv p < lv m)
    (h1' : ∀ p ∈ xs', lv p ≤ lv m') (h2' : ∀ p ∈ ys', lv p < lv m') :
    xs = xs' ∧ m = m' ∧ ys = ys' := by
  induction xs generalizing xs' with
  | nil =>
    cases xs' with
    | nil => simp at h; exact ⟨rfl, h.1, h.2⟩
    | cons c zs =>
      simp at h
      obtain ⟨rfl, hys⟩ := h
      -- m = c ∈ xs', m' ∈ ys
      have a := h1' m (by simp)
      have b := h2 m' (by rw [hys]; simp)
      omega
  | cons x xs ih =>
    cases xs' with
    | nil =>
      simp at h
      obtain ⟨rfl, hys⟩ := h
      have a := h1 x (by simp)
      have b := h2' m (by rw [← hys]; simp)
      omega
    | cons c zs =>
      simp at h
      obtain ⟨rfl, hrest⟩ := h
      obtain ⟨e1, e2, e3⟩ := ih zs hrest (fun p hp => h1 p (by simp [hp])) (fun p hp => h1' p (by simp [hp]))
      exact ⟨by rw [e1], e2, e3⟩

theorem WN_unique (t1 t2 : T α) (h1 : t1.WN) (h2 : t2.WN) (hf : t1.flat = t2.flat) : t1 = t2 := by
  induction t1 generalizing t2 with
  | leaf a =>
    cases t2 with
    | leaf b => simp [flat] at hf; rw [hf]
    | node l o r => simp [flat] at hf
  | node l o r ihl ihr =>
    cases t2 with
    | leaf b => simp [flat] at hf
    | node l' o' r' =>
      obtain ⟨hl, hr, hll, hrl⟩ := h1
      obtain ⟨hl', hr', hll', hrl'⟩ := h2
      simp only [flat, Prod.mk.injEq] at hf
      obtain ⟨ha, hxs⟩ := hf
      have := split_unique (fun p : Op × α => p.1.level) l.flat.2 r.flat.2 l'.flat.2 r'.flat.2 (o, r.flat.1) (o', r'.flat.1) hxs
        (flat_ops_le l hl o.level hll) (flat_ops_lt r hr o.level hrl)
        (flat_ops_le l' hl' o'.level hll') (flat_ops_lt r' hr' o'.level hrl')
      obtain ⟨e1, e2, e3⟩ := this
      simp only [Prod.mk.injEq] at e2
      have el : l = l' := ihl l' hl hl' (Prod.ext ha e1)
      have er : r = r' := ihr r' hr hr' (Prod.ext e2.2 e3)
      rw [el, er, e2.1]
end T

/-- C02 (compute level, abstract form): the loop's result is THE well-nested tree over the sequence -/
theorem shiftReduce_spec (e0 : α) (rest : List (Op × α)) (t : T α) :
    (t.flat = (e0, rest) ∧ t.WN) ↔ t = shiftReduce e0 rest := by
  constructor
  · intro ⟨hf, hw⟩
    exact T.WN_unique t _ hw (shiftReduce_WN e0 rest) (by rw [hf, flat_shiftReduce])
  · intro h; subst h; exact ⟨flat_shiftReduce e0 rest, shiftReduce_WN e0 rest⟩
end SR
