import MsqProofs.Lemmas.ParseSubst1
/-!
# C06, parser half — part 2: what the token-level tests of the parser see of two `QE`-related tokens

Two related tokens are equal, or their sources are `SrcQ`: both begin with a quote character (or `(`).  Every comparison the parser makes
with a token source is a comparison with a PLAIN constant (`plainB k`: `k` is empty or begins with an ASCII character that is no quote
character and not `(`) — one generated fact `plainB "WHEN" = true` per string constant of the model (`ParseSubstKw.lean`) — so it answers
`false` on both sides:
`srcEqUp`, `srcEq`, `equalsStr`, membership of `src` / `up src` in a set of plain words, the operator tables, the CAST type table.
`int()` / `as_int` fail alike.  The texts stored from the two tokens (`src`, `unifyName src`, the pair of `splitName`) are payload texts,
hence equal after erasure.
-/
set_option linter.unusedSimpArgs false
set_option linter.unusedVariables false
set_option maxHeartbeats 1000000
open Lex PM Ast
namespace PMQ

/-! ### plain constants and opaque texts (no payload set involved) -/
def opqCh (c : Char) : Bool := c == '\'' || c == '"' || c == '`' || c == '('
/-- a constant the parser compares token sources with: empty, or its first character is ASCII, no quote character, not `(` -/
def plainB (k : String) : Bool := match k.toList with | c :: _ => decide (c.toNat < 128) && !opqCh c | [] => true
/-- a text that begins with a quote character or `(` -/
def Opq (x : String) : Prop := opaqueHead x.toList = true
/-- all String comparisons of the model are folded into this function before the runs are split (`grind` turns `a == b` into `a = b`,
which cannot be a pattern) -/
def strEq (a b : String) : Bool := a == b
theorem strEq_fold (a b : String) : (a == b) = strEq a b := rfl

theorem opaqueHead_eq (s : List Char) : opaqueHead s = (match s with | c :: _ => opqCh c | [] => false) := by
  cases s <;> simp [opaqueHead, opqCh]
theorem opqCh_lt (c : Char) (h : opqCh c = true) : c.toNat < 128 := by
  simp [opqCh] at h; rcases h with ((rfl | rfl) | rfl) | rfl <;> decide
theorem upperAscii_fin : ∀ n : Fin 128, opqCh (Py.upperAsciiChar (Char.ofNat n.val)) = opqCh (Char.ofNat n.val) ∧
    (Py.upperAsciiChar (Char.ofNat n.val)).toNat < 128 := by decide
theorem upperAscii_opq (c : Char) (h : c.toNat < 128) : opqCh (Py.upperAsciiChar c) = opqCh c ∧ (Py.upperAsciiChar c).toNat < 128 := by
  have := upperAscii_fin ⟨c.toNat, h⟩
  simpa [Char.ofNat_toNat] using this
theorem pyUpper_cons (c : Char) (r : List Char) (h : c.toNat < 128) : Gen.pyUpper (c :: r) = Py.upperAsciiChar c :: Gen.pyUpper r := by
  simp [Gen.pyUpper, Py.upperWith, h]
theorem up_toList (x : String) : (up x).toList = Gen.pyUpper x.toList := by simp [up, Gen.pyUpperS]

theorem opq_up {x : String} (h : Opq x) : Opq (up x) := by
  unfold Opq at h ⊢
  rw [up_toList]
  cases hx : x.toList with
  | nil => rw [hx] at h; simp [opaqueHead] at h
  | cons c r =>
    rw [hx, opaqueHead_eq] at h; simp only at h
    rw [pyUpper_cons c r (opqCh_lt c h), opaqueHead_eq]; simp only
    rw [(upperAscii_opq c (opqCh_lt c h)).1]; exact h
theorem plain_up {k : String} (h : plainB k = true) : plainB (up k) = true := by
  unfold plainB at h ⊢
  rw [up_toList]
  cases hk : k.toList with
  | nil => simp [Gen.pyUpper, Py.upperWith]
  | cons c r =>
    rw [hk] at h; simp only [Bool.and_eq_true, decide_eq_true_eq, Bool.not_eq_true'] at h
    rw [pyUpper_cons c r h.1]; simp only [Bool.and_eq_true, decide_eq_true_eq, Bool.not_eq_true']
    have := upperAscii_opq c h.1
    exact ⟨this.2, by rw [this.1]; exact h.2⟩
theorem opq_ne_plain {x k : String} (hx : Opq x) (hk : plainB k = true) : x ≠ k := by
  rintro rfl
  unfold Opq at hx; unfold plainB at hk
  cases h : x.toList with
  | nil => rw [h] at hx; simp [opaqueHead] at hx
  | cons c r =>
    rw [h, opaqueHead_eq] at hx; rw [h] at hk
    simp only [Bool.and_eq_true, decide_eq_true_eq, Bool.not_eq_true'] at hk hx
    rw [hx] at hk; exact absurd hk.2 (by simp)
theorem opq_strEq {x k : String} (hx : Opq x) (hk : plainB k = true) : strEq x k = false := by
  simpa [strEq] using opq_ne_plain hx hk
theorem opq_contains {x : String} (hx : Opq x) (ks : List String) (hk : ks.all plainB = true) : ks.contains x = false := by
  induction ks with
  | nil => rfl
  | cons k ks ih =>
    simp only [List.all_cons, Bool.and_eq_true] at hk
    have := opq_ne_plain hx hk.1
    simp only [List.contains_cons, ih hk.2, Bool.or_false]
    simpa using this
theorem opq_find {α : Type} {x : String} (hx : Opq x) (l : List (String × α)) (hl : (l.all fun e => plainB e.1) = true) :
    l.find? (·.1 == x) = none := by
  induction l with
  | nil => rfl
  | cons e l ih =>
    simp only [List.all_cons, Bool.and_eq_true] at hl
    have := opq_ne_plain hx hl.1
    rw [List.find?_cons, ih hl.2]
    have h2 : (e.1 == x) = false := by simpa using fun h => this h.symm
    simp [h2]
theorem opq_ofList {s : List Char} (h : opaqueHead s = true) : Opq (String.ofList s) := by
  simpa [Opq, String.toList_ofList] using h
theorem opq_intBody {s : List Char} (h : opaqueHead s = true) : intBody s = s ∧ isAsciiIntBody s = false ∧ (!s.isEmpty && s.all Char.isDigit) = false := by
  cases s with
  | nil => simp [opaqueHead] at h
  | cons c r =>
    rw [opaqueHead_eq] at h; simp only at h
    simp [opqCh] at h
    rcases h with ((rfl | rfl) | rfl) | rfl <;> refine ⟨rfl, ?_, ?_⟩ <;> simp [isAsciiIntBody] <;> decide
theorem opq_pyInt {s : List Char} (h : opaqueHead s = true) :
    pyInt (String.ofList s) = if s.any p128 then .error (.unmodelled "int() of non-ASCII text") else .error (.py .ValueError) := by
  obtain ⟨h1, h2, _⟩ := opq_intBody h
  simp only [pyInt, hasNonAscii, String.toList_ofList, h1, h2]
  rfl
theorem opq_asInt {s : List Char} (h : opaqueHead s = true) :
    asInt (String.ofList s) = if s.any p128 then .error (.unmodelled "as_int of non-ASCII text") else .error .parse := by
  obtain ⟨h1, _, h3⟩ := opq_intBody h
  simp only [asInt, hasNonAscii, isIntLiteral, String.toList_ofList, h1, h3]
  rfl

/-- a bracket group renders as `(`…`)`: `str.strip("`")` has nothing to strip -/
theorem unifyName_paren (l : List Char) : unifyName (String.ofList ('(' :: (l ++ [')']))) = String.ofList ('(' :: (l ++ [')'])) := by
  simp [unifyName, String.toList_ofList, List.dropWhile]

/-- the look-up of the saving mode of a generated column, as a function of the upper-cased word alone -/
def genModeOf (u : String) : Option (String × String) := Gen.genColSaveModes.find? (fun x => x.1 == u)
theorem genModes_find (s : String) : Gen.genColSaveModes.find? (fun x => x.1 == up s) = genModeOf (up s) := rfl
/-- a word the parser passes on to a chain of comparisons with plain constants (`pKwBody`) -/
def kwRel (k k' : String) : Prop := ∀ w, plainB w = true → strEq k w = strEq k' w
theorem kwRel_strEq {k k' : String} (h : kwRel k k') (w : String) (hw : plainB w = true) : strEq k w = strEq k' w := h w hw
grind_pattern kwRel_strEq => kwRel k k', strEq k w

variable [S : PaySet]

/-! ### one token -/
section tok
variable {t t' : Tok} (h : QE t t')
include h
theorem qe_marks : t.marks = t'.marks := by
  cases t <;> cases t' <;> simp_all [QE, Tok.marks]
theorem qe_has (m : Nat) : t.has m = t'.has m := by simp [Tok.has, qe_marks h]
theorem qe_children : QEL t.children t'.children := by
  cases t <;> cases t' <;> simp_all [QE, Tok.children]
/-- the tokens are equal, or their sources are opaque payload texts -/
theorem qe_cases : t = t' ∨ (SrcQ (Tok.source t) (Tok.source t') ∧
    (t.has NAME = false ∨ (dotOK (Tok.source t) = true ∧ dotOK (Tok.source t') = true))) := by
  cases t with
  | single s m => cases t' with
    | single s' m' =>
      simp only [QE] at h
      obtain ⟨rfl, h2⟩ := h
      rcases h2 with rfl | ⟨h1, h3⟩
      · exact .inl rfl
      · refine .inr ⟨h1, ?_⟩
        rcases h3 with h3 | h3
        · left; simp [Tok.has, Tok.marks, h3]
        · right; exact h3
    | group _ _ _ => simp [QE] at h
  | group k cs m => cases t' with
    | single _ _ => simp [QE] at h
    | group k' cs' m' =>
      simp only [QE] at h
      obtain ⟨rfl, rfl, _, h4⟩ := h
      rcases h4 with rfl | ⟨h5, h6⟩
      · exact .inl rfl
      · exact .inr ⟨h6, .inl (by simp [Tok.has, Tok.marks, h5])⟩
theorem qe_opq : t = t' ∨ (Opq t.src ∧ Opq t'.src ∧ Opq (up t.src) ∧ Opq (up t'.src)) := by
  rcases qe_cases h with e | ⟨⟨h1, h2, _⟩, _⟩
  · exact .inl e
  · exact .inr ⟨opq_ofList h1, opq_ofList h2, opq_up (opq_ofList h1), opq_up (opq_ofList h2)⟩
theorem qe_srcEqUp (k : String) (hk : plainB k = true) : t.srcEqUp k = t'.srcEqUp k := by
  rcases qe_opq h with rfl | ⟨_, _, h3, h4⟩
  · rfl
  · have a := opq_ne_plain h3 hk; have b := opq_ne_plain h4 hk
    simp only [Tok.srcEqUp, beq_eq_false_iff_ne.mpr a, beq_eq_false_iff_ne.mpr b]
theorem qe_srcEq (k : String) (hk : plainB k = true) : t.srcEq k = t'.srcEq k := by
  rcases qe_opq h with rfl | ⟨h1, h2, _, _⟩
  · rfl
  · have a := opq_ne_plain h1 hk; have b := opq_ne_plain h2 hk
    simp only [Tok.srcEq, beq_eq_false_iff_ne.mpr a, beq_eq_false_iff_ne.mpr b]
theorem qe_equalsStr (k : String) (hk : plainB k = true) : t.equalsStr k = t'.equalsStr k := by
  rcases qe_opq h with rfl | ⟨_, _, h3, h4⟩
  · rfl
  · have a := opq_ne_plain h3 (plain_up hk); have b := opq_ne_plain h4 (plain_up hk)
    have a2 := beq_eq_false_iff_ne.mpr a; have b2 := beq_eq_false_iff_ne.mpr b
    cases t <;> cases t' <;> simp only [Tok.equalsStr, Tok.src, Tok.source] at a2 b2 ⊢ <;> first | rfl | rw [a2, b2] | simp [QE] at h
theorem qe_strEq_up (k : String) (hk : plainB k = true) : strEq (up t.src) k = strEq (up t'.src) k := by
  rcases qe_opq h with rfl | ⟨_, _, h3, h4⟩
  · rfl
  · rw [opq_strEq h3 hk, opq_strEq h4 hk]
theorem qe_strEq_src (k : String) (hk : plainB k = true) : strEq t.src k = strEq t'.src k := by
  rcases qe_opq h with rfl | ⟨h1, h2, _, _⟩
  · rfl
  · rw [opq_strEq h1 hk, opq_strEq h2 hk]
theorem qe_kwRel : kwRel (up t.src) (up t'.src) := fun w hw => qe_strEq_up h w hw
theorem qe_contains_src (ks : List String) (hk : ks.all plainB = true) : ks.contains t.src = ks.contains t'.src := by
  rcases qe_opq h with rfl | ⟨h1, h2, _, _⟩
  · rfl
  · rw [opq_contains h1 ks hk, opq_contains h2 ks hk]
theorem qe_contains_up (ks : List String) (hk : ks.all plainB = true) : ks.contains (up t.src) = ks.contains (up t'.src) := by
  rcases qe_opq h with rfl | ⟨_, _, h3, h4⟩
  · rfl
  · rw [opq_contains h3 ks hk, opq_contains h4 ks hk]
theorem qe_unarySet (d : Gen.D) : (Gen.unarySet d).contains t.src = (Gen.unarySet d).contains t'.src :=
  qe_contains_src h _ (by cases d <;> decide)
theorem qe_notSet (d : Gen.D) : (Gen.notSet d).contains (up t.src) = (Gen.notSet d).contains (up t'.src) :=
  qe_contains_up h _ (by cases d <;> decide)
theorem qe_compareOp : compareOp? t.src = compareOp? t'.src := by
  rcases qe_opq h with rfl | ⟨h1, h2, _, _⟩
  · rfl
  · simp only [compareOp?, opq_find h1 Gen.compareHash (by decide), opq_find h2 Gen.compareHash (by decide)]
theorem qe_computeOp : computeOp? (up t.src) = computeOp? (up t'.src) := by
  rcases qe_opq h with rfl | ⟨_, _, h3, h4⟩
  · rfl
  · simp only [computeOp?, opq_find h3 Gen.computeHash (by decide), opq_find h4 Gen.computeHash (by decide)]
theorem qe_genMode : genModeOf (up t.src) = genModeOf (up t'.src) := by
  rcases qe_opq h with rfl | ⟨_, _, h3, h4⟩
  · rfl
  · simp only [genModeOf, opq_find h3 Gen.genColSaveModes (by decide), opq_find h4 Gen.genColSaveModes (by decide)]
theorem qe_castTypes : Gen.castTypes.find? (fun k => t.equalsStr k.2) = Gen.castTypes.find? (fun k => t'.equalsStr k.2) := by
  have : ∀ (l : List (String × String)), (l.all fun e => plainB e.2) = true →
      l.find? (fun k => t.equalsStr k.2) = l.find? (fun k => t'.equalsStr k.2) := by
    intro l hl
    induction l with
    | nil => rfl
    | cons e l ih =>
      simp only [List.all_cons, Bool.and_eq_true] at hl
      simp only [List.find?_cons, qe_equalsStr h e.2 hl.1, ih hl.2]
  exact this _ (by decide)
theorem qe_pyInt : pyInt t.src = pyInt t'.src := by
  rcases qe_cases h with rfl | ⟨⟨h1, h2, h3, _⟩, _⟩
  · rfl
  · simp only [Tok.src, opq_pyInt h1, opq_pyInt h2, h3]
theorem qe_asInt : asInt t.src = asInt t'.src := by
  rcases qe_cases h with rfl | ⟨⟨h1, h2, h3, _⟩, _⟩
  · rfl
  · simp only [Tok.src, opq_asInt h1, opq_asInt h2, h3]
/-- the stored source: a payload text on both sides, or the same -/
theorem qe_er_src : er t.src = er t'.src := by
  rcases qe_cases h with rfl | ⟨⟨_, _, _, h4, h5, _, _⟩, _⟩
  · rfl
  · rw [er_eq_iff]; exact .inr ⟨h4, h5⟩
/-- a stored name -/
theorem qe_er_unify : er (unifyName t.src) = er (unifyName t'.src) := by
  rcases qe_cases h with rfl | ⟨⟨_, _, _, _, _, h6, h7⟩, _⟩
  · rfl
  · rw [er_eq_iff]; exact .inr ⟨h6, h7⟩
theorem qe_splitName (hn : t.has NAME = true) :
    splitName t.src = splitName t'.src ∨
    (splitName t.src = .ok (none, unifyName t.src) ∧ splitName t'.src = .ok (none, unifyName t'.src)) := by
  rcases qe_cases h with rfl | ⟨_, h8⟩
  · exact .inl rfl
  · rcases h8 with h8 | ⟨h8, h9⟩
    · rw [h8] at hn; cases hn
    · right
      simp only [dotOK, bne_iff_ne, ne_eq] at h8 h9
      simp only [splitName, Tok.src, String.toList_ofList]
      constructor
      · rw [if_neg (by simpa using h8)]
      · rw [if_neg (by simpa using h9)]
end tok

end PMQ
